/-
  C06, read faults on the stream source, lifted through the whole parser — part 1: the relation and
  the lexer.

  `Fault.lean` relates a fault-free stream parser and a stream parser whose reader fails after the
  bytes it still holds (`FSim tail s t`), for the reader primitives and the lexer, *with the same
  fuel on both sides*, and stops below `next_value`: the public entry points compute their fuel from
  the length of the unread input, which is shorter on the faulty side.

  This file repeats that development (copy-and-generalise, `Fault.lean` is unchanged) for a relation
  `GRes` that is
    * fuel-heterogeneous: the faulty side may run with less fuel than the fault-free side and is
      then allowed to run out of fuel (first disjunct; excluded for the entry points by the fuel
      theorems of `Progress.lean`),
    * explicit about the parser state after the fault: an `Err.io` result leaves the faulty parser
      `FDead` (nothing left, reader failing), from where every later call reports `Err.io` again,
    * explicit about *when* the fault is hit: only if the fault-free run reads beyond the cut
      (`FBeyond`: the fault-free run stops with at most `|tail|` unread bytes),
    * closed under the error-capturing blocks of `next_value` (`match (ret, self.end_seq(close))`):
      when both runs fail with the same syntax error the faulty parser may already be `FDead`
      (the read error that `end_seq` hit is dropped by the code in favour of the earlier error).
-/
import LexprModel.Proofs.Fault
import LexprModel.Proofs.PrefixDet
namespace Lexpr
namespace Parse

/-! ## parsers only consume -/

/-- a computation never ends with more unread input than it started with -/
def RestNonInc {α : Type} (m : P α) : Prop :=
  ∀ s s', (m s).endsIn s' → s'.rd.rest.length ≤ s.rd.rest.length

theorem RestNonInc.of_sim {α : Type} {m m' : P α} (h : PrefixDet.Sim m m') : RestNonInc m := by
  intro s s' he
  have := h s []
  rcases he with ⟨a, hr⟩ | ⟨e, hr⟩ <;> rw [hr] at this <;> exact this.1.length_le

section
variable {α β : Type}

theorem RestNonInc.pure {a : α} : RestNonInc (pure a : P α) := .of_sim PrefixDet.Sim.pure
theorem RestNonInc.errAt {c : Code} : RestNonInc (errAt c : P α) := .of_sim PrefixDet.Sim.errAt
theorem RestNonInc.peekErr {c : Code} : RestNonInc (peekErr c : P α) := .of_sim PrefixDet.Sim.peekErr
theorem RestNonInc.peek : RestNonInc peek := .of_sim PrefixDet.peek_s

theorem RestNonInc.bind {m : P α} {f : α → P β} (hm : RestNonInc m) (hf : ∀ a, RestNonInc (f a)) :
    RestNonInc (m >>= f) := by
  intro s s' he
  change (P.bind m f s).endsIn s' at he
  unfold P.bind at he
  cases hms : m s with
  | ok a s1 =>
    rw [hms] at he
    exact Nat.le_trans (hf a s1 s' he) (hm s s1 (.inl ⟨a, hms⟩))
  | err e s1 =>
    rw [hms] at he
    rcases he with ⟨a, h⟩ | ⟨e', h⟩
    · cases h
    · cases h; exact hm s _ (.inr ⟨_, hms⟩)
  | panic p => rw [hms] at he; rcases he with ⟨a, h⟩ | ⟨e', h⟩ <;> cases h
  | fuel => rw [hms] at he; rcases he with ⟨a, h⟩ | ⟨e', h⟩ <;> cases h

theorem RestNonInc.ite {c : Prop} [Decidable c] {a b : P α} (ha : c → RestNonInc a) (hb : ¬c → RestNonInc b) :
    RestNonInc (if c then a else b) := by
  split
  · exact ha ‹_›
  · exact hb ‹_›

end

/-! ## the relation -/

/-- The faulty parser has run into the fault: nothing is left and the reader fails. -/
def FDead (t : St) : Prop := t.rd.rest = [] ∧ t.rd.faulty = true

/-- The fault-free run has read beyond the cut: if it stops, at most `|tail|` bytes are unread. -/
def FBeyond (tail : List UInt8) {α : Type} (r : Res α) : Prop :=
  ∀ s', r.endsIn s' → s'.rd.rest.length ≤ tail.length

/-- Outcome of the faulty run (right, possibly with less fuel) against the fault-free run (left):
    it ran out of its smaller fuel, or it stopped with `Err.io` at the fault (and then the
    fault-free run reads beyond the cut), or it is the same outcome (same value, same error with
    the same position, same panic). -/
def GRes (tail : List UInt8) {α : Type} (r₁ r₂ : Res α) : Prop :=
  r₂ = .fuel ∨ (∃ t', r₂ = .err .io t' ∧ FDead t' ∧ FBeyond tail r₁) ∨
  match r₁, r₂ with
  | .ok a s, .ok b t => a = b ∧ FSim tail s t
  | .err e s, .err e' t =>
    e = e' ∧ (FSim tail s t ∨ (FDead t ∧ s.rd.rest.length ≤ tail.length))
  | .panic p, .panic q => p = q
  | _, _ => False

structure GRel (tail : List UInt8) {α : Type} (m₁ m₂ : P α) : Prop where
  app : ∀ s t, FSim tail s t → GRes tail (m₁ s) (m₂ t)
  mono : RestNonInc m₁

theorem dead_consume {t : St} (hf : t.rd.faulty = true) (n : Nat) (hn : t.rd.rest.length ≤ n) :
    FDead { t with rd := t.rd.consume n } :=
  ⟨by show (t.rd.consume n).rest = []
      rw [Progress.consume_rest]; exact List.drop_eq_nil_of_le hn,
   by show (t.rd.consume n).faulty = true
      rw [Progress.consume_faulty]; exact hf⟩

section
variable {tail : List UInt8} {α β : Type}

theorem FBeyond.of_nonInc {m : P α} (hm : RestNonInc m) {s : St} (h : s.rd.rest.length ≤ tail.length) :
    FBeyond tail (m s) :=
  fun s' he => Nat.le_trans (hm s s' he) h

theorem FBeyond.bind {r₁ : Res α} {f₁ : α → P β} (h : FBeyond tail r₁) (hf : ∀ a, RestNonInc (f₁ a)) :
    FBeyond tail
      (match (generalizing := false) r₁ with
        | .ok a s' => f₁ a s' | .err e s' => .err e s' | .panic p => .panic p | .fuel => .fuel) := by
  intro s' he
  cases r₁ with
  | ok a s1 => exact Nat.le_trans (hf a s1 s' he) (h s1 (.inl ⟨a, rfl⟩))
  | err e s1 =>
    rcases he with ⟨a, h'⟩ | ⟨e', h'⟩
    · cases h'
    · cases h'; exact h _ (.inr ⟨_, rfl⟩)
  | panic p => rcases he with ⟨a, h'⟩ | ⟨e', h'⟩ <;> cases h'
  | fuel => rcases he with ⟨a, h'⟩ | ⟨e', h'⟩ <;> cases h'

theorem FSim.len {s t : St} (h : FSim tail s t) :
    s.rd.rest.length = t.rd.rest.length + tail.length := by rw [h.rest]; simp

theorem GRel.pure (a : α) : GRel tail (pure a : P α) (pure a) :=
  ⟨fun _ _ h => .inr (.inr ⟨rfl, h⟩), .pure⟩

/-- state-level form of the bind rule -/
theorem GRes.bind {r₁ r₂ : Res α} {f₁ f₂ : α → P β} (h : GRes tail r₁ r₂)
    (hm : ∀ a, RestNonInc (f₁ a))
    (hf : ∀ a s t, FSim tail s t → GRes tail (f₁ a s) (f₂ a t)) :
    GRes tail
      (match (generalizing := false) r₁ with
        | .ok a s' => f₁ a s' | .err e s' => .err e s' | .panic p => .panic p | .fuel => .fuel)
      (match (generalizing := false) r₂ with
        | .ok a s' => f₂ a s' | .err e s' => .err e s' | .panic p => .panic p | .fuel => .fuel) := by
  rcases h with rfl | ⟨t', rfl, hd, hb⟩ | hc
  · exact .inl rfl
  · exact .inr (.inl ⟨t', rfl, hd, hb.bind hm⟩)
  · revert hc
    cases r₁ <;> cases r₂ <;> intro hc <;> simp only at hc
    all_goals first | exact hc.elim | exact .inr (.inr hc) | skip
    obtain ⟨rfl, hs⟩ := hc
    exact hf _ _ _ hs

theorem GRel.bind {m₁ m₂ : P α} {f₁ f₂ : α → P β} (hm : GRel tail m₁ m₂)
    (hf : ∀ a, GRel tail (f₁ a) (f₂ a)) : GRel tail (m₁ >>= f₁) (m₂ >>= f₂) :=
  ⟨fun s t h => (hm.app s t h).bind (fun a => (hf a).mono) (fun a s t hs => (hf a).app s t hs),
   hm.mono.bind fun a => (hf a).mono⟩

theorem GRel.ite {c : Prop} [Decidable c] {a b a' b' : P α}
    (ha : c → GRel tail a a') (hb : ¬c → GRel tail b b') :
    GRel tail (if c then a else b) (if c then a' else b') := by
  split
  · exact ha ‹_›
  · exact hb ‹_›

theorem RestNonInc.panicAt {p : Site} : RestNonInc (panicAt p : P α) := .of_sim (PrefixDet.Sim.panicAt (m' := Parse.panicAt p))

theorem GRel.panicAt (p : Site) : GRel tail (panicAt p : P α) (Parse.panicAt p) :=
  ⟨fun _ _ _ => .inr (.inr rfl), .panicAt⟩

/-- the faulty side is out of fuel -/
theorem GRel.fuel0 {m : P α} (hm : RestNonInc m) : GRel tail m Parse.outOfFuel :=
  ⟨fun _ _ _ => .inl rfl, hm⟩

theorem RestNonInc.outOfFuel : RestNonInc (outOfFuel : P α) := .of_sim (PrefixDet.Sim.outOfFuel (m' := Parse.outOfFuel))

theorem GRel.outOfFuel : GRel tail (outOfFuel : P α) Parse.outOfFuel := GRel.fuel0 .outOfFuel

theorem GRel.errAt (c : Code) : GRel tail (errAt c : P α) (Parse.errAt c) :=
  ⟨fun s t h => .inr (.inr ⟨by show Err.syntax _ _ _ = Err.syntax _ _ _; rw [h.position], .inl h⟩),
   .errAt⟩

theorem GRel.peekErr (c : Code) : GRel tail (peekErr c : P α) (Parse.peekErr c) :=
  ⟨fun s t h => .inr (.inr ⟨by show Err.syntax _ _ _ = Err.syntax _ _ _; rw [h.peekPosition],
    .inl h⟩), .peekErr⟩

theorem GRel.getPos : GRel tail getPos getPos :=
  ⟨fun _ _ h => .inr (.inr ⟨h.position, h⟩), .of_sim PrefixDet.getPos_s⟩

theorem FSim.setDepth {s t : St} (h : FSim tail s t) (d : Nat) :
    FSim tail { s with depth := d } { t with depth := d } :=
  ⟨h.rest, h.line, h.col, h.peeked, rfl, h.faulty₁, h.faulty₂, h.mode₁, h.mode₂, h.inv⟩

theorem GRel.enter : GRel tail enter enter := by
  refine ⟨?_, .of_sim PrefixDet.enter_s⟩
  intro s t h
  unfold Parse.enter
  rw [h.depth, h.peekPosition]
  by_cases h0 : (t.depth == 0) = true
  · simp only [h0, if_true]; exact .inr (.inr rfl)
  · simp only [h0]
    by_cases h1 : (t.depth - 1 == 0) = true
    · simp only [h1, if_true]; exact .inr (.inr ⟨rfl, .inl h⟩)
    · simp only [h1]
      exact .inr (.inr ⟨rfl, h.setDepth _⟩)

theorem GRel.leave : GRel tail leave leave :=
  ⟨fun s t h => .inr (.inr ⟨rfl, by
    have := h.setDepth (tail := tail) (t.depth + 1)
    rw [h.depth]
    exact this⟩), .of_sim PrefixDet.leave_s⟩

/-- `peek`: a byte the faulty reader still holds is seen by both; at the cut the faulty
    reader reports `Err.io` (never end of input) and is dead. -/
theorem GRel.peek : GRel tail peek peek := by
  refine ⟨?_, .peek⟩
  intro s t h
  cases hr : t.rd.rest with
  | nil =>
    refine .inr (.inl ⟨t, ?_, ⟨hr, h.faulty₂⟩, FBeyond.of_nonInc .peek (by rw [h.len, hr]; simp)⟩)
    simp [Parse.peek, hr, h.faulty₂]
  | cons b bs =>
    unfold Parse.peek
    rw [h.rest, hr]
    refine .inr (.inr ⟨rfl, ⟨?_, h.line, h.col, ?_, h.depth, h.faulty₁, h.faulty₂, h.mode₁,
      h.mode₂, ?_⟩⟩)
    · simp [h.rest, hr]
    · simp [h.peeked, h.mode₁, h.mode₂]
    · intro _; simp [hr]

theorem RestNonInc.next : RestNonInc next := .of_sim PrefixDet.next_s

/-- `next`: a byte the faulty reader still holds is consumed by both; at the cut the faulty
    reader reports `Err.io`. -/
theorem GRel.next : GRel tail next next := by
  refine ⟨?_, .next⟩
  intro s t h
  cases hr : t.rd.rest with
  | nil =>
    refine .inr (.inl ⟨t, ?_, ⟨hr, h.faulty₂⟩, FBeyond.of_nonInc .next (by rw [h.len, hr]; simp)⟩)
    simp [Parse.next, hr, h.faulty₂]
  | cons b bs =>
    unfold Parse.next
    rw [h.rest, hr]
    exact .inr (.inr ⟨rfl, h.consume 1 (by simp [hr])⟩)

/-- `discard` after a successful `peek` (the faulty reader holds a byte). -/
theorem FSim.gdiscard {s t : St} (h : FSim tail s t) (hne : t.rd.rest ≠ []) :
    GRes tail (Parse.discard s) (Parse.discard t) := by
  unfold Parse.discard
  rw [h.rest]
  cases hr : t.rd.rest with
  | nil => exact absurd hr hne
  | cons b bs => exact .inr (.inr ⟨rfl, h.consume 1 (by simp [hr])⟩)

/-- the unread input of the fault-free reader once it has consumed at least what the faulty
    reader holds -/
theorem FSim.consume_beyond {s t : St} (h : FSim tail s t) {n : Nat} (hn : t.rd.rest.length ≤ n) :
    ({ s with rd := s.rd.consume n } : St).rd.rest.length ≤ tail.length := by
  show (s.rd.consume n).rest.length ≤ _
  rw [Progress.consume_rest, h.rest]
  simp; omega

/-- `peek` after a scanner that consumed everything the faulty reader holds: the faulty reader
    fails and is dead; the fault-free reader is beyond the cut -/
theorem gpeek_io_of_all {s t : St} (h : FSim tail s t) {n₁ n₂ : Nat} (h1 : t.rd.rest.length ≤ n₁)
    (h2 : t.rd.rest.length ≤ n₂) :
    GRes tail (Parse.peek { s with rd := s.rd.consume n₁ }) (Parse.peek { t with rd := t.rd.consume n₂ }) :=
  .inr (.inl ⟨_, peek_io_of_all h.faulty₂ n₂ h2, dead_consume h.faulty₂ n₂ h2,
    FBeyond.of_nonInc .peek (h.consume_beyond h1)⟩)

/-! ### scanners: the faulty reader either stops where the fault-free one stops, or at the cut -/

/-- a scanner that reaches the end of its input does not stop earlier on a longer input -/
theorem wsLen_all_fp : ∀ (a b : List UInt8),
    (wsLen a = a.length → a.length ≤ wsLen (a ++ b)) ∧
    (commentLen a = a.length → a.length ≤ commentLen (a ++ b))
  | [], b => by simp
  | x :: xs, b => by
    have ih := wsLen_all_fp xs b
    have hle := wsLen_le xs
    constructor
    · intro h
      simp only [wsLen, List.cons_append, List.length_cons] at h ⊢
      split
      · rename_i hx; simp [hx] at h
        have := ih.2 (by omega); omega
      · rename_i hx; simp [hx] at h
        split
        · rename_i ht; simp [ht] at h
          have := ih.1 (by omega); omega
        · rename_i ht; simp [ht] at h
    · intro h
      simp only [commentLen, List.cons_append, List.length_cons] at h ⊢
      split
      · rename_i hx; simp [hx] at h
        have := ih.1 (by omega); omega
      · rename_i hx; simp [hx] at h
        have := ih.2 (by omega); omega

theorem symLen_all_fp (m : Mode) : ∀ (a b : List UInt8), symLen m a = a.length →
    a.length ≤ symLen m (a ++ b)
  | [], b => by simp
  | x :: xs, b => by
    intro h
    simp only [symLen, List.cons_append, List.length_cons] at h ⊢
    split
    · rename_i hx; simp [hx] at h
    · rename_i hx; simp [hx] at h
      have := symLen_all_fp m xs b (by simpa using h); omega

theorem charNameLen_all_fp : ∀ (a b : List UInt8), charNameLen a = a.length →
    a.length ≤ charNameLen (a ++ b)
  | [], b => by simp
  | x :: xs, b => by
    intro h
    simp only [charNameLen, List.cons_append, List.length_cons] at h ⊢
    split
    · rename_i hx; simp [hx] at h
    · rename_i hx; simp [hx] at h
      have := charNameLen_all_fp xs b (by simpa using h); omega

theorem takeWhile_all_fp (p : UInt8 → Bool) : ∀ (a b : List UInt8),
    (a.takeWhile p).length = a.length → a.length ≤ ((a ++ b).takeWhile p).length
  | [], b => by simp
  | x :: xs, b => by
    intro h
    simp only [List.takeWhile_cons, List.cons_append] at h ⊢
    cases hx : p x with
    | false => simp [hx] at h
    | true =>
      simp only [hx, if_true, List.length_cons] at h ⊢
      have := takeWhile_all_fp p xs b (by omega); omega

theorem RestNonInc.parseWhitespace : RestNonInc parseWhitespace := .of_sim PrefixDet.parseWhitespace_s

theorem GRel.parseWhitespace : GRel tail parseWhitespace parseWhitespace := by
  refine ⟨?_, .parseWhitespace⟩
  intro s t h
  unfold Parse.parseWhitespace
  simp only [P.run_bind, Parse.getRest, Parse.consumeN]
  rw [h.rest]
  have hle := (wsLen_le t.rd.rest).1
  by_cases hlt : wsLen t.rd.rest < t.rd.rest.length
  · rw [(wsLen_append _ _).1 hlt]
    exact GRel.peek.app _ _ (h.consume _ (Nat.le_of_lt hlt))
  · exact gpeek_io_of_all h ((wsLen_all_fp _ _).1 (by omega)) (by omega)

theorem GRel.parseSymbolBytes (scratch : List UInt8) :
    GRel tail (parseSymbolBytes scratch) (parseSymbolBytes scratch) := by
  refine ⟨?_, .of_sim PrefixDet.parseSymbolBytes_s⟩
  intro s t h
  unfold Parse.parseSymbolBytes
  simp only [P.run_bind, Parse.getRest, Parse.getMode, Parse.consumeN]
  rw [h.rest, h.mode₁, h.mode₂]
  have hle := symLen_le .io t.rd.rest
  have hk : ∀ (name : List UInt8) (nxt : Option UInt8), RestNonInc
      (if name == [46] then Parse.errAt (invalidDot nxt.isNone)
        else if Mode.io == .str then Pure.pure name
        else if Utf8.valid name then Pure.pure name
        else if Utf8.incomplete name && nxt.isNone then Parse.errAt .eofValue
        else Parse.errAt .invalidUnicodeCodePoint : P (List UInt8)) := by
    intro name nxt
    repeat' split
    all_goals first | exact .errAt | exact .pure
  by_cases hlt : symLen .io t.rd.rest < t.rd.rest.length
  · rw [symLen_append_lt _ _ _ hlt, List.take_append_of_le_length (Nat.le_of_lt hlt)]
    refine (GRel.peek.app _ _ (h.consume (symLen .io t.rd.rest) (Nat.le_of_lt hlt))).bind
      (fun nxt => hk _ nxt) ?_
    intro nxt s' t' hs
    repeat' split
    all_goals first
      | exact (GRel.errAt _).app _ _ hs
      | exact .inr (.inr ⟨rfl, hs⟩)
  · rw [peek_io_of_all h.faulty₂ (symLen .io t.rd.rest) (by omega)]
    exact .inr (.inl ⟨_, rfl, dead_consume h.faulty₂ _ (by omega),
      (FBeyond.of_nonInc .peek (h.consume_beyond (symLen_all_fp _ _ _ (by omega)))).bind
        (fun nxt => hk _ nxt)⟩)

end

section
variable {tail : List UInt8} {α β : Type}

/-- related on states where the faulty reader still holds a byte (e.g. right after a
    successful `peek`) -/
structure GRelNE (tail : List UInt8) {α : Type} (m₁ m₂ : P α) : Prop where
  app : ∀ s t, FSim tail s t → t.rd.rest ≠ [] → GRes tail (m₁ s) (m₂ t)
  mono : RestNonInc m₁

theorem GRelNE.of_GRel {m₁ m₂ : P α} (h : GRel tail m₁ m₂) : GRelNE tail m₁ m₂ :=
  ⟨fun s t hs _ => h.app s t hs, h.mono⟩

theorem GRelNE.discard : GRelNE tail discard discard :=
  ⟨fun _ _ h hne => h.gdiscard hne, .of_sim PrefixDet.discard_s⟩

theorem GRelNE.bind {m₁ m₂ : P α} {f₁ f₂ : α → P β} (hm : GRelNE tail m₁ m₂)
    (hf : ∀ a, GRel tail (f₁ a) (f₂ a)) : GRelNE tail (m₁ >>= f₁) (m₂ >>= f₂) :=
  ⟨fun s t h hne =>
    (hm.app s t h hne).bind (fun a => (hf a).mono) (fun a s t hs => (hf a).app s t hs),
   hm.mono.bind fun a => (hf a).mono⟩

theorem GRelNE.ite {c : Prop} [Decidable c] {a b a' b' : P α}
    (ha : c → GRelNE tail a a') (hb : ¬c → GRelNE tail b b') :
    GRelNE tail (if c then a else b) (if c then a' else b') := by
  split
  · exact ha ‹_›
  · exact hb ‹_›

/-- a step that leaves the reader alone keeps the byte -/
theorem GRelNE.bind_getPos {f₁ f₂ : Pos → P β} (hf : ∀ a, GRelNE tail (f₁ a) (f₂ a)) :
    GRelNE tail (Parse.getPos >>= f₁) (Parse.getPos >>= f₂) := by
  refine ⟨?_, (RestNonInc.of_sim PrefixDet.getPos_s).bind fun a => (hf a).mono⟩
  intro s t h hne
  show GRes tail (f₁ _ s) (f₂ _ t)
  rw [h.position]
  exact (hf _).app s t h hne

theorem RestNonInc.tokenFuel : RestNonInc Parse.tokenFuel := by
  intro s s' he
  rcases he with ⟨a, h⟩ | ⟨e, h⟩ <;> cases h
  exact Nat.le_refl _

theorem RestNonInc.apiFuel : RestNonInc Parse.apiFuel := by
  intro s s' he
  rcases he with ⟨a, h⟩ | ⟨e, h⟩ <;> cases h
  exact Nat.le_refl _

/-- `token_fuel`: the faulty side computes a smaller fuel -/
theorem GRelNE.bind_tokenFuel {f₁ f₂ : Nat → P β}
    (hf : ∀ n n', n' ≤ n → GRelNE tail (f₁ n) (f₂ n')) :
    GRelNE tail (Parse.tokenFuel >>= f₁) (Parse.tokenFuel >>= f₂) := by
  refine ⟨?_, RestNonInc.tokenFuel.bind fun n => (hf n n (Nat.le_refl n)).mono⟩
  intro s t h hne
  show GRes tail (f₁ _ s) (f₂ _ t)
  exact (hf _ _ (by rw [h.rest]; simp)).app s t h hne

/-- `api_fuel`: the faulty side computes a smaller fuel -/
theorem GRel.bind_apiFuel {f₁ f₂ : Nat → P β}
    (hf : ∀ n n', n' ≤ n → GRel tail (f₁ n) (f₂ n')) :
    GRel tail (Parse.apiFuel >>= f₁) (Parse.apiFuel >>= f₂) := by
  refine ⟨?_, RestNonInc.apiFuel.bind fun n => (hf n n (Nat.le_refl n)).mono⟩
  intro s t h
  show GRes tail (f₁ _ s) (f₂ _ t)
  exact (hf _ _ (by rw [h.rest]; simp; omega)).app s t h

theorem RestNonInc.optCases {f : Option UInt8 → P β} (hn : RestNonInc (f none))
    (hs : ∀ c, RestNonInc (f (some c))) : ∀ o, RestNonInc (f o)
  | none => hn
  | some c => hs c

/-- after `Parse.peek` returned a byte the faulty reader holds one; `Parse.peek` never reports end of
    input on the faulty reader -/
theorem GRel.peek_bind {f₁ f₂ : Option UInt8 → P β}
    (hf : ∀ c, GRelNE tail (f₁ (some c)) (f₂ (some c))) (hn : RestNonInc (f₁ none)) :
    GRel tail (Parse.peek >>= f₁) (Parse.peek >>= f₂) := by
  have hm : ∀ o, RestNonInc (f₁ o) := RestNonInc.optCases hn fun c => (hf c).mono
  refine ⟨?_, RestNonInc.peek.bind hm⟩
  intro s t h
  show GRes tail (P.bind Parse.peek f₁ s) (P.bind Parse.peek f₂ t)
  unfold P.bind
  have hp := GRel.peek.app s t h
  cases hr : t.rd.rest with
  | nil =>
    have hpt : Parse.peek t = .err .io t := by simp [Parse.peek, hr, h.faulty₂]
    rw [hpt]
    exact .inr (.inl ⟨t, rfl, ⟨hr, h.faulty₂⟩,
      FBeyond.of_nonInc (RestNonInc.peek.bind hm) (by rw [h.len, hr]; simp)⟩)
  | cons b bs =>
    have hp := GRel.peek.app s t h
    unfold Parse.peek at hp ⊢
    rw [h.rest, hr] at hp ⊢
    simp only [List.cons_append] at hp ⊢
    rcases hp with hfu | ⟨t', ht, _⟩ | hc
    · cases hfu
    · cases ht
    · exact (hf b).app _ _ hc.2 (by simp [hr])

theorem RestNonInc.peekOrNull : RestNonInc peekOrNull := .of_sim PrefixDet.peekOrNull_s

theorem GRel.peekOrNull_bind {f₁ f₂ : UInt8 → P β} (hf : ∀ c, GRelNE tail (f₁ c) (f₂ c)) :
    GRel tail (Parse.peekOrNull >>= f₁) (Parse.peekOrNull >>= f₂) := by
  have : GRel tail (Parse.peek >>= fun o => f₁ (o.getD 0)) (Parse.peek >>= fun o => f₂ (o.getD 0)) :=
    GRel.peek_bind (fun c => hf c) (hf 0).mono
  refine ⟨?_, RestNonInc.peekOrNull.bind fun c => (hf c).mono⟩
  intro s t h
  have := this.app s t h
  revert this
  show GRes tail (P.bind Parse.peek _ s) (P.bind Parse.peek _ t) →
    GRes tail (P.bind (P.bind Parse.peek _) f₁ s) (P.bind (P.bind Parse.peek _) f₂ t)
  unfold P.bind
  cases Parse.peek s <;> cases Parse.peek t <;> exact id

theorem GRel.parseWhitespace_bind {f₁ f₂ : Option UInt8 → P β}
    (hf : ∀ c, GRelNE tail (f₁ (some c)) (f₂ (some c))) (hn : RestNonInc (f₁ none)) :
    GRel tail (Parse.parseWhitespace >>= f₁) (Parse.parseWhitespace >>= f₂) := by
  have hm : ∀ o, RestNonInc (f₁ o) := RestNonInc.optCases hn fun c => (hf c).mono
  refine ⟨?_, RestNonInc.parseWhitespace.bind hm⟩
  intro s t h
  show GRes tail (P.bind Parse.parseWhitespace f₁ s) (P.bind Parse.parseWhitespace f₂ t)
  unfold P.bind Parse.parseWhitespace
  simp only [P.run_bind, Parse.getRest, Parse.consumeN]
  rw [h.rest]
  have hle := (wsLen_le t.rd.rest).1
  by_cases hlt : wsLen t.rd.rest < t.rd.rest.length
  · rw [(wsLen_append _ _).1 hlt]
    have := (GRel.peek_bind hf hn).app _ _ (h.consume _ (Nat.le_of_lt hlt))
    exact this
  · rw [peek_io_of_all h.faulty₂ _ (by omega)]
    exact .inr (.inl ⟨_, rfl, dead_consume h.faulty₂ _ (by omega),
      FBeyond.of_nonInc (RestNonInc.peek.bind hm) (h.consume_beyond ((wsLen_all_fp _ _).1 (by omega)))⟩)

theorem GRelNE.peek_bind {f₁ f₂ : Option UInt8 → P β}
    (hf : ∀ c, GRelNE tail (f₁ (some c)) (f₂ (some c))) (hn : RestNonInc (f₁ none)) :
    GRelNE tail (Parse.peek >>= f₁) (Parse.peek >>= f₂) := .of_GRel (GRel.peek_bind hf hn)
theorem GRelNE.peekOrNull_bind {f₁ f₂ : UInt8 → P β} (hf : ∀ c, GRelNE tail (f₁ c) (f₂ c)) :
    GRelNE tail (Parse.peekOrNull >>= f₁) (Parse.peekOrNull >>= f₂) := .of_GRel (GRel.peekOrNull_bind hf)
theorem GRelNE.parseWhitespace_bind {f₁ f₂ : Option UInt8 → P β}
    (hf : ∀ c, GRelNE tail (f₁ (some c)) (f₂ (some c))) (hn : RestNonInc (f₁ none)) :
    GRelNE tail (Parse.parseWhitespace >>= f₁) (Parse.parseWhitespace >>= f₂) :=
  .of_GRel (GRel.parseWhitespace_bind hf hn)

end

/-! ### automation -/

/-- `RestNonInc` of the end-of-input arm of a `match (← peek)`: always an immediate result -/
macro "noninc" : tactic => `(tactic| first
  | exact RestNonInc.pure
  | exact RestNonInc.errAt
  | exact RestNonInc.peekErr
  | exact RestNonInc.panicAt)

syntax "gsim_lemma" : tactic
macro_rules
  | `(tactic| gsim_lemma) => `(tactic| (with_reducible apply_assumption -exfalso -symm) <;> fail)
macro_rules | `(tactic| gsim_lemma) => `(tactic| with_reducible exact GRel.pure _)
macro_rules | `(tactic| gsim_lemma) => `(tactic| with_reducible exact GRel.panicAt _)
macro_rules | `(tactic| gsim_lemma) => `(tactic| with_reducible exact GRel.outOfFuel)
macro_rules | `(tactic| gsim_lemma) => `(tactic| with_reducible exact GRel.peek)
macro_rules | `(tactic| gsim_lemma) => `(tactic| with_reducible exact GRel.next)
macro_rules | `(tactic| gsim_lemma) => `(tactic| with_reducible exact GRel.getPos)
macro_rules | `(tactic| gsim_lemma) => `(tactic| with_reducible exact GRel.errAt _)
macro_rules | `(tactic| gsim_lemma) => `(tactic| with_reducible exact GRel.peekErr _)
macro_rules | `(tactic| gsim_lemma) => `(tactic| with_reducible exact GRel.enter)
macro_rules | `(tactic| gsim_lemma) => `(tactic| with_reducible exact GRel.leave)
macro_rules | `(tactic| gsim_lemma) => `(tactic| with_reducible exact GRel.parseWhitespace)
macro_rules | `(tactic| gsim_lemma) => `(tactic| with_reducible exact GRel.parseSymbolBytes _)

/-- lemmas about computations that start by consuming the peeked byte -/
syntax "gsim_ne" : tactic
macro_rules | `(tactic| gsim_ne) => `(tactic| with_reducible exact GRelNE.discard)

macro "gsim_step" : tactic => `(tactic| first
  | gsim_lemma
  | gsim_ne
  | noninc
  | (with_reducible apply GRel.peek_bind)
  | (with_reducible apply GRel.peekOrNull_bind)
  | (with_reducible apply GRel.parseWhitespace_bind)
  | (with_reducible apply GRelNE.peek_bind)
  | (with_reducible apply GRelNE.peekOrNull_bind)
  | (with_reducible apply GRelNE.parseWhitespace_bind)
  | (with_reducible apply GRelNE.bind_getPos)
  | (with_reducible apply GRel.bind)
  | (with_reducible apply GRelNE.bind)
  | (with_reducible apply GRel.ite)
  | (with_reducible apply GRelNE.ite)
  | (intro _; try dsimp only)
  | (dsimp only)
  | split
  | (with_reducible apply GRelNE.of_GRel))

macro "gsim" : tactic => `(tactic| repeat' gsim_step)

section
variable {tail : List UInt8}

theorem GRel.peekOrNull : GRel tail peekOrNull peekOrNull := by unfold Parse.peekOrNull; gsim
theorem GRel.nextOrNull : GRel tail nextOrNull nextOrNull := by unfold Parse.nextOrNull; gsim
theorem GRel.nextOrEof : GRel tail nextOrEof nextOrEof := by unfold Parse.nextOrEof; gsim
theorem GRel.nextOrEofChar : GRel tail nextOrEofChar nextOrEofChar := by
  unfold Parse.nextOrEofChar; gsim
end
macro_rules | `(tactic| gsim_lemma) => `(tactic| with_reducible exact GRel.peekOrNull)
macro_rules | `(tactic| gsim_lemma) => `(tactic| with_reducible exact GRel.nextOrNull)
macro_rules | `(tactic| gsim_lemma) => `(tactic| with_reducible exact GRel.nextOrEof)
macro_rules | `(tactic| gsim_lemma) => `(tactic| with_reducible exact GRel.nextOrEofChar)


/-! ### the lexer under read faults (the faulty side may have less fuel) -/

theorem GRel.finishStr {tail : List UInt8} (checked : Bool) (bytes : List UInt8) :
    GRel tail (finishStr checked bytes) (finishStr checked bytes) := by
  refine ⟨?_, .of_sim PrefixDet.finishStr_s⟩
  intro s t h
  unfold Parse.finishStr
  simp only [P.run_bind, Parse.getMode, h.mode₁, h.mode₂, mode_io_ne_str, Bool.and_false,
    Bool.false_eq_true, if_false]
  split
  · exact .inr (.inr ⟨rfl, h⟩)
  · exact (GRel.errAt _).app s t h
macro_rules | `(tactic| gsim_lemma) => `(tactic| with_reducible exact GRel.finishStr ..)

theorem GRel.skipDigits {tail : List UInt8} : GRel tail skipDigits skipDigits := by
  refine ⟨?_, .of_sim PrefixDet.skipDigits_s⟩
  intro s t h
  unfold Parse.skipDigits
  simp only [P.run_bind, Parse.getRest, Parse.consumeN]
  rw [h.rest]
  have hle := takeWhile_len_le isDigit t.rd.rest
  have hk : ∀ _o : Option UInt8, RestNonInc (Pure.pure () : P Unit) := fun _ => .pure
  by_cases hlt : (t.rd.rest.takeWhile isDigit).length < t.rd.rest.length
  · rw [takeWhile_append_lt _ _ _ hlt]
    refine (GRel.peek.app _ _ (h.consume _ (Nat.le_of_lt hlt))).bind hk ?_
    intro _ s' t' hs
    exact .inr (.inr ⟨rfl, hs⟩)
  · rw [peek_io_of_all h.faulty₂ _ (by omega)]
    exact .inr (.inl ⟨_, rfl, dead_consume h.faulty₂ _ (by omega),
      (FBeyond.of_nonInc .peek (h.consume_beyond (takeWhile_all_fp _ _ _ (by omega)))).bind hk⟩)
macro_rules | `(tactic| gsim_lemma) => `(tactic| with_reducible exact GRel.skipDigits)

theorem GRel.readCont {tail : List UInt8} (n : Nat) (acc : List UInt8) :
    GRel tail (readCont n acc) (readCont n acc) := by
  induction n generalizing acc with
  | zero => unfold Parse.readCont; gsim
  | succ n ih => unfold Parse.readCont; gsim
macro_rules | `(tactic| gsim_lemma) => `(tactic| with_reducible exact GRel.readCont ..)
theorem GRel.decodeUtf8Sequence {tail : List UInt8} (initial : UInt8) :
    GRel tail (decodeUtf8Sequence initial) (decodeUtf8Sequence initial) := by
  unfold Parse.decodeUtf8Sequence; gsim
macro_rules | `(tactic| gsim_lemma) => `(tactic| with_reducible exact GRel.decodeUtf8Sequence ..)

theorem GRel.decodeR6rsHexEscape {tail : List UInt8} {f f' : Nat} (h : f' ≤ f) (n : Nat) :
    GRel tail (decodeR6rsHexEscape f n) (decodeR6rsHexEscape f' n) := by
  induction f' generalizing f n with
  | zero => exact GRel.fuel0 (.of_sim (PrefixDet.decodeR6rsHexEscape_s (Nat.le_refl _)))
  | succ f' ih =>
    obtain ⟨g, rfl⟩ : ∃ g, f = g + 1 := ⟨f - 1, by omega⟩
    replace ih := fun n => @ih g (by omega) n
    unfold Parse.decodeR6rsHexEscape; gsim
macro_rules
  | `(tactic| gsim_lemma) =>
    `(tactic| (with_reducible refine GRel.decodeR6rsHexEscape ?_ _) <;> omega)
theorem GRel.parseR6rsEscape {tail : List UInt8} {f f' : Nat} (h : f' ≤ f) (acc : List UInt8) :
    GRel tail (parseR6rsEscape f acc) (parseR6rsEscape f' acc) := by
  unfold Parse.parseR6rsEscape; gsim
macro_rules
  | `(tactic| gsim_lemma) =>
    `(tactic| (with_reducible refine GRel.parseR6rsEscape ?_ _) <;> omega)
theorem GRel.parseR6rsStr {tail : List UInt8} {f f' : Nat} (h : f' ≤ f) (acc : List UInt8) :
    GRel tail (parseR6rsStr f acc) (parseR6rsStr f' acc) := by
  induction f' generalizing f acc with
  | zero => exact GRel.fuel0 (.of_sim (PrefixDet.parseR6rsStr_s (Nat.le_refl _)))
  | succ f' ih =>
    obtain ⟨g, rfl⟩ : ∃ g, f = g + 1 := ⟨f - 1, by omega⟩
    replace ih := fun acc => @ih g (by omega) acc
    unfold Parse.parseR6rsStr; gsim
macro_rules
  | `(tactic| gsim_lemma) =>
    `(tactic| (with_reducible refine GRel.parseR6rsStr ?_ _) <;> omega)
theorem GRel.decodeElispHexEscape {tail : List UInt8} {f f' : Nat} (h : f' ≤ f) (n : Nat) :
    GRel tail (decodeElispHexEscape f n) (decodeElispHexEscape f' n) := by
  induction f' generalizing f n with
  | zero => exact GRel.fuel0 (.of_sim (PrefixDet.decodeElispHexEscape_s (Nat.le_refl _)))
  | succ f' ih =>
    obtain ⟨g, rfl⟩ : ∃ g, f = g + 1 := ⟨f - 1, by omega⟩
    replace ih := fun n => @ih g (by omega) n
    unfold Parse.decodeElispHexEscape; gsim
macro_rules
  | `(tactic| gsim_lemma) =>
    `(tactic| (with_reducible refine GRel.decodeElispHexEscape ?_ _) <;> omega)
theorem GRel.decodeElispUniEscape {tail : List UInt8} (f n : Nat) :
    GRel tail (decodeElispUniEscape f n) (decodeElispUniEscape f n) := by
  induction f generalizing n with
  | zero => unfold Parse.decodeElispUniEscape; gsim
  | succ f ih => unfold Parse.decodeElispUniEscape; gsim
macro_rules | `(tactic| gsim_lemma) => `(tactic| with_reducible exact GRel.decodeElispUniEscape ..)
theorem GRel.decodeElispOctalEscape {tail : List UInt8} {f f' : Nat} (h : f' ≤ f) (n : Nat) :
    GRel tail (decodeElispOctalEscape f n) (decodeElispOctalEscape f' n) := by
  induction f' generalizing f n with
  | zero => exact GRel.fuel0 (.of_sim (PrefixDet.decodeElispOctalEscape_s (Nat.le_refl _)))
  | succ f' ih =>
    obtain ⟨g, rfl⟩ : ∃ g, f = g + 1 := ⟨f - 1, by omega⟩
    replace ih := fun n => @ih g (by omega) n
    unfold Parse.decodeElispOctalEscape; gsim
macro_rules
  | `(tactic| gsim_lemma) =>
    `(tactic| (with_reducible refine GRel.decodeElispOctalEscape ?_ _) <;> omega)
theorem GRel.elispCharEscape {tail : List UInt8} (acc : List UInt8) (n : Nat) :
    GRel tail (elispCharEscape acc n) (elispCharEscape acc n) := by
  unfold Parse.elispCharEscape; gsim
macro_rules | `(tactic| gsim_lemma) => `(tactic| with_reducible exact GRel.elispCharEscape ..)
theorem GRel.elispUniCharEscape {tail : List UInt8} (acc : List UInt8) (n : Nat) :
    GRel tail (elispUniCharEscape acc n) (elispUniCharEscape acc n) := by
  unfold Parse.elispUniCharEscape; gsim
macro_rules | `(tactic| gsim_lemma) => `(tactic| with_reducible exact GRel.elispUniCharEscape ..)
theorem GRel.parseElispEscape {tail : List UInt8} {f f' : Nat} (h : f' ≤ f) (acc : List UInt8) :
    GRel tail (parseElispEscape f acc) (parseElispEscape f' acc) := by
  unfold Parse.parseElispEscape; gsim
macro_rules
  | `(tactic| gsim_lemma) =>
    `(tactic| (with_reducible refine GRel.parseElispEscape ?_ _) <;> omega)
theorem GRel.parseElispStr {tail : List UInt8} {f f' : Nat} (h : f' ≤ f) (acc : List UInt8)
    (ub mb na : Bool) :
    GRel tail (parseElispStr f acc ub mb na) (parseElispStr f' acc ub mb na) := by
  induction f' generalizing f acc ub mb na with
  | zero => exact GRel.fuel0 (.of_sim (PrefixDet.parseElispStr_s (Nat.le_refl _)))
  | succ f' ih =>
    obtain ⟨g, rfl⟩ : ∃ g, f = g + 1 := ⟨f - 1, by omega⟩
    replace ih := fun acc ub mb na => @ih g (by omega) acc ub mb na
    unfold Parse.parseElispStr; gsim
macro_rules
  | `(tactic| gsim_lemma) =>
    `(tactic| (with_reducible refine GRel.parseElispStr ?_ _ _ _ _) <;> omega)
theorem GRel.decodeR6rsCharHexEscape {tail : List UInt8} {f f' : Nat} (h : f' ≤ f) (n : Nat)
    (first : Bool) :
    GRel tail (decodeR6rsCharHexEscape f n first) (decodeR6rsCharHexEscape f' n first) := by
  induction f' generalizing f n first with
  | zero => exact GRel.fuel0 (.of_sim (PrefixDet.decodeR6rsCharHexEscape_s (Nat.le_refl _)))
  | succ f' ih =>
    obtain ⟨g, rfl⟩ : ∃ g, f = g + 1 := ⟨f - 1, by omega⟩
    replace ih := fun n first => @ih g (by omega) n first
    unfold Parse.decodeR6rsCharHexEscape; gsim
macro_rules
  | `(tactic| gsim_lemma) =>
    `(tactic| (with_reducible refine GRel.decodeR6rsCharHexEscape ?_ _ _) <;> omega)
theorem GRel.asChar {tail : List UInt8} (n : Nat) :
    GRel tail (asChar n) (asChar n) := by
  unfold Parse.asChar; gsim
macro_rules | `(tactic| gsim_lemma) => `(tactic| with_reducible exact GRel.asChar ..)
theorem GRel.asEscapedChar {tail : List UInt8} (n : Nat) :
    GRel tail (asEscapedChar n) (asEscapedChar n) := by
  unfold Parse.asEscapedChar; gsim
macro_rules | `(tactic| gsim_lemma) => `(tactic| with_reducible exact GRel.asEscapedChar ..)
theorem GRel.decodeElispCharEscape {tail : List UInt8} {f f' : Nat} (h : f' ≤ f) :
    GRel tail (decodeElispCharEscape f) (decodeElispCharEscape f') := by
  unfold Parse.decodeElispCharEscape; gsim
macro_rules
  | `(tactic| gsim_lemma) =>
    `(tactic| (with_reducible refine GRel.decodeElispCharEscape ?_) <;> omega)
theorem GRel.parseElispChar {tail : List UInt8} {f f' : Nat} (h : f' ≤ f) :
    GRel tail (parseElispChar f) (parseElispChar f') := by
  unfold Parse.parseElispChar; gsim
macro_rules
  | `(tactic| gsim_lemma) =>
    `(tactic| (with_reducible refine GRel.parseElispChar ?_) <;> omega)
theorem GRel.f64FromParts {tail : List UInt8} (cfg : Cfg) (pos : Bool) (sig : Nat) (e : Int) :
    GRel tail (f64FromParts cfg pos sig e) (f64FromParts cfg pos sig e) := by
  unfold Parse.f64FromParts; gsim
macro_rules | `(tactic| gsim_lemma) => `(tactic| with_reducible exact GRel.f64FromParts ..)
theorem GRel.parseExponentOverflow {tail : List UInt8} (pos : Bool) (sig : Nat) (posExp : Bool) :
    GRel tail (parseExponentOverflow pos sig posExp) (parseExponentOverflow pos sig posExp) := by
  unfold Parse.parseExponentOverflow; gsim
macro_rules | `(tactic| gsim_lemma) => `(tactic| with_reducible exact GRel.parseExponentOverflow ..)
theorem GRel.exponentLoop {tail : List UInt8} (cfg : Cfg) (pos : Bool) (sig : Nat) (startExp : Int)
    (posExp : Bool) {f f' : Nat} (h : f' ≤ f) (exp : Nat) :
    GRel tail (exponentLoop cfg pos sig startExp posExp f exp)
      (exponentLoop cfg pos sig startExp posExp f' exp) := by
  induction f' generalizing f exp with
  | zero => exact GRel.fuel0 (.of_sim (PrefixDet.exponentLoop_s (Nat.le_refl _)))
  | succ f' ih =>
    obtain ⟨g, rfl⟩ : ∃ g, f = g + 1 := ⟨f - 1, by omega⟩
    replace ih := fun exp => @ih g (by omega) exp
    unfold Parse.exponentLoop; gsim
macro_rules
  | `(tactic| gsim_lemma) =>
    `(tactic| (with_reducible refine GRel.exponentLoop _ _ _ _ _ ?_ _) <;> omega)
theorem GRelNE.parseExponent {tail : List UInt8} (cfg : Cfg) {f f' : Nat} (h : f' ≤ f) (pos : Bool)
    (sig : Nat) (startExp : Int) :
    GRelNE tail (parseExponent cfg f pos sig startExp) (parseExponent cfg f' pos sig startExp) := by
  unfold Parse.parseExponent; gsim
macro_rules
  | `(tactic| gsim_ne) =>
    `(tactic| (with_reducible refine GRelNE.parseExponent _ ?_ _ _ _) <;> omega)
theorem GRel.decimalLoop {tail : List UInt8} {f f' : Nat} (h : f' ≤ f) (sig : Nat) (exp : Int)
    (zeros : Nat) (any : Bool) :
    GRel tail (decimalLoop f sig exp zeros any) (decimalLoop f' sig exp zeros any) := by
  induction f' generalizing f sig exp zeros any with
  | zero => exact GRel.fuel0 (.of_sim (PrefixDet.decimalLoop_s (Nat.le_refl _)))
  | succ f' ih =>
    obtain ⟨g, rfl⟩ : ∃ g, f = g + 1 := ⟨f - 1, by omega⟩
    replace ih := fun sig exp zeros any => @ih g (by omega) sig exp zeros any
    unfold Parse.decimalLoop; gsim
macro_rules
  | `(tactic| gsim_lemma) =>
    `(tactic| (with_reducible refine GRel.decimalLoop ?_ _ _ _ _) <;> omega)
theorem GRelNE.parseDecimal {tail : List UInt8} (cfg : Cfg) {f f' : Nat} (h : f' ≤ f) (pos : Bool)
    (sig : Nat) (exp : Int) :
    GRelNE tail (parseDecimal cfg f pos sig exp) (parseDecimal cfg f' pos sig exp) := by
  unfold Parse.parseDecimal; gsim
macro_rules
  | `(tactic| gsim_ne) =>
    `(tactic| (with_reducible refine GRelNE.parseDecimal _ ?_ _ _ _) <;> omega)
theorem GRel.parseLongInteger {tail : List UInt8} (cfg : Cfg) (radix : Nat) (pos : Bool) (sig : Nat)
    {f f' : Nat} (h : f' ≤ f) (exp : Nat) :
    GRel tail (parseLongInteger cfg radix pos sig f exp) (parseLongInteger cfg radix pos sig f' exp) := by
  induction f' generalizing f exp with
  | zero => exact GRel.fuel0 (.of_sim (PrefixDet.parseLongInteger_s (Nat.le_refl _)))
  | succ f' ih =>
    obtain ⟨g, rfl⟩ : ∃ g, f = g + 1 := ⟨f - 1, by omega⟩
    replace ih := fun exp => @ih g (by omega) exp
    unfold Parse.parseLongInteger; generalize (2 : Nat) ^ 1024 = K; gsim
macro_rules
  | `(tactic| gsim_lemma) =>
    `(tactic| (with_reducible refine GRel.parseLongInteger _ _ _ _ ?_ _) <;> omega)
theorem GRel.parseNumTail {tail : List UInt8} (cfg : Cfg) {f f' : Nat} (h : f' ≤ f) (radix : Nat)
    (pos : Bool) (sig : Nat) :
    GRel tail (parseNumTail cfg f radix pos sig) (parseNumTail cfg f' radix pos sig) := by
  unfold Parse.parseNumTail; gsim
macro_rules
  | `(tactic| gsim_lemma) =>
    `(tactic| (with_reducible refine GRel.parseNumTail _ ?_ _ _ _) <;> omega)
theorem GRel.numLoop {tail : List UInt8} (cfg : Cfg) (radix : Nat) (pos : Bool) {f f' : Nat}
    (h : f' ≤ f) (res : Nat) :
    GRel tail (numLoop cfg radix pos f res) (numLoop cfg radix pos f' res) := by
  induction f' generalizing f res with
  | zero => exact GRel.fuel0 (.of_sim (PrefixDet.numLoop_s (Nat.le_refl _)))
  | succ f' ih =>
    obtain ⟨g, rfl⟩ : ∃ g, f = g + 1 := ⟨f - 1, by omega⟩
    replace ih := fun res => @ih g (by omega) res
    unfold Parse.numLoop; gsim
macro_rules
  | `(tactic| gsim_lemma) =>
    `(tactic| (with_reducible refine GRel.numLoop _ _ _ ?_ _) <;> omega)
theorem GRel.parseNumLiteral {tail : List UInt8} (cfg : Cfg) {f f' : Nat} (h : f' ≤ f) (radix : Nat)
    (pos : Bool) :
    GRel tail (parseNumLiteral cfg f radix pos) (parseNumLiteral cfg f' radix pos) := by
  unfold Parse.parseNumLiteral; gsim
macro_rules
  | `(tactic| gsim_lemma) =>
    `(tactic| (with_reducible refine GRel.parseNumLiteral _ ?_ _ _) <;> omega)
theorem GRel.parseRadixLiteral {tail : List UInt8} (cfg : Cfg) {f f' : Nat} (h : f' ≤ f)
    (radix : Nat) :
    GRel tail (parseRadixLiteral cfg f radix) (parseRadixLiteral cfg f' radix) := by
  unfold Parse.parseRadixLiteral; gsim
macro_rules
  | `(tactic| gsim_lemma) =>
    `(tactic| (with_reducible refine GRel.parseRadixLiteral _ ?_ _) <;> omega)
theorem GRel.expectNumberEnd {tail : List UInt8} (n : Number) :
    GRel tail (expectNumberEnd n) (expectNumberEnd n) := by
  unfold Parse.expectNumberEnd; gsim
macro_rules | `(tactic| gsim_lemma) => `(tactic| with_reducible exact GRel.expectNumberEnd ..)
theorem GRel.parseNumToken {tail : List UInt8} (cfg : Cfg) {f f' : Nat} (h : f' ≤ f) (pos : Bool) :
    GRel tail (parseNumToken cfg f pos) (parseNumToken cfg f' pos) := by
  unfold Parse.parseNumToken; gsim
macro_rules
  | `(tactic| gsim_lemma) =>
    `(tactic| (with_reducible refine GRel.parseNumToken _ ?_ _) <;> omega)
theorem GRel.parseRadixToken {tail : List UInt8} (cfg : Cfg) {f f' : Nat} (h : f' ≤ f)
    (radix : Nat) :
    GRel tail (parseRadixToken cfg f radix) (parseRadixToken cfg f' radix) := by
  unfold Parse.parseRadixToken; gsim
macro_rules
  | `(tactic| gsim_lemma) =>
    `(tactic| (with_reducible refine GRel.parseRadixToken _ ?_ _) <;> omega)
theorem GRel.parseNumber {tail : List UInt8} (cfg : Cfg) {f f' : Nat} (h : f' ≤ f) :
    GRel tail (parseNumber cfg f) (parseNumber cfg f') := by
  unfold Parse.parseNumber; gsim
macro_rules
  | `(tactic| gsim_lemma) =>
    `(tactic| (with_reducible refine GRel.parseNumber _ ?_) <;> omega)
theorem GRel.expectIdent {tail : List UInt8} (cs : List UInt8) :
    GRel tail (expectIdent cs) (expectIdent cs) := by
  induction cs with
  | nil => unfold Parse.expectIdent; gsim
  | cons c cs ih => unfold Parse.expectIdent; gsim
macro_rules | `(tactic| gsim_lemma) => `(tactic| with_reducible exact GRel.expectIdent ..)
theorem GRel.endSeq {tail : List UInt8} (close : UInt8) :
    GRel tail (endSeq close) (endSeq close) := by
  unfold Parse.endSeq; gsim
macro_rules | `(tactic| gsim_lemma) => `(tactic| with_reducible exact GRel.endSeq ..)
theorem GRel.byteListLoop {tail : List UInt8} (cfg : Cfg) (close : UInt8) {f f' : Nat} (h : f' ≤ f)
    (acc : List UInt8) :
    GRel tail (byteListLoop cfg close f acc) (byteListLoop cfg close f' acc) := by
  induction f' generalizing f acc with
  | zero => exact GRel.fuel0 (.of_sim (PrefixDet.byteListLoop_s (Nat.le_refl _)))
  | succ f' ih =>
    obtain ⟨g, rfl⟩ : ∃ g, f = g + 1 := ⟨f - 1, by omega⟩
    replace ih := fun acc => @ih g (by omega) acc
    unfold Parse.byteListLoop; gsim
macro_rules
  | `(tactic| gsim_lemma) =>
    `(tactic| (with_reducible refine GRel.byteListLoop _ _ ?_ _) <;> omega)
theorem GRel.parseByteList {tail : List UInt8} (cfg : Cfg) {f f' : Nat} (h : f' ≤ f) (close : UInt8) :
    GRel tail (parseByteList cfg f close) (parseByteList cfg f' close) := by
  unfold Parse.parseByteList; gsim
macro_rules
  | `(tactic| gsim_lemma) =>
    `(tactic| (with_reducible refine GRel.parseByteList _ ?_ _) <;> omega)
theorem GRel.expectEnd {tail : List UInt8} :
    GRel tail expectEnd expectEnd := by
  unfold Parse.expectEnd; gsim
macro_rules | `(tactic| gsim_lemma) => `(tactic| with_reducible exact GRel.expectEnd ..)
theorem GRelNE.parseSignDotSymbol {tail : List UInt8} (cfg : Cfg) (pfx : List UInt8) :
    GRelNE tail (parseSignDotSymbol cfg pfx) (parseSignDotSymbol cfg pfx) := by
  unfold Parse.parseSignDotSymbol; gsim
macro_rules | `(tactic| gsim_ne) => `(tactic| with_reducible exact GRelNE.parseSignDotSymbol ..)
theorem GRelNE.parseSignToken {tail : List UInt8} (cfg : Cfg) {f f' : Nat} (h : f' ≤ f) (sign : UInt8)
    (pos : Bool) :
    GRelNE tail (parseSignToken cfg f sign pos) (parseSignToken cfg f' sign pos) := by
  unfold Parse.parseSignToken; gsim
macro_rules
  | `(tactic| gsim_ne) =>
    `(tactic| (with_reducible refine GRelNE.parseSignToken _ ?_ _ _) <;> omega)

/-- the `<character name>` scanner of `parse_r6rs_char` -/
theorem grel_charNameBlock {tail : List UInt8} (initial : UInt8) :
    GRel tail
      (do
        let rest ← getRest
        let n := charNameLen rest
        consumeN n
        let nxt' ← peek
        match charName (initial :: rest.take n) with
        | some c => pure c
        | none =>
          if nxt'.isNone && isCharNamePrefix (initial :: rest.take n) then errAt .eofChar
          else errAt .invalidCharacterConstant : P Nat)
      (do
        let rest ← getRest
        let n := charNameLen rest
        consumeN n
        let nxt' ← peek
        match charName (initial :: rest.take n) with
        | some c => pure c
        | none =>
          if nxt'.isNone && isCharNamePrefix (initial :: rest.take n) then errAt .eofChar
          else errAt .invalidCharacterConstant : P Nat) := by
  refine ⟨?_, .of_sim (PrefixDet.charNameTail_s (initial := initial))⟩
  intro s t h
  simp only [P.run_bind, Parse.getRest, Parse.consumeN]
  rw [h.rest]
  have hle := charNameLen_le t.rd.rest
  have hk : ∀ (name : List UInt8) (nxt' : Option UInt8), RestNonInc
      (match charName name with
        | some c => Pure.pure c
        | none =>
          if nxt'.isNone && isCharNamePrefix name then Parse.errAt .eofChar
          else Parse.errAt .invalidCharacterConstant : P Nat) := by
    intro name nxt'
    repeat' split
    all_goals first | exact .errAt | exact .pure
  by_cases hlt : charNameLen t.rd.rest < t.rd.rest.length
  · rw [charNameLen_append _ _ hlt, List.take_append_of_le_length (Nat.le_of_lt hlt)]
    refine (GRel.peek.app _ _ (h.consume (charNameLen t.rd.rest) (Nat.le_of_lt hlt))).bind
      (fun nxt => hk _ nxt) ?_
    intro nxt s' t' hs
    cases charName (initial :: List.take (charNameLen t.rd.rest) t.rd.rest) with
    | some c => exact .inr (.inr ⟨rfl, hs⟩)
    | none =>
      simp only
      split
      · exact (GRel.errAt _).app _ _ hs
      · exact (GRel.errAt _).app _ _ hs
  · rw [peek_io_of_all h.faulty₂ (charNameLen t.rd.rest) (by omega)]
    exact .inr (.inl ⟨_, rfl, dead_consume h.faulty₂ _ (by omega),
      (FBeyond.of_nonInc .peek (h.consume_beyond (charNameLen_all_fp _ _ (by omega)))).bind
        (fun nxt => hk _ nxt)⟩)
macro_rules | `(tactic| gsim_lemma) => `(tactic| exact grel_charNameBlock _)
macro_rules | `(tactic| gsim_ne) => `(tactic| exact GRelNE.of_GRel (grel_charNameBlock _))

theorem GRel.parseR6rsChar {tail : List UInt8} {f f' : Nat} (h : f' ≤ f) :
    GRel tail (parseR6rsChar f) (parseR6rsChar f') := by
  unfold Parse.parseR6rsChar
  gsim
macro_rules
  | `(tactic| gsim_lemma) =>
    `(tactic| (with_reducible refine GRel.parseR6rsChar ?_) <;> omega)

/-- the last arm of `parse_token` -/
theorem grelNE_tokenFallback {tail : List UInt8} :
    GRelNE tail (do
        let s ← (fun s => Res.ok s s : P St)
        Parse.discard
        (fun s' => Res.err (.syntax .expectedSomeValue s.rd.peekPosition.line
          s.rd.peekPosition.col) s' : P Token))
      (do
        let s ← (fun s => Res.ok s s : P St)
        Parse.discard
        (fun s' => Res.err (.syntax .expectedSomeValue s.rd.peekPosition.line
          s.rd.peekPosition.col) s' : P Token)) := by
  refine ⟨?_, .of_sim PrefixDet.badByte_s⟩
  intro s t h hne
  show GRes tail
    (P.bind Parse.discard (fun _ s' => Res.err (.syntax .expectedSomeValue s.rd.peekPosition.line
      s.rd.peekPosition.col) s') s)
    (P.bind Parse.discard (fun _ s' => Res.err (.syntax .expectedSomeValue t.rd.peekPosition.line
      t.rd.peekPosition.col) s') t)
  unfold P.bind
  rw [h.peekPosition]
  refine (h.gdiscard hne).bind (f₁ := fun _ s' => Res.err _ s') (f₂ := fun _ s' => Res.err _ s')
    (fun _ => ?_) ?_
  · intro s0 s' he
    rcases he with ⟨a, h'⟩ | ⟨e, h'⟩ <;> cases h'
    exact Nat.le_refl _
  · intro _ s' t' hs
    exact .inr (.inr ⟨rfl, .inl hs⟩)
macro_rules | `(tactic| gsim_ne) => `(tactic| with_reducible exact grelNE_tokenFallback)

/-- `parse_token` after `parse_whitespace` returned `pk` (so the faulty reader holds a byte);
    the faulty side may have less fuel. -/
theorem GRelNE.parseToken {tail : List UInt8} (cfg : Cfg) {f f' : Nat} (h : f' ≤ f) (pk : UInt8) :
    GRelNE tail (parseToken cfg f pk) (parseToken cfg f' pk) := by
  unfold Parse.parseToken; gsim

end Parse
end Lexpr
