/-
  C16 for datums: the span information of a datum nests no deeper than its value, so the call depth of
  clone / `==` / drop of a datum (value AND span tree) is bounded by the nesting of the VALUE alone.

  LexprModel/Proofs/ConsOpsDatum.lean bounds the depth of `SpanInfo::clone` / `eq` / drop by
  `loopedS info`; LexprModel/Proofs/DatumValue.lean proves that every datum the parser returns is
  `Shaped` (its span tree mirrors its value).  This file joins the two:

    loopedS_eq_of_shaped      Shaped v i → loopedS i = Depth.looped v        (and the Tail / List forms)
    loopedS_le_of_shaped      Shaped v i → loopedS i ≤ Depth.looped v
    loopedS_le_nesting        Shaped v i → loopedS i ≤ nesting v + 1
    C16_shaped_depth          clone / == / drop of the span tree of a shaped datum, in `nesting v`
    cloneDatumI / eqDatumI / dropDatumD   the derived `Clone` / `PartialEq` / drop glue of `Datum` with
                              the call depth (definitions of this file; erasure: `cloneDatumI_fst`,
                              `eqDatumI_fst`)
    C16_shaped_datum_depth    whole-datum clone / == / drop in `nesting d.value` only
    ParserDatum               `d` was returned by `next_datum` / `Parser::next_datum` / `expect_datum` /
                              `datum::from_*` / some call of some history
    C16_datum_clone_depth, C16_datum_eq_depth, C16_datum_drop_depth   the same for every parser datum
    unshaped_deeper           witness: without `Shaped` the span tree can nest deeper than the value
-/
import LexprModel.Proofs.DatumValue
import LexprModel.Proofs.ConsOpsDatum
import LexprModel.Proofs.ConsOpsDepth
namespace Lexpr
namespace ConsOps
open Parse Depth Spec

/-! ### the span tree of a shaped datum has the looped depth of the value -/

mutual
/-- **loopedS_eq_of_shaped**: for a span tree that mirrors the value, the depth measure of the loop
    implemented operations on the span tree is exactly that of the value. -/
theorem loopedS_eq_of_shaped : ∀ (v : Value) (i : SpanInfo), Shaped v i → loopedS i = looped v
  | .cons a b, i, h => by
    cases i with
    | cons sp c d =>
      simp only [Shaped] at h
      simp only [loopedS, looped, loopedS_eq_of_shaped a c h.1, loopedSTail_eq_of_shaped b d h.2]
    | prim _ => simp [Shaped] at h
    | vec _ _ => simp [Shaped] at h
  | .vector xs, i, h => by
    cases i with
    | vec sp ms =>
      simp only [Shaped] at h
      simp only [loopedS, looped, loopedSList_eq_of_shaped xs ms h]
    | prim _ => simp [Shaped] at h
    | cons _ _ _ => simp [Shaped] at h
  | .nil, i, h | .null, i, h | .bool _, i, h | .number _, i, h | .char _, i, h | .string _, i, h
  | .symbol _, i, h | .keyword _, i, h | .bytes _, i, h => by
    cases i <;> simp_all [Shaped, SpanInfo.isPrim, loopedS, looped]
theorem loopedSTail_eq_of_shaped : ∀ (v : Value) (i : SpanInfo), Shaped v i →
    loopedSTail i = loopedTail v
  | .cons a b, i, h => by
    cases i with
    | cons sp c d =>
      simp only [Shaped] at h
      simp only [loopedSTail, loopedTail, loopedS_eq_of_shaped a c h.1,
        loopedSTail_eq_of_shaped b d h.2]
    | prim _ => simp [Shaped] at h
    | vec _ _ => simp [Shaped] at h
  | .vector xs, i, h => by
    cases i with
    | vec sp ms =>
      simp only [Shaped] at h
      simp only [loopedSTail, loopedTail, loopedSList_eq_of_shaped xs ms h]
    | prim _ => simp [Shaped] at h
    | cons _ _ _ => simp [Shaped] at h
  | .nil, i, h | .null, i, h | .bool _, i, h | .number _, i, h | .char _, i, h | .string _, i, h
  | .symbol _, i, h | .keyword _, i, h | .bytes _, i, h => by
    cases i <;> simp_all [Shaped, SpanInfo.isPrim, loopedSTail, loopedTail]
theorem loopedSList_eq_of_shaped : ∀ (xs : List Value) (ms : List SpanInfo), ShapedList xs ms →
    loopedSList ms = loopedList xs
  | [], ms, h => by
    simp only [ShapedList] at h
    subst h
    simp [loopedSList, loopedList]
  | x :: xs, ms, h => by
    cases ms with
    | nil => simp [ShapedList] at h
    | cons m ms =>
      simp only [ShapedList] at h
      simp only [loopedSList, loopedList, loopedS_eq_of_shaped x m h.1,
        loopedSList_eq_of_shaped xs ms h.2]
end

/-- **loopedS_le_of_shaped** (the form asked for; it is an equality, see `loopedS_eq_of_shaped`). -/
theorem loopedS_le_of_shaped (v : Value) (i : SpanInfo) (h : Shaped v i) : loopedS i ≤ looped v :=
  Nat.le_of_eq (loopedS_eq_of_shaped v i h)

theorem loopedSTail_le_of_shaped (v : Value) (i : SpanInfo) (h : Shaped v i) :
    loopedSTail i ≤ loopedTail v :=
  Nat.le_of_eq (loopedSTail_eq_of_shaped v i h)

theorem loopedSList_le_of_shaped (xs : List Value) (ms : List SpanInfo) (h : ShapedList xs ms) :
    loopedSList ms ≤ loopedList xs :=
  Nat.le_of_eq (loopedSList_eq_of_shaped xs ms h)

/-- **loopedS_le_nesting**: the span tree of a shaped datum nests no deeper than the value. -/
theorem loopedS_le_nesting (v : Value) (i : SpanInfo) (h : Shaped v i) :
    loopedS i ≤ nesting v + 1 := by
  rw [loopedS_eq_of_shaped v i h]; exact C16_depth_looped v

/-- witness that `Shaped` is needed: a span tree that does not mirror the value (it cannot come from
    the parser, `C10_shaped`) may nest deeper than the value -/
theorem unshaped_deeper :
    loopedS (.vec Span.empty [.vec Span.empty [.prim Span.empty]]) = 3 ∧ looped .null = 1 ∧
    ¬ Shaped .null (.vec Span.empty [.vec Span.empty [.prim Span.empty]]) := by
  refine ⟨by decide, by decide, ?_⟩
  simp [Shaped, SpanInfo.isPrim]

/-! ### clone / == / drop of the span tree, in terms of the value -/

/-- **C16_shaped_depth**: for a span tree `i` that mirrors the value `v` — cloning `i` reaches exactly
    `Depth.looped v` levels, hence at most `nesting v + 1`; one `SpanInfo::eq` with `i` on either side
    (its own frame included) at most `nesting v + 1`, whatever the other operand; dropping `i` at most
    `2 * nesting v + 2`. -/
theorem C16_shaped_depth (v : Value) (i : SpanInfo) (h : Shaped v i) :
    cloneSI i = (.ok i, looped v) ∧
    (cloneSI i).2 ≤ nesting v + 1 ∧
    (∀ b, (eqSI i b).2 + 1 ≤ nesting v + 1 ∧ (eqSI b i).2 + 1 ≤ nesting v + 1) ∧
    dropSD i ≤ 2 * nesting v + 2 := by
  have he := loopedS_eq_of_shaped v i h
  have hn := loopedS_le_nesting v i h
  refine ⟨by rw [cloneSI_eq, he], by rw [cloneSI_eq]; exact hn, fun b => ?_, ?_⟩
  · have h1 := (eqS_depth_le i b).1
    have h2 := (eqS_depth_le b i).2
    exact ⟨by omega, by omega⟩
  · have := dropSD_le i; omega

/-! ### the derived operations of `Datum`, with the call depth

  `#[derive(Clone, PartialEq)] struct Datum { value: Value, info: SpanInfo }` and its drop glue: one
  level for the operation on the datum itself, below it the operation on `value` and then on `info`
  (`==` short-circuits).  `eqSI` counts the levels *below* the frame of `SpanInfo::eq`, whence the
  `+ 1`; `cloneVI`, `cloneSI`, `eqVI`, `dropD`, `dropSD` include their own level. -/

/-- `<Datum as Clone>::clone` (`cloneDatum`) with the depth reached. -/
def cloneDatumI (d : Datum) : Out Datum × Nat :=
  match cloneVI d.value with
  | (.panic s, k) => (.panic s, k + 1)
  | (.ok v, k) =>
    match cloneSI d.info with
    | (.panic s, k') => (.panic s, max k k' + 1)
    | (.ok i, k') => (.ok ⟨v, i⟩, max k k' + 1)

/-- `<Datum as PartialEq>::eq` (`eqDatum`) with the depth reached. -/
def eqDatumI (a b : Datum) : Bool × Nat :=
  match eqVI a.value b.value with
  | (false, k) => (false, k + 1)
  | (true, k) =>
    match eqSI a.info b.info with
    | (r, k') => (r, max k (k' + 1) + 1)

/-- Depth of dropping a `Datum` (its drop glue drops `value`, then `info`). -/
def dropDatumD (d : Datum) : Nat := 1 + max (dropD d.value) (dropSD d.info)

/-- the instrumented clone returns the datum itself; exact depth, every datum -/
theorem cloneDatumI_eq (d : Datum) :
    cloneDatumI d = (.ok d, max (looped d.value) (loopedS d.info) + 1) := by
  simp only [cloneDatumI, cloneVI_eq, cloneSI_eq]

/-- erasure: the instrumented clone computes `cloneDatum` -/
theorem cloneDatumI_fst (d : Datum) : (cloneDatumI d).1 = cloneDatum d := by
  rw [cloneDatumI_eq, cloneDatum_eq]

/-- erasure: the instrumented comparison computes `eqDatum` -/
theorem eqDatumI_fst (a b : Datum) : (eqDatumI a b).1 = eqDatum a b := by
  have h1 := eqVI_fst a.value b.value
  have h2 := eqSI_fst a.info b.info
  simp only [eqDatumI, eqDatum]
  rcases he : eqVI a.value b.value with ⟨r, k⟩
  rw [he] at h1
  simp only at h1
  cases r with
  | false => simp [← h1]
  | true => simp [← h1, ← h2]

/-- depth of `==` on datums, every pair of datums: within the measures of either operand -/
theorem eqDatumI_le (a b : Datum) :
    (eqDatumI a b).2 ≤ max (looped a.value) (loopedS a.info) + 1 ∧
    (eqDatumI a b).2 ≤ max (looped b.value) (loopedS b.info) + 1 := by
  obtain ⟨_, v1, v2⟩ := eqVI_spec a.value b.value
  obtain ⟨s1, s2⟩ := eqS_depth_le a.info b.info
  have pa := looped_pos a.value
  have pb := looped_pos b.value
  simp only [eqDatumI]
  rcases he : eqVI a.value b.value with ⟨r, k⟩
  rw [he] at v1 v2
  simp only at v1 v2
  cases r with
  | false => exact ⟨by simp only; omega, by simp only; omega⟩
  | true => exact ⟨by simp only; omega, by simp only; omega⟩

/-- depth of dropping a datum, every datum -/
theorem dropDatumD_le (d : Datum) :
    dropDatumD d ≤ 2 * max (looped d.value) (loopedS d.info) + 1 := by
  have h1 := dropD_le d.value
  have h2 := dropSD_le d.info
  simp only [dropDatumD]; omega

/-- **C16_shaped_datum_depth**: for a datum whose span tree mirrors its value, in terms of the nesting
    of the value only — `clone` reaches exactly `Depth.looped d.value + 1` levels, at most
    `nesting d.value + 2`; `==` against any datum, on either side, at most `nesting d.value + 2`; drop
    at most `2 * nesting d.value + 3`.  (One level more than for the value alone: the frame of the
    operation on the `Datum` struct.)  Nothing depends on the number of elements. -/
theorem C16_shaped_datum_depth (d : Datum) (h : Shaped d.value d.info) :
    cloneDatumI d = (.ok d, looped d.value + 1) ∧
    (cloneDatumI d).2 ≤ nesting d.value + 2 ∧
    (∀ b, (eqDatumI d b).2 ≤ nesting d.value + 2 ∧ (eqDatumI b d).2 ≤ nesting d.value + 2) ∧
    dropDatumD d ≤ 2 * nesting d.value + 3 := by
  have he := loopedS_eq_of_shaped d.value d.info h
  have hn := C16_depth_looped d.value
  have hc : cloneDatumI d = (.ok d, looped d.value + 1) := by
    rw [cloneDatumI_eq, he, Nat.max_self]
  refine ⟨hc, by rw [hc]; simp only; omega, fun b => ?_, ?_⟩
  · have h1 := (eqDatumI_le d b).1
    have h2 := (eqDatumI_le b d).2
    rw [he, Nat.max_self] at h1 h2
    exact ⟨by omega, by omega⟩
  · have h1 := dropDatumD_le d
    rw [he, Nat.max_self] at h1
    omega

/-! ### every datum the parser returns -/

/-- `d` was returned by the parser configured by `cfg`: by the model's `next_datum` (any fuel, any
    parser state), by `Parser::next_datum`, by `expect_datum`, by `datum::from_str` / `from_slice` /
    `from_reader`, or by some call of some history of calls on one parser. -/
def ParserDatum (cfg : Cfg) (d : Datum) : Prop :=
  (∃ fuel s s', nextDatum cfg fuel s = .ok (some d) s') ∨
  (∃ s s', nextDatumTop cfg s = .ok (some d) s') ∨
  (∃ s s', expectDatum cfg s = .ok d s') ∨
  (∃ s s', fromTraitDatum cfg s = .ok d s') ∨
  (∃ ops s, Item.datum d ∈ runHistory cfg ops s)

theorem ParserDatum.of_nextDatum {cfg : Cfg} {fuel : Nat} {s s' : St} {d : Datum}
    (h : nextDatum cfg fuel s = .ok (some d) s') : ParserDatum cfg d := .inl ⟨_, _, _, h⟩
theorem ParserDatum.of_nextDatumTop {cfg : Cfg} {s s' : St} {d : Datum}
    (h : nextDatumTop cfg s = .ok (some d) s') : ParserDatum cfg d := .inr (.inl ⟨_, _, h⟩)
theorem ParserDatum.of_expectDatum {cfg : Cfg} {s s' : St} {d : Datum}
    (h : expectDatum cfg s = .ok d s') : ParserDatum cfg d := .inr (.inr (.inl ⟨_, _, h⟩))
theorem ParserDatum.of_fromTraitDatum {cfg : Cfg} {s s' : St} {d : Datum}
    (h : fromTraitDatum cfg s = .ok d s') : ParserDatum cfg d :=
  .inr (.inr (.inr (.inl ⟨_, _, h⟩)))
theorem ParserDatum.of_history {cfg : Cfg} {ops : List Op} {s : St} {d : Datum}
    (h : Item.datum d ∈ runHistory cfg ops s) : ParserDatum cfg d :=
  .inr (.inr (.inr (.inr ⟨_, _, h⟩)))

/-- `C10_shaped` for `ParserDatum` -/
theorem ParserDatum.shaped {cfg : Cfg} {d : Datum} (h : ParserDatum cfg d) :
    Shaped d.value d.info := by
  obtain ⟨c1, c2, c3, c4, c5⟩ := C10_shaped cfg
  rcases h with ⟨f, s, s', h⟩ | ⟨s, s', h⟩ | ⟨s, s', h⟩ | ⟨s, s', h⟩ | ⟨ops, s, h⟩
  · exact c1 f s d s' h
  · exact c2 s d s' h
  · exact c3 s d s' h
  · exact c4 s d s' h
  · exact c5 ops s d h

/-- **C16_datum_info_depth**: the span tree of a parsed datum nests exactly as deep as its value. -/
theorem C16_datum_info_depth (cfg : Cfg) (d : Datum) (h : ParserDatum cfg d) :
    loopedS d.info = looped d.value ∧ loopedS d.info ≤ nesting d.value + 1 :=
  ⟨loopedS_eq_of_shaped _ _ h.shaped, loopedS_le_nesting _ _ h.shaped⟩

/-- **C16_datum_clone_depth**: cloning a parsed datum — the span tree alone reaches at most
    `nesting d.value + 1` levels (exactly `Depth.looped d.value`), the whole datum at most
    `nesting d.value + 2` (exactly `Depth.looped d.value + 1`); the clone is the datum itself. -/
theorem C16_datum_clone_depth (cfg : Cfg) (d : Datum) (h : ParserDatum cfg d) :
    cloneSI d.info = (.ok d.info, looped d.value) ∧
    (cloneSI d.info).2 ≤ nesting d.value + 1 ∧
    cloneDatumI d = (.ok d, looped d.value + 1) ∧
    (cloneDatumI d).2 ≤ nesting d.value + 2 :=
  have hs := C16_shaped_depth _ _ h.shaped
  have hd := C16_shaped_datum_depth d h.shaped
  ⟨hs.1, hs.2.1, hd.1, hd.2.1⟩

/-- **C16_datum_eq_depth**: comparing a parsed datum with anything, on either side — one
    `SpanInfo::eq` on its span tree (own frame included) reaches at most `nesting d.value + 1` levels,
    `Datum::eq` at most `nesting d.value + 2`. -/
theorem C16_datum_eq_depth (cfg : Cfg) (d : Datum) (h : ParserDatum cfg d) :
    (∀ b : SpanInfo, (eqSI d.info b).2 + 1 ≤ nesting d.value + 1 ∧
      (eqSI b d.info).2 + 1 ≤ nesting d.value + 1) ∧
    (∀ b : Datum, (eqDatumI d b).2 ≤ nesting d.value + 2 ∧
      (eqDatumI b d).2 ≤ nesting d.value + 2) :=
  ⟨(C16_shaped_depth _ _ h.shaped).2.2.1, (C16_shaped_datum_depth d h.shaped).2.2.1⟩

/-- **C16_datum_drop_depth**: dropping a parsed datum — the span tree alone reaches at most
    `2 * nesting d.value + 2` levels, the whole datum at most `2 * nesting d.value + 3`. -/
theorem C16_datum_drop_depth (cfg : Cfg) (d : Datum) (h : ParserDatum cfg d) :
    dropSD d.info ≤ 2 * nesting d.value + 2 ∧ dropDatumD d ≤ 2 * nesting d.value + 3 :=
  ⟨(C16_shaped_depth _ _ h.shaped).2.2.2, (C16_shaped_datum_depth d h.shaped).2.2.2⟩

/-- The three bounds in the explicit form, for `next_datum`, `datum::from_*` and histories. -/
theorem C16_datum_depth_api (cfg : Cfg) (d : Datum)
    (h : (∃ fuel s s', nextDatum cfg fuel s = .ok (some d) s') ∨
         (∃ s s', fromTraitDatum cfg s = .ok d s') ∨
         (∃ ops s, Item.datum d ∈ runHistory cfg ops s)) :
    (cloneSI d.info).2 ≤ nesting d.value + 1 ∧
    (∀ b, (eqSI d.info b).2 + 1 ≤ nesting d.value + 1) ∧
    dropSD d.info ≤ 2 * nesting d.value + 2 ∧
    (cloneDatumI d).2 ≤ nesting d.value + 2 ∧
    (∀ b, (eqDatumI d b).2 ≤ nesting d.value + 2) ∧
    dropDatumD d ≤ 2 * nesting d.value + 3 := by
  have hp : ParserDatum cfg d := by
    rcases h with ⟨_, _, _, h⟩ | ⟨_, _, h⟩ | ⟨_, _, h⟩
    · exact .of_nextDatum h
    · exact .of_fromTraitDatum h
    · exact .of_history h
  exact ⟨(C16_datum_clone_depth cfg d hp).2.1, fun b => ((C16_datum_eq_depth cfg d hp).1 b).1,
    (C16_datum_drop_depth cfg d hp).1, (C16_datum_clone_depth cfg d hp).2.2.2,
    fun b => ((C16_datum_eq_depth cfg d hp).2 b).1, (C16_datum_drop_depth cfg d hp).2⟩

/-! ### instances (non-vacuity) -/

/-! A decidable check "this run returned exactly the datum `e`", so that the concrete runs below are
    evaluated by the kernel (`decide +kernel`): syntactic equality of values (`sameV`; `Value` has no
    `DecidableEq`) and `eqS` on span trees. -/

mutual
/-- syntactic equality of values, as a `Bool` -/
def sameV : Value → Value → Bool
  | .nil, .nil => true
  | .null, .null => true
  | .bool a, .bool b => a == b
  | .number a, .number b => decide (a = b)
  | .char a, .char b => a == b
  | .string a, .string b => a == b
  | .symbol a, .symbol b => a == b
  | .keyword a, .keyword b => a == b
  | .bytes a, .bytes b => a == b
  | .cons a d, .cons a' d' => sameV a a' && sameV d d'
  | .vector xs, .vector ys => sameVList xs ys
  | _, _ => false
def sameVList : List Value → List Value → Bool
  | [], [] => true
  | x :: xs, y :: ys => sameV x y && sameVList xs ys
  | _, _ => false
end

mutual
theorem sameV_eq : ∀ a b : Value, sameV a b = true → a = b
  | .cons a d, b, h => by
    cases b with
    | cons a' d' =>
      simp only [sameV, Bool.and_eq_true] at h
      rw [sameV_eq a a' h.1, sameV_eq d d' h.2]
    | _ => simp [sameV] at h
  | .vector xs, b, h => by
    cases b with
    | vector ys =>
      simp only [sameV] at h
      rw [sameVList_eq xs ys h]
    | _ => simp [sameV] at h
  | .nil, b, h | .null, b, h | .bool _, b, h | .number _, b, h | .char _, b, h | .string _, b, h
  | .symbol _, b, h | .keyword _, b, h | .bytes _, b, h => by
    cases b <;> simp_all [sameV]
theorem sameVList_eq : ∀ xs ys : List Value, sameVList xs ys = true → xs = ys
  | [], ys, h => by cases ys <;> simp_all [sameVList]
  | x :: xs, ys, h => by
    cases ys with
    | nil => simp [sameVList] at h
    | cons y ys =>
      simp only [sameVList, Bool.and_eq_true] at h
      rw [sameV_eq x y h.1, sameVList_eq xs ys h.2]
end

def isDatum (e d : Datum) : Bool := sameV d.value e.value && eqS d.info e.info

theorem isDatum_eq {e d : Datum} (h : isDatum e d = true) : d = e := by
  simp only [isDatum, Bool.and_eq_true] at h
  obtain ⟨v, i⟩ := d
  obtain ⟨v', i'⟩ := e
  simp only at h
  rw [sameV_eq _ _ h.1, (eqS_iff _ _).mp h.2]

def okIs (e : Datum) : Res Datum → Bool
  | .ok d _ => isDatum e d
  | _ => false
def okSomeIs (e : Datum) : Res (Option Datum) → Bool
  | .ok (some d) _ => isDatum e d
  | _ => false
def histHas (e : Datum) (its : List Item) : Bool :=
  its.any fun it => match it with
    | .datum d => isDatum e d
    | _ => false

theorem okIs_elim {e : Datum} {r : Res Datum} (h : okIs e r = true) : ∃ s', r = .ok e s' := by
  rcases r with ⟨d, s'⟩ | _ | _ | _ <;> first | exact ⟨s', by rw [isDatum_eq h]⟩ | cases h
theorem okSomeIs_elim {e : Datum} {r : Res (Option Datum)} (h : okSomeIs e r = true) :
    ∃ s', r = .ok (some e) s' := by
  rcases r with ⟨_ | d, s'⟩ | _ | _ | _ <;> first | exact ⟨s', by rw [isDatum_eq h]⟩ | cases h
theorem histHas_elim {e : Datum} {its : List Item} (h : histHas e its = true) :
    Item.datum e ∈ its := by
  simp only [histHas, List.any_eq_true] at h
  obtain ⟨it, hm, hi⟩ := h
  cases it with
  | datum d => simp only at hi; rw [← isDatum_eq hi]; exact hm
  | _ => simp at hi

/-- the text `(a (b #(c d)) . e)` -/
def exText : List UInt8 := asc "(a (b #(c d)) . e)"

/-- the datum the model returns for `(a (b #(c d)) . e)` (inner cells carry `Span::empty()`) -/
def exDatum : Datum :=
  { value := .cons (.symbol [97])
      (.cons (Value.list [.symbol [98], .vector [.symbol [99], .symbol [100]]]) (.symbol [101])),
    info := .cons ⟨⟨1, 0⟩, ⟨1, 18⟩⟩ (.prim ⟨⟨1, 1⟩, ⟨1, 2⟩⟩)
      (.cons Span.empty
        (.cons ⟨⟨1, 3⟩, ⟨1, 13⟩⟩ (.prim ⟨⟨1, 4⟩, ⟨1, 5⟩⟩)
          (.cons Span.empty
            (.vec ⟨⟨1, 6⟩, ⟨1, 12⟩⟩ [.prim ⟨⟨1, 8⟩, ⟨1, 9⟩⟩, .prim ⟨⟨1, 10⟩, ⟨1, 11⟩⟩])
            (.prim Span.empty)))
        (.prim ⟨⟨1, 16⟩, ⟨1, 17⟩⟩)) }

/-- `datum::from_str("(a (b #(c d)) . e)")` returns `exDatum` -/
theorem exDatum_parsed : ∃ s', fromTraitDatum exCfg (initSt .str exText) = .ok exDatum s' :=
  okIs_elim (by decide +kernel)

theorem exDatum_parser : ParserDatum exCfg exDatum :=
  let ⟨_, h⟩ := exDatum_parsed
  .of_fromTraitDatum h

/-- both sides computed on the parsed datum: the value has nesting 3 and `Depth.looped` 4, the span
    tree has `loopedS` 4 as well; the instrumented operations reach 4 (clone of the span tree), 5
    (clone of the datum), 4 and 5 (`==` with itself) levels; drop 6 and 7, within the bounds 8 and 9. -/
example :
    nesting exDatum.value = 3 ∧ looped exDatum.value = 4 ∧ loopedS exDatum.info = 4 ∧
    (cloneSI exDatum.info).2 = 4 ∧ (cloneDatumI exDatum).2 = 5 ∧
    (eqSI exDatum.info exDatum.info).2 + 1 = 4 ∧ (eqDatumI exDatum exDatum).2 = 5 ∧
    dropSD exDatum.info = 6 ∧ dropDatumD exDatum = 7 := by decide

/-- the general theorems applied to it -/
example :
    (cloneSI exDatum.info).2 ≤ 3 + 1 ∧ (∀ b, (eqSI exDatum.info b).2 + 1 ≤ 3 + 1) ∧
    dropSD exDatum.info ≤ 2 * 3 + 2 ∧ (cloneDatumI exDatum).2 ≤ 3 + 2 ∧
    (∀ b, (eqDatumI exDatum b).2 ≤ 3 + 2) ∧ dropDatumD exDatum ≤ 2 * 3 + 3 :=
  let ⟨_, h⟩ := exDatum_parsed
  C16_datum_depth_api exCfg exDatum (.inr (.inl ⟨_, _, h⟩))

/-- the other two ways into `C16_datum_depth_api`: `next_datum` with explicit fuel, and a history of
    calls (`next_datum` then `expect_datum` on `a (b)`: the second item is the datum of `(b)`) -/
example : (∃ s', nextDatum exCfg 40 (initSt .str exText) = .ok (some exDatum) s') ∧
    Item.datum ⟨Value.list [.symbol [98]],
        .cons ⟨⟨1, 2⟩, ⟨1, 5⟩⟩ (.prim ⟨⟨1, 3⟩, ⟨1, 4⟩⟩) (.prim Span.empty)⟩ ∈
      runHistory exCfg [.nextDatum, .expectDatum] (initSt .str (asc "a (b)")) :=
  ⟨okSomeIs_elim (by decide +kernel), histHas_elim (by decide +kernel)⟩

end ConsOps
end Lexpr

open Lexpr.ConsOps in
#print axioms loopedS_eq_of_shaped
open Lexpr.ConsOps in
#print axioms loopedS_le_of_shaped
open Lexpr.ConsOps in
#print axioms loopedS_le_nesting
open Lexpr.ConsOps in
#print axioms unshaped_deeper
open Lexpr.ConsOps in
#print axioms C16_shaped_depth
open Lexpr.ConsOps in
#print axioms cloneDatumI_fst
open Lexpr.ConsOps in
#print axioms eqDatumI_fst
open Lexpr.ConsOps in
#print axioms C16_shaped_datum_depth
open Lexpr.ConsOps in
#print axioms ParserDatum.shaped
open Lexpr.ConsOps in
#print axioms C16_datum_info_depth
open Lexpr.ConsOps in
#print axioms C16_datum_clone_depth
open Lexpr.ConsOps in
#print axioms C16_datum_eq_depth
open Lexpr.ConsOps in
#print axioms C16_datum_drop_depth
open Lexpr.ConsOps in
#print axioms C16_datum_depth_api
open Lexpr.ConsOps in
#print axioms exDatum_parsed
