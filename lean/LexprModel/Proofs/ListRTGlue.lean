/-
  Glue between the token-level atom round trips (`AtomRT.lean`, here a snapshot of the part that
  compiled when this file was written) and the structural round trip of `ListRT.lean`.
  Replace the import of `AtomRTSnapshot` by `LexprModel.Proofs.AtomRT` when both are in one tree.
-/
import LexprModel.Proofs.ListRT
import LexprModel.Proofs.AtomRT
namespace Lexpr
namespace Parse
namespace ListRT
open Print

theorem follow_iff (rest : List UInt8) : ListRT.Follow rest ↔ Parse.Follow rest := Iff.rfl

/-- a result state of the form `adv s n p` gives `Runs` -/
theorem runs_of_adv {α : Type} (m : P α) (s : St) (a : α) (n : Nat) (p : Bool) (rest : List UInt8)
    (hg : Good s) (h : m s = .ok a (adv s n p)) (hr : s.rd.rest.drop n = rest) : Runs m s a rest :=
  ⟨adv s n p, h, by simp [hr], ⟨by simp [hg.1], by simp [hg.2]⟩, by simp⟩

theorem head_of_nonterm (c : UInt8) (tl : List UInt8) (h : symTermSlice c = false) (h46 : c ≠ 46) :
    ElemHead (c :: tl) := by
  have : isTrivia c = false ∧ c ≠ 59 ∧ c ≠ 41 ∧ c ≠ 93 := by
    simp only [symTermSlice, Bool.or_eq_false_iff, beq_eq_false_iff_ne] at h
    simp only [isTrivia, Bool.or_eq_false_iff, beq_eq_false_iff_ne]
    simp_all
  exact head_of_byte c tl this.1 this.2.1 this.2.2.1 this.2.2.2 h46

/-! ### symbols and keywords -/

/-- a leading `.` must be followed by a byte that is neither NUL nor a delimiter (`|`, `"` are
    the two delimiters a plain identifier may contain) -/
def dotHeadOk : List UInt8 → Bool
  | 46 :: b :: _ => b != 0 && !isDelimiter b
  | _ => true

theorem atomOK_symbol (cfg : Cfg) (ho : cfg.opts = Parse.Options.default) (ryu : Nat → List UInt8)
    (name : List UInt8) (hp : PlainIdent name) (hd : dotHeadOk name = true) :
    AtomOK cfg ryu (.symbol name) := by
  have htext : atomText ryu (.symbol name) = name := by
    simp [atomText, atomEmits, flatten_cons_all, flatten_nil]
  obtain ⟨hshape, hvalid⟩ := hp
  cases name with
  | nil => simp [plainShape] at hshape
  | cons pk tl =>
    have hnt : symTermSlice pk = false := by
      simp only [plainShape, Bool.and_eq_true, List.all_eq_true, Bool.not_eq_true'] at hshape
      exact hshape.1 pk (by simp)
    refine atomOK_of_parseToken cfg ryu _ (.symbol (pk :: tl)) rfl rfl (by simp) rfl ?_ ?_
    · rw [htext]
      by_cases h46 : pk = 46
      · subst h46
        cases tl with
        | nil => simp [plainShape] at hshape
        | cons b tl' =>
          simp only [dotHeadOk, Bool.and_eq_true, bne_iff_ne, ne_eq, Bool.not_eq_true'] at hd
          exact ⟨46, b :: tl', rfl, by decide, by decide, by decide, by decide,
            fun _ => ⟨b, tl', rfl, hd.1, hd.2⟩⟩
      · exact head_of_nonterm pk tl hnt h46
    · intro s rest pk' tl' hf hg ht hr
      rw [htext] at ht hr
      obtain ⟨rfl, rfl⟩ : pk = pk' ∧ tl = tl' := by simpa using ht
      have := symbol_aux cfg (s.rd.rest.length + 1) pk tl rest s ho hr hf (fun _ => hg.2) hshape
        (Or.inr hvalid)
      exact runs_of_adv _ s _ _ _ rest hg this (by simp [hr])

theorem atomOK_keyword (cfg : Cfg) (ho : cfg.opts = Parse.Options.default) (ryu : Nat → List UInt8)
    (name : List UInt8) (hn : ∀ b ∈ name, symTermSlice b = false) (hdot : name ≠ [46])
    (hv : Utf8.valid name = true) : AtomOK cfg ryu (.keyword name) := by
  have hk : asc "#:" = [35, 58] := by decide
  have htext : atomText ryu (.keyword name) = 35 :: 58 :: name := by
    simp [atomText, atomEmits, keywordEmits, po, Print.Options.default, flatten_cons_all, flatten_nil,
      hk]
  refine atomOK_of_parseToken cfg ryu _ (.keyword name) rfl rfl (by simp) rfl ?_ ?_
  · rw [htext]; exact head_of_nonterm 35 _ (by decide) (by decide)
  · intro s rest pk tl hf hg ht hr
    rw [htext] at ht hr
    obtain ⟨rfl, rfl⟩ : 35 = pk ∧ 58 :: name = tl := by simpa using ht
    have := kw_aux cfg (s.rd.rest.length + 1) name rest s ho (by simpa using hr) hf (fun _ => hg.2)
      hn hdot (Or.inr hv)
    exact runs_of_adv _ s _ _ _ rest hg this (by simp [hr])

/-! ### integers -/

theorem digit_head : ∀ d, d < 10 → symTermSlice (UInt8.ofNat (48 + d)) = false ∧
    UInt8.ofNat (48 + d) ≠ 46 := by decide

theorem atomOK_posint (cfg : Cfg) (ho : cfg.opts = Parse.Options.default) (ryu : Nat → List UInt8)
    (n : Nat) (hn : n ≤ u64Max) : AtomOK cfg ryu (.number (.pos n)) := by
  have htext : atomText ryu (.number (.pos n)) = natDigits n := by
    simp [atomText, atomEmits, numberText, flatten_cons_all, flatten_nil]
  obtain ⟨d, dtl, hd, he⟩ := natDigits_head n
  refine atomOK_of_parseToken cfg ryu _ (.number (.pos n)) rfl rfl (by simp) rfl ?_ ?_
  · rw [htext, he]; exact head_of_nonterm _ _ (digit_head d hd).1 (digit_head d hd).2
  · intro s rest pk tl hf hg ht hr
    rw [htext] at ht hr
    have hlen := congrArg List.length hr
    simp only [List.length_append] at hlen
    have := posint_aux cfg (s.rd.rest.length + 1) pk n rest s ho hn hr (by simp [ht]) (by omega) hf
      (fun _ => hg.2)
    exact runs_of_adv _ s _ _ _ rest hg this (by simp [hr])

theorem atomOK_negint (cfg : Cfg) (ryu : Nat → List UInt8)
    (i : Int) (h1 : i64Min ≤ i) (h2 : i < 0) : AtomOK cfg ryu (.number (.neg i)) := by
  have htext : atomText ryu (.number (.neg i)) = intDigits i := by
    simp [atomText, atomEmits, numberText, flatten_cons_all, flatten_nil]
  have hi : intDigits i = 45 :: natDigits i.natAbs := by
    simp only [intDigits, h2, if_true]; rfl
  refine atomOK_of_parseToken cfg ryu _ (.number (.neg i)) rfl rfl (by simp) rfl ?_ ?_
  · rw [htext, hi]; exact head_of_nonterm 45 _ (by decide) (by decide)
  · intro s rest pk tl hf hg ht hr
    rw [htext] at ht hr
    obtain ⟨rfl, -⟩ : 45 = pk ∧ natDigits i.natAbs = tl := by simpa [hi] using ht
    have hlen := congrArg List.length hr
    simp only [List.length_append] at hlen
    have := negint_aux cfg (s.rd.rest.length + 1) i rest s h1 h2 hr (by omega) hf (fun _ => hg.2)
    exact runs_of_adv _ s _ _ _ rest hg this (by simp [hr])

/-! ### characters and strings -/

theorem schemeChar_head (c : Nat) : ∃ tl, schemeChar c = 35 :: tl := by
  unfold schemeChar
  split
  · exact ⟨_, rfl⟩
  · exact ⟨92 :: 120 :: natHexLower c, by
      have : asc "#\\x" = [35, 92, 120] := by decide
      simp [this]⟩

theorem atomOK_char (cfg : Cfg) (ryu : Nat → List UInt8) (c : Nat) (hc : isScalar c = true) :
    AtomOK cfg ryu (.char c) := by
  have htext : atomText ryu (.char c) = schemeChar c := by
    simp [atomText, atomEmits, charText, po, Print.Options.default, flatten_cons_all, flatten_nil]
  obtain ⟨ctl, he⟩ := schemeChar_head c
  refine atomOK_of_parseToken cfg ryu _ (.char c) rfl rfl (by simp) rfl ?_ ?_
  · rw [htext, he]; exact head_of_nonterm 35 _ (by decide) (by decide)
  · intro s rest pk tl hf hg ht hr
    rw [htext] at ht hr
    obtain ⟨rfl, -⟩ : 35 = pk ∧ ctl = tl := by simpa [he] using ht
    have hlen := congrArg List.length hr
    simp only [List.length_append] at hlen
    have := char_aux cfg (s.rd.rest.length + 1) c rest s hc hr (by omega) hf (fun _ => hg.2)
    exact runs_of_adv _ s _ _ _ rest hg this (by simp [hr])

theorem atomOK_string (cfg : Cfg) (ho : cfg.opts = Parse.Options.default) (ryu : Nat → List UInt8)
    (bytes : List UInt8) (hv : Utf8.valid bytes = true) : AtomOK cfg ryu (.string bytes) := by
  have hq : asc "\"" = [34] := by decide
  have htext : atomText ryu (.string bytes) = 34 :: (escapeStr .r6rs bytes ++ [34]) := by
    simp [atomText, atomEmits, po, Print.Options.default, flatten_cons_all, flatten_nil, hq]
  refine atomOK_of_parseToken cfg ryu _ (.string bytes) rfl rfl (by simp) rfl ?_ ?_
  · rw [htext]; exact head_of_nonterm 34 _ (by decide) (by decide)
  · intro s rest pk tl hf hg ht hr
    rw [htext] at ht hr
    obtain ⟨rfl, -⟩ : 34 = pk ∧ _ = tl := by simpa using ht
    have hr' : s.rd.rest = 34 :: (escapeStr .r6rs bytes ++ 34 :: rest) := by simpa using hr
    have hlen := congrArg List.length hr'
    simp only [List.length_cons, List.length_append] at hlen
    have := string_aux cfg (s.rd.rest.length + 1) bytes rest s ho hr' (by omega) (Or.inr hv)
    exact runs_of_adv _ s _ _ _ rest hg this (by simp [hr'])

/-! ### values built from the supported atoms -/

/-- the atoms covered so far (floats and byte vectors are missing) -/
def SupportedAtom : Value → Prop
  | .nil => True
  | .bool _ => True
  | .number (.pos n) => n ≤ u64Max
  | .number (.neg i) => i64Min ≤ i ∧ i < 0
  | .number (.flt _) => False
  | .char c => isScalar c = true
  | .string x => Utf8.valid x = true
  | .symbol x => PlainIdent x ∧ dotHeadOk x = true
  | .keyword x => (∀ b ∈ x, symTermSlice b = false) ∧ x ≠ [46] ∧ Utf8.valid x = true
  | .bytes _ => False
  | .null => False
  | .cons _ _ => False
  | .vector _ => False

theorem atomOK_supported (cfg : Cfg) (ho : cfg.opts = Parse.Options.default) (ryu : Nat → List UInt8)
    (v : Value) (h : SupportedAtom v) : AtomOK cfg ryu v := by
  cases v with
  | nil => exact atomOK_nil cfg ryu
  | bool b => exact atomOK_bool cfg ryu b
  | number n =>
    cases n with
    | pos n => exact atomOK_posint cfg ho ryu n h
    | neg i => exact atomOK_negint cfg ryu i h.1 h.2
    | flt b => exact absurd h (by simp [SupportedAtom])
  | char c => exact atomOK_char cfg ryu c h
  | string x => exact atomOK_string cfg ho ryu x h
  | symbol x => exact atomOK_symbol cfg ho ryu x h.1 h.2
  | keyword x => exact atomOK_keyword cfg ho ryu x h.1 h.2.1 h.2.2
  | bytes x => exact absurd h (by simp [SupportedAtom])
  | null => exact absurd h (by simp [SupportedAtom])
  | cons a d => exact absurd h (by simp [SupportedAtom])
  | vector xs => exact absurd h (by simp [SupportedAtom])

mutual
/-- every atom leaf is a supported atom -/
def AllSupported : Value → Prop
  | .cons a d => AllSupported a ∧ AllSupported d
  | .vector xs => AllSupportedSeq xs
  | .null => True
  | .nil => True
  | .bool _ => True
  | .number n => SupportedAtom (.number n)
  | .char c => SupportedAtom (.char c)
  | .string x => SupportedAtom (.string x)
  | .symbol x => SupportedAtom (.symbol x)
  | .keyword x => SupportedAtom (.keyword x)
  | .bytes _ => False
def AllSupportedSeq : List Value → Prop
  | [] => True
  | x :: xs => AllSupported x ∧ AllSupportedSeq xs
end

mutual
theorem allAtomsOK_of_supported (cfg : Cfg) (ho : cfg.opts = Parse.Options.default)
    (ryu : Nat → List UInt8) : ∀ v : Value, AllSupported v → AllAtomsOK cfg ryu v
  | .cons a d, h => by
    simp only [AllSupported] at h
    simp only [AllAtomsOK]
    exact ⟨allAtomsOK_of_supported cfg ho ryu a h.1, allAtomsOK_of_supported cfg ho ryu d h.2⟩
  | .vector xs, h => by
    simp only [AllSupported] at h
    simp only [AllAtomsOK]
    exact allAtomsOKSeq_of_supported cfg ho ryu xs h
  | .null, _ => by simp only [AllAtomsOK]
  | .nil, _ => by simp only [AllAtomsOK]; exact atomOK_nil cfg ryu
  | .bool b, _ => by simp only [AllAtomsOK]; exact atomOK_bool cfg ryu b
  | .number n, h => by
    simp only [AllSupported] at h; simp only [AllAtomsOK]; exact atomOK_supported cfg ho ryu _ h
  | .char c, h => by
    simp only [AllSupported] at h; simp only [AllAtomsOK]; exact atomOK_supported cfg ho ryu _ h
  | .string x, h => by
    simp only [AllSupported] at h; simp only [AllAtomsOK]; exact atomOK_supported cfg ho ryu _ h
  | .symbol x, h => by
    simp only [AllSupported] at h; simp only [AllAtomsOK]; exact atomOK_supported cfg ho ryu _ h
  | .keyword x, h => by
    simp only [AllSupported] at h; simp only [AllAtomsOK]; exact atomOK_supported cfg ho ryu _ h
  | .bytes x, h => by simp only [AllSupported] at h
theorem allAtomsOKSeq_of_supported (cfg : Cfg) (ho : cfg.opts = Parse.Options.default)
    (ryu : Nat → List UInt8) : ∀ xs : List Value, AllSupportedSeq xs → AllAtomsOKSeq cfg ryu xs
  | [], _ => by simp only [AllAtomsOKSeq]
  | x :: xs, h => by
    simp only [AllSupportedSeq] at h
    simp only [AllAtomsOKSeq]
    exact ⟨allAtomsOK_of_supported cfg ho ryu x h.1, allAtomsOKSeq_of_supported cfg ho ryu xs h.2⟩
end

/-! ## Main theorem of the glue -/

/-- **C01_roundtrip_supported.** `from_slice(to_string(v)) = Ok(v)` (default options on both
    sides) for every value of nesting at most 127 whose atoms are `#nil`, booleans, integers,
    characters, strings (valid UTF-8), plain-identifier symbols (a leading `.` not followed by NUL,
    `|` or `"`) and keywords; floats and byte vectors are not covered yet. -/
theorem C01_roundtrip_supported (cfg : Cfg) (ho : cfg.opts = Parse.Options.default)
    (ryu : Nat → List UInt8) (v : Value) (h : AllSupported v) (hn : nesting v ≤ 127) :
    ∃ s', fromTrait cfg (initSt .slice (text Print.Options.default ryu v)) = .ok v s' ∧
      s'.rd.rest = [] ∧ s'.depth = 128 :=
  C01_roundtrip_partial cfg ho ryu v (allAtomsOK_of_supported cfg ho ryu v h) hn

/-- `(define (f x . rest) #(1 -2 "a\"b" #\x #:k))` -/
example (cfg : Cfg) (ho : cfg.opts = Parse.Options.default) (ryu : Nat → List UInt8) :
    let v : Value := Value.list [.symbol (asc "define"),
      .cons (.symbol (asc "f")) (.cons (.symbol (asc "x")) (.symbol (asc "rest"))),
      .vector [.number (.pos 1), .number (.neg (-2)), .string (asc "a\"b"), .char 120,
        .keyword (asc "k")]]
    ∃ s', fromTrait cfg (initSt .slice (text Print.Options.default ryu v)) = .ok v s' ∧
      s'.rd.rest = [] ∧ s'.depth = 128 := by
  intro v
  refine C01_roundtrip_supported cfg ho ryu v ?_ ?_
  · simp only [v, Value.list, Value.append, AllSupported, AllSupportedSeq, SupportedAtom]
    decide
  · simp [v, Value.list, Value.append, nesting, nestingTail, nestingSeq]

end ListRT
end Parse
end Lexpr
