/-
  Image — C13: whatever the parser accepts can be printed (with the corresponding printer options
  `pof`) and read back unchanged.

  Full statement of the property (FALSE of the model and of the code, see the witnesses below):
      fromTrait cfg (initSt .slice bytes) = .ok v _  →
      fromTrait cfg (initSt .slice (Print.text (pof cfg.opts) ryu v)) = .ok v _
  Proved here:
    * `C13_image_shape` — the characterisation of the image (`AtomImg`, all atom kinds);
    * `C13_image`  — every atom of a value returned by `next_value` (source that validates text)
      satisfies `AtomOKP (pof cfg.opts) cfg ryu` — its printed text is read back as the same atom
      in every follow context — provided the atom satisfies `AtomSide` (decidable but for the
      float part):
        (a) a float leaf has `Decimals.FloatOK` (ryu's text in the exact window of the build);
        (b) `dotOkP`: no symbol (or keyword printed `name:`) starting `.|`, `."` or `.NUL`;
        (d1) `kwDotOk`: not the keyword named `.` when `pof` prints `#:.` / `:.`.
      (c) is proved, not assumed: a keyword in the image shows a keyword syntax is enabled
      (`kwImg_enabled`), and `atomOKP_keyword` needs no compatibility hypothesis.
    * `C13_reparse_partial` — parse → print → parse gives the same value.  Condition (b) is only
      required of atoms that are the *car* of a pair (`carDotOk`; vector elements, dotted tails
      and a top-level atom are exempt: `ImageStruct.lean`), (a) and (d1) of every atom
      (`AtomSideW`); the depth hypothesis is discharged from acceptance except in one case:
        (d2) if the reader turns the symbol `nil` into `()` (`NilSymbol::EmptyList`), the nesting
             of the printed text (`()` costs a level, `nil` did not) must be assumed ≤ 127.
    * `C13_fixpoint` — … and printing the re-read value gives the same text.
    * `C13_reparse_next` — the same in the middle of an input (any follow context).
  Each of (a), (b), (d1), (d2) is shown necessary by a witness (`C13_witness_*` in
  `ImageExamples.lean`, where the theorems are also applied to accepted texts in alternative
  spellings).  (b) is the known finding; (d1) and (d2) are new and were confirmed on the Rust code.
  Modules: `ImageBase` (inversion of the scanners), `ImageTok` (`TokImg`, inversion of
  `parse_token`), `ImageDepth` (the lexer keeps the depth budget), `ImageLift` (induction over
  `next_value` / `parse_list` / `parse_vector`), `ImageAtoms` (image atom ⇒ `AtomOKP`),
  `ImageFloat` (float leaves, every option set), `ImageStruct` (structural round trip with the dot
  clause on cars only), `Image` (main theorems), `ImageExamples`.
-/
import LexprModel.Proofs.ImageFloat
import LexprModel.Proofs.ImageStruct
namespace Lexpr
namespace Parse
namespace Image
open Utf8 Spec

/-! ### atoms -/

def IsAtom (v : Value) : Prop := v.isCons = false ∧ v.isVector = false ∧ v ≠ .null

mutual
theorem AllAtoms.impAtom {A B : Value → Prop} (hab : ∀ v, IsAtom v → A v → B v) :
    ∀ v : Value, AllAtoms A v → AllAtoms B v
  | .cons a d, h => by
    simp only [AllAtoms] at h ⊢
    exact ⟨AllAtoms.impAtom hab a h.1, AllAtoms.impAtom hab d h.2⟩
  | .vector xs, h => by simp only [AllAtoms] at h ⊢; exact AllAtomsSeq.impAtom hab xs h
  | .null, _ => by simp only [AllAtoms]
  | .nil, h => by simp only [AllAtoms] at h ⊢; exact hab _ ⟨rfl, rfl, by simp⟩ h
  | .bool _, h => by simp only [AllAtoms] at h ⊢; exact hab _ ⟨rfl, rfl, by simp⟩ h
  | .number _, h => by simp only [AllAtoms] at h ⊢; exact hab _ ⟨rfl, rfl, by simp⟩ h
  | .char _, h => by simp only [AllAtoms] at h ⊢; exact hab _ ⟨rfl, rfl, by simp⟩ h
  | .string _, h => by simp only [AllAtoms] at h ⊢; exact hab _ ⟨rfl, rfl, by simp⟩ h
  | .symbol _, h => by simp only [AllAtoms] at h ⊢; exact hab _ ⟨rfl, rfl, by simp⟩ h
  | .keyword _, h => by simp only [AllAtoms] at h ⊢; exact hab _ ⟨rfl, rfl, by simp⟩ h
  | .bytes _, h => by simp only [AllAtoms] at h ⊢; exact hab _ ⟨rfl, rfl, by simp⟩ h
theorem AllAtomsSeq.impAtom {A B : Value → Prop} (hab : ∀ v, IsAtom v → A v → B v) :
    ∀ xs : List Value, AllAtomsSeq A xs → AllAtomsSeq B xs
  | [], _ => by simp only [AllAtomsSeq]
  | x :: xs, h => by
    simp only [AllAtomsSeq] at h ⊢
    exact ⟨AllAtoms.impAtom hab x h.1, AllAtomsSeq.impAtom hab xs h.2⟩
end

/-- (a) the float leaves: ryu's text is read back exactly by this build -/
def floatSide (cfg : Cfg) (ryu : Nat → List UInt8) : Value → Prop
  | .number (.flt b) => Decimals.FloatOK cfg ryu b
  | _ => True

/-- The side conditions on an atom of an accepted value. -/
def AtomSide (cfg : Cfg) (ryu : Nat → List UInt8) (a : Value) : Prop :=
  ListRT.dotOkP (pof cfg.opts) a = true ∧ kwDotOk cfg.opts a = true ∧ floatSide cfg ryu a

/-- an atom of the image that satisfies the side conditions is read back from its printed text -/
theorem atomOKP_of_img (cfg : Cfg) (ryu : Nat → List UInt8) (a : Value) (hat : IsAtom a)
    (himg : AtomImg cfg a) (hs : AtomSide cfg ryu a) :
    ListRT.AtomOKP (pof cfg.opts) cfg ryu a := by
  cases a with
  | nil => exact atomOKP_nil cfg ryu
  | null => exact absurd rfl hat.2.2
  | bool b => exact atomOKP_bool cfg ryu b
  | number n =>
    cases n with
    | pos n => exact atomOKP_pos cfg ryu n himg
    | neg i => exact atomOKP_neg cfg ryu i himg.1 himg.2
    | flt b => exact atomOKP_float cfg ryu b hs.2.2
  | char c => exact atomOKP_char cfg ryu c himg
  | string s => exact atomOKP_string cfg ryu s himg
  | symbol n => exact atomOKP_symbol cfg ryu n himg hs.1
  | keyword n => exact atomOKP_keyword cfg ryu n himg hs.1 hs.2.1
  | bytes b => exact atomOKP_bytes cfg ryu b
  | cons a d => exact absurd hat.1 (by simp [Value.isCons])
  | vector xs => exact absurd hat.2.1 (by simp [Value.isVector])

/-- **The image of the parser** (`Printable` of the design): every atom of a value returned by
    `next_value`, from a source that validates text, is in `AtomImg cfg` — a symbol is the text of
    a name-shaped token that reads as a symbol, or a digit-initial name that is not a number
    (`leadingDigit`), or a `#%` name (`racket`); a keyword was read through an enabled keyword
    syntax; integers are in range, characters are scalar values, strings are well-formed. -/
theorem C13_image_shape (cfg : Cfg) (fuel : Nat) (s s' : St) (v : Value)
    (hm : s.rd.mode ≠ .str) (h : nextValue cfg fuel s = .ok (some v) s') :
    AllAtoms (AtomImg cfg) v := nextValue_img_atoms h hm

/-- **C13_image.**  For every configuration, fuel and parser state whose source validates text
    (slice or stream): every atom of a value returned by `next_value` that satisfies the side
    conditions `AtomSide` has `AtomOKP (pof cfg.opts) cfg ryu` — the text `pof cfg.opts` prints
    for it is read back, by the same parser options, as the same atom, in every follow context and
    from every non-faulty slice state. -/
theorem C13_image (cfg : Cfg) (ryu : Nat → List UInt8) (fuel : Nat) (s s' : St) (v : Value)
    (hm : s.rd.mode ≠ .str) (h : nextValue cfg fuel s = .ok (some v) s') :
    AllAtoms (fun a => AtomSide cfg ryu a → ListRT.AtomOKP (pof cfg.opts) cfg ryu a) v :=
  AllAtoms.impAtom (fun a hat himg hs => atomOKP_of_img cfg ryu a hat himg hs) v
    (nextValue_img_atoms h hm)

/-- (c) a keyword in an accepted value proves that the parser has a keyword syntax enabled, so
    `pof` is compatible (`Spec.C13_pof_compatible`). -/
theorem C13_keyword_enabled (cfg : Cfg) (fuel : Nat) (s s' : St) (v : Value)
    (hm : s.rd.mode ≠ .str) (h : nextValue cfg fuel s = .ok (some v) s') :
    AllAtoms (fun a => ∀ n, a = .keyword n →
      (cfg.opts.kwPrefix || cfg.opts.kwPostfix || cfg.opts.kwOctothorpe) = true) v :=
  AllAtoms.impAtom (fun a _ himg n hn => by subst hn; exact kwImg_enabled cfg n himg) v
    (nextValue_img_atoms h hm)

/-! ### the same without the dot clause -/

/-- The side conditions on an atom that do not depend on its position: (a) and (d1). -/
def AtomSideW (cfg : Cfg) (ryu : Nat → List UInt8) (a : Value) : Prop :=
  kwDotOk cfg.opts a = true ∧ floatSide cfg ryu a

theorem symbol_weakHead (cfg : Cfg) (n : List UInt8) (himg : SymImg cfg n) : WeakHead n := by
  obtain ⟨-, hnt, hsrc⟩ := himg
  cases n with
  | nil =>
    rcases hsrc with ⟨hshape, -⟩ | ⟨-, ⟨d, tl, hd, -⟩, -, -⟩ | ⟨-, body, hb⟩
    · simp [nameShape] at hshape
    · cases hd
    · cases hb
  | cons b tl => exact weakHead_of_nonterm b tl (hnt b (by simp))

theorem keyword_weakHead (cfg : Cfg) (ryu : Nat → List UInt8) (n : List UInt8)
    (himg : KwImg cfg n) : WeakHead (atomTextP (pof cfg.opts) ryu (.keyword n)) := by
  obtain ⟨-, hnt, hsrc⟩ := himg
  rw [atomTextP_keyword]
  cases (pof cfg.opts).keyword
  · exact weakHead_of_nonterm 58 n (by decide)
  · simp only
    cases n with
    | nil => exact weakHead_of_nonterm 58 [] (by decide)
    | cons b tl => exact weakHead_of_nonterm b (tl ++ [58]) (hnt b (by simp))
  · exact weakHead_of_nonterm 35 _ (by decide)

/-- an atom of the image is read back from its printed text wherever `next_value` is called on it
    (top level, vector element, dotted tail) -/
theorem atomOKW_of_img (cfg : Cfg) (ryu : Nat → List UInt8) (a : Value) (hat : IsAtom a)
    (himg : AtomImg cfg a) (hs : AtomSideW cfg ryu a) :
    AtomOKW (pof cfg.opts) cfg ryu a := by
  cases a with
  | nil => exact AtomOKP.weak (atomOKP_nil cfg ryu)
  | null => exact absurd rfl hat.2.2
  | bool b => exact AtomOKP.weak (atomOKP_bool cfg ryu b)
  | number n =>
    cases n with
    | pos n => exact AtomOKP.weak (atomOKP_pos cfg ryu n himg)
    | neg i => exact AtomOKP.weak (atomOKP_neg cfg ryu i himg.1 himg.2)
    | flt b => exact AtomOKP.weak (atomOKP_float cfg ryu b hs.2)
  | char c => exact AtomOKP.weak (atomOKP_char cfg ryu c himg)
  | string s => exact AtomOKP.weak (atomOKP_string cfg ryu s himg)
  | symbol n =>
    exact atomOKH_symbol WeakHead cfg ryu n himg (symbol_weakHead cfg n himg)
  | keyword n =>
    exact atomOKH_keyword WeakHead cfg ryu n himg hs.1 (keyword_weakHead cfg ryu n himg)
  | bytes b => exact AtomOKP.weak (atomOKP_bytes cfg ryu b)
  | cons a d => exact absurd hat.1 (by simp [Value.isCons])
  | vector xs => exact absurd hat.2.1 (by simp [Value.isVector])

/-- **C13_image, position-independent part.**  Without condition (b): every atom of an accepted
    value that satisfies (a) and (d1) is read back from its printed text by `next_value`. -/
theorem C13_image_weak (cfg : Cfg) (ryu : Nat → List UInt8) (fuel : Nat) (s s' : St) (v : Value)
    (hm : s.rd.mode ≠ .str) (h : nextValue cfg fuel s = .ok (some v) s') :
    AllAtoms (fun a => AtomSideW cfg ryu a → AtomOKW (pof cfg.opts) cfg ryu a) v :=
  AllAtoms.impAtom (fun a hat himg hs => atomOKW_of_img cfg ryu a hat himg hs) v
    (nextValue_img_atoms h hm)

mutual
/-- (b) where it is needed: the car of every pair passes `dotOkP` -/
def carDotOk (p : Print.Options) : Value → Bool
  | .cons a d => ListRT.dotOkP p a && carDotOk p a && carDotOk p d
  | .vector xs => carDotOkSeq p xs
  | _ => true
def carDotOkSeq (p : Print.Options) : List Value → Bool
  | [] => true
  | x :: xs => carDotOk p x && carDotOkSeq p xs
end

theorem AllAtoms.atom {A : Value → Prop} {a : Value} (hat : IsAtom a) (h : AllAtoms A a) :
    A a := by
  cases a with
  | cons a d => exact absurd hat.1 (by simp [Value.isCons])
  | vector xs => exact absurd hat.2.1 (by simp [Value.isVector])
  | null => exact absurd rfl hat.2.2
  | _ => simpa only [AllAtoms] using h

/-- the printed text of a car is an `ElemHead` -/
theorem car_head (cfg : Cfg) (ryu : Nat → List UInt8) (a : Value)
    (himg : AllAtoms (AtomImg cfg) a) (hs : AllAtoms (AtomSideW cfg ryu) a)
    (hdot : ListRT.dotOkP (pof cfg.opts) a = true) :
    ListRT.ElemHead (Print.text (pof cfg.opts) ryu a) := by
  by_cases h1 : a.isCons = true
  · cases a <;> simp [Value.isCons] at h1
    rw [ListRT.textP_cons]
    exact ListRT.head_of_byte _ _ (by decide) (by decide) (by decide) (by decide) (by decide)
  by_cases h2 : a.isVector = true
  · cases a <;> simp [Value.isVector] at h2
    rw [ListRT.textP_vector]
    exact ListRT.vopen_head _ _
  by_cases h3 : a = .null
  · subst h3; rw [ListRT.textP_null]
    exact ListRT.head_of_byte _ _ (by decide) (by decide) (by decide) (by decide) (by decide)
  have hat : IsAtom a := ⟨by simpa using h1, by simpa using h2, h3⟩
  rw [ListRT.textP_atom _ ryu a hat.1 hat.2.1]
  have hsw := AllAtoms.atom hat hs
  exact (atomOKP_of_img cfg ryu a hat (AllAtoms.atom hat himg) ⟨hdot, hsw.1, hsw.2⟩).2.2.2.1

mutual
theorem allOKW_of (cfg : Cfg) (ryu : Nat → List UInt8) :
    ∀ v : Value, AllAtoms (AtomImg cfg) v → AllAtoms (AtomSideW cfg ryu) v →
      carDotOk (pof cfg.opts) v = true → AllOKW (pof cfg.opts) cfg ryu v
  | .cons a d, hi, hs, hc => by
    simp only [AllAtoms] at hi hs
    simp only [carDotOk, Bool.and_eq_true] at hc
    simp only [AllOKW]
    exact ⟨allOKW_of cfg ryu a hi.1 hs.1 hc.1.2, car_head cfg ryu a hi.1 hs.1 hc.1.1,
      allOKW_of cfg ryu d hi.2 hs.2 hc.2⟩
  | .vector xs, hi, hs, hc => by
    simp only [AllAtoms] at hi hs
    simp only [carDotOk] at hc
    simp only [AllOKW]
    exact allOKWSeq_of cfg ryu xs hi hs hc
  | .null, _, _, _ => by simp only [AllOKW]
  | .nil, hi, hs, _ => by
    simp only [AllOKW]; exact atomOKW_of_img cfg ryu _ ⟨rfl, rfl, by simp⟩ hi hs
  | .bool _, hi, hs, _ => by
    simp only [AllOKW]; exact atomOKW_of_img cfg ryu _ ⟨rfl, rfl, by simp⟩ hi hs
  | .number _, hi, hs, _ => by
    simp only [AllOKW]; exact atomOKW_of_img cfg ryu _ ⟨rfl, rfl, by simp⟩ hi hs
  | .char _, hi, hs, _ => by
    simp only [AllOKW]; exact atomOKW_of_img cfg ryu _ ⟨rfl, rfl, by simp⟩ hi hs
  | .string _, hi, hs, _ => by
    simp only [AllOKW]; exact atomOKW_of_img cfg ryu _ ⟨rfl, rfl, by simp⟩ hi hs
  | .symbol _, hi, hs, _ => by
    simp only [AllOKW]; exact atomOKW_of_img cfg ryu _ ⟨rfl, rfl, by simp⟩ hi hs
  | .keyword _, hi, hs, _ => by
    simp only [AllOKW]; exact atomOKW_of_img cfg ryu _ ⟨rfl, rfl, by simp⟩ hi hs
  | .bytes _, hi, hs, _ => by
    simp only [AllOKW]; exact atomOKW_of_img cfg ryu _ ⟨rfl, rfl, by simp⟩ hi hs
theorem allOKWSeq_of (cfg : Cfg) (ryu : Nat → List UInt8) :
    ∀ xs : List Value, AllAtomsSeq (AtomImg cfg) xs → AllAtomsSeq (AtomSideW cfg ryu) xs →
      carDotOkSeq (pof cfg.opts) xs = true → AllOKWSeq (pof cfg.opts) cfg ryu xs
  | [], _, _, _ => by simp only [AllOKWSeq]
  | x :: xs, hi, hs, hc => by
    simp only [AllAtomsSeq] at hi hs
    simp only [carDotOkSeq, Bool.and_eq_true] at hc
    simp only [AllOKWSeq]
    exact ⟨allOKW_of cfg ryu x hi.1 hs.1 hc.1, allOKWSeq_of cfg ryu xs hi.2 hs.2 hc.2⟩
end

/-! ### from `AllAtoms` to the hypothesis of the structural round trip -/

mutual
theorem allAtomsOKP_of (p : Print.Options) (cfg : Cfg) (ryu : Nat → List UInt8) :
    ∀ v : Value, AllAtoms (ListRT.AtomOKP p cfg ryu) v → ListRT.AllAtomsOKP p cfg ryu v
  | .cons a d, h => by
    simp only [AllAtoms] at h
    simp only [ListRT.AllAtomsOKP]
    exact ⟨allAtomsOKP_of p cfg ryu a h.1, allAtomsOKP_of p cfg ryu d h.2⟩
  | .vector xs, h => by
    simp only [AllAtoms] at h
    simp only [ListRT.AllAtomsOKP]
    exact allAtomsOKSeqP_of p cfg ryu xs h
  | .null, _ => by simp only [ListRT.AllAtomsOKP]
  | .nil, h => by simp only [AllAtoms] at h; simp only [ListRT.AllAtomsOKP]; exact h
  | .bool _, h => by simp only [AllAtoms] at h; simp only [ListRT.AllAtomsOKP]; exact h
  | .number _, h => by simp only [AllAtoms] at h; simp only [ListRT.AllAtomsOKP]; exact h
  | .char _, h => by simp only [AllAtoms] at h; simp only [ListRT.AllAtomsOKP]; exact h
  | .string _, h => by simp only [AllAtoms] at h; simp only [ListRT.AllAtomsOKP]; exact h
  | .symbol _, h => by simp only [AllAtoms] at h; simp only [ListRT.AllAtomsOKP]; exact h
  | .keyword _, h => by simp only [AllAtoms] at h; simp only [ListRT.AllAtomsOKP]; exact h
  | .bytes _, h => by simp only [AllAtoms] at h; simp only [ListRT.AllAtomsOKP]; exact h
theorem allAtomsOKSeqP_of (p : Print.Options) (cfg : Cfg) (ryu : Nat → List UInt8) :
    ∀ xs : List Value, AllAtomsSeq (ListRT.AtomOKP p cfg ryu) xs →
      ListRT.AllAtomsOKSeqP p cfg ryu xs
  | [], _ => by simp only [ListRT.AllAtomsOKSeqP]
  | x :: xs, h => by
    simp only [AllAtomsSeq] at h
    simp only [ListRT.AllAtomsOKSeqP]
    exact ⟨allAtomsOKP_of p cfg ryu x h.1, allAtomsOKSeqP_of p cfg ryu xs h.2⟩
end

/-! ### the nesting measure of `ImageLift` against `nestingP` -/

mutual
theorem nq_eq_nestingP (p : Print.Options) (hp : p.nil ≠ .emptyList) :
    ∀ v : Value, nq 1 v = ListRT.nestingP p v
  | .cons a d => by
    simp only [nq, ListRT.nestingP, nq_eq_nestingP p hp a, nqTail_eq_nestingTailP p hp d]
  | .vector xs => by simp only [nq, ListRT.nestingP, nqSeq_eq_nestingSeqP p hp xs]
  | .null => by simp only [nq, ListRT.nestingP]
  | .nil => by simp only [nq, ListRT.nestingP, hp, if_false]
  | .bool _ => by simp only [nq, ListRT.nestingP]
  | .number _ => by simp only [nq, ListRT.nestingP]
  | .char _ => by simp only [nq, ListRT.nestingP]
  | .string _ => by simp only [nq, ListRT.nestingP]
  | .symbol _ => by simp only [nq, ListRT.nestingP]
  | .keyword _ => by simp only [nq, ListRT.nestingP]
  | .bytes _ => by simp only [nq, ListRT.nestingP]
theorem nqTail_eq_nestingTailP (p : Print.Options) (hp : p.nil ≠ .emptyList) :
    ∀ v : Value, nqTail 1 v = ListRT.nestingTailP p v
  | .cons a d => by
    simp only [nqTail, ListRT.nestingTailP, nq_eq_nestingP p hp a, nqTail_eq_nestingTailP p hp d]
  | .vector xs => by simp only [nqTail, ListRT.nestingTailP, nqSeq_eq_nestingSeqP p hp xs]
  | .null => by simp only [nqTail, ListRT.nestingTailP]
  | .nil => by simp only [nqTail, ListRT.nestingTailP, hp, if_false]
  | .bool _ => by simp only [nqTail, ListRT.nestingTailP]
  | .number _ => by simp only [nqTail, ListRT.nestingTailP]
  | .char _ => by simp only [nqTail, ListRT.nestingTailP]
  | .string _ => by simp only [nqTail, ListRT.nestingTailP]
  | .symbol _ => by simp only [nqTail, ListRT.nestingTailP]
  | .keyword _ => by simp only [nqTail, ListRT.nestingTailP]
  | .bytes _ => by simp only [nqTail, ListRT.nestingTailP]
theorem nqSeq_eq_nestingSeqP (p : Print.Options) (hp : p.nil ≠ .emptyList) :
    ∀ xs : List Value, nqSeq 1 xs = ListRT.nestingSeqP p xs
  | [] => by simp only [nqSeq, ListRT.nestingSeqP]
  | x :: xs => by
    simp only [nqSeq, ListRT.nestingSeqP, nq_eq_nestingP p hp x, nqSeq_eq_nestingSeqP p hp xs]
end

/-! ### the public entry point -/

theorem fromTrait_inv {cfg : Cfg} {s s' : St} {v : Value} (h : fromTrait cfg s = .ok v s') :
    ∃ f s1, nextValue cfg f s = .ok (some v) s1 := by
  unfold fromTrait at h
  obtain ⟨v0, s1, hev, h⟩ := U8.bind_ok h
  obtain ⟨_, s2, _, h⟩ := U8.bind_ok h
  obtain ⟨rfl, _⟩ := U8.pure_ok h
  unfold expectValue at hev
  obtain ⟨ov, s3, hnt, hev⟩ := U8.bind_ok hev
  unfold nextValueTop at hnt
  obtain ⟨f, s4, haf, hnt⟩ := U8.bind_ok hnt
  rw [U8.apiFuel_ok haf] at hnt
  cases ov with
  | none => simp [peekErr] at hev
  | some w =>
    obtain ⟨rfl, _⟩ := U8.pure_ok hev
    exact ⟨f, s3, hnt⟩

/-- Everything the structural round trip needs, from acceptance and the side conditions. -/
theorem accepted_ready (cfg : Cfg) (ryu : Nat → List UInt8) (bytes : List UInt8) (v : Value)
    (s1 : St) (h : fromTrait cfg (initSt .slice bytes) = .ok v s1)
    (hside : AllAtoms (AtomSideW cfg ryu) v)
    (hdot : carDotOk (pof cfg.opts) v = true)
    (hnest : cfg.opts.nil = .emptyList → ListRT.nestingP (pof cfg.opts) v ≤ 127) :
    AllOKW (pof cfg.opts) cfg ryu v ∧ ListRT.nestingP (pof cfg.opts) v ≤ 127 := by
  obtain ⟨f, s2, hnv⟩ := fromTrait_inv h
  obtain ⟨himg, hnq⟩ := nextValue_img hnv (by simp [initSt]) (by simp [initSt])
  refine ⟨allOKW_of cfg ryu v himg hside hdot, ?_⟩
  by_cases hnil : cfg.opts.nil = .emptyList
  · exact hnest hnil
  · have hc : nullCost cfg.opts = 1 := by simp [nullCost, hnil]
    rw [hc, nq_eq_nestingP (pof cfg.opts) (by simp [pof]) v] at hnq
    simp only [initSt] at hnq
    omega

/-- **C13_reparse_partial.**  `from_slice_custom(bytes, R) = Ok(v)` implies
    `from_slice_custom(to_string_custom(v, pof R), R) = Ok(v)` — the same value, no folding — for
    every parser option set `R` (with or without a keyword syntax), provided
      * every atom of `v` satisfies `AtomSideW` — a float leaf has `Decimals.FloatOK` (a), a
        keyword is not named `.` unless `pof R` prints `name:` (d1);
      * `carDotOk`: no car of a pair in `v` is a symbol (or `name:`-printed keyword) whose text
        starts with `.` followed by NUL, `|` or `"` (b, the known finding);
      * only when `R` reads `nil` as `()`: the nesting of the printed text is at most 127 (d2).
    In all other dialects the depth bound follows from acceptance. -/
theorem C13_reparse_partial (cfg : Cfg) (ryu : Nat → List UInt8) (bytes : List UInt8) (v : Value)
    (s1 : St) (h : fromTrait cfg (initSt .slice bytes) = .ok v s1)
    (hside : AllAtoms (AtomSideW cfg ryu) v)
    (hdot : carDotOk (pof cfg.opts) v = true)
    (hnest : cfg.opts.nil = .emptyList → ListRT.nestingP (pof cfg.opts) v ≤ 127) :
    ∃ s', fromTrait cfg (initSt .slice (Print.text (pof cfg.opts) ryu v)) = .ok v s' ∧
      s'.rd.rest = [] ∧ s'.depth = 128 := by
  obtain ⟨hall, hn⟩ := accepted_ready cfg ryu bytes v s1 h hside hdot hnest
  have hb : (pof cfg.opts).vector = .brackets → cfg.opts.brackets = .vector := by
    intro hv
    cases hbr : cfg.opts.brackets
    · simp [pof, hbr] at hv
    · rfl
  have hv := value_rtW (pof cfg.opts) cfg ryu hb v hall
    (initSt .slice (Print.text (pof cfg.opts) ryu v)) []
    (2 * (initSt .slice (Print.text (pof cfg.opts) ryu v)).rd.rest.length + 4) (Or.inl rfl)
    ⟨rfl, rfl⟩ (by simp [initSt]) (by omega) (by simp [initSt]; omega)
  obtain ⟨s', e, r, _, d⟩ := ListRT.fromTrait_of_nextValue cfg _ _ hv
  rw [fold_pof] at e
  exact ⟨s', e, r, d⟩

/-- **C13_fixpoint.**  Under the same hypotheses, parse → print → parse reaches a fixed point
    after one step: the re-read value is `v`, so printing it gives the same text, and reading
    that text gives the same value again. -/
theorem C13_fixpoint (cfg : Cfg) (ryu : Nat → List UInt8) (bytes : List UInt8) (v : Value)
    (s1 : St) (h : fromTrait cfg (initSt .slice bytes) = .ok v s1)
    (hside : AllAtoms (AtomSideW cfg ryu) v)
    (hdot : carDotOk (pof cfg.opts) v = true)
    (hnest : cfg.opts.nil = .emptyList → ListRT.nestingP (pof cfg.opts) v ≤ 127) :
    ∃ v' s', fromTrait cfg (initSt .slice (Print.text (pof cfg.opts) ryu v)) = .ok v' s' ∧
      Print.text (pof cfg.opts) ryu v' = Print.text (pof cfg.opts) ryu v ∧
      ∃ s'', fromTrait cfg (initSt .slice (Print.text (pof cfg.opts) ryu v')) = .ok v' s'' := by
  obtain ⟨s', e, _, _⟩ := C13_reparse_partial cfg ryu bytes v s1 h hside hdot hnest
  exact ⟨v, s', e, rfl, s', e⟩

/-- The same for a value read by `next_value` in the middle of an input: in any non-faulty slice
    state whose unread input is the printed text followed by a token-ending context, with the
    recursion budget the value was read with, `next_value` returns the value again. -/
theorem C13_reparse_next (cfg : Cfg) (ryu : Nat → List UInt8) (fuel : Nat) (s0 s1 : St) (v : Value)
    (hm : s0.rd.mode ≠ .str) (hd : 1 ≤ s0.depth)
    (h : nextValue cfg fuel s0 = .ok (some v) s1)
    (hside : AllAtoms (AtomSideW cfg ryu) v)
    (hdot : carDotOk (pof cfg.opts) v = true)
    (hnil : cfg.opts.nil ≠ .emptyList)
    (s : St) (rest : List UInt8) (fuel' : Nat) (hF : Follow rest)
    (hg : s.rd.mode = .slice ∧ s.rd.faulty = false)
    (hr : s.rd.rest = Print.text (pof cfg.opts) ryu v ++ rest)
    (hfu : fuel' ≥ 2 * s.rd.rest.length + 3) (hdep : s0.depth ≤ s.depth) :
    ∃ s', nextValue cfg fuel' s = .ok (some v) s' ∧ s'.rd.rest = rest ∧ s'.depth = s.depth := by
  obtain ⟨himg, hnq⟩ := nextValue_img h hm hd
  have hall := allOKW_of cfg ryu v himg hside hdot
  have hc : nullCost cfg.opts = 1 := by simp [nullCost, hnil]
  rw [hc, nq_eq_nestingP (pof cfg.opts) (by simp [pof]) v] at hnq
  have hb : (pof cfg.opts).vector = .brackets → cfg.opts.brackets = .vector := by
    intro hv
    cases hbr : cfg.opts.brackets
    · simp [pof, hbr] at hv
    · rfl
  obtain ⟨s', e, r, _, d⟩ := value_rtW (pof cfg.opts) cfg ryu hb v hall s rest fuel' hF hg hr hfu
    (by omega)
  rw [fold_pof] at e
  exact ⟨s', e, r, d⟩

#print axioms C13_image_shape
#print axioms C13_image
#print axioms C13_image_weak
#print axioms C13_keyword_enabled
#print axioms C13_reparse_partial
#print axioms C13_reparse_next
#print axioms C13_fixpoint

end Image
end Parse
end Lexpr
