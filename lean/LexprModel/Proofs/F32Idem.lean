/-
  `f64 as f32` (the model's `roundToF32`) is idempotent.
-/
import LexprModel.Serde
namespace Lexpr
namespace Serde
open F64

/-! ### round-half-even -/

theorem rne_exact (M d : Nat) (hd : 0 < d) : rne (M * d) d = M := by
  unfold rne
  simp only [Nat.mul_div_cancel _ hd, Nat.mul_mod_left]
  have : ¬ (2 * 0 > d) := by omega
  have h2 : ¬ (2 * 0 = d) := by omega
  simp [this, h2]

theorem rne_le (n d K : Nat) (hd : 0 < d) (h : n ≤ K * d) : rne n d ≤ K := by
  have hdm := Nat.div_add_mod n d
  have hr := Nat.mod_lt n hd
  have hle : rne n d ≤ n / d + 1 := by unfold rne; simp only; split <;> (try split) <;> (try split) <;> omega
  by_cases hq : n / d < K
  · omega
  · have h1 : d * K ≤ d * (n / d) := Nat.mul_le_mul_left d (by omega)
    have h2 : K * d = d * K := Nat.mul_comm _ _
    have hr0 : n % d = 0 := by omega
    have h3 : d * (n / d) ≤ d * K := by omega
    have h4 : n / d ≤ K := Nat.le_of_mul_le_mul_left h3 hd
    unfold rne
    simp only [hr0]
    have : ¬ (2 * 0 > d) := by omega
    have h5 : ¬ (2 * 0 = d) := by omega
    simp [this, h5, h4]

/-! ### `Nat.log2` and `ilog2` of scaled numbers -/

theorem log2_mul_pow (r k : Nat) (hr : r ≠ 0) : Nat.log2 (r * 2 ^ k) = Nat.log2 r + k := by
  have hpos : 0 < 2 ^ k := Nat.two_pow_pos k
  have hne : r * 2 ^ k ≠ 0 := Nat.mul_ne_zero hr (by omega)
  rw [Nat.log2_eq_iff hne]
  constructor
  · rw [Nat.pow_add]; exact Nat.mul_le_mul_right _ (Nat.log2_self_le hr)
  · rw [show r.log2 + k + 1 = (r.log2 + 1) + k by omega, Nat.pow_add]
    exact Nat.mul_lt_mul_of_pos_right Nat.lt_log2_self hpos

theorem ilog2_of (n d : Nat) (e0 : Int) (he0 : (n.log2 : Int) - (d.log2 : Int) = e0)
    (h1 : 0 ≤ e0 → ¬ n < d * 2 ^ e0.toNat) (h2 : e0 < 0 → ¬ n * 2 ^ (-e0).toNat < d) :
    ilog2 n d = e0 := by
  unfold ilog2
  simp only [he0]
  by_cases h : e0 ≥ 0
  · simp [h, h1 h]
  · have h' : e0 < 0 := by omega
    simp [h, h2 h']

theorem ilog2_pos (r k : Nat) (hr : r ≠ 0) : ilog2 (r * 2 ^ k) 1 = (Nat.log2 r : Int) + k := by
  apply ilog2_of
  · rw [log2_mul_pow r k hr, show Nat.log2 1 = 0 from by decide]; omega
  · intro _
    rw [show ((r.log2 : Int) + (k : Int)).toNat = r.log2 + k by omega, Nat.one_mul, Nat.pow_add]
    exact Nat.not_lt.mpr (Nat.mul_le_mul_right _ (Nat.log2_self_le hr))
  · intro h; omega

theorem ilog2_neg (r k : Nat) (hr : r ≠ 0) : ilog2 r (2 ^ k) = (Nat.log2 r : Int) - k := by
  apply ilog2_of
  · rw [Nat.log2_two_pow]
  · intro h
    rw [← Nat.pow_add, show k + ((r.log2 : Int) - (k : Int)).toNat = r.log2 by omega]
    exact Nat.not_lt.mpr (Nat.log2_self_le hr)
  · intro h
    apply Nat.not_lt.mpr
    calc 2 ^ k = 2 ^ r.log2 * 2 ^ (-((r.log2 : Int) - (k : Int))).toNat := by
          rw [← Nat.pow_add]; congr 1; omega
      _ ≤ r * 2 ^ (-((r.log2 : Int) - (k : Int))).toNat := Nat.mul_le_mul_right _ (Nat.log2_self_le hr)

/-! ### `rn` on exactly representable numbers -/

theorem rn_of (n d : Nat) (e : Int) (m : Nat) (hn : n ≠ 0) (hd : d ≠ 0) (he : ilog2 n d = e)
    (hlo : -1022 ≤ e)
    (hm : (if e - 52 ≥ 0 then rne n (d * 2 ^ (e - 52).toNat) else rne (n * 2 ^ (-(e - 52)).toNat) d) = m)
    (hfin : (e + 1022).toNat * two52 + m < infBits) :
    rn n d = (e + 1022).toNat * two52 + m := by
  unfold rn
  have h1 : ¬ (n = 0 ∨ d = 0) := by simp [hn, hd]
  have h2 : ¬ (e < -1022) := by omega
  simp only [h1, if_false, he, h2, hm]
  have h3 : ¬ ((e + 1022).toNat * two52 + m ≥ infBits) := by omega
  simp [h3]

theorem pow_toNat_add (a b c : Int) (ha : 0 ≤ a) (hb : 0 ≤ b) (hc : c = a + b) :
    2 ^ c.toNat = 2 ^ a.toNat * 2 ^ b.toNat := by
  rw [← Nat.pow_add]; congr 1; omega

theorem rnScaled_exact (r : Nat) (q : Int) (hr : r ≠ 0) (hL : r.log2 ≤ 52)
    (hlo : -1022 ≤ (r.log2 : Int) + q) (hhi : (r.log2 : Int) + q ≤ 1022) :
    rnScaled r q = ((r.log2 : Int) + q + 1022).toNat * two52 + r * 2 ^ (52 - r.log2) := by
  have hM : r * 2 ^ (52 - r.log2) < 2 ^ 53 := by
    calc r * 2 ^ (52 - r.log2) < 2 ^ (r.log2 + 1) * 2 ^ (52 - r.log2) :=
          Nat.mul_lt_mul_of_pos_right Nat.lt_log2_self (Nat.two_pow_pos _)
      _ = 2 ^ 53 := by rw [← Nat.pow_add]; congr 1; omega
  have hfin : ((r.log2 : Int) + q + 1022).toNat * two52 + r * 2 ^ (52 - r.log2) < infBits := by
    have : ((r.log2 : Int) + q + 1022).toNat ≤ 2044 := by omega
    have := Nat.mul_le_mul_right two52 this
    simp only [two52, infBits] at *
    omega
  unfold rnScaled
  by_cases hq : q ≥ 0
  · simp only [hq, if_true]
    have hpos : 0 < 2 ^ q.toNat := Nat.two_pow_pos _
    apply rn_of _ _ _ _ (Nat.mul_ne_zero hr (by omega)) (by omega) _ hlo _ hfin
    · rw [ilog2_pos r q.toNat hr]; omega
    · by_cases hp : (r.log2 : Int) + q - 52 ≥ 0
      · simp only [hp, if_true, Nat.one_mul]
        rw [pow_toNat_add ((52 - r.log2 : Nat) : Int) ((r.log2 : Int) + q - 52) q (by omega) hp (by omega),
          ← Nat.mul_assoc, Int.toNat_natCast]
        exact rne_exact _ _ (Nat.two_pow_pos _)
      · simp only [hp, if_false]
        rw [Nat.mul_assoc, ← pow_toNat_add q (-((r.log2 : Int) + q - 52)) ((52 - r.log2 : Nat) : Int)
          hq (by omega) (by omega), Int.toNat_natCast]
        have := rne_exact (r * 2 ^ (52 - r.log2)) 1 (by omega)
        simpa using this
  · simp only [hq, if_false]
    apply rn_of _ _ _ _ hr (by have := Nat.two_pow_pos (-q).toNat; omega) _ hlo _ hfin
    · rw [ilog2_neg r (-q).toNat hr]; omega
    · have hp : ¬ ((r.log2 : Int) + q - 52 ≥ 0) := by omega
      simp only [hp, if_false]
      rw [pow_toNat_add ((52 - r.log2 : Nat) : Int) (-q) (-((r.log2 : Int) + q - 52)) (by omega) (by omega)
        (by omega), ← Nat.mul_assoc, Int.toNat_natCast]
      exact rne_exact _ _ (Nat.two_pow_pos _)

/-! ### decoding the result -/

theorem decode_bits (E : Int) (M sign : Nat) (hE1 : -1022 ≤ E) (hE2 : E ≤ 1022)
    (hM1 : 2 ^ 52 ≤ M) (hM2 : M < 2 ^ 53) (hs : sign = 0 ∨ sign = signBit) :
    decode (sign + ((E + 1022).toNat * two52 + M)) = (M, E - 52) ∧
    isNaN (sign + ((E + 1022).toNat * two52 + M)) = false ∧
    isInf (sign + ((E + 1022).toNat * two52 + M)) = false ∧
    (if sign + ((E + 1022).toNat * two52 + M) ≥ signBit then signBit else 0) = sign := by
  obtain ⟨K, hK⟩ : ∃ K : Nat, (E + 1022).toNat = K := ⟨_, rfl⟩
  have hK2 : K ≤ 2044 := by omega
  have hKE : E = (K : Int) - 1022 := by omega
  rw [hK]
  have hmod : (sign + (K * two52 + M)) % signBit = K * two52 + M := by
    rcases hs with rfl | rfl <;> simp only [two52, signBit] at * <;> omega
  have hlt : K * two52 + M < infBits := by simp only [two52, infBits]; omega
  have hlt2 : infBits < signBit := by decide
  refine ⟨?_, ?_, ?_, ?_⟩
  · unfold decode
    simp only [hmod]
    have h1 : (K * two52 + M) / two52 = K + 1 := by simp only [two52]; omega
    have h2 : (K * two52 + M) % two52 + two52 = M := by simp only [two52]; omega
    have h3 : ¬ (K + 1 = 0) := by omega
    simp only [h1, h2, h3, if_false, Prod.mk.injEq, true_and]
    omega
  · unfold isNaN; rw [hmod]; exact decide_eq_false (by omega)
  · unfold isInf; rw [hmod]; simp only [beq_eq_false_iff_ne, ne_eq]; omega
  · rcases hs with rfl | rfl
    · rw [if_neg (by omega)]
    · rw [if_pos (by omega)]

/-! ### the finite, non-zero branch of `roundToF32` -/

def nOf (m : Nat) (p : Int) : Nat := if p ≥ 0 then m * 2 ^ p.toNat else m
def dOf (p : Int) : Nat := if p ≥ 0 then 1 else 2 ^ (-p).toNat
def qOf (m : Nat) (p : Int) : Int :=
  (if (m.log2 : Int) + p < -126 then -126 else (m.log2 : Int) + p) - 23
def coreR (n d : Nat) (q : Int) : Nat :=
  if q ≥ 0 then rne n (d * 2 ^ q.toNat) else rne (n * 2 ^ (-q).toNat) d
def coreOut (sign r : Nat) (q : Int) : Nat :=
  if (if q ≥ 0 then r * 2 ^ q.toNat ≥ 2 ^ 128 else false) then sign + infBits else sign + rnScaled r q

theorem ilog2_scaled (m : Nat) (p : Int) (hm : m ≠ 0) : ilog2 (nOf m p) (dOf p) = (m.log2 : Int) + p := by
  unfold nOf dOf
  by_cases hp : p ≥ 0
  · simp only [hp, if_true]; rw [ilog2_pos m p.toNat hm]; omega
  · simp only [hp, if_false]; rw [ilog2_neg m (-p).toNat hm]; omega

theorem roundToF32_finite (b m : Nat) (p : Int) (h1 : isNaN b = false) (h2 : isInf b = false)
    (hdec : decode b = (m, p)) (hm : m ≠ 0) :
    roundToF32 b = coreOut (if b ≥ signBit then signBit else 0)
      (coreR (nOf m p) (dOf p) (qOf m p)) (qOf m p) := by
  have hl := ilog2_scaled m p hm
  unfold roundToF32
  simp only [h1, h2, hdec, hm, if_false, Bool.false_eq_true]
  unfold coreOut coreR qOf
  unfold nOf dOf at hl ⊢
  by_cases hp : p ≥ 0
  · simp only [hp, if_true] at hl ⊢
    simp only [hl, Bool.false_eq_true]
  · simp only [hp, if_false] at hl ⊢
    simp only [hl, Bool.false_eq_true]

theorem scaled_le (m a b : Nat) (h : m.log2 + 1 + a ≤ 24 + b) : m * 2 ^ a ≤ 2 ^ 24 * 2 ^ b := by
  calc m * 2 ^ a ≤ 2 ^ (m.log2 + 1) * 2 ^ a := Nat.mul_le_mul_right _ (Nat.le_of_lt Nat.lt_log2_self)
    _ = 2 ^ (m.log2 + 1 + a) := (Nat.pow_add 2 (m.log2 + 1) a).symm
    _ ≤ 2 ^ (24 + b) := Nat.pow_le_pow_right (by omega) h
    _ = 2 ^ 24 * 2 ^ b := by rw [Nat.pow_add]

/-- the first rounding produces at most 24 bits -/
theorem coreR_le (m : Nat) (p : Int) : coreR (nOf m p) (dOf p) (qOf m p) ≤ 2 ^ 24 ∧ -149 ≤ qOf m p := by
  have hq : (m.log2 : Int) + p - 23 ≤ qOf m p ∧ -149 ≤ qOf m p := by unfold qOf; split <;> omega
  refine ⟨?_, hq.2⟩
  generalize qOf m p = q at hq
  unfold coreR nOf dOf
  by_cases hp : p ≥ 0 <;> by_cases hq0 : q ≥ 0 <;> simp only [hp, hq0, if_true, if_false]
  · apply rne_le _ _ _ (by simp only [Nat.one_mul]; exact Nat.two_pow_pos _)
    rw [Nat.one_mul]; exact scaled_le m _ _ (by omega)
  · apply rne_le _ _ _ (by omega)
    rw [Nat.mul_assoc, ← Nat.pow_add, Nat.mul_one]
    have := scaled_le m (p.toNat + (-q).toNat) 0 (by omega)
    simpa using this
  · apply rne_le _ _ _ (Nat.mul_pos (Nat.two_pow_pos _) (Nat.two_pow_pos _))
    rw [← Nat.pow_add]
    have := scaled_le m 0 ((-p).toNat + q.toNat) (by omega)
    simpa using this
  · apply rne_le _ _ _ (Nat.two_pow_pos _)
    exact scaled_le m _ _ (by omega)

theorem rnScaled_zero (q : Int) : rnScaled 0 q = 0 := by
  unfold rnScaled; split <;> simp [rn]

/-- the second rounding is exact -/
theorem coreR_exact (r : Nat) (q : Int) (hL : r.log2 ≤ 23) (hq : -149 ≤ q) :
    let M := r * 2 ^ (52 - r.log2)
    let P : Int := (r.log2 : Int) + q - 52
    let q2 : Int := (if (r.log2 : Int) + q < -126 then -126 else (r.log2 : Int) + q) - 23
    q2 ≤ q ∧ coreR (nOf M P) (dOf P) q2 = r * 2 ^ (q - q2).toNat := by
  intro M P q2
  have hq2 : q2 ≤ q ∧ ((r.log2 : Int) + q - 23 ≤ q2) := by
    show (if (r.log2 : Int) + q < -126 then -126 else (r.log2 : Int) + q) - 23 ≤ q ∧ _
    split <;> omega
  refine ⟨hq2.1, ?_⟩
  have hP : P = (r.log2 : Int) + q - 52 := rfl
  have hM : M = r * 2 ^ (52 - r.log2) := rfl
  generalize q2 = q2 at hq2
  generalize P = P at hP
  unfold coreR nOf dOf
  by_cases hp : P ≥ 0 <;> by_cases hq0 : q2 ≥ 0 <;> simp only [hp, hq0, if_true, if_false]
  · rw [Nat.one_mul]
    have : M * 2 ^ P.toNat = r * 2 ^ (q - q2).toNat * 2 ^ q2.toNat := by
      rw [hM, Nat.mul_assoc, Nat.mul_assoc, ← Nat.pow_add, ← Nat.pow_add]; congr 2; omega
    rw [this]; exact rne_exact _ _ (Nat.two_pow_pos _)
  · omega
  · have : M = r * 2 ^ (q - q2).toNat * (2 ^ (-P).toNat * 2 ^ q2.toNat) := by
      rw [hM, Nat.mul_assoc, ← Nat.pow_add, ← Nat.pow_add]; congr 2; omega
    rw [this]; exact rne_exact _ _ (Nat.mul_pos (Nat.two_pow_pos _) (Nat.two_pow_pos _))
  · have : M * 2 ^ (-q2).toNat = r * 2 ^ (q - q2).toNat * 2 ^ (-P).toNat := by
      rw [hM, Nat.mul_assoc, Nat.mul_assoc, ← Nat.pow_add, ← Nat.pow_add]; congr 2; omega
    rw [this]; exact rne_exact _ _ (Nat.two_pow_pos _)

theorem mant_bounds (r : Nat) (hr : r ≠ 0) (hL : r.log2 ≤ 52) :
    2 ^ 52 ≤ r * 2 ^ (52 - r.log2) ∧ r * 2 ^ (52 - r.log2) < 2 ^ 53 := by
  constructor
  · calc 2 ^ 52 = 2 ^ r.log2 * 2 ^ (52 - r.log2) := by rw [← Nat.pow_add]; congr 1; omega
      _ ≤ r * 2 ^ (52 - r.log2) := Nat.mul_le_mul_right _ (Nat.log2_self_le hr)
  · calc r * 2 ^ (52 - r.log2) < 2 ^ (r.log2 + 1) * 2 ^ (52 - r.log2) :=
          Nat.mul_lt_mul_of_pos_right Nat.lt_log2_self (Nat.two_pow_pos _)
      _ = 2 ^ 53 := by rw [← Nat.pow_add]; congr 1; omega

/-- a representable binary32 value, encoded as a double, is a fixed point -/
theorem fixed_repr (sign r : Nat) (q : Int) (hs : sign = 0 ∨ sign = signBit) (hr : r ≠ 0)
    (hr24 : r < 2 ^ 24) (hq : -149 ≤ q) (hov : q ≥ 0 → r * 2 ^ q.toNat < 2 ^ 128) :
    roundToF32 (sign + rnScaled r q) = sign + rnScaled r q := by
  have hL : r.log2 ≤ 23 := by have := (Nat.log2_lt (k := 24) hr).mpr hr24; omega
  have hE : (r.log2 : Int) + q ≤ 127 := by
    by_cases hq0 : q ≥ 0
    · have h1 : 2 ^ (r.log2 + q.toNat) < 2 ^ 128 :=
        calc 2 ^ (r.log2 + q.toNat) = 2 ^ r.log2 * 2 ^ q.toNat := Nat.pow_add _ _ _
          _ ≤ r * 2 ^ q.toNat := Nat.mul_le_mul_right _ (Nat.log2_self_le hr)
          _ < 2 ^ 128 := hov hq0
      have := (Nat.pow_lt_pow_iff_right (by omega : 1 < 2)).mp h1
      omega
    · omega
  obtain ⟨hM1, hM2⟩ := mant_bounds r hr (by omega)
  have hB := rnScaled_exact r q hr (by omega) (by omega) (by omega)
  generalize hMdef : r * 2 ^ (52 - r.log2) = M at *
  have hM0 : M ≠ 0 := by have := Nat.two_pow_pos 52; omega
  have hlogM : M.log2 = 52 := (Nat.log2_eq_iff hM0).mpr ⟨hM1, hM2⟩
  obtain ⟨hdec, hnan, hinf, hsign⟩ := decode_bits ((r.log2 : Int) + q) M sign (by omega) (by omega) hM1 hM2 hs
  rw [hB, roundToF32_finite _ M _ hnan hinf hdec hM0, hsign]
  have hq2eq : qOf M ((r.log2 : Int) + q - 52) =
      (if (r.log2 : Int) + q < -126 then -126 else (r.log2 : Int) + q) - 23 := by
    unfold qOf; rw [hlogM]; split <;> split <;> omega
  obtain ⟨hq2le, hex⟩ := coreR_exact r q (by omega) hq
  simp only [hMdef] at hex
  rw [hq2eq, hex]
  have hq2lo : (r.log2 : Int) + q - 23 ≤
      (if (r.log2 : Int) + q < -126 then -126 else (r.log2 : Int) + q) - 23 := by split <;> omega
  generalize (if (r.log2 : Int) + q < -126 then -126 else (r.log2 : Int) + q) - 23 = q2 at *
  unfold coreOut
  have hnov : ¬ (if q2 ≥ 0 then r * 2 ^ (q - q2).toNat * 2 ^ q2.toNat ≥ 2 ^ 128 else false = true) := by
    by_cases hq20 : q2 ≥ 0
    · simp only [hq20, if_true]
      rw [Nat.mul_assoc, ← Nat.pow_add, show (q - q2).toNat + q2.toNat = q.toNat by omega]
      have := hov (by omega); omega
    · simp [hq20]
  rw [if_neg hnov]
  congr 1
  have hr2 : r * 2 ^ (q - q2).toNat ≠ 0 := Nat.mul_ne_zero hr (by have := Nat.two_pow_pos (q - q2).toNat; omega)
  have hlog2 : (r * 2 ^ (q - q2).toNat).log2 = r.log2 + (q - q2).toNat := log2_mul_pow r _ hr
  rw [rnScaled_exact _ q2 hr2 (by omega) (by omega) (by omega), hlog2, ← hMdef]
  have e1 : (((r.log2 + (q - q2).toNat : Nat) : Int) + q2 + 1022).toNat = ((r.log2 : Int) + q + 1022).toNat := by
    omega
  have e2 : r * 2 ^ (q - q2).toNat * 2 ^ (52 - (r.log2 + (q - q2).toNat)) = r * 2 ^ (52 - r.log2) := by
    rw [Nat.mul_assoc, ← Nat.pow_add]; congr 2; omega
  rw [e1, e2]

theorem fixed_zero_pos : roundToF32 0 = 0 := by decide +kernel
theorem fixed_zero_neg : roundToF32 signBit = signBit := by decide +kernel
theorem fixed_inf_pos : roundToF32 (0 + infBits) = 0 + infBits := by decide +kernel
theorem fixed_inf_neg : roundToF32 (signBit + infBits) = signBit + infBits := by decide +kernel

theorem rnScaled_pow24 (q : Int) (h1 : -149 ≤ q) (h2 : q ≤ 103) :
    rnScaled (2 ^ 24) q = rnScaled (2 ^ 23) (q + 1) := by
  rw [rnScaled_exact (2 ^ 24) q (by decide) (by rw [Nat.log2_two_pow]; omega)
        (by rw [Nat.log2_two_pow]; omega) (by rw [Nat.log2_two_pow]; omega),
      rnScaled_exact (2 ^ 23) (q + 1) (by decide) (by rw [Nat.log2_two_pow]; omega)
        (by rw [Nat.log2_two_pow]; omega) (by rw [Nat.log2_two_pow]; omega)]
  simp only [Nat.log2_two_pow]
  have : ((24 : Nat) : Int) + q + 1022 = ((23 : Nat) : Int) + (q + 1) + 1022 := by omega
  rw [this]

/-- **`f64 as f32` is idempotent.** -/
theorem roundToF32_idem (b : Nat) : roundToF32 (roundToF32 b) = roundToF32 b := by
  by_cases hnan : isNaN b = true
  · have : roundToF32 b = b := by unfold roundToF32; simp [hnan]
    rw [this, this]
  by_cases hinf : isInf b = true
  · have : roundToF32 b = b := by unfold roundToF32; simp [hinf]
    rw [this, this]
  cases hdec : decode b with
  | mk m p =>
  by_cases hm : m = 0
  · have : roundToF32 b = b := by unfold roundToF32; simp [hdec, hm]
    rw [this, this]
  rw [roundToF32_finite b m p (by simpa using hnan) (by simpa using hinf) hdec hm]
  have hs : (if b ≥ signBit then signBit else 0) = 0 ∨ (if b ≥ signBit then signBit else 0) = signBit := by
    split <;> simp
  generalize (if b ≥ signBit then signBit else 0) = sign at hs
  obtain ⟨hr, hq⟩ := coreR_le m p
  generalize coreR (nOf m p) (dOf p) (qOf m p) = r at hr
  generalize qOf m p = q at hq
  unfold coreOut
  by_cases hov : (if q ≥ 0 then r * 2 ^ q.toNat ≥ 2 ^ 128 else false = true)
  · rw [if_pos hov]
    rcases hs with rfl | rfl
    · exact fixed_inf_pos
    · exact fixed_inf_neg
  · rw [if_neg hov]
    have hov' : q ≥ 0 → r * 2 ^ q.toNat < 2 ^ 128 := by
      intro hq0; simp only [hq0, if_true] at hov; omega
    by_cases hr0 : r = 0
    · subst hr0
      rw [rnScaled_zero, Nat.add_zero]
      rcases hs with rfl | rfl
      · exact fixed_zero_pos
      · exact fixed_zero_neg
    by_cases hr24 : r = 2 ^ 24
    · subst hr24
      have hq103 : q ≤ 103 := by
        by_cases hq0 : q ≥ 0
        · have h1 := hov' hq0
          rw [← Nat.pow_add] at h1
          have := (Nat.pow_lt_pow_iff_right (by omega : 1 < 2)).mp h1
          omega
        · omega
      rw [rnScaled_pow24 q hq hq103]
      apply fixed_repr sign (2 ^ 23) (q + 1) hs (by decide) (by decide) (by omega)
      intro hq1
      have h23 : (2 : Nat) ^ 23 * 2 ^ (q + 1).toNat = 2 ^ (23 + (q + 1).toNat) := (Nat.pow_add 2 23 _).symm
      rw [h23]
      exact Nat.pow_lt_pow_right (by omega) (by omega)
    · exact fixed_repr sign r q hs hr0 (by omega) hq hov'

end Serde
end Lexpr
