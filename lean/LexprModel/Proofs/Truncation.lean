/-
  C19, truncation clause: "If an input is a proper prefix of a text that parses as a single datum
  and the prefix itself does not parse, the error category is EOF."

  RESULT.  This development found the clause FALSE for the code in two ways (both confirmed on the
  real crate):

   (A) Emacs numeric escapes (`\x<hex digits>`, `\<octal digits>`, in strings also
       `\N{U+<hex digits>`): when the input ended after digits whose value is a surrogate
       (U+D800..U+DFFF) the error was `InvalidUnicodeCodePoint` (syntax category), although one more
       digit gives a scalar value (`"\xD800` is a prefix of `"\xD8000"`).  REPAIRED in /repo
       (`surrogate_at_end`: such an escape is now `EofWhileParsingString` /
       `EofWhileParsingCharacterConstant`); the model follows the repaired code, and the old
       witnesses are kept in TruncExamples.lean as examples of the new behaviour.

   (B) Long decimal literals: an integer part of more than 308 digits is out of range for a
       double when the input ends (`NumberOutOfRange`, syntax category), but an exponent may follow:
       `2` followed by 308 zeros is a prefix of the same text followed by `e-1`, which is the
       number 2e307.  Both build features.  NOT repaired (known finding).  Witnesses:
       `C19_truncation_counterexample_long_*` in TruncExamples.lean.

  THEOREM (`C19_truncation`, `C19_truncation_datum`): for every parser option set, both build
  features, every source (str / slice / stream), if `p ++ q` (q ≠ []) parses as a single datum and
  `p` does not, the error on `p` is of EOF category (or the I/O error of a failing stream) unless
  it is `NumberOutOfRange`.  `C19_truncation_iff`: that exception is exactly the failure of the
  clause.  `C19_truncation_eof` (hypotheses form), the three sources by name, a failing stream,
  and call histories / the iterator API (TruncHistory.lean).

  Method: `TruncBase.lean` (the calculus), `TruncLex.lean`, `TruncNum.lean`, `TruncTok.lean`
  (lexer), `TruncParse.lean`, `TruncValue.lean`, `TruncDatum.lean` (parser).
-/
import LexprModel.Proofs.TruncDatum
import LexprModel.Proofs.Locations
namespace Lexpr
namespace Parse
namespace Trunc
open PrefixDet (Sim ext Scanner digitsLen scan ext_rest ext_consume)

section entry
variable {s : St} {q : List UInt8}

theorem nextValueTop_t (cfg : Cfg) (hq : q ≠ []) :
    TS (XR cfg s.rd.rest) QT (nextValueTop cfg) (nextValueTop cfg) s q := by
  unfold nextValueTop
  exact TS.bind_apiFuel (fun n n' hn => (value_ts cfg hq n n' hn).1 s)

theorem nextDatumTop_t (cfg : Cfg) (hq : q ≠ []) :
    TS (XR cfg s.rd.rest) QT (nextDatumTop cfg) (nextDatumTop cfg) s q := by
  unfold nextDatumTop
  exact TS.bind_apiFuel (fun n n' hn => (datum_ts cfg hq n n' hn).1 s)

theorem expectValue_t (cfg : Cfg) (hq : q ≠ []) :
    TS (XR cfg s.rd.rest) QT (expectValue cfg) (expectValue cfg) s q := by
  unfold expectValue
  refine TS.bindM XR.mono (nextValueTop_t cfg hq) (fun o s1 _ _ => ?_) (fun o s1 _ h0 _ => ?_)
  · cases o with
    | none => exact TS.peekErr
    | some v => exact TS.pure
  · cases o with
    | none => exact TE.peekErrSoft (by decide)
    | some v => exact TE.pure h0 trivial

theorem expectDatum_t (cfg : Cfg) (hq : q ≠ []) :
    TS (XR cfg s.rd.rest) QT (expectDatum cfg) (expectDatum cfg) s q := by
  unfold expectDatum
  refine TS.bindM XR.mono (nextDatumTop_t cfg hq) (fun o s1 _ _ => ?_) (fun o s1 _ h0 _ => ?_)
  · cases o with
    | none => exact TS.peekErr
    | some v => exact TS.pure
  · cases o with
    | none => exact TE.peekErrSoft (by decide)
    | some v => exact TE.pure h0 trivial

theorem expectEnd_t {X : Err → Prop} (hq : q ≠ []) : TS X QT expectEnd expectEnd s q := by
  unfold expectEnd
  refine TS.bind (parseWhitespace_t hq) (fun o s1 _ _ => ?_) (fun o s1 _ h0 ho => ?_)
  · cases o with
    | none => exact TS.pure
    | some _ => exact TS.peekErr
  · cases ho; exact TE.pure h0 trivial

theorem expectEnd_eo {X : Err → Prop} (h0 : s.rd.rest = []) :
    EO X expectEnd s (fun _ _ => True) := by
  unfold expectEnd
  refine EO.bind (parseWhitespace_eo h0) (fun o s1 h1 ho => ?_)
  obtain ⟨rfl, _⟩ := ho
  exact EO.pure h1 trivial

theorem fromTrait_t (cfg : Cfg) (hq : q ≠ []) :
    TS (XR cfg s.rd.rest) QT (fromTrait cfg) (fromTrait cfg) s q := by
  unfold fromTrait
  refine TS.bindM XR.mono (expectValue_t cfg hq) (fun v s1 _ _ => ?_) (fun v s1 _ h0 _ => ?_)
  · refine TS.bindM XR.mono (expectEnd_t hq) (fun _ _ _ _ => TS.pure) (fun _ s2 _ h0 _ => ?_)
    exact TE.pure h0 trivial
  · exact TE.bind (expectEnd_eo h0) (fun _ s2 h2 _ => TE.pure h2 trivial)

theorem fromTraitDatum_t (cfg : Cfg) (hq : q ≠ []) :
    TS (XR cfg s.rd.rest) QT (fromTraitDatum cfg) (fromTraitDatum cfg) s q := by
  unfold fromTraitDatum
  refine TS.bindM XR.mono (expectDatum_t cfg hq) (fun v s1 _ _ => ?_) (fun v s1 _ h0 _ => ?_)
  · refine TS.bindM XR.mono (expectEnd_t hq) (fun _ _ _ _ => TS.pure) (fun _ s2 _ h0 _ => ?_)
    exact TE.pure h0 trivial
  · exact TE.bind (expectEnd_eo h0) (fun _ s2 h2 _ => TE.pure h2 trivial)

/-- reading `TS` off for a failing truncated run whose extension succeeds -/
theorem TS.err_of_ok {α : Type} {X : Err → Prop} {Q : α → St → Res α → Prop} {m m' : P α}
    {e : Err} {s' : St} {a : α} {s1 : St} (h : TS X Q m m' s q) (hfail : m s = .err e s')
    (hok : m' (ext q s) = .ok a s1) : Soft e ∨ X e := by
  unfold TS at h
  rw [hfail] at h
  rcases h with h | h | h
  · exact Or.inl h
  · exact Or.inr h
  · exact absurd hok (h a s1)

end entry
end Trunc

/-- the exception of the truncation clause: the error `e` is `NumberOutOfRange` (class B above) -/
def TruncExc (e : Err) : Prop := ∃ l k, e = .syntax .numberOutOfRange l k

open Trunc in
theorem TruncExc_of_XR {cfg : Cfg} {p : List UInt8} {e : Err} (h : XR cfg p e) : TruncExc e := h

open Trunc in
/-- **C19_truncation_gen**: the general form (any source, failing stream or not, value and datum
    API): the error on the truncated text is not of syntax category, or it is an exception. -/
theorem C19_truncation_gen (cfg : Cfg) (mode : Mode) (faulty : Bool) (p q : List UInt8)
    (hq : q ≠ []) (e : Err) (s' : St) :
    ((∃ v s1, fromTrait cfg (initSt mode (p ++ q) faulty) = .ok v s1) →
      fromTrait cfg (initSt mode p faulty) = .err e s' →
      e.category ≠ .syntax ∨ TruncExc e) ∧
    ((∃ d s1, fromTraitDatum cfg (initSt mode (p ++ q) faulty) = .ok d s1) →
      fromTraitDatum cfg (initSt mode p faulty) = .err e s' →
      e.category ≠ .syntax ∨ TruncExc e) := by
  refine ⟨fun ⟨v, s1, hok⟩ hfail => ?_, fun ⟨d, s1, hok⟩ hfail => ?_⟩
  · have h := fromTrait_t (s := initSt mode p faulty) cfg hq
    rw [← PrefixDet.ext_initSt] at hok
    exact (h.err_of_ok hfail hok).imp id TruncExc_of_XR
  · have h := fromTraitDatum_t (s := initSt mode p faulty) cfg hq
    rw [← PrefixDet.ext_initSt] at hok
    exact (h.err_of_ok hfail hok).imp id TruncExc_of_XR

theorem category_eof_of {e : Err} (h : e.category ≠ .syntax) (hio : e ≠ .io) : e.category = .eof := by
  rcases e with ⟨c, l, k⟩ | _
  · cases c <;> first | rfl | exact absurd rfl h
  · exact absurd rfl hio

/-- **C19_truncation** (the clause of C19, with its exceptions).  `t` parses as a single datum
    (`from_str` / `from_slice` / `from_reader`, according to `mode`), `p` is a proper prefix of `t`
    and does not parse: then the error is of EOF category, or it is `NumberOutOfRange`
    (`TruncExc`).  Every option set and both build features (`cfg` is arbitrary). -/
theorem C19_truncation (cfg : Cfg) (mode : Mode) (t p : List UInt8) (v : Value) (s : St) (e : Err)
    (s' : St) (hfull : fromTrait cfg (initSt mode t) = .ok v s) (hpre : p <+: t) (hne : p ≠ t)
    (hfail : fromTrait cfg (initSt mode p) = .err e s') :
    e.category = .eof ∨ TruncExc e := by
  obtain ⟨q, rfl⟩ := hpre
  have hq : q ≠ [] := fun h => hne (by simp [h])
  have hio : e ≠ .io := by
    intro h
    have := (Progress.fromTrait_spec.err hfail).2 h
    cases this
  exact ((C19_truncation_gen cfg mode false p q hq e s').1 ⟨v, s, hfull⟩ hfail).imp
    (fun h => category_eof_of h hio) id

/-- **C19_truncation_datum**: the same for `datum::from_str` / `from_slice` / `from_reader`. -/
theorem C19_truncation_datum (cfg : Cfg) (mode : Mode) (t p : List UInt8) (d : Datum) (s : St)
    (e : Err) (s' : St) (hfull : fromTraitDatum cfg (initSt mode t) = .ok d s) (hpre : p <+: t)
    (hne : p ≠ t) (hfail : fromTraitDatum cfg (initSt mode p) = .err e s') :
    e.category = .eof ∨ TruncExc e := by
  obtain ⟨q, rfl⟩ := hpre
  have hq : q ≠ [] := fun h => hne (by simp [h])
  have hio : e ≠ .io := by
    intro h
    have := (Progress.fromTraitDatum_spec.err hfail).2 h
    cases this
  exact ((C19_truncation_gen cfg mode false p q hq e s').2 ⟨d, s, hfull⟩ hfail).imp
    (fun h => category_eof_of h hio) id

/-- the exception is of syntax category: under the hypotheses of `C19_truncation` the clause
    of C19 fails exactly when `TruncExc` holds -/
theorem TruncExc_syntax {e : Err} (h : TruncExc e) : e.category = .syntax := by
  obtain ⟨l, k, rfl⟩ := h; rfl

/-- **C19_truncation_iff**: under the hypotheses of the clause, the error is of EOF category if and
    only if it is not `NumberOutOfRange` (so the exception is exactly the failure). -/
theorem C19_truncation_iff (cfg : Cfg) (mode : Mode) (t p : List UInt8) (v : Value) (s : St) (e : Err)
    (s' : St) (hfull : fromTrait cfg (initSt mode t) = .ok v s) (hpre : p <+: t) (hne : p ≠ t)
    (hfail : fromTrait cfg (initSt mode p) = .err e s') :
    e.category = .eof ↔ ¬ TruncExc e := by
  refine ⟨fun h hx => ?_, fun h => ?_⟩
  · rw [TruncExc_syntax hx] at h; cases h
  · exact (C19_truncation cfg mode t p v s e s' hfull hpre hne hfail).resolve_right h

/-- **C19_truncation_eof** (hypotheses form): if the error is not `NumberOutOfRange`, it is of EOF
    category. -/
theorem C19_truncation_eof (cfg : Cfg) (mode : Mode) (t p : List UInt8) (v : Value) (s : St) (e : Err)
    (s' : St) (hfull : fromTrait cfg (initSt mode t) = .ok v s) (hpre : p <+: t) (hne : p ≠ t)
    (hfail : fromTrait cfg (initSt mode p) = .err e s')
    (hB : ∀ l k, e ≠ .syntax .numberOutOfRange l k) : e.category = .eof := by
  rcases C19_truncation cfg mode t p v s e s' hfull hpre hne hfail with h | ⟨l, k, h⟩
  · exact h
  · exact absurd h (hB l k)

/-- **C19_truncation_sources**: the clause for `from_str`, `from_slice` and `from_reader` by name
    (instances of `C19_truncation`; the text of a `&str` is valid UTF-8, which is not needed). -/
theorem C19_truncation_sources (cfg : Cfg) (t p : List UInt8) (hpre : p <+: t) (hne : p ≠ t) :
    (∀ v s e s', fromTrait cfg (initSt .str t) = .ok v s → fromTrait cfg (initSt .str p) = .err e s' →
      e.category = .eof ∨ TruncExc e) ∧
    (∀ v s e s', fromTrait cfg (initSt .slice t) = .ok v s →
      fromTrait cfg (initSt .slice p) = .err e s' → e.category = .eof ∨ TruncExc e) ∧
    (∀ v s e s', fromTrait cfg (initSt .io t) = .ok v s → fromTrait cfg (initSt .io p) = .err e s' →
      e.category = .eof ∨ TruncExc e) :=
  ⟨fun v s e s' h1 h2 => C19_truncation cfg .str t p v s e s' h1 hpre hne h2,
   fun v s e s' h1 h2 => C19_truncation cfg .slice t p v s e s' h1 hpre hne h2,
   fun v s e s' h1 h2 => C19_truncation cfg .io t p v s e s' h1 hpre hne h2⟩

/-- **C19_truncation_faulty_stream**: a stream that delivers `p` and then fails (instead of
    ending), where `p ++ q` from an equally failing stream would parse: the error is the I/O error
    or of EOF category, with the same exceptions. -/
theorem C19_truncation_faulty_stream (cfg : Cfg) (p q : List UInt8) (hq : q ≠ []) (v : Value)
    (s : St) (e : Err) (s' : St) (hfull : fromTrait cfg (initSt .io (p ++ q) true) = .ok v s)
    (hfail : fromTrait cfg (initSt .io p true) = .err e s') :
    e = .io ∨ e.category = .eof ∨ TruncExc e := by
  rcases (C19_truncation_gen cfg .io true p q hq e s').1 ⟨v, s, hfull⟩ hfail with h | h
  · by_cases hio : e = .io
    · exact Or.inl hio
    · exact Or.inr (Or.inl (category_eof_of h hio))
  · exact Or.inr (Or.inr h)

end Parse
end Lexpr
