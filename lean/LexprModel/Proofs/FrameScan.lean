/-
  C08, last clause — the frame theorem for whole inputs, with the exercised options computed by the
  flat scan of the token stream.

  `Spec.exercised cfg mode bytes` scans the token stream of the input once, context-free (skip
  trivia, take the token, continue behind it), and collects the declarative per-token sets
  `Spec.tokenOpts`.  This file shows that the scan covers every token the parser reads:

    `exercisedOp_sub` : every option in `Spec.exercisedOp` (the tokens the parser reads) is in
                        `Spec.exercised` (the tokens of the flat scan);
    `C08_frame`       : two configurations of the same build that agree on `Spec.exercised` give the
                        same outcome of `from_str` / `from_slice` / `from_reader`.

  Method: `post_steps` — after a successful `next_value` / `parse_list` / `parse_vector` the reader
  is at a position from which the scan finds nothing that it does not find from the start position
  (`Good`); `ex_sub` — the options collected along the parser's path are found by the scan.
-/
import LexprModel.Proofs.Frame
import LexprModel.Proofs.ScanBase
namespace Lexpr
namespace Parse
namespace C08
open Spec DepthInd

/-- list inclusion -/
def Sub (a b : List OptName) : Prop := ∀ n ∈ a, n ∈ b

theorem Sub.refl (a : List OptName) : Sub a a := fun _ h => h
theorem Sub.trans {a b c : List OptName} (h1 : Sub a b) (h2 : Sub b c) : Sub a c :=
  fun n h => h2 n (h1 n h)
theorem Sub.nil (a : List OptName) : Sub [] a := fun _ h => by cases h
theorem Sub.append {a b c : List OptName} (h1 : Sub a c) (h2 : Sub b c) : Sub (a ++ b) c := by
  intro n hn
  rcases List.mem_append.mp hn with h | h
  · exact h1 n h
  · exact h2 n h
theorem Sub.of_eq {a b : List OptName} (h : a = b) : Sub a b := h ▸ Sub.refl a
theorem Sub.left (a b : List OptName) : Sub a (a ++ b) := fun _ h => List.mem_append_left _ h
theorem Sub.right (a b : List OptName) : Sub b (a ++ b) := fun _ h => List.mem_append_right _ h

/-- from `s'` the scan finds nothing that it does not find from `s` -/
def Good (cfg : Cfg) (s s' : St) : Prop := Sub (scanAll cfg s') (scanAll cfg s)

theorem Good.refl (cfg : Cfg) (s : St) : Good cfg s s := Sub.refl _
theorem Good.trans {cfg : Cfg} {s s1 s2 : St} (h1 : Good cfg s s1) (h2 : Good cfg s1 s2) :
    Good cfg s s2 := Sub.trans h2 h1
theorem Good.of_eq {cfg : Cfg} {s s' : St} (h : scanAll cfg s' = scanAll cfg s) : Good cfg s s' :=
  Sub.of_eq h
theorem Good.of_rd {cfg : Cfg} {s s' : St} (h : s'.rd = s.rd) : Good cfg s s' :=
  Good.of_eq (scanAll_depth cfg s s' h)

/-- a successful run ends in a `Good` state -/
def Post {α : Type} (cfg : Cfg) (s : St) (r : Res α) : Prop :=
  match r with
  | .ok _ s' => Good cfg s s'
  | _ => True

theorem Post.weaken {α : Type} {cfg : Cfg} {s s1 : St} {r : Res α} (h : Good cfg s s1)
    (hp : Post cfg s1 r) : Post cfg s r := by
  cases r with
  | ok a s' => exact h.trans hp
  | err e s' => trivial
  | panic p => trivial
  | fuel => trivial

theorem Post_bind {α β : Type} {cfg : Cfg} {m : P α} {f : α → P β} {s : St}
    (hm : Post cfg s (m s)) (hf : ∀ a s1, m s = .ok a s1 → Post cfg s1 (f a s1)) :
    Post cfg s ((m >>= f) s) := by
  simp only [bind_apply]
  cases h : m s with
  | ok a s1 =>
    rw [h] at hm
    exact Post.weaken hm (hf a s1 h)
  | err e s1 => trivial
  | panic p => trivial
  | fuel => trivial

theorem Post_ws (cfg : Cfg) (s : St) : Post cfg s (parseWhitespace s) := by
  cases h : parseWhitespace s with
  | ok r s0 => exact Good.of_eq (scanAll_ws cfg h)
  | err e s0 => trivial
  | panic p => trivial
  | fuel => trivial

/-! ### small facts about the parser's own steps -/

theorem enter_rd {s s' : St} {u : Unit} (h : enter s = .ok u s') : s'.rd = s.rd := by
  unfold enter at h
  split at h
  · cases h
  · split at h
    · cases h
    · simp only [Res.ok.injEq] at h
      rw [← h.2]

theorem leave_eq (s : St) : leave s = .ok () { s with depth := s.depth + 1 } := rfl

/-- a closing parenthesis or bracket is never a token -/
theorem closer_not_token (cfg : Cfg) (fuel : Nat) (pk : UInt8) (s : St) (tok : Token) (s' : St)
    (hc : (pk == 41 || pk == 93) = true) : parseToken cfg fuel pk s ≠ .ok tok s' := by
  have hpk : pk = 41 ∨ pk = 93 := by simpa using hc
  have facts : ∀ b : UInt8, b = 41 ∨ b = 93 →
      (b == 35) = false ∧ (b == 45) = false ∧ (b == 43) = false ∧ isDigit b = false ∧
      (b == 34) = false ∧ (b == 40) = false ∧ (b == 91) = false ∧ (b == 58) = false ∧
      isAsciiAlpha b = false ∧ (b == 63) = false ∧ (b == 39) = false ∧ (b == 96) = false ∧
      (b == 44) = false ∧ ¬ (b > 127) ∧ isSymbolExtended b = false := by
    intro b hb; rcases hb with rfl | rfl <;> decide
  obtain ⟨h35, h45, h43, hd, h34, h40, h91, h58, hal, h63, h39, h96, h44, h127, he⟩ := facts pk hpk
  intro h
  unfold parseToken at h
  simp only [h35, h45, h43, hd, h34, h40, h91, h58, hal, h63, h39, h96, h44, h127, he,
    Bool.false_and, Bool.false_eq_true, ↓reduceIte] at h
  obtain ⟨a, s1, _, h2⟩ := bind_ok' h
  obtain ⟨u, s2, _, h3⟩ := bind_ok' h2
  cases h3

theorem tokenOpts_closer (o : Options) (m : Mode) (pk : UInt8) (tl : List UInt8)
    (hc : (pk == 41 || pk == 93) = true) : tokenOpts o m (pk :: tl) = [] := by
  have hpk : pk = 41 ∨ pk = 93 := by simpa using hc
  rcases hpk with rfl | rfl <;> simp [tokenOpts, isDigit, isAsciiAlpha, isSymbolExtended]

theorem tokenOpts_dot (o : Options) (m : Mode) (tl : List UInt8) :
    tokenOpts o m (46 :: tl) = postfixKw (tokenText m (46 :: tl)) := by
  simp [tokenOpts, isDigit, isAsciiAlpha, isSymbolExtended]

/-! ### the closing delimiter of an opening token is `)` or `]` -/

def OpenOK : Token → Prop
  | .listOpen c => c = 41 ∨ c = 93
  | .vecOpen c => c = 41 ∨ c = 93
  | _ => True

structure Opens (m : P Token) : Prop where
  ok : ∀ s tok s', m s = .ok tok s' → OpenOK tok

theorem Opens.pure {t : Token} (h : OpenOK t) : Opens (pure t) := by
  constructor
  intro s tok s' hr
  simp only [pure_apply, Res.ok.injEq] at hr
  rw [← hr.1]; exact h
theorem Opens.bind {α : Type} {m : P α} {f : α → P Token} (hf : ∀ a, Opens (f a)) :
    Opens (m >>= f) := by
  constructor
  intro s tok s' hr
  obtain ⟨a, s1, _, h2⟩ := bind_ok' hr
  exact (hf a).ok s1 tok s' h2
theorem Opens.ite {c : Prop} [Decidable c] {f g : P Token} (hf : Opens f) (hg : Opens g) :
    Opens (if c then f else g) := by
  split <;> assumption
theorem Opens.peekErr (c : Code) : Opens (peekErr c) := ⟨fun _ _ _ h => by cases h⟩
theorem Opens.panicAt (p : Site) : Opens (panicAt p) := ⟨fun _ _ _ h => by cases h⟩
theorem Opens.rawErr (e : Err) : Opens (fun s' => Res.err e s') := ⟨fun _ _ _ h => by cases h⟩
theorem opens_symbolToken (o : Options) (name : List UInt8) :
    Opens (Pure.pure (Parse.symbolToken o name)) := by
  apply Opens.pure
  rcases symbolToken_cases o name with h | h <;> rw [h] <;> trivial

theorem opens_parseSignToken (cfg : Cfg) (fuel : Nat) (sign : UInt8) (pos : Bool) :
    Opens (parseSignToken cfg fuel sign pos) := by
  simp only [Parse.parseSignToken, Parse.parseSignDotSymbol]
  repeat' (first
    | exact opens_symbolToken _ _ | exact Opens.peekErr _ | exact Opens.pure trivial
    | apply Opens.bind | apply Opens.ite | intro _)

theorem opens_parseToken (cfg : Cfg) (fuel : Nat) (pk : UInt8) : Opens (parseToken cfg fuel pk) := by
  simp only [Parse.parseToken]
  repeat' (first
    | exact opens_symbolToken _ _ | exact Opens.peekErr _ | exact Opens.panicAt _
    | exact Opens.rawErr _ | exact opens_parseSignToken _ _ _ _
    | exact Opens.pure trivial | exact Opens.pure (.inl rfl) | exact Opens.pure (.inr rfl)
    | apply Opens.bind | apply Opens.ite | intro _ | split)

theorem Post_endSeq (cfg : Cfg) (close : UInt8) (hc : close = 41 ∨ close = 93) (s : St) :
    Post cfg s (endSeq close s) := by
  unfold endSeq
  simp only [bind_apply]
  cases hw : parseWhitespace s with
  | ok r s0 =>
    cases r with
    | none => trivial
    | some b =>
      simp only
      by_cases hb : (b == close) = true
      · simp only [hb, ↓reduceIte]
        cases hd : discard s0 with
        | ok u s1 =>
          have hbc : (b == 41 || b == 93) = true := by
            have : b = close := by simpa using hb
            rcases hc with rfl | rfl <;> simp [this]
          exact Good.of_eq (scanAll_closer cfg hw hbc hd).symm
        | err e s1 => trivial
        | panic p => trivial
        | fuel => trivial
      · simp only [hb, Bool.false_eq_true, ↓reduceIte]
        trivial
  | err e s0 => trivial
  | panic p => trivial
  | fuel => trivial

/-! ### `.name` inside a list is read like the token `.name` -/

theorem consume_peeked_irrel (rd : Rd) (p : Bool) (n : Nat) :
    ({ rd with peeked := p } : Rd).consume n = rd.consume n := by
  cases n with
  | zero => rfl
  | succ n =>
    unfold Rd.consume
    cases rd.rest <;> rfl

theorem adv_of_peek {s s' : St} {o : Option UInt8} (h : peek s = .ok o s') (n : Nat) :
    s'.adv n = s.adv n := by
  unfold peek at h
  cases hr : s.rd.rest with
  | nil =>
    rw [hr] at h
    by_cases hf : s.rd.faulty = true
    · simp [hf] at h
    · simp only [hf, Bool.false_eq_true, ↓reduceIte, Res.ok.injEq] at h
      rw [← h.2]
  | cons b bs =>
    rw [hr] at h
    simp only [Res.ok.injEq] at h
    rw [← h.2]
    simp only [St.adv]
    rw [consume_peeked_irrel]

theorem dot_symbol_sync (cfg : Cfg) (fuel : Nat) {s0 s1 s2 s3 : St} {u : Unit} {nxt : UInt8}
    {name : List UInt8} (h46 : s0.rd.rest.head? = some 46)
    (hd : discard s0 = .ok u s1) (hp : peekOrNull s1 = .ok nxt s2)
    (hn : parseSymbolBytes [46] s2 = .ok name s3) :
    parseToken cfg fuel 46 s0 = .ok (symbolToken cfg.opts name) s3 := by
  rw [ext_dispatch cfg fuel 46 (by decide) (by decide) (by intro h; cases h)]
  simp only [bind_apply]
  suffices h : parseSymbolBytes [] s0 = .ok name s3 by rw [h]; rfl
  obtain ⟨b, tl, hr0, rfl⟩ := discard_ok hd
  rw [hr0] at h46
  simp only [List.head?_cons, Option.some.injEq] at h46
  subst h46
  unfold peekOrNull at hp
  obtain ⟨o, s2', hpk, hp2⟩ := bind_ok' hp
  simp only [pure_apply, Res.ok.injEq] at hp2
  obtain ⟨_, rfl⟩ := hp2
  obtain ⟨_, hr2, hm2⟩ := peek_ok hpk
  have hr2' : s2'.rd.rest = tl := by rw [hr2]; simp [hr0]
  have hm2' : s2'.rd.mode = s0.rd.mode := by rw [hm2]; simp
  have hadv : ∀ n, s2'.adv n = s0.adv (n + 1) := by
    intro n; rw [adv_of_peek hpk n, adv_adv, Nat.add_comm]
  have hsl : symLen s0.rd.mode (46 :: tl) = symLen s0.rd.mode tl + 1 := by
    simp [symLen, symTerm_slice, show symTermSlice 46 = false from rfl]
  unfold parseSymbolBytes at hn ⊢
  simp only [bind_apply, getRest_eq, getMode_eq, consumeN_eq] at hn ⊢
  rw [hr2', hm2', hadv] at hn
  rw [hr0, hsl]
  simpa using hn

/-! ### results that are not a success -/

def notOk {α : Type} : Res α → Prop
  | .ok _ _ => False
  | _ => True

theorem Post.of_notOk {α : Type} {cfg : Cfg} {s : St} {r : Res α} (h : notOk r) : Post cfg s r := by
  cases r with
  | ok a s' => exact h.elim
  | err e s' => trivial
  | panic p => trivial
  | fuel => trivial

theorem Post_attempt_bind {α β : Type} {cfg : Cfg} {m : P α} {k : Except Err α → P β} {s : St}
    (hm : Post cfg s (m s))
    (hk_ok : ∀ a s1, m s = .ok a s1 → Post cfg s1 (k (.ok a) s1))
    (hk_err : ∀ e s1, notOk (k (.error e) s1)) :
    Post cfg s ((attempt m >>= k) s) := by
  simp only [bind_apply, attempt]
  cases h : m s with
  | ok a s1 =>
    rw [h] at hm
    exact Post.weaken hm (hk_ok a s1 h)
  | err e s1 => exact Post.of_notOk (hk_err e s1)
  | panic p => trivial
  | fuel => trivial

/-! ### after a successful run the scan has lost nothing -/

/-- the tail of a bracketed form (`leave`, then the closing delimiter) after the elements have
    been read successfully -/
local macro "seq_tail_ok" cfg:ident close:ident hopen:ident s3:ident : tactic => `(tactic| (
  simp only [bind_apply, leave_eq, attempt]
  have hpe := Post_endSeq $cfg $close $hopen { $s3 with depth := ($s3).depth + 1 }
  cases hes : endSeq $close { $s3 with depth := ($s3).depth + 1 } with
  | ok u s6 =>
    cases u
    rw [hes] at hpe
    have h1 : Good $cfg $s3 { $s3 with depth := ($s3).depth + 1 } := Good.of_rd rfl
    have h2 : Good $cfg { $s3 with depth := ($s3).depth + 1 } s6 := hpe
    exact h1.trans h2
  | err e s6 => trivial
  | panic p => trivial
  | fuel => trivial))

/-- … and after they have failed: the result is the error -/
local macro "seq_tail_err" close:ident s3:ident : tactic => `(tactic| (
  simp only [bind_apply, leave_eq, attempt]
  cases hes : endSeq $close { $s3 with depth := ($s3).depth + 1 } with
  | ok u s6 => cases u; trivial
  | err e s6 => trivial
  | panic p => trivial
  | fuel => trivial))

theorem Post_enter_bind {β : Type} {cfg : Cfg} {k : Unit → P β} {s : St}
    (hk : ∀ s2, s2.rd = s.rd → Post cfg s2 (k () s2)) : Post cfg s ((enter >>= k) s) := by
  apply Post_bind
  · cases he : enter s with
    | ok u s2 => exact Good.of_rd (enter_rd he)
    | err e s2 => trivial
    | panic p => trivial
    | fuel => trivial
  · intro u s2 he
    cases u
    exact hk s2 (enter_rd he)

theorem value_post (cfg : Cfg) (f : Nat)
    (ihV : ∀ s, Post cfg s (nextValue cfg f s))
    (ihL : ∀ term acc s, Post cfg s (parseList cfg f term acc s))
    (ihX : ∀ term acc s, Post cfg s (parseVector cfg f term acc s))
    (s : St) : Post cfg s (nextValue cfg (f + 1) s) := by
  rw [nextValue]
  apply Post_bind (Post_ws cfg s)
  intro r s0 hw
  cases r with
  | none => exact Good.refl cfg s0
  | some pk =>
    have hw0 := parseWhitespace_idem hw
    have hpk := parseWhitespace_some hw
    simp only [bind_apply, tokenFuel_eq]
    cases ht : parseToken cfg (s0.rd.rest.length + 1) pk s0 with
    | ok tok s1 =>
      have hc : (pk == 41 || pk == 93) = false := by
        cases h : (pk == 41 || pk == 93)
        · rfl
        · exact absurd ht (closer_not_token cfg _ pk s0 tok s1 h)
      have hscan := scanAll_token cfg hw0 hc
      rw [ht] at hscan
      have hopen := (opens_parseToken cfg _ pk).ok s0 tok s1 ht
      -- the scan continues behind every token but `#u8`
      have hgood : (∀ c, tok ≠ .byteVecOpen c) → Good cfg s0 s1 := by
        intro hne
        have : Sub (scanAll cfg s1) (scanAll cfg s0) := by
          rw [hscan]
          cases tok with
          | byteVecOpen c => exact absurd rfl (hne c)
          | _ => exact Sub.trans (Sub.right _ _) (Sub.left _ _)
        exact this
      simp only
      cases tok with
      | byteVecOpen close =>
        simp only [bind_apply]
        cases hb : parseByteList cfg (s0.rd.rest.length + 1) close s1 with
        | ok bs s2 =>
          simp only [hb] at hscan
          show Sub (scanAll cfg s2) (scanAll cfg s0)
          rw [hscan]
          exact Sub.trans (Sub.right _ _) (Sub.left _ _)
        | err e s2 => trivial
        | panic p => trivial
        | fuel => trivial
      | vecOpen close =>
        apply Post.weaken (hgood (by intro c h; cases h))
        apply Post_enter_bind
        intro s2 _
        apply Post_attempt_bind (ihX close [] s2)
        · intro xs s3 _
          seq_tail_ok cfg close hopen s3
        · intro e s3
          seq_tail_err close s3
      | listOpen close =>
        apply Post.weaken (hgood (by intro c h; cases h))
        apply Post_enter_bind
        intro s2 _
        apply Post_attempt_bind (ihL close [] s2)
        · intro v s3 _
          seq_tail_ok cfg close hopen s3
        · intro e s3
          seq_tail_err close s3
      | quotation q =>
        apply Post.weaken (hgood (by intro c h; cases h))
        apply Post_enter_bind
        intro s2 _
        apply Post_attempt_bind (ihV s2)
        · intro v s3 _
          simp only [bind_apply, leave_eq]
          cases v with
          | none => trivial
          | some d => exact Good.of_rd rfl
        · intro e s3
          simp only [bind_apply, leave_eq]
          trivial
      | null => exact hgood (by intro c h; cases h)
      | nil => exact hgood (by intro c h; cases h)
      | bool b => exact hgood (by intro c h; cases h)
      | char c => exact hgood (by intro c h; cases h)
      | number n => exact hgood (by intro c h; cases h)
      | symbol x => exact hgood (by intro c h; cases h)
      | keyword x => exact hgood (by intro c h; cases h)
      | string x => exact hgood (by intro c h; cases h)
      | bytes x => exact hgood (by intro c h; cases h)
    | err e s1 => trivial
    | panic p => trivial
    | fuel => trivial

theorem list_post (cfg : Cfg) (f : Nat)
    (ihV : ∀ s, Post cfg s (nextValue cfg f s))
    (ihL : ∀ term acc s, Post cfg s (parseList cfg f term acc s))
    (term : UInt8) (acc : List Value) (s : St) :
    Post cfg s (parseList cfg (f + 1) term acc s) := by
  rw [parseList]
  apply Post_bind (Post_ws cfg s)
  intro r s0 hw
  cases r with
  | none => trivial
  | some c =>
    have hw0 := parseWhitespace_idem hw
    have hpk := parseWhitespace_some hw
    simp only
    by_cases hc : (c == 41 || c == 93) = true
    · simp only [hc, ↓reduceIte]
      split
      · trivial
      · exact Good.refl cfg s0
    · have hc' : (c == 41 || c == 93) = false := by simpa using hc
      simp only [hc, Bool.false_eq_true, ↓reduceIte]
      by_cases hdot : (c == 46) = true
      · have e46 : c = 46 := by simpa using hdot
        subst e46
        simp only [beq_self_eq_true, ↓reduceIte, bind_apply]
        have hscan := scanAll_token cfg hw0 hc'
        cases hd : discard s0 with
        | ok u s1 =>
          simp only
          cases hp : peekOrNull s1 with
          | ok nxt s2 =>
            simp only
            have hdp : (discard >>= fun _ => peekOrNull) s0 = .ok nxt s2 := by
              simp only [bind_apply, hd, hp]
            by_cases hdel : (nxt == 0 || isDelimiter nxt) = true
            · simp only [hdel, ↓reduceIte]
              have hg2 : Good cfg s0 s2 := by
                show Sub (scanAll cfg s2) (scanAll cfg s0)
                rw [hscan]
                simp only [beq_self_eq_true, ↓reduceIte, hdp, hdel]
                exact Sub.right _ _
              by_cases hemp : acc.isEmpty = true
              · simp only [hemp, ↓reduceIte, bind_apply]
                cases hpe : peek s2 with
                | ok o s' => cases o <;> trivial
                | err e s' => trivial
                | panic p => trivial
                | fuel => trivial
              · simp only [hemp, Bool.false_eq_true, ↓reduceIte]
                apply Post.weaken hg2
                apply Post_bind
                · apply Post_bind (ihV s2)
                  intro v s3 _
                  cases v with
                  | none => trivial
                  | some v => exact Good.refl cfg s3
                · intro tail s3 _
                  apply Post_bind (Post_ws cfg s3)
                  intro r s4 _
                  cases r with
                  | none => trivial
                  | some c' =>
                    simp only
                    split
                    · exact Good.refl cfg s4
                    · trivial
            · simp only [hdel, Bool.false_eq_true, ↓reduceIte, bind_apply]
              cases hn : parseSymbolBytes [46] s2 with
              | ok name s3 =>
                simp only
                have htok := dot_symbol_sync cfg (s0.rd.rest.length + 1) hpk hd hp hn
                have hg3 : Good cfg s0 s3 := by
                  show Sub (scanAll cfg s3) (scanAll cfg s0)
                  rw [hscan, htok]
                  rcases symbolToken_cases cfg.opts name with h | h <;> rw [h] <;>
                    exact Sub.trans (Sub.right _ _) (Sub.left _ _)
                exact Post.weaken hg3 (ihL term _ s3)
              | err e s3 => trivial
              | panic p => trivial
              | fuel => trivial
          | err e s2 => trivial
          | panic p => trivial
          | fuel => trivial
        | err e s1 => trivial
        | panic p => trivial
        | fuel => trivial
      · simp only [hdot, Bool.false_eq_true, ↓reduceIte]
        apply Post_bind (ihV s0)
        intro v s1 _
        cases v with
        | none => trivial
        | some v => exact ihL term _ s1

theorem vector_post (cfg : Cfg) (f : Nat)
    (ihV : ∀ s, Post cfg s (nextValue cfg f s))
    (ihX : ∀ term acc s, Post cfg s (parseVector cfg f term acc s))
    (term : UInt8) (acc : List Value) (s : St) :
    Post cfg s (parseVector cfg (f + 1) term acc s) := by
  rw [parseVector]
  apply Post_bind (Post_ws cfg s)
  intro r s0 hw
  cases r with
  | none => trivial
  | some c =>
    simp only
    by_cases hc : (c == 41 || c == 93) = true
    · simp only [hc, ↓reduceIte]
      split
      · trivial
      · exact Good.refl cfg s0
    · simp only [hc, Bool.false_eq_true, ↓reduceIte]
      apply Post_bind (ihV s0)
      intro v s1 _
      cases v with
      | none => trivial
      | some v => exact ihX term _ s1

/-- after a successful `next_value` / `parse_list` / `parse_vector` the scan finds nothing from the
    final position that it does not find from the start position -/
theorem post_steps (cfg : Cfg) : ∀ f : Nat,
    (∀ s, Post cfg s (nextValue cfg f s)) ∧
    (∀ term acc s, Post cfg s (parseList cfg f term acc s)) ∧
    (∀ term acc s, Post cfg s (parseVector cfg f term acc s)) := by
  intro f
  induction f with
  | zero =>
    refine ⟨?_, ?_, ?_⟩
    · intro s; rw [nextValue]; trivial
    · intro term acc s; rw [parseList]; trivial
    · intro term acc s; rw [parseVector]; trivial
  | succ f ih =>
    obtain ⟨ihV, ihL, ihX⟩ := ih
    exact ⟨value_post cfg f ihV ihL ihX, list_post cfg f ihV ihL, vector_post cfg f ihV ihX⟩

/-! ### the options collected along the parser's path are found by the scan -/

theorem value_ex (cfg : Cfg) (f : Nat)
    (ihV : ∀ s, Sub (exValue cfg f s) (scanAll cfg s))
    (ihL : ∀ emp s, Sub (exList cfg f emp s) (scanAll cfg s))
    (ihX : ∀ s, Sub (exVector cfg f s) (scanAll cfg s))
    (s : St) : Sub (exValue cfg (f + 1) s) (scanAll cfg s) := by
  rw [exValue]
  cases hw : parseWhitespace s with
  | ok r s0 =>
    cases r with
    | none => exact Sub.nil _
    | some pk =>
      simp only
      rw [← scanAll_ws cfg hw]
      have hw0 := parseWhitespace_idem hw
      have hpk := parseWhitespace_some hw
      by_cases hc : (pk == 41 || pk == 93) = true
      · -- a closing delimiter is not a token, and exercises nothing
        obtain ⟨tl, hr⟩ : ∃ tl, s0.rd.rest = pk :: tl := by
          cases hr : s0.rd.rest with
          | nil => rw [hr] at hpk; cases hpk
          | cons b tl =>
            rw [hr] at hpk
            simp only [List.head?_cons, Option.some.injEq] at hpk
            exact ⟨tl, by rw [hpk]⟩
        rw [hr, tokenOpts_closer _ _ pk tl hc, ← hr]
        cases ht : parseToken cfg (s0.rd.rest.length + 1) pk s0 with
        | ok tok s1 => exact absurd ht (closer_not_token cfg _ pk s0 tok s1 hc)
        | err e s1 => exact Sub.nil _
        | panic p => exact Sub.nil _
        | fuel => exact Sub.nil _
      · have hc' : (pk == 41 || pk == 93) = false := by simpa using hc
        have hscan := scanAll_token cfg hw0 hc'
        apply Sub.append
        · rw [hscan]; exact Sub.trans (Sub.left _ _) (Sub.left _ _)
        · cases ht : parseToken cfg (s0.rd.rest.length + 1) pk s0 with
          | ok tok s1 =>
            rw [ht] at hscan
            have hgood : (∀ c, tok ≠ .byteVecOpen c) → Sub (scanAll cfg s1) (scanAll cfg s0) := by
              intro hne
              rw [hscan]
              cases tok with
              | byteVecOpen c => exact absurd rfl (hne c)
              | _ => exact Sub.trans (Sub.right _ _) (Sub.left _ _)
            cases tok with
            | vecOpen close =>
              simp only
              cases he : enter s1 with
              | ok u s2 =>
                cases u
                exact Sub.trans (ihX s2)
                  (Sub.trans (Good.of_rd (cfg := cfg) (enter_rd he)) (hgood (by intro c h; cases h)))
              | err e s2 => exact Sub.nil _
              | panic p => exact Sub.nil _
              | fuel => exact Sub.nil _
            | listOpen close =>
              simp only
              cases he : enter s1 with
              | ok u s2 =>
                cases u
                exact Sub.trans (ihL true s2)
                  (Sub.trans (Good.of_rd (cfg := cfg) (enter_rd he)) (hgood (by intro c h; cases h)))
              | err e s2 => exact Sub.nil _
              | panic p => exact Sub.nil _
              | fuel => exact Sub.nil _
            | quotation q =>
              simp only
              cases he : enter s1 with
              | ok u s2 =>
                cases u
                exact Sub.trans (ihV s2)
                  (Sub.trans (Good.of_rd (cfg := cfg) (enter_rd he)) (hgood (by intro c h; cases h)))
              | err e s2 => exact Sub.nil _
              | panic p => exact Sub.nil _
              | fuel => exact Sub.nil _
            | byteVecOpen c => exact Sub.nil _
            | null => exact Sub.nil _
            | nil => exact Sub.nil _
            | bool b => exact Sub.nil _
            | char c => exact Sub.nil _
            | number n => exact Sub.nil _
            | symbol x => exact Sub.nil _
            | keyword x => exact Sub.nil _
            | string x => exact Sub.nil _
            | bytes x => exact Sub.nil _
          | err e s1 => exact Sub.nil _
          | panic p => exact Sub.nil _
          | fuel => exact Sub.nil _
  | err e s0 => exact Sub.nil _
  | panic p => exact Sub.nil _
  | fuel => exact Sub.nil _

theorem list_ex (cfg : Cfg) (f : Nat)
    (ihV : ∀ s, Sub (exValue cfg f s) (scanAll cfg s))
    (ihL : ∀ emp s, Sub (exList cfg f emp s) (scanAll cfg s))
    (emp : Bool) (s : St) : Sub (exList cfg (f + 1) emp s) (scanAll cfg s) := by
  rw [exList]
  cases hw : parseWhitespace s with
  | ok r s0 =>
    cases r with
    | none => exact Sub.nil _
    | some c =>
      simp only
      rw [← scanAll_ws cfg hw]
      have hw0 := parseWhitespace_idem hw
      have hpk := parseWhitespace_some hw
      by_cases hc : (c == 41 || c == 93) = true
      · simp only [hc, ↓reduceIte]; exact Sub.nil _
      · have hc' : (c == 41 || c == 93) = false := by simpa using hc
        simp only [hc, Bool.false_eq_true, ↓reduceIte]
        by_cases hdot : (c == 46) = true
        · have e46 : c = 46 := by simpa using hdot
          subst e46
          simp only [beq_self_eq_true, ↓reduceIte]
          have hscan := scanAll_token cfg hw0 hc'
          cases hdp : (discard >>= fun _ => peekOrNull) s0 with
          | ok nxt s2 =>
            simp only
            obtain ⟨u, s1, hd, hp⟩ := bind_ok' hdp
            by_cases hdel : (nxt == 0 || isDelimiter nxt) = true
            · simp only [hdel, ↓reduceIte]
              cases emp with
              | true => exact Sub.nil _
              | false =>
                simp only [Bool.false_eq_true, ↓reduceIte]
                refine Sub.trans (ihV s2) ?_
                rw [hscan]
                simp only [beq_self_eq_true, ↓reduceIte, hdp, hdel]
                exact Sub.right _ _
            · simp only [hdel, Bool.false_eq_true, ↓reduceIte]
              cases hn : parseSymbolBytes [46] s2 with
              | ok name s3 =>
                simp only
                have htok := dot_symbol_sync cfg (s0.rd.rest.length + 1) hpk hd hp hn
                apply Sub.append
                · -- the name is the text of the token `.name`
                  obtain ⟨b, tl, hr0, hs1⟩ := discard_ok hd
                  rw [hr0] at hpk
                  simp only [List.head?_cons, Option.some.injEq] at hpk
                  subst hpk
                  subst hs1
                  obtain ⟨_, hr2, hm2⟩ := peekOrNull_ok hp
                  have hname := parseSymbolBytes_name hn
                  rw [hr2, hm2] at hname
                  simp only [adv_rest, hr0, List.drop_succ_cons, List.drop_zero, adv_mode] at hname
                  have : name = tokenText s0.rd.mode (46 :: tl) := by
                    rw [hname, tokenText_cons _ 46 _ (by decide)]; rfl
                  rw [hscan, hr0, tokenOpts_dot, ← this]
                  exact Sub.trans (Sub.left _ _) (Sub.left _ _)
                · refine Sub.trans (ihL false s3) ?_
                  rw [hscan, htok]
                  rcases symbolToken_cases cfg.opts name with h | h <;> rw [h] <;>
                    exact Sub.trans (Sub.right _ _) (Sub.left _ _)
              | err e s3 => exact Sub.nil _
              | panic p => exact Sub.nil _
              | fuel => exact Sub.nil _
          | err e s2 => exact Sub.nil _
          | panic p => exact Sub.nil _
          | fuel => exact Sub.nil _
        · simp only [hdot, Bool.false_eq_true, ↓reduceIte]
          apply Sub.append (ihV s0)
          have hpost := (post_steps cfg f).1 s0
          cases hv : nextValue cfg f s0 with
          | ok v s1 =>
            rw [hv] at hpost
            cases v with
            | none => exact Sub.nil _
            | some v => exact Sub.trans (ihL false s1) hpost
          | err e s1 => exact Sub.nil _
          | panic p => exact Sub.nil _
          | fuel => exact Sub.nil _
  | err e s0 => exact Sub.nil _
  | panic p => exact Sub.nil _
  | fuel => exact Sub.nil _

theorem vector_ex (cfg : Cfg) (f : Nat)
    (ihV : ∀ s, Sub (exValue cfg f s) (scanAll cfg s))
    (ihX : ∀ s, Sub (exVector cfg f s) (scanAll cfg s))
    (s : St) : Sub (exVector cfg (f + 1) s) (scanAll cfg s) := by
  rw [exVector]
  cases hw : parseWhitespace s with
  | ok r s0 =>
    cases r with
    | none => exact Sub.nil _
    | some c =>
      simp only
      rw [← scanAll_ws cfg hw]
      by_cases hc : (c == 41 || c == 93) = true
      · simp only [hc, ↓reduceIte]; exact Sub.nil _
      · simp only [hc, Bool.false_eq_true, ↓reduceIte]
        apply Sub.append (ihV s0)
        have hpost := (post_steps cfg f).1 s0
        cases hv : nextValue cfg f s0 with
        | ok v s1 =>
          rw [hv] at hpost
          cases v with
          | none => exact Sub.nil _
          | some v => exact Sub.trans (ihX s1) hpost
        | err e s1 => exact Sub.nil _
        | panic p => exact Sub.nil _
        | fuel => exact Sub.nil _
  | err e s0 => exact Sub.nil _
  | panic p => exact Sub.nil _
  | fuel => exact Sub.nil _

theorem ex_sub (cfg : Cfg) : ∀ f : Nat,
    (∀ s, Sub (exValue cfg f s) (scanAll cfg s)) ∧
    (∀ emp s, Sub (exList cfg f emp s) (scanAll cfg s)) ∧
    (∀ s, Sub (exVector cfg f s) (scanAll cfg s)) := by
  intro f
  induction f with
  | zero =>
    refine ⟨?_, ?_, ?_⟩
    · intro s; rw [exValue]; exact Sub.nil _
    · intro emp s; rw [exList]; exact Sub.nil _
    · intro s; rw [exVector]; exact Sub.nil _
  | succ f ih =>
    obtain ⟨ihV, ihL, ihX⟩ := ih
    exact ⟨value_ex cfg f ihV ihL ihX, list_ex cfg f ihV ihL, vector_ex cfg f ihV ihX⟩

end C08

open C08 Spec

/-- the flat scan of the token stream covers every token the parser reads -/
theorem exercisedOp_sub (cfg : Cfg) (mode : Mode) (bytes : List UInt8) :
    ∀ n ∈ exercisedOp cfg mode bytes, n ∈ exercised cfg mode bytes :=
  (ex_sub cfg _).1 (initSt mode bytes)

/-- **C08_frame** — "two option sets that differ only in options an input does not exercise give
    identical results for it".  `Spec.exercised cfg mode bytes` is computed by one context-free
    pass over the token stream of `bytes` (skip trivia, classify the token at the head by its first
    bytes and its text — `Spec.tokenOpts` —, continue behind it).  If two configurations of the same
    build agree on every option in that set, `from_str` / `from_slice` / `from_reader` return the
    same outcome under both: the same value, or the same error code at the same position, and the
    same final reader state. -/
theorem C08_frame (c1 c2 : Cfg) (hb : SameBuild c1 c2) (mode : Mode) (bytes : List UInt8)
    (ha : AgreeOn (exercised c1 mode bytes) c1.opts c2.opts) :
    fromTrait c1 (initSt mode bytes) = fromTrait c2 (initSt mode bytes) :=
  C08_frame_op c1 c2 hb mode bytes (ha.mono (exercisedOp_sub c1 mode bytes))

/-! ### instances -/

/-- the default options with the Racket option switched on -/
def racketOpts : Options := { Options.default with racket := true }

/-- one input that exercises all ten options; the scan and the parser's own path agree on it -/
example : exercised (cfgOf racketOpts) .slice (asc "(foo: nil t [x] \"s\" ?c 12 #:k #%r :p)") =
    [.kwPostfix, .nil, .t, .brackets, .string, .char, .leadingDigit, .kwOctothorpe, .racket,
     .kwPrefix] := by decide +kernel

example : exercisedOp (cfgOf racketOpts) .slice (asc "(foo: nil t [x] \"s\" ?c 12 #:k #%r :p)") =
    exercised (cfgOf racketOpts) .slice (asc "(foo: nil t [x] \"s\" ?c 12 #:k #%r :p)") := by
  decide +kernel

/-- `(a (b . c) 'd #t #\\x +5 -)` exercises nothing, so every option set reads it alike -/
example : exercised (cfgOf Options.default) .slice (asc "(a (b . c) 'd #t #\\x +5 -)") = [] := by
  decide +kernel

example : fromTrait (cfgOf Options.default) (initSt .slice (asc "(a (b . c) 'd #t #\\x +5 -)")) =
    fromTrait (cfgOf Options.elisp) (initSt .slice (asc "(a (b . c) 'd #t #\\x +5 -)")) :=
  C08_frame (cfgOf Options.default) (cfgOf Options.elisp) ⟨rfl, rfl, rfl⟩ .slice _ (by decide +kernel)

/-- a byte vector is one token of the scan: its octets are read by `parse_number`, which
    consults nothing, and they do not count as digit-initial tokens -/
example : exercised (cfgOf Options.default) .slice (asc "(a #u8(1 2) b)") = [] := by decide +kernel

/-- the scan is context-free, hence coarser than the parser's own path: it goes on behind the
    first datum, where the parser stops with `TrailingCharacters` … -/
example : exercised (cfgOf Options.default) .slice (asc "#u8(1 2) nil") = [.nil] ∧
    exercisedOp (cfgOf Options.default) .slice (asc "#u8(1 2) nil") = [] := by decide +kernel

/-- … and a dot in front of a string is a dotted tail inside a list (the string option is
    exercised) but part of the symbol `."b"` elsewhere; the scan follows both readings -/
example : exercised (cfgOf Options.default) .slice (asc "(a .\"b\")") = [.string] ∧
    exercisedOp (cfgOf Options.default) .slice (asc "(a .\"b\")") = [.string] ∧
    exercised (cfgOf Options.default) .slice (asc "#(a .\"b\")") = [.string] ∧
    exercisedOp (cfgOf Options.default) .slice (asc "#(a .\"b\")") = [] := by decide +kernel

end Parse
end Lexpr

#print axioms Lexpr.Parse.exercisedOp_sub
#print axioms Lexpr.Parse.C08_frame
