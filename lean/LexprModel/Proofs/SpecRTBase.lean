/-
  SpecRTBase — the generic half of the "independent reader" theorems (C01 / C02 last clauses).

  `Spec/Reader.lean` reads in three stages (lexemes, their meaning, the tree).  This file proves, for
  ANY lexeme function `lx` and classifier `cl` that treat parentheses, the space, the dot and the
  vector brackets of the printer options `o` as expected (`Brackets`), that the structure the printer
  writes is read back by stages 1–3, given that the atoms at the leaves are (`ReadsAs`).
  The Scheme and the Emacs Lisp reader instantiate it (SpecRT.lean, SpecRTElisp.lean).
  No fuel, no nesting bound: stage 3 is a stack machine and the statement is for every stack.
-/
import LexprModel.Spec.Reader
import LexprModel.Spec.Dialect
import LexprModel.Print
namespace Lexpr
namespace SpecRT
open Spec Print

theorem forall_u8 (P : UInt8 → Prop) (h : ∀ n, n < 256 → P (UInt8.ofNat n)) : ∀ b, P b := by
  intro b
  have := h b.toNat (UInt8.toNat_lt b)
  simpa using this

/-! ## 1. The cutter -/

theorem chunks_skip {α : Type} (f : List UInt8 → Option (α × Nat)) (xs rest : List UInt8) :
    chunks f xs.length (xs ++ rest) = chunks f 0 rest := by
  induction xs with
  | nil => rfl
  | cons x xs ih => simpa [chunks] using ih

/-- one piece: if `f` announces a piece of exactly the length of `x :: xs`, the cutter continues after it -/
theorem chunks_one {α : Type} (f : List UInt8 → Option (α × Nat)) (x : UInt8) (xs rest : List UInt8)
    (a : α) (h : f (x :: xs ++ rest) = some (a, xs.length + 1)) :
    chunks f 0 (x :: xs ++ rest) = (chunks f 0 rest).map (a :: ·) := by
  have h' : f (x :: (xs ++ rest)) = some (a, xs.length + 1) := by simpa using h
  show chunks f 0 (x :: (xs ++ rest)) = _
  simp only [chunks, h', Nat.add_sub_cancel, chunks_skip]

/-! ## 2. Stages 1 and 2 fused, for any lexeme function and classifier -/

abbrev Lx := List UInt8 → Option (Option Tok × Nat)
abbrev Cl := Tok → Option Item

def lexItems (lx : Lx) (cl : Cl) (bs : List UInt8) : Option (List Item) :=
  ((chunks lx 0 bs).map fun ts => ts.filterMap id).bind fun ts => ts.mapM cl

theorem lexItems_nil (lx : Lx) (cl : Cl) : lexItems lx cl [] = some [] := rfl

theorem lexItems_tok (lx : Lx) (cl : Cl) (x : UInt8) (xs rest : List UInt8) (t : Tok) (it : Item)
    (h : lx (x :: xs ++ rest) = some (some t, xs.length + 1)) (hc : cl t = some it) :
    lexItems lx cl (x :: xs ++ rest) = (lexItems lx cl rest).map (it :: ·) := by
  unfold lexItems
  rw [chunks_one lx x xs rest _ h]
  cases chunks lx 0 rest with
  | none => rfl
  | some ts =>
    simp only [Option.map_some, Option.bind_some, List.filterMap_cons, id, List.mapM_cons, hc]
    cases List.mapM cl (List.filterMap id ts) <;> rfl

theorem lexItems_trivia (lx : Lx) (cl : Cl) (x : UInt8) (xs rest : List UInt8)
    (h : lx (x :: xs ++ rest) = some (none, xs.length + 1)) :
    lexItems lx cl (x :: xs ++ rest) = lexItems lx cl rest := by
  unfold lexItems
  rw [chunks_one lx x xs rest _ h]
  cases chunks lx 0 rest with
  | none => rfl
  | some ts => simp only [Option.map_some, Option.bind_some, List.filterMap_cons, id]

/-! ## 3. Stage 3 -/

def run (st : List Frame × Option Value) (items : List Item) : Option (List Frame × Option Value) :=
  items.foldlM step st

theorem run_nil (st : List Frame × Option Value) : run st [] = some st := rfl

theorem run_cons (st : List Frame × Option Value) (it : Item) (items : List Item) :
    run st (it :: items) = (step st it).bind (run · items) := by
  simp [run, List.foldlM_cons, bind, Option.bind]

theorem run_append (st : List Frame × Option Value) (a b : List Item) :
    run st (a ++ b) = (run st a).bind (run · b) := by
  induction a generalizing st with
  | nil => simp [run_nil]
  | cons it a ih =>
    simp only [List.cons_append, run_cons]
    cases step st it with
    | none => rfl
    | some st' => simpa using ih st'

theorem build_eq (items : List Item) (w : Value)
    (h : run ([], none) items = some ([], some w)) : build items = some w := by
  unfold build; unfold run at h; rw [h]

/-- what may follow a lexeme that is not self-delimiting -/
def Follow (rest : List UInt8) : Prop := rest = [] ∨ ∃ b tl, rest = b :: tl ∧ isDelim b = true

theorem follow_cons (b : UInt8) (tl : List UInt8) (h : isDelim b = true) : Follow (b :: tl) :=
  Or.inr ⟨b, tl, rfl, h⟩

/-- `text` is read as the datum `w`: stages 1–2 turn it (in front of anything a lexeme may end at)
    into some items, which stage 3, on any stack, turns into the delivery of `w`. -/
def ReadsAs (lx : Lx) (cl : Cl) (text : List UInt8) (w : Value) : Prop :=
  ∃ items : List Item,
    (∀ rest, Follow rest → lexItems lx cl (text ++ rest) = (lexItems lx cl rest).map (items ++ ·)) ∧
    (∀ fs rest, run (fs, none) (items ++ rest) = (deliver w fs).bind (run · rest))

/-- the whole text is one datum -/
theorem read_of_readsAs (lx : Lx) (cl : Cl) (text : List UInt8) (w : Value)
    (h : ReadsAs lx cl text w) : (lexItems lx cl text).bind build = some w := by
  obtain ⟨items, h1, h2⟩ := h
  have a := h1 [] (Or.inl rfl)
  have b := h2 [] []
  simp only [List.append_nil, lexItems_nil, Option.map_some] at a b
  rw [a]
  exact build_eq items w (by rw [b]; rfl)

/-- a single lexeme that denotes a datum -/
theorem readsAs_datum (lx : Lx) (cl : Cl) (x : UInt8) (xs : List UInt8) (t : Tok) (w : Value)
    (h : ∀ rest, Follow rest → lx (x :: xs ++ rest) = some (some t, xs.length + 1))
    (hc : cl t = some (.datum w)) : ReadsAs lx cl (x :: xs) w := by
  refine ⟨[.datum w], ?_, ?_⟩
  · intro rest hf
    rw [lexItems_tok lx cl x xs rest t _ (h rest hf) hc]
    rfl
  · intro fs rest
    rw [List.singleton_append, run_cons]
    rfl

/-! ## 4. The printed text of composite values -/

theorem flatten_append (a b : List Emit) : flatten (a ++ b) = flatten a ++ flatten b := by
  simp [flatten]
theorem flatten_cons_all (bs : List UInt8) (es : List Emit) :
    flatten (.all bs :: es) = bs ++ flatten es := by
  simp [flatten, Emit.bytes]
theorem flatten_nil : flatten [] = [] := rfl

/-- the text after an element of a list -/
def tailT (o : Print.Options) (ryu : Nat → List UInt8) (d : Value) : List UInt8 :=
  flatten (emitsTail o ryu d)
/-- the text of vector elements -/
def seqT (o : Print.Options) (ryu : Nat → List UInt8) (first : Bool) (xs : List Value) : List UInt8 :=
  flatten (emitsSeq o ryu first xs)

theorem text_cons (o : Print.Options) (ryu : Nat → List UInt8) (a d : Value) :
    text o ryu (.cons a d) = 40 :: (text o ryu a ++ (tailT o ryu d ++ [41])) := by
  have h1 : asc "(" = [40] := by decide
  have h2 : asc ")" = [41] := by decide
  simp [text, tailT, emits, flatten_cons_all, flatten_append, h1, h2, flatten_nil]

theorem text_vector (o : Print.Options) (ryu : Nat → List UInt8) (xs : List Value) :
    text o ryu (.vector xs) = vecOpen o ++ (seqT o ryu true xs ++ vecClose o) := by
  simp [text, seqT, emits, flatten_cons_all, flatten_append, flatten_nil]

theorem tailT_null (o : Print.Options) (ryu : Nat → List UInt8) : tailT o ryu .null = [] := by
  simp [tailT, emitsTail, flatten_nil]

theorem tailT_cons (o : Print.Options) (ryu : Nat → List UInt8) (a d : Value) :
    tailT o ryu (.cons a d) = 32 :: (text o ryu a ++ tailT o ryu d) := by
  have h1 : asc " " = [32] := by decide
  simp [text, tailT, emitsTail, flatten_cons_all, flatten_append, h1]

/-- a tail that is neither a pair nor the empty list is written after ` . ` -/
theorem tailT_dotted (o : Print.Options) (ryu : Nat → List UInt8) (d : Value)
    (h1 : d.isCons = false) (h2 : d ≠ .null) :
    tailT o ryu d = 32 :: 46 :: 32 :: text o ryu d := by
  have e1 : asc " " = [32] := by decide
  have e2 : asc "." = [46] := by decide
  cases d <;>
    first
    | exact absurd rfl h2
    | (simp [Value.isCons] at h1; done)
    | simp [text, tailT, emitsTail, emits, flatten_cons_all, flatten_append, e1, e2]

theorem seqT_nil (o : Print.Options) (ryu : Nat → List UInt8) (first : Bool) :
    seqT o ryu first [] = [] := by
  simp [seqT, emitsSeq, flatten_nil]

theorem seqT_true (o : Print.Options) (ryu : Nat → List UInt8) (x : Value) (xs : List Value) :
    seqT o ryu true (x :: xs) = text o ryu x ++ seqT o ryu false xs := by
  simp [text, seqT, emitsSeq, flatten_append]

theorem seqT_false (o : Print.Options) (ryu : Nat → List UInt8) (x : Value) (xs : List Value) :
    seqT o ryu false (x :: xs) = 32 :: (text o ryu x ++ seqT o ryu false xs) := by
  have h1 : asc " " = [32] := by decide
  simp [text, seqT, emitsSeq, flatten_append, flatten_cons_all, h1]

/-- the text after an element is empty or starts with a space -/
theorem tailT_head (o : Print.Options) (ryu : Nat → List UInt8) (d : Value) :
    tailT o ryu d = [] ∨ ∃ tl, tailT o ryu d = 32 :: tl := by
  by_cases hn : d = .null
  · subst hn; exact Or.inl (tailT_null o ryu)
  · cases hc : d.isCons with
    | false => exact Or.inr ⟨_, tailT_dotted o ryu d hc hn⟩
    | true =>
      cases d <;> simp [Value.isCons] at hc
      exact Or.inr ⟨_, tailT_cons o ryu _ _⟩

theorem seqT_false_head (o : Print.Options) (ryu : Nat → List UInt8) (xs : List Value) :
    seqT o ryu false xs = [] ∨ ∃ tl, seqT o ryu false xs = 32 :: tl := by
  cases xs with
  | nil => exact Or.inl (seqT_nil o ryu false)
  | cons x xs => exact Or.inr ⟨_, seqT_false o ryu x xs⟩

theorem isDelim_space : isDelim 32 = true := by decide

theorem follow_tail (o : Print.Options) (ryu : Nat → List UInt8) (d : Value) (rest : List UInt8)
    (h : Follow rest) : Follow (tailT o ryu d ++ rest) := by
  rcases tailT_head o ryu d with h0 | ⟨tl, h0⟩ <;> rw [h0]
  · simpa using h
  · exact follow_cons 32 _ isDelim_space

theorem follow_seq (o : Print.Options) (ryu : Nat → List UInt8) (xs : List Value) (rest : List UInt8)
    (h : Follow rest) : Follow (seqT o ryu false xs ++ rest) := by
  rcases seqT_false_head o ryu xs with h0 | ⟨tl, h0⟩ <;> rw [h0]
  · simpa using h
  · exact follow_cons 32 _ isDelim_space

/-! ## 5. Structure -/

/-- what the generic structure theorem needs to know about a reader for the printer options `o`:
    parentheses, the separating space, the dot of a dotted pair (always written ` . `), and the
    vector brackets of `o` -/
structure Brackets (lx : Lx) (cl : Cl) (o : Print.Options) : Prop where
  lpar : ∀ r, lx (40 :: r) = some (some .lpar, 1)
  rpar : ∀ r, lx (41 :: r) = some (some .rpar, 1)
  space : ∀ r, lx (32 :: r) = some (none, 1)
  dot : ∀ r, lx (46 :: 32 :: r) = some (some (.atom [46]), 1)
  cl_lpar : cl .lpar = some (.open (.list .rpar))
  cl_rpar : cl .rpar = some (.close .rpar)
  cl_dot : cl (.atom [46]) = some .dot
  vec : ∃ (ob : UInt8) (obs : List UInt8) (cb : UInt8) (to tc tcc : Tok) (k : Open),
    vecOpen o = ob :: obs ∧ vecClose o = [cb] ∧ isDelim cb = true ∧
    (∀ r, lx (ob :: obs ++ r) = some (some to, obs.length + 1)) ∧ cl to = some (.open k) ∧
    (∀ r, lx (cb :: r) = some (some tc, 1)) ∧ cl tc = some (.close tcc) ∧
    ∀ rev, finish tcc (.seq k rev none) = some (.vector rev.reverse)

/-- the text after a list element is read as the rest of a list whose tail is `W` -/
def TailReadsAs (lx : Lx) (cl : Cl) (text : List UInt8) (W : Value) : Prop :=
  ∃ items : List Item,
    (∀ rest, Follow rest → lexItems lx cl (text ++ rest) = (lexItems lx cl rest).map (items ++ ·)) ∧
    (∀ (c : Tok) (x : Value) (rev : List Value) fs rest, ∃ rev' tl',
      run (.seq (.list c) (x :: rev) none :: fs, none) (items ++ rest) =
        run (.seq (.list c) rev' tl' :: fs, none) rest ∧
      ∀ t, finish t (.seq (.list c) rev' tl') =
        if c = t then some ((x :: rev).reverse.foldr .cons W) else none)

/-- the text of vector elements is read as the elements `Ws` -/
def SeqReadsAs (lx : Lx) (cl : Cl) (text : List UInt8) (Ws : List Value) : Prop :=
  ∃ items : List Item,
    (∀ rest, Follow rest → lexItems lx cl (text ++ rest) = (lexItems lx cl rest).map (items ++ ·)) ∧
    (∀ (k : Open) (rev : List Value) fs rest,
      run (.seq k rev none :: fs, none) (items ++ rest) =
        run (.seq k (Ws.reverse ++ rev) none :: fs, none) rest)

theorem map_map_append {α : Type} (o : Option (List α)) (a b : List α) :
    (o.map (b ++ ·)).map (a ++ ·) = o.map ((a ++ b) ++ ·) := by
  cases o <;> simp

theorem map_map_cons {α : Type} (o : Option (List α)) (a : α) (b : List α) :
    (o.map (b ++ ·)).map (a :: ·) = o.map ((a :: b) ++ ·) := by
  cases o <;> simp

theorem readsAs_cons (lx : Lx) (cl : Cl) (o : Print.Options) (B : Brackets lx cl o)
    (ryu : Nat → List UInt8) (a d A D : Value)
    (ha : ReadsAs lx cl (text o ryu a) A) (hd : TailReadsAs lx cl (tailT o ryu d) D) :
    ReadsAs lx cl (text o ryu (.cons a d)) (.cons A D) := by
  obtain ⟨ia, ha1, ha2⟩ := ha
  obtain ⟨id, hd1, hd2⟩ := hd
  refine ⟨.open (.list .rpar) :: (ia ++ (id ++ [.close .rpar])), ?_, ?_⟩
  · intro rest hf
    have hf1 : Follow (41 :: rest) := follow_cons 41 _ (by decide)
    have hf2 : Follow (tailT o ryu d ++ 41 :: rest) := follow_tail o ryu d _ hf1
    have e : text o ryu (.cons a d) ++ rest =
        40 :: [] ++ (text o ryu a ++ (tailT o ryu d ++ (41 :: [] ++ rest))) := by
      simp [text_cons]
    rw [e, lexItems_tok lx cl 40 [] _ .lpar _ (B.lpar _) B.cl_lpar, ha1 _ (by simpa using hf2),
      hd1 _ (by simpa using hf1), lexItems_tok lx cl 41 [] rest .rpar _ (B.rpar _) B.cl_rpar]
    cases lexItems lx cl rest <;> simp
  · intro fs rest
    obtain ⟨rev', tl', h1, h2⟩ := hd2 .rpar A [] fs (.close .rpar :: rest)
    have e : (Item.open (.list .rpar) :: (ia ++ (id ++ [Item.close .rpar]))) ++ rest =
        Item.open (.list .rpar) :: (ia ++ (id ++ (Item.close .rpar :: rest))) := by simp
    rw [e, run_cons]
    show run (.seq (.list .rpar) [] none :: fs, none) _ = _
    rw [ha2]
    show run (.seq (.list .rpar) [A] none :: fs, none) _ = _
    rw [h1, run_cons]
    show ((finish .rpar (.seq (.list .rpar) rev' tl')).bind (deliver · fs)).bind _ = _
    rw [h2]
    simp

theorem tailReadsAs_null (lx : Lx) (cl : Cl) (o : Print.Options) (ryu : Nat → List UInt8) :
    TailReadsAs lx cl (tailT o ryu .null) .null := by
  refine ⟨[], ?_, ?_⟩
  · intro rest _
    rw [tailT_null, List.nil_append]
    cases lexItems lx cl rest <;> simp
  · intro c x rev fs rest
    refine ⟨x :: rev, none, rfl, ?_⟩
    intro t
    simp [finish]

theorem tailReadsAs_cons (lx : Lx) (cl : Cl) (o : Print.Options) (B : Brackets lx cl o)
    (ryu : Nat → List UInt8) (a d A D : Value)
    (ha : ReadsAs lx cl (text o ryu a) A) (hd : TailReadsAs lx cl (tailT o ryu d) D) :
    TailReadsAs lx cl (tailT o ryu (.cons a d)) (.cons A D) := by
  obtain ⟨ia, ha1, ha2⟩ := ha
  obtain ⟨id, hd1, hd2⟩ := hd
  refine ⟨ia ++ id, ?_, ?_⟩
  · intro rest hf
    have hf2 : Follow (tailT o ryu d ++ rest) := follow_tail o ryu d _ hf
    have e : tailT o ryu (.cons a d) ++ rest =
        32 :: [] ++ (text o ryu a ++ (tailT o ryu d ++ rest)) := by
      simp [tailT_cons]
    rw [e, lexItems_trivia lx cl 32 [] _ (B.space _), ha1 _ hf2, hd1 _ hf, map_map_append]
  · intro c x rev fs rest
    obtain ⟨rev', tl', h1, h2⟩ := hd2 c A (x :: rev) fs rest
    refine ⟨rev', tl', ?_, ?_⟩
    · rw [List.append_assoc, ha2]
      show run (.seq (.list c) (A :: x :: rev) none :: fs, none) _ = _
      exact h1
    · intro t
      rw [h2 t]
      simp

theorem tailReadsAs_dotted (lx : Lx) (cl : Cl) (o : Print.Options) (B : Brackets lx cl o)
    (ryu : Nat → List UInt8) (d D : Value) (h1 : d.isCons = false) (h2 : d ≠ .null)
    (hd : ReadsAs lx cl (text o ryu d) D) :
    TailReadsAs lx cl (tailT o ryu d) D := by
  obtain ⟨id, hd1, hd2⟩ := hd
  refine ⟨.dot :: id, ?_, ?_⟩
  · intro rest hf
    have e : tailT o ryu d ++ rest = 32 :: [] ++ (46 :: [] ++ (32 :: [] ++ (text o ryu d ++ rest))) := by
      simp [tailT_dotted o ryu d h1 h2]
    rw [e, lexItems_trivia lx cl 32 [] _ (B.space _),
      lexItems_tok lx cl 46 [] _ (.atom [46]) .dot (by simpa using B.dot _) B.cl_dot,
      lexItems_trivia lx cl 32 [] _ (B.space _), hd1 _ hf, map_map_cons]
  · intro c x rev fs rest
    refine ⟨x :: rev, some (some D), ?_, ?_⟩
    · rw [List.cons_append, run_cons]
      show run (.seq (.list c) (x :: rev) (some none) :: fs, none) _ = _
      rw [hd2]
      rfl
    · intro t
      simp [finish]

theorem seqReadsAs_nil (lx : Lx) (cl : Cl) (o : Print.Options) (ryu : Nat → List UInt8)
    (first : Bool) : SeqReadsAs lx cl (seqT o ryu first []) [] := by
  refine ⟨[], ?_, ?_⟩
  · intro rest _
    rw [seqT_nil, List.nil_append]
    cases lexItems lx cl rest <;> simp
  · intro k rev fs rest
    rfl

theorem seqReadsAs_cons (lx : Lx) (cl : Cl) (o : Print.Options) (B : Brackets lx cl o)
    (ryu : Nat → List UInt8) (first : Bool) (x X : Value) (xs Xs : List Value)
    (hx : ReadsAs lx cl (text o ryu x) X) (hs : SeqReadsAs lx cl (seqT o ryu false xs) Xs) :
    SeqReadsAs lx cl (seqT o ryu first (x :: xs)) (X :: Xs) := by
  obtain ⟨ix, hx1, hx2⟩ := hx
  obtain ⟨is, hs1, hs2⟩ := hs
  refine ⟨ix ++ is, ?_, ?_⟩
  · intro rest hf
    have hf2 : Follow (seqT o ryu false xs ++ rest) := follow_seq o ryu xs _ hf
    cases first with
    | true =>
      rw [seqT_true, List.append_assoc, hx1 _ hf2, hs1 _ hf, map_map_append]
    | false =>
      have e : seqT o ryu false (x :: xs) ++ rest =
          32 :: [] ++ (text o ryu x ++ (seqT o ryu false xs ++ rest)) := by
        simp [seqT_false]
      rw [e, lexItems_trivia lx cl 32 [] _ (B.space _), hx1 _ hf2, hs1 _ hf, map_map_append]
  · intro k rev fs rest
    rw [List.append_assoc, hx2]
    show run (.seq k (X :: rev) none :: fs, none) _ = _
    rw [hs2]
    simp

/-- a bracketed sequence: opening lexeme, elements, closing lexeme -/
theorem readsAs_bracketed (lx : Lx) (cl : Cl) (ob : UInt8) (obs : List UInt8) (cb : UInt8)
    (to tc tcc : Tok) (k : Open) (body : List UInt8) (Xs : List Value) (w : Value)
    (hcb : isDelim cb = true)
    (hlo : ∀ r, lx (ob :: obs ++ r) = some (some to, obs.length + 1)) (hco : cl to = some (.open k))
    (hlc : ∀ r, lx (cb :: r) = some (some tc, 1)) (hcc : cl tc = some (.close tcc))
    (hfin : finish tcc (.seq k (Xs.reverse ++ []) none) = some w)
    (hs : SeqReadsAs lx cl body Xs) :
    ReadsAs lx cl (ob :: obs ++ (body ++ [cb])) w := by
  obtain ⟨is, hs1, hs2⟩ := hs
  refine ⟨.open k :: (is ++ [.close tcc]), ?_, ?_⟩
  · intro rest hf
    have hf1 : Follow (cb :: rest) := follow_cons cb _ hcb
    have e : ob :: obs ++ (body ++ [cb]) ++ rest = ob :: obs ++ (body ++ (cb :: [] ++ rest)) := by
      simp
    rw [e, lexItems_tok lx cl ob obs _ to _ (hlo _) hco, hs1 _ (by simpa using hf1),
      lexItems_tok lx cl cb [] rest tc _ (hlc _) hcc]
    cases lexItems lx cl rest <;> simp
  · intro fs rest
    have e : (Item.open k :: (is ++ [Item.close tcc])) ++ rest =
        Item.open k :: (is ++ (Item.close tcc :: rest)) := by simp
    rw [e, run_cons]
    show run (.seq k [] none :: fs, none) _ = _
    rw [hs2, run_cons]
    show ((finish tcc (.seq k (Xs.reverse ++ []) none)).bind (deliver · fs)).bind _ = _
    rw [hfin]
    simp

theorem readsAs_vector (lx : Lx) (cl : Cl) (o : Print.Options) (B : Brackets lx cl o)
    (ryu : Nat → List UInt8) (xs Xs : List Value)
    (hs : SeqReadsAs lx cl (seqT o ryu true xs) Xs) :
    ReadsAs lx cl (text o ryu (.vector xs)) (.vector Xs) := by
  obtain ⟨ob, obs, cb, to, tc, tcc, k, hvo, hvc, hcb, hlo, hco, hlc, hcc, hfin⟩ := B.vec
  have e : text o ryu (.vector xs) = ob :: obs ++ (seqT o ryu true xs ++ [cb]) := by
    simp [text_vector, hvo, hvc]
  rw [e]
  exact readsAs_bracketed lx cl ob obs cb to tc tcc k _ Xs _ hcb hlo hco hlc hcc
    (by rw [hfin]; simp) hs

theorem text_null (o : Print.Options) (ryu : Nat → List UInt8) : text o ryu .null = [40, 41] := by
  simp only [text, emits, atomEmits, flatten_cons_all, flatten_nil]; decide

theorem readsAs_null (lx : Lx) (cl : Cl) (o : Print.Options) (B : Brackets lx cl o)
    (ryu : Nat → List UInt8) : ReadsAs lx cl (text o ryu .null) .null := by
  refine ⟨[.open (.list .rpar), .close .rpar], ?_, ?_⟩
  · intro rest _
    have e : text o ryu .null ++ rest = 40 :: [] ++ (41 :: [] ++ rest) := by simp [text_null]
    rw [e, lexItems_tok lx cl 40 [] _ .lpar _ (B.lpar _) B.cl_lpar,
      lexItems_tok lx cl 41 [] rest .rpar _ (B.rpar _) B.cl_rpar]
    cases lexItems lx cl rest <;> simp
  · intro fs rest
    simp only [List.cons_append, List.nil_append, run_cons]
    rfl

mutual
/-- every atom leaf of `v` (through car, cdr and vector elements; the empty list is not a leaf)
    satisfies `P` (the same shape as `FullRT.AllLeaves`) -/
def Leaves (P : Value → Prop) : Value → Prop
  | .cons a d => Leaves P a ∧ Leaves P d
  | .vector xs => LeavesSeq P xs
  | .null => True
  | .nil => P .nil
  | .bool b => P (.bool b)
  | .number n => P (.number n)
  | .char c => P (.char c)
  | .string x => P (.string x)
  | .symbol x => P (.symbol x)
  | .keyword x => P (.keyword x)
  | .bytes x => P (.bytes x)
def LeavesSeq (P : Value → Prop) : List Value → Prop
  | [] => True
  | x :: xs => Leaves P x ∧ LeavesSeq P xs
end

section Structure
set_option linter.unusedSectionVars false
variable (lx : Lx) (cl : Cl) (o : Print.Options) (B : Brackets lx cl o) (ryu : Nat → List UInt8)
  (r : Parse.Options) (P : Value → Prop)
  (hleaf : ∀ v, v.isCons = false → v.isVector = false → v ≠ .null → P v →
    ReadsAs lx cl (text o ryu v) (fold o r v))
include B hleaf

mutual
/-- **Structure.**  If every atom leaf of `v` is read back (as its folding), so is `v`. -/
theorem value_reads : ∀ v : Value, Leaves P v → ReadsAs lx cl (text o ryu v) (fold o r v)
  | .cons a d, h => by
    simp only [Leaves] at h
    simp only [fold]
    exact readsAs_cons lx cl o B ryu a d _ _ (value_reads a h.1) (tail_reads d h.2)
  | .vector xs, h => by
    simp only [Leaves] at h
    simp only [fold]
    exact readsAs_vector lx cl o B ryu xs _ (seq_reads true xs h)
  | .null, _ => by simp only [fold]; exact readsAs_null lx cl o B ryu
  | .nil, h => by simp only [Leaves] at h; exact hleaf _ rfl rfl (by simp) h
  | .bool _, h => by simp only [Leaves] at h; exact hleaf _ rfl rfl (by simp) h
  | .number _, h => by simp only [Leaves] at h; exact hleaf _ rfl rfl (by simp) h
  | .char _, h => by simp only [Leaves] at h; exact hleaf _ rfl rfl (by simp) h
  | .string _, h => by simp only [Leaves] at h; exact hleaf _ rfl rfl (by simp) h
  | .symbol _, h => by simp only [Leaves] at h; exact hleaf _ rfl rfl (by simp) h
  | .keyword _, h => by simp only [Leaves] at h; exact hleaf _ rfl rfl (by simp) h
  | .bytes _, h => by simp only [Leaves] at h; exact hleaf _ rfl rfl (by simp) h
theorem tail_reads : ∀ d : Value, Leaves P d → TailReadsAs lx cl (tailT o ryu d) (fold o r d)
  | .cons a d, h => by
    simp only [Leaves] at h
    simp only [fold]
    exact tailReadsAs_cons lx cl o B ryu a d _ _ (value_reads a h.1) (tail_reads d h.2)
  | .null, _ => by simp only [fold]; exact tailReadsAs_null lx cl o ryu
  | .vector xs, h =>
    tailReadsAs_dotted lx cl o B ryu _ _ rfl (by simp) (value_reads (.vector xs) h)
  | .nil, h => tailReadsAs_dotted lx cl o B ryu _ _ rfl (by simp) (value_reads .nil h)
  | .bool b, h => tailReadsAs_dotted lx cl o B ryu _ _ rfl (by simp) (value_reads (.bool b) h)
  | .number n, h => tailReadsAs_dotted lx cl o B ryu _ _ rfl (by simp) (value_reads (.number n) h)
  | .char c, h => tailReadsAs_dotted lx cl o B ryu _ _ rfl (by simp) (value_reads (.char c) h)
  | .string x, h => tailReadsAs_dotted lx cl o B ryu _ _ rfl (by simp) (value_reads (.string x) h)
  | .symbol x, h => tailReadsAs_dotted lx cl o B ryu _ _ rfl (by simp) (value_reads (.symbol x) h)
  | .keyword x, h => tailReadsAs_dotted lx cl o B ryu _ _ rfl (by simp) (value_reads (.keyword x) h)
  | .bytes x, h => tailReadsAs_dotted lx cl o B ryu _ _ rfl (by simp) (value_reads (.bytes x) h)
theorem seq_reads : ∀ (first : Bool) (xs : List Value), LeavesSeq P xs →
    SeqReadsAs lx cl (seqT o ryu first xs) (foldList o r xs)
  | first, [], _ => by simp only [foldList]; exact seqReadsAs_nil lx cl o ryu first
  | first, x :: xs, h => by
    simp only [LeavesSeq] at h
    simp only [foldList]
    exact seqReadsAs_cons lx cl o B ryu first x _ xs _ (value_reads x h.1) (seq_reads false xs h.2)
end

end Structure

end SpecRT
end Lexpr
