/-
  FloatApproxConcat — C12 "floats as in C01" with floats that are not exactly readable: parsing
  the concatenation of several printed values separated by trivia yields values `approxEq` to
  those values (after the folding of the pair), in order, and then end of input.

  `C12_concat_approx` is `Concat.C12_concat` with `AllPlainForA` (floats: `RyuSpecOnly`) in place of
  `AllPlainFor` (no floats at all) and a list `ws` of returned values related to the folded
  originals by `Value.approxEqList`; `C12_concat_approx_sources` adds the `&str` and stream sources
  through the transfer lemmas of `ConcatSources.lean`.
-/
import LexprModel.Proofs.FloatApproxRT
import LexprModel.Proofs.Concat
import LexprModel.Proofs.ConcatSources
namespace Lexpr
namespace FloatApprox
open Parse Parse.ListRT Parse.Concat Print Spec F64 Numbers Decimals FullRT

/-! ## 1. One value without a condition on what follows -/

/-- `ValueRTW` without the follow hypothesis (values that close themselves) -/
def ValueRTCW (p : Print.Options) (cfg : Cfg) (ryu : Nat → List UInt8) (v w : Value) : Prop :=
  ∀ (s : St) (rest : List UInt8) (fuel : Nat), Good s →
    s.rd.rest = text p ryu v ++ rest → fuel ≥ 2 * s.rd.rest.length + 3 →
    nestingP p v + 1 ≤ s.depth → Runs (nextValue cfg fuel) s (some w) rest

theorem null_rtCW (p : Print.Options) (cfg : Cfg) (ryu : Nat → List UInt8) :
    ValueRTCW p cfg ryu .null .null := by
  have := null_rtC p cfg ryu
  rw [ValueRTC, fold_null] at this
  exact this

theorem cons_rtCW (p : Print.Options) (cfg : Cfg) (ryu : Nat → List UInt8)
    (a d a' d' : Value) (hA : ValueRTW p cfg ryu a a') (hhead : ElemHead (text p ryu a))
    (hD : TailRTW p cfg ryu d d') : ValueRTCW p cfg ryu (.cons a d) (.cons a' d') := by
  intro s rest fuel hg hr hfu hd
  rw [textP_cons] at hr
  have hr' : s.rd.rest = 40 :: (text p ryu a ++ (flatten (emitsTail p ryu d) ++ 41 :: rest)) := by
    simpa using hr
  have hlen := congrArg List.length hr'
  simp only [List.length_cons, List.length_append] at hlen
  obtain ⟨F, rfl⟩ : ∃ F, fuel = F + 3 := ⟨fuel - 3, by omega⟩
  simp only [nestingP] at hd
  refine nextValue_listOpen cfg (F + 2) s _ rest _ hg hr' (by omega) ?_
  intro s1 g1 r1 d1
  refine list_elem_stepP cfg F s1 [] a' _ [] (text p ryu a)
    (flatten (emitsTail p ryu d) ++ 41 :: rest) (41 :: rest) g1 (Or.inl rfl) (by simpa using r1)
    hhead ?_ ?_
  · intro s2 g2 r2 d2
    refine hA s2 _ (F + 1) (tail_followP p ryu d rest) g2 r2 ?_ (by omega)
    rw [r2]; simp only [List.length_cons, List.length_append]; omega
  · intro s3 g3 r3 d3
    have := hD s3 rest (F + 1) [a'] (by simp) g3 r3
      (by rw [r3]; simp only [List.length_cons, List.length_append]; omega) (by omega)
    simpa [Value.append] using this

theorem vector_rtCW (p : Print.Options) (cfg : Cfg) (ryu : Nat → List UInt8) (xs ws : List Value)
    (hb : p.vector = .brackets → cfg.opts.brackets = .vector)
    (hS : SeqRTW p cfg ryu true xs ws) : ValueRTCW p cfg ryu (.vector xs) (.vector ws) := by
  intro s rest fuel hg hr hfu hd
  rw [textP_vector] at hr
  have hr' : s.rd.rest = vopen p ++ (flatten (emitsSeq p ryu true xs) ++ vclose p :: rest) := by
    simpa using hr
  have hlen := congrArg List.length hr'
  simp only [List.length_cons, List.length_append] at hlen
  have hvo : 1 ≤ (vopen p).length := by unfold vopen; cases p.vector <;> simp
  obtain ⟨F, rfl⟩ : ∃ F, fuel = F + 1 := ⟨fuel - 1, by omega⟩
  simp only [nestingP] at hd
  refine nextValue_vecOpenP cfg p F s _ rest _ hb hg hr' (by omega) ?_
  intro s1 g1 r1 d1
  have := hS s1 rest F [] g1 r1
    (by rw [r1]; simp only [List.length_cons, List.length_append, if_true]; omega) (by omega)
  simpa using this

/-- one value: the same `w` with and without a follow context -/
theorem value_rtBoth (p : Print.Options) (cfg : Cfg) (ryu : Nat → List UInt8)
    (hb : p.vector = .brackets → cfg.opts.brackets = .vector) (v : Value)
    (h : AllLeaves (AtomOKW p cfg ryu) v) :
    ∃ w, Value.approxEq (fold p cfg.opts v) w ∧ ValueRTW p cfg ryu v w ∧
      (closes v = true → ValueRTCW p cfg ryu v w) := by
  cases v with
  | cons a d =>
    simp only [AllLeaves] at h
    obtain ⟨a', ha, hA⟩ := value_rtW p cfg ryu hb a h.1
    obtain ⟨d', hd, hD⟩ := tail_rtW p cfg ryu hb d h.2
    have hh := text_headW p cfg ryu a h.1
    refine ⟨.cons a' d', ?_, cons_rtW p cfg ryu a d a' d' hA hh hD,
      fun _ => cons_rtCW p cfg ryu a d a' d' hA hh hD⟩
    rw [fold_cons]; simp only [Value.approxEq]; exact ⟨a', d', rfl, ha, hd⟩
  | vector xs =>
    simp only [AllLeaves] at h
    obtain ⟨ws, hw, hS⟩ := seq_rtW p cfg ryu hb true xs h
    refine ⟨.vector ws, ?_, vector_rtW p cfg ryu xs ws hb hS,
      fun _ => vector_rtCW p cfg ryu xs ws hb hS⟩
    rw [fold_vector]; simp only [Value.approxEq]; exact ⟨ws, rfl, hw⟩
  | null =>
    exact ⟨.null, by rw [fold_null]; simp only [Value.approxEq], null_rtW p cfg ryu,
      fun _ => null_rtCW p cfg ryu⟩
  | nil =>
    obtain ⟨w, h1, h2⟩ := value_rtW p cfg ryu hb _ h
    exact ⟨w, h1, h2, fun hc => by simp [closes] at hc⟩
  | bool _ =>
    obtain ⟨w, h1, h2⟩ := value_rtW p cfg ryu hb _ h
    exact ⟨w, h1, h2, fun hc => by simp [closes] at hc⟩
  | number _ =>
    obtain ⟨w, h1, h2⟩ := value_rtW p cfg ryu hb _ h
    exact ⟨w, h1, h2, fun hc => by simp [closes] at hc⟩
  | char _ =>
    obtain ⟨w, h1, h2⟩ := value_rtW p cfg ryu hb _ h
    exact ⟨w, h1, h2, fun hc => by simp [closes] at hc⟩
  | string _ =>
    obtain ⟨w, h1, h2⟩ := value_rtW p cfg ryu hb _ h
    exact ⟨w, h1, h2, fun hc => by simp [closes] at hc⟩
  | symbol _ =>
    obtain ⟨w, h1, h2⟩ := value_rtW p cfg ryu hb _ h
    exact ⟨w, h1, h2, fun hc => by simp [closes] at hc⟩
  | keyword _ =>
    obtain ⟨w, h1, h2⟩ := value_rtW p cfg ryu hb _ h
    exact ⟨w, h1, h2, fun hc => by simp [closes] at hc⟩
  | bytes _ =>
    obtain ⟨w, h1, h2⟩ := value_rtW p cfg ryu hb _ h
    exact ⟨w, h1, h2, fun hc => by simp [closes] at hc⟩

/-- **One step.**  `Concat.value_step` with the value read back up to `approxEq`. -/
theorem value_step_approx (p : Print.Options) (cfg : Cfg) (ryu : Nat → List UInt8)
    (hb : p.vector = .brackets → cfg.opts.brackets = .vector) (v : Value)
    (h : AllLeaves (AtomOKW p cfg ryu) v) :
    ∃ w, Value.approxEq (fold p cfg.opts v) w ∧
      ∀ (s : St) (tr rest : List UInt8), Good s → Trivia tr →
        s.rd.rest = tr ++ (text p ryu v ++ rest) → (closes v = true ∨ ListRT.Follow rest) →
        nestingP p v + 1 ≤ s.depth → Runs (nextValueTop cfg) s (some w) rest := by
  obtain ⟨w, hw, hF, hC⟩ := value_rtBoth p cfg ryu hb v h
  refine ⟨w, hw, ?_⟩
  intro s tr rest hg htr hr hf hd
  obtain ⟨c, tl, ht, h1, h2, -⟩ := text_headW p cfg ryu v h
  have hr' : s.rd.rest = tr ++ c :: (tl ++ rest) := by rw [hr, ht]; simp
  have h2' : (c == 59) = false := by simp [h2]
  obtain ⟨s1, g1, r1, d1, heq⟩ := nextValue_skipTrivia cfg s hg tr c (tl ++ rest) hr' htr h1 h2'
  have r1' : s1.rd.rest = text p ryu v ++ rest := by rw [r1, ht]; simp
  have hlen : s1.rd.rest.length ≤ s.rd.rest.length := by
    rw [r1, hr']; simp only [List.length_append, List.length_cons]; omega
  have hrun : Runs (nextValue cfg (2 * s.rd.rest.length + 4)) s1 (some w) rest := by
    rcases hf with hc | hf
    · exact hC hc s1 rest _ g1 r1' (by omega) (by omega)
    · exact hF s1 rest _ hf g1 r1' (by omega) (by omega)
  obtain ⟨s2, e2, r2, g2, d2⟩ := hrun
  exact ⟨s2, by rw [nextValueTop_eq, heq]; exact e2, r2, g2, d2.trans d1⟩

/-! ## 2. Iteration -/

/-- the values, by induction -/
theorem concat_values_approx (p : Print.Options) (cfg : Cfg) (ryu : Nat → List UInt8)
    (hb : p.vector = .brackets → cfg.opts.brackets = .vector) (op : Op) (hop : ValueOp op)
    (tEnd : List UInt8) (hE : TriviaEnd tEnd) :
    ∀ (items : List (List UInt8 × Value)) (free : Bool),
      (∀ it ∈ items, AllLeaves (AtomOKW p cfg ryu) it.2) → SepsOK p ryu free items →
      ∃ ws : List Value,
        Value.approxEqList (items.map fun it => fold p cfg.opts it.2) ws ∧
        ∀ s : St, Good s → s.rd.rest = concatText p ryu items ++ tEnd →
          (∀ it ∈ items, nestingP p it.2 + 1 ≤ s.depth) →
          ∃ sN, Good sN ∧ sN.rd.rest = tEnd ∧ sN.depth = s.depth ∧
            ∀ ops' : List Op,
              runHistory cfg (List.replicate items.length op ++ ops') s =
                ws.map Item.value ++ runHistory cfg ops' sN ∧
              (runStates cfg (List.replicate items.length op ++ ops') s).map obs =
                (rests p ryu tEnd items).map (fun r => (r, s.depth)) ++
                  (runStates cfg ops' sN).map obs
  | [], _, _, _ => by
    refine ⟨[], by simp only [List.map_nil, Value.approxEqList], ?_⟩
    intro s hg hr _
    refine ⟨s, hg, by simpa [concatText] using hr, rfl, ?_⟩
    intro ops'
    simp [rests]
  | (sep, v) :: xs, free, hall, hs => by
    obtain ⟨htr, -, hs'⟩ := hs
    obtain ⟨w, hw, hstepw⟩ := value_step_approx p cfg ryu hb v (hall (sep, v) (by simp))
    obtain ⟨ws, hws, hrec⟩ := concat_values_approx p cfg ryu hb op hop tEnd hE xs (closes v)
      (fun it hit => hall it (by simp [hit])) hs'
    refine ⟨w :: ws, ?_, ?_⟩
    · simp only [List.map_cons, Value.approxEqList]; exact ⟨w, ws, rfl, hw, hws⟩
    · intro s hg hr hdep
      have hf := seps_follow p ryu tEnd hE (closes v) xs hs'
      have hr' : s.rd.rest = sep ++ (text p ryu v ++ (concatText p ryu xs ++ tEnd)) := by
        rw [hr]; simp [concatText]
      obtain ⟨s1, e1, r1, g1, d1⟩ := hstepw s sep _ hg htr hr' hf (hdep (sep, v) (by simp))
      have hstep := stepOp_value cfg op hop s s1 _ e1
      obtain ⟨sN, gN, rN, dN, hN⟩ := hrec s1 g1 r1
        (fun it hit => by rw [d1]; exact hdep it (by simp [hit]))
      refine ⟨sN, gN, rN, dN.trans d1, ?_⟩
      intro ops'
      obtain ⟨hH, hS⟩ := hN ops'
      constructor
      · simp only [List.length_cons, List.replicate_succ, List.cons_append, runHistory, hstep, hH]
        simp
      · simp only [List.length_cons, List.replicate_succ, List.cons_append, runStates, hstep,
          List.map_cons, hS, rests, d1]
        simp [obs, r1, d1]

/-! ## 3. Main theorems -/

/-- **C12_concat_approx.**  `Concat.C12_concat` with float leaves: for every compatible printer /
    parser option pair and values all of whose leaves are plain for the pair, finite floats with
    `RyuSpecOnly` included (`AllPlainForA`), nesting at most 127: a fresh slice parser on
    `t0 ++ text v1 ++ sep1 ++ text v2 ++ … ++ tEnd` returns values `w1, …, wn` with
    `approxEq (fold p r vi) wi` — identical except for float leaves, which agree within
    `floatClose` — and then end of input, for each of the three ways of asking for the next value;
    further calls keep reporting the end; the depth budget is 128 after every call and the unread
    input after the `i`-th call is exactly what follows the `i`-th value. -/
theorem C12_concat_approx (p : Print.Options) (cfg : Cfg) (ryu : Nat → List UInt8)
    (hc : Compatible p cfg.opts = true) (op : Op) (hop : ValueOp op)
    (items : List (List UInt8 × Value)) (tEnd : List UInt8)
    (hall : ∀ it ∈ items, AllPlainForA p cfg ryu it.2 ∧ nestingP p it.2 ≤ 127)
    (hs : SepsOK p ryu true items) (hE : TriviaEnd tEnd) :
    let s0 := initSt .slice (concatText p ryu items ++ tEnd)
    ∃ ws : List Value,
      Value.approxEqList (items.map fun it => fold p cfg.opts it.2) ws ∧
      (∀ cap, items.length + 1 ≤ cap →
        iterate cfg op cap s0 = ws.map Item.value ++ [.none_]) ∧
      (∀ k, runHistory cfg (List.replicate (items.length + (k + 1)) op) s0 =
        ws.map Item.value ++ List.replicate (k + 1) .none_) ∧
      (∀ k, (runStates cfg (List.replicate (items.length + (k + 1)) op) s0).map obs =
        (rests p ryu tEnd items).map (fun r => (r, 128)) ++ List.replicate (k + 1) ([], 128)) := by
  intro s0
  obtain ⟨ws, hws, hrec⟩ := concat_values_approx p cfg ryu
    (compatible_brackets p cfg.opts hc) op hop tEnd hE items true
    (fun it hit => AllLeaves.mono (atomOKW_of_leafA p cfg ryu hc) it.2 (hall it hit).1) hs
  obtain ⟨sN, gN, rN, dN, hN⟩ := hrec s0 ⟨rfl, rfl⟩ rfl
    (fun it hit => by
      have := (hall it hit).2
      show nestingP p it.2 + 1 ≤ 128
      omega)
  have hlen : ws.length = items.length := by
    have := approxEqList_length hws
    simpa using this.symm
  have hhist : ∀ k, runHistory cfg (List.replicate (items.length + (k + 1)) op) s0 =
      ws.map Item.value ++ List.replicate (k + 1) .none_ := by
    intro k
    rw [← List.replicate_append_replicate, (hN _).1,
      (end_history cfg op hop (k + 1) sN gN (by rw [rN]; exact hE)).1]
  refine ⟨ws, hws, ?_, hhist, ?_⟩
  · intro cap hcap
    have h0 := hhist 0
    refine iterate_of_runHistory cfg op (ws.map Item.value) s0 cap (values_ne_none ws) ?_ ?_
    · simpa [hlen] using h0
    · simpa [hlen] using hcap
  · intro k
    rw [← List.replicate_append_replicate, (hN _).2,
      (end_history cfg op hop (k + 1) sN gN (by rw [rN]; exact hE)).2, dN]
    rfl

/-- **C12_concat_approx_sources**: the items returned, for the stream source and — when the input
    is well-formed UTF-8 — the `&str` source. -/
theorem C12_concat_approx_sources (p : Print.Options) (cfg : Cfg) (ryu : Nat → List UInt8)
    (hc : Compatible p cfg.opts = true) (op : Op) (hop : ValueOp op)
    (items : List (List UInt8 × Value)) (tEnd : List UInt8)
    (hall : ∀ it ∈ items, AllPlainForA p cfg ryu it.2 ∧ nestingP p it.2 ≤ 127)
    (hs : SepsOK p ryu true items) (hE : TriviaEnd tEnd) (m : Mode)
    (hu : m = .str → Utf8.valid (concatText p ryu items ++ tEnd) = true) :
    ∃ ws : List Value,
      Value.approxEqList (items.map fun it => fold p cfg.opts it.2) ws ∧
      (∀ cap, items.length + 1 ≤ cap →
        iterate cfg op cap (initSt m (concatText p ryu items ++ tEnd)) =
          ws.map Item.value ++ [.none_]) ∧
      (∀ k, runHistory cfg (List.replicate (items.length + (k + 1)) op)
          (initSt m (concatText p ryu items ++ tEnd)) =
        ws.map Item.value ++ List.replicate (k + 1) .none_) := by
  obtain ⟨ws, hws, hit, hh, _⟩ := C12_concat_approx p cfg ryu hc op hop items tEnd hall hs hE
  have hlen : ws.length = items.length := by
    have := approxEqList_length hws
    simpa using this.symm
  refine ⟨ws, hws, ?_, ?_⟩
  · intro cap hcap
    cases m with
    | slice => exact hit cap hcap
    | io =>
      exact C12_concat_io_iterate cfg op _ ws (by have := hh 0; simpa [hlen] using this) cap
        (by omega)
    | str =>
      exact C12_concat_str_iterate cfg op _ (hu rfl) ws
        (by have := hh 0; simpa [hlen] using this) cap (by omega)
  · intro k
    cases m with
    | slice => exact hh k
    | io => exact C12_concat_io_history cfg _ _ ws (k + 1) (hh k)
    | str => exact C12_concat_str_history cfg _ _ (hu rfl) _ (hh k)

/-! ## 4. Instance -/

/-- `1e-23 ;c⏎ (a 1e-23 . #(2.5))2.5` followed by a space: three values, the last one directly
    after the closing parenthesis; default pair, default build -/
def exItemsA : List (List UInt8 × Value) :=
  [([], .number (.flt 0x3B282DB34012B251)), (asc " ;c\n ", exV),
   ([], .number (.flt 0x4004000000000000))]

example : concatText Print.Options.default ryuAx exItemsA ++ asc " " =
    asc "1e-23 ;c\n (a 1e-23 . #(2.5))2.5 " := by decide +kernel

/-- non-vacuity of `C12_concat_approx` -/
example : ∃ ws : List Value,
    Value.approxEqList (exItemsA.map fun it => fold Print.Options.default exCfgFast.opts it.2) ws ∧
    ∀ cap, exItemsA.length + 1 ≤ cap →
      iterate exCfgFast .nextValue cap
        (initSt .slice (concatText Print.Options.default ryuAx exItemsA ++ asc " ")) =
          ws.map Item.value ++ [.none_] := by
  have hall : ∀ it ∈ exItemsA, AllPlainForA Print.Options.default exCfgFast ryuAx it.2 ∧
      nestingP Print.Options.default it.2 ≤ 127 := by
    intro it hit
    simp only [exItemsA, List.mem_cons, List.not_mem_nil, or_false] at hit
    rcases hit with rfl | rfl | rfl
    · exact ⟨ryuAx_1em23, by simp [nestingP]⟩
    · refine ⟨?_, by simp [exV, nestingP, nestingTailP, nestingSeqP]⟩
      simp only [exV, AllPlainForA, AllLeaves, AllLeavesSeq, LeafPlainForA, ListRT.LeafPlainFor,
        AtomPlainFor, ListRT.dotOkP, and_true]
      exact ⟨by decide, ryuAx_1em23, ryuAx_25⟩
    · exact ⟨ryuAx_25, by simp [nestingP]⟩
  have hs : SepsOK Print.Options.default ryuAx true exItemsA :=
    ⟨.nil, .inl rfl, trivia_of_triviaB _ (by decide), .inr (.inl (by decide)), .nil,
      .inl rfl, trivial⟩
  obtain ⟨ws, h1, h2, _⟩ := C12_concat_approx Print.Options.default exCfgFast ryuAx (by decide)
    .nextValue (Or.inl rfl) exItemsA (asc " ") hall hs (triviaEnd_of_triviaEndB _ (by decide))
  exact ⟨ws, h1, h2⟩

#print axioms value_step_approx
#print axioms C12_concat_approx
#print axioms C12_concat_approx_sources

end FloatApprox
end Lexpr
