/-
  Property C05, accuracy clause: "in all other cases the result is within relative error 2^-50 of
  the true value" (read, as fixed in the design document, with an additive `2^-1074` for results
  in the subnormal range).

  The development is split into modules; this file collects them.

  * `AccuracyRn`    — `rne_err`, `rn_val`, `rn_halfulp`; **`rn_relerr`** (normal range: relative
                      error `≤ 2^-53`), **`rn_abserr`** (below: absolute error `≤ 2^-1075`),
                      `rn_err` (both), `rn_relerr_cross` (the same over `Nat`, no rationals);
                      `mulPos_err`, `divPos_err`: one such rounding each; `divPos_zero`.
  * `AccuracyFast`  — `step_mul`, `step_div` (propagation of bounds), `tab_facts` (what the
                      premise "`POW10[k] = rn (10^k) 1`" gives), the three shapes of the loop,
                      **`C05_accuracy_fast_tight`** (`6 * 2^-53` relative, `9/8 * 2^-1075`
                      additive) and **`C05_accuracy_fast`** (`2^-50`, `2^-1074`).
  * `AccuracyLit`   — **`C05_accuracy_nofast`** (one correct rounding), **`C05_accuracy_parts`**
                      (`f64_from_parts`, both builds), **`C05_accuracy_literal`** (composition
                      with `Decimals.C05_scan_parts`: literals whose digits fit `u64`).
  * `AccuracyTrunc` — `fracScan_inv`, `scanT_close` (truncation error of the scanners `< 2^-60`),
                      **`C05_accuracy_any_literal`** (literals of any length).
  * `AccuracyEx`    — `tab_rounded` (the premise holds for the regenerated table),
                      concrete literals: model result = real result, instances of the theorems,
                      and witnesses that `2^-53` is not met by the fast path.

  Values are rational numbers (core `Rat`): `val b` is the value `m * 2^p` of the magnitude bits
  `b`, `dec sig e = sig * 10^e`, `litValue L` the exact value of a literal; bounds are written
  two-sided, `x * (1 - c) - a ≤ val f ∧ val f ≤ x * (1 + c) + a` for `|val f - x| ≤ c * x + a`.
-/
import LexprModel.Proofs.AccuracyRn
import LexprModel.Proofs.AccuracyFast
import LexprModel.Proofs.AccuracyLit
import LexprModel.Proofs.AccuracyTrunc
import LexprModel.Proofs.AccuracyEx
namespace Lexpr
namespace Accuracy

#print axioms rn_relerr
#print axioms rn_abserr
#print axioms rn_relerr_cross
#print axioms C05_accuracy_fast_tight
#print axioms C05_accuracy_fast
#print axioms C05_accuracy_nofast
#print axioms C05_accuracy_parts
#print axioms C05_accuracy_literal
#print axioms C05_accuracy_any_literal
#print axioms C05_accuracy_fast_real

end Accuracy
end Lexpr
