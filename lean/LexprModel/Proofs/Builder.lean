/-
  The builder API of the two option types (`parse::Options`, `print::Options`): which field each
  `with_*` call assigns, that calls on different fields commute, that the last call on a field wins,
  that `with_keyword_syntax` accumulates while `with_keyword_syntaxes` replaces, that the presets are
  the documented chains of calls, and that every option set is reachable by a chain of calls.
  (Used by C08 — "each parser option changes exactly …" presupposes that setting one option leaves the
  others alone — and by C02, which quantifies over every option set.)
-/
import LexprModel.Options
namespace Lexpr

namespace Parse

/-- the field a setter assigns -/
inductive Field where | keywords | nil | t | brackets | string | char | racket | leadingDigit
  deriving DecidableEq, Repr

def Setter.field : Setter → Field
  | .addKeyword _ => .keywords | .setKeywords _ => .keywords
  | .nil _ => .nil | .t _ => .t | .brackets _ => .brackets | .string _ => .string
  | .char _ => .char | .racket _ => .racket | .leadingDigit _ => .leadingDigit

/-- the content of a field, as a number (for stating frame conditions uniformly) -/
def Options.get (o : Options) : Field → Nat
  | .keywords => o.kwPrefix.toNat + 2 * o.kwPostfix.toNat + 4 * o.kwOctothorpe.toNat
  | .nil => match o.nil with | .emptyList => 0 | .default => 1 | .special => 2
  | .t => match o.t with | .true_ => 0 | .default => 1
  | .brackets => match o.brackets with | .list => 0 | .vector => 1
  | .string => match o.string with | .r6rs => 0 | .elisp => 1
  | .char => match o.char with | .r6rs => 0 | .elisp => 1
  | .racket => o.racket.toNat
  | .leadingDigit => o.leadingDigit.toNat

theorem addKeyword_frame (o : Options) (k : KeywordSyntax) :
    (o.addKeyword k).nil = o.nil ∧ (o.addKeyword k).t = o.t ∧ (o.addKeyword k).brackets = o.brackets ∧
    (o.addKeyword k).string = o.string ∧ (o.addKeyword k).char = o.char ∧
    (o.addKeyword k).racket = o.racket ∧ (o.addKeyword k).leadingDigit = o.leadingDigit := by
  cases k <;> simp [Options.addKeyword]

theorem addKeywords_frame (ks : List KeywordSyntax) : ∀ o : Options,
    (ks.foldl Options.addKeyword o).nil = o.nil ∧ (ks.foldl Options.addKeyword o).t = o.t ∧
    (ks.foldl Options.addKeyword o).brackets = o.brackets ∧
    (ks.foldl Options.addKeyword o).string = o.string ∧ (ks.foldl Options.addKeyword o).char = o.char ∧
    (ks.foldl Options.addKeyword o).racket = o.racket ∧
    (ks.foldl Options.addKeyword o).leadingDigit = o.leadingDigit := by
  induction ks with
  | nil => intro o; simp
  | cons k ks ih =>
    intro o
    have h1 := ih (o.addKeyword k)
    have h2 := addKeyword_frame o k
    simp only [List.foldl_cons]
    refine ⟨h1.1.trans h2.1, h1.2.1.trans h2.2.1, h1.2.2.1.trans h2.2.2.1, h1.2.2.2.1.trans h2.2.2.2.1,
      h1.2.2.2.2.1.trans h2.2.2.2.2.1, h1.2.2.2.2.2.1.trans h2.2.2.2.2.2.1,
      h1.2.2.2.2.2.2.trans h2.2.2.2.2.2.2⟩

/-- **builder_frame**: a setter leaves every field other than its own unchanged. -/
theorem builder_frame (o : Options) (st : Setter) (f : Field) (h : f ≠ st.field) :
    (o.set st).get f = o.get f := by
  cases st with
  | addKeyword k =>
    have := addKeyword_frame o k
    cases f <;> simp_all [Options.set, Options.get, Setter.field]
  | setKeywords ks =>
    have := addKeywords_frame ks { o with kwPrefix := false, kwPostfix := false, kwOctothorpe := false }
    cases f <;> simp_all [Options.set, Options.get, Setter.field]
  | nil _ => cases f <;> simp_all [Options.set, Options.get, Setter.field]
  | t _ => cases f <;> simp_all [Options.set, Options.get, Setter.field]
  | brackets _ => cases f <;> simp_all [Options.set, Options.get, Setter.field]
  | string _ => cases f <;> simp_all [Options.set, Options.get, Setter.field]
  | char _ => cases f <;> simp_all [Options.set, Options.get, Setter.field]
  | racket _ => cases f <;> simp_all [Options.set, Options.get, Setter.field]
  | leadingDigit _ => cases f <;> simp_all [Options.set, Options.get, Setter.field]

/-- an option set is determined by its eight fields -/
theorem options_ext (a b : Options) (h : ∀ f, a.get f = b.get f) : a = b := by
  have h1 := h .keywords; have h2 := h .nil; have h3 := h .t; have h4 := h .brackets
  have h5 := h .string; have h6 := h .char; have h7 := h .racket; have h8 := h .leadingDigit
  cases a with
  | mk a1 a2 a3 a4 a5 a6 a7 a8 a9 a10 =>
    cases b with
    | mk b1 b2 b3 b4 b5 b6 b7 b8 b9 b10 =>
      simp only [Options.get] at h1 h2 h3 h4 h5 h6 h7 h8
      have e4 : a4 = b4 := by cases a4 <;> cases b4 <;> simp_all
      have e5 : a5 = b5 := by cases a5 <;> cases b5 <;> simp_all
      have e6 : a6 = b6 := by cases a6 <;> cases b6 <;> simp_all
      have e7 : a7 = b7 := by cases a7 <;> cases b7 <;> simp_all
      have e8 : a8 = b8 := by cases a8 <;> cases b8 <;> simp_all
      have e9 : a9 = b9 := by cases a9 <;> cases b9 <;> simp_all
      have e10 : a10 = b10 := by cases a10 <;> cases b10 <;> simp_all
      have e123 : a1 = b1 ∧ a2 = b2 ∧ a3 = b3 := by
        cases a1 <;> cases a2 <;> cases a3 <;> cases b1 <;> cases b2 <;> cases b3 <;> simp_all
      simp [e4, e5, e6, e7, e8, e9, e10, e123.1, e123.2.1, e123.2.2]

theorem set_addKeyword (o : Options) (k : KeywordSyntax) (st : Setter) (h : st.field ≠ .keywords) :
    (o.addKeyword k).set st = (o.set st).addKeyword k := by
  cases st <;> cases k <;> first | rfl | exact absurd rfl h

theorem set_addKeywords (ks : List KeywordSyntax) (st : Setter) (h : st.field ≠ .keywords) :
    ∀ o : Options, (ks.foldl Options.addKeyword o).set st = ks.foldl Options.addKeyword (o.set st) := by
  induction ks with
  | nil => intro o; rfl
  | cons k ks ih => intro o; simp only [List.foldl_cons]; rw [ih, set_addKeyword o k st h]

theorem set_clearKeywords (o : Options) (st : Setter) (h : st.field ≠ .keywords) :
    ({ o with kwPrefix := false, kwPostfix := false, kwOctothorpe := false } : Options).set st =
    { o.set st with kwPrefix := false, kwPostfix := false, kwOctothorpe := false } := by
  cases st <;> first | rfl | exact absurd rfl h

/-- a keyword setter commutes with a setter of any other field -/
theorem keyword_commute (o : Options) (s1 s2 : Setter) (h1 : s1.field = .keywords)
    (h2 : s2.field ≠ .keywords) : (o.set s1).set s2 = (o.set s2).set s1 := by
  cases s1 with
  | addKeyword k => exact set_addKeyword o k s2 h2
  | setKeywords ks =>
    show (ks.foldl Options.addKeyword _).set s2 = ks.foldl Options.addKeyword _
    rw [set_addKeywords ks s2 h2, set_clearKeywords o s2 h2]
  | nil _ | t _ | brackets _ | string _ | char _ | racket _ | leadingDigit _ => cases h1

/-- **builder_commute**: calls that assign different fields commute. -/
theorem builder_commute (o : Options) (s1 s2 : Setter) (h : s1.field ≠ s2.field) :
    (o.set s1).set s2 = (o.set s2).set s1 := by
  by_cases k1 : s1.field = .keywords
  · exact keyword_commute o s1 s2 k1 (fun e => h (k1.trans e.symm))
  · by_cases k2 : s2.field = .keywords
    · exact (keyword_commute o s2 s1 k2 k1).symm
    · cases s1 <;> cases s2 <;>
        first | rfl | exact absurd rfl h | exact absurd rfl k1 | exact absurd rfl k2

/-- **builder_last_wins**: of two assignments to the same (non-keyword) field, or with a
    `with_keyword_syntaxes` second, only the second counts. -/
theorem builder_last_wins (o : Options) (s1 s2 : Setter) (h : s1.field = s2.field)
    (h2 : ∀ k, s2 ≠ .addKeyword k) : (o.set s1).set s2 = o.set s2 := by
  cases s2 with
  | addKeyword k => exact absurd rfl (h2 k)
  | setKeywords ks =>
    cases s1 with
    | addKeyword k => cases k <;> rfl
    | setKeywords ks' =>
      show ks.foldl Options.addKeyword _ = ks.foldl Options.addKeyword _
      congr 1
      have fr := addKeywords_frame ks' { o with kwPrefix := false, kwPostfix := false, kwOctothorpe := false }
      show ({ (ks'.foldl Options.addKeyword
          { o with kwPrefix := false, kwPostfix := false, kwOctothorpe := false }) with
          kwPrefix := false, kwPostfix := false, kwOctothorpe := false } : Options) = _
      generalize ks'.foldl Options.addKeyword
        { o with kwPrefix := false, kwPostfix := false, kwOctothorpe := false } = o' at fr
      cases o'; cases o; simp_all
    | nil _ | t _ | brackets _ | string _ | char _ | racket _ | leadingDigit _ => cases h
  | nil _ => cases s1 <;> first | rfl | cases h
  | t _ => cases s1 <;> first | rfl | cases h
  | brackets _ => cases s1 <;> first | rfl | cases h
  | string _ => cases s1 <;> first | rfl | cases h
  | char _ => cases s1 <;> first | rfl | cases h
  | racket _ => cases s1 <;> first | rfl | cases h
  | leadingDigit _ => cases s1 <;> first | rfl | cases h

/-- `with_keyword_syntax` accumulates: after it the spelling is enabled and the others are as before -/
theorem builder_addKeyword (o : Options) (k k' : KeywordSyntax) :
    (o.set (.addKeyword k)).keyword k' = (o.keyword k' || k == k') := by
  cases k <;> cases k' <;> simp [Options.set, Options.addKeyword, Options.keyword]

/-- `with_keyword_syntaxes` replaces: exactly the listed spellings are enabled afterwards -/
theorem builder_setKeywords (o : Options) (ks : List KeywordSyntax) (k' : KeywordSyntax) :
    (o.set (.setKeywords ks)).keyword k' = ks.contains k' := by
  show (ks.foldl Options.addKeyword _).keyword k' = _
  have gen : ∀ (ks : List KeywordSyntax) (o : Options),
      (ks.foldl Options.addKeyword o).keyword k' = (o.keyword k' || ks.contains k') := by
    intro ks
    induction ks with
    | nil => intro o; simp
    | cons k ks ih =>
      intro o
      simp only [List.foldl_cons, ih, List.contains_cons]
      have := builder_addKeyword o k k'
      simp only [Options.set] at this
      rw [this]
      cases k <;> cases k' <;> cases o.keyword _ <;> simp <;>
        (first | (have e : ∀ a b : KeywordSyntax, (a == b) = (b == a) := by intro a b; cases a <;> cases b <;> rfl
                  rw [e]))
  rw [gen]
  cases k' <;> simp [Options.keyword]

/-- the presets are the documented chains of calls -/
theorem builder_elisp : Options.elisp = Options.build Options.new
    [.addKeyword .colonPrefix, .nil .emptyList, .brackets .vector, .string .elisp, .char .elisp,
     .leadingDigit true] := rfl

theorem builder_default : Options.default = Options.build Options.new [.addKeyword .octothorpe] := rfl

/-- **builder_reachable**: every one of the 1536 parser option sets is the result of a chain of
    builder calls from `Options::new()`. -/
theorem builder_reachable (r : Options) : ∃ ops, Options.build Options.new ops = r := by
  refine ⟨[.setKeywords ((if r.kwPrefix then [.colonPrefix] else []) ++
      (if r.kwPostfix then [.colonPostfix] else []) ++ (if r.kwOctothorpe then [.octothorpe] else [])),
      .nil r.nil, .t r.t, .brackets r.brackets, .string r.string, .char r.char, .racket r.racket,
      .leadingDigit r.leadingDigit], ?_⟩
  cases r with
  | mk a b c n t br s ch ra d =>
    cases a <;> cases b <;> cases c <;> rfl

example : (Options.build Options.elisp [.racket true, .setKeywords [.colonPostfix]]).racket = true ∧
    (Options.build Options.elisp [.racket true, .setKeywords [.colonPostfix]]).leadingDigit = true ∧
    (Options.build Options.elisp [.racket true, .setKeywords [.colonPostfix]]).kwPrefix = false := by
  decide

end Parse

namespace Print

inductive Field where | keyword | nil | bool | vector | bytes | string | char
  deriving DecidableEq, Repr

def Setter.field : Setter → Field
  | .keyword _ => .keyword | .nil _ => .nil | .bool _ => .bool | .vector _ => .vector
  | .bytes _ => .bytes | .string _ => .string | .char _ => .char

/-- **printer_builder_commute**: calls that assign different fields commute. -/
theorem builder_commute (o : Options) (s1 s2 : Setter) (h : s1.field ≠ s2.field) :
    (o.set s1).set s2 = (o.set s2).set s1 := by
  cases s1 <;> cases s2 <;> first | rfl | exact absurd rfl h

/-- the last assignment to a field wins -/
theorem builder_last_wins (o : Options) (s1 s2 : Setter) (h : s1.field = s2.field) :
    (o.set s1).set s2 = o.set s2 := by
  cases s1 <;> cases s2 <;> first | rfl | cases h

/-- a setter assigns its own field and nothing else -/
theorem builder_frame (o : Options) (st : Setter) :
    (st.field ≠ .keyword → (o.set st).keyword = o.keyword) ∧ (st.field ≠ .nil → (o.set st).nil = o.nil) ∧
    (st.field ≠ .bool → (o.set st).bool = o.bool) ∧ (st.field ≠ .vector → (o.set st).vector = o.vector) ∧
    (st.field ≠ .bytes → (o.set st).bytes = o.bytes) ∧ (st.field ≠ .string → (o.set st).string = o.string) ∧
    (st.field ≠ .char → (o.set st).char = o.char) := by
  cases st <;> simp [Options.set, Setter.field]

theorem builder_elisp : Options.elisp = Options.build Options.default
    [.keyword .colonPrefix, .nil .symbol, .bool .symbol, .vector .brackets, .bytes .elisp,
     .string .elisp, .char .elisp] := rfl

/-- every one of the 576 printer option sets is reachable from the default -/
theorem builder_reachable (p : Options) : ∃ ops, Options.build Options.default ops = p :=
  ⟨[.keyword p.keyword, .nil p.nil, .bool p.bool, .vector p.vector, .bytes p.bytes, .string p.string,
    .char p.char], by cases p; rfl⟩

end Print
end Lexpr
