/-
  Slice source versus stream source.
-/
import LexprModel.Proofs.Hist
import LexprModel.Proofs.SymTerm
namespace Lexpr
namespace Parse

/-! ## slice / io similarity -/

/-- The states of a slice parser and of a stream parser at the same point of the same input.
    The one-byte lookahead flags are unconstrained. -/
structure Sim (s₁ s₂ : St) : Prop where
  rest : s₁.rd.rest = s₂.rd.rest
  line : s₁.rd.line = s₂.rd.line
  col : s₁.rd.col = s₂.rd.col
  depth : s₁.depth = s₂.depth
  faulty₁ : s₁.rd.faulty = false
  faulty₂ : s₂.rd.faulty = false
  mode₁ : s₁.rd.mode = .slice
  mode₂ : s₂.rd.mode = .io

/-- Same error code (positions may differ); `Io` only with `Io`. -/
def ErrSim : Err → Err → Prop
  | .syntax c _ _, .syntax c' _ _ => c = c'
  | .io, .io => True
  | _, _ => False

/-- Result similarity: both `ok` with equal values and similar states, or both `err` with the
    same error code and similar states, or the same panic, or both out of fuel. -/
def ResSim {α : Type} : Res α → Res α → Prop
  | .ok a s, .ok b t => a = b ∧ Sim s t
  | .err e s, .err e' t => ErrSim e e' ∧ Sim s t
  | .panic p, .panic q => p = q
  | .fuel, .fuel => True
  | _, _ => False

theorem resSim_iff {α : Type} (r₁ r₂ : Res α) : ResSim r₁ r₂ ↔ ResRel Sim ErrSim Eq r₁ r₂ := by
  cases r₁ <;> cases r₂ <;> simp only [ResSim, ResRel]

/-- `PSim m₁ m₂`: the two computations map similar states to similar results. -/
abbrev PSim {α : Type} (m₁ m₂ : P α) : Prop := PRel Sim ErrSim Eq m₁ m₂

theorem ErrSim.refl (e : Err) : ErrSim e e := by cases e <;> simp [ErrSim]

theorem consume_sim {r₁ r₂ : Rd} (n : Nat) (hr : r₁.rest = r₂.rest) (hl : r₁.line = r₂.line)
    (hc : r₁.col = r₂.col) :
    (r₁.consume n).rest = (r₂.consume n).rest ∧ (r₁.consume n).line = (r₂.consume n).line ∧
    (r₁.consume n).col = (r₂.consume n).col ∧ (r₁.consume n).faulty = r₁.faulty ∧
    (r₂.consume n).faulty = r₂.faulty ∧ (r₁.consume n).mode = r₁.mode ∧
    (r₂.consume n).mode = r₂.mode := by
  induction n generalizing r₁ r₂ with
  | zero => simp [Rd.consume, hr, hl, hc]
  | succ n ih =>
    unfold Rd.consume
    rw [← hr]
    cases h : r₁.rest with
    | nil => simp [h, ← hr, hl, hc]
    | cons b bs =>
      simp only
      have := @ih { r₁ with rest := bs, line := (advance r₁.line r₁.col b).1,
                            col := (advance r₁.line r₁.col b).2, peeked := false }
                  { r₂ with rest := bs, line := (advance r₂.line r₂.col b).1,
                            col := (advance r₂.line r₂.col b).2, peeked := false }
                  rfl (by simp [hl, hc]) (by simp [hl, hc])
      simpa using this

theorem Sim.consume {s t : St} (h : Sim s t) (n : Nat) :
    Sim { s with rd := s.rd.consume n } { t with rd := t.rd.consume n } := by
  obtain ⟨h1, h2, h3, h4, h5, h6, h7⟩ := consume_sim n h.rest h.line h.col
  exact ⟨h1, h2, h3, h.depth, by simp [h4, h.faulty₁], by simp [h5, h.faulty₂],
    by simp [h6, h.mode₁], by simp [h7, h.mode₂]⟩

theorem PSim.peek : PSim peek peek := by
  constructor; intro s t h
  unfold Parse.peek
  rw [← h.rest, h.faulty₁, h.faulty₂]
  cases hr : s.rd.rest with
  | nil => exact ⟨rfl, h⟩
  | cons b bs =>
    refine ⟨rfl, ?_⟩
    exact ⟨h.rest, h.line, h.col, h.depth, h.faulty₁, h.faulty₂, h.mode₁, h.mode₂⟩

theorem PSim.next : PSim next next := by
  constructor; intro s t h
  unfold Parse.next
  rw [← h.rest, h.faulty₁, h.faulty₂]
  cases hr : s.rd.rest with
  | nil => exact ⟨rfl, h⟩
  | cons b bs => exact ⟨rfl, h.consume 1⟩

theorem PSim.discard : PSim discard discard := by
  constructor; intro s t h
  unfold Parse.discard
  rw [← h.rest]
  cases hr : s.rd.rest with
  | nil => exact rfl
  | cons b bs => exact ⟨rfl, h.consume 1⟩

theorem PSim.consumeN (n : Nat) : PSim (consumeN n) (consumeN n) := by
  constructor; intro s t h; exact ⟨rfl, h.consume n⟩

theorem PSim.getRest : PSim getRest getRest := by
  constructor; intro s t h; exact ⟨h.rest, h⟩

theorem PSim.getPos : PSim getPos getPos := by
  constructor; intro s t h; exact ⟨by simp [Rd.position, h.line, h.col], h⟩

theorem PSim.tokenFuel : PSim tokenFuel tokenFuel := by
  constructor; intro s t h; exact ⟨by simp [h.rest], h⟩

theorem PSim.apiFuel : PSim apiFuel apiFuel := by
  constructor; intro s t h; exact ⟨by simp [h.rest], h⟩

theorem PSim.errAt {α : Type} (c : Code) : PSim (errAt c : P α) (errAt c) := by
  constructor; intro s t h; exact ⟨rfl, h⟩

theorem PSim.peekErr {α : Type} (c : Code) : PSim (peekErr c : P α) (peekErr c) := by
  constructor; intro s t h; exact ⟨rfl, h⟩

theorem PSim.enter : PSim enter enter := by
  constructor; intro s t h
  unfold Parse.enter
  rw [← h.depth]
  split
  · exact rfl
  · split
    · exact ⟨rfl, h⟩
    · exact ⟨rfl, ⟨h.rest, h.line, h.col, by simp [h.depth], h.faulty₁, h.faulty₂, h.mode₁, h.mode₂⟩⟩

theorem PSim.leave : PSim leave leave := by
  constructor; intro s t h
  exact ⟨rfl, ⟨h.rest, h.line, h.col, by simp [h.depth], h.faulty₁, h.faulty₂, h.mode₁, h.mode₂⟩⟩


theorem PSim.getMode : PRel Sim ErrSim (fun a b => a = Mode.slice ∧ b = Mode.io) getMode getMode := by
  constructor; intro s t h; exact ⟨⟨h.mode₁, h.mode₂⟩, h⟩


theorem peekPos_errSim {s t : St} (c : Code) (_h : Sim s t) :
    ErrSim (.syntax c s.rd.peekPosition.line s.rd.peekPosition.col)
      (.syntax c t.rd.peekPosition.line t.rd.peekPosition.col) := rfl

theorem PSim.finishStr (checked : Bool) (bytes : List UInt8) :
    PSim (finishStr checked bytes) (finishStr checked bytes) := by
  unfold Parse.finishStr
  apply PRel.bind' PSim.getMode; rintro _ _ ⟨rfl, rfl⟩
  simp only [mode_slice_ne_str, mode_io_ne_str, Bool.and_false, Bool.false_eq_true, if_false]
  apply PRel.ite <;> intro _
  · exact PRel.pure _
  · exact PSim.errAt _

theorem PSim.parseSymbolBytes (scratch : List UInt8) :
    PSim (parseSymbolBytes scratch) (parseSymbolBytes scratch) := by
  unfold Parse.parseSymbolBytes
  apply PRel.bind PSim.getRest; intro rest
  apply PRel.bind' PSim.getMode; rintro _ _ ⟨rfl, rfl⟩
  simp only [symLen_mode .slice .io, mode_slice_ne_str, mode_io_ne_str, Bool.false_eq_true, if_false]
  apply PRel.bind (PSim.consumeN _); intro _
  apply PRel.bind PSim.peek; intro nxt
  repeat' (first | exact PRel.pure _ | exact PSim.errAt _ | (apply PRel.ite <;> intro _))

instance : PrimsFull Sim ErrSim where
  peek := PSim.peek
  next := PSim.next
  discard := PSim.discard
  consumeN := PSim.consumeN
  getRest := PSim.getRest
  getPos := PSim.getPos
  tokenFuel := PSim.tokenFuel
  apiFuel := PSim.apiFuel
  errAt := PSim.errAt
  peekErr := PSim.peekErr
  enter := PSim.enter
  leave := PSim.leave
  finishChecked := PSim.finishStr true
  peekPosE := peekPos_errSim
  getSt := ⟨fun _ _ h => ⟨h, h⟩⟩
  parseSymbolBytes := PSim.parseSymbolBytes
  finishStr := PSim.finishStr

end Parse
end Lexpr
