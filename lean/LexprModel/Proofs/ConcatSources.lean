/-
  ConcatSources — C12, concatenation part, on the other two input sources.

  `Concat.lean` proves, for the slice source, that the calls return the folded values followed by
  end marks.  Here: whenever a history of calls on the slice source returns values and end marks
  only, the same history on the stream source (`from_reader`; by `C06_slice_io_history`) and on the
  `&str` source (by `C06_str_slice`, for well-formed UTF-8, which is what a `&str` holds) returns
  exactly the same items, and so does `iterate` (generic transfer lemmas, any input bytes); then
  `C12_concat_io` / `C12_concat_str`: the statement of `C12_concat` on those sources.

  Needs the renamings in `SymTerm.lean`, `Fault.lean`, `StrSlice.lean` (`symTerm_eq` →
  `symTermSlice_eq_io`, `symLen_append` → `symLen_append_lt`, `consume_rest/_mode` → `…_ss`) that let
  `Sources.lean` be imported together with the `AtomRT.lean`-based files.
-/
import LexprModel.Proofs.Concat
import LexprModel.Proofs.Sources
namespace Lexpr
namespace Parse
namespace Concat
open Print Spec ListRT

/-- a history related to values and end marks is that history -/
theorem histRel_values (E : Err → Err → Prop) : ∀ (vs : List Value) (k : Nat) (l : List Item),
    HistRel E (vs.map Item.value ++ List.replicate k .none_) l →
    l = vs.map Item.value ++ List.replicate k .none_
  | [], 0, l, h => by cases h; rfl
  | [], k + 1, l, h => by
    simp only [List.map_nil, List.nil_append, List.replicate_succ] at h ⊢
    cases h with
    | cons hi ht =>
      rename_i j js
      have := histRel_values E [] k js (by simpa using ht)
      simp only [List.map_nil, List.nil_append] at this
      cases j <;> simp [ItemRel] at hi
      rw [this]
  | v :: vs, k, l, h => by
    simp only [List.map_cons, List.cons_append] at h ⊢
    cases h with
    | cons hi ht =>
      rename_i j js
      have := histRel_values E vs k js ht
      cases j <;> simp [ItemRel] at hi
      rw [this, hi]

theorem values_ne_none (vs : List Value) : ∀ it ∈ vs.map Item.value, it ≠ .none_ := by
  intro it hit
  simp only [List.mem_map] at hit
  obtain ⟨x, -, rfl⟩ := hit
  simp

/-- **C12_concat_io_history**: a history that returns only values and end marks on the slice
    source returns the same items on a (non-failing) stream over the same bytes. -/
theorem C12_concat_io_history (cfg : Cfg) (ops : List Op) (bytes : List UInt8) (vs : List Value)
    (k : Nat)
    (h : runHistory cfg ops (initSt .slice bytes) = vs.map Item.value ++ List.replicate k .none_) :
    runHistory cfg ops (initSt .io bytes) = vs.map Item.value ++ List.replicate k .none_ := by
  have hrel := C06_slice_io_history cfg ops (Sim.init bytes)
  rw [h] at hrel
  exact histRel_values _ _ _ _ hrel

/-- **C12_concat_str_history**: the same for the `&str` source, on well-formed UTF-8. -/
theorem C12_concat_str_history (cfg : Cfg) (ops : List Op) (bytes : List UInt8)
    (hu : Utf8.valid bytes = true) (its : List Item)
    (h : runHistory cfg ops (initSt .slice bytes) = its) :
    runHistory cfg ops (initSt .str bytes) = its := by
  rw [← h]; exact C06_str_slice cfg ops bytes hu

/-- **C12_concat_io_iterate**: if `vs.length + 1` calls on the slice source return the values
    `vs` and then end of input, iterating the call on the stream source returns the values and
    the end mark. -/
theorem C12_concat_io_iterate (cfg : Cfg) (op : Op) (bytes : List UInt8) (vs : List Value)
    (h : runHistory cfg (List.replicate (vs.length + 1) op) (initSt .slice bytes) =
      vs.map Item.value ++ [.none_]) (cap : Nat) (hcap : vs.length + 1 ≤ cap) :
    iterate cfg op cap (initSt .io bytes) = vs.map Item.value ++ [.none_] := by
  have h' := C12_concat_io_history cfg _ bytes vs 1 h
  exact iterate_of_runHistory cfg op (vs.map Item.value) _ cap (values_ne_none vs)
    (by simpa using h') (by simpa using hcap)

/-- **C12_concat_str_iterate**: the same for the `&str` source. -/
theorem C12_concat_str_iterate (cfg : Cfg) (op : Op) (bytes : List UInt8)
    (hu : Utf8.valid bytes = true) (vs : List Value)
    (h : runHistory cfg (List.replicate (vs.length + 1) op) (initSt .slice bytes) =
      vs.map Item.value ++ [.none_]) (cap : Nat) (hcap : vs.length + 1 ≤ cap) :
    iterate cfg op cap (initSt .str bytes) = vs.map Item.value ++ [.none_] := by
  have h' := C12_concat_str_history cfg _ bytes hu _ h
  exact iterate_of_runHistory cfg op (vs.map Item.value) _ cap (values_ne_none vs)
    (by simpa using h') (by simpa using hcap)

/-- non-vacuity: `a ;c⏎(b)␌"s" ;end` read by three calls and the call that finds the end, on the
    slice source (by evaluation), hence on the stream and on the `&str` source -/
def exBytes : List UInt8 := asc "a ;c\n(b)\x0c\"s\" ;end"

def exVals : List Value :=
  [.symbol (asc "a"), .cons (.symbol (asc "b")) .null, .string (asc "s")]

theorem exBytes_slice :
    runHistory witnessCfg (List.replicate (exVals.length + 1) .nextValue) (initSt .slice exBytes) =
      exVals.map Item.value ++ [.none_] :=
  (itemsAre_sound (runHistory witnessCfg (List.replicate (exVals.length + 1) .nextValue)
      (initSt .slice exBytes))
    [some (.symbol (asc "a")), some (.cons (.symbol (asc "b")) .null), some (.string (asc "s")), none]
    (by decide +kernel)).trans rfl

example :
    iterate witnessCfg .nextValue 9 (initSt .io exBytes) = exVals.map Item.value ++ [.none_] :=
  C12_concat_io_iterate witnessCfg .nextValue exBytes exVals exBytes_slice 9 (by decide)

example :
    iterate witnessCfg .nextValue 9 (initSt .str exBytes) = exVals.map Item.value ++ [.none_] :=
  C12_concat_str_iterate witnessCfg .nextValue exBytes (by decide) exVals exBytes_slice 9 (by decide)

/-! ### the concatenation theorem on the stream and on the `&str` source -/

/-- **C12_concat_io**: the statement of `C12_concat` for a parser on a (non-failing) stream. -/
theorem C12_concat_io (p : Print.Options) (cfg : Cfg) (ryu : Nat → List UInt8)
    (hc : Compatible p cfg.opts = true) (op : Op) (hop : ValueOp op)
    (items : List (List UInt8 × Value)) (tEnd : List UInt8)
    (hall : ∀ it ∈ items, AllPlainFor p cfg it.2 ∧ nestingP p it.2 ≤ 127)
    (hs : SepsOK p ryu true items) (hE : TriviaEnd tEnd) :
    let s0 := initSt .io (concatText p ryu items ++ tEnd)
    (∀ cap, items.length + 1 ≤ cap →
        iterate cfg op cap s0 = valueItems p cfg.opts items ++ [.none_]) ∧
    (∀ k, runHistory cfg (List.replicate (items.length + (k + 1)) op) s0 =
        valueItems p cfg.opts items ++ List.replicate (k + 1) .none_) := by
  intro s0
  have h := C12_concat p cfg ryu hc op hop items tEnd hall hs hE
  have hhist : ∀ k, runHistory cfg (List.replicate (items.length + (k + 1)) op) s0 =
      valueItems p cfg.opts items ++ List.replicate (k + 1) .none_ := by
    intro k
    have h2 := h.2.1 k
    rw [valueItems_eq_map] at h2 ⊢
    exact C12_concat_io_history cfg _ _ _ (k + 1) h2
  refine ⟨?_, hhist⟩
  intro cap hcap
  have h0 := hhist 0
  rw [valueItems_eq_map] at h0 ⊢
  exact iterate_of_runHistory cfg op _ s0 cap (values_ne_none _) (by simpa using h0)
    (by simpa using hcap)

/-- **C12_concat_str**: the statement of `C12_concat` for a parser on a `&str`; the text must be
    well-formed UTF-8 (a `&str` always is; the printed texts of plain values are, comment bodies
    are arbitrary bytes in `Trivia`, hence the explicit, decidable hypothesis). -/
theorem C12_concat_str (p : Print.Options) (cfg : Cfg) (ryu : Nat → List UInt8)
    (hc : Compatible p cfg.opts = true) (op : Op) (hop : ValueOp op)
    (items : List (List UInt8 × Value)) (tEnd : List UInt8)
    (hall : ∀ it ∈ items, AllPlainFor p cfg it.2 ∧ nestingP p it.2 ≤ 127)
    (hs : SepsOK p ryu true items) (hE : TriviaEnd tEnd)
    (hu : Utf8.valid (concatText p ryu items ++ tEnd) = true) :
    let s0 := initSt .str (concatText p ryu items ++ tEnd)
    (∀ cap, items.length + 1 ≤ cap →
        iterate cfg op cap s0 = valueItems p cfg.opts items ++ [.none_]) ∧
    (∀ k, runHistory cfg (List.replicate (items.length + (k + 1)) op) s0 =
        valueItems p cfg.opts items ++ List.replicate (k + 1) .none_) := by
  intro s0
  have h := C12_concat p cfg ryu hc op hop items tEnd hall hs hE
  have hhist : ∀ k, runHistory cfg (List.replicate (items.length + (k + 1)) op) s0 =
      valueItems p cfg.opts items ++ List.replicate (k + 1) .none_ := by
    intro k
    exact C12_concat_str_history cfg _ _ hu _ (h.2.1 k)
  refine ⟨?_, hhist⟩
  intro cap hcap
  have h0 := hhist 0
  rw [valueItems_eq_map] at h0 ⊢
  exact iterate_of_runHistory cfg op _ s0 cap (values_ne_none _) (by simpa using h0)
    (by simpa using hcap)

/-- the instance of `Concat.lean` (` ;first⏎(a 1)␌"s;x";c⏎⇥foo ; end`) on the stream, through
    `Iterator::next`, and on the `&str` source -/
example (ryu : Nat → List UInt8) :
    iterate cfg0 .parserNext 4
        (initSt .io (concatText Print.Options.default ryu exItems ++ asc " ; end")) =
      valueItems Print.Options.default cfg0.opts exItems ++ [.none_] :=
  (C12_concat_io Print.Options.default cfg0 ryu (by decide) .parserNext (.inr (.inr rfl)) exItems
    (asc " ; end") exItems_plain (exItems_seps ryu) (triviaEnd_of_triviaEndB _ (by decide))).1 4
    (by decide)

example :
    iterate cfg0 .nextValue 4
        (initSt .str (concatText Print.Options.default ryu0 exItems ++ asc " ; end")) =
      valueItems Print.Options.default cfg0.opts exItems ++ [.none_] :=
  (C12_concat_str Print.Options.default cfg0 ryu0 (by decide) .nextValue (.inl rfl) exItems
    (asc " ; end") exItems_plain (exItems_seps ryu0) (triviaEnd_of_triviaEndB _ (by decide))
    (by decide)).1 4 (by decide)

#print axioms C12_concat_io
#print axioms C12_concat_str
#print axioms C12_concat_io_history
#print axioms C12_concat_str_history
#print axioms C12_concat_io_iterate
#print axioms C12_concat_str_iterate

end Concat
end Parse
end Lexpr
