/-
  FloatApproxNum — numeric core of the approximate float round trip.

  * `fast_total`: the fast path of `f64_from_parts` never reports `NumberOutOfRange` for a
    significand below `10^17` and an exponent such that `S * 10^E ≤ f64::MAX` (`InRange S E`).
    Below `17976931348623150e292` by the error analysis (two roundings before the product), above
    it by enumeration of the seven 17-digit decimals that remain.
  * `fast_total_needed`: `17976931348623158e292` — which rounds to `f64::MAX` — is rejected.
  * `parts_close`: if `S * 10^E` rounds to the finite double `B`, `f64_from_parts` returns a finite
    `g` with `|g - B| ≤ 2^-50 * B + 2^-1073` (`closeMag`).
-/
import LexprModel.Proofs.AccuracyLit
namespace Lexpr
namespace FloatApprox
open Parse F64 Numbers Decimals Accuracy

/-! ## 1. Negative exponents never fail -/

theorem fast_neg_some (pow10 : Nat → Nat) :
    ∀ (fuel f : Nat) (e : Int), e < 0 → ∃ g, fastParts pow10 fuel f e = some g := by
  intro fuel
  induction fuel with
  | zero => intro f e _; exact ⟨f, rfl⟩
  | succ n ih =>
    intro f e he
    by_cases h308 : e.natAbs ≤ 308
    · rw [fast_small _ _ _ h308, if_neg (by omega)]
      exact ⟨_, rfl⟩
    · rw [fast_big _ _ _ h308]
      split
      · exact ⟨_, rfl⟩
      · rw [if_neg (by omega)]
        exact ih _ _ (by omega)

/-! ## 2. The range condition -/

/-- `S * 10^E ≤ f64::MAX`, cross-multiplied -/
def InRange (S : Nat) (E : Int) : Prop := S * 10 ^ E.toNat ≤ maxFin * 10 ^ (-E).toNat

instance (S : Nat) (E : Int) : Decidable (InRange S E) := by unfold InRange; exact inferInstance

/-- below this multiple of `10^292` the error analysis excludes an overflow -/
def kLow : Nat := 17976931348623150

set_option exponentiation.threshold 2048 in
/-- `10^292`, kept folded -/
def P292 : Nat := 10 ^ 292
set_option exponentiation.threshold 2048 in
/-- `10^309`, kept folded -/
def P309 : Nat := 10 ^ 309
set_option exponentiation.threshold 2048 in
/-- `10^291`, kept folded -/
def P291 : Nat := 10 ^ 291

set_option exponentiation.threshold 2048 in
theorem pow_le_P291 {E : Nat} (h : E ≤ 291) : 10 ^ E ≤ P291 :=
  Nat.pow_le_pow_right (by decide) h
set_option exponentiation.threshold 2048 in
theorem split292 (S j : Nat) : S * 10 ^ (292 + j) = S * 10 ^ j * P292 := by
  have : 10 ^ (292 + j) = P292 * 10 ^ j := Nat.pow_add 10 292 j
  rw [this]; generalize P292 = a; generalize 10 ^ j = b
  grind
set_option exponentiation.threshold 2048 in
theorem P309_le_pow {E : Nat} (h : 309 ≤ E) : P309 ≤ 10 ^ E :=
  Nat.pow_le_pow_right (by decide) h

theorem rn_finite_rat {n d : Nat} (hd : 0 < d) (h : (n : Rat) / (d : Rat) ≤ (maxFin : Rat)) :
    rn n d < infBits := by
  apply rn_finite hd
  have hdp : (0 : Rat) < (d : Rat) := natCast_pos' hd
  have h1 := Rat.mul_le_mul_of_nonneg_right h (Rat.le_of_lt hdp)
  rw [div_mul_self hd, ← Rat.natCast_mul] at h1
  exact Rat.natCast_le_natCast.mp h1

set_option exponentiation.threshold 2048 in
theorem const_low :
    ((kLow * P292 : Nat) : Rat) * ((1 + u) * (1 + u)) ≤ (maxFin : Rat) := by decide +kernel

set_option exponentiation.threshold 2048 in
/-- the decimals `k * 10^292`, `kLow < k ≤ 17976931348623157`, in each of their spellings
    `S * 10^(292 + j)` -/
theorem top_cases : ∀ i, i < 7 → ∀ j, j < 17 → (kLow + 1 + i) % 10 ^ j = 0 →
    isInf (mulPos (F64.ofNat ((kLow + 1 + i) / 10 ^ j)) (rn (10 ^ (292 + j)) 1)) = false := by
  decide +kernel

set_option exponentiation.threshold 2048 in
theorem maxFin_lt_top : maxFin < (kLow + 8) * P292 := by decide +kernel

set_option exponentiation.threshold 2048 in
theorem ten308_lt_low : 10 ^ 17 * P291 ≤ kLow * P292 := by decide +kernel

set_option exponentiation.threshold 2048 in
theorem maxFin_lt_ten309 : maxFin < P309 := by decide +kernel

/-- the product step of the fast path is finite -/
theorem mul_finite {pow10 : Nat → Nat} (hp : ∀ k, k ≤ 308 → pow10 k = rn (10 ^ k) 1)
    {S : Nat} {E : Nat} (hS0 : 0 < S) (hS : S < 10 ^ 17) (hE : E ≤ 308)
    (hr : S * 10 ^ E ≤ maxFin) : isInf (mulPos (F64.ofNat S) (pow10 E)) = false := by
  by_cases hlow : S * 10 ^ E ≤ kLow * P292
  · -- error analysis
    apply isInf_false_of_lt
    obtain ⟨n, d, hd, h1, h2⟩ := mulPos_rat (F64.ofNat S) (pow10 E)
    rw [h1]
    apply rn_finite_rat hd
    rw [h2]
    have hfin0 : F64.ofNat S < infBits :=
      ofNat_finite (Nat.le_of_lt (Nat.lt_of_lt_of_le hS (by decide)))
    obtain ⟨_, f0hi⟩ := ofNat_err hS0 hfin0
    obtain ⟨_, _, _, phi, _⟩ := tab_facts hp hE
    have hv0 := val_nonneg (F64.ofNat S)
    have hv1 := val_nonneg (pow10 E)
    have hu := one_add_u_pos
    have hT : (0 : Rat) ≤ (10 : Rat) ^ E := Rat.le_trans (by decide) (one_le_ten_pow E)
    have hSr : (0 : Rat) ≤ (S : Rat) := Rat.le_trans (by decide) (natCast_one_le hS0)
    have hb2 : (0 : Rat) ≤ (10 : Rat) ^ E * (1 + u) := Rat.mul_nonneg hT (Rat.le_of_lt hu)
    have s1 : val (F64.ofNat S) * val (pow10 E) ≤ ((S : Rat) * (1 + u)) * ((10 : Rat) ^ E * (1 + u)) :=
      mul_le_mul_nn f0hi phi hv0 hv1
    have hxc : ((S * 10 ^ E : Nat) : Rat) = (S : Rat) * (10 : Rat) ^ E := by
      rw [Rat.natCast_mul, ten_pow_cast]
    have hlowr : ((S * 10 ^ E : Nat) : Rat) ≤ ((kLow * P292 : Nat) : Rat) :=
      Rat.natCast_le_natCast.mpr hlow
    have huu : (0 : Rat) ≤ (1 + u) * (1 + u) := Rat.le_of_lt (Rat.mul_pos hu hu)
    have s2 := Rat.mul_le_mul_of_nonneg_right hlowr huu
    have s3 := const_low
    rw [hxc] at s2
    generalize ((kLow * P292 : Nat) : Rat) = C at *
    generalize (10 : Rat) ^ E = T at *
    generalize val (F64.ofNat S) = a at *
    generalize val (pow10 E) = b at *
    generalize (S : Rat) = s at *
    generalize (maxFin : Rat) = M at *
    grind
  · -- enumeration
    have hlow' : kLow * P292 < S * 10 ^ E := by omega
    have hE292 : 292 ≤ E := by
      apply Nat.not_lt.mp
      intro hlt
      have h1 : 10 ^ E ≤ P291 := pow_le_P291 (by omega)
      have h2 : S * 10 ^ E ≤ 10 ^ 17 * P291 :=
        Nat.mul_le_mul (Nat.le_of_lt hS) h1
      have := ten308_lt_low
      omega
    obtain ⟨j, rfl⟩ : ∃ j, E = 292 + j := ⟨E - 292, by omega⟩
    have hj : j < 17 := by omega
    have hsplit := split292 S j
    rw [hsplit] at hlow' hr
    have hk1 : kLow < S * 10 ^ j := Nat.lt_of_mul_lt_mul_right hlow'
    have hk2 : S * 10 ^ j < kLow + 8 := by
      have := maxFin_lt_top
      exact Nat.lt_of_mul_lt_mul_right (Nat.lt_of_le_of_lt hr this)
    obtain ⟨i, hi⟩ : ∃ i, S * 10 ^ j = kLow + 1 + i := ⟨S * 10 ^ j - (kLow + 1), by omega⟩
    have hi7 : i < 7 := by omega
    have hpos : 0 < 10 ^ j := Nat.pow_pos (by decide)
    have hmod : (kLow + 1 + i) % 10 ^ j = 0 := by rw [← hi]; exact Nat.mul_mod_left _ _
    have hdiv : (kLow + 1 + i) / 10 ^ j = S := by rw [← hi]; exact Nat.mul_div_cancel _ hpos
    have := top_cases i hi7 j hj hmod
    rw [hdiv] at this
    rw [hp _ hE]
    exact this

/-- **fast_total.**  With a correctly rounded `POW10` table, the fast path returns a double for
    every significand below `10^17` and every exponent with `S * 10^E ≤ f64::MAX`. -/
theorem fast_total {pow10 : Nat → Nat} (hp : ∀ k, k ≤ 308 → pow10 k = rn (10 ^ k) 1)
    {S : Nat} {E : Int} (hS : S < 10 ^ 17) (hr : InRange S E) :
    ∃ g, fastParts pow10 (E.natAbs / 308 + 2) (F64.ofNat S) E = some g := by
  by_cases hS0 : S = 0
  · subst hS0; exact ⟨0, fast_sig_zero _ _ _⟩
  have hS0 : 0 < S := Nat.pos_of_ne_zero hS0
  by_cases he : E < 0
  · exact fast_neg_some _ _ _ _ he
  have hE0 : (-E).toNat = 0 := by omega
  unfold InRange at hr
  rw [hE0, Nat.pow_zero, Nat.mul_one] at hr
  have h308 : E.natAbs ≤ 308 := by
    apply Nat.not_lt.mp
    intro hgt
    have h1 : P309 ≤ 10 ^ E.toNat := P309_le_pow (by omega)
    have h2 : 1 * 10 ^ E.toNat ≤ S * 10 ^ E.toNat := Nat.mul_le_mul_right _ hS0
    have := maxFin_lt_ten309
    omega
  rw [show E.natAbs / 308 + 2 = (E.natAbs / 308 + 1) + 1 from rfl, fast_small _ _ _ h308,
    if_pos (by omega)]
  have hEq : E.toNat = E.natAbs := by omega
  rw [hEq] at hr
  rw [mul_finite hp hS0 hS h308 hr]
  exact ⟨_, rfl⟩

set_option exponentiation.threshold 2048 in
/-- the range condition is needed: `17976931348623158e292` rounds to `f64::MAX` (so a formatter
    writing it would meet `RyuSpec`), exceeds it by less than half an ulp, and is rejected by the
    fast path with the real table -/
theorem fast_total_needed :
    decRn 17976931348623158 292 = 0x7FEFFFFFFFFFFFFF ∧ ¬ InRange 17976931348623158 292 ∧
    fastParts pow10Tab ((292 : Int).natAbs / 308 + 2) (F64.ofNat 17976931348623158) 292 = none ∧
    InRange 17976931348623157 292 ∧ decRn 17976931348623157 292 = 0x7FEFFFFFFFFFFFFF := by
  decide +kernel

/-! ## 3. `f64_from_parts` on a decimal that rounds to a finite double -/

/-- relative part of the bound: `2^-50` -/
def cRel : Rat := 1 / 2 ^ 50
/-- absolute part of the bound: `2^-1073` -/
def cAbs : Rat := (2 : Rat) ^ (-1073 : Int)

/-- `|y - x| ≤ 2^-50 * x + 2^-1073` for the magnitudes `x`, `y` -/
def closeMag (x y : Rat) : Prop := x - (cRel * x + cAbs) ≤ y ∧ y ≤ x + (cRel * x + cAbs)

theorem cRel_pos : 0 < cRel := by decide +kernel
theorem cAbs_pos : 0 < cAbs := two_zpow_pos _

theorem closeMag_refl {x : Rat} (hx : 0 ≤ x) : closeMag x x := by
  have := Rat.mul_nonneg (Rat.le_of_lt cRel_pos) hx
  have := cAbs_pos
  constructor <;> grind

theorem k1 : (u + cTight) * sigma ≤ cRel := by decide +kernel
theorem k2 : cRel * eta + eta + aTight ≤ cAbs := by decide +kernel

/-- from "`B` is the rounding of `x`" and "`g` is within the tight fast-path bound of `x`" to
    "`g` is close to `B`" -/
theorem close_of_bounds {x vB vg : Rat} (hx : 0 ≤ x)
    (hB1 : x * (1 - u) - eta ≤ vB) (hB2 : vB ≤ x * (1 + u) + eta)
    (hg1 : x * (1 - cTight) - aTight ≤ vg) (hg2 : vg ≤ x * (1 + cTight) + aTight) :
    closeMag vB vg := by
  have hrs : (1 - u) * sigma = 1 := rho_sigma
  have hsp := sigma_pos
  have hc : (0 : Rat) ≤ u + cTight := by
    have := u_pos; have := cTight_pos; grind
  have hvB : 0 ≤ vB + eta := by
    have := Rat.mul_nonneg hx (Rat.le_of_lt rho_pos)
    unfold rho at this
    grind
  -- x ≤ (vB + eta) * sigma
  have hx2 : x ≤ (vB + eta) * sigma := by
    have h := Rat.mul_le_mul_of_nonneg_right (show x * (1 - u) ≤ vB + eta by grind)
      (Rat.le_of_lt hsp)
    have e : x * (1 - u) * sigma = x * ((1 - u) * sigma) := Rat.mul_assoc _ _ _
    rw [e, hrs, Rat.mul_one] at h
    exact h
  have h3 := Rat.mul_le_mul_of_nonneg_left hx2 hc
  have h6 := Rat.mul_le_mul_of_nonneg_right k1 hvB
  have h5 := k2
  have e3 : (u + cTight) * ((vB + eta) * sigma) = (u + cTight) * sigma * (vB + eta) := by
    generalize sigma = a; grind
  rw [e3] at h3
  have hcr := cRel_pos
  unfold closeMag
  generalize (u + cTight) * sigma * (vB + eta) = Q at *
  generalize sigma = sg at *
  generalize cRel = cr at *
  generalize cAbs = ca at *
  generalize eta = et at *
  generalize aTight = at' at *
  generalize cTight = ct at *
  generalize u = uu at *
  constructor <;> grind

/-- **parts_close.**  `S < 10^17`, `S * 10^E` rounds to the finite magnitude `B`
    (`decRn S E = B < infBits`), and — fast build — the table is correctly rounded and
    `S * 10^E ≤ f64::MAX`: `f64_from_parts` succeeds with `±g`, `g` finite and
    `|g - B| ≤ 2^-50 * B + 2^-1073`; without `fast-float-parsing`, `g = B`. -/
theorem parts_close (cfg : Cfg) (pos : Bool) (S : Nat) (E : Int) (B : Nat)
    (hS : S < 10 ^ 17) (hB : decRn S E = B) (hfin : B < infBits)
    (hp : cfg.fast = true → ∀ k, k ≤ 308 → cfg.pow10 k = rn (10 ^ k) 1)
    (hr : cfg.fast = true → InRange S E) :
    ∃ g, (∀ s, f64FromParts cfg pos S E s = .ok (signed pos g) s) ∧ g < infBits ∧
      closeMag (val B) (val g) ∧ (cfg.fast = false → g = B) := by
  have hS64 : S ≤ u64Max := Nat.le_of_lt (Nat.lt_of_lt_of_le hS (by decide))
  have hd : 0 < 10 ^ (-E).toNat := ten_pow_pos _
  have hBerr := rn_err (n := S * 10 ^ E.toNat) hd (by unfold decRn at hB; rw [hB]; exact hfin)
  rw [decRn_quot] at hBerr
  have hBv : val (rn (S * 10 ^ E.toNat) (10 ^ (-E).toNat)) = val B := by
    unfold decRn at hB; rw [hB]
  rw [hBv] at hBerr
  by_cases hfast : cfg.fast = true
  · obtain ⟨g, hg⟩ := fast_total (hp hfast) hS (hr hfast)
    have hok : ∀ s, f64FromParts cfg pos S E s = .ok (signed pos g) s := by
      intro s
      unfold f64FromParts
      rw [if_pos hfast, hg]
      rfl
    by_cases h0 : S = 0
    · subst h0
      rw [fast_sig_zero] at hg
      injection hg with hg; subst hg
      have hB0 : B = 0 := by rw [← hB]; simp [decRn, rn_zero_left]
      subst hB0
      exact ⟨0, hok, by decide, closeMag_refl (val_nonneg 0),
        fun hf => absurd (hfast.symm.trans hf) (by decide)⟩
    · obtain ⟨h3, h4, h5⟩ := C05_accuracy_fast_tight (hp hfast) h0
        (Nat.lt_of_lt_of_le hS (by decide)) hg
      exact ⟨g, hok, h3, close_of_bounds (dec_nonneg S E) hBerr.1 hBerr.2 h4 h5,
        fun hf => absurd (hfast.symm.trans hf) (by decide)⟩
  · have hfast' : cfg.fast = false := by simpa using hfast
    have hok : ∀ s, f64FromParts cfg pos S E s = .ok (signed pos B) s := by
      intro s
      rw [f64FromParts_slow cfg pos S E s hfast', rnDec_eq_all S E hS64, hB,
        isInf_false_of_lt hfin]
      rfl
    exact ⟨B, hok, hfin, closeMag_refl (val_nonneg B), fun _ => rfl⟩

#print axioms fast_total
#print axioms fast_total_needed
#print axioms parts_close

end FloatApprox
end Lexpr
