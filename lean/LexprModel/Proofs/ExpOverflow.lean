/-
  Property C05, written exponents beyond `i32`: the path `parse_exponent` →
  `parse_exponent_overflow` (model: `exponentLoop` → `parseExponentOverflow`).

  As soon as the exponent accumulator would leave `i32` (`overflow!(exp * 10 + digit, i32::MAX)`)
  the code stops computing: with a non-zero significand and a positive exponent it raises
  `NumberOutOfRange` right there (after the overflowing digit, the remaining digits unread);
  otherwise it skips the remaining digits and returns `±0.0`.  The significand tested is the one
  the scanners kept (`DecLit.scanT`), which is zero exactly when all written digits are zero.

  Part 1 (this file): the scanners on such a literal, in closed form (`scan_over`).
  Part 2 (`ExpOverflowVal.lean`): what the exact value demands, the combined theorems, examples.
-/
import LexprModel.Proofs.AccuracyTrunc
namespace Lexpr
namespace ExpOverflow
open Parse F64 Numbers Decimals Accuracy

/-! ## 1. Where the exponent accumulator overflows -/

/-- number of exponent digits eaten up to and including the one at which the accumulator `x`
    would leave `i32` (`0` if that never happens) -/
def ovfAt : Nat → List UInt8 → Nat
  | _, [] => 0
  | x, c :: cs =>
    if overflow x 10 (c.toNat - 48) i32Max then 1 else 1 + ovfAt (x * 10 + (c.toNat - 48)) cs

theorem ovfAt_le : ∀ (ds : List UInt8) (x : Nat), ovfAt x ds ≤ ds.length
  | [], _ => Nat.le_refl _
  | c :: cs, x => by
    have := ovfAt_le cs (x * 10 + (c.toNat - 48))
    simp only [ovfAt, List.length_cons]
    split <;> omega

/-- the outcome of `parse_exponent_overflow`: an error at `tErr` (significand non-zero, exponent
    positive) or the value `v` (a signed zero) at `tEnd` -/
def overflowOut {α : Type} (v : α) (sig : Nat) (posExp : Bool) (tErr tEnd : St) : Res α :=
  if (sig != 0 && posExp) = true then (errAt .numberOutOfRange : P α) tErr else .ok v tEnd

theorem signed_zero (pos : Bool) : (if pos then 0 else F64.signBit) = signed pos 0 := by
  cases pos <;> decide

/-- the digit loop of `parse_exponent` on digits whose value leaves `i32` -/
theorem exponentLoop_over (cfg : Cfg) (pos : Bool) (sig : Nat) (startExp : Int) (posExp : Bool)
    (rest : List UInt8) (hstop : StopDigit rest) :
    ∀ (ds : List UInt8) (f x : Nat) (t : St),
      AllDigits ds → t.rd.rest = ds ++ rest → t.rd.peeked = false →
      (rest = [] → t.rd.faulty = false) → x ≤ i32Max → i32Max < dv x ds → ds.length + 1 ≤ f →
      exponentLoop cfg pos sig startExp posExp f x t =
        overflowOut (signed pos 0) sig posExp (adv t (ovfAt x ds) false)
          (adv t ds.length (endPeek t rest)) := by
  intro ds
  induction ds with
  | nil =>
    intro f x t _ _ _ _ hx hov _
    simp only [dv_nil] at hov
    omega
  | cons c cs ih =>
    intro f x t hd hrest hpk hf hx hov hfuel
    obtain ⟨f, rfl⟩ : ∃ f', f = f' + 1 := ⟨f - 1, by omega⟩
    simp only [List.length_cons] at hfuel
    simp only [List.cons_append] at hrest
    obtain ⟨hlt, -⟩ := isDigit_val c hd.head
    have hr0 : (adv t 0 (t.rd.peeked || t.rd.mode == .io)).rd.rest = c :: (cs ++ rest) := by
      simp [hrest]
    have hr1 : (adv t 1 false).rd.rest = cs ++ rest := by simp [hrest]
    rw [dv_cons] at hov
    rw [exponentLoop]
    simp only [bind_apply, pk_cons t c _ hrest, hd.head, if_true, dc_cons _ c _ hr0, adv_adv]
    cases hovf : overflow x 10 (c.toNat - 48) i32Max with
    | true =>
      simp only [if_true, ovfAt, hovf, parseExponentOverflow, overflowOut]
      cases hz : (sig != 0 && posExp) with
      | true => simp only [if_true, Nat.zero_add]
      | false =>
        simp only [Bool.false_eq_true, if_false, bind_apply,
          skipDigits_ok (adv t (0 + 1) false) cs rest (by simp [hrest]) hd.tail hstop
            (by simpa using hf), pure_apply, adv_adv, endPeek_adv, List.length_cons, signed_zero]
        adv_arith
    | false =>
      have hle := (overflow_false_iff (a := x) (c := i32Max) (by decide) hlt).mp hovf
      simp only [Bool.false_eq_true, if_false, Nat.zero_add]
      rw [ih f _ (adv t 1 false) hd.tail hr1 (by simp) (by simpa using hf) hle hov (by omega)]
      simp only [adv_adv, endPeek_adv, List.length_cons, ovfAt, hovf, Bool.false_eq_true, if_false]
      rw [Nat.add_comm 1 cs.length]

/-- `parse_exponent` at the `e` of an exponent whose digits do not fit `i32` -/
theorem parseExponent_over (cfg : Cfg) (pos : Bool) (sig : Nat) (startExp : Int)
    (mark : UInt8) (sign xs rest : List UInt8) (f : Nat) (t : St)
    (hsign : sign = [] ∨ sign = [43] ∨ sign = [45]) (hd : AllDigits xs)
    (hrest : t.rd.rest = mark :: (sign ++ (xs ++ rest))) (hstop : StopDigit rest)
    (hf : rest = [] → t.rd.faulty = false) (hov : i32Max < dv 0 xs) (hfuel : xs.length ≤ f) :
    parseExponent cfg f pos sig startExp t =
      overflowOut (signed pos 0) sig (expSignPos sign)
        (adv t (1 + sign.length + ovfAt 0 xs) false)
        (adv t (1 + sign.length + xs.length) (endPeek t rest)) := by
  cases xs with
  | nil => simp only [dv_nil] at hov; omega
  | cons d0 ds =>
    obtain ⟨h45, h43⟩ := (isDigit_facts d0 hd.head).2
    obtain ⟨hlt, -⟩ := isDigit_val d0 hd.head
    have h0 : overflow 0 10 (d0.toNat - 48) i32Max = false := by
      rw [overflow_false_iff (by decide) hlt]; unfold i32Max; omega
    have hov' : i32Max < dv (d0.toNat - 48) ds := by simpa using hov
    have hloop : ∀ (n : Nat) (p : Bool), (adv t n false).rd.rest = ds ++ rest →
        exponentLoop cfg pos sig startExp p f (d0.toNat - 48) (adv t n false) =
          overflowOut (signed pos 0) sig p (adv t (n + (ovfAt 0 (d0 :: ds) - 1)) false)
            (adv t (n + ds.length) (endPeek t rest)) := by
      intro n p hr
      rw [exponentLoop_over cfg pos sig startExp p rest hstop ds f _ (adv t n false) hd.tail hr
        (by simp) (by simpa using hf) (by unfold i32Max; omega) hov' (by simpa using hfuel)]
      simp only [adv_adv, endPeek_adv, ovfAt, h0, Bool.false_eq_true, if_false, Nat.zero_mul,
        Nat.zero_add, Nat.add_sub_cancel_left]
    have hone : 1 ≤ ovfAt 0 (d0 :: ds) := by
      simp only [ovfAt, h0, Bool.false_eq_true, if_false]; omega
    have hr1 : (adv t 1 false).rd.rest = sign ++ (d0 :: ds ++ rest) := by simp [hrest]
    unfold parseExponent
    rcases hsign with rfl | rfl | rfl
    · simp only [List.nil_append, List.cons_append] at hr1 hrest
      have hr1' : (adv t (1 + 0) ((adv t 1 false).rd.peeked || (adv t 1 false).rd.mode == .io)).rd.rest
          = d0 :: (ds ++ rest) := by simp [hrest]
      simp only [bind_apply, dc_cons t _ _ hrest, pk_cons _ _ _ hr1, adv_adv, h43, h45,
        Bool.false_eq_true, if_false, pure_apply, nx_cons _ _ _ hr1', hd.head, if_true]
      rw [hloop _ true (by simp [hrest])]
      simp only [expSignPos, List.length_cons, List.length_nil]
      have e1 : 1 + 0 + 1 + (ovfAt 0 (d0 :: ds) - 1) = 1 + 0 + ovfAt 0 (d0 :: ds) := by omega
      have e2 : 1 + 0 + 1 + ds.length = 1 + 0 + (ds.length + 1) := by omega
      rw [e1, e2]
      rfl
    · simp only [List.cons_append, List.nil_append] at hr1 hrest
      have hr1' : (adv t (1 + 0) ((adv t 1 false).rd.peeked || (adv t 1 false).rd.mode == .io)).rd.rest
          = 43 :: d0 :: (ds ++ rest) := by simp [hrest]
      have hr2 : (adv t (1 + 0 + 1) false).rd.rest = d0 :: (ds ++ rest) := by simp [hrest]
      simp only [bind_apply, dc_cons t _ _ hrest, pk_cons _ _ _ hr1, adv_adv, beq_self_eq_true,
        if_true, dc_cons _ _ _ hr1', pure_apply, nx_cons _ _ _ hr2, hd.head]
      rw [hloop _ true (by simp [hrest])]
      simp only [expSignPos, List.length_cons, List.length_nil]
      have e1 : 1 + 0 + 1 + 1 + (ovfAt 0 (d0 :: ds) - 1) = 1 + (0 + 1) + ovfAt 0 (d0 :: ds) := by
        omega
      have e2 : 1 + 0 + 1 + 1 + ds.length = 1 + (0 + 1) + (ds.length + 1) := by omega
      rw [e1, e2]
      rfl
    · simp only [List.cons_append, List.nil_append] at hr1 hrest
      have hr1' : (adv t (1 + 0) ((adv t 1 false).rd.peeked || (adv t 1 false).rd.mode == .io)).rd.rest
          = 45 :: d0 :: (ds ++ rest) := by simp [hrest]
      have hr2 : (adv t (1 + 0 + 1) false).rd.rest = d0 :: (ds ++ rest) := by simp [hrest]
      have e45 : ((45 : UInt8) == 43) = false := by decide
      simp only [bind_apply, dc_cons t _ _ hrest, pk_cons _ _ _ hr1, adv_adv, beq_self_eq_true, e45,
        Bool.false_eq_true, if_false,
        if_true, dc_cons _ _ _ hr1', pure_apply, nx_cons _ _ _ hr2, hd.head]
      rw [hloop _ false (by simp [hrest])]
      simp only [expSignPos, List.length_cons, List.length_nil]
      have e1 : 1 + 0 + 1 + 1 + (ovfAt 0 (d0 :: ds) - 1) = 1 + (0 + 1) + ovfAt 0 (d0 :: ds) := by
        omega
      have e2 : 1 + 0 + 1 + 1 + ds.length = 1 + (0 + 1) + (ds.length + 1) := by omega
      rw [e1, e2]
      rfl

/-! ## 2. The scanners up to the exponent -/

/-- the step shared by `parse_decimal` and `parse_num_tail`: an exponent follows, and it does
    not fit `i32` -/
theorem tailExp_over (cfg : Cfg) (pos : Bool) (sig : Nat) (se : Int) (e : ExpPart)
    (rest : List UInt8) (f : Nat) (u : St)
    (hwf : e.WF) (hov : i32Max < e.abs) (hfu : e.digits.length ≤ f)
    (hrest : u.rd.rest = e.text ++ rest) (hstop : ScanStop rest)
    (hf : rest = [] → u.rd.faulty = false) :
    (do let c ← peekOrNull
        if c == 101 || c == 69 then parseExponent cfg f pos sig se
        else f64FromParts cfg pos sig se : P Nat) u =
      overflowOut (signed pos 0) sig (expSignPos e.sign)
        (adv u (1 + e.sign.length + ovfAt 0 e.digits) false)
        (adv u e.text.length (endPeek u rest)) := by
  obtain ⟨hm, hs, -, hd⟩ := hwf
  simp only [ExpPart.text, List.cons_append, List.append_assoc] at hrest
  simp only [bind_apply, pk_cons u _ _ hrest, (mark_facts e.mark hm).1, if_true]
  rw [parseExponent_over cfg pos sig se e.mark e.sign e.digits rest f _ hs hd
    (by simpa using hrest) hstop.1 (by simpa using hf) hov hfu]
  simp only [adv_adv, endPeek_adv, ExpPart.text, List.length_cons, List.length_append,
    Nat.zero_add]
  congr 2; omega

theorem expText_stop' (e : ExpPart) (rest : List UInt8) (hwf : e.WF) :
    StopDigit (e.text ++ rest) := by
  have := (mark_facts e.mark hwf.1).2.1
  simpa [StopDigit, ExpPart.text] using this

/-- `parse_decimal` at the `.`, exponent beyond `i32` -/
theorem parseDecimal_over (cfg : Cfg) (pos : Bool) (sig : Nat) (exp : Int) (fp : List UInt8)
    (e : ExpPart) (rest : List UInt8) (f : Nat) (t : St)
    (hne : fp ≠ []) (hd : AllDigits fp)
    (hwf : e.WF) (hov : i32Max < e.abs) (hfu : e.digits.length ≤ f)
    (hrest : t.rd.rest = 46 :: (fp ++ (e.text ++ rest))) (hstop : ScanStop rest)
    (hf : rest = [] → t.rd.faulty = false) (hfuel : fp.length + 1 ≤ f) :
    parseDecimal cfg f pos sig exp t =
      overflowOut (signed pos 0) (fracScan fp sig exp 0).1 (expSignPos e.sign)
        (adv t (1 + fp.length + (1 + e.sign.length + ovfAt 0 e.digits)) false)
        (adv t (1 + fp.length + e.text.length) (endPeek t rest)) := by
  have hf' : e.text ++ rest = [] → (adv t 1 false).rd.faulty = false := by
    intro h
    simp [ExpPart.text] at h
  have hloop := decimalLoop_total (e.text ++ rest) (expText_stop' e rest hwf) fp f sig exp 0 false
    (adv t 1 false) hd (by simp [hrest]) (by simp) hf' hfuel
  have hany : (false || !fp.isEmpty) = true := by
    cases fp with
    | nil => exact absurd rfl hne
    | cons => rfl
  rw [hany] at hloop
  unfold parseDecimal
  simp only [bind_apply, dc_cons t _ _ hrest, hloop, Bool.not_true, Bool.false_eq_true, if_false]
  have := tailExp_over cfg pos (fracScan fp sig exp 0).1 (fracScan fp sig exp 0).2 e rest f
    (adv (adv t 1 false) fp.length (endPeek (adv t 1 false) (e.text ++ rest))) hwf hov hfu
    (by simp [hrest, Nat.add_comm 1 fp.length]) hstop (by simpa using hf)
  simp only [bind_apply] at this
  rw [this]
  simp only [adv_adv, endPeek_adv]

/-- the arm of `parse_long_integer` that ends the integer digits -/
theorem longInt_tail_over (cfg : Cfg) (pos : Bool) (sig k : Nat) (fp : Option (List UInt8))
    (e : ExpPart) (rest : List UInt8) (f : Nat) (u : St)
    (hfp : ∀ g, fp = some g → g ≠ [] ∧ AllDigits g ∧ g.length ≤ f)
    (hwf : e.WF) (hov : i32Max < e.abs) (hfu : e.digits.length ≤ f + 1)
    (hrest : u.rd.rest = fracText fp ++ (e.text ++ rest))
    (hstop : ScanStop rest) (hf : rest = [] → u.rd.faulty = false) :
    parseLongInteger cfg 10 pos sig (f + 1) k u =
      overflowOut (signed pos 0) (scanTail fp (some e) sig k).1 (expSignPos e.sign)
        (adv u ((fracText fp).length + (1 + e.sign.length + ovfAt 0 e.digits)) false)
        (adv u ((fracText fp).length + e.text.length) (endPeek u rest)) := by
  have e10 : ((10 : Nat) != 10) = false := by decide
  rw [parseLongInteger]
  cases fp with
  | some g =>
    obtain ⟨hgne, hgd, hgl⟩ := hfp g rfl
    simp only [fracText, List.cons_append] at hrest
    have hr0 : (adv u 0 (u.rd.peeked || u.rd.mode == .io)).rd.rest = 46 :: (g ++ (e.text ++ rest)) := by
      simp [hrest]
    have hdv : digitVal 10 46 = none := by decide
    simp only [bind_apply, pk_cons u _ _ hrest, hdv, beq_self_eq_true, if_true, e10,
      Bool.false_eq_true, if_false]
    rw [parseDecimal_over cfg pos sig k g e rest (f + 1) _ hgne hgd hwf hov hfu hr0 hstop
      (by simpa using hf) (by omega)]
    simp only [adv_adv, endPeek_adv, scanTail, fracText, List.length_cons, Nat.zero_add]
    congr 2 <;> omega
  | none =>
    obtain ⟨hm, hs, hne, hd⟩ := hwf
    obtain ⟨m1, -, m3, m4⟩ := mark_facts e.mark hm
    simp only [fracText, List.nil_append, ExpPart.text, List.cons_append,
      List.append_assoc] at hrest
    have hr0 : (adv u 0 (u.rd.peeked || u.rd.mode == .io)).rd.rest =
        e.mark :: (e.sign ++ (e.digits ++ rest)) := by simp [hrest]
    simp only [bind_apply, pk_cons u _ _ hrest, m3, m4, m1, if_true, e10, Bool.false_eq_true,
      if_false]
    rw [parseExponent_over cfg pos sig k e.mark e.sign e.digits rest (f + 1) _ hs hd hr0 hstop.1
      (by simpa using hf) hov hfu]
    simp only [adv_adv, endPeek_adv, scanTail, fracText, ExpPart.text, List.length_nil,
      List.length_cons, List.length_append, Nat.zero_add]
    congr 2; omega

/-- `parse_long_integer` over the remaining digits of the integer part -/
theorem longInt_run_over (cfg : Cfg) (pos : Bool) (sig : Nat) (fp : Option (List UInt8))
    (e : ExpPart) (rest : List UInt8) (f : Nat)
    (hfp : ∀ g, fp = some g → g ≠ [] ∧ AllDigits g ∧ g.length ≤ f)
    (hwf : e.WF) (hov : i32Max < e.abs) (hfu : e.digits.length ≤ f + 1)
    (hstop : ScanStop rest) :
    ∀ (ds : List UInt8) (k : Nat) (t : St), AllDigits ds →
      t.rd.rest = ds ++ (fracText fp ++ (e.text ++ rest)) → t.rd.peeked = false →
      (rest = [] → t.rd.faulty = false) → k + ds.length ≤ i32Max →
      parseLongInteger cfg 10 pos sig (f + ds.length + 1) k t =
        overflowOut (signed pos 0) (scanTail fp (some e) sig ((k + ds.length : Nat) : Int)).1
          (expSignPos e.sign)
          (adv t (ds.length + ((fracText fp).length + (1 + e.sign.length + ovfAt 0 e.digits))) false)
          (adv t (ds.length + ((fracText fp).length + e.text.length)) (endPeek t rest)) := by
  intro ds
  induction ds with
  | nil =>
    intro k t _ hrest hpk hf _
    simp only [List.nil_append] at hrest
    rw [show f + ([] : List UInt8).length + 1 = f + 1 from rfl,
      longInt_tail_over cfg pos sig k fp e rest f t hfp hwf hov hfu hrest hstop hf]
    simp only [List.length_nil, Nat.add_zero, Nat.zero_add]
  | cons c cs ih =>
    intro k t hd hrest hpk hf hk
    simp only [List.cons_append] at hrest
    simp only [List.length_cons] at hk
    obtain ⟨hlt, hdv, -⟩ := isDigit_val c hd.head
    have hr0 : (adv t 0 (t.rd.peeked || t.rd.mode == .io)).rd.rest =
        c :: (cs ++ (fracText fp ++ (e.text ++ rest))) := by simp [hrest]
    have e1 : f + (c :: cs).length + 1 = (f + cs.length + 1) + 1 := by
      simp only [List.length_cons]; omega
    have hk' : ¬ (k + 1 > i32Max) := by omega
    rw [e1, parseLongInteger]
    simp only [bind_apply, pk_cons t c _ hrest, hdv, Nat.not_le.mpr hlt, ge_iff_le, if_false,
      dc_cons _ c _ hr0, adv_adv, hk']
    rw [ih (k + 1) (adv t 1 false) hd.tail (by simp [hrest]) (by simp) (by simpa using hf) (by omega)]
    simp only [adv_adv, endPeek_adv, List.length_cons]
    have e2 : k + 1 + cs.length = k + (cs.length + 1) := by omega
    rw [e2]
    congr 2 <;> omega

/-! ## 3. Whole literals -/

/-- A literal whose integer part overflows `u64` at the digit `d`, exponent beyond `i32`. -/
theorem scan_long_over (cfg : Cfg) (fuel : Nat) (pos : Bool) (c : UInt8) (pre : List UInt8)
    (d : UInt8) (more : List UInt8) (fp : Option (List UInt8)) (e : ExpPart) (rest : List UInt8)
    (s : St) (hip : AllDigits ((c :: pre) ++ d :: more))
    (hfp : ∀ g, fp = some g → g ≠ [] ∧ AllDigits g) (hwf : e.WF) (hov : i32Max < e.abs)
    (hrest : s.rd.rest = ((c :: pre) ++ d :: more) ++ (fracText fp ++ (e.text ++ rest)))
    (hstop : ScanStop rest) (hf : rest = [] → s.rd.faulty = false)
    (hpre : dv 0 (c :: pre) ≤ u64Max) (hovf : u64Max < dv 0 (c :: pre) * 10 + (d.toNat - 48))
    (hsmall : more.length + 1 ≤ i32Max)
    (hfuel : (((c :: pre) ++ d :: more) ++ (fracText fp ++ e.text)).length + 1 ≤ fuel) :
    parseNumLiteral cfg fuel 10 pos s =
      overflowOut (Number.flt (signed pos 0))
        (scanTail fp (some e) (dv 0 (c :: pre)) ((1 + more.length : Nat) : Int)).1
        (expSignPos e.sign)
        (adv s (((c :: pre) ++ d :: more).length +
          ((fracText fp).length + (1 + e.sign.length + ovfAt 0 e.digits))) false)
        (adv s (((c :: pre) ++ d :: more) ++ (fracText fp ++ e.text)).length (endPeek s rest)) := by
  have hdc : isDigit c = true := hip c (by simp)
  have hdd : isDigit d = true := hip d (by simp)
  have hdpre : AllDigits pre := fun x hx => hip x (by simp [hx])
  have hdmore : AllDigits more := fun x hx => hip x (by simp [hx])
  obtain ⟨hlt, hdv, -⟩ := isDigit_val c hdc
  have hI : dv (c.toNat - 48) pre = dv 0 (c :: pre) := by simp
  simp only [List.cons_append, List.append_assoc, List.length_cons, List.length_append] at hrest hfuel
  obtain ⟨f, rfl⟩ : ∃ f, fuel = (f + more.length + 1 - 1) + pre.length + 1 :=
    ⟨fuel - pre.length - 1 - more.length, by omega⟩
  unfold parseNumLiteral
  simp only [bind_apply, nx_cons s _ _ hrest, hdv, Nat.not_le.mpr hlt, ge_iff_le, if_false]
  have h1 := numLoop_ovf cfg pos d (more ++ (fracText fp ++ (e.text ++ rest))) hdd pre
    (c.toNat - 48) (f + more.length + 1 - 1) (adv s 1 false) hdpre (by simp [hrest]) (by simp)
    (by rw [hI]; exact hpre) (by rw [hI]; exact hovf)
  simp only [bind_apply] at h1
  rw [h1, hI]
  have e1 : f + more.length + 1 - 1 + 1 = f + more.length + 1 := by omega
  rw [e1]
  have hfl : (fracText fp).length + e.text.length + 2 ≤ f := by omega
  rw [longInt_run_over cfg pos (dv 0 (c :: pre)) fp e rest f
    (fun g hg => ⟨(hfp g hg).1, (hfp g hg).2, by subst hg; simp only [fracText, List.length_cons] at hfl; omega⟩)
    hwf hov (by
      simp only [ExpPart.text, List.length_cons, List.length_append] at hfl
      omega)
    hstop more 1 _ hdmore (by rw [adv_adv, adv_rest, hrest]; exact drop_cons_pre _ _ _ _)
    (by simp) (by simpa using hf) (by unfold i32Max at *; omega)]
  generalize (scanTail fp (some e) (dv 0 (c :: pre)) ((1 + more.length : Nat) : Int)).1 = S
  cases hz : (S != 0 && expSignPos e.sign) <;>
    simp only [overflowOut, hz, Bool.false_eq_true, if_true, if_false, errAt, pure_apply,
      Number.ofF64, adv_adv, endPeek_adv, List.length_cons, List.length_append] <;>
    first | rfl | (simp only [Nat.add_comm, Nat.add_left_comm, Nat.add_assoc])

/-- A literal whose integer part fits `u64`, exponent beyond `i32`. -/
theorem scan_fits_over (cfg : Cfg) (fuel : Nat) (pos : Bool) (ip : List UInt8)
    (fp : Option (List UInt8)) (e : ExpPart) (rest : List UInt8) (s : St)
    (hipne : ip ≠ []) (hipd : AllDigits ip) (hfp : ∀ g, fp = some g → g ≠ [] ∧ AllDigits g)
    (hwf : e.WF) (hov : i32Max < e.abs)
    (hrest : s.rd.rest = ip ++ (fracText fp ++ (e.text ++ rest))) (hstop : ScanStop rest)
    (hf : rest = [] → s.rd.faulty = false) (hI : dv 0 ip ≤ u64Max)
    (hfuel : (ip ++ (fracText fp ++ e.text)).length + 1 ≤ fuel) :
    parseNumLiteral cfg fuel 10 pos s =
      overflowOut (Number.flt (signed pos 0)) (scanTail fp (some e) (dv 0 ip) 0).1
        (expSignPos e.sign)
        (adv s (ip.length + ((fracText fp).length + (1 + e.sign.length + ovfAt 0 e.digits))) false)
        (adv s (ip ++ (fracText fp ++ e.text)).length (endPeek s rest)) := by
  cases ip with
  | nil => exact absurd rfl hipne
  | cons c cs =>
    simp only [List.cons_append, List.length_cons, List.length_append] at hrest hfuel
    obtain ⟨f0, rfl⟩ : ∃ f0, fuel = f0 + cs.length + 1 := ⟨fuel - cs.length - 1, by omega⟩
    have e10 : ((10 : Nat) != 10) = false := by decide
    cases fp with
    | some g =>
      obtain ⟨hgne, hgd⟩ := hfp g rfl
      simp only [fracText, List.cons_append, List.length_cons] at hrest hfuel
      rw [numLiteral_run cfg pos c cs 46 _ f0 s hipd (by decide) hrest hI]
      have hr1 : (adv s (cs.length + 1) (s.rd.mode == .io)).rd.rest = 46 :: (g ++ (e.text ++ rest)) := by
        simp [hrest]
      have hr0 : (adv (adv s (cs.length + 1) (s.rd.mode == .io)) 0
          ((adv s (cs.length + 1) (s.rd.mode == .io)).rd.peeked ||
            (adv s (cs.length + 1) (s.rd.mode == .io)).rd.mode == .io)).rd.rest =
          46 :: (g ++ (e.text ++ rest)) := by simp [hrest]
      unfold parseNumTail
      simp only [bind_apply, pk_cons _ _ _ hr1, beq_self_eq_true, if_true, e10, Bool.false_eq_true,
        if_false]
      rw [parseDecimal_over cfg pos _ 0 g e rest (f0 + 1) _ hgne hgd hwf hov
        (by
          simp only [ExpPart.text, List.length_cons, List.length_append] at hfuel
          omega)
        hr0 hstop (by simpa using hf) (by omega)]
      simp only [scanTail]
      generalize (fracScan g (dv 0 (c :: cs)) 0 0).1 = S
      cases hz : (S != 0 && expSignPos e.sign) <;>
        simp only [overflowOut, hz, Bool.false_eq_true, if_true, if_false, errAt, pure_apply,
          Number.ofF64, adv_adv, endPeek_adv, List.length_cons, List.length_append, fracText] <;>
        first | rfl | (simp only [Nat.zero_add, Nat.add_comm, Nat.add_left_comm, Nat.add_assoc])
    | none =>
      obtain ⟨hm, hs, hne, hd⟩ := hwf
      obtain ⟨m1, -, m3, m4⟩ := mark_facts e.mark hm
      have hte : e.text = e.mark :: (e.sign ++ e.digits) := rfl
      simp only [fracText, List.nil_append, List.length_nil] at hrest hfuel
      have hrest' := hrest
      rw [hte] at hrest'
      simp only [List.cons_append, List.append_assoc] at hrest'
      rw [numLiteral_run cfg pos c cs e.mark _ f0 s hipd m3 hrest' hI]
      have hr1 : (adv s (cs.length + 1) (s.rd.mode == .io)).rd.rest =
          e.mark :: (e.sign ++ (e.digits ++ rest)) := by simp [hrest']
      have hr0 : (adv (adv s (cs.length + 1) (s.rd.mode == .io)) 0
          ((adv s (cs.length + 1) (s.rd.mode == .io)).rd.peeked ||
            (adv s (cs.length + 1) (s.rd.mode == .io)).rd.mode == .io)).rd.rest =
          e.mark :: (e.sign ++ (e.digits ++ rest)) := by simp [hrest']
      unfold parseNumTail
      simp only [bind_apply, pk_cons _ _ _ hr1, m4, m1, if_true, e10, Bool.false_eq_true, if_false]
      rw [parseExponent_over cfg pos _ 0 e.mark e.sign e.digits rest (f0 + 1) _ hs hd hr0 hstop.1
        (by simpa using hf) hov
        (by
          simp only [hte, List.length_cons, List.length_append] at hfuel
          omega)]
      simp only [scanTail]
      generalize dv 0 (c :: cs) = S
      cases hz : (S != 0 && expSignPos e.sign) <;>
        simp only [overflowOut, hz, Bool.false_eq_true, if_true, if_false, errAt, pure_apply,
          Number.ofF64, adv_adv, endPeek_adv, List.length_cons, List.length_append, fracText,
          List.length_nil, hte] <;>
        first | rfl | (simp only [Nat.zero_add, Nat.add_comm, Nat.add_left_comm, Nat.add_assoc])

/-- the significand the scanners keep does not depend on the exponent part -/
theorem scanT_fst_ex (ip : List UInt8) (fp : Option (List UInt8)) (ex ex' : Option ExpPart) :
    (DecLit.scanT ⟨ip, fp, ex⟩).1 = (DecLit.scanT ⟨ip, fp, ex'⟩).1 := by
  cases fp <;> rfl

/-- **scan_over.**  `parse_num_literal` on a decimal literal whose written exponent does not fit
    `i32`, in closed form: with `S` the significand the scanners keep (`L.scanT.1`),
    `NumberOutOfRange` raised right after the exponent digit at which the accumulator overflows
    if `S ≠ 0` and the exponent is positive; otherwise the whole literal is consumed and the
    result is a zero with the sign of the literal.  All source modes, both builds (the float
    conversion is never reached).  `L.ip.length ≤ i32Max`: beyond that `parse_long_integer`
    panics on its exponent counter (known, see `Decimals.longInt_run`). -/
theorem scan_over (cfg : Cfg) (fuel : Nat) (pos : Bool) (L : DecLit) (e : ExpPart)
    (rest : List UInt8) (s : St)
    (hipne : L.ip ≠ []) (hipd : AllDigits L.ip)
    (hfp : ∀ g, L.fp = some g → g ≠ [] ∧ AllDigits g) (hex : L.ex = some e) (hwf : e.WF)
    (hov : i32Max < e.abs)
    (hrest : s.rd.rest = L.text ++ rest) (hstop : ScanStop rest)
    (hf : rest = [] → s.rd.faulty = false)
    (hlen : L.ip.length ≤ i32Max) (hfuel : L.text.length + 1 ≤ fuel) :
    parseNumLiteral cfg fuel 10 pos s =
      overflowOut (Number.flt (signed pos 0)) L.scanT.1 (expSignPos e.sign)
        (adv s (L.ip.length + ((fracText L.fp).length + (1 + e.sign.length + ovfAt 0 e.digits)))
          false)
        (adv s L.text.length (endPeek s rest)) := by
  obtain ⟨ip, fp, ex⟩ := L
  simp only [] at hipne hipd hfp hex hlen
  subst hex
  simp only [DecLit.text, expText] at hrest hfuel ⊢
  rcases int_split ip 0 (by decide) with hfit | ⟨pre, d, more, hsplit, hpre, hovf⟩
  · rw [scan_fits_over cfg fuel pos ip fp e rest s hipne hipd hfp hwf hov
      (by simpa using hrest) hstop hf hfit hfuel]
    simp only [DecLit.scanT, intScan_fits ip 0 hipd hfit, Int.natCast_zero]
  · subst hsplit
    cases pre with
    | nil =>
      exfalso
      have := (isDigit_val d (hipd d (by simp))).1
      simp only [dv_nil] at hovf
      unfold u64Max at hovf; omega
    | cons c pre =>
      simp only [List.length_append, List.length_cons] at hlen
      rw [scan_long_over cfg fuel pos c pre d more fp e rest s hipd hfp hwf hov
        (by simpa using hrest) hstop hf hpre hovf (by omega) hfuel]
      simp only [DecLit.scanT, intScan_split (c :: pre) 0 d more hipd hpre hovf]
      have e1 : ((1 + more.length : Nat) : Int) = ((more.length + 1 : Nat) : Int) := by omega
      rw [e1]

#print axioms scan_over

end ExpOverflow
end Lexpr
