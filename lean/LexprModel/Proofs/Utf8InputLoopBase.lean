/-
  Utf8InputLoopBase — C17, input clause for the Emacs Lisp string syntax: the tools.

  * the automaton: `WF2` (inside a sequence only continuation bytes are accepted), `Head` (a text
    that starts with a byte that is not a continuation byte dies inside a sequence), and the
    synchronisation lemmas `sync_*`: the automaton run over the consumed input and the run over the
    scratch buffer stay EQUAL (as `Option` values: same state, or both dead);
  * `EscShape`: what one escape consumes and appends, `parseElispEscape_shape` (all arms);
  * the instrumented loop `parseElispStrT` and its agreement with `parseElispStr`.
-/
import LexprModel.Proofs.Utf8Parse
namespace Lexpr
namespace Parse
namespace InLoop
open Utf8 Utf8.U8 Parse.U8

/-! ### the automaton -/

/-- Inside a sequence exactly continuation bytes (a sub-range of 0x80..0xBF) are accepted. -/
def WF2 : Utf8.St → Prop
  | .idle => True
  | .mid _ lo hi => 0x80 ≤ lo ∧ hi ≤ 0xBF

theorem step_wf2 {s s' : Utf8.St} {b : UInt8} (hs : WF2 s) (h : step s b = some s') : WF2 s' := by
  cases s with
  | idle =>
    simp only [step] at h
    repeat' (split at h)
    all_goals (first | (cases h; first | trivial | exact ⟨by decide, by decide⟩) | cases h)
  | mid need lo hi =>
    simp only [step] at h
    split at h
    · split at h <;> cases h <;> first | trivial | exact ⟨by decide, by decide⟩
    · cases h

theorem run_wf2 {s s' : Utf8.St} {bs : List UInt8} (hs : WF2 s) (h : run s bs = some s') :
    WF2 s' := by
  induction bs generalizing s with
  | nil => simp [run] at h; subst h; exact hs
  | cons b bs ih =>
    simp only [run] at h
    cases hb : step s b with
    | none => simp [hb] at h
    | some s1 => simp only [hb] at h; exact ih (step_wf2 hs hb) h

/-- a byte that is not a continuation byte is rejected inside a sequence -/
theorem step_mid_noncont {need : Nat} {lo hi b : UInt8} (hs : WF2 (.mid need lo hi))
    (hb : isCont b = false) : step (.mid need lo hi) b = none := by
  simp only [step]
  split
  · rename_i hc
    exfalso
    simp only [Bool.and_eq_true, decide_eq_true_eq] at hc
    obtain ⟨h1, h2⟩ := hs
    have : isCont b = true := by
      simp only [isCont, Bool.and_eq_true, decide_eq_true_eq]
      rw [UInt8.le_iff_toNat_le] at h1 h2 hc
      rw [UInt8.le_iff_toNat_le] at hc
      rw [UInt8.le_iff_toNat_le, UInt8.lt_iff_toNat_lt]
      have := hc.1; have := hc.2
      simp at h1 h2 ⊢
      omega
    rw [this] at hb; cases hb
  · rfl

/-- starts with a byte that is not a continuation byte -/
def Head (t : List UInt8) : Prop := ∃ b r, t = b :: r ∧ isCont b = false

theorem run_mid_head {s : Utf8.St} {t : List UInt8} (hs : WF2 s) (hne : s ≠ .idle) (ht : Head t) :
    run s t = none := by
  obtain ⟨b, r, rfl, hb⟩ := ht
  cases s with
  | idle => exact absurd rfl hne
  | mid need lo hi => simp only [run, step_mid_noncont hs hb]

theorem isCont_ascii {b : UInt8} (hb : b < 0x80) : isCont b = false := by
  simp only [isCont, Bool.and_eq_false_iff, decide_eq_false_iff_not]
  left
  rw [UInt8.le_iff_toNat_le]
  rw [UInt8.lt_iff_toNat_lt] at hb
  simp at hb ⊢
  omega

theorem Head.ascii {b : UInt8} (r : List UInt8) (hb : b < 0x80) : Head (b :: r) :=
  ⟨b, r, rfl, isCont_ascii hb⟩

theorem step_idle_noncont_all : ∀ n < 256,
    (step .idle (UInt8.ofNat n)).isSome = true → isCont (UInt8.ofNat n) = false := by
  decide +kernel

/-- a byte the automaton accepts in state `idle` is not a continuation byte -/
theorem step_idle_noncont {b : UInt8} {s : Utf8.St} (h : step .idle b = some s) :
    isCont b = false := by
  have := step_idle_noncont_all b.toNat (UInt8.toNat_lt b)
  rw [UInt8.ofNat_toNat, h] at this
  exact this rfl

/-- a non-empty well-formed text starts with a byte that is not a continuation byte -/
theorem Head.of_valid {t : List UInt8} (hne : t ≠ []) (hv : valid t = true) : Head t := by
  cases t with
  | nil => exact absurd rfl hne
  | cons b r =>
    rw [valid_iff] at hv
    obtain ⟨s', hs, _⟩ := run_cons_some hv
    exact ⟨b, r, rfl, step_idle_noncont hs⟩

/-- **synchronisation**, the general step: the consumed input `x` and the buffer `y` are in the
    same automaton state (or both dead); appending `t` to the one and `u` to the other keeps that,
    when both start with a byte that is not a continuation byte and do the same from `idle`. -/
theorem sync_step {x y t u : List UInt8} (h : run .idle x = run .idle y)
    (ht : Head t) (hu : Head u) (htu : run .idle t = run .idle u) :
    run .idle (x ++ t) = run .idle (y ++ u) := by
  rw [run_append, run_append, h]
  cases hy : run .idle y with
  | none => rfl
  | some s =>
    have hwf : WF2 s := run_wf2 (s := .idle) trivial hy
    simp only [Option.bind_some]
    by_cases hs : s = .idle
    · subst hs; exact htu
    · rw [run_mid_head hwf hs ht, run_mid_head hwf hs hu]

/-- the same byte on both sides -/
theorem sync_push {x y : List UInt8} (c : UInt8) (h : run .idle x = run .idle y) :
    run .idle (x ++ [c]) = run .idle (y ++ [c]) := by
  rw [run_append, run_append, h]

/-- text that leaves nothing in the buffer (the escaped blank): harmless when the buffer is
    complete -/
theorem sync_drop {x y t : List UInt8} (h : run .idle x = run .idle y) (hy : valid y = true)
    (ht : run .idle t = some .idle) : run .idle (x ++ t) = run .idle y := by
  rw [valid_iff] at hy
  rw [run_append, h, hy]
  exact ht

/-- a backslash, ASCII text / well-formed output -/
theorem sync_text {x y t u : List UInt8} (h : run .idle x = run .idle y)
    (ht : Ascii t) (hu : u ≠ []) (hv : valid u = true) :
    run .idle (x ++ 92 :: t) = run .idle (y ++ u) := by
  have h92 : (92 : UInt8) < 0x80 := by decide
  refine sync_step h (Head.ascii t h92) (Head.of_valid hu hv) ?_
  rw [run_idle_ascii (Ascii.cons h92 ht), (valid_iff _).mp hv]

/-- a backslash and a byte that stands for itself -/
theorem sync_raw {x y : List UInt8} {c : UInt8} (h : run .idle x = run .idle y)
    (hc : isCont c = false) : run .idle (x ++ [92, c]) = run .idle (y ++ [c]) := by
  have h92 : (92 : UInt8) < 0x80 := by decide
  refine sync_step h (Head.ascii _ h92) ⟨c, [], rfl, hc⟩ ?_
  rw [run_cons_ascii_idle _ h92]

theorem encode_ne_nil (n : Nat) : encode n ≠ [] := by
  unfold encode
  split
  · simp
  · split
    · simp
    · split <;> simp

/-! ### one escape -/

/-- What one escape does: `c` is the byte after the backslash, `t` the further bytes consumed,
    `out` what is appended to the buffer, `k` the kind it reports. -/
inductive EscShape : UInt8 → List UInt8 → List UInt8 → ElispEscape → Prop
  /-- `\ ` is ignored -/
  | blank : EscShape 32 [] [] .indeterminate
  /-- ASCII text that denotes a non-empty well-formed text -/
  | text {c : UInt8} {t out : List UInt8} {k : ElispEscape} : c < 0x80 → Ascii t → out ≠ [] →
      valid out = true → k ≠ .unibyte → EscShape c t out k
  /-- a numeric escape (ASCII text) that denotes one byte -/
  | byte {c : UInt8} {t : List UInt8} (b : UInt8) : c < 0x80 → Ascii t → EscShape c t [b] .unibyte
  /-- any other byte except a continuation byte stands for itself -/
  | raw {c : UInt8} : isCont c = false → EscShape c [] [c] .indeterminate

theorem elispCharEscape_ok {acc acc' : List UInt8} {n : Nat} {k : ElispEscape} {s s' : St}
    (h : elispCharEscape acc n s = .ok (acc', k) s') :
    s' = s ∧ ((k = .multibyte ∧ acc' = acc ++ encode n ∧ isScalar n = true) ∨
      (k = .unibyte ∧ acc' = acc ++ [UInt8.ofNat n])) := by
  unfold elispCharEscape at h
  rcases ite_ok h with ⟨hsc, h⟩ | ⟨_, h⟩
  · rcases ite_ok h with ⟨_, h⟩ | ⟨_, h⟩
    · obtain ⟨h1, h2⟩ := pure_ok h
      cases h1
      exact ⟨h2.symm, Or.inl ⟨rfl, rfl, hsc⟩⟩
    · obtain ⟨h1, h2⟩ := pure_ok h
      cases h1
      exact ⟨h2.symm, Or.inr ⟨rfl, rfl⟩⟩
  · rcases ite_ok h with ⟨_, h⟩ | ⟨_, h⟩
    · obtain ⟨o, s1, _, h⟩ := bind_ok h
      cases o <;> simp [errAt] at h
    · simp [errAt] at h

theorem elispUniCharEscape_ok {acc acc' : List UInt8} {n : Nat} {k : ElispEscape} {s s' : St}
    (h : elispUniCharEscape acc n s = .ok (acc', k) s') :
    s' = s ∧ k = .multibyte ∧ acc' = acc ++ encode n ∧ isScalar n = true := by
  unfold elispUniCharEscape at h
  rcases ite_ok h with ⟨hsc, h⟩ | ⟨_, h⟩
  · obtain ⟨h1, h2⟩ := pure_ok h
    cases h1
    exact ⟨h2.symm, rfl, rfl, hsc⟩
  · simp [errAt] at h

theorem EscShape.scalar {c : UInt8} {t : List UInt8} {n : Nat} (hc : c < 0x80) (ht : Ascii t)
    (hn : isScalar n = true) : EscShape c t (encode n) .multibyte :=
  .text hc ht (encode_ne_nil n) (encode_valid hn) (by decide)

theorem EscShape.charEscape {c : UInt8} {t acc acc' : List UInt8} {n : Nat} {k : ElispEscape}
    (hc : c < 0x80) (ht : Ascii t)
    (h : (k = .multibyte ∧ acc' = acc ++ encode n ∧ isScalar n = true) ∨
      (k = .unibyte ∧ acc' = acc ++ [UInt8.ofNat n])) :
    ∃ out, acc' = acc ++ out ∧ EscShape c t out k := by
  rcases h with ⟨rfl, rfl, hn⟩ | ⟨rfl, rfl⟩
  · exact ⟨_, rfl, .scalar hc ht hn⟩
  · exact ⟨_, rfl, .byte _ hc ht⟩

/-- the arm of the escaped blank: nothing is appended, nothing more is consumed, and the byte that
    follows (if there is one) is not a continuation byte -/
theorem blank_arm_ok {acc acc' : List UInt8} {k : ElispEscape} {s s' : St}
    (h : (do
      match (← peek) with
      | some b => if 128 ≤ b && b ≤ 191 then errAt .invalidUnicodeCodePoint
                  else pure (acc, ElispEscape.indeterminate)
      | none => pure (acc, ElispEscape.indeterminate) : P (List UInt8 × ElispEscape)) s
        = .ok (acc', k) s') :
    (acc, ElispEscape.indeterminate) = (acc', k) ∧ s'.rd.rest = s.rd.rest ∧
      (s'.rd.rest = [] ∨ Head s'.rd.rest) := by
  obtain ⟨o, s2, hp, h⟩ := bind_ok h
  obtain ⟨_, hr2, ho⟩ := peek_ok hp
  cases o with
  | none =>
    obtain ⟨h1, h2⟩ := pure_ok h
    subst h2
    refine ⟨h1, hr2, Or.inl ?_⟩
    cases hrs : s.rd.rest with
    | nil => rw [hr2, hrs]
    | cons x xs => rw [hrs] at ho; cases ho
  | some b =>
    dsimp only at h
    rcases ite_ok h with ⟨_, h⟩ | ⟨hb, h⟩
    · simp [errAt] at h
    · obtain ⟨h1, h2⟩ := pure_ok h
      subst h2
      refine ⟨h1, hr2, Or.inr ?_⟩
      cases hrs : s.rd.rest with
      | nil => rw [hrs] at ho; cases ho
      | cons x xs =>
        rw [hrs] at ho
        cases ho
        refine ⟨b, xs, by rw [hr2, hrs], ?_⟩
        cases hcc : isCont b with
        | false => rfl
        | true =>
          exfalso
          apply hb
          simp only [isCont, Bool.and_eq_true, decide_eq_true_eq] at hcc
          simp only [Bool.and_eq_true, decide_eq_true_eq]
          refine ⟨hcc.1, ?_⟩
          have := hcc.2
          rw [UInt8.lt_iff_toNat_lt] at this
          rw [UInt8.le_iff_toNat_le]
          simp at this ⊢
          omega

set_option hygiene false in
local macro "esc_one" : tactic => `(tactic| (
  rcases ite_ok h with ⟨hc, h⟩ | ⟨_, h⟩
  · obtain ⟨h1, h2⟩ := pure_ok h
    cases h1; subst h2
    exact ⟨c, [], _, hr1, rfl,
      .text (by rw [eq_of_beq hc]; decide) Ascii.nil (by simp) (valid_ascii (by decide)) (by decide)⟩))

/-- **One escape, all arms**: the bytes consumed after the backslash are `c :: t`, the buffer
    grows by `out`, and the four are related by `EscShape`. -/
theorem parseElispEscape_shape {fuel : Nat} {acc acc' : List UInt8} {k : ElispEscape} {s s' : St}
    (h : parseElispEscape fuel acc s = .ok (acc', k) s') :
    ∃ c t out, s.rd.rest = c :: (t ++ s'.rd.rest) ∧ acc' = acc ++ out ∧ EscShape c t out k := by
  unfold parseElispEscape at h
  obtain ⟨c, s1, hn, h⟩ := bind_ok h
  obtain ⟨hm1, hr1⟩ := nextOrEof_ok hn
  esc_one   -- `"`
  esc_one   -- `\`
  -- blank
  rcases ite_ok h with ⟨hc, h⟩ | ⟨_, h⟩
  · obtain ⟨hk, hs2, _⟩ := blank_arm_ok h
    cases hk
    rw [eq_of_beq hc, ← hs2] at hr1
    exact ⟨32, [], [], hr1, by simp, .blank⟩
  esc_one; esc_one; esc_one; esc_one; esc_one; esc_one; esc_one; esc_one; esc_one; esc_one
  -- `^`
  rcases ite_ok h with ⟨hc, h⟩ | ⟨_, h⟩
  · obtain ⟨k0, s2, hk, h⟩ := bind_ok h
    obtain ⟨hm2, hr2⟩ := nextOrEof_ok hk
    rcases ite_ok h with ⟨hl, h⟩ | ⟨_, h⟩
    · obtain ⟨h1, h2⟩ := pure_ok h
      cases h1; subst h2
      refine ⟨c, [k0], _, by rw [hr1, hr2]; rfl, rfl,
        .text (by rw [eq_of_beq hc]; decide) (Ascii.cons (lower_ascii hl) Ascii.nil) (by simp) ?_
          (by decide)⟩
      have hl' := hl
      simp only [isAsciiLower, Bool.and_eq_true, decide_eq_true_eq, UInt8.le_iff_toNat_le] at hl'
      apply valid_ascii
      intro b hb
      simp only [List.mem_singleton] at hb
      subst hb
      rw [UInt8.lt_iff_toNat_lt, UInt8.toNat_sub]
      have := hl'.1; have := hl'.2
      simp at *
      omega
    · simp [errAt] at h
  -- `N{U+…}`
  rcases ite_ok h with ⟨hc, h⟩ | ⟨_, h⟩
  · have hcA : c < 0x80 := by rw [eq_of_beq hc]; decide
    obtain ⟨b1, s2, hk1, h⟩ := bind_ok h
    obtain ⟨hm2, hr2⟩ := nextOrEof_ok hk1
    rcases ite_ok h with ⟨_, h⟩ | ⟨hb1, h⟩
    · simp [errAt] at h
    obtain ⟨b2, s3, hk2, h⟩ := bind_ok h
    obtain ⟨hm3, hr3⟩ := nextOrEof_ok hk2
    rcases ite_ok h with ⟨_, h⟩ | ⟨hb2, h⟩
    · simp [errAt] at h
    obtain ⟨b3, s4, hk3, h⟩ := bind_ok h
    obtain ⟨hm4, hr4⟩ := nextOrEof_ok hk3
    rcases ite_ok h with ⟨_, h⟩ | ⟨hb3, h⟩
    · simp [errAt] at h
    obtain ⟨n, s5, hx, h⟩ := bind_ok h
    obtain ⟨_, pre, hpre, hr5⟩ := decodeElispHexEscape_asuf _ hx
    have hb1A : b1 < 0x80 := by rw [ne_false_eq hb1]; decide
    have hb2A : b2 < 0x80 := by rw [ne_false_eq hb2]; decide
    have hb3A : b3 < 0x80 := by rw [ne_false_eq hb3]; decide
    have tail : ∀ {s6 : St}, s6.rd.rest = s5.rd.rest →
        (do let r ← elispUniCharEscape acc n
            let b4 ← nextOrEof
            if b4 != 125 then errAt .invalidEscape else pure r : P _) s6 = .ok (acc', k) s' →
        ∃ c t out, s.rd.rest = c :: (t ++ s'.rd.rest) ∧ acc' = acc ++ out ∧ EscShape c t out k := by
      intro s6 h6 h
      obtain ⟨⟨a1, k1⟩, s7, hu, h⟩ := bind_ok h
      obtain ⟨rfl, rfl, rfl, hsc⟩ := elispUniCharEscape_ok hu
      obtain ⟨b4, s8, hk4, h⟩ := bind_ok h
      obtain ⟨_, hr8⟩ := nextOrEof_ok hk4
      rcases ite_ok h with ⟨_, h⟩ | ⟨hb4, h⟩
      · simp [errAt] at h
      obtain ⟨h1, h2⟩ := pure_ok h
      cases h1; subst h2
      have hb4A : b4 < 0x80 := by rw [ne_false_eq hb4]; decide
      refine ⟨c, b1 :: b2 :: b3 :: (pre ++ [b4]), _, ?_, rfl, .scalar hcA
        (Ascii.cons hb1A (Ascii.cons hb2A (Ascii.cons hb3A
          (hpre.append (Ascii.cons hb4A Ascii.nil))))) hsc⟩
      rw [hr1, hr2, hr3, hr4, hr5, ← h6, hr8]
      simp
    rcases ite_ok h with ⟨_, h⟩ | ⟨_, h⟩
    · obtain ⟨o, s6, hp, h⟩ := bind_ok h
      obtain ⟨_, hr6, _⟩ := peek_ok hp
      cases o with
      | none => simp [errAt] at h
      | some x => exact tail hr6 h
    · exact tail rfl h
  -- `u`
  rcases ite_ok h with ⟨hc, h⟩ | ⟨_, h⟩
  · obtain ⟨n, s2, hx, h⟩ := bind_ok h
    obtain ⟨_, pre, hpre, hr2⟩ := decodeElispUniEscape_asuf _ hx
    obtain ⟨rfl, rfl, rfl, hsc⟩ := elispUniCharEscape_ok h
    exact ⟨c, pre, _, by rw [hr1, hr2], rfl, .scalar (by rw [eq_of_beq hc]; decide) hpre hsc⟩
  -- `U`
  rcases ite_ok h with ⟨hc, h⟩ | ⟨_, h⟩
  · obtain ⟨n, s2, hx, h⟩ := bind_ok h
    obtain ⟨_, pre, hpre, hr2⟩ := decodeElispUniEscape_asuf _ hx
    obtain ⟨rfl, rfl, rfl, hsc⟩ := elispUniCharEscape_ok h
    exact ⟨c, pre, _, by rw [hr1, hr2], rfl, .scalar (by rw [eq_of_beq hc]; decide) hpre hsc⟩
  -- `x`
  rcases ite_ok h with ⟨hc, h⟩ | ⟨_, h⟩
  · obtain ⟨n, s2, hx, h⟩ := bind_ok h
    obtain ⟨_, pre, hpre, hr2⟩ := decodeElispHexEscape_asuf _ hx
    obtain ⟨rfl, hk⟩ := elispCharEscape_ok h
    obtain ⟨out, ho, hsh⟩ := EscShape.charEscape (c := c) (by rw [eq_of_beq hc]; decide) hpre hk
    exact ⟨c, pre, out, by rw [hr1, hr2], ho, hsh⟩
  -- octal
  rcases ite_ok h with ⟨hc, h⟩ | ⟨_, h⟩
  · obtain ⟨n, s2, hx, h⟩ := bind_ok h
    obtain ⟨_, pre, hpre, hr2⟩ := decodeElispOctalEscape_asuf _ hx
    obtain ⟨rfl, hk⟩ := elispCharEscape_ok h
    obtain ⟨out, ho, hsh⟩ := EscShape.charEscape (c := c) (octal_range_ascii hc) hpre hk
    exact ⟨c, pre, out, by rw [hr1, hr2], ho, hsh⟩
  -- a continuation byte: error; anything else stands for itself
  rcases ite_ok h with ⟨_, h⟩ | ⟨hcont, h⟩
  · simp [errAt] at h
  · obtain ⟨h1, h2⟩ := pure_ok h
    cases h1; subst h2
    refine ⟨c, [], [c], hr1, rfl, .raw ?_⟩
    cases hcc : isCont c with
    | false => rfl
    | true =>
      exfalso
      apply hcont
      simp only [isCont, Bool.and_eq_true, decide_eq_true_eq] at hcc
      simp only [Bool.and_eq_true, decide_eq_true_eq]
      refine ⟨hcc.1, ?_⟩
      have := hcc.2
      rw [UInt8.lt_iff_toNat_lt] at this
      rw [UInt8.le_iff_toNat_le]
      simp at this ⊢
      omega

/-- **The escaped blank** (the arm changed by the repair): a successful escape whose first byte is
    a blank appends nothing, consumes that byte only, and leaves an input that is empty or starts
    with a byte that is not a continuation byte. -/
theorem parseElispEscape_blank_next {fuel : Nat} {acc acc' : List UInt8} {k : ElispEscape}
    {s s' : St} {r : List UInt8} (h : parseElispEscape fuel acc s = .ok (acc', k) s')
    (hb : s.rd.rest = 32 :: r) :
    acc' = acc ∧ k = .indeterminate ∧ s'.rd.rest = r ∧ (r = [] ∨ Head r) := by
  unfold parseElispEscape at h
  obtain ⟨c, s1, hn, h⟩ := bind_ok h
  obtain ⟨_, hr1⟩ := nextOrEof_ok hn
  rw [hb] at hr1
  cases hr1
  rcases ite_ok h with ⟨hc, _⟩ | ⟨_, h⟩
  · exact absurd hc (by decide)
  rcases ite_ok h with ⟨hc, _⟩ | ⟨_, h⟩
  · exact absurd hc (by decide)
  rcases ite_ok h with ⟨_, h⟩ | ⟨hc, _⟩
  · obtain ⟨hk, hs2, hhead⟩ := blank_arm_ok h
    cases hk
    rw [hs2] at hhead
    exact ⟨rfl, rfl, hs2, hhead⟩
  · exact absurd (by decide) hc

end InLoop
end Parse
end Lexpr
