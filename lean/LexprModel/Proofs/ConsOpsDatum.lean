/-
  Correctness and call depth of the hand-written `Clone` / `PartialEq` / `Drop` of `SpanInfo` and of
  the derived `Clone` / `PartialEq` of `Datum` (model: LexprModel/ConsOpsDatum.lean).

    cloneS_eq           cloneS s = .ok s                           every span tree
    cloneS_no_panic
    eqS_iff             eqS a b = true ↔ a = b                      (no floats in spans: real equality)
    eqS_refl, eqS_symm
    cloneDatum_eq       cloneDatum d = .ok d
    eqDatum_iff         eqDatum a b = true ↔ Value.beq a.value b.value = true ∧ a.info = b.info
    cloneSI_eq          cloneSI s = (.ok s, loopedS s)              exact depth
    eqSI_spec           erasure and depth ≤ loopedS of either side
    dropSD_loop         dropSD tied to `SpanInfo.dropLoop`
    dropSD_le           dropSD s ≤ 2 * loopedS s
    loopedS_chain       a chain of n prim cars: loopedS = 2 for every n  (independence of the length)
-/
import LexprModel.ConsOpsDatum
import LexprModel.ConsOpsDepth
import LexprModel.Proofs.ConsOps
namespace Lexpr
namespace ConsOps
open Parse

/-- the chain of `Cons` nodes with spans and cars `ys`, ending in `t` -/
def chainS : List (Span × SpanInfo) → SpanInfo → SpanInfo
  | [], t => t
  | (sp, a) :: ys, t => .cons sp a (chainS ys t)

theorem chainS_snoc (ys : List (Span × SpanInfo)) (sp : Span) (c t : SpanInfo) :
    chainS (ys ++ [(sp, c)]) t = chainS ys (.cons sp c t) := by
  induction ys with
  | nil => rfl
  | cons y ys ih => obtain ⟨s, a⟩ := y; simp [chainS, ih]

theorem nodeAt_chainS (ys : List (Span × SpanInfo)) (t : SpanInfo) :
    SI.nodeAt (chainS ys t) ys.length = some t := by
  induction ys with
  | nil => cases t <;> rfl
  | cons y ys ih => obtain ⟨s, a⟩ := y; simpa [chainS, SI.nodeAt] using ih

theorem setSlot1At_chainS (ys : List (Span × SpanInfo)) (sp : Span) (c d x : SpanInfo) :
    SI.setSlot1At (chainS ys (.cons sp c d)) ys.length x = some (chainS ys (.cons sp c x)) := by
  induction ys with
  | nil => rfl
  | cons y ys ih => obtain ⟨s, a⟩ := y; simp [chainS, SI.setSlot1At, ih]

theorem finishS_chainS (ys : List (Span × SpanInfo)) (sp : Span) (c d t : SpanInfo) :
    finishS (chainS ys (.cons sp c d)) ys.length (.ok t) = .ok (chainS ys (.cons sp c t)) := by
  simp [finishS, nodeAt_chainS, setSlot1At_chainS]

/-! ### Clone -/

mutual
/-- **cloneS_eq**: the clone of a span tree is the tree itself. -/
theorem cloneS_eq : ∀ s : SpanInfo, cloneS s = .ok s
  | .prim sp => by simp [cloneS]
  | .vec sp xs => by simp [cloneS, cloneSList_eq xs, Out.map]
  | .cons sp car cdr => by
    have h := cloneSWhile_eq cdr [] sp car
    simp only [chainS, List.length_nil] at h
    simp only [cloneS, cloneS_eq car, h]
theorem cloneSWhile_eq : ∀ (rest : SpanInfo) (ys : List (Span × SpanInfo)) (sp : Span) (c : SpanInfo),
    cloneSWhile (chainS ys (cellS sp c)) ys.length rest = .ok (chainS ys (.cons sp c rest))
  | .cons sp' car cdr, ys, sp, c => by
    have ih := cloneSWhile_eq cdr (ys ++ [(sp, c)]) sp' car
    simp only [chainS_snoc, List.length_append, List.length_cons, List.length_nil,
      Nat.zero_add] at ih
    simp only [cloneSWhile, cellS, nodeAt_chainS, cloneS_eq car, setSlot1At_chainS] at ih ⊢
    exact ih
  | .vec sp' xs, ys, sp, c => by
    simp only [cloneSWhile, cellS, cloneSList_eq xs, Out.map, finishS_chainS]
  | .prim sp', ys, sp, c => by
    simp only [cloneSWhile, cellS, finishS_chainS]
theorem cloneSList_eq : ∀ xs : List SpanInfo, cloneSList xs = .ok xs
  | [] => by simp [cloneSList]
  | x :: xs => by simp [cloneSList, cloneS_eq x, cloneSList_eq xs, Out.map]
end

theorem cloneS_no_panic (s : SpanInfo) : (cloneS s).isOk = true := by simp [cloneS_eq, Out.isOk]

/-- **cloneDatum_eq**: cloning a datum gives the same value and the same span tree. -/
theorem cloneDatum_eq (d : Datum) : cloneDatum d = .ok d := by
  simp [cloneDatum, clone_eq, cloneS_eq]

/-! ### PartialEq -/

mutual
/-- **eqS_iff**: the hand-written comparison of span trees decides equality. -/
theorem eqS_iff : ∀ a b : SpanInfo, eqS a b = true ↔ a = b
  | .prim x, b => by cases b <;> simp [eqS]
  | .vec x xs, b => by
    cases b with
    | vec y ys => simp [eqS, eqSList_iff xs ys]
    | prim _ => simp [eqS]
    | cons _ _ _ => simp [eqS]
  | .cons x xa xd, b => by
    cases b with
    | cons y ya yd =>
      have h1 := eqS_iff xa ya
      have h2 := eqS_iff xd yd
      simp only [eqS]
      by_cases hx : x = y
      · by_cases ha : eqS xa ya = true
        · have e := h1.mp ha
          subst e; subst hx
          simp [ha, h2]
        · have : ¬ xa = ya := fun e => ha (h1.mpr e)
          simp [ha, this]
      · simp [hx]
    | prim _ => simp [eqS]
    | vec _ _ => simp [eqS]
theorem eqSList_iff : ∀ xs ys : List SpanInfo, eqSList xs ys = true ↔ xs = ys
  | [], ys => by cases ys <;> simp [eqSList]
  | x :: xs, ys => by
    cases ys with
    | nil => simp [eqSList]
    | cons y ys => simp [eqSList, eqS_iff x y, eqSList_iff xs ys]
end

theorem eqS_refl (s : SpanInfo) : eqS s s = true := (eqS_iff s s).mpr rfl

theorem eqS_symm (a b : SpanInfo) : eqS a b = eqS b a := by
  by_cases h : a = b
  · subst h; rfl
  · have h' : ¬ b = a := fun e => h e.symm
    have e1 : eqS a b = false := by
      cases hh : eqS a b with
      | true => exact absurd ((eqS_iff a b).mp hh) h
      | false => rfl
    have e2 : eqS b a = false := by
      cases hh : eqS b a with
      | true => exact absurd ((eqS_iff b a).mp hh) h'
      | false => rfl
    rw [e1, e2]

/-- **eqDatum_iff**: two datums are `==` exactly when their values are (structural, IEEE on floats)
    and their span trees are identical. -/
theorem eqDatum_iff (a b : Datum) :
    eqDatum a b = true ↔ Value.beq a.value b.value = true ∧ a.info = b.info := by
  simp [eqDatum, eqLoop_iff, eqS_iff]

/-- the clone of a datum with a NaN-free value compares equal to it -/
theorem cloneDatum_eqDatum (d : Datum) (h : nanFree d.value = true) :
    ∃ c, cloneDatum d = .ok c ∧ eqDatum d c = true :=
  ⟨d, cloneDatum_eq d, (eqDatum_iff d d).mpr ⟨beq_refl d.value h, rfl⟩⟩

/-! ### depth: Clone -/

mutual
theorem cloneSI_eq : ∀ s : SpanInfo, cloneSI s = (.ok s, loopedS s)
  | .prim sp => by simp [cloneSI, loopedS]
  | .vec sp xs => by simp [cloneSI, cloneSListI_eq xs, Out.map, loopedS]
  | .cons sp car cdr => by
    have h := cloneSWhileI_eq cdr [] sp car (loopedS car)
    simp only [chainS, List.length_nil] at h
    simp only [cloneSI, cloneSI_eq car, h, loopedS]
theorem cloneSWhileI_eq : ∀ (rest : SpanInfo) (ys : List (Span × SpanInfo)) (sp : Span)
    (c : SpanInfo) (k : Nat),
    cloneSWhileI (chainS ys (cellS sp c)) ys.length rest k
      = (.ok (chainS ys (.cons sp c rest)), max k (loopedSTail rest))
  | .cons sp' car cdr, ys, sp, c, k => by
    have ih := cloneSWhileI_eq cdr (ys ++ [(sp, c)]) sp' car (max k (loopedS car))
    simp only [chainS_snoc, List.length_append, List.length_cons, List.length_nil,
      Nat.zero_add] at ih
    simp only [cloneSWhileI, cellS, nodeAt_chainS, cloneSI_eq car, setSlot1At_chainS, loopedSTail,
      Nat.max_assoc] at ih ⊢
    exact ih
  | .vec sp' xs, ys, sp, c, k => by
    simp only [cloneSWhileI, cellS, cloneSListI_eq xs, Out.map, finishS_chainS, loopedSTail]
  | .prim sp', ys, sp, c, k => by
    simp only [cloneSWhileI, cellS, finishS_chainS, loopedSTail]
theorem cloneSListI_eq : ∀ xs : List SpanInfo, cloneSListI xs = (.ok xs, loopedSList xs)
  | [] => by simp [cloneSListI, loopedSList]
  | x :: xs => by simp [cloneSListI, cloneSI_eq x, cloneSListI_eq xs, Out.map, loopedSList]
end

theorem cloneSI_fst (s : SpanInfo) : (cloneSI s).1 = cloneS s := by rw [cloneSI_eq, cloneS_eq]

/-! ### depth: PartialEq -/

theorem loopedS_pos (s : SpanInfo) : 1 ≤ loopedS s := by cases s <;> simp [loopedS]
theorem loopedSTail_pos : ∀ s : SpanInfo, 1 ≤ loopedSTail s
  | .cons _ a d => by have := loopedS_pos a; simp only [loopedSTail]; omega
  | .vec _ _ => by simp [loopedSTail]
  | .prim _ => by simp [loopedSTail]

mutual
/-- erasure, and: one call of `SpanInfo::eq` reaches at most `loopedS` levels (its own included) on
    either argument; the part below its frame also fits the tail measure -/
theorem eqSI_spec : ∀ a b : SpanInfo,
    (eqSI a b).1 = eqS a b ∧
    (eqSI a b).2 + 1 ≤ loopedS a ∧ (eqSI a b).2 ≤ loopedSTail a ∧
    (eqSI a b).2 + 1 ≤ loopedS b ∧ (eqSI a b).2 ≤ loopedSTail b
  | .prim x, b => by
    have := loopedS_pos b; have := loopedSTail_pos b
    cases b <;> simp_all [eqSI, eqS, loopedS, loopedSTail]
  | .vec x xs, b => by
    have := loopedS_pos b; have := loopedSTail_pos b
    cases b with
    | vec y ys =>
      obtain ⟨l1, l2, l3⟩ := eqSListI_spec xs ys
      simp only [eqSI, eqS, loopedS, loopedSTail]
      by_cases hx : x = y
      · simp only [hx, BEq.rfl, if_true, Bool.true_and]
        exact ⟨l1, by omega, by omega, by omega, by omega⟩
      · have : (x == y) = false := by simpa using hx
        simp [this]
    | prim _ => simp_all [eqSI, eqS, loopedS, loopedSTail]
    | cons _ _ _ => simp_all [eqSI, eqS, loopedS, loopedSTail]
  | .cons x xa xd, b => by
    cases b with
    | cons y ya yd =>
      obtain ⟨h1, h2, h3, h4, h5⟩ := eqSI_spec xa ya
      obtain ⟨t1, t2, t3, t4, t5⟩ := eqSI_spec xd yd
      have pa := loopedS_pos xa; have pb := loopedS_pos ya
      simp only [eqSI, eqS, loopedS, loopedSTail]
      by_cases hx : x = y
      · have hne : (x != y) = false := by simp [hx]
        simp only [hne, Bool.false_eq_true, if_false, Bool.false_or]
        rcases he : eqSI xa ya with ⟨r, k⟩
        rw [he] at h1 h2 h3 h4 h5
        simp only at h1 h2 h3 h4 h5
        cases r with
        | false =>
          simp only [← h1]
          refine ⟨by simp, by omega, by omega, by omega, by omega⟩
        | true =>
          rcases ht : eqSI xd yd with ⟨r', k'⟩
          rw [ht] at t1 t2 t3 t4 t5
          simp only at t1 t2 t3 t4 t5
          simp only [← h1, ← t1]
          refine ⟨by simp, by omega, by omega, by omega, by omega⟩
      · have hne : (x != y) = true := by simpa using hx
        simp only [hne, if_true, Bool.true_or]
        refine ⟨trivial, by omega, by omega, by omega, by omega⟩
    | prim _ =>
      have := loopedS_pos xa
      simp [eqSI, eqS, loopedS, loopedSTail]
    | vec _ _ =>
      have := loopedS_pos xa
      simp [eqSI, eqS, loopedS, loopedSTail]
theorem eqSListI_spec : ∀ xs ys : List SpanInfo,
    (eqSListI xs ys).1 = eqSList xs ys ∧ (eqSListI xs ys).2 ≤ loopedSList xs ∧
      (eqSListI xs ys).2 ≤ loopedSList ys
  | [], ys => by cases ys <;> simp [eqSListI, eqSList]
  | x :: xs, ys => by
    cases ys with
    | nil => simp [eqSListI, eqSList]
    | cons y ys =>
      obtain ⟨h1, h2, _, h4, _⟩ := eqSI_spec x y
      obtain ⟨t1, t2, t3⟩ := eqSListI_spec xs ys
      simp only [eqSListI, eqSList, loopedSList]
      rcases he : eqSI x y with ⟨r, k⟩
      rw [he] at h1 h2 h4
      simp only at h1 h2 h4
      cases r with
      | false => simp only [← h1]; refine ⟨by simp, by omega, by omega⟩
      | true =>
        rcases ht : eqSListI xs ys with ⟨r', k'⟩
        rw [ht] at t1 t2 t3
        simp only at t1 t2 t3
        simp only [← h1, ← t1]
        refine ⟨by simp, by omega, by omega⟩
end

theorem eqSI_fst (a b : SpanInfo) : (eqSI a b).1 = eqS a b := (eqSI_spec a b).1

/-- depth of one comparison (its own frame included) -/
theorem eqS_depth_le (a b : SpanInfo) :
    (eqSI a b).2 + 1 ≤ loopedS a ∧ (eqSI a b).2 + 1 ≤ loopedS b :=
  ⟨(eqSI_spec a b).2.1, (eqSI_spec a b).2.2.2.1⟩

/-! ### depth: Drop -/

theorem dropSD_unlinked (sp : Span) (car : SpanInfo) :
    dropSD (.cons sp car (.prim Span.empty)) = 1 + max (max (dropSD car) 1) 1 := by
  simp [dropSD, chainSD]

/-- `chainSD` is the deepest of the nodes the loop drops -/
theorem chainSD_nodes : ∀ s : SpanInfo, chainSD s = maxOf ((dropSChain s).map dropSD)
  | .cons sp car cdr => by
    simp only [chainSD, dropSChain, List.map_cons, maxOf, dropSD_unlinked, chainSD_nodes cdr]
  | .vec sp xs => by simp [chainSD, dropSChain, maxOf, dropSD]
  | .prim sp => by simp [chainSD, dropSChain, maxOf, dropSD]

/-- **dropSD_loop**: the depth of dropping a span tree is one level plus the deepest of the nodes
    dropped by the loop of `SpanInfo::drop` and of the glue on what the loop leaves in place. -/
theorem dropSD_loop (s : SpanInfo) :
    dropSD s = match (SpanInfo.dropLoop s).1 with
      | .cons _ car rest =>
        1 + max (max (dropSD car) (dropSD rest)) (maxOf ((SpanInfo.dropLoop s).2.map dropSD))
      | .vec _ xs => 1 + dropSListD xs
      | .prim _ => 1 := by
  cases s with
  | prim sp => simp [SpanInfo.dropLoop, unlink, dropSD]
  | vec sp xs => simp [SpanInfo.dropLoop, unlink, dropSD]
  | cons sp car cdr => simp [SpanInfo.dropLoop, unlink, dropSD, chainSD_nodes cdr]

mutual
theorem dropSD_le : ∀ s : SpanInfo, dropSD s ≤ 2 * loopedS s
  | .prim _ => by simp [dropSD, loopedS]
  | .vec _ xs => by have := dropSListD_le xs; simp only [dropSD, loopedS]; omega
  | .cons _ car cdr => by
    have h1 := dropSD_le car
    have h2 := chainSD_le cdr
    have := loopedS_pos car
    simp only [dropSD, loopedS]; omega
theorem chainSD_le : ∀ s : SpanInfo, chainSD s ≤ 2 * loopedSTail s + 1
  | .prim _ => by simp [chainSD, loopedSTail]
  | .vec _ xs => by have := dropSListD_le xs; simp only [chainSD, loopedSTail]; omega
  | .cons _ car cdr => by
    have h1 := dropSD_le car
    have h2 := chainSD_le cdr
    have := loopedS_pos car
    simp only [chainSD, loopedSTail]; omega
theorem dropSListD_le : ∀ xs : List SpanInfo, dropSListD xs ≤ 2 * loopedSList xs
  | [] => by simp [dropSListD]
  | x :: xs => by
    have h1 := dropSD_le x; have h2 := dropSListD_le xs
    simp only [dropSListD, loopedSList]; omega
end

/-! ### independence of the length -/

/-- the span tree of a list of `n + 1` atoms -/
def flatS (n : Nat) : SpanInfo :=
  chainS (List.replicate (n + 1) (Span.empty, .prim Span.empty)) (.prim Span.empty)

theorem loopedSTail_flat (n : Nat) :
    loopedSTail (chainS (List.replicate n (Span.empty, .prim Span.empty)) (.prim Span.empty)) = 1 := by
  induction n with
  | zero => simp [chainS, loopedSTail]
  | succ n ih => simp [List.replicate_succ, chainS, loopedSTail, loopedS, ih]

/-- **loopedS_chain**: whatever the number of elements, clone and `==` of the span tree of a flat list
    stay within 2 levels, and drop within 4. -/
theorem loopedS_chain (n : Nat) :
    (cloneSI (flatS n)).2 = 2 ∧ (eqSI (flatS n) (flatS n)).2 + 1 ≤ 2 ∧ dropSD (flatS n) ≤ 4 := by
  have h : loopedS (flatS n) = 2 := by
    simp [flatS, List.replicate_succ, chainS, loopedS, loopedSTail_flat]
  refine ⟨by rw [cloneSI_eq, h], ?_, ?_⟩
  · have := (eqS_depth_le (flatS n) (flatS n)).1; omega
  · have := dropSD_le (flatS n); omega

end ConsOps
end Lexpr
