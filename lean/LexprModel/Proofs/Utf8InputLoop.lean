/-
  Utf8InputLoop — C17, the clause "input that is not valid UTF-8 inside a string is rejected",
  for the Emacs Lisp string syntax (`parse_elisp_str`, every source: the loop validates with
  `as_str` whatever the source).

  The clause is FALSE of the code and of the model, in exactly three ways, each with a
  kernel-checked witness below (all three confirmed on the real code, /repo c74523a, slice and
  reader sources):

  1. `hi` — a numeric escape `\xHH` / `\ooo` with a value 0x80..0xFF appends that raw byte, which
     can complete a sequence that the raw input leaves open: `"` C3 `\xa9"` is read as `é`
     (the recorded finding, `numeric_escape_completes_sequence` in `Utf8Input`).
  2. `bl` — REPAIRED: the escaped blank `\ ` is ignored (appends nothing), so a sequence could be
     continued across it: `"` C3 `\ ` A9 `"` (bytes 22 C3 5C 20 A9 22, not UTF-8) was read as `é`.
     The arm now rejects a continuation byte behind the blank
     (`escaped_blank_inside_sequence_rejected`), and for a STRING result `bl` is no longer needed:
     `C17_elisp_input_valid_noblank`, `C17_elisp_token_input_valid_noblank` (section "after the
     repair").  The flag can still rise on a successful run (`bl_still_set_string`, with `hi`), and
     the synchronisation statement still needs it for a byte string (`bl_needed_for_sync`).
  3. `nc` (unibyte result only) — NEW: the catch-all escape arm consumes the byte after the
     backslash, which may be ≥ 0xC0, without setting `seen_non_ascii`; with a numeric escape
     elsewhere the result is a BYTE string and is never validated: `"\` C3 `\x41"` (bytes
     22 5C C3 5C 78 34 31 22, not UTF-8) is read as the bytes C3 41 (`unibyte_catchall_raw_byte`).

  The theorems say these are the ONLY ways.  `parseElispStrT` is `parseElispStr` instrumented with
  three flags (`parseElispStrT_agrees`: same result, same final state, same errors):

  * `C17_elisp_input_valid`: a `.multibyte` result with `hi = false` and `bl = false` ⇒ the body
    bytes consumed (closing quote included) are valid UTF-8;
  * `C17_elisp_input_valid_unibyte`: a `.unibyte` result with `nc = false` ⇒ the body bytes
    consumed are all ASCII (hence valid UTF-8); `hi`/`bl` do not matter there;
  * `C17_elisp_input_sync`: for either result with `hi = false`, `bl = false`: the body without
    its closing quote drives the UTF-8 automaton to the same state as the bytes returned — in
    particular the body is valid iff the returned bytes are (`C17_elisp_input_valid_iff`).

  `C17_elisp_token_input_valid` carries both to `parse_token` (the text of the whole token).

  The invariant (`parseElispStrT_inv`): the automaton run over the consumed input equals the run
  over the scratch buffer (same state, or both dead).
-/
import LexprModel.Proofs.Utf8InputLoopBase
import LexprModel.Proofs.Utf8Input
namespace Lexpr
namespace Parse
namespace InLoop
open Utf8 Utf8.U8 Parse.U8 Image

/-! ### the instrumented loop -/

/-- What the instrumented loop records. -/
structure Flags where
  /-- a numeric escape (kind `Unibyte`) appended a byte ≥ 0x80 -/
  hi : Bool := false
  /-- an escaped blank `\ ` was read while the scratch buffer ended inside a sequence
      (`Utf8.valid acc = false`) -/
  bl : Bool := false
  /-- the byte after a backslash was ≥ 0x80 (the catch-all arm: it stands for itself) -/
  nc : Bool := false
  deriving DecidableEq, Repr

def Flags.or (a b : Flags) : Flags := ⟨a.hi || b.hi, a.bl || b.bl, a.nc || b.nc⟩

/-- the last byte is ≥ 0x80 -/
def lastHigh (bs : List UInt8) : Bool :=
  match bs.getLast? with
  | some b => decide (128 ≤ b)
  | none => false

/-- The flags of one escape, from what can be seen around the call of `parse_elisp_escape`:
    `acc` the buffer before, `rest` the unread input after the backslash, `acc'` and `k` the
    result. -/
def escFlags (acc rest acc' : List UInt8) (k : ElispEscape) : Flags where
  hi := match k with
    | .unibyte => lastHigh acc'
    | _ => false
  bl := rest.head? == some 32 && !Utf8.valid acc
  nc := match rest.head? with
    | some c => decide (128 ≤ c)
    | none => false

/-- `parseElispStr` with the flags threaded through; nothing else is changed. -/
def parseElispStrT : Nat → List UInt8 → (ub mb na : Bool) → Flags → P (ElispStr × Flags)
  | 0, _, _, _, _, _ => outOfFuel
  | f + 1, acc, ub, mb, na, fl => do
    let c ← nextOrEof
    if c == 34 then
      if ub && !(mb || na) then pure (.unibyte acc, fl)
      else do
        let s ← finishStr true acc
        pure (.multibyte s, fl)
    else if c == 92 then do
      let rest ← getRest
      let (acc', k) ← parseElispEscape (f + 1) acc
      let fl' := fl.or (escFlags acc rest acc' k)
      match k with
      | .unibyte => parseElispStrT f acc' true mb na fl'
      | .multibyte => parseElispStrT f acc' ub true na fl'
      | .indeterminate => parseElispStrT f acc' ub mb na fl'
    else parseElispStrT f (acc ++ [c]) ub mb (na || c > 127) fl

/-- forget the flags -/
def dropFlags {α β : Type} : Res (α × β) → Res α
  | .ok a s => .ok a.1 s
  | .err e s => .err e s
  | .panic p => .panic p
  | .fuel => .fuel

/-- **Agreement**: the instrumented loop is the loop (result, final state, errors, fuel). -/
theorem parseElispStrT_agrees (f : Nat) : ∀ (acc : List UInt8) (ub mb na : Bool) (fl : Flags)
    (S : St), dropFlags (parseElispStrT f acc ub mb na fl S) = parseElispStr f acc ub mb na S := by
  induction f with
  | zero => intro acc ub mb na fl S; rfl
  | succ f ih =>
    intro acc ub mb na fl S
    simp only [parseElispStrT, parseElispStr, bind_apply]
    cases hn : nextOrEof S with
    | err e s1 => rfl
    | panic p => rfl
    | fuel => rfl
    | ok c s1 =>
      simp only []
      by_cases h34 : (c == 34) = true
      · simp only [if_pos h34]
        by_cases hu : (ub && !(mb || na)) = true
        · simp only [if_pos hu]; rfl
        · simp only [if_neg hu, bind_apply]
          cases hf : finishStr true acc s1 <;> rfl
      · simp only [if_neg h34]
        by_cases h92 : (c == 92) = true
        · simp only [if_pos h92, bind_apply, getRest]
          cases he : parseElispEscape (f + 1) acc s1 with
          | err e s2 => rfl
          | panic p => rfl
          | fuel => rfl
          | ok p s2 =>
            obtain ⟨acc', k⟩ := p
            cases k <;> exact ih _ _ _ _ _ _
        · simp only [if_neg h92]
          exact ih _ _ _ _ _ _

/-- the same, for successful runs -/
theorem parseElispStrT_ok {f : Nat} {acc : List UInt8} {ub mb na : Bool} {fl0 fl : Flags}
    {S S' : St} {r : ElispStr} (h : parseElispStrT f acc ub mb na fl0 S = .ok (r, fl) S') :
    parseElispStr f acc ub mb na S = .ok r S' := by
  rw [← parseElispStrT_agrees f acc ub mb na fl0 S, h]; rfl

/-- every successful run of the loop is a run of the instrumented loop -/
theorem parseElispStrT_of_ok {f : Nat} {acc : List UInt8} {ub mb na : Bool} (fl0 : Flags)
    {S S' : St} {r : ElispStr} (h : parseElispStr f acc ub mb na S = .ok r S') :
    ∃ fl, parseElispStrT f acc ub mb na fl0 S = .ok (r, fl) S' := by
  rw [← parseElispStrT_agrees f acc ub mb na fl0 S] at h
  cases ht : parseElispStrT f acc ub mb na fl0 S with
  | ok p s =>
    rw [ht] at h
    simp only [dropFlags, Res.ok.injEq] at h
    obtain ⟨rfl, rfl⟩ := h
    exact ⟨p.2, rfl⟩
  | err e s => rw [ht] at h; cases h
  | panic p => rw [ht] at h; cases h
  | fuel => rw [ht] at h; cases h

/-! ### the invariant -/

/-- the bytes of either result -/
def _root_.Lexpr.Parse.ElispStr.bytes : ElispStr → List UInt8
  | .unibyte b => b
  | .multibyte s => s

/-- flags only rise -/
def Flags.le (a b : Flags) : Prop :=
  (b.hi = false → a.hi = false) ∧ (b.bl = false → a.bl = false) ∧ (b.nc = false → a.nc = false)

theorem Flags.le_refl (a : Flags) : a.le a := ⟨id, id, id⟩

theorem Flags.le_of_or {a b c : Flags} (h : (a.or b).le c) : a.le c ∧ b.le c := by
  obtain ⟨h1, h2, h3⟩ := h
  simp only [Flags.or, Bool.or_eq_false_iff] at h1 h2 h3
  exact ⟨⟨fun x => (h1 x).1, fun x => (h2 x).1, fun x => (h3 x).1⟩,
    ⟨fun x => (h1 x).2, fun x => (h2 x).2, fun x => (h3 x).2⟩⟩

theorem not_ge_ascii {c : UInt8} (h : decide (128 ≤ c) = false) : c < 0x80 := by
  simp only [decide_eq_false_iff_not, UInt8.le_iff_toNat_le] at h
  rw [UInt8.lt_iff_toNat_lt]
  simp at h ⊢
  omega

/-- one escape keeps the two automaton runs together, unless one of the flags rises -/
theorem escape_sync {c : UInt8} {t out acc rest pre : List UInt8} {k : ElispEscape}
    (hsh : EscShape c t out k) (hrest : rest.head? = some c)
    (hhi : (escFlags acc rest (acc ++ out) k).hi = false)
    (hbl : (escFlags acc rest (acc ++ out) k).bl = false)
    (h : run .idle pre = run .idle acc) :
    run .idle (pre ++ 92 :: c :: t) = run .idle (acc ++ out) := by
  cases hsh with
  | blank =>
    simp only [escFlags, hrest, beq_self_eq_true, Bool.true_and, Bool.not_eq_false'] at hbl
    rw [List.append_nil]
    exact sync_drop h hbl (run_idle_ascii (by intro b hb; simp at hb; rcases hb with rfl | rfl <;> decide))
  | text hc ht hne hv _ => exact sync_text h (Ascii.cons hc ht) hne hv
  | byte b hc ht =>
    simp only [escFlags, lastHigh, List.getLast?_concat] at hhi
    have hb : b < 0x80 := not_ge_ascii hhi
    exact sync_text h (Ascii.cons hc ht) (by simp)
      (valid_ascii (by intro x hx; simp at hx; subst hx; exact hb))
  | raw hc => exact sync_raw h hc

/-- one escape consumes ASCII bytes only, unless `nc` rises -/
theorem escape_ascii {c : UInt8} {t out acc rest : List UInt8} {k : ElispEscape}
    (hsh : EscShape c t out k) (hrest : rest.head? = some c)
    (hnc : (escFlags acc rest (acc ++ out) k).nc = false) : Ascii (92 :: c :: t) := by
  simp only [escFlags, hrest] at hnc
  have hc : c < 0x80 := not_ge_ascii hnc
  have ht : Ascii t := by
    cases hsh with
    | blank => exact Ascii.nil
    | text _ ht _ _ _ => exact ht
    | byte _ _ ht => exact ht
    | raw _ => exact Ascii.nil
  exact Ascii.cons (by decide) (Ascii.cons hc ht)

/-- **The loop invariant.**  `w` is the body consumed in front of the closing quote. -/
theorem parseElispStrT_inv (f : Nat) : ∀ {acc : List UInt8} {ub mb na : Bool} {fl0 fl : Flags}
    {S S' : St} {r : ElispStr}, parseElispStrT f acc ub mb na fl0 S = .ok (r, fl) S' →
    ∃ w, S.rd.rest = w ++ 34 :: S'.rd.rest ∧ fl0.le fl ∧
      (∀ pre, fl.hi = false → fl.bl = false → run .idle pre = run .idle acc →
        run .idle (pre ++ w) = run .idle r.bytes) ∧
      (∀ b, r = .unibyte b → na = false ∧ (fl.nc = false → Ascii w)) ∧
      (∀ s, r = .multibyte s → valid s = true) := by
  induction f with
  | zero => intro acc ub mb na fl0 fl S S' r h; simp [parseElispStrT, outOfFuel] at h
  | succ f ih =>
    intro acc ub mb na fl0 fl S S' r h
    simp only [parseElispStrT] at h
    obtain ⟨c, s1, hn, h⟩ := bind_ok h
    obtain ⟨_, hr⟩ := nextOrEof_ok hn
    rcases ite_ok h with ⟨h34, h⟩ | ⟨_, h⟩
    · -- the closing quote
      rw [eq_of_beq h34] at hr
      rcases ite_ok h with ⟨hu, h⟩ | ⟨_, h⟩
      · obtain ⟨h1, h2⟩ := pure_ok h
        cases h1; subst h2
        refine ⟨[], hr, Flags.le_refl _, fun pre _ _ hp => by rw [List.append_nil]; exact hp,
          fun b _ => ⟨?_, fun _ => Ascii.nil⟩, fun s hs => by cases hs⟩
        cases na
        · rfl
        · simp at hu
      · obtain ⟨o, s2, hf, h⟩ := bind_ok h
        obtain ⟨h1, h2⟩ := pure_ok h
        cases h1; subst h2
        have hs2 := finishStr_state hf
        subst hs2
        obtain ⟨rfl, hv⟩ := finishStr_ok hf
        refine ⟨[], hr, Flags.le_refl _, fun pre _ _ hp => by rw [List.append_nil]; exact hp,
          fun b hb => (by cases hb), fun s hs => ?_⟩
        cases hs
        rcases hv with hv | ⟨hc, _⟩
        · exact hv
        · cases hc
    rcases ite_ok h with ⟨h92, h⟩ | ⟨_, h⟩
    · -- an escape
      rw [eq_of_beq h92] at hr
      obtain ⟨rest, s1', hg, h⟩ := bind_ok h
      have hg' : s1.rd.rest = rest ∧ s1 = s1' := by
        simp only [getRest, Res.ok.injEq] at hg
        exact ⟨hg.1, hg.2⟩
      obtain ⟨rfl, rfl⟩ := hg'
      obtain ⟨⟨acc', k⟩, s2, he, h⟩ := bind_ok h
      obtain ⟨c', t, out, hr1, rfl, hsh⟩ := parseElispEscape_shape he
      have hhead : s1.rd.rest.head? = some c' := by rw [hr1]; rfl
      have hrec : ∃ ub' mb', parseElispStrT f (acc ++ out) ub' mb' na
          (fl0.or (escFlags acc s1.rd.rest (acc ++ out) k)) s2 = .ok (r, fl) S' := by
        cases k
        · exact ⟨_, _, h⟩
        · exact ⟨_, _, h⟩
        · exact ⟨_, _, h⟩
      obtain ⟨ub', mb', hrec⟩ := hrec
      obtain ⟨w2, hr2, hle, hsync, huni, hmul⟩ := ih hrec
      obtain ⟨hle0, hleE⟩ := Flags.le_of_or hle
      refine ⟨92 :: c' :: t ++ w2, by rw [hr, hr1, hr2]; simp, hle0, fun pre hhi hbl hp => ?_,
        fun b hb => ?_, hmul⟩
      · have := hsync (pre ++ 92 :: c' :: t) hhi hbl
          (escape_sync hsh hhead (hleE.1 hhi) (hleE.2.1 hbl) hp)
        rw [List.append_assoc] at this
        exact this
      · obtain ⟨hna, hasc⟩ := huni b hb
        exact ⟨hna, fun hnc => (escape_ascii hsh hhead (hleE.2.2 hnc)).append (hasc hnc)⟩
    · -- a raw byte
      obtain ⟨w2, hr2, hle, hsync, huni, hmul⟩ := ih h
      refine ⟨c :: w2, by rw [hr, hr2]; rfl, hle, fun pre hhi hbl hp => ?_, fun b hb => ?_, hmul⟩
      · have := hsync (pre ++ [c]) hhi hbl (sync_push c hp)
        rw [List.append_assoc] at this
        exact this
      · obtain ⟨hna, hasc⟩ := huni b hb
        simp only [Bool.or_eq_false_iff, decide_eq_false_iff_not] at hna
        exact ⟨hna.1, fun hnc => Ascii.cons (not_gt_ascii hna.2) (hasc hnc)⟩

/-! ### the theorems -/

/-- the body consumed ends with the closing quote -/
theorem body_eq {S S' : St} {w w0 : List UInt8} (hw : S.rd.rest = w ++ S'.rd.rest)
    (h0 : S.rd.rest = w0 ++ 34 :: S'.rd.rest) : w = w0 ++ [34] := by
  have : w ++ S'.rd.rest = (w0 ++ [34]) ++ S'.rd.rest := by
    rw [← hw, h0]; simp
  exact List.append_cancel_right this

/-- **C17, input clause, Emacs Lisp strings, both results**: when no numeric escape appended a
    byte ≥ 0x80 (`hi`) and no escaped blank was read inside a sequence (`bl`), the body in front
    of the closing quote drives the UTF-8 automaton to the same state as the bytes returned
    (`acc` is the buffer at entry, empty or any well-formed text). -/
theorem C17_elisp_input_sync {fuel : Nat} {acc : List UInt8} {ub mb na : Bool} {fl0 fl : Flags}
    {S S' : St} {r : ElispStr} {w : List UInt8}
    (h : parseElispStrT fuel acc ub mb na fl0 S = .ok (r, fl) S')
    (hacc : Utf8.valid acc = true)
    (hw : S.rd.rest = w ++ S'.rd.rest) (hhi : fl.hi = false) (hbl : fl.bl = false) :
    ∃ w0, w = w0 ++ [34] ∧ Utf8.run .idle w0 = Utf8.run .idle r.bytes := by
  obtain ⟨w0, hr, _, hsync, _, _⟩ := parseElispStrT_inv fuel h
  refine ⟨w0, body_eq hw hr, ?_⟩
  have := hsync [] hhi hbl (by rw [(valid_iff _).mp hacc]; rfl)
  simpa using this

/-- the body is well-formed exactly when the bytes returned are -/
theorem C17_elisp_input_valid_iff {fuel : Nat} {acc : List UInt8} {ub mb na : Bool}
    {fl0 fl : Flags} {S S' : St} {r : ElispStr} {w : List UInt8}
    (h : parseElispStrT fuel acc ub mb na fl0 S = .ok (r, fl) S')
    (hacc : Utf8.valid acc = true)
    (hw : S.rd.rest = w ++ S'.rd.rest) (hhi : fl.hi = false) (hbl : fl.bl = false) :
    Utf8.valid w = Utf8.valid r.bytes := by
  obtain ⟨w0, rfl, hrun⟩ := C17_elisp_input_sync h hacc hw hhi hbl
  have h34 : (34 : UInt8) < 0x80 := by decide
  have : Utf8.valid (w0 ++ [34]) = Utf8.valid w0 := by
    rw [valid_append_cons_ascii w0 [] h34]
    simp [valid_nil]
  rw [this]
  simp only [Utf8.valid, hrun]

/-- **C17, input clause, Emacs Lisp strings** (`.multibyte` result, i.e. the token is a string):
    if the string is accepted, no numeric escape appended a byte ≥ 0x80 and no escaped blank was
    read inside a sequence, then the body consumed — the bytes after the opening quote up to and
    including the closing quote — is valid UTF-8.  Any source, any flags at entry. -/
theorem C17_elisp_input_valid {fuel : Nat} {acc : List UInt8} {ub mb na : Bool} {fl0 fl : Flags}
    {S S' : St} {s w : List UInt8}
    (h : parseElispStrT fuel acc ub mb na fl0 S = .ok (.multibyte s, fl) S')
    (hacc : Utf8.valid acc = true)
    (hw : S.rd.rest = w ++ S'.rd.rest) (hhi : fl.hi = false) (hbl : fl.bl = false) :
    Utf8.valid w = true := by
  rw [C17_elisp_input_valid_iff h hacc hw hhi hbl]
  obtain ⟨_, _, _, _, _, hmul⟩ := parseElispStrT_inv fuel h
  exact hmul s rfl

/-- **C17, input clause, Emacs Lisp byte strings** (`.unibyte` result): if no backslash was
    followed by a byte ≥ 0x80 (`nc`), every byte of the body consumed is ASCII, so the body is
    valid UTF-8.  (`hi` and `bl` do not matter: `"\xff"` is the byte string FF and its text is
    ASCII.) -/
theorem C17_elisp_input_valid_unibyte {fuel : Nat} {acc : List UInt8} {ub mb na : Bool}
    {fl0 fl : Flags} {S S' : St} {b w : List UInt8}
    (h : parseElispStrT fuel acc ub mb na fl0 S = .ok (.unibyte b, fl) S')
    (hw : S.rd.rest = w ++ S'.rd.rest) (hnc : fl.nc = false) :
    (∀ x ∈ w, x < 0x80) ∧ Utf8.valid w = true := by
  obtain ⟨w0, hr, _, _, huni, _⟩ := parseElispStrT_inv fuel h
  have hasc : Ascii w := by
    rw [body_eq hw hr]
    exact ((huni b rfl).2 hnc).append (Ascii.cons (by decide) Ascii.nil)
  exact ⟨hasc, valid_ascii hasc⟩

/-- The same through the un-instrumented loop: every accepted string has flags, and the
    statement holds of them. -/
theorem C17_elisp_input_valid' {fuel : Nat} {S S' : St} {s w : List UInt8}
    (h : parseElispStr fuel [] false false false S = .ok (.multibyte s) S')
    (hw : S.rd.rest = w ++ S'.rd.rest) :
    ∃ fl, parseElispStrT fuel [] false false false {} S = .ok (.multibyte s, fl) S' ∧
      (fl.hi = false → fl.bl = false → Utf8.valid w = true) := by
  obtain ⟨fl, ht⟩ := parseElispStrT_of_ok {} h
  exact ⟨fl, ht, fun hhi hbl => C17_elisp_input_valid ht valid_nil hw hhi hbl⟩

/-! ### the token level -/

/-- the token made of the result of the loop -/
def tokOf : ElispStr → Token
  | .multibyte s => .string s
  | .unibyte b => .bytes b

/-- **C17, input clause, at `parse_token`** (Emacs Lisp string syntax, the peeked byte is `"`):
    the token is read by the instrumented loop from the state behind the opening quote, and the
    text `w` of the whole token — opening quote to closing quote — is valid UTF-8 when the token
    is a string and `hi`, `bl` are down, or a byte string and `nc` is down. -/
theorem C17_elisp_token_input_valid {cfg : Cfg} {fuel : Nat} {S S' : St} {tok : Token}
    {w : List UInt8} (h : parseToken cfg fuel 34 S = .ok tok S')
    (hel : cfg.opts.string = .elisp) (hpk : ∃ tl, S.rd.rest = 34 :: tl)
    (hw : S.rd.rest = w ++ S'.rd.rest) :
    ∃ S1 r fl, S.rd.rest = 34 :: S1.rd.rest ∧
      parseElispStrT fuel [] false false false {} S1 = .ok (r, fl) S' ∧
      tok = tokOf r ∧
      ((∃ s, tok = .string s) → fl.hi = false → fl.bl = false → Utf8.valid w = true) ∧
      ((∃ b, tok = .bytes b) → fl.nc = false → Utf8.valid w = true) := by
  obtain ⟨tl, hpk⟩ := hpk
  unfold parseToken at h
  simp only [] at h
  rcases ite_ok h with ⟨hc, _⟩ | ⟨_, h⟩
  · exact absurd hc (by decide)
  rcases ite_ok h with ⟨hc, _⟩ | ⟨_, h⟩
  · exact absurd hc (by decide)
  rcases ite_ok h with ⟨hc, _⟩ | ⟨_, h⟩
  · exact absurd hc (by decide)
  rcases ite_ok h with ⟨hc, _⟩ | ⟨_, h⟩
  · exact absurd hc (by decide)
  rcases ite_ok h with ⟨_, h⟩ | ⟨hc, _⟩
  · obtain ⟨_, S1, hd, h⟩ := bind_ok h
    obtain ⟨_, b, hr1⟩ := discard_ok hd
    have hb : b = 34 := by rw [hpk] at hr1; cases hr1; rfl
    subst hb
    rw [hel] at h
    obtain ⟨r, S2, hp, h⟩ := bind_ok h
    have h34 : (34 : UInt8) < 0x80 := by decide
    have key : S2 = S' ∧ tok = tokOf r := by
      cases r with
      | unibyte b => obtain ⟨h1, h2⟩ := pure_ok h; exact ⟨h2, h1.symm⟩
      | multibyte s => obtain ⟨h1, h2⟩ := pure_ok h; exact ⟨h2, h1.symm⟩
    obtain ⟨rfl, htok⟩ := key
    obtain ⟨fl, ht⟩ := parseElispStrT_of_ok {} hp
    obtain ⟨w0, hr0, _⟩ := parseElispStrT_inv fuel ht
    have hw' : w = 34 :: (w0 ++ [34]) := by
      have : w ++ S2.rd.rest = (34 :: (w0 ++ [34])) ++ S2.rd.rest := by
        rw [← hw, hr1, hr0]; simp
      exact List.append_cancel_right this
    have hbody : S1.rd.rest = (w0 ++ [34]) ++ S2.rd.rest := by rw [hr0]; simp
    refine ⟨S1, r, fl, hr1, ht, htok, fun ⟨s, hs⟩ hhi hbl => ?_, fun ⟨b, hb⟩ hnc => ?_⟩
    · cases r with
      | unibyte b => rw [htok] at hs; cases hs
      | multibyte s' =>
        rw [hw', valid_cons_ascii _ h34]
        exact C17_elisp_input_valid ht valid_nil hbody hhi hbl
    · cases r with
      | multibyte s => rw [htok] at hb; cases hb
      | unibyte b' =>
        rw [hw', valid_cons_ascii _ h34]
        exact (C17_elisp_input_valid_unibyte ht hbody hnc).2
  · exact absurd (by decide) hc

/-! ### after the repair of the escaped blank: `bl` is not needed for a string -/

/-- The consumed input `pre` and the buffer `acc` agree, or the run is *pending*: an escaped blank
    was read inside a sequence — the input is dead, the buffer is still inside the sequence, and
    the byte that follows (if there is one) is not a continuation byte. -/
def Rel (pre acc rest : List UInt8) : Prop :=
  run .idle pre = run .idle acc ∨
  (run .idle pre = none ∧ (∃ st, run .idle acc = some st ∧ st ≠ .idle) ∧ (rest = [] ∨ Head rest))

theorem run_none_append {pre : List UInt8} (t : List UInt8) (h : run .idle pre = none) :
    run .idle (pre ++ t) = none := by
  rw [run_append, h]; rfl

theorem run_mid_append {acc u : List UInt8} {st : Utf8.St} (h : run .idle acc = some st)
    (hne : st ≠ .idle) (hu : Head u) : run .idle (acc ++ u) = none := by
  rw [run_append, h, Option.bind_some]
  exact run_mid_head (run_wf2 (s := .idle) trivial h) hne hu

/-- one escape keeps `Rel`, unless `hi` rises; `rest'` is the input behind the escape -/
theorem escape_rel {c : UInt8} {t out acc rest rest0 rest' pre : List UInt8} {k : ElispEscape}
    (hsh : EscShape c t out k) (hrest : rest.head? = some c)
    (hhi : (escFlags acc rest (acc ++ out) k).hi = false)
    (hnext : c = 32 → rest' = [] ∨ Head rest')
    (h : Rel pre acc rest0) : Rel (pre ++ 92 :: c :: t) (acc ++ out) rest' := by
  have h92 : (92 : UInt8) < 0x80 := by decide
  rcases h with h | ⟨hp, ⟨st, hst, hne⟩, _⟩
  · cases hsh with
    | blank =>
      rw [List.append_nil]
      cases hacc : run .idle acc with
      | none => exact Or.inl (by rw [run_none_append _ (h.trans hacc), hacc])
      | some st =>
        by_cases hi : st = .idle
        · subst hi
          exact Or.inl (sync_drop h ((valid_iff _).mpr hacc) (run_idle_ascii (by
            intro b hb; simp at hb; rcases hb with rfl | rfl <;> decide)))
        · exact Or.inr ⟨run_mid_append (h.trans hacc) hi (Head.ascii _ h92), ⟨st, hacc, hi⟩,
            hnext rfl⟩
    | text hc ht hne hv _ => exact Or.inl (sync_text h (Ascii.cons hc ht) hne hv)
    | byte b hc ht =>
      simp only [escFlags, lastHigh, List.getLast?_concat] at hhi
      have hb : b < 0x80 := not_ge_ascii hhi
      exact Or.inl (sync_text h (Ascii.cons hc ht) (by simp)
        (valid_ascii (by intro x hx; simp at hx; subst hx; exact hb)))
    | raw hc => exact Or.inl (sync_raw h hc)
  · cases hsh with
    | blank =>
      rw [List.append_nil]
      exact Or.inr ⟨run_none_append _ hp, ⟨st, hst, hne⟩, hnext rfl⟩
    | text hc ht hne' hv _ =>
      exact Or.inl (by rw [run_none_append _ hp, run_mid_append hst hne (Head.of_valid hne' hv)])
    | byte b hc ht =>
      simp only [escFlags, lastHigh, List.getLast?_concat] at hhi
      have hb : b < 0x80 := not_ge_ascii hhi
      exact Or.inl (by rw [run_none_append _ hp, run_mid_append hst hne (Head.ascii [] hb)])
    | raw hc =>
      exact Or.inl (by rw [run_none_append _ hp, run_mid_append hst hne ⟨c, [], rfl, hc⟩])

/-- **The loop invariant without `bl`**, for a string result: a pending run cannot reach the
    closing quote (the buffer is validated there), and anything else kills both automaton runs. -/
theorem parseElispStrT_inv_noblank (f : Nat) : ∀ {acc : List UInt8} {ub mb na : Bool}
    {fl0 fl : Flags} {S S' : St} {s : List UInt8},
    parseElispStrT f acc ub mb na fl0 S = .ok (.multibyte s, fl) S' → fl.hi = false →
    ∃ w, S.rd.rest = w ++ 34 :: S'.rd.rest ∧
      ∀ pre, Rel pre acc S.rd.rest → run .idle (pre ++ w) = run .idle s := by
  induction f with
  | zero => intro acc ub mb na fl0 fl S S' s h; simp [parseElispStrT, outOfFuel] at h
  | succ f ih =>
    intro acc ub mb na fl0 fl S S' s h hhi
    simp only [parseElispStrT] at h
    obtain ⟨c, s1, hn, h⟩ := bind_ok h
    obtain ⟨_, hr⟩ := nextOrEof_ok hn
    rcases ite_ok h with ⟨h34, h⟩ | ⟨_, h⟩
    · -- the closing quote
      rw [eq_of_beq h34] at hr
      rcases ite_ok h with ⟨hu, h⟩ | ⟨_, h⟩
      · obtain ⟨h1, _⟩ := pure_ok h
        cases h1
      · obtain ⟨o, s2, hf, h⟩ := bind_ok h
        obtain ⟨h1, h2⟩ := pure_ok h
        cases h1; subst h2
        have hs2 := finishStr_state hf
        subst hs2
        obtain ⟨rfl, hv⟩ := finishStr_ok hf
        have hv' : valid s = true := by
          rcases hv with hv | ⟨hc, _⟩
          · exact hv
          · cases hc
        refine ⟨[], hr, fun pre hrel => ?_⟩
        rw [List.append_nil]
        rcases hrel with hrel | ⟨_, ⟨st, hst, hne⟩, _⟩
        · exact hrel
        · rw [(valid_iff _).mp hv'] at hst
          cases hst
          exact absurd rfl hne
    rcases ite_ok h with ⟨h92, h⟩ | ⟨_, h⟩
    · -- an escape
      rw [eq_of_beq h92] at hr
      obtain ⟨rest, s1', hg, h⟩ := bind_ok h
      have hg' : s1.rd.rest = rest ∧ s1 = s1' := by
        simp only [getRest, Res.ok.injEq] at hg
        exact ⟨hg.1, hg.2⟩
      obtain ⟨rfl, rfl⟩ := hg'
      obtain ⟨⟨acc', k⟩, s2, he, h⟩ := bind_ok h
      obtain ⟨c', t, out, hr1, rfl, hsh⟩ := parseElispEscape_shape he
      have hhead : s1.rd.rest.head? = some c' := by rw [hr1]; rfl
      have hrec : ∃ ub' mb', parseElispStrT f (acc ++ out) ub' mb' na
          (fl0.or (escFlags acc s1.rd.rest (acc ++ out) k)) s2 = .ok (.multibyte s, fl) S' := by
        cases k
        · exact ⟨_, _, h⟩
        · exact ⟨_, _, h⟩
        · exact ⟨_, _, h⟩
      obtain ⟨ub', mb', hrec⟩ := hrec
      obtain ⟨w2, hr2, hsync⟩ := ih hrec hhi
      obtain ⟨_, _, hle, _⟩ := parseElispStrT_inv f hrec
      have hhiE := (Flags.le_of_or hle).2.1 hhi
      have hnext : c' = 32 → s2.rd.rest = [] ∨ Head s2.rd.rest := by
        intro hc
        subst hc
        obtain ⟨_, _, hrr, hh⟩ := parseElispEscape_blank_next he hr1
        rw [hrr]
        exact hh
      refine ⟨92 :: c' :: t ++ w2, by rw [hr, hr1, hr2]; simp, fun pre hrel => ?_⟩
      have := hsync (pre ++ 92 :: c' :: t) (escape_rel hsh hhead hhiE hnext hrel)
      rw [List.append_assoc] at this
      exact this
    · -- a raw byte
      obtain ⟨w2, hr2, hsync⟩ := ih h hhi
      refine ⟨c :: w2, by rw [hr, hr2]; rfl, fun pre hrel => ?_⟩
      have hrel' : Rel (pre ++ [c]) (acc ++ [c]) s1.rd.rest := by
        rcases hrel with hrel | ⟨hp, ⟨st, hst, hne⟩, hh⟩
        · exact Or.inl (sync_push c hrel)
        · rw [hr] at hh
          rcases hh with hh | ⟨b, r, heq, hb⟩
          · cases hh
          · cases heq
            exact Or.inl (by
              rw [run_none_append _ hp, run_mid_append hst hne ⟨c, [], rfl, hb⟩])
      have := hsync (pre ++ [c]) hrel'
      rw [List.append_assoc] at this
      exact this

/-- **C17, input clause, Emacs Lisp strings, after the repair of the escaped blank** (`.multibyte`
    result): if the string is accepted and no numeric escape appended a byte ≥ 0x80, the body
    consumed — up to and including the closing quote — is valid UTF-8.  No hypothesis on `bl`. -/
theorem C17_elisp_input_valid_noblank {fuel : Nat} {acc : List UInt8} {ub mb na : Bool}
    {fl0 fl : Flags} {S S' : St} {s w : List UInt8}
    (h : parseElispStrT fuel acc ub mb na fl0 S = .ok (.multibyte s, fl) S')
    (hacc : Utf8.valid acc = true)
    (hw : S.rd.rest = w ++ S'.rd.rest) (hhi : fl.hi = false) :
    Utf8.valid w = true := by
  obtain ⟨w0, hr, hsync⟩ := parseElispStrT_inv_noblank fuel h hhi
  obtain ⟨_, _, _, _, _, hmul⟩ := parseElispStrT_inv fuel h
  have hrun := hsync [] (Or.inl (by rw [(valid_iff _).mp hacc]; rfl))
  rw [List.nil_append] at hrun
  have h34 : (34 : UInt8) < 0x80 := by decide
  have : Utf8.valid (w0 ++ [34]) = Utf8.valid w0 := by
    rw [valid_append_cons_ascii w0 [] h34]
    simp [valid_nil]
  rw [body_eq hw hr, this, valid_iff, hrun]
  exact (valid_iff _).mp (hmul s rfl)

/-- the same through the un-instrumented loop -/
theorem C17_elisp_input_valid_noblank' {fuel : Nat} {S S' : St} {s w : List UInt8}
    (h : parseElispStr fuel [] false false false S = .ok (.multibyte s) S')
    (hw : S.rd.rest = w ++ S'.rd.rest) :
    ∃ fl, parseElispStrT fuel [] false false false {} S = .ok (.multibyte s, fl) S' ∧
      (fl.hi = false → Utf8.valid w = true) := by
  obtain ⟨fl, ht⟩ := parseElispStrT_of_ok {} h
  exact ⟨fl, ht, fun hhi => C17_elisp_input_valid_noblank ht valid_nil hw hhi⟩

/-- **C17, input clause, at `parse_token`, after the repair**: as `C17_elisp_token_input_valid`,
    without `bl` for a string token. -/
theorem C17_elisp_token_input_valid_noblank {cfg : Cfg} {fuel : Nat} {S S' : St} {tok : Token}
    {w : List UInt8} (h : parseToken cfg fuel 34 S = .ok tok S')
    (hel : cfg.opts.string = .elisp) (hpk : ∃ tl, S.rd.rest = 34 :: tl)
    (hw : S.rd.rest = w ++ S'.rd.rest) :
    ∃ S1 r fl, S.rd.rest = 34 :: S1.rd.rest ∧
      parseElispStrT fuel [] false false false {} S1 = .ok (r, fl) S' ∧
      tok = tokOf r ∧
      ((∃ s, tok = .string s) → fl.hi = false → Utf8.valid w = true) ∧
      ((∃ b, tok = .bytes b) → fl.nc = false → Utf8.valid w = true) := by
  obtain ⟨S1, r, fl, hr1, ht, htok, _, hby⟩ := C17_elisp_token_input_valid h hel hpk hw
  refine ⟨S1, r, fl, hr1, ht, htok, fun ⟨s, hs⟩ hhi => ?_, hby⟩
  cases r with
  | unibyte b => rw [htok] at hs; cases hs
  | multibyte s' =>
    obtain ⟨w0, hr0, _⟩ := parseElispStrT_inv fuel ht
    have hw' : w = 34 :: (w0 ++ [34]) := by
      have : w ++ S'.rd.rest = (34 :: (w0 ++ [34])) ++ S'.rd.rest := by
        rw [← hw, hr1, hr0]; simp
      exact List.append_cancel_right this
    have hbody : S1.rd.rest = (w0 ++ [34]) ++ S'.rd.rest := by rw [hr0]; simp
    rw [hw', valid_cons_ascii _ (by decide : (34 : UInt8) < 0x80)]
    exact C17_elisp_input_valid_noblank ht valid_nil hbody hhi

/-! ### witnesses -/

/-- run the instrumented loop on a body (the text after the opening quote), slice source -/
def runBody (body : List UInt8) (p : ElispStr → Flags → List UInt8 → Bool) : Bool :=
  match parseElispStrT 100 [] false false false {} (initSt .slice body) with
  | .ok (r, fl) S' => p r fl S'.rd.rest
  | _ => false

theorem runBody_spec {body : List UInt8} {p : ElispStr → Flags → List UInt8 → Bool}
    (h : runBody body p = true) :
    ∃ r fl S', parseElispStrT 100 [] false false false {} (initSt .slice body) = .ok (r, fl) S' ∧
      p r fl S'.rd.rest = true := by
  unfold runBody at h
  split at h
  · rename_i r fl S' heq
    exact ⟨r, fl, S', heq, h⟩
  · cases h

/-- a multibyte result with the two flags down, everything consumed -/
def cleanString (out : List UInt8) : ElispStr → Flags → List UInt8 → Bool
  | .multibyte s, fl, rest => s == out && !fl.hi && !fl.bl && rest == []
  | _, _, _ => false

/-- a unibyte result with `nc` down, everything consumed -/
def cleanBytes (out : List UInt8) : ElispStr → Flags → List UInt8 → Bool
  | .unibyte b, fl, rest => b == out && !fl.nc && rest == []
  | _, _, _ => false

/-- the hypotheses of `C17_elisp_input_valid` hold of the body `λ\n\x41 z"` (raw two-byte
    sequence, a simple escape, a numeric escape below 0x80) … -/
theorem ex_clean_string :
    runBody [0xCE, 0xBB, 0x5C, 0x6E, 0x5C, 0x78, 0x34, 0x31, 0x20, 0x7A, 0x22]
      (cleanString [0xCE, 0xBB, 0x0A, 0x41, 0x20, 0x7A]) = true := by decide +kernel

/-- … and the theorem applies to it -/
example : Utf8.valid [0xCE, 0xBB, 0x5C, 0x6E, 0x5C, 0x78, 0x34, 0x31, 0x20, 0x7A, 0x22] = true := by
  obtain ⟨r, fl, S', h, hp⟩ := runBody_spec ex_clean_string
  cases r with
  | unibyte b => simp [cleanString] at hp
  | multibyte s =>
    simp only [cleanString, Bool.and_eq_true, Bool.not_eq_true', beq_iff_eq] at hp
    obtain ⟨⟨⟨_, hhi⟩, hbl⟩, hrest⟩ := hp
    exact C17_elisp_input_valid h valid_nil (by rw [hrest]; simp [initSt]) hhi hbl

/-- more shapes that meet the hypotheses: `\u`, `\N{U+…}`, `\^a`, an escaped blank at a complete
    buffer, the catch-all arm with a lead byte (`\é`), a numeric escape above 0xFF -/
theorem ex_clean_string2 :
    runBody ([0x5C, 0x75, 0x30, 0x30, 0x65, 0x39] ++ asc "\\N{U+3bb}" ++ asc "\\^a" ++
        [0xC3, 0xA9, 0x5C, 0x20, 0x5C, 0xC3, 0xA9] ++ asc "\\x3bb\\ " ++ asc "\"")
      (cleanString [0xC3, 0xA9, 0xCE, 0xBB, 0x00, 0xC3, 0xA9, 0xC3, 0xA9, 0xCE, 0xBB]) = true := by
  decide +kernel

/-- the hypotheses of `C17_elisp_input_valid_unibyte` hold of the body `a\xff\ \101"` -/
theorem ex_clean_bytes :
    runBody (asc "a\\xff\\ \\101\"") (cleanBytes [0x61, 0xFF, 0x41]) = true := by decide +kernel

example : Utf8.valid (asc "a\\xff\\ \\101\"") = true := by
  obtain ⟨r, fl, S', h, hp⟩ := runBody_spec ex_clean_bytes
  cases r with
  | multibyte s => simp [cleanBytes] at hp
  | unibyte b =>
    simp only [cleanBytes, Bool.and_eq_true, Bool.not_eq_true', beq_iff_eq] at hp
    obtain ⟨⟨_, hnc⟩, hrest⟩ := hp
    exact (C17_elisp_input_valid_unibyte h (by rw [hrest]; simp [initSt]) hnc).2

/-- **Finding 1 (recorded)**, seen by the instrumented loop: the body C3 `\xa9"` is not valid
    UTF-8, is accepted as `é`, and raises `hi` only.  (Whole reader:
    `numeric_escape_completes_sequence`.) -/
theorem hi_is_needed :
    Utf8.valid [0xC3, 0x5C, 0x78, 0x61, 0x39, 0x22] = false ∧
    runBody [0xC3, 0x5C, 0x78, 0x61, 0x39, 0x22] (fun r fl rest =>
      cleanString [0xC3, 0xA9] r { fl with hi := false } rest && fl.hi) = true := by
  decide +kernel

/-- **Finding 2, repaired**: the escaped blank is ignored, so it could stand INSIDE a sequence: the
    body C3 `\ ` A9 `"` is not valid UTF-8 and was accepted as `é` (c74523a).  With the check of
    the byte behind the blank the instrumented loop fails on that body and the whole reader rejects
    `"` C3 `\ ` A9 `"` with `InvalidUnicodeCodePoint`. -/
theorem escaped_blank_inside_sequence_rejected :
    Utf8.valid [0xC3, 0x5C, 0x20, 0xA9, 0x22] = false ∧
    runBody [0xC3, 0x5C, 0x20, 0xA9, 0x22] (fun _ _ _ => true) = false ∧
    Utf8.valid [0x22, 0xC3, 0x5C, 0x20, 0xA9, 0x22] = false ∧
    rejectsWith cfgEl [0x22, 0xC3, 0x5C, 0x20, 0xA9, 0x22] .invalidUnicodeCodePoint = true := by
  decide +kernel

/-- `bl` can still rise on a successful run with a STRING result — together with `hi`: the body
    C3 `\ \xa9"` (the blank is followed by a backslash, the numeric escape completes the
    sequence) is accepted as `é`.  So "`bl` is never set" is false; what holds is
    `C17_elisp_input_valid_noblank`. -/
theorem bl_still_set_string :
    runBody [0xC3, 0x5C, 0x20, 0x5C, 0x78, 0x61, 0x39, 0x22] (fun r fl rest =>
      cleanString [0xC3, 0xA9] r { fl with hi := false, bl := false } rest && fl.bl && fl.hi) = true := by
  decide +kernel

/-- `bl` is still needed in `C17_elisp_input_sync` for a BYTE string: the body `\x41\` C3 `\ "`
    is accepted as the bytes 41 C3 with `hi` down and `bl` up; the body in front of the closing
    quote kills the automaton, the bytes returned leave it inside a sequence. -/
theorem bl_needed_for_sync :
    runBody [0x5C, 0x78, 0x34, 0x31, 0x5C, 0xC3, 0x5C, 0x20, 0x22] (fun r fl rest =>
      cleanBytes [0x41, 0xC3] r { fl with nc := false } rest && !fl.hi && fl.bl) = true ∧
    (Utf8.run .idle [0x5C, 0x78, 0x34, 0x31, 0x5C, 0xC3, 0x5C, 0x20]).isNone = true ∧
    (Utf8.run .idle [0x41, 0xC3]).isSome = true := by
  decide +kernel

/-- the hypotheses of `C17_elisp_input_valid_noblank` hold of a body with an escaped blank behind
    an incomplete buffer … there is none that is accepted with `hi` down (the theorem), so the
    example has the blank behind a complete buffer and `bl` is simply not asked for -/
example : Utf8.valid [0xC3, 0xA9, 0x5C, 0x20, 0x7A, 0x22] = true := by
  have hrun : runBody [0xC3, 0xA9, 0x5C, 0x20, 0x7A, 0x22] (cleanString [0xC3, 0xA9, 0x7A]) = true := by
    decide +kernel
  obtain ⟨r, fl, S', h, hp⟩ := runBody_spec hrun
  cases r with
  | unibyte b => simp [cleanString] at hp
  | multibyte s =>
    simp only [cleanString, Bool.and_eq_true, Bool.not_eq_true', beq_iff_eq] at hp
    obtain ⟨⟨⟨_, hhi⟩, _⟩, hrest⟩ := hp
    exact C17_elisp_input_valid_noblank h valid_nil (by rw [hrest]; simp [initSt]) hhi

/-- **Finding 3 (new)**: the catch-all escape arm consumes a byte ≥ 0xC0 after the backslash
    without setting `seen_non_ascii`, so with a numeric escape elsewhere the result is a byte
    string, which is never validated.  The body `\` C3 `\x41"` is not valid UTF-8 and is accepted
    as the bytes C3 41, raising `nc` only.  Confirmed on the real code (c74523a), slice and
    reader: `Ok(Bytes([195, 65]))`. -/
theorem unibyte_catchall_raw_byte :
    Utf8.valid [0x5C, 0xC3, 0x5C, 0x78, 0x34, 0x31, 0x22] = false ∧
    runBody [0x5C, 0xC3, 0x5C, 0x78, 0x34, 0x31, 0x22] (fun r fl rest =>
      cleanBytes [0xC3, 0x41] r { fl with nc := false } rest && fl.nc && !fl.hi && !fl.bl) = true ∧
    parsesTo cfgEl [0x22, 0x5C, 0xC3, 0x5C, 0x78, 0x34, 0x31, 0x22] (.bytes [0xC3, 0x41]) = true := by
  decide +kernel

/-- the hypotheses of `C17_elisp_token_input_valid` are met by the token `"λ\n\x41 z"` under the
    Emacs Lisp options -/
example :
    (match parseToken cfgEl 100 34
        (initSt .slice [0x22, 0xCE, 0xBB, 0x5C, 0x6E, 0x5C, 0x78, 0x34, 0x31, 0x20, 0x7A, 0x22]) with
      | .ok (.string s) S' => s == [0xCE, 0xBB, 0x0A, 0x41, 0x20, 0x7A] && S'.rd.rest == []
      | _ => false) = true ∧ cfgEl.opts.string = .elisp :=
  ⟨by decide +kernel, rfl⟩

/-- the repaired arm: a backslash followed by a continuation byte is still an error -/
example : rejectsWith cfgEl [0x22, 0xC3, 0x5C, 0xA9, 0x22] .invalidUnicodeCodePoint = true := by
  decide +kernel

end InLoop
end Parse
end Lexpr
