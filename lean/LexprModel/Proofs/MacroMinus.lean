/-
  C09 — a free-standing `-` before a string or character literal, end to end.

  Since the repair 70c5316 of lexpr-macros/src/parser.rs the macro takes a free-standing `-` for the
  sign of the following literal only when that literal is numeric; `WF` (MacroSpec: `sepOk`,
  `startsNum`) accordingly excludes only `-` directly before an integer or float literal.  The trees
  `(- "s")`, `(- 'a')`, `(- "s" 1)` are therefore inside `C09_agree`, `C09_agree_full` and the
  unquote theorems; this file instantiates them (macro on the Rust tokens = parser on the text =
  the list that starts with the symbol `-`).  Macro side alone: `minus_before_string_tokens`,
  `C09_expand_minus_before_string` in MacroSpec; the condition that remains is necessary:
  `minus_before_number_witness` there.
-/
import LexprModel.Proofs.MacroText2
import LexprModel.Proofs.MacroUnquote
namespace Lexpr
namespace Macro
open Print
open Parse.ListRT

/-- `(- "s")` -/
def minusStr : Doc := .list [.psym [45], .str (asc "s") (asc "s")]
/-- `(- 'a')`, as S-expression text `(- #\a)` -/
def minusChr : Doc := .list [.psym [45], .chr 97]
/-- `(- "s" 1)` -/
def minusStrInt : Doc := .list [.psym [45], .str (asc "s") (asc "s"), .int 1]

theorem minus_docs_wf : WF minusStr ∧ WF minusChr ∧ WF minusStrInt := by decide
theorem minus_docs_ok : TextOK minusStr ∧ TextOK minusChr ∧ TextOK minusStrInt := by decide
theorem minus_docs_text : stext minusStr = asc "(- \"s\")" ∧ stext minusChr = asc "(- #\\a)" ∧
    stext minusStrInt = asc "(- \"s\" 1)" := by decide

theorem minus_docs_value (env : Tok → Value) :
    valueOf env minusStr = Value.list [.symbol [45], .string (asc "s")] ∧
    valueOf env minusChr = Value.list [.symbol [45], .char 97] ∧
    valueOf env minusStrInt = Value.list [.symbol [45], .string (asc "s"), .number (.pos 1)] := by
  simp [minusStr, minusChr, minusStrInt, valueOf, valueOfL, Number.ofSigned]

/-- **`(- "s")` through `C09_agree`**: `sexp!((- "s"))` and `from_slice("(- \"s\")")` are both the
    two-element list of the symbol `-` and the string `s`. -/
theorem C09_agree_minus_string (env : Tok → Value) (cfg : Parse.Cfg)
    (ho : cfg.opts = Parse.Options.default) :
    expand env (toks minusStr) = some (Value.list [.symbol [45], .string (asc "s")]) ∧
      ∃ s', Parse.fromTrait cfg (Parse.initSt .slice (asc "(- \"s\")")) =
          .ok (Value.list [.symbol [45], .string (asc "s")]) s' ∧
        s'.rd.rest = [] ∧ s'.depth = 128 := by
  have h := C09_agree env cfg ho minusStr minus_docs_wf.1 minus_docs_ok.1 (by decide) (by decide)
  rw [minus_docs_text.1, (minus_docs_value env).1] at h
  exact h

/-- **`(- 'a')` through `C09_agree`**: the symbol `-` and the character `a` -/
theorem C09_agree_minus_char (env : Tok → Value) (cfg : Parse.Cfg)
    (ho : cfg.opts = Parse.Options.default) :
    expand env (toks minusChr) = some (Value.list [.symbol [45], .char 97]) ∧
      ∃ s', Parse.fromTrait cfg (Parse.initSt .slice (asc "(- #\\a)")) =
          .ok (Value.list [.symbol [45], .char 97]) s' ∧
        s'.rd.rest = [] ∧ s'.depth = 128 := by
  have h := C09_agree env cfg ho minusChr minus_docs_wf.2.1 minus_docs_ok.2.1 (by decide)
    (by decide)
  rw [minus_docs_text.2.1, (minus_docs_value env).2.1] at h
  exact h

/-- **`(- "s" 1)` through `C09_agree`** -/
theorem C09_agree_minus_string_int (env : Tok → Value) (cfg : Parse.Cfg)
    (ho : cfg.opts = Parse.Options.default) :
    expand env (toks minusStrInt) =
        some (Value.list [.symbol [45], .string (asc "s"), .number (.pos 1)]) ∧
      ∃ s', Parse.fromTrait cfg (Parse.initSt .slice (asc "(- \"s\" 1)")) =
          .ok (Value.list [.symbol [45], .string (asc "s"), .number (.pos 1)]) s' ∧
        s'.rd.rest = [] ∧ s'.depth = 128 := by
  have h := C09_agree env cfg ho minusStrInt minus_docs_wf.2.2 minus_docs_ok.2.2 (by decide)
    (by decide)
  rw [minus_docs_text.2.2, (minus_docs_value env).2.2] at h
  exact h

/-! ## Through `C09_agree_full` (any build, strings of arbitrary content) -/

/-- `(- "s")`, `(- 'a')` and `(- "a\"b" 1.5)`-style trees as `Sx` -/
def minusStrSx : Sx := .list [.leaf (.psym [45]), .leaf (.str (asc "s") (asc "s"))]
def minusChrSx : Sx := .list [.leaf (.psym [45]), .leaf (.chr 97)]
/-- `(- "a\"b" 1)`: the string literal has the source text `a\"b` and the value `a"b` -/
def minusEscSx : Sx :=
  .list [.leaf (.psym [45]), .leaf (.str (asc "a\\\"b") (asc "a\"b")), .leaf (.int 1)]

theorem minusSx_erase : erase minusStrSx = minusStr ∧ erase minusChrSx = minusChr := by
  constructor <;> rfl

theorem minusSx_ok (cfg : Parse.Cfg) :
    TextOK2 cfg minusStrSx ∧ TextOK2 cfg minusChrSx ∧ TextOK2 cfg minusEscSx := by
  refine ⟨?_, ?_, ?_⟩ <;>
    simp only [TextOK2, minusStrSx, minusChrSx, minusEscSx, textOk2, textOkL2, LeafOK, and_true]
  · exact ⟨Or.inl (by decide), by decide⟩
  · exact ⟨Or.inl (by decide), by decide⟩
  · exact ⟨Or.inl (by decide), by decide, by decide⟩

/-- **`(- "s")` through `C09_agree_full`**, in every build -/
theorem C09_agree_full_minus_string (env : Tok → Value) (cfg : Parse.Cfg)
    (ho : cfg.opts = Parse.Options.default) :
    expand env (toks (erase minusStrSx)) = some (Value.list [.symbol [45], .string (asc "s")]) ∧
      ∃ s', Parse.fromTrait cfg (Parse.initSt .slice (asc "(- \"s\")")) =
          .ok (Value.list [.symbol [45], .string (asc "s")]) s' ∧
        s'.rd.rest = [] ∧ s'.depth = 128 := by
  have h := C09_agree_full env cfg ho minusStrSx (by decide) (minusSx_ok cfg).1 (by decide)
    (by decide)
  have ht : stext2 minusStrSx = asc "(- \"s\")" := by decide
  rw [ht, minusSx_erase.1, (minus_docs_value env).1] at h
  exact h

/-- **`(- 'a')` through `C09_agree_full`**, in every build -/
theorem C09_agree_full_minus_char (env : Tok → Value) (cfg : Parse.Cfg)
    (ho : cfg.opts = Parse.Options.default) :
    expand env (toks (erase minusChrSx)) = some (Value.list [.symbol [45], .char 97]) ∧
      ∃ s', Parse.fromTrait cfg (Parse.initSt .slice (asc "(- #\\a)")) =
          .ok (Value.list [.symbol [45], .char 97]) s' ∧
        s'.rd.rest = [] ∧ s'.depth = 128 := by
  have h := C09_agree_full env cfg ho minusChrSx (by decide) (minusSx_ok cfg).2.1 (by decide)
    (by decide)
  have ht : stext2 minusChrSx = asc "(- #\\a)" := by decide
  rw [ht, minusSx_erase.2, (minus_docs_value env).2.1] at h
  exact h

/-- `(- "a\"b" 1)` through `C09_agree_full`: a string that needs an escape after the symbol `-` -/
theorem C09_agree_full_minus_escaped (env : Tok → Value) (cfg : Parse.Cfg)
    (ho : cfg.opts = Parse.Options.default) :
    expand env (toks (erase minusEscSx)) =
        some (Value.list [.symbol [45], .string (asc "a\"b"), .number (.pos 1)]) ∧
      ∃ s', Parse.fromTrait cfg (Parse.initSt .slice (asc "(- \"a\\\"b\" 1)")) =
          .ok (Value.list [.symbol [45], .string (asc "a\"b"), .number (.pos 1)]) s' ∧
        s'.rd.rest = [] ∧ s'.depth = 128 := by
  have h := C09_agree_full env cfg ho minusEscSx (by decide) (minusSx_ok cfg).2.2 (by decide)
    (by decide)
  have ht : stext2 minusEscSx = asc "(- \"a\\\"b\" 1)" := by decide
  have hv : valueOf env (erase minusEscSx) =
      Value.list [.symbol [45], .string (asc "a\"b"), .number (.pos 1)] := by
    simp [minusEscSx, erase, eraseL, valueOf, valueOfL, Number.ofSigned]
  rw [ht, hv] at h
  exact h

/-! ## With an unquote -/

/-- `(- "s" . ,e)`: the symbol `-`, the string, consed onto `Value::from(e)`
    (`C09_unquote_tail_atom`); with `e` a list the list continues (`C09_unquote_tail_list`) -/
theorem C09_unquote_minus_string (env : Tok → Value) (e : Tok) :
    expand env (toks (.dotted [.psym [45], .str (asc "s") (asc "s")] (.unq e))) =
      some (.cons (.symbol [45]) (.cons (.string (asc "s")) (env e))) ∧
    (∀ ys, env e = Value.list ys →
      expand env (toks (.dotted [.psym [45], .str (asc "s") (asc "s")] (.unq e))) =
        some (Value.list (.symbol [45] :: .string (asc "s") :: ys))) := by
  refine ⟨?_, fun ys h => ?_⟩
  · simpa [valueOf, Value.append] using
      C09_unquote_tail_atom env [.psym [45], .str (asc "s") (asc "s")] e (by decide) (by decide)
  · simpa [valueOf] using
      C09_unquote_tail_list env [.psym [45], .str (asc "s") (asc "s")] e ys h (by decide)
        (by decide)

/-- `C09_unquote_agree` on `(- 'a' ,x)` with `x = "s"`: the macro on the tokens and the parser on
    the text `(- #\a "s")` agree -/
theorem C09_unquote_agree_minus_char (cfg : Parse.Cfg) (ho : cfg.opts = Parse.Options.default)
    (env : Tok → Value) (hx : env tokX = .string (asc "s"))
    (hother : ∀ t, t ≠ tokX → env t = .nil) :
    expand env (toks (.list [.psym [45], .chr 97, .unq tokX])) =
        some (Value.list [.symbol [45], .char 97, .string (asc "s")]) ∧
      ∃ s', Parse.fromTrait cfg (Parse.initSt .slice (asc "(- #\\a \"s\")")) =
          .ok (Value.list [.symbol [45], .char 97, .string (asc "s")]) s' ∧
        s'.rd.rest = [] ∧ s'.depth = 128 := by
  classical
  let σ : Tok → Doc := fun t => if t = tokX then .str (asc "s") (asc "s") else .nil
  have hσ : ∀ t, env t = valueOf env (σ t) := by
    intro t
    by_cases h1 : t = tokX
    · subst h1; simp [σ, hx, valueOf]
    · simp [σ, h1, hother t h1, valueOf]
  have hp : plug σ (.list [.psym [45], .chr 97, .unq tokX]) =
      .list [.psym [45], .chr 97, .str (asc "s") (asc "s")] := by
    simp [plug, plugL, σ]
  have ht : stext (plug σ (.list [.psym [45], .chr 97, .unq tokX])) = asc "(- #\\a \"s\")" := by
    rw [hp]; decide
  have hv : valueOf env (.list [.psym [45], .chr 97, .unq tokX]) =
      Value.list [.symbol [45], .char 97, .string (asc "s")] := by
    simp [valueOf, valueOfL, hx]
  have := C09_unquote_agree env cfg ho σ hσ (.list [.psym [45], .chr 97, .unq tokX]) (by decide)
    (by rw [hp]; decide) (by rw [hp]; decide) (by decide)
  rw [ht, hv] at this
  exact this

#print axioms C09_agree_minus_string
#print axioms C09_agree_minus_char
#print axioms C09_agree_minus_string_int
#print axioms C09_agree_full_minus_string
#print axioms C09_agree_full_minus_char
#print axioms C09_agree_full_minus_escaped
#print axioms C09_unquote_minus_string
#print axioms C09_unquote_agree_minus_char

end Macro
end Lexpr
