/-
  The byte-slice and the stream source behave alike.

  `Twin s1 s2`: same unread input, position, `faulty` flag and depth, and both sources are a `&str`
  or neither is (so both validate UTF-8 or neither does); the `peeked` flags may differ.
  `SRel m`: run from twin states, `m` gives the same outcome on both sides — the same value and
  twin states, or errors with the same code (the line/column attached to a `peek_error` may differ:
  that is the one thing `peeked` and the mode influence) and twin states, or the same panic, or
  both run out of fuel.  Every function of the model is `SRel`.
-/
import LexprModel.Proofs.SpansRel
namespace Lexpr
namespace Parse
namespace Spans
open Progress

/-- same unread input, position, `faulty`, depth; both `&str` or neither -/
structure Twin (s1 s2 : St) : Prop where
  rest : s1.rd.rest = s2.rd.rest
  line : s1.rd.line = s2.rd.line
  col : s1.rd.col = s2.rd.col
  faulty : s1.rd.faulty = s2.rd.faulty
  depth : s1.depth = s2.depth
  str : s1.rd.mode = .str ↔ s2.rd.mode = .str

theorem Twin.same {s1 s2 : St} (h : Twin s1 s2) : Same s1 s2 := ⟨h.rest, h.line, h.col⟩

theorem Twin.position {s1 s2 : St} (h : Twin s1 s2) : s1.rd.position = s2.rd.position :=
  h.same.position

/-- errors that differ at most in the attached position -/
def sameCode : Err → Err → Prop
  | .syntax c _ _, .syntax c' _ _ => c = c'
  | .io, .io => True
  | _, _ => False

theorem sameCode_refl (e : Err) : sameCode e e := by cases e <;> simp [sameCode]

/-- the same outcome up to error positions, values related by `V` -/
def ResSim {α α' : Type} (V : α → α' → Prop) : Res α → Res α' → Prop
  | .ok a s1, .ok b s2 => V a b ∧ Twin s1 s2
  | .err e1 s1, .err e2 s2 => sameCode e1 e2 ∧ Twin s1 s2
  | .panic p, .panic q => p = q
  | .fuel, .fuel => True
  | _, _ => False

/-- two programs with the same outcome from twin states, values related by `V` -/
def SRelV {α α' : Type} (V : α → α' → Prop) (m : P α) (m' : P α') : Prop :=
  ∀ s1 s2, Twin s1 s2 → ResSim V (m s1) (m' s2)

/-- two programs with the same outcome (equal values) from twin states -/
def SRel2 {α : Type} (m m' : P α) : Prop := SRelV Eq m m'

/-- `m` behaves alike on twin states -/
def SRel {α : Type} (m : P α) : Prop := SRel2 m m

/-- results captured by `attempt`: equal values or errors with the same code -/
def ExRel {α : Type} : Except Err α → Except Err α → Prop
  | .ok a, .ok b => a = b
  | .error e1, .error e2 => sameCode e1 e2
  | _, _ => False

section rules
variable {α β α' β' : Type}

theorem SRelV.bind {V : α → α' → Prop} {W : β → β' → Prop} {m : P α} {m' : P α'}
    {f : α → P β} {f' : α' → P β'} (hm : SRelV V m m')
    (hf : ∀ a b, V a b → SRelV W (f a) (f' b)) : SRelV W (m >>= f) (m' >>= f') := by
  intro s1 s2 hs
  have h := hm s1 s2 hs
  show ResSim W (P.bind m f s1) (P.bind m' f' s2)
  unfold P.bind
  cases h1 : m s1 <;> cases h2 : m' s2 <;> simp only [h1, h2, ResSim] at h ⊢ <;>
    first
    | exact h
    | exact hf _ _ h.1 _ _ h.2

theorem SRelV.attempt {m m' : P α} (hm : SRel2 m m') :
    SRelV ExRel (attempt m) (attempt m') := by
  intro s1 s2 hs
  have h := hm s1 s2 hs
  unfold Parse.attempt
  cases h1 : m s1 <;> cases h2 : m' s2 <;> simp only [h1, h2, ResSim] at h ⊢ <;> exact h

theorem SRel2.bind {m m' : P α} {f f' : α → P β} (hm : SRel2 m m')
    (hf : ∀ a, SRel2 (f a) (f' a)) : SRel2 (m >>= f) (m' >>= f') :=
  SRelV.bind hm (fun a b hab => by cases hab; exact hf a)

theorem SRel.bind {m : P α} {f : α → P β} (hm : SRel m) (hf : ∀ a, SRel (f a)) :
    SRel (m >>= f) := SRel2.bind hm hf

theorem SRel.pure {a : α} : SRel (Pure.pure a : P α) := fun _ _ hs => ⟨rfl, hs⟩
theorem SRel.errAt {c : Code} : SRel (errAt c : P α) := fun _ _ hs => ⟨rfl, hs⟩
theorem SRel.peekErr {c : Code} : SRel (peekErr c : P α) := fun _ _ hs => ⟨rfl, hs⟩
theorem SRel.panicAt {p : Site} : SRel (panicAt p : P α) := fun _ _ _ => rfl
theorem SRel.outOfFuel : SRel (outOfFuel : P α) := fun _ _ _ => trivial
theorem SRel2.rawErr {e1 e2 : Err} (h : sameCode e1 e2) :
    SRel2 (fun s' => Res.err e1 s' : P α) (fun s' => Res.err e2 s') := fun _ _ hs => ⟨h, hs⟩
theorem SRel.rawErr {e : Err} : SRel (fun s' => Res.err e s' : P α) :=
  SRel2.rawErr (sameCode_refl e)
theorem SRel2.liftErr {e1 e2 : Err} (h : sameCode e1 e2) :
    SRel2 (liftExcept (.error e1) : P α) (liftExcept (.error e2)) := fun _ _ hs => ⟨h, hs⟩
theorem SRel.liftExcept {r : Except Err α} : SRel (liftExcept r) := by
  cases r with
  | ok a => exact SRel.pure
  | error e => exact SRel2.liftErr (sameCode_refl e)

theorem SRel2.ite {c : Prop} [Decidable c] {A B A' B' : P α} (hA : SRel2 A A') (hB : SRel2 B B') :
    SRel2 (if c then A else B) (if c then A' else B') := by
  split
  · exact hA
  · exact hB

theorem SRel.ite {c : Prop} [Decidable c] {A B : P α} (hA : SRel A) (hB : SRel B) :
    SRel (if c then A else B) := SRel2.ite hA hB

theorem SRel.reader {g : St → α} (hg : ∀ s1 s2, Twin s1 s2 → g s1 = g s2) :
    SRel (fun s => Res.ok (g s) s : P α) := fun s1 s2 hs => ⟨hg s1 s2 hs, hs⟩

theorem SRel.getRest : SRel getRest := SRel.reader fun _ _ h => h.rest
theorem SRel.getPos : SRel getPos := SRel.reader fun _ _ h => h.position
theorem SRel.tokenFuel : SRel tokenFuel := SRel.reader fun _ _ h => by rw [h.rest]
theorem SRel.apiFuel : SRel apiFuel := SRel.reader fun _ _ h => by rw [h.rest]

theorem Twin.consume {s1 s2 : St} (h : Twin s1 s2) (n : Nat) :
    Twin { s1 with rd := s1.rd.consume n } { s2 with rd := s2.rd.consume n } := by
  obtain ⟨h1, h2, h3⟩ := consume_same n _ _ h.rest h.line h.col
  exact ⟨h1, h2, h3, by simp only [consume_faulty]; exact h.faulty, h.depth,
    by simp only [consume_mode]; exact h.str⟩

theorem SRel.consumeN {n : Nat} : SRel (consumeN n) := fun _ _ hs => ⟨rfl, hs.consume n⟩

theorem SRel.peek : SRel peek := by
  intro s1 s2 hs
  unfold Parse.peek
  rw [← hs.rest, ← hs.faulty]
  cases hr : s1.rd.rest with
  | nil =>
    by_cases hf : s1.rd.faulty = true
    · simp only [hf, if_true]; exact ⟨trivial, hs⟩
    · simp only [hf]; exact ⟨rfl, hs⟩
  | cons b bs =>
    exact ⟨rfl, hs.rest, hs.line, hs.col, hs.faulty, hs.depth, hs.str⟩

theorem SRel.next : SRel next := by
  intro s1 s2 hs
  unfold Parse.next
  rw [← hs.rest, ← hs.faulty]
  cases hr : s1.rd.rest with
  | nil =>
    by_cases hf : s1.rd.faulty = true
    · simp only [hf, if_true]; exact ⟨trivial, hs⟩
    · simp only [hf]; exact ⟨rfl, hs⟩
  | cons b bs => exact ⟨rfl, hs.consume 1⟩

theorem SRel.discard : SRel discard := by
  intro s1 s2 hs
  unfold Parse.discard
  rw [← hs.rest]
  cases hr : s1.rd.rest with
  | nil => rfl
  | cons b bs => exact ⟨rfl, hs.consume 1⟩

theorem SRel.enter : SRel enter := by
  intro s1 s2 hs
  unfold Parse.enter
  rw [← hs.depth]
  split
  · rfl
  · split
    · exact ⟨rfl, hs⟩
    · exact ⟨rfl, hs.rest, hs.line, hs.col, hs.faulty, by simp [hs.depth], hs.str⟩

theorem SRel.leave : SRel leave := fun _ _ hs =>
  ⟨rfl, hs.rest, hs.line, hs.col, hs.faulty, by simp [hs.depth], hs.str⟩

/-- the mode is only asked whether it is `&str` -/
theorem SRel.bind_getMode {f : Mode → P β}
    (hf : ∀ m1 m2, (m1 = .str ↔ m2 = .str) → SRel2 (f m1) (f m2)) : SRel (getMode >>= f) :=
  fun s1 s2 hs => hf s1.rd.mode s2.rd.mode hs.str s1 s2 hs

/-- the whole state is only read for the position of an error -/
theorem SRel.bind_getSt {f : St → P β} (hf : ∀ sa sb, SRel2 (f sa) (f sb)) :
    SRel ((fun s => Res.ok s s : P St) >>= f) :=
  fun s1 s2 hs => hf s1 s2 s1 s2 hs

/-- `attempt m`, then a step `k`, then a continuation that re-raises a captured error: the shape
    of the quotation arm (`k = leave`) -/
theorem SRel.attempt_then {γ : Type} {m : P α} {k : P γ} {K : Except Err α → P β} {G : α → P β}
    (hm : SRel m) (hk : SRel k)
    (hE : ∀ e, K (Except.error e) = Parse.liftExcept (Except.error e))
    (hG : ∀ a, K (Except.ok a) = G a)
    (hg : ∀ a, SRel (G a)) : SRel (attempt m >>= fun ret => k >>= fun _ => K ret) := by
  refine SRelV.bind (SRelV.attempt hm) fun r1 r2 hr => ?_
  refine SRelV.bind hk fun _ _ _ => ?_
  cases r1 <;> cases r2 <;> simp only [ExRel] at hr
  · rw [hE, hE]; exact SRel2.liftErr hr
  · subst hr; rw [hG]; exact hg _

/-- the shape of the list and vector arms: `attempt m; leave; attempt e; match` -/
theorem SRel.attempt_attempt {γ δ : Type} {m : P α} {k : P γ} {e : P δ}
    {K : Except Err α → Except Err δ → P β} {G : α → δ → P β}
    (hm : SRel m) (hk : SRel k) (he : SRel e)
    (hE1 : ∀ err es, K (Except.error err) es = Parse.liftExcept (Except.error err))
    (hE2 : ∀ a err, K (Except.ok a) (Except.error err) = Parse.liftExcept (Except.error err))
    (hG : ∀ a d, K (Except.ok a) (Except.ok d) = G a d)
    (hg : ∀ a d, SRel (G a d)) :
    SRel (attempt m >>= fun ret => k >>= fun _ => attempt e >>= fun es => K ret es) := by
  refine SRelV.bind (SRelV.attempt hm) fun r1 r2 hr => ?_
  refine SRelV.bind hk fun _ _ _ => ?_
  refine SRelV.bind (SRelV.attempt he) fun es1 es2 hes => ?_
  cases r1 <;> cases r2 <;> simp only [ExRel] at hr
  · rw [hE1, hE1]; exact SRel2.liftErr hr
  · subst hr
    cases es1 <;> cases es2 <;> simp only [ExRel] at hes
    · rw [hE2, hE2]; exact SRel2.liftErr hes
    · subst hes; rw [hG]; exact hg _ _

end rules

syntax "srel_wp" "[" term,* "]" : tactic
macro_rules
  | `(tactic| srel_wp [$ts,*]) => `(tactic| repeat' (first
      | pi_intro
      | contradiction
      | (prog_head Pure.pure; exact SRel.pure)
      | (prog_head Lexpr.Parse.errAt; exact SRel.errAt)
      | (prog_head Lexpr.Parse.peekErr; exact SRel.peekErr)
      | (prog_head Lexpr.Parse.panicAt; exact SRel.panicAt)
      | (prog_head Lexpr.Parse.outOfFuel; exact SRel.outOfFuel)
      | (prog_head Lexpr.Parse.liftExcept; exact SRel.liftExcept)
      | (prog_head Lexpr.Parse.getRest; exact SRel.getRest)
      | (prog_head Lexpr.Parse.getPos; exact SRel.getPos)
      | (prog_head Lexpr.Parse.tokenFuel; exact SRel.tokenFuel)
      | (prog_head Lexpr.Parse.apiFuel; exact SRel.apiFuel)
      | (prog_head Lexpr.Parse.peek; exact SRel.peek)
      | (prog_head Lexpr.Parse.next; exact SRel.next)
      | (prog_head Lexpr.Parse.discard; exact SRel.discard)
      | (prog_head Lexpr.Parse.consumeN; exact SRel.consumeN)
      | (prog_head Lexpr.Parse.enter; exact SRel.enter)
      | (prog_head Lexpr.Parse.leave; exact SRel.leave)
      | (prog_head Bind.bind; first
          | (prog_bind_lam; refine SRel.bind_getSt ?_; intro _ _;
              exact SRel2.bind SRel.discard (fun _ => SRel2.rawErr rfl))
          | (prog_bind_head Lexpr.Parse.attempt; first
              | refine SRel.attempt_attempt ?_ SRel.leave ?_
                  (by intro _ es; first | rfl | (cases es <;> rfl))
                  (by intro a _; first | rfl | (cases a <;> rfl)) (fun _ _ => rfl) ?_
              | refine SRel.attempt_then ?_ SRel.leave (by intro _; rfl) (fun _ => rfl) ?_)
          | refine SRel.bind ?_ ?_)
      | (prog_head ite; refine SRel.ite ?_ ?_)
      | (prog_lam; exact SRel.rawErr)
      $[| exact_call $ts]*
      | split
      | dsimp only))

theorem parseWhitespace_srel : SRel parseWhitespace := by
  unfold parseWhitespace; srel_wp []

theorem peekOrNull_srel : SRel peekOrNull := by
  unfold peekOrNull; srel_wp []

theorem nextOrNull_srel : SRel nextOrNull := by
  unfold nextOrNull; srel_wp []

theorem str_beq {m1 m2 : Mode} (h : m1 = .str ↔ m2 = .str) : (m1 == .str) = (m2 == .str) := by
  cases m1 <;> cases m2 <;> first | rfl | simp_all | decide

theorem parseSymbolBytes_srel {scratch : List UInt8} : SRel (parseSymbolBytes scratch) := by
  unfold parseSymbolBytes
  refine SRel.bind SRel.getRest fun rest => ?_
  refine SRel.bind_getMode fun m1 m2 hm => ?_
  dsimp only
  rw [symLen_mode m1, symLen_mode m2, str_beq hm]
  show SRel _
  srel_wp []

theorem finishStr_srel {c : Bool} {bs : List UInt8} : SRel (finishStr c bs) := by
  unfold finishStr
  refine SRel.bind_getMode fun m1 m2 hm => ?_
  rw [str_beq hm]
  show SRel _
  srel_wp []

theorem nextOrEof_srel : SRel nextOrEof := by
  unfold nextOrEof; srel_wp []

theorem nextOrEofChar_srel : SRel nextOrEofChar := by
  unfold nextOrEofChar; srel_wp []

theorem readCont_srel {n : Nat} {acc : List UInt8} : SRel (readCont n acc) := by
  induction n generalizing acc with
  | zero => unfold readCont; srel_wp []
  | succ n ih => unfold readCont; srel_wp [ih]

theorem decodeUtf8Sequence_srel {b : UInt8} : SRel (decodeUtf8Sequence b) := by
  unfold decodeUtf8Sequence; srel_wp [readCont_srel]

theorem decodeR6rsHexEscape_srel {fuel n : Nat} : SRel (decodeR6rsHexEscape fuel n) := by
  induction fuel generalizing n with
  | zero => unfold decodeR6rsHexEscape; srel_wp []
  | succ f ih => unfold decodeR6rsHexEscape; srel_wp [nextOrEof_srel, ih]

theorem parseR6rsEscape_srel {fuel : Nat} {acc : List UInt8} : SRel (parseR6rsEscape fuel acc) := by
  unfold parseR6rsEscape; srel_wp [nextOrEof_srel, decodeR6rsHexEscape_srel]

theorem parseR6rsStr_srel {fuel : Nat} {acc : List UInt8} : SRel (parseR6rsStr fuel acc) := by
  induction fuel generalizing acc with
  | zero => unfold parseR6rsStr; srel_wp []
  | succ f ih =>
    unfold parseR6rsStr; srel_wp [nextOrEof_srel, finishStr_srel, parseR6rsEscape_srel, ih]

theorem decodeElispHexEscape_srel {fuel n : Nat} : SRel (decodeElispHexEscape fuel n) := by
  induction fuel generalizing n with
  | zero => unfold decodeElispHexEscape; srel_wp []
  | succ f ih => unfold decodeElispHexEscape; srel_wp [ih]

theorem decodeElispUniEscape_srel {count n : Nat} : SRel (decodeElispUniEscape count n) := by
  induction count generalizing n with
  | zero => unfold decodeElispUniEscape; srel_wp []
  | succ f ih => unfold decodeElispUniEscape; srel_wp [nextOrEof_srel, ih]

theorem decodeElispOctalEscape_srel {fuel n : Nat} : SRel (decodeElispOctalEscape fuel n) := by
  induction fuel generalizing n with
  | zero => unfold decodeElispOctalEscape; srel_wp []
  | succ f ih => unfold decodeElispOctalEscape; srel_wp [ih]

theorem elispCharEscape_srel {acc : List UInt8} {n : Nat} : SRel (elispCharEscape acc n) := by
  unfold elispCharEscape; srel_wp []

theorem elispUniCharEscape_srel {acc : List UInt8} {n : Nat} :
    SRel (elispUniCharEscape acc n) := by
  unfold elispUniCharEscape; srel_wp []

theorem parseElispEscape_srel {fuel : Nat} {acc : List UInt8} :
    SRel (parseElispEscape fuel acc) := by
  unfold parseElispEscape
  srel_wp [nextOrEof_srel, decodeElispHexEscape_srel, decodeElispUniEscape_srel,
    decodeElispOctalEscape_srel, elispCharEscape_srel, elispUniCharEscape_srel]

theorem parseElispStr_srel {fuel : Nat} {acc : List UInt8} {ub mb na : Bool} :
    SRel (parseElispStr fuel acc ub mb na) := by
  induction fuel generalizing acc ub mb na with
  | zero => unfold parseElispStr; srel_wp []
  | succ f ih =>
    unfold parseElispStr; srel_wp [nextOrEof_srel, finishStr_srel, parseElispEscape_srel, ih]

theorem decodeR6rsCharHexEscape_srel {fuel n : Nat} {first : Bool} :
    SRel (decodeR6rsCharHexEscape fuel n first) := by
  induction fuel generalizing n first with
  | zero => unfold decodeR6rsCharHexEscape; srel_wp []
  | succ f ih => unfold decodeR6rsCharHexEscape; srel_wp [ih]

theorem parseR6rsChar_srel {fuel : Nat} : SRel (parseR6rsChar fuel) := by
  unfold parseR6rsChar
  srel_wp [nextOrEofChar_srel, decodeR6rsCharHexEscape_srel, decodeUtf8Sequence_srel]

theorem asChar_srel {n : Nat} : SRel (asChar n) := by
  unfold asChar; srel_wp []

theorem asEscapedChar_srel {n : Nat} : SRel (asEscapedChar n) := by
  unfold asEscapedChar; srel_wp [asChar_srel]

theorem decodeElispCharEscape_srel {fuel : Nat} : SRel (decodeElispCharEscape fuel) := by
  unfold decodeElispCharEscape
  srel_wp [nextOrEofChar_srel, nextOrEof_srel, decodeElispHexEscape_srel, decodeElispUniEscape_srel,
    decodeElispOctalEscape_srel, asChar_srel, asEscapedChar_srel, decodeUtf8Sequence_srel]

theorem parseElispChar_srel {fuel : Nat} : SRel (parseElispChar fuel) := by
  unfold parseElispChar
  srel_wp [decodeElispCharEscape_srel, decodeUtf8Sequence_srel]

theorem f64FromParts_srel {cfg : Cfg} {pos : Bool} {sig : Nat} {e : Int} :
    SRel (f64FromParts cfg pos sig e) := by
  unfold f64FromParts; srel_wp []

theorem skipDigits_srel : SRel skipDigits := by
  unfold skipDigits; srel_wp []

theorem parseExponentOverflow_srel {pos : Bool} {sig : Nat} {posExp : Bool} :
    SRel (parseExponentOverflow pos sig posExp) := by
  unfold parseExponentOverflow; srel_wp [skipDigits_srel]

theorem exponentLoop_srel {cfg : Cfg} {pos : Bool} {sig : Nat} {startExp : Int} {posExp : Bool}
    {fuel exp : Nat} : SRel (exponentLoop cfg pos sig startExp posExp fuel exp) := by
  induction fuel generalizing exp with
  | zero => unfold exponentLoop; srel_wp []
  | succ f ih =>
    unfold exponentLoop
    srel_wp [peekOrNull_srel, parseExponentOverflow_srel, f64FromParts_srel, ih]

theorem parseExponent_srel {cfg : Cfg} {fuel : Nat} {pos : Bool} {sig : Nat} {startExp : Int} :
    SRel (parseExponent cfg fuel pos sig startExp) := by
  unfold parseExponent; srel_wp [peekOrNull_srel, exponentLoop_srel]

theorem decimalLoop_srel {fuel sig : Nat} {exp : Int} {zeros : Nat} {any : Bool} :
    SRel (decimalLoop fuel sig exp zeros any) := by
  induction fuel generalizing sig exp zeros any with
  | zero => unfold decimalLoop; srel_wp []
  | succ f ih => unfold decimalLoop; srel_wp [peekOrNull_srel, skipDigits_srel, ih]

theorem parseDecimal_srel {cfg : Cfg} {fuel : Nat} {pos : Bool} {sig : Nat} {exp : Int} :
    SRel (parseDecimal cfg fuel pos sig exp) := by
  unfold parseDecimal
  srel_wp [peekOrNull_srel, decimalLoop_srel, parseExponent_srel, f64FromParts_srel]

theorem parseLongInteger_srel {cfg : Cfg} {radix : Nat} {pos : Bool} {sig fuel exp : Nat} :
    SRel (parseLongInteger cfg radix pos sig fuel exp) := by
  induction fuel generalizing exp with
  | zero => unfold parseLongInteger; srel_wp []
  | succ f ih =>
    unfold parseLongInteger
    generalize (2 : Nat) ^ 1024 = big
    srel_wp [peekOrNull_srel, parseDecimal_srel, parseExponent_srel, f64FromParts_srel, ih]

theorem parseNumTail_srel {cfg : Cfg} {fuel radix : Nat} {pos : Bool} {sig : Nat} :
    SRel (parseNumTail cfg fuel radix pos sig) := by
  unfold parseNumTail
  srel_wp [peekOrNull_srel, parseDecimal_srel, parseExponent_srel]

theorem numLoop_srel {cfg : Cfg} {radix : Nat} {pos : Bool} {fuel res : Nat} :
    SRel (numLoop cfg radix pos fuel res) := by
  induction fuel generalizing res with
  | zero => unfold numLoop; srel_wp []
  | succ f ih =>
    unfold numLoop
    srel_wp [peekOrNull_srel, parseNumTail_srel, parseLongInteger_srel, ih]

theorem parseNumLiteral_srel {cfg : Cfg} {fuel radix : Nat} {pos : Bool} :
    SRel (parseNumLiteral cfg fuel radix pos) := by
  unfold parseNumLiteral; srel_wp [numLoop_srel]

theorem parseRadixLiteral_srel {cfg : Cfg} {fuel radix : Nat} :
    SRel (parseRadixLiteral cfg fuel radix) := by
  unfold parseRadixLiteral; srel_wp [peekOrNull_srel, parseNumLiteral_srel]

theorem expectNumberEnd_srel {n : Number} : SRel (expectNumberEnd n) := by
  unfold expectNumberEnd; srel_wp []

theorem parseNumToken_srel {cfg : Cfg} {fuel : Nat} {pos : Bool} :
    SRel (parseNumToken cfg fuel pos) := by
  unfold parseNumToken; srel_wp [parseNumLiteral_srel, expectNumberEnd_srel]

theorem parseRadixToken_srel {cfg : Cfg} {fuel radix : Nat} :
    SRel (parseRadixToken cfg fuel radix) := by
  unfold parseRadixToken; srel_wp [parseRadixLiteral_srel, expectNumberEnd_srel]

theorem parseNumber_srel {cfg : Cfg} {fuel : Nat} : SRel (parseNumber cfg fuel) := by
  unfold parseNumber; srel_wp [peekOrNull_srel, nextOrNull_srel, parseRadixLiteral_srel]

theorem expectIdent_srel {cs : List UInt8} : SRel (expectIdent cs) := by
  induction cs with
  | nil => unfold expectIdent; srel_wp []
  | cons c cs ih => unfold expectIdent; srel_wp [ih]

theorem parseSignDotSymbol_srel {cfg : Cfg} {pfx : List UInt8} :
    SRel (parseSignDotSymbol cfg pfx) := by
  unfold parseSignDotSymbol; srel_wp [peekOrNull_srel, parseSymbolBytes_srel]

theorem parseSignToken_srel {cfg : Cfg} {fuel : Nat} {sign : UInt8} {pos : Bool} :
    SRel (parseSignToken cfg fuel sign pos) := by
  unfold parseSignToken
  srel_wp [peekOrNull_srel, parseSymbolBytes_srel, parseSignDotSymbol_srel, parseNumToken_srel]

theorem parseToken_srel {cfg : Cfg} {fuel : Nat} {pk : UInt8} : SRel (parseToken cfg fuel pk) := by
  unfold parseToken
  srel_wp [peekOrNull_srel, expectIdent_srel, parseSymbolBytes_srel, parseRadixToken_srel,
    parseR6rsChar_srel, parseSignToken_srel, parseNumToken_srel, parseR6rsStr_srel,
    parseElispStr_srel, parseElispChar_srel, decodeUtf8Sequence_srel]

theorem endSeq_srel {close : UInt8} : SRel (endSeq close) := by
  unfold endSeq; srel_wp [parseWhitespace_srel]

theorem byteListLoop_srel {cfg : Cfg} {close : UInt8} {fuel : Nat} {acc : List UInt8} :
    SRel (byteListLoop cfg close fuel acc) := by
  induction fuel generalizing acc with
  | zero => unfold byteListLoop; srel_wp []
  | succ f ih =>
    unfold byteListLoop
    srel_wp [parseWhitespace_srel, parseNumber_srel, expectNumberEnd_srel, ih]

theorem parseByteList_srel {cfg : Cfg} {close : UInt8} {fuel : Nat} :
    SRel (parseByteList cfg fuel close) := by
  unfold parseByteList; srel_wp [parseWhitespace_srel, byteListLoop_srel]

theorem value_srels (cfg : Cfg) : ∀ fuel : Nat,
    SRel (nextValue cfg fuel) ∧
    (∀ term acc, SRel (parseList cfg fuel term acc)) ∧
    (∀ term acc, SRel (parseVector cfg fuel term acc)) := by
  intro fuel
  induction fuel with
  | zero =>
    refine ⟨?_, ?_, ?_⟩
    · unfold nextValue; srel_wp []
    · intro term acc; unfold parseList; srel_wp []
    · intro term acc; unfold parseVector; srel_wp []
  | succ f ih =>
    refine ⟨?_, ?_, ?_⟩
    · unfold nextValue
      srel_wp [parseWhitespace_srel, parseToken_srel, parseByteList_srel, endSeq_srel, ih.1,
        ih.2.1 _ _, ih.2.2 _ _]
    · intro term acc
      unfold parseList
      srel_wp [parseWhitespace_srel, peekOrNull_srel, parseSymbolBytes_srel, ih.1, ih.2.1 _ _]
    · intro term acc
      unfold parseVector
      srel_wp [parseWhitespace_srel, ih.1, ih.2.2 _ _]

theorem datum_srels (cfg : Cfg) : ∀ fuel : Nat,
    SRel (nextDatum cfg fuel) ∧
    (∀ term acc ms, SRel (parseListMeta cfg fuel term acc ms)) ∧
    (∀ term acc ms, SRel (parseVectorMeta cfg fuel term acc ms)) := by
  intro fuel
  induction fuel with
  | zero =>
    refine ⟨?_, ?_, ?_⟩
    · unfold nextDatum; srel_wp []
    · intro term acc ms; unfold parseListMeta; srel_wp []
    · intro term acc ms; unfold parseVectorMeta; srel_wp []
  | succ f ih =>
    refine ⟨?_, ?_, ?_⟩
    · unfold nextDatum
      srel_wp [parseWhitespace_srel, parseToken_srel, parseByteList_srel, endSeq_srel, ih.1,
        ih.2.1 _ _ _, ih.2.2 _ _ _]
    · intro term acc ms
      unfold parseListMeta
      srel_wp [parseWhitespace_srel, peekOrNull_srel, parseSymbolBytes_srel, ih.1, ih.2.1 _ _ _]
    · intro term acc ms
      unfold parseVectorMeta
      srel_wp [parseWhitespace_srel, ih.1, ih.2.2 _ _ _]

theorem nextValueTop_srel {cfg : Cfg} : SRel (nextValueTop cfg) := by
  unfold nextValueTop; srel_wp [(value_srels cfg _).1]

theorem nextDatumTop_srel {cfg : Cfg} : SRel (nextDatumTop cfg) := by
  unfold nextDatumTop; srel_wp [(datum_srels cfg _).1]

theorem expectValue_srel {cfg : Cfg} : SRel (expectValue cfg) := by
  unfold expectValue; srel_wp [nextValueTop_srel]

theorem expectDatum_srel {cfg : Cfg} : SRel (expectDatum cfg) := by
  unfold expectDatum; srel_wp [nextDatumTop_srel]

theorem expectEnd_srel : SRel expectEnd := by
  unfold expectEnd; srel_wp [parseWhitespace_srel]

theorem fromTrait_srel {cfg : Cfg} : SRel (fromTrait cfg) := by
  unfold fromTrait; srel_wp [expectValue_srel, expectEnd_srel]

theorem fromTraitDatum_srel {cfg : Cfg} : SRel (fromTraitDatum cfg) := by
  unfold fromTraitDatum; srel_wp [expectDatum_srel, expectEnd_srel]



end Spans
end Parse
end Lexpr
