/-
  Truncation (C19): the lexer, part 3 (symbols, signs, `parse_token`).
-/
import LexprModel.Proofs.TruncNum
set_option linter.unusedSimpArgs false
namespace Lexpr
namespace Parse
namespace Trunc
open PrefixDet (Sim ext Scanner digitsLen scan ext_rest ext_consume)

theorem run_none_append (st : Utf8.St) (a b : List UInt8) (h : Utf8.run st a = none) :
    Utf8.run st (a ++ b) = none := by
  induction a generalizing st with
  | nil => cases h
  | cons x xs ih =>
    simp only [List.cons_append, Utf8.run] at h ⊢
    cases hs : Utf8.step st x with
    | none => rfl
    | some st' => rw [hs] at h; exact ih st' h

/-- neither valid nor incomplete: the automaton has rejected the bytes -/
theorem run_none_of {name : List UInt8} (hv : Utf8.valid name = false)
    (hi : Utf8.incomplete name = false) : Utf8.run .idle name = none := by
  unfold Utf8.valid at hv
  unfold Utf8.incomplete at hi
  cases hr : Utf8.run .idle name with
  | none => rfl
  | some st =>
    rw [hr] at hv hi
    cases st with
    | idle => simp at hv
    | mid a b c => simp at hi

theorem invalid_append {name x : List UInt8} (h : Utf8.run .idle name = none) :
    Utf8.valid (name ++ x) = false ∧ Utf8.incomplete (name ++ x) = false ∧ (name ++ x == [46]) = false := by
  have hr := run_none_append .idle name x h
  refine ⟨by simp [Utf8.valid, hr], by simp [Utf8.incomplete, hr], ?_⟩
  cases hb : (name ++ x == [46]) with
  | false => rfl
  | true =>
    have : name ++ x = [46] := by simpa using hb
    rw [this] at hr
    revert hr; decide

theorem symLen_append {m : Mode} {a b : List UInt8} (h : symLen m a = a.length) :
    symLen m (a ++ b) = a.length + symLen m b := by
  induction a with
  | nil => simp
  | cons x a ih =>
    simp only [symLen, List.length_cons, List.cons_append] at h ⊢
    split at h
    · omega
    · rename_i hd
      simp only [hd, Bool.false_eq_true, ↓reduceIte]
      rw [ih (by omega)]; omega

section tok
variable {X : Err → Prop} {s : St} {q : List UInt8}

theorem expectIdent_t (hq : q ≠ []) {cs : List UInt8} :
    TS X QF (expectIdent cs) (expectIdent cs) s q := by
  induction cs generalizing s with
  | nil => unfold expectIdent; tsim hq [] []
  | cons c cs ih => unfold expectIdent; tsim hq [ih] []; tesim []

/-- the tail of `parse_symbol` after the scan: the decision on the bytes of the name -/
def symDecide (mode : Mode) (name : List UInt8) (nxt : Option UInt8) : P (List UInt8) :=
  if name == [46] then errAt (invalidDot nxt.isNone)
  else if mode == .str then pure name
  else if Utf8.valid name then pure name
  else if Utf8.incomplete name && nxt.isNone then errAt .eofValue
  else errAt .invalidUnicodeCodePoint

theorem symDecide_t {mode : Mode} {name : List UInt8} {nxt : Option UInt8} :
    TS X QF (symDecide mode name nxt) (symDecide mode name nxt) s q := by
  unfold symDecide
  tsim (by assumption) [] []

/-- at the end of the input the decision fails hard only for bytes that the automaton rejects -/
theorem symDecide_eof {mode : Mode} {name : List UInt8} {r' : Res (List UInt8)}
    (h0 : s.rd.rest = [])
    (hr : mode ≠ .str → Utf8.run .idle name = none → NotOk r') :
    TE X QT (symDecide mode name none) r' s := by
  unfold symDecide
  refine TE.ite (fun _ => TE.errSoft (by simp [invalidDot]; decide)) (fun _ => ?_)
  refine TE.ite (fun _ => TE.pure h0 trivial) (fun hm => ?_)
  refine TE.ite (fun _ => TE.pure h0 trivial) (fun hv => ?_)
  refine TE.ite (fun _ => TE.errSoft (by decide)) (fun hi => TE.errNotOk ?_)
  refine hr (by simpa using hm) (run_none_of (by simpa using hv) (by simpa using hi))

/-- on rejected bytes the decision fails whatever follows -/
theorem symDecide_notOk {mode : Mode} {name : List UInt8} {nxt : Option UInt8} {x : St}
    (hm : mode ≠ .str) (hv : Utf8.valid name = false) (hi : Utf8.incomplete name = false)
    (h46 : (name == [46]) = false) : NotOk (symDecide mode name nxt x) := by
  unfold symDecide
  have hm' : (mode == Mode.str) = false := by simpa using hm
  simp only [h46, hm', hv, hi, Bool.false_and, Bool.false_eq_true, ↓reduceIte]
  exact NotOk.err

theorem parseSymbolBytes_eq' (scratch : List UInt8) : parseSymbolBytes scratch =
    (getMode >>= fun mode => scan (symLen mode) >>= fun tk => peek >>= fun nxt =>
      symDecide mode (scratch ++ tk) nxt) := rfl

theorem parseSymbolBytes_t (hq : q ≠ []) {scratch : List UInt8} :
    TS X QT (parseSymbolBytes scratch) (parseSymbolBytes scratch) s q := by
  rw [parseSymbolBytes_eq']
  obtain ⟨b, q', rfl⟩ := List.exists_cons_of_ne_nil hq
  refine TS.bindF getMode_t (fun mode s1 hgm _ => ?_)
  have hs1 : s1 = s ∧ mode = s.rd.mode := by
    unfold getMode at hgm; cases hgm; exact ⟨rfl, rfl⟩
  obtain ⟨rfl, rfl⟩ := hs1
  refine TS.bind (scan_t (PrefixDet.symLen_scanner _)) (fun tk s2 _ _ => ?_)
    (fun tk s2 hm h0 hq1 => ?_)
  · refine TS.bind_peek hq (fun _ _ _ => symDecide_t.toQT) (fun h0 => ?_)
    refine symDecide_eof h0 (fun hmode hrun => ?_)
    obtain ⟨s3, hp, _⟩ := peek_ext_nil (b := b) (q' := q') h0
    rw [hp]
    simp only [rbind]
    have := invalid_append (x := []) hrun
    simp only [List.append_nil] at this
    exact symDecide_notOk hmode this.1 this.2.1 this.2.2
  · obtain ⟨rfl, hlen, -⟩ := hq1
    refine TE.bind_peek h0 ?_
    refine symDecide_eof h0 (fun hmode hrun => ?_)
    have htk : ((ext (b :: q') s1).rd.rest.take (symLen s1.rd.mode (ext (b :: q') s1).rd.rest)) =
        s1.rd.rest ++ (b :: q').take (symLen s1.rd.mode (b :: q')) := by
      rw [ext_rest, symLen_append hlen, List.take_append]
      simp [List.take_of_length_le]
    unfold scan
    simp only [rbind]
    rw [htk, bind_eq]
    have := invalid_append (x := (b :: q').take (symLen s1.rd.mode (b :: q'))) hrun
    cases peek _ with
    | ok o s3 =>
      simp only [rbind]
      rw [← List.append_assoc]
      exact symDecide_notOk hmode this.1 this.2.1 this.2.2
    | err e s3 => exact NotOk.err
    | panic p => exact NotOk.panic
    | fuel => exact NotOk.fuel

theorem parseSymbolBytes_eo {scratch : List UInt8} (hv : Utf8.valid scratch = true)
    (h0 : s.rd.rest = []) : EO X (parseSymbolBytes scratch) s (fun _ _ => True) := by
  rw [parseSymbolBytes_eq']
  refine EO.bind_getMode ?_
  refine EO.bind_scan (PrefixDet.symLen_scanner _) h0 (fun s1 h1 _ _ _ => ?_)
  refine EO.bind_peek h1 ?_
  unfold symDecide
  simp only [List.append_nil, hv, ↓reduceIte]
  refine EO.ite (fun _ => EO.errSoft (by simp [invalidDot]; decide)) (fun _ => ?_)
  exact EO.ite (fun _ => EO.pure h1 trivial) (fun _ => EO.pure h1 trivial)

/-- the diverged result of `parse_token`: a token that is a value by itself, or a quotation
    mark, in which case the other run also returned a quotation mark at the same depth -/
def QTok : Token → St → Res Token → Prop := fun a s1 r' =>
  a.atom.isSome = true ∨
  ∃ qt qt' s', a = .quotation qt ∧ r' = .ok (.quotation qt') s' ∧ s'.depth = s1.depth

theorem symbolToken_atom (o : Options) (name : List UInt8) :
    (symbolToken o name).atom.isSome = true := by
  unfold symbolToken; split <;> rfl

macro_rules
  | `(tactic| tq_close) => `(tactic| first
      | exact Or.inl (symbolToken_atom _ _)
      | exact Or.inl rfl)

theorem parseSignDotSymbol_t (hq : q ≠ []) {cfg : Cfg} {pfx : List UInt8}
    (hv : Utf8.valid pfx = true) :
    TS X QTok (parseSignDotSymbol cfg pfx) (parseSignDotSymbol cfg pfx) s q := by
  unfold parseSignDotSymbol
  tsim hq [] [parseSymbolBytes_t hq]
  · tesim []
  · simp (decide := true) only [↓reduceIte, Bool.false_eq_true]
    tesim [parseSymbolBytes_eo hv]

theorem parseSignToken_t (hq : q ≠ []) (hB : ∀ l k, X (.syntax .numberOutOfRange l k)) {cfg : Cfg}
    {f f' : Nat} {sign : UInt8} {pos : Bool} (h : f ≤ f') (hs : sign = 45 ∨ sign = 43) :
    TS X QTok (parseSignToken cfg f sign pos) (parseSignToken cfg f' sign pos) s q := by
  have hv1 : Utf8.valid [sign] = true := by rcases hs with rfl | rfl <;> decide
  have hv2 : Utf8.valid [sign, 46] = true := by rcases hs with rfl | rfl <;> decide
  unfold parseSignToken
  tsim hq [] [parseSymbolBytes_t hq, parseSignDotSymbol_t hq hv2, parseNumToken_t hq hB]
  · tesim []
  · tesim []
  · simp (decide := true) only [↓reduceIte, Bool.false_eq_true, Bool.true_or]
    tesim [parseSymbolBytes_eo hv1]

theorem discard_ok {u : Unit} {s1 : St} (h : discard s = .ok u s1) :
    ∃ b, s.rd.rest = b :: s1.rd.rest := by
  cases hr : s.rd.rest with
  | nil => unfold discard at h; rw [hr] at h; cases h
  | cons b t =>
    rw [discard_cons hr] at h
    cases h
    exact ⟨b, by simp [Progress.consume_rest, hr]⟩

theorem badByte_t {Q : Token → St → Res Token → Prop} :
    TS X Q PrefixDet.badByte PrefixDet.badByte s q := by
  unfold TS
  rw [PrefixDet.badByte_eq s, PrefixDet.badByte_eq (ext q s)]
  cases hr : s.rd.rest with
  | nil => trivial
  | cons b t =>
    dsimp only
    rw [ext_rest, hr]
    exact Or.inr (Or.inr NotOk.err)

theorem parseToken_t (hq : q ≠ []) (hB : ∀ l k, X (.syntax .numberOutOfRange l k)) {cfg : Cfg}
    {f f' : Nat} {pk : UInt8} (h : f ≤ f') :
    TS X QTok (parseToken cfg f pk) (parseToken cfg f' pk) s q := by
  unfold parseToken
  dsimp only
  by_cases h34 : pk = 34
  · -- strings
    subst h34
    simp (decide := true) only [↓reduceIte]
    refine TS.bindF discard_t (fun u s1 hd _ => ?_)
    cases ho : cfg.opts.string with
    | r6rs =>
      dsimp only
      tsim hq [parseR6rsStr_t hq] []
    | elisp =>
      dsimp only
      refine TS.bindF (parseElispStr_t hq h) (fun r s2 _ _ => ?_)
      tsim hq [] []
  by_cases h63 : pk = 63
  · -- `?`
    subst h63
    simp (decide := true) only [↓reduceIte]
    by_cases hc : cfg.opts.char = .elisp
    · simp only [hc, beq_self_eq_true, ↓reduceIte]
      refine TS.bindF discard_t (fun u s1 hd _ => ?_)
      refine TS.bind (parseElispChar_t hq h) (fun r s2 _ _ => TS.pure) (fun r s2 _ h0 _ => ?_)
      exact TE.pure h0 (Or.inl rfl)
    · have hc' : (cfg.opts.char == CharSyntax.elisp) = false := by
        cases hcc : cfg.opts.char
        · rfl
        · exact absurd hcc hc
      simp (decide := true) only [hc', Bool.false_eq_true, ↓reduceIte]
      tsim hq [] [parseSymbolBytes_t hq]
      tesim []
  by_cases h44 : pk = 44
  · -- `,` and `,@`
    subst h44
    simp (decide := true) only [↓reduceIte]
    refine TS.bindF discard_t (fun u s1 hd _ => ?_)
    refine TS.bind_peekOrNull hq (fun c s2 _ => ?_) (fun h0 => ?_)
    · tsim hq [] []
    · simp (decide := true) only [↓reduceIte]
      refine TE.pure h0 (Or.inr ?_)
      obtain ⟨b, q', rfl⟩ := List.exists_cons_of_ne_nil hq
      obtain ⟨s3, hp, hr3, hd3, _⟩ := peek_ext_nil (b := b) (q' := q') h0
      have hpn : peekOrNull (ext (b :: q') s1) = .ok b s3 := by
        rw [peekOrNull_eq, bind_eq, hp]; rfl
      rw [hpn]
      simp only [rbind]
      by_cases h64 : (b == 64) = true
      · simp only [h64, ↓reduceIte]
        refine ⟨_, .unquoteSplicing, { s3 with rd := s3.rd.consume 1 }, rfl, ?_, hd3⟩
        show rbind (discard s3) _ = _
        rw [discard_cons hr3]
        rfl
      · simp only [h64]
        exact ⟨_, .unquote, s3, rfl, rfl, hd3⟩
  · -- everything else
    have e34 : (pk == 34) = false := by simpa using h34
    have e63 : (pk == 63) = false := by simpa using h63
    have e44 : (pk == 44) = false := by simpa using h44
    simp only [e34, e63, e44, Bool.false_and, Bool.false_eq_true, ↓reduceIte]
    tsim hq [expectIdent_t hq, decodeUtf8Sequence_t hq, badByte_t]
      [parseSymbolBytes_t hq, parseRadixToken_t hq hB, parseR6rsChar_t hq,
       parseSignToken_t hq hB h (Or.inl rfl), parseSignToken_t hq hB h (Or.inr rfl),
       parseNumToken_t hq hB]
    all_goals tesim []


end tok
end Trunc
end Parse
end Lexpr
