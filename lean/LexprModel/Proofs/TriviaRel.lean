/-
  TriviaRel — C12, "inserting or changing trivia between tokens never changes any value".

  `TV p ryu v t`: `t` is a *trivia variant* of the printed text of `v` under the printer options
  `p`: the text `Print.text p ryu v` with an arbitrary trivia string (`Triv`: whitespace bytes
  space / tab / CR / LF / form feed and complete line comments `;…LF`) at every token boundary —
  after `(`, `[`, `#(`, before `)`, `]`, around the ` . ` of a dotted tail, between elements, and,
  in byte vectors, between `#u8` / `#vu8` and `(`, after `(`, between the octets and before `)`.
  Where the printer writes a space (between elements, on both sides of the dot, between octets)
  the trivia string must be non-empty; elsewhere it may be empty.  Atoms are printed verbatim.
  `TVTop` adds trivia before the text and final trivia (`TrivEnd`: the last comment may lack its
  line feed) after it.

  Main theorems (all for every compatible pair of printer / parser options):
   * `trivia_structure`  — `next_value` on any variant followed by a follow context returns
     `fold p cfg.opts v`, leaves exactly the context, restores the depth budget;
   * `C12_trivia`        — `from_slice` on any top-level variant returns `fold p cfg.opts v`,
     consumes everything, depth restored: the same result as on the plain text
     (`dialectRT_roundtrip`);
   * `C12_trivia_eq`     — any two variants of the same value give the same result;
   * `tv_plain`          — the plain text is one of the variants.
-/
import LexprModel.Proofs.TriviaBytes
namespace Lexpr
namespace Parse
namespace ListRT
open Print Spec

/-! ### the trivia variants of a printed text -/

/-- ` . tx` with trivia: non-empty trivia, `.`, non-empty trivia, the text `tx` of the tail,
    trivia (possibly empty) before the closing parenthesis -/
def DotShape (tx t : List UInt8) : Prop :=
  ∃ w1 w2 w3, Triv w1 ∧ w1 ≠ [] ∧ Triv w2 ∧ w2 ≠ [] ∧ Triv w3 ∧ t = w1 ++ 46 :: (w2 ++ (tx ++ w3))

mutual
/-- `TV p ryu v t`: `t` is the text of `v` with trivia inserted at the token boundaries. -/
def TV (p : Print.Options) (ryu : Nat → List UInt8) : Value → List UInt8 → Prop
  | .cons a d, t => ∃ w ta td, Triv w ∧ TV p ryu a ta ∧ TVTail p ryu d td ∧
      t = 40 :: (w ++ (ta ++ (td ++ [41])))
  | .vector xs, t => ∃ ts, TVSeq p ryu true xs ts ∧ t = vopen p ++ (ts ++ [vclose p])
  | .null, t => ∃ w, Triv w ∧ t = 40 :: (w ++ [41])
  | .nil, t => t = atomTextP p ryu .nil
  | .bool b, t => t = atomTextP p ryu (.bool b)
  | .number n, t => t = atomTextP p ryu (.number n)
  | .char c, t => t = atomTextP p ryu (.char c)
  | .string x, t => t = atomTextP p ryu (.string x)
  | .symbol x, t => t = atomTextP p ryu (.symbol x)
  | .keyword x, t => t = atomTextP p ryu (.keyword x)
  | .bytes b, t => BytesVar p b t
/-- the rest of a cdr chain up to (not including) the closing parenthesis, trivia before the
    parenthesis included -/
def TVTail (p : Print.Options) (ryu : Nat → List UInt8) : Value → List UInt8 → Prop
  | .null, t => Triv t
  | .cons a d, t => ∃ w ta td, Triv w ∧ w ≠ [] ∧ TV p ryu a ta ∧ TVTail p ryu d td ∧
      t = w ++ (ta ++ td)
  | .vector xs, t => ∃ ts, TVSeq p ryu true xs ts ∧ DotShape (vopen p ++ (ts ++ [vclose p])) t
  | .nil, t => DotShape (atomTextP p ryu .nil) t
  | .bool b, t => DotShape (atomTextP p ryu (.bool b)) t
  | .number n, t => DotShape (atomTextP p ryu (.number n)) t
  | .char c, t => DotShape (atomTextP p ryu (.char c)) t
  | .string x, t => DotShape (atomTextP p ryu (.string x)) t
  | .symbol x, t => DotShape (atomTextP p ryu (.symbol x)) t
  | .keyword x, t => DotShape (atomTextP p ryu (.keyword x)) t
  | .bytes b, t => ∃ tx, BytesVar p b tx ∧ DotShape tx t
/-- the elements of a vector up to (not including) the closing delimiter, trivia before the
    delimiter included; `first`: no separator is required before the next element -/
def TVSeq (p : Print.Options) (ryu : Nat → List UInt8) : Bool → List Value → List UInt8 → Prop
  | _, [], t => Triv t
  | first, x :: xs, t => ∃ w tx ts, Triv w ∧ (first = false → w ≠ []) ∧ TV p ryu x tx ∧
      TVSeq p ryu false xs ts ∧ t = w ++ (tx ++ ts)
end

/-- a whole input: trivia, a variant of the text of `v`, final trivia -/
def TVTop (p : Print.Options) (ryu : Nat → List UInt8) (v : Value) (t : List UInt8) : Prop :=
  ∃ w0 tv w1, Triv w0 ∧ TV p ryu v tv ∧ TrivEnd w1 ∧ t = w0 ++ (tv ++ w1)

theorem tvTail_dotted (p : Print.Options) (ryu : Nat → List UInt8) (d : Value)
    (h1 : d.isCons = false) (h2 : d ≠ .null) (t : List UInt8) :
    TVTail p ryu d t ↔ ∃ tx, TV p ryu d tx ∧ DotShape tx t := by
  cases d with
  | cons a d => simp [Value.isCons] at h1
  | null => exact absurd rfl h2
  | vector xs =>
    simp only [TVTail, TV]
    constructor
    · rintro ⟨ts, h, hd⟩; exact ⟨_, ⟨ts, h, rfl⟩, hd⟩
    · rintro ⟨tx, ⟨ts, h, rfl⟩, hd⟩; exact ⟨ts, h, hd⟩
  | bytes b => simp only [TVTail, TV]
  | nil => simp only [TVTail, TV, exists_eq_left]
  | bool b => simp only [TVTail, TV, exists_eq_left]
  | number n => simp only [TVTail, TV, exists_eq_left]
  | char c => simp only [TVTail, TV, exists_eq_left]
  | string x => simp only [TVTail, TV, exists_eq_left]
  | symbol x => simp only [TVTail, TV, exists_eq_left]
  | keyword x => simp only [TVTail, TV, exists_eq_left]

theorem tv_atom (p : Print.Options) (ryu : Nat → List UInt8) (v : Value)
    (h1 : v.isCons = false) (h2 : v.isVector = false) (h3 : v ≠ .null)
    (hb : ∀ b, v ≠ .bytes b) (t : List UInt8) :
    TV p ryu v t ↔ t = atomTextP p ryu v := by
  cases v <;> simp_all [Value.isCons, Value.isVector, TV]

/-! ### what follows an element, how an element starts -/

theorem tvTail_follow (p : Print.Options) (ryu : Nat → List UInt8) (d : Value) (td : List UInt8)
    (h : TVTail p ryu d td) (rest : List UInt8) : Follow (td ++ 41 :: rest) := by
  by_cases h1 : d.isCons = true
  · cases d <;> simp [Value.isCons] at h1
    simp only [TVTail] at h
    obtain ⟨w, ta, td', hw, hne, -, -, rfl⟩ := h
    simpa using hw.follow hne (ta ++ td' ++ 41 :: rest)
  · by_cases h2 : d = .null
    · subst h2
      simp only [TVTail] at h
      exact h.follow' _ (follow_cons _ _ (by decide))
    · rw [tvTail_dotted p ryu d (by simpa using h1) h2] at h
      obtain ⟨tx, -, w1, w2, w3, hw1, hne1, -, -, -, rfl⟩ := h
      simpa using hw1.follow hne1 (46 :: (w2 ++ (tx ++ w3)) ++ 41 :: rest)

theorem tvSeq_follow (p : Print.Options) (ryu : Nat → List UInt8) (xs : List Value)
    (ts : List UInt8) (h : TVSeq p ryu false xs ts) (rest : List UInt8) :
    Follow (ts ++ vclose p :: rest) := by
  cases xs with
  | nil =>
    simp only [TVSeq] at h
    exact h.follow' _ (follow_cons _ _ (close_facts _ (vclose_cases p)).2.2.2)
  | cons x xs =>
    simp only [TVSeq] at h
    obtain ⟨w, tx, ts', hw, hne, -, -, rfl⟩ := h
    simpa using hw.follow (hne trivial) (tx ++ ts' ++ vclose p :: rest)

/-- every variant of a value with good atoms starts with a byte the loops hand to `next_value` -/
theorem tv_head (p : Print.Options) (cfg : Cfg) (ryu : Nat → List UInt8) (v : Value)
    (h : AllAtomsOKP p cfg ryu v) (t : List UInt8) (ht : TV p ryu v t) : ElemHead t := by
  by_cases h1 : v.isCons = true
  · cases v <;> simp [Value.isCons] at h1
    simp only [TV] at ht
    obtain ⟨w, ta, td, -, -, -, rfl⟩ := ht
    exact head_of_byte _ _ (by decide) (by decide) (by decide) (by decide) (by decide)
  by_cases h2 : v.isVector = true
  · cases v <;> simp [Value.isVector] at h2
    simp only [TV] at ht
    obtain ⟨ts, -, rfl⟩ := ht
    exact vopen_head p _
  by_cases h3 : v = .null
  · subst h3
    simp only [TV] at ht
    obtain ⟨w, -, rfl⟩ := ht
    exact head_of_byte _ _ (by decide) (by decide) (by decide) (by decide) (by decide)
  have h1' : v.isCons = false := by simpa using h1
  have h2' : v.isVector = false := by simpa using h2
  by_cases hb : ∃ b, v = .bytes b
  · obtain ⟨b, rfl⟩ := hb
    exact bytesVar_head p b t ht
  · rw [tv_atom p ryu v h1' h2' h3 (fun b hv => hb ⟨b, hv⟩)] at ht
    subst ht
    exact (atom_of_allP p cfg ryu v h1' h2' h3 h).2.2.2.1

/-! ### the three statements proved by mutual recursion -/

def ValueRTT (p : Print.Options) (cfg : Cfg) (ryu : Nat → List UInt8) (v : Value) : Prop :=
  ∀ t, TV p ryu v t →
  ∀ (s : St) (rest : List UInt8) (fuel : Nat), Follow rest → Good s →
    s.rd.rest = t ++ rest → fuel ≥ 2 * s.rd.rest.length + 3 →
    nestingP p v + 1 ≤ s.depth → Runs (nextValue cfg fuel) s (some (fold p cfg.opts v)) rest

def TailRTT (p : Print.Options) (cfg : Cfg) (ryu : Nat → List UInt8) (d : Value) : Prop :=
  ∀ t, TVTail p ryu d t →
  ∀ (s : St) (rest : List UInt8) (fuel : Nat) (acc : List Value), acc ≠ [] → Good s →
    s.rd.rest = t ++ 41 :: rest → fuel ≥ 2 * s.rd.rest.length + 3 →
    nestingTailP p d + 1 ≤ s.depth →
    Runs (parseList cfg fuel 41 acc) s (Value.append acc (fold p cfg.opts d)) (41 :: rest)

def SeqRTT (p : Print.Options) (cfg : Cfg) (ryu : Nat → List UInt8) (first : Bool)
    (xs : List Value) : Prop :=
  ∀ t, TVSeq p ryu first xs t →
  ∀ (s : St) (rest : List UInt8) (fuel : Nat) (acc : List Value), Good s →
    s.rd.rest = t ++ vclose p :: rest →
    fuel ≥ 2 * s.rd.rest.length + (if first then 4 else 3) →
    nestingSeqP p xs + 1 ≤ s.depth →
    Runs (parseVector cfg fuel (vclose p) acc) s (acc ++ foldList p cfg.opts xs)
      (vclose p :: rest)

/-- what the recursion needs to know about the head of an element -/
def HeadT (p : Print.Options) (ryu : Nat → List UInt8) (v : Value) : Prop :=
  ∀ t, TV p ryu v t → ElemHead t

theorem null_rtT (p : Print.Options) (cfg : Cfg) (ryu : Nat → List UInt8) :
    ValueRTT p cfg ryu .null := by
  intro t ht s rest fuel _ hg hr hfu hd
  simp only [TV] at ht
  obtain ⟨w, hw, rfl⟩ := ht
  rw [fold_null]
  have hr' : s.rd.rest = 40 :: (w ++ 41 :: rest) := by simpa using hr
  obtain ⟨F, rfl⟩ : ∃ F, fuel = F + 2 := ⟨fuel - 2, by omega⟩
  simp only [nestingP] at hd
  refine nextValue_listOpen cfg (F + 1) s (w ++ 41 :: rest) rest .null hg hr' (by omega) ?_
  intro s1 g1 r1 _
  exact parseList_closeT cfg F s1 [] w rest g1 hw r1

theorem cons_rtT (p : Print.Options) (cfg : Cfg) (ryu : Nat → List UInt8)
    (a d : Value) (hA : ValueRTT p cfg ryu a) (hhead : HeadT p ryu a)
    (hD : TailRTT p cfg ryu d) : ValueRTT p cfg ryu (.cons a d) := by
  intro t ht s rest fuel _ hg hr hfu hd
  simp only [TV] at ht
  obtain ⟨w, ta, td, hw, hta, htd, rfl⟩ := ht
  rw [fold_cons]
  have hr' : s.rd.rest = 40 :: (w ++ (ta ++ (td ++ 41 :: rest))) := by simpa using hr
  have hlen := congrArg List.length hr'
  simp only [List.length_cons, List.length_append] at hlen
  obtain ⟨F, rfl⟩ : ∃ F, fuel = F + 3 := ⟨fuel - 3, by omega⟩
  simp only [nestingP] at hd
  refine nextValue_listOpen cfg (F + 2) s _ rest _ hg hr' (by omega) ?_
  intro s1 g1 r1 d1
  refine list_elem_stepT cfg F s1 [] (fold p cfg.opts a) _ w ta
    (td ++ 41 :: rest) (41 :: rest) g1 hw r1 (hhead ta hta) ?_ ?_
  · intro s2 g2 r2 d2
    refine hA ta hta s2 _ (F + 1) (tvTail_follow p ryu d td htd rest) g2 r2 ?_ (by omega)
    rw [r2]; simp only [List.length_cons, List.length_append]; omega
  · intro s3 g3 r3 d3
    have := hD td htd s3 rest (F + 1) [fold p cfg.opts a] (by simp) g3 r3
      (by rw [r3]; simp only [List.length_cons, List.length_append]; omega) (by omega)
    simpa [Value.append] using this

theorem vector_rtT (p : Print.Options) (cfg : Cfg) (ryu : Nat → List UInt8) (xs : List Value)
    (hb : p.vector = .brackets → cfg.opts.brackets = .vector)
    (hS : SeqRTT p cfg ryu true xs) : ValueRTT p cfg ryu (.vector xs) := by
  intro t ht s rest fuel _ hg hr hfu hd
  simp only [TV] at ht
  obtain ⟨ts, hts, rfl⟩ := ht
  rw [fold_vector]
  have hr' : s.rd.rest = vopen p ++ (ts ++ vclose p :: rest) := by simpa using hr
  have hlen := congrArg List.length hr'
  simp only [List.length_cons, List.length_append] at hlen
  have hvo : 1 ≤ (vopen p).length := by unfold vopen; cases p.vector <;> simp
  obtain ⟨F, rfl⟩ : ∃ F, fuel = F + 1 := ⟨fuel - 1, by omega⟩
  simp only [nestingP] at hd
  refine nextValue_vecOpenP cfg p F s _ rest _ hb hg hr' (by omega) ?_
  intro s1 g1 r1 d1
  have := hS ts hts s1 rest F [] g1 r1
    (by rw [r1]; simp only [List.length_cons, List.length_append, if_true]; omega) (by omega)
  simpa using this

theorem atom_rtT (p : Print.Options) (cfg : Cfg) (ryu : Nat → List UInt8) (v : Value)
    (hb : ∀ b, v ≠ .bytes b) (h : AtomOKP p cfg ryu v) : ValueRTT p cfg ryu v := by
  obtain ⟨h1, h2, h3, _, hrun⟩ := h
  intro t ht s rest fuel hf hg hr hfu hd
  rw [tv_atom p ryu v h1 h2 h3 hb] at ht
  subst ht
  exact hrun s rest fuel hf hg hr (by omega) hd

theorem bytes_rtT (p : Print.Options) (cfg : Cfg) (ryu : Nat → List UInt8) (b : List UInt8)
    (hB : BytesOKT p cfg) : ValueRTT p cfg ryu (.bytes b) := by
  intro t ht s rest fuel hf hg hr hfu hd
  simp only [TV] at ht
  exact hB b t ht s rest fuel hf hg hr (by omega) (by omega)

theorem tail_null_rtT (p : Print.Options) (cfg : Cfg) (ryu : Nat → List UInt8) :
    TailRTT p cfg ryu .null := by
  intro t ht s rest fuel acc _ hg hr hfu hd
  simp only [TVTail] at ht
  rw [fold_null]
  obtain ⟨F, rfl⟩ : ∃ F, fuel = F + 1 := ⟨fuel - 1, by omega⟩
  have := parseList_closeT cfg F s acc t rest hg ht hr
  simpa [Value.list] using this

theorem tail_cons_rtT (p : Print.Options) (cfg : Cfg) (ryu : Nat → List UInt8)
    (a d : Value) (hA : ValueRTT p cfg ryu a) (hhead : HeadT p ryu a)
    (hD : TailRTT p cfg ryu d) : TailRTT p cfg ryu (.cons a d) := by
  intro t ht s rest fuel acc _ hg hr hfu hd
  simp only [TVTail] at ht
  obtain ⟨w, ta, td, hw, hne, hta, htd, rfl⟩ := ht
  rw [fold_cons]
  have hr' : s.rd.rest = w ++ (ta ++ (td ++ 41 :: rest)) := by simpa using hr
  have hwl : 1 ≤ w.length := by cases w <;> simp_all
  have hlen := congrArg List.length hr'
  simp only [List.length_cons, List.length_append] at hlen
  obtain ⟨F, rfl⟩ : ∃ F, fuel = F + 2 := ⟨fuel - 2, by omega⟩
  simp only [nestingTailP] at hd
  refine list_elem_stepT cfg F s acc (fold p cfg.opts a) _ w ta
    (td ++ 41 :: rest) (41 :: rest) hg hw hr' (hhead ta hta) ?_ ?_
  · intro s2 g2 r2 d2
    refine hA ta hta s2 _ (F + 1) (tvTail_follow p ryu d td htd rest) g2 r2 ?_ (by omega)
    rw [r2]; simp only [List.length_cons, List.length_append]; omega
  · intro s3 g3 r3 d3
    have := hD td htd s3 rest (F + 1) (acc ++ [fold p cfg.opts a]) (by simp) g3 r3
      (by rw [r3]; simp only [List.length_cons, List.length_append]; omega) (by omega)
    rwa [append_snoc] at this

theorem tail_dotted_rtT (p : Print.Options) (cfg : Cfg) (ryu : Nat → List UInt8) (d : Value)
    (hD : ValueRTT p cfg ryu d) (hhead : HeadT p ryu d) (h1 : d.isCons = false)
    (h2 : d ≠ .null) (hn : nestingTailP p d = nestingP p d) : TailRTT p cfg ryu d := by
  intro t ht s rest fuel acc hacc hg hr hfu hd
  rw [tvTail_dotted p ryu d h1 h2] at ht
  obtain ⟨tx, htx, w1, w2, w3, hw1, hne1, hw2, hne2, hw3, rfl⟩ := ht
  obtain ⟨c, tl, hc, hc1, hc2, -, -, -⟩ := hhead tx htx
  have hr' : s.rd.rest = w1 ++ 46 :: (w2 ++ (tx ++ (w3 ++ 41 :: rest))) := by simpa using hr
  have hl1 : 1 ≤ w1.length := by cases w1 <;> simp_all
  have hlen := congrArg List.length hr'
  simp only [List.length_cons, List.length_append] at hlen
  obtain ⟨F, rfl⟩ : ∃ F, fuel = F + 1 := ⟨fuel - 1, by omega⟩
  refine parseList_dottedT cfg F s acc w1 w2 w3 (tx ++ (w3 ++ 41 :: rest)) rest
    (fold p cfg.opts d) hg hw1 hw2 hne2 hw3 hr' hacc ?_
  intro s1 g1 r1 d1
  obtain ⟨s2, g2, r2, d2, heq⟩ := nextValue_skipT cfg s1 g1 w2 hw2 c (tl ++ (w3 ++ 41 :: rest))
    (by rw [r1, hc]; simp) hc1 (by simp [hc2])
  obtain ⟨s3, e3, r3, g3, d3⟩ := hD tx htx s2 (w3 ++ 41 :: rest) F
    (hw3.follow' _ (follow_cons _ _ (by decide))) g2
    (by rw [r2, hc]; simp)
    (by rw [r2]; simp only [hc, List.length_cons, List.length_append] at hlen ⊢; omega) (by omega)
  exact ⟨s3, (heq F).trans e3, r3, g3, by omega⟩

theorem seq_nil_rtT (p : Print.Options) (cfg : Cfg) (ryu : Nat → List UInt8) (first : Bool) :
    SeqRTT p cfg ryu first [] := by
  intro t ht s rest fuel acc hg hr hfu hd
  simp only [TVSeq] at ht
  rw [foldList_nil]
  obtain ⟨F, rfl⟩ : ∃ F, fuel = F + 1 := ⟨fuel - 1, by cases first <;> simp at hfu <;> omega⟩
  have := parseVector_closeT cfg (vclose p) (vclose_cases p) F s acc t rest hg ht hr
  simpa using this

theorem seq_cons_rtT (p : Print.Options) (cfg : Cfg) (ryu : Nat → List UInt8) (first : Bool)
    (x : Value) (xs : List Value) (hX : ValueRTT p cfg ryu x) (hhead : HeadT p ryu x)
    (hS : SeqRTT p cfg ryu false xs) : SeqRTT p cfg ryu first (x :: xs) := by
  intro t ht s rest fuel acc hg hr hfu hd
  simp only [TVSeq] at ht
  obtain ⟨w, tx, ts, hw, hne, htx, hts, rfl⟩ := ht
  simp only [nestingSeqP] at hd
  rw [foldList_cons]
  have hr' : s.rd.rest = w ++ (tx ++ (ts ++ vclose p :: rest)) := by simpa using hr
  have hlen := congrArg List.length hr'
  simp only [List.length_cons, List.length_append] at hlen
  have hwl : first = false → 1 ≤ w.length := by
    intro hf
    have := hne hf
    cases w <;> simp_all
  have hF : fuel - 1 ≥ 2 * (tx ++ (ts ++ vclose p :: rest)).length + 3 := by
    simp only [List.length_cons, List.length_append]
    cases first
    · have := hwl rfl; simp at hfu; omega
    · simp only [if_true] at hfu; omega
  obtain ⟨F, rfl⟩ : ∃ F, fuel = F + 1 := ⟨fuel - 1, by cases first <;> simp at hfu <;> omega⟩
  simp only [Nat.add_sub_cancel] at hF
  refine vec_elem_stepT cfg (vclose p) F s acc (fold p cfg.opts x) _ w tx
    (ts ++ vclose p :: rest) (vclose p :: rest) hg hw hr' (hhead tx htx) ?_ ?_
  · intro s2 g2 r2 d2
    refine hX tx htx s2 _ F (tvSeq_follow p ryu xs ts hts rest) g2 r2 ?_ (by omega)
    rw [r2]; exact hF
  · intro s3 g3 r3 d3
    have := hS ts hts s3 rest F (acc ++ [fold p cfg.opts x]) g3 r3
      (by
        rw [r3]
        simp only [List.length_cons, List.length_append] at hF ⊢
        simp; omega) (by omega)
    simpa using this

theorem tail_atom_rtT (p : Print.Options) (cfg : Cfg) (ryu : Nat → List UInt8) (d : Value)
    (hb : ∀ b, d ≠ .bytes b) (h : AtomOKP p cfg ryu d) : TailRTT p cfg ryu d := by
  refine tail_dotted_rtT p cfg ryu d (atom_rtT p cfg ryu d hb h) ?_ h.1 h.2.2.1
    (nestingP_atom p d h.1 h.2.1 h.2.2.1)
  intro t ht
  rw [tv_atom p ryu d h.1 h.2.1 h.2.2.1 hb] at ht
  subst ht; exact h.2.2.2.1

theorem head_of_all (p : Print.Options) (cfg : Cfg) (ryu : Nat → List UInt8) (v : Value)
    (h : AllAtomsOKP p cfg ryu v) : HeadT p ryu v :=
  fun t ht => tv_head p cfg ryu v h t ht

mutual
theorem value_rtT (p : Print.Options) (cfg : Cfg) (ryu : Nat → List UInt8)
    (hb : p.vector = .brackets → cfg.opts.brackets = .vector) (hB : BytesOKT p cfg) :
    ∀ v : Value, AllAtomsOKP p cfg ryu v → ValueRTT p cfg ryu v
  | .cons a d, h => by
    simp only [AllAtomsOKP] at h
    exact cons_rtT p cfg ryu a d (value_rtT p cfg ryu hb hB a h.1) (head_of_all p cfg ryu a h.1)
      (tail_rtT p cfg ryu hb hB d h.2)
  | .vector xs, h => by
    simp only [AllAtomsOKP] at h
    exact vector_rtT p cfg ryu xs hb (seq_rtT p cfg ryu hb hB true xs h)
  | .null, _ => null_rtT p cfg ryu
  | .nil, h => by simp only [AllAtomsOKP] at h; exact atom_rtT p cfg ryu _ (by simp) h
  | .bool _, h => by simp only [AllAtomsOKP] at h; exact atom_rtT p cfg ryu _ (by simp) h
  | .number _, h => by simp only [AllAtomsOKP] at h; exact atom_rtT p cfg ryu _ (by simp) h
  | .char _, h => by simp only [AllAtomsOKP] at h; exact atom_rtT p cfg ryu _ (by simp) h
  | .string _, h => by simp only [AllAtomsOKP] at h; exact atom_rtT p cfg ryu _ (by simp) h
  | .symbol _, h => by simp only [AllAtomsOKP] at h; exact atom_rtT p cfg ryu _ (by simp) h
  | .keyword _, h => by simp only [AllAtomsOKP] at h; exact atom_rtT p cfg ryu _ (by simp) h
  | .bytes b, _ => bytes_rtT p cfg ryu b hB
theorem tail_rtT (p : Print.Options) (cfg : Cfg) (ryu : Nat → List UInt8)
    (hb : p.vector = .brackets → cfg.opts.brackets = .vector) (hB : BytesOKT p cfg) :
    ∀ d : Value, AllAtomsOKP p cfg ryu d → TailRTT p cfg ryu d
  | .cons a d, h => by
    simp only [AllAtomsOKP] at h
    exact tail_cons_rtT p cfg ryu a d (value_rtT p cfg ryu hb hB a h.1)
      (head_of_all p cfg ryu a h.1) (tail_rtT p cfg ryu hb hB d h.2)
  | .vector xs, h => by
    have hh := head_of_all p cfg ryu (.vector xs) h
    simp only [AllAtomsOKP] at h
    exact tail_dotted_rtT p cfg ryu (.vector xs)
      (vector_rtT p cfg ryu xs hb (seq_rtT p cfg ryu hb hB true xs h)) hh rfl (by simp)
      (by simp [nestingP, nestingTailP])
  | .null, _ => tail_null_rtT p cfg ryu
  | .nil, h => by simp only [AllAtomsOKP] at h; exact tail_atom_rtT p cfg ryu _ (by simp) h
  | .bool _, h => by simp only [AllAtomsOKP] at h; exact tail_atom_rtT p cfg ryu _ (by simp) h
  | .number _, h => by simp only [AllAtomsOKP] at h; exact tail_atom_rtT p cfg ryu _ (by simp) h
  | .char _, h => by simp only [AllAtomsOKP] at h; exact tail_atom_rtT p cfg ryu _ (by simp) h
  | .string _, h => by simp only [AllAtomsOKP] at h; exact tail_atom_rtT p cfg ryu _ (by simp) h
  | .symbol _, h => by simp only [AllAtomsOKP] at h; exact tail_atom_rtT p cfg ryu _ (by simp) h
  | .keyword _, h => by simp only [AllAtomsOKP] at h; exact tail_atom_rtT p cfg ryu _ (by simp) h
  | .bytes b, h => by
    have hh := head_of_all p cfg ryu (.bytes b) h
    exact tail_dotted_rtT p cfg ryu (.bytes b) (bytes_rtT p cfg ryu b hB) hh rfl (by simp)
      (by simp [nestingP, nestingTailP])
theorem seq_rtT (p : Print.Options) (cfg : Cfg) (ryu : Nat → List UInt8)
    (hb : p.vector = .brackets → cfg.opts.brackets = .vector) (hB : BytesOKT p cfg) :
    ∀ (first : Bool) (xs : List Value), AllAtomsOKSeqP p cfg ryu xs → SeqRTT p cfg ryu first xs
  | first, [], _ => seq_nil_rtT p cfg ryu first
  | first, x :: xs, h => by
    simp only [AllAtomsOKSeqP] at h
    exact seq_cons_rtT p cfg ryu first x xs (value_rtT p cfg ryu hb hB x h.1)
      (head_of_all p cfg ryu x h.1) (seq_rtT p cfg ryu hb hB false xs h.2)
end

/-! ### the plain text is a variant -/

theorem triv_space : Triv [32] := .ws 32 [] (by decide) .nil

theorem dotShape_plain (tx : List UInt8) : DotShape tx (32 :: 46 :: 32 :: tx) :=
  ⟨[32], [32], [], triv_space, by simp, triv_space, by simp, .nil, by simp⟩

mutual
/-- the text the printer writes is one of its trivia variants (empty trivia wherever allowed, one
    space elsewhere) -/
theorem tv_plain (p : Print.Options) (ryu : Nat → List UInt8) :
    ∀ v : Value, TV p ryu v (text p ryu v)
  | .cons a d => by
    rw [textP_cons]; simp only [TV]
    exact ⟨[], text p ryu a, flatten (emitsTail p ryu d), .nil, tv_plain p ryu a,
      tvTail_plain p ryu d, by simp⟩
  | .vector xs => by
    rw [textP_vector]; simp only [TV]
    exact ⟨_, tvSeq_plain p ryu true xs, rfl⟩
  | .null => by rw [textP_null]; simp only [TV]; exact ⟨[], .nil, rfl⟩
  | .nil => by simp only [TV]; exact textP_atom p ryu _ rfl rfl
  | .bool _ => by simp only [TV]; exact textP_atom p ryu _ rfl rfl
  | .number _ => by simp only [TV]; exact textP_atom p ryu _ rfl rfl
  | .char _ => by simp only [TV]; exact textP_atom p ryu _ rfl rfl
  | .string _ => by simp only [TV]; exact textP_atom p ryu _ rfl rfl
  | .symbol _ => by simp only [TV]; exact textP_atom p ryu _ rfl rfl
  | .keyword _ => by simp only [TV]; exact textP_atom p ryu _ rfl rfl
  | .bytes b => by
    simp only [TV]; rw [textP_atom p ryu _ rfl rfl]; exact bytesVar_plain p ryu b
theorem tvTail_plain (p : Print.Options) (ryu : Nat → List UInt8) :
    ∀ d : Value, TVTail p ryu d (flatten (emitsTail p ryu d))
  | .null => by rw [tailP_null]; simp only [TVTail]; exact .nil
  | .cons a d => by
    rw [tailP_cons]; simp only [TVTail]
    exact ⟨[32], _, _, triv_space, by simp, tv_plain p ryu a, tvTail_plain p ryu d, by simp⟩
  | .vector xs => by
    rw [tailP_dotted p ryu _ rfl (by simp), textP_vector]; simp only [TVTail]
    exact ⟨_, tvSeq_plain p ryu true xs, dotShape_plain _⟩
  | .nil => by
    rw [tailP_dotted p ryu _ rfl (by simp), textP_atom p ryu _ rfl rfl]; simp only [TVTail]
    exact dotShape_plain _
  | .bool _ => by
    rw [tailP_dotted p ryu _ rfl (by simp), textP_atom p ryu _ rfl rfl]; simp only [TVTail]
    exact dotShape_plain _
  | .number _ => by
    rw [tailP_dotted p ryu _ rfl (by simp), textP_atom p ryu _ rfl rfl]; simp only [TVTail]
    exact dotShape_plain _
  | .char _ => by
    rw [tailP_dotted p ryu _ rfl (by simp), textP_atom p ryu _ rfl rfl]; simp only [TVTail]
    exact dotShape_plain _
  | .string _ => by
    rw [tailP_dotted p ryu _ rfl (by simp), textP_atom p ryu _ rfl rfl]; simp only [TVTail]
    exact dotShape_plain _
  | .symbol _ => by
    rw [tailP_dotted p ryu _ rfl (by simp), textP_atom p ryu _ rfl rfl]; simp only [TVTail]
    exact dotShape_plain _
  | .keyword _ => by
    rw [tailP_dotted p ryu _ rfl (by simp), textP_atom p ryu _ rfl rfl]; simp only [TVTail]
    exact dotShape_plain _
  | .bytes b => by
    rw [tailP_dotted p ryu _ rfl (by simp), textP_atom p ryu _ rfl rfl]; simp only [TVTail]
    exact ⟨_, bytesVar_plain p ryu b, dotShape_plain _⟩
theorem tvSeq_plain (p : Print.Options) (ryu : Nat → List UInt8) :
    ∀ (first : Bool) (xs : List Value), TVSeq p ryu first xs (flatten (emitsSeq p ryu first xs))
  | first, [] => by rw [seqP_nil]; simp only [TVSeq]; exact .nil
  | true, x :: xs => by
    rw [seqP_true]; simp only [TVSeq]
    exact ⟨[], _, _, .nil, by simp, tv_plain p ryu x, tvSeq_plain p ryu false xs, by simp⟩
  | false, x :: xs => by
    rw [seqP_false]; simp only [TVSeq]
    exact ⟨[32], _, _, triv_space, by simp, tv_plain p ryu x, tvSeq_plain p ryu false xs, by simp⟩
end

theorem tvTop_plain (p : Print.Options) (ryu : Nat → List UInt8) (v : Value) :
    TVTop p ryu v (text p ryu v) :=
  ⟨[], text p ryu v, [], .nil, tv_plain p ryu v, Triv.nil.toEnd, by simp⟩

theorem tvTop_of_tv (p : Print.Options) (ryu : Nat → List UInt8) (v : Value) (t : List UInt8)
    (h : TV p ryu v t) : TVTop p ryu v t :=
  ⟨[], t, [], .nil, h, Triv.nil.toEnd, by simp⟩

/-! ## Main theorems -/

/-- the value of a successful result -/
def okValue {α : Type} : Res α → Option α
  | .ok a _ => some a
  | _ => none

theorem value_rtT_lead (p : Print.Options) (cfg : Cfg) (ryu : Nat → List UInt8)
    (hc : Compatible p cfg.opts = true) (v : Value) (h : AllAtomsOKP p cfg ryu v)
    (w0 t : List UInt8) (hw0 : Triv w0) (ht : TV p ryu v t)
    (s : St) (rest : List UInt8) (fuel : Nat) (hf : Follow rest) (hg : Good s)
    (hr : s.rd.rest = w0 ++ (t ++ rest)) (hfu : fuel ≥ 2 * s.rd.rest.length + 3)
    (hn : nestingP p v + 1 ≤ s.depth) :
    Runs (nextValue cfg fuel) s (some (fold p cfg.opts v)) rest := by
  obtain ⟨c, tl, hct, hc1, hc2, -, -, -⟩ := tv_head p cfg ryu v h t ht
  have hlen := congrArg List.length hr
  simp only [List.length_append] at hlen
  obtain ⟨s1, g1, r1, d1, heq⟩ := nextValue_skipT cfg s hg w0 hw0 c (tl ++ rest)
    (by rw [hr, hct]; simp) hc1 (by simp [hc2])
  have hr1 : s1.rd.rest = t ++ rest := by rw [r1, hct]; simp
  obtain ⟨s2, e2, r2, g2, d2⟩ := value_rtT p cfg ryu (compatible_brackets p cfg.opts hc)
    (bytesOKT_of_compat p cfg hc) v h t ht s1 rest fuel hf g1 hr1
    (by rw [hr1]; simp only [List.length_append]; omega) (by omega)
  exact ⟨s2, (heq fuel).trans e2, r2, g2, by omega⟩

/-- **trivia_structure.** For every compatible pair of printer options `p` and parser options
    `cfg.opts`, every value `v` whose atom leaves round-trip (`AllAtomsOKP`; implied by
    `AllPlainFor`), every trivia string `w0` and every trivia variant `t` of the text of `v`:
    in any non-faulty slice state whose unread input is `w0 ++ t ++ rest` with `rest` a follow
    context (empty or starting with a byte that ends every token), with a depth budget above the
    nesting of `v` and fuel at least `2 * (unread length) + 3`, `next_value` returns
    `fold p cfg.opts v` — exactly what it returns on the plain text (`dialectRT_structure`) —
    leaves exactly `rest` unread and restores the depth budget. -/
theorem trivia_structure (cfg : Cfg) (p : Print.Options) (ryu : Nat → List UInt8)
    (hc : Compatible p cfg.opts = true) (v : Value) (h : AllAtomsOKP p cfg ryu v)
    (w0 t : List UInt8) (hw0 : Triv w0) (ht : TV p ryu v t)
    (s : St) (rest : List UInt8) (fuel : Nat) (hf : Follow rest)
    (hm : s.rd.mode = .slice) (hfa : s.rd.faulty = false)
    (hr : s.rd.rest = w0 ++ (t ++ rest))
    (hfu : fuel ≥ 2 * s.rd.rest.length + 3) (hn : nestingP p v + 1 ≤ s.depth) :
    ∃ s', nextValue cfg fuel s = .ok (some (fold p cfg.opts v)) s' ∧ s'.rd.rest = rest ∧
      s'.rd.mode = .slice ∧ s'.rd.faulty = false ∧ s'.depth = s.depth := by
  obtain ⟨s', e, r, ⟨gm, gf⟩, d⟩ :=
    value_rtT_lead p cfg ryu hc v h w0 t hw0 ht s rest fuel hf ⟨hm, hfa⟩ hr hfu hn
  exact ⟨s', e, r, gm, gf, d⟩

/-- **C12_trivia_atoms**: `from_slice` on any top-level trivia variant (leading trivia, a variant of
    the text, final trivia whose last comment may be unterminated) returns `fold p cfg.opts v`,
    with everything consumed and the depth budget restored; the atom round trips are a
    hypothesis. -/
theorem C12_trivia_atoms (cfg : Cfg) (p : Print.Options) (ryu : Nat → List UInt8)
    (hc : Compatible p cfg.opts = true) (v : Value) (h : AllAtomsOKP p cfg ryu v)
    (hn : nestingP p v ≤ 127) (t : List UInt8) (ht : TVTop p ryu v t) :
    ∃ s', fromTrait cfg (initSt .slice t) = .ok (fold p cfg.opts v) s' ∧
      s'.rd.rest = [] ∧ s'.depth = 128 := by
  obtain ⟨w0, tv, w1, hw0, htv, hw1, rfl⟩ := ht
  have hv := value_rtT_lead p cfg ryu hc v h w0 tv hw0 htv (initSt .slice (w0 ++ (tv ++ w1))) w1
    (2 * (initSt .slice (w0 ++ (tv ++ w1))).rd.rest.length + 4) hw1.follow ⟨rfl, rfl⟩
    (by simp [initSt]) (by omega) (by simp [initSt]; omega)
  obtain ⟨s', e, r, _, d⟩ := fromTrait_of_nextValueT cfg _ _ w1 hw1 hv
  exact ⟨s', e, r, d⟩

/-- **C12_trivia** (the trivia clause of C12): for every compatible pair of option sets, every
    value whose atoms are plain for the pair (`AllPlainFor`) and whose nesting is at most 127,
    and every text obtained from the printed text of `v` by inserting trivia at token boundaries
    (`TVTop`): `from_slice_custom` returns `fold p cfg.opts v`, consuming everything and restoring
    the depth budget — the same as on the printed text itself (`dialectRT_roundtrip`). -/
theorem C12_trivia (cfg : Cfg) (p : Print.Options) (ryu : Nat → List UInt8)
    (hc : Compatible p cfg.opts = true) (v : Value) (h : AllPlainFor p cfg v)
    (hn : nestingP p v ≤ 127) (t : List UInt8) (ht : TVTop p ryu v t) :
    ∃ s', fromTrait cfg (initSt .slice t) = .ok (fold p cfg.opts v) s' ∧
      s'.rd.rest = [] ∧ s'.depth = 128 :=
  C12_trivia_atoms cfg p ryu hc v (allAtomsOKP_of_plain p cfg ryu hc v h) hn t ht

/-- **C12_trivia_plain**: the statement of the design document,
    `parse R (printT τ P v) = parse R (bytes P v)`: the value read from any trivia variant is the
    value read from the printed text. -/
theorem C12_trivia_plain (cfg : Cfg) (p : Print.Options) (ryu : Nat → List UInt8)
    (hc : Compatible p cfg.opts = true) (v : Value) (h : AllPlainFor p cfg v)
    (hn : nestingP p v ≤ 127) (t : List UInt8) (ht : TVTop p ryu v t) :
    okValue (fromTrait cfg (initSt .slice t)) =
      okValue (fromTrait cfg (initSt .slice (text p ryu v))) ∧
    okValue (fromTrait cfg (initSt .slice t)) = some (fold p cfg.opts v) := by
  obtain ⟨s1, e1, -, -⟩ := C12_trivia cfg p ryu hc v h hn t ht
  obtain ⟨s2, e2, -, -⟩ := dialectRT_roundtrip cfg p ryu hc v h hn
  rw [e1, e2]; exact ⟨rfl, rfl⟩

/-- **C12_trivia_eq**: changing the trivia never changes the value: any two trivia variants of the
    text of the same value read as the same value. -/
theorem C12_trivia_eq (cfg : Cfg) (p : Print.Options) (ryu : Nat → List UInt8)
    (hc : Compatible p cfg.opts = true) (v : Value) (h : AllPlainFor p cfg v)
    (hn : nestingP p v ≤ 127) (t1 t2 : List UInt8) (h1 : TVTop p ryu v t1)
    (h2 : TVTop p ryu v t2) :
    okValue (fromTrait cfg (initSt .slice t1)) = okValue (fromTrait cfg (initSt .slice t2)) := by
  rw [(C12_trivia_plain cfg p ryu hc v h hn t1 h1).2, (C12_trivia_plain cfg p ryu hc v h hn t2 h2).2]

/-- `C12_trivia` with the nesting measure of `Spec/Dialect.lean` (as in `C02_roundtrip`). -/
theorem C12_trivia_spec (cfg : Cfg) (p : Print.Options) (ryu : Nat → List UInt8)
    (hc : Compatible p cfg.opts = true) (v : Value) (h : AllPlainFor p cfg v)
    (hn : Spec.nesting v < 127) (t : List UInt8) (ht : TVTop p ryu v t) :
    ∃ s', fromTrait cfg (initSt .slice t) = .ok (fold p cfg.opts v) s' ∧
      s'.rd.rest = [] ∧ s'.depth = 128 :=
  C12_trivia cfg p ryu hc v h (by have := nestingP_le p v; omega) t ht

end ListRT
end Parse
end Lexpr
