/-
  ConcatDatum — C12, concatenation part, for the datum API: `Parser::next_datum` and
  `datum_iter().next()` on the concatenation of printed values return datums whose values are
  exactly those values (folded), then end of input.  From `Concat.lean` by the simulation of the
  datum parser by the value parser (`C10_sim` / `C10_streams` of `DatumValue.lean`; used here through
  the copy `ConcatDatumCopy.lean`, because `DatumValue.lean` and `AtomRT.lean` both declare
  `Lexpr.Parse.bind_apply` and cannot be imported together).
-/
import LexprModel.Proofs.Concat
import LexprModel.Proofs.ConcatDatumCopy
namespace Lexpr
namespace Parse
namespace Concat
open Print Spec ListRT DV

/-- the two ways of asking a parser for the next datum -/
def DatumOp (op : Op) : Prop := op = .nextDatum ∨ op = .datumIterNext

theorem valueOp_toValue (op : Op) (h : DatumOp op) : ValueOp op.toValueC := by
  rcases h with rfl | rfl
  · exact .inl rfl
  · exact .inr (.inl rfl)

/-- a datum call never returns a bare value item -/
theorem stepOp_datum_noValue (cfg : Cfg) (op : Op) (h : DatumOp op) (s : St) (v : Value) :
    (stepOp cfg op s).1 ≠ .value v := by
  rcases h with rfl | rfl <;> simp only [stepOp] <;>
    (cases nextDatumTop cfg s with
     | ok a s' => cases a <;> simp
     | err e s' => simp
     | panic p => simp
     | fuel => simp)

theorem runHistory_noValue (cfg : Cfg) (op : Op) (h : DatumOp op) :
    ∀ (n : Nat) (s : St), ∀ it ∈ runHistory cfg (List.replicate n op) s, ∀ v, it ≠ .value v
  | 0, _, it, hit, _ => by simp [runHistory] at hit
  | n + 1, s, it, hit, v => by
    have h0 := stepOp_datum_noValue cfg op h s
    simp only [List.replicate_succ, runHistory] at hit
    rcases hs : stepOp cfg op s with ⟨i, _ | s'⟩
    · rw [hs] at hit h0
      simp only [List.mem_cons, List.not_mem_nil, or_false] at hit
      subst hit; exact h0 v
    · rw [hs] at hit h0
      rcases List.mem_cons.1 hit with rfl | hit
      · exact h0 v
      · exact runHistory_noValue cfg op h n s' it hit v

theorem iterate_noValue (cfg : Cfg) (op : Op) (h : DatumOp op) :
    ∀ (cap : Nat) (s : St), ∀ it ∈ iterate cfg op cap s, ∀ v, it ≠ .value v
  | 0, _, it, hit, _ => by simp [iterate] at hit
  | cap + 1, s, it, hit, v => by
    have h0 := stepOp_datum_noValue cfg op h s
    unfold iterate at hit
    rcases hs : stepOp cfg op s with ⟨i, _ | s'⟩
    · rw [hs] at hit h0
      cases i <;> simp at hit <;> subst hit <;> first | exact h0 v | simp
    · rw [hs] at hit h0
      cases i <;> simp at hit <;>
        first
        | (subst hit; simp)
        | (rcases hit with rfl | hit
           · first | exact h0 v | simp
           · exact iterate_noValue cfg op h cap s' it hit v)

theorem toValue_replicate_none : ∀ (k : Nat) (l : List Item),
    l.map Item.toValueC = List.replicate k .none_ → l = List.replicate k .none_
  | 0, l, h => by simpa using h
  | k + 1, [], h => by simp [List.replicate_succ] at h
  | k + 1, i :: l, h => by
    simp only [List.map_cons, List.replicate_succ, List.cons.injEq] at h
    rw [(Item.toValueC_eq_none i).1 h.1, toValue_replicate_none k l h.2, List.replicate_succ]

/-- items of datum calls whose values are `vs`, then `k` end marks: they are datums -/
theorem datums_of_toValue : ∀ (vs : List Value) (k : Nat) (l : List Item),
    l.map Item.toValueC = vs.map Item.value ++ List.replicate k .none_ →
    (∀ it ∈ l, ∀ v, it ≠ .value v) →
    ∃ ds : List Datum, l = ds.map Item.datum ++ List.replicate k .none_ ∧
      ds.map Datum.value = vs
  | [], k, l, h, _ => ⟨[], by simpa using toValue_replicate_none k l (by simpa using h), rfl⟩
  | v :: vs, k, [], h, _ => by simp at h
  | v :: vs, k, i :: l, h, hnv => by
    simp only [List.map_cons, List.cons_append, List.cons.injEq] at h
    obtain ⟨ds, hl, hv⟩ := datums_of_toValue vs k l h.2 (fun it hit => hnv it (by simp [hit]))
    have hi := hnv i (by simp)
    cases i with
    | datum d =>
      have : d.value = v := by simpa [Item.toValueC] using h.1
      exact ⟨d :: ds, by simp [hl], by simp [this, hv]⟩
    | value w => exact absurd rfl (hi w)
    | _ => simp [Item.toValueC] at h

/-- **C12_concat_datum.**  As `C12_concat`, for `next_datum` / `datum_iter().next()`: iterating
    to the end of input gives datums `d1 … dn` whose values are `fold p cfg.opts v1`, …,
    `fold p cfg.opts vn`, then the end mark and nothing else; `items.length + k + 1` calls give
    the same datums and `k + 1` end marks. -/
theorem C12_concat_datum (p : Print.Options) (cfg : Cfg) (ryu : Nat → List UInt8)
    (hc : Compatible p cfg.opts = true) (op : Op) (hop : DatumOp op)
    (items : List (List UInt8 × Value)) (tEnd : List UInt8)
    (hall : ∀ it ∈ items, AllPlainFor p cfg it.2 ∧ nestingP p it.2 ≤ 127)
    (hs : SepsOK p ryu true items) (hE : TriviaEnd tEnd) :
    let s0 := initSt .slice (concatText p ryu items ++ tEnd)
    (∀ cap, items.length + 1 ≤ cap →
      ∃ ds : List Datum, iterate cfg op cap s0 = ds.map Item.datum ++ [.none_] ∧
        ds.map Datum.value = items.map fun it => fold p cfg.opts it.2) ∧
    (∀ k, ∃ ds : List Datum,
      runHistory cfg (List.replicate (items.length + (k + 1)) op) s0 =
        ds.map Item.datum ++ List.replicate (k + 1) .none_ ∧
      ds.map Datum.value = items.map fun it => fold p cfg.opts it.2) := by
  intro s0
  have h := C12_concat p cfg ryu hc op.toValueC (valueOp_toValue op hop) items tEnd hall hs hE
  have hv : valueItems p cfg.opts items =
      (items.map fun it => fold p cfg.opts it.2).map Item.value := by
    simp [valueItems, List.map_map]
  constructor
  · intro cap hcap
    have h1 := h.1 cap hcap
    rw [iterate_toValue, hv] at h1
    exact datums_of_toValue _ 1 _ h1 (iterate_noValue cfg op hop cap s0)
  · intro k
    have h2 := h.2.1 k
    rw [← List.map_replicate (f := Op.toValueC), runHistory_toValue, hv] at h2
    exact datums_of_toValue _ (k + 1) _ h2 (runHistory_noValue cfg op hop _ s0)

/-- the instance of `Concat.lean`: ` ;first⏎(a 1)␌"s;x";c⏎⇥foo ; end` through `datum_iter()` -/
example (ryu : Nat → List UInt8) :
    ∃ ds : List Datum,
      iterate cfg0 .datumIterNext 4
        (initSt .slice (concatText Print.Options.default ryu exItems ++ asc " ; end")) =
        ds.map Item.datum ++ [.none_] ∧
      ds.map Datum.value = [.cons (.symbol (asc "a")) (.cons (.number (.pos 1)) .null),
        .string (asc "s;x"), .symbol (asc "foo")] := by
  obtain ⟨ds, h1, h2⟩ := (C12_concat_datum Print.Options.default cfg0 ryu (by decide) .datumIterNext
    (.inr rfl) exItems (asc " ; end") exItems_plain (exItems_seps ryu)
    (triviaEnd_of_triviaEndB _ (by decide))).1 4 (by decide)
  refine ⟨ds, h1, ?_⟩
  rw [h2]
  simp [exItems, cfg0, C02_fold_default]

#print axioms C12_concat_datum

end Concat
end Parse
end Lexpr
