/-
  serde-lexpr: totality of the value deserializer (C18), shape facts (C14) and the value round trip (C04)
  over the model of `LexprModel/Serde.lean`.
-/
import LexprModel.Serde
import LexprModel.Props.C15
import LexprModel.Proofs.F32Idem
namespace Lexpr
namespace Serde

/-! ### the `DeRes` monad -/

@[simp] theorem DeRes.ok_bind {α β} (a : α) (f : α → DeRes β) : (DeRes.ok a >>= f) = f a := rfl
@[simp] theorem DeRes.dataErr_bind {α β} (f : α → DeRes β) : (DeRes.dataErr >>= f) = .dataErr := rfl
@[simp] theorem DeRes.panic_bind {α β} (f : α → DeRes β) : (DeRes.panic >>= f) = .panic := rfl
@[simp] theorem DeRes.pure_eq {α} (a : α) : (pure a : DeRes α) = .ok a := rfl

instance : LawfulMonad DeRes := LawfulMonad.mk'
  (id_map := by intro α x; cases x <;> rfl)
  (pure_bind := by intros; rfl)
  (bind_assoc := by intro α β γ x f g; cases x <;> rfl)

theorem DeRes.bind_eq_ok {α β} {m : DeRes α} {f : α → DeRes β} {b : β} :
    (m >>= f) = .ok b ↔ ∃ a, m = .ok a ∧ f a = .ok b := by
  cases m <;> simp

theorem DeRes.bind_ne_panic {α β} {m : DeRes α} {f : α → DeRes β}
    (hm : m ≠ .panic) (hf : ∀ a, f a ≠ .panic) : (m >>= f) ≠ .panic := by
  cases m <;> simp_all

theorem DeRes.ok_or_dataErr {α} {m : DeRes α} (h : m ≠ .panic) : (∃ a, m = .ok a) ∨ m = .dataErr := by
  cases m <;> simp_all

/-! ### unfolding lemmas for `deVariant` -/

theorem deVariant_unit (n : List UInt8) (vs : VariantList) (i : Nat) (name : List UInt8) (p : Option Value) :
    deVariant (.cons n .unit vs) i name p =
      if n == name then .ok (.variant i .unit) else deVariant vs (i + 1) name p := by
  rw [deVariant]

theorem deVariant_newtype (n : List UInt8) (t : Ty) (vs : VariantList) (i : Nat) (name : List UInt8)
    (p : Option Value) :
    deVariant (.cons n (.newtype t) vs) i name p =
      if n == name then
        (match p with
         | some p => de t p >>= fun d => pure (.variant i d)
         | none => .dataErr)
      else deVariant vs (i + 1) name p := by
  cases p <;> simp [deVariant]

theorem deVariant_tuple (n : List UInt8) (ts : TyList) (vs : VariantList) (i : Nat) (name : List UInt8)
    (p : Option Value) :
    deVariant (.cons n (.tuple ts) vs) i name p =
      if n == name then
        (match p with
         | some p => deTupleLike ts p >>= fun d => pure (.variant i d)
         | none => .dataErr)
      else deVariant vs (i + 1) name p := by
  cases p <;> simp [deVariant]

theorem deVariant_struct (n : List UInt8) (fs : FieldList) (vs : VariantList) (i : Nat) (name : List UInt8)
    (p : Option Value) :
    deVariant (.cons n (.struct fs) vs) i name p =
      if n == name then
        (match p with
         | some p => deStructLike (deField fs) fs.optFlags p >>= fun d => pure (.variant i d)
         | none => .dataErr)
      else deVariant vs (i + 1) name p := by
  cases p <;> simp [deVariant]

/-! ### C18: no panic -/

theorem deNumber_np (t : Ty) (n : Number) : deNumber t n ≠ .panic := by
  unfold deNumber
  cases t <;> cases n <;> simp <;> split <;> simp

theorem mapM_np {f : Value → DeRes Data} (hf : ∀ v, f v ≠ .panic) :
    ∀ xs : List Value, xs.mapM f ≠ .panic
  | [] => by simp
  | x :: xs => by
    rw [List.mapM_cons]
    exact DeRes.bind_ne_panic (hf x) fun a => DeRes.bind_ne_panic (mapM_np hf xs) fun b => by simp

theorem deChain_np {f : Value → DeRes Data} (hf : ∀ v, f v ≠ .panic) :
    ∀ a d : Value, deChain f a d ≠ .panic
  | a, .cons a' d' => by
    rw [deChain]
    exact DeRes.bind_ne_panic (hf a) fun _ => DeRes.bind_ne_panic (deChain_np hf a' d') fun _ => by simp
  | a, .null => by rw [deChain]; exact DeRes.bind_ne_panic (hf a) fun _ => by simp
  | a, .nil | a, .bool _ | a, .number _ | a, .char _ | a, .string _ | a, .symbol _ | a, .keyword _
  | a, .bytes _ | a, .vector _ => by
    rw [deChain]; exact DeRes.bind_ne_panic (hf a) fun _ => by simp
    all_goals simp

theorem deSeqLike_np {f : Value → DeRes Data} (hf : ∀ v, f v ≠ .panic) (v : Value) :
    deSeqLike f v ≠ .panic := by
  cases v <;> simp only [deSeqLike, ne_eq, reduceCtorEq, not_false_eq_true]
  · exact DeRes.bind_ne_panic (deChain_np hf _ _) fun _ => by simp
  · exact DeRes.bind_ne_panic (mapM_np hf _) fun _ => by simp

theorem deEntries_np {fk fv : Value → DeRes Data} (hk : ∀ v, fk v ≠ .panic) (hv : ∀ v, fv v ≠ .panic) :
    ∀ a d : Value, deEntries fk fv a d ≠ .panic
  | .cons ka va, rest => by
    rw [deEntries]
    refine DeRes.bind_ne_panic (hk ka) fun _ => DeRes.bind_ne_panic (hv va) fun _ => ?_
    cases rest <;> simp
    exact DeRes.bind_ne_panic (deEntries_np hk hv _ _) fun _ => by simp
  | .nil, _ | .null, _ | .bool _, _ | .number _, _ | .char _, _ | .string _, _ | .symbol _, _
  | .keyword _, _ | .bytes _, _ | .vector _, _ => by simp [deEntries]

theorem deStructEntries_np {field : List UInt8 → Value → Option (DeRes Data)}
    (hf : ∀ n va r, field n va = some r → r ≠ .panic) :
    ∀ (a d : Value) (got : List (List UInt8 × Data)), deStructEntries field a d got ≠ .panic
  | .cons (.symbol name) va, rest, got => by
    rw [deStructEntries]
    refine DeRes.bind_ne_panic ?_ fun got' => ?_
    · cases h : field name va with
      | none => simp
      | some r =>
        simp only
        split
        · simp
        · exact DeRes.bind_ne_panic (hf _ _ _ h) fun _ => by simp
    · cases rest <;> simp
      exact deStructEntries_np hf _ _ _
  | .nil, _, _ | .null, _, _ | .bool _, _, _ | .number _, _, _ | .char _, _, _ | .string _, _, _
  | .symbol _, _, _ | .keyword _, _, _ | .bytes _, _, _ | .vector _, _, _ => by simp [deStructEntries]
  | .cons .nil _, _, _ | .cons .null _, _, _ | .cons (.bool _) _, _, _ | .cons (.number _) _, _, _
  | .cons (.char _) _, _, _ | .cons (.string _) _, _, _ | .cons (.keyword _) _, _, _
  | .cons (.bytes _) _, _, _ | .cons (.vector _) _, _, _ | .cons (.cons _ _) _, _, _ => by
    simp [deStructEntries]

theorem deStructFill_np : ∀ (flags : List (List UInt8 × Bool)) (got : List (List UInt8 × Data)),
    deStructFill flags got ≠ .panic
  | [], _ => by simp [deStructFill]
  | (n, isOpt) :: fs, got => by
    rw [deStructFill]
    split
    · exact DeRes.bind_ne_panic (deStructFill_np fs got) fun _ => by simp
    · split
      · exact DeRes.bind_ne_panic (deStructFill_np fs got) fun _ => by simp
      · simp

theorem deStructLike_np {field : List UInt8 → Value → Option (DeRes Data)}
    (hf : ∀ n va r, field n va = some r → r ≠ .panic) (flags : List (List UInt8 × Bool)) (v : Value) :
    deStructLike field flags v ≠ .panic := by
  cases v <;> simp only [deStructLike, ne_eq, reduceCtorEq, not_false_eq_true]
  · exact DeRes.bind_ne_panic (deStructFill_np _ _) fun _ => by simp
  · exact DeRes.bind_ne_panic (deStructEntries_np hf _ _ _) fun _ =>
      DeRes.bind_ne_panic (deStructFill_np _ _) fun _ => by simp

theorem deTupleLike_np' {ts : TyList} (h1 : ∀ xs, deTupleVec ts xs ≠ .panic)
    (h2 : ∀ o, deTupleList ts o ≠ .panic) (v : Value) : deTupleLike ts v ≠ .panic := by
  cases v <;> simp only [deTupleLike, ne_eq, reduceCtorEq, not_false_eq_true]
  · exact DeRes.bind_ne_panic (h1 _) fun _ => by simp
  · split
    · exact DeRes.bind_ne_panic (h2 _) fun _ => by simp
    · simp
  · exact DeRes.bind_ne_panic (h1 _) fun _ => by simp

theorem deTupleSeq_np' {ts : TyList} (h1 : ∀ xs, deTupleVec ts xs ≠ .panic)
    (h2 : ∀ o, deTupleList ts o ≠ .panic) (v : Value) : deTupleSeq ts v ≠ .panic := by
  cases v <;> simp only [deTupleSeq, ne_eq, reduceCtorEq, not_false_eq_true]
  · exact DeRes.bind_ne_panic (h1 _) fun _ => by simp
  · exact DeRes.bind_ne_panic (h2 _) fun _ => by simp
  · exact DeRes.bind_ne_panic (h1 _) fun _ => by simp

mutual
theorem de_np : ∀ (t : Ty) (v : Value), de t v ≠ .panic
  | .int w, v => by cases v <;> simp [de, deNumber_np]
  | .f32, v => by cases v <;> simp [de, deNumber_np]
  | .f64, v => by cases v <;> simp [de, deNumber_np]
  | .bool, v => by cases v <;> simp [de]
  | .char, v => by cases v <;> simp [de]
  | .str, v => by cases v <;> simp [de]
  | .bytes, v => by cases v <;> simp [de]
  | .unit, v => by cases v <;> simp [de]
  | .unitStruct, v => by cases v <;> simp [de]
  | .option t, v => by
    cases v <;> simp [de]
    rename_i a d
    cases d <;> simp [de]
    exact DeRes.bind_ne_panic (de_np t a) fun _ => by simp
  | .seq t, v => by rw [de]; exact deSeqLike_np (de_np t) v
  | .set t, v => by rw [de]; exact deSeqLike_np (de_np t) v
  | .tuple ts, v => by rw [de]; exact deTupleLike_np' (deTupleVec_np ts) (deTupleList_np ts) v
  | .tupleStruct ts, v => by rw [de]; exact deTupleLike_np' (deTupleVec_np ts) (deTupleList_np ts) v
  | .newtypeStruct t, v => by rw [de]; exact de_np t v
  | .map k v, x => by
    cases x <;> simp [de]
    exact DeRes.bind_ne_panic (deEntries_np (de_np k) (de_np v) _ _) fun _ => by simp
  | .struct fs, v => by rw [de]; exact deStructLike_np (deField_np fs) _ v
  | .enum vs, v => by
    cases v <;> simp [de]
    · exact deVariant_np vs _ _ _
    · rename_i a d
      cases a <;> simp [de]
      exact deVariant_np vs _ _ _
theorem deTupleVec_np : ∀ (ts : TyList) (xs : List Value), deTupleVec ts xs ≠ .panic
  | .nil, _ => by simp [deTupleVec]
  | .cons _ _, [] => by simp [deTupleVec]
  | .cons t ts, x :: xs => by
    rw [deTupleVec]
    exact DeRes.bind_ne_panic (de_np t x) fun _ => DeRes.bind_ne_panic (deTupleVec_np ts xs) fun _ => by simp
theorem deTupleList_np : ∀ (ts : TyList) (o : Option (Value × Value)), deTupleList ts o ≠ .panic
  | .nil, _ => by simp [deTupleList]
  | .cons _ _, none => by simp [deTupleList]
  | .cons t ts, some (a, d) => by
    rw [deTupleList]
    refine DeRes.bind_ne_panic (de_np t a) fun _ => ?_
    cases d <;> simp
    · exact DeRes.bind_ne_panic (deTupleList_np ts _) fun _ => by simp
    · exact DeRes.bind_ne_panic (deTupleList_np ts _) fun _ => by simp
theorem deField_np : ∀ (fs : FieldList) (name : List UInt8) (va : Value) (r : DeRes Data),
    deField fs name va = some r → r ≠ .panic
  | .nil, _, _, _ => by simp [deField]
  | .cons n t fs, name, va, r => by
    rw [deField]
    split
    · intro h; cases h; exact de_np t va
    · exact deField_np fs name va r
theorem deVariant_np : ∀ (vs : VariantList) (i : Nat) (name : List UInt8) (p : Option Value),
    deVariant vs i name p ≠ .panic
  | .nil, _, _, _ => by simp [deVariant]
  | .cons n .unit vs, i, name, p => by
    rw [deVariant]; split
    · simp
    · exact deVariant_np vs _ _ _
  | .cons n (.newtype t) vs, i, name, p => by
    rw [deVariant_newtype]; split
    · cases p <;> simp
      exact DeRes.bind_ne_panic (de_np t _) fun _ => by simp
    · exact deVariant_np vs _ _ _
  | .cons n (.tuple ts) vs, i, name, p => by
    rw [deVariant_tuple]; split
    · cases p <;> simp
      exact DeRes.bind_ne_panic (deTupleLike_np' (deTupleVec_np ts) (deTupleList_np ts) _) fun _ => by simp
    · exact deVariant_np vs _ _ _
  | .cons n (.struct fs) vs, i, name, p => by
    rw [deVariant_struct]; split
    · cases p <;> simp
      exact DeRes.bind_ne_panic (deStructLike_np (deField_np fs) _ _) fun _ => by simp
    · exact deVariant_np vs _ _ _
end

/-! ### lists -/

@[simp] theorem list_nil : Value.list [] = .null := rfl
@[simp] theorem list_cons (x : Value) (xs : List Value) : Value.list (x :: xs) = .cons x (Value.list xs) := rfl

theorem isListTail_list : ∀ xs : List Value, Value.isList.isListTail (Value.list xs) = true
  | [] => rfl
  | _ :: xs => by simp [Value.isList.isListTail, isListTail_list xs]

theorem isList_list (xs : List Value) : (Value.list xs).isList = true := by
  cases xs <;> simp [Value.isList, isListTail_list]

/-- a tail that is neither `Null` nor a pair -/
def BadTail (tl : Value) : Prop := tl.isNull = false ∧ tl.isCons = false

theorem deChain_list (f : Value → DeRes Data) : ∀ (xs : List Value) (x : Value),
    deChain f x (Value.list xs) = (x :: xs).mapM f
  | [], x => by simp [deChain]
  | y :: ys, x => by
    rw [list_cons, deChain, deChain_list f ys y, List.mapM_cons (a := x)]

theorem deSeqLike_list (f : Value → DeRes Data) (xs : List Value) :
    deSeqLike f (Value.list xs) = deSeqLike f (.vector xs) := by
  cases xs with
  | nil => simp [deSeqLike]
  | cons x xs => simp only [list_cons, deSeqLike, deChain_list]

theorem deChain_improper (f : Value → DeRes Data) (tl : Value) (htl : BadTail tl) :
    ∀ (xs : List Value) (x : Value) (ds : List Data), deChain f x (Value.append xs tl) ≠ .ok ds
  | [], x, ds => by
    obtain ⟨h1, h2⟩ := htl
    cases tl <;> simp_all [Value.isNull, Value.asNull, Value.isCons, Value.append, deChain] <;>
      cases f x <;> simp
  | y :: ys, x, ds => by
    simp only [Value.append, deChain]
    intro h
    obtain ⟨_, _, h⟩ := DeRes.bind_eq_ok.mp h
    obtain ⟨_, h, _⟩ := DeRes.bind_eq_ok.mp h
    exact deChain_improper f tl htl ys y _ h

theorem deSeqLike_improper (f : Value → DeRes Data) (tl : Value) (htl : BadTail tl)
    (xs : List Value) (hxs : xs ≠ []) (d : Data) : deSeqLike f (Value.append xs tl) ≠ .ok d := by
  cases xs with
  | nil => exact absurd rfl hxs
  | cons x xs =>
    simp only [Value.append, deSeqLike]
    intro h
    obtain ⟨_, h, _⟩ := DeRes.bind_eq_ok.mp h
    exact deChain_improper f tl htl xs x _ h

theorem deTupleList_none : ∀ ts : TyList, deTupleList ts none = deTupleVec ts []
  | .nil => by simp [deTupleList, deTupleVec]
  | .cons _ _ => by simp [deTupleList, deTupleVec]

theorem deTupleList_list : ∀ (ts : TyList) (x : Value) (xs : List Value),
    deTupleList ts (some (x, Value.list xs)) = deTupleVec ts (x :: xs)
  | .nil, _, _ => by simp [deTupleList, deTupleVec]
  | .cons t ts, x, [] => by simp [deTupleList, deTupleVec, deTupleList_none]
  | .cons t ts, x, y :: ys => by
    rw [list_cons, deTupleList, deTupleVec]
    simp only [deTupleList_list ts y ys]

theorem deTupleSeq_list (ts : TyList) (xs : List Value) :
    deTupleSeq ts (Value.list xs) = deTupleSeq ts (.vector xs) := by
  cases xs with
  | nil => simp [deTupleSeq]
  | cons x xs => simp only [list_cons, deTupleSeq, deTupleList_list]

theorem deTupleLike_list (ts : TyList) (xs : List Value) :
    deTupleLike ts (Value.list xs) = deTupleLike ts (.vector xs) := by
  cases xs with
  | nil => simp [deTupleLike]
  | cons x xs =>
    have := isList_list (x :: xs)
    simp only [list_cons] at this
    simp only [list_cons, deTupleLike, this, if_true, deTupleList_list]

theorem deTupleLike_improper (ts : TyList) (tl : Value) (htl : BadTail tl)
    (xs : List Value) (hxs : xs ≠ []) : deTupleLike ts (Value.append xs tl) = .dataErr := by
  cases xs with
  | nil => exact absurd rfl hxs
  | cons x xs =>
    have h := Value.C15_is_list (x :: xs) tl htl.2
    rw [htl.1] at h
    simp only [Value.append] at h
    simp [Value.append, deTupleLike, h]

/-! ### typing and well-formedness -/

def VariantList.names : VariantList → List (List UInt8)
  | .nil => []
  | .cons n _ vs => n :: vs.names

mutual
/-- `HasTy t d`: the datum `d` inhabits the type `t`. -/
def HasTy : Ty → Data → Prop
  | .int w, .int n => w.lo ≤ n ∧ n ≤ w.hi
  | .f32, .float b => roundToF32 b = b
  | .f64, .float _ => True
  | .bool, .bool _ => True
  | .char, .char _ => True
  | .str, .str _ => True
  | .bytes, .bytes _ => True
  | .unit, .unit => True
  | .unitStruct, .unit => True
  | .option _, .none => True
  | .option t, .some d => HasTy t d
  | .seq t, .seq ds => ∀ d ∈ ds, HasTy t d
  | .set t, .seq ds => ∀ d ∈ ds, HasTy t d
  | .tuple ts, .seq ds => HasTyTuple ts ds
  | .tupleStruct ts, .seq ds => HasTyTuple ts ds
  | .newtypeStruct t, d => HasTy t d
  | .map k v, .map kvs => ∀ p ∈ kvs, HasTy k p.1 ∧ HasTy v p.2
  | .struct fs, .seq ds => HasTyFields fs ds
  | .enum vs, .variant i p => HasTyVariant vs i p
  | _, _ => False
def HasTyTuple : TyList → List Data → Prop
  | .nil, [] => True
  | .cons t ts, d :: ds => HasTy t d ∧ HasTyTuple ts ds
  | _, _ => False
def HasTyFields : FieldList → List Data → Prop
  | .nil, [] => True
  | .cons _ t fs, d :: ds => HasTy t d ∧ HasTyFields fs ds
  | _, _ => False
def HasTyVariant : VariantList → Nat → Data → Prop
  | .nil, _, _ => False
  | .cons _ var _, 0, p =>
    match var, p with
    | .unit, .unit => True
    | .newtype t, p => HasTy t p
    | .tuple ts, .seq ds => HasTyTuple ts ds
    | .struct fs, .seq ds => HasTyFields fs ds
    | _, _ => False
  | .cons _ _ vs, i + 1, p => HasTyVariant vs i p
end

mutual
/-- `WellFormed t`: every struct type in `t` has distinct field names and every enum type distinct
    variant names (what `serde_derive` / rustc guarantee). -/
def WellFormed : Ty → Prop
  | .option t => WellFormed t
  | .seq t => WellFormed t
  | .set t => WellFormed t
  | .newtypeStruct t => WellFormed t
  | .map k v => WellFormed k ∧ WellFormed v
  | .tuple ts => WFTys ts
  | .tupleStruct ts => WFTys ts
  | .struct fs => fs.names.Nodup ∧ WFFields fs
  | .enum vs => vs.names.Nodup ∧ WFVariants vs
  | _ => True
def WFTys : TyList → Prop
  | .nil => True
  | .cons t ts => WellFormed t ∧ WFTys ts
def WFFields : FieldList → Prop
  | .nil => True
  | .cons _ t fs => WellFormed t ∧ WFFields fs
def WFVariants : VariantList → Prop
  | .nil => True
  | .cons _ var vs =>
    (match var with
     | .unit => True
     | .newtype t => WellFormed t
     | .tuple ts => WFTys ts
     | .struct fs => fs.names.Nodup ∧ WFFields fs) ∧ WFVariants vs
end

/-! ### generic round-trip lemmas for the collecting visitors -/

theorem mapM_rt {f : Data → Option Value} {g : Value → DeRes Data} :
    ∀ ds : List Data, (∀ d ∈ ds, ∃ v, f d = some v ∧ g v = .ok d) →
      ∃ vs, ds.mapM f = some vs ∧ vs.mapM g = .ok ds
  | [], _ => ⟨[], by simp, by simp⟩
  | d :: ds, h => by
    obtain ⟨v, hv, hg⟩ := h d (by simp)
    obtain ⟨vs, hvs, hgs⟩ := mapM_rt ds fun d hd => h d (by simp [hd])
    exact ⟨v :: vs, by simp [List.mapM_cons, hv, hvs], by simp [List.mapM_cons, hg, hgs]⟩

theorem seq_rt {f : Data → Option Value} {g : Value → DeRes Data} (ds : List Data)
    (h : ∀ d ∈ ds, ∃ v, f d = some v ∧ g v = .ok d) :
    ∃ v, (ds.mapM f).map Value.list = some v ∧ deSeqLike g v = .ok (.seq ds) := by
  obtain ⟨vs, hvs, hg⟩ := mapM_rt ds h
  exact ⟨Value.list vs, by simp [hvs], by rw [deSeqLike_list]; simp [deSeqLike, hg]⟩

theorem entries_rt {F : Data × Data → Option Value} {gk gv : Value → DeRes Data} :
    ∀ kvs : List (Data × Data),
      (∀ p ∈ kvs, ∃ x y, F p = some (.cons x y) ∧ gk x = .ok p.1 ∧ gv y = .ok p.2) →
      ∃ vs, kvs.mapM F = some vs ∧ vs.length = kvs.length ∧
        ∀ x xs, vs = x :: xs → deEntries gk gv x (Value.list xs) = .ok kvs
  | [], _ => ⟨[], by simp, by simp, by simp⟩
  | p :: ps, h => by
    obtain ⟨x, y, hF, hx, hy⟩ := h p (by simp)
    obtain ⟨vs, hvs, hlen, hde⟩ := entries_rt ps fun q hq => h q (by simp [hq])
    refine ⟨.cons x y :: vs, by simp [List.mapM_cons, hF, hvs], by simp [hlen], ?_⟩
    intro x' xs' heq
    cases heq
    cases vs with
    | nil =>
      cases ps with
      | nil => simp [deEntries, hx, hy]
      | cons _ _ => simp at hlen
    | cons z zs => simp [deEntries, hx, hy, hde z zs rfl]

/-! ### generic round-trip lemmas for the derived struct visitor -/

theorem lookupField_eq_none {n : List UInt8} : ∀ {got : List (List UInt8 × Data)},
    lookupField n got = none ↔ n ∉ got.map (·.1)
  | [] => by simp [lookupField]
  | (n', d) :: rest => by
    simp only [lookupField, List.map_cons, List.mem_cons, not_or]
    by_cases h : n' = n
    · simp [h]
    · simp [h, lookupField_eq_none (got := rest), Ne.symm h]

theorem lookupField_append_of_not_mem {n : List UInt8} {d : Data} :
    ∀ {pre post : List (List UInt8 × Data)}, n ∉ pre.map (·.1) →
      lookupField n (pre ++ (n, d) :: post) = some d
  | [], _, _ => by simp [lookupField]
  | (n', d') :: pre, post, h => by
    simp only [List.map_cons, List.mem_cons, not_or] at h
    simp [lookupField, Ne.symm h.1, lookupField_append_of_not_mem h.2]

/-- a serialised struct entry: field name, serialised value, datum -/
abbrev Entry := List UInt8 × Value × Data
def Entry.val (e : Entry) : Value := .cons (.symbol e.1) e.2.1
def Entry.got (e : Entry) : List UInt8 × Data := (e.1, e.2.2)

theorem structEntries_rt {field : List UInt8 → Value → Option (DeRes Data)} :
    ∀ (es : List Entry) (e : Entry) (got : List (List UInt8 × Data)),
      (∀ e' ∈ e :: es, field e'.1 e'.2.1 = some (.ok e'.2.2)) →
      (got.map (·.1) ++ (e :: es).map (·.1)).Nodup →
      deStructEntries field e.val (Value.list (es.map Entry.val)) got =
        .ok (got ++ (e :: es).map Entry.got)
  | [], e, got, hf, hnd => by
    have h1 : lookupField e.1 got = none := by
      apply lookupField_eq_none.mpr
      intro hmem
      simp only [List.map_cons, List.map_nil] at hnd
      exact (List.nodup_append.mp hnd).2.2 _ hmem _ (by simp) rfl
    simp [Entry.val, deStructEntries, hf e (by simp), h1, Entry.got]
  | e2 :: es, e, got, hf, hnd => by
    have h1 : lookupField e.1 got = none := by
      apply lookupField_eq_none.mpr
      intro hmem
      exact (List.nodup_append.mp hnd).2.2 _ hmem _ (by simp) rfl
    have ih := structEntries_rt es e2 (got ++ [e.got]) (fun e' he' => hf e' (List.mem_cons_of_mem _ he'))
      (by simpa [Entry.got, List.append_assoc] using hnd)
    rw [List.map_cons, list_cons]
    conv => lhs; rw [Entry.val, deStructEntries]
    simp only [hf e (by simp), h1, Option.isSome_none, Bool.false_eq_true, if_false, DeRes.ok_bind, DeRes.pure_eq]
    rw [show (e.1, e.2.2) = e.got from rfl, ih]
    simp

theorem lookup_entries {es : List Entry} (hnd : (es.map (·.1)).Nodup) :
    ∀ e ∈ es, lookupField e.1 (es.map Entry.got) = some e.2.2 := by
  intro e he
  obtain ⟨pre, post, rfl⟩ := List.append_of_mem he
  have hnot : e.1 ∉ (pre.map Entry.got).map (·.1) := by
    simp only [List.map_append, List.map_cons] at hnd
    have := (List.nodup_append.mp hnd).2.2
    intro hmem
    simp only [List.map_map] at hmem
    exact this _ hmem _ (by simp) rfl
  simp only [List.map_append, List.map_cons, Entry.got]
  exact lookupField_append_of_not_mem hnot

theorem structFill_rt {got : List (List UInt8 × Data)} :
    ∀ (es : List Entry) (flags : List (List UInt8 × Bool)), flags.map (·.1) = es.map (·.1) →
      (∀ e ∈ es, lookupField e.1 got = some e.2.2) →
      deStructFill flags got = .ok (es.map (·.2.2))
  | [], [], _, _ => by simp [deStructFill]
  | [], _ :: _, h, _ => by simp at h
  | _ :: _, [], h, _ => by simp at h
  | e :: es, (n, o) :: flags, h, hl => by
    simp only [List.map_cons, List.cons.injEq] at h
    obtain ⟨rfl, h⟩ := h
    simp [deStructFill, hl e (by simp), structFill_rt es flags h fun e' he' => hl e' (by simp [he'])]

theorem struct_rt {field : List UInt8 → Value → Option (DeRes Data)} {flags : List (List UInt8 × Bool)}
    (es : List Entry) (hflags : flags.map (·.1) = es.map (·.1)) (hnd : (es.map (·.1)).Nodup)
    (hf : ∀ e ∈ es, field e.1 e.2.1 = some (.ok e.2.2)) :
    deStructLike field flags (Value.list (es.map Entry.val)) = .ok (.seq (es.map (·.2.2))) := by
  cases es with
  | nil =>
    cases flags with
    | nil => simp [deStructLike, deStructFill]
    | cons _ _ => simp at hflags
  | cons e es =>
    rw [List.map_cons, list_cons, deStructLike, structEntries_rt es e [] hf (by simpa using hnd)]
    simp only [List.nil_append, DeRes.ok_bind]
    rw [structFill_rt (e :: es) flags hflags (lookup_entries hnd)]
    rfl

/-! ### C04: the value round trip -/

theorem serInt_nonneg (w : IntTy) (n : Int) (hn : 0 ≤ n) : serInt w n = .number (.pos n.toNat) := by
  cases w <;> simp [serInt, Number.ofSigned, Number.ofUnsigned, hn]

theorem serInt_neg (w : IntTy) (n : Int) (hn : n < 0) (hw : w.lo ≤ n) : serInt w n = .number (.neg n) := by
  have hn' : ¬ (0 ≤ n) := by omega
  cases w <;> simp only [IntTy.lo] at hw <;> first | omega | simp [serInt, Number.ofSigned, hn']

theorem de_serInt (w : IntTy) (n : Int) (h1 : w.lo ≤ n) (h2 : n ≤ w.hi) :
    de (.int w) (serInt w n) = .ok (.int n) := by
  by_cases hn : 0 ≤ n
  · rw [serInt_nonneg w n hn]
    simp only [de, deNumber]
    rw [Int.toNat_of_nonneg hn]
    simp [h2]
  · rw [serInt_neg w n (by omega) h1]
    simp [de, deNumber, h1, h2]

theorem optFlags_names : ∀ fs : FieldList, fs.optFlags.map (·.1) = fs.names
  | .nil => rfl
  | .cons _ _ fs => by simp [FieldList.optFlags, FieldList.names, optFlags_names fs]

/-- what `ser` produces for an enum: a bare symbol or `(name . payload)` -/
def variantValue (name : List UInt8) : Option Value → Value
  | none => .symbol name
  | some x => .cons (.symbol name) x

theorem de_enum_variantValue (vs : VariantList) (name : List UInt8) (pl : Option Value) :
    de (.enum vs) (variantValue name pl) = deVariant vs 0 name pl := by
  cases pl <;> simp [variantValue, de]

theorem deTupleSeq_vec_ok {ts : TyList} {vs : List Value} {ds : List Data}
    (h : deTupleVec ts vs = .ok ds) : deTupleSeq ts (Value.list vs) = .ok (.seq ds) := by
  rw [deTupleSeq_list]; simp [deTupleSeq, h]

/-- the payload a tuple variant serialises to (a proper list) is read back by `deserialize_tuple` -/
theorem deTupleLike_vec_ok {ts : TyList} {vs : List Value} {ds : List Data}
    (h : deTupleVec ts vs = .ok ds) : deTupleLike ts (Value.list vs) = .ok (.seq ds) := by
  rw [deTupleLike_list]; simp [deTupleLike, h]

theorem rt_variant_succ {n : List UInt8} {var : Variant} {vs : VariantList} {i : Nat} {p : Data}
    (hnd : (VariantList.cons n var vs).names.Nodup)
    (ih : ∃ name pl, serVariant vs i p = some (variantValue name pl) ∧ name ∈ vs.names ∧
      ∀ k, deVariant vs k name pl = .ok (.variant (k + i) p)) :
    ∃ name pl, serVariant (.cons n var vs) (i + 1) p = some (variantValue name pl) ∧
      name ∈ (VariantList.cons n var vs).names ∧
      ∀ k, deVariant (.cons n var vs) k name pl = .ok (.variant (k + (i + 1)) p) := by
  simp only [VariantList.names, List.nodup_cons] at hnd
  obtain ⟨name, pl, hs, hmem, hd⟩ := ih
  refine ⟨name, pl, by simpa [serVariant] using hs, by simp [VariantList.names, hmem], ?_⟩
  intro k
  have hne : n ≠ name := fun heq => hnd.1 (heq ▸ hmem)
  have := hd (k + 1)
  cases var <;>
    simp [deVariant_unit, deVariant_newtype, deVariant_tuple, deVariant_struct, hne, this] <;> omega

mutual
theorem rt_ty : ∀ (t : Ty) (d : Data), WellFormed t → HasTy t d →
    ∃ v, ser t d = some v ∧ de t v = .ok d
  | .int w, d, _, h => by
    cases d <;> simp only [HasTy] at h
    exact ⟨_, by rw [ser], de_serInt _ _ h.1 h.2⟩
  | .f32, d, _, h => by
    cases d <;> simp only [HasTy] at h
    exact ⟨_, by rw [ser], by simp [de, deNumber, h]⟩
  | .f64, d, _, h => by
    cases d <;> simp only [HasTy] at h
    exact ⟨_, by rw [ser], by simp [de, deNumber]⟩
  | .bool, d, _, h => by
    cases d <;> simp only [HasTy] at h
    exact ⟨_, by rw [ser], by simp [de]⟩
  | .char, d, _, h => by
    cases d <;> simp only [HasTy] at h
    exact ⟨_, by rw [ser], by simp [de]⟩
  | .str, d, _, h => by
    cases d <;> simp only [HasTy] at h
    exact ⟨_, by rw [ser], by simp [de]⟩
  | .bytes, d, _, h => by
    cases d <;> simp only [HasTy] at h
    exact ⟨_, by rw [ser], by simp [de]⟩
  | .unit, d, _, h => by
    cases d <;> simp only [HasTy] at h
    exact ⟨_, by rw [ser], by simp [de]⟩
  | .unitStruct, d, _, h => by
    cases d <;> simp only [HasTy] at h
    exact ⟨_, by rw [ser], by simp [de]⟩
  | .option t, d, wf, h => by
    cases d <;> simp only [HasTy] at h
    · exact ⟨_, by rw [ser], by simp [de]⟩
    · rename_i d
      simp only [WellFormed] at wf
      obtain ⟨v, hs, hd⟩ := rt_ty t d wf h
      exact ⟨.cons v .null, by simp [ser, hs], by simp [de, hd]⟩
  | .seq t, d, wf, h => by
    cases d <;> simp only [HasTy] at h
    rename_i ds
    simp only [WellFormed] at wf
    obtain ⟨v, hs, hd⟩ := seq_rt (f := ser t) (g := de t) ds fun d hd => rt_ty t d wf (h d hd)
    exact ⟨v, by simpa [ser] using hs, by rw [de]; exact hd⟩
  | .set t, d, wf, h => by
    cases d <;> simp only [HasTy] at h
    rename_i ds
    simp only [WellFormed] at wf
    obtain ⟨v, hs, hd⟩ := seq_rt (f := ser t) (g := de t) ds fun d hd => rt_ty t d wf (h d hd)
    exact ⟨v, by simpa [ser] using hs, by rw [de]; exact hd⟩
  | .tuple ts, d, wf, h => by
    cases d <;> simp only [HasTy] at h
    rename_i ds
    simp only [WellFormed] at wf
    obtain ⟨vs, hs, hd⟩ := rt_tuple ts ds wf h
    exact ⟨.vector vs, by simp [ser, hs], by simp [de, deTupleLike, hd]⟩
  | .tupleStruct ts, d, wf, h => by
    cases d <;> simp only [HasTy] at h
    rename_i ds
    simp only [WellFormed] at wf
    obtain ⟨vs, hs, hd⟩ := rt_tuple ts ds wf h
    exact ⟨.vector vs, by simp [ser, hs], by simp [de, deTupleLike, hd]⟩
  | .newtypeStruct t, d, wf, h => by
    simp only [WellFormed] at wf
    simp only [HasTy] at h
    obtain ⟨v, hs, hd⟩ := rt_ty t d wf h
    exact ⟨v, by simpa [ser] using hs, by simpa [de] using hd⟩
  | .map k v, d, wf, h => by
    cases d <;> simp only [HasTy] at h
    rename_i kvs
    simp only [WellFormed] at wf
    obtain ⟨vs, hs, hlen, hd⟩ := entries_rt
      (F := fun x => (ser k x.fst).bind fun x_1 => (ser v x.snd).bind fun y => some (x_1.cons y))
      (gk := de k) (gv := de v) kvs (by
        intro p hp
        obtain ⟨x, hx, hdx⟩ := rt_ty k p.1 wf.1 (h p hp).1
        obtain ⟨y, hy, hdy⟩ := rt_ty v p.2 wf.2 (h p hp).2
        exact ⟨x, y, by simp [hx, hy], hdx, hdy⟩)
    refine ⟨Value.list vs, by simp [ser, hs], ?_⟩
    cases vs with
    | nil =>
      cases kvs with
      | nil => simp [de]
      | cons _ _ => simp at hlen
    | cons x xs => simp [de, hd x xs rfl]
  | .struct fs, d, wf, h => by
    cases d <;> simp only [HasTy] at h
    rename_i ds
    simp only [WellFormed] at wf
    obtain ⟨es, hs, hn, hds, hf⟩ := rt_fields fs ds wf.2 wf.1 h
    refine ⟨Value.list (es.map Entry.val), by simp [ser, hs], ?_⟩
    rw [de, struct_rt es (by rw [optFlags_names, hn]) (by rw [hn]; exact wf.1) hf, hds]
  | .enum vs, d, wf, h => by
    cases d <;> simp only [HasTy] at h
    rename_i i p
    simp only [WellFormed] at wf
    obtain ⟨name, pl, hs, _, hd⟩ := rt_variant vs i p wf.2 wf.1 h
    exact ⟨_, by simpa [ser] using hs, by rw [de_enum_variantValue, hd 0]; simp⟩
theorem rt_tuple : ∀ (ts : TyList) (ds : List Data), WFTys ts → HasTyTuple ts ds →
    ∃ vs, serTuple ts ds = some vs ∧ deTupleVec ts vs = .ok ds
  | .nil, [], _, _ => ⟨[], by simp [serTuple], by simp [deTupleVec]⟩
  | .nil, _ :: _, _, h => by simp [HasTyTuple] at h
  | .cons _ _, [], _, h => by simp [HasTyTuple] at h
  | .cons t ts, d :: ds, wf, h => by
    simp only [WFTys] at wf
    simp only [HasTyTuple] at h
    obtain ⟨v, hs, hd⟩ := rt_ty t d wf.1 h.1
    obtain ⟨vs, hss, hds⟩ := rt_tuple ts ds wf.2 h.2
    exact ⟨v :: vs, by simp [serTuple, hs, hss], by simp [deTupleVec, hd, hds]⟩
theorem rt_fields : ∀ (fs : FieldList) (ds : List Data), WFFields fs → fs.names.Nodup →
    HasTyFields fs ds →
    ∃ es : List Entry, serFields fs ds = some (es.map Entry.val) ∧ es.map (·.1) = fs.names ∧
      es.map (·.2.2) = ds ∧ ∀ e ∈ es, deField fs e.1 e.2.1 = some (.ok e.2.2)
  | .nil, [], _, _, _ => ⟨[], by simp [serFields], by simp [FieldList.names], by simp, by simp⟩
  | .nil, _ :: _, _, _, h => by simp [HasTyFields] at h
  | .cons _ _ _, [], _, _, h => by simp [HasTyFields] at h
  | .cons n t fs, d :: ds, wf, hnd, h => by
    simp only [WFFields] at wf
    simp only [HasTyFields] at h
    simp only [FieldList.names, List.nodup_cons] at hnd
    obtain ⟨v, hs, hd⟩ := rt_ty t d wf.1 h.1
    obtain ⟨es, hss, hn, hds, hf⟩ := rt_fields fs ds wf.2 hnd.2 h.2
    refine ⟨(n, v, d) :: es, by simp [serFields, hs, hss, Entry.val], by simp [FieldList.names, hn],
      by simp [hds], ?_⟩
    intro e he
    rcases List.mem_cons.mp he with rfl | he
    · simp [deField, hd]
    · have hne : n ≠ e.1 := by
        intro heq
        apply hnd.1
        rw [← hn, heq]
        exact List.mem_map_of_mem he
      simp [deField, hne, hf e he]
theorem rt_variant : ∀ (vs : VariantList) (i : Nat) (p : Data), WFVariants vs → vs.names.Nodup →
    HasTyVariant vs i p →
    ∃ name pl, serVariant vs i p = some (variantValue name pl) ∧ name ∈ vs.names ∧
      ∀ k, deVariant vs k name pl = .ok (.variant (k + i) p)
  | .nil, _, _, _, _, h => by simp [HasTyVariant] at h
  | .cons n .unit vs, 0, p, wf, hnd, h => by
    cases p <;> simp only [HasTyVariant] at h
    exact ⟨n, none, by simp [serVariant, variantValue], by simp [VariantList.names],
      fun k => by simp [deVariant_unit]⟩
  | .cons n (.newtype t) vs, 0, p, wf, hnd, h => by
    simp only [WFVariants] at wf
    simp only [HasTyVariant] at h
    obtain ⟨v, hs, hd⟩ := rt_ty t p wf.1 h
    exact ⟨n, some v, by simp [serVariant, variantValue, hs], by simp [VariantList.names],
      fun k => by simp [deVariant_newtype, hd]⟩
  | .cons n (.tuple ts) vs, 0, p, wf, hnd, h => by
    simp only [WFVariants] at wf
    cases p <;> simp only [HasTyVariant] at h
    rename_i ds
    obtain ⟨xs, hs, hd⟩ := rt_tuple ts ds wf.1 h
    exact ⟨n, some (Value.list xs), by simp [serVariant, variantValue, hs], by simp [VariantList.names],
      fun k => by simp [deVariant_tuple, deTupleLike_vec_ok hd]⟩
  | .cons n (.struct fs) vs, 0, p, wf, hnd, h => by
    simp only [WFVariants] at wf
    cases p <;> simp only [HasTyVariant] at h
    rename_i ds
    obtain ⟨es, hs, hn, hds, hf⟩ := rt_fields fs ds wf.1.2 wf.1.1 h
    refine ⟨n, some (Value.list (es.map Entry.val)), by simp [serVariant, variantValue, hs],
      by simp [VariantList.names], fun k => ?_⟩
    rw [deVariant_struct]
    simp [struct_rt es (by rw [optFlags_names, hn]) (by rw [hn]; exact wf.1.1) hf, hds]
  | .cons n .unit vs, i + 1, p, wf, hnd, h => by
    simp only [WFVariants] at wf
    simp only [HasTyVariant] at h
    have hnd' := hnd
    simp only [VariantList.names, List.nodup_cons] at hnd'
    exact rt_variant_succ hnd (rt_variant vs i p wf.2 hnd'.2 h)
  | .cons n (.newtype t) vs, i + 1, p, wf, hnd, h => by
    simp only [WFVariants] at wf
    simp only [HasTyVariant] at h
    have hnd' := hnd
    simp only [VariantList.names, List.nodup_cons] at hnd'
    exact rt_variant_succ hnd (rt_variant vs i p wf.2 hnd'.2 h)
  | .cons n (.tuple ts) vs, i + 1, p, wf, hnd, h => by
    simp only [WFVariants] at wf
    simp only [HasTyVariant] at h
    have hnd' := hnd
    simp only [VariantList.names, List.nodup_cons] at hnd'
    exact rt_variant_succ hnd (rt_variant vs i p wf.2 hnd'.2 h)
  | .cons n (.struct fs) vs, i + 1, p, wf, hnd, h => by
    simp only [WFVariants] at wf
    simp only [HasTyVariant] at h
    have hnd' := hnd
    simp only [VariantList.names, List.nodup_cons] at hnd'
    exact rt_variant_succ hnd (rt_variant vs i p wf.2 hnd'.2 h)
end

/-! ### typing preservation of `de` (for C18_normalise) -/

/-- `f64 as f32` is idempotent. -/
def F32Idem : Prop := ∀ b, roundToF32 (roundToF32 b) = roundToF32 b

theorem intTy_lo_nonpos (w : IntTy) : w.lo ≤ 0 := by cases w <;> simp [IntTy.lo]

theorem deNumber_ty (hidem : F32Idem) (t : Ty) (n : Number) (d : Data) (h : deNumber t n = .ok d) :
    HasTy t d := by
  unfold deNumber at h
  cases t <;> cases n <;> simp only [reduceCtorEq] at h
  · split at h
    · cases h; have := intTy_lo_nonpos ‹IntTy›; simp only [HasTy]; omega
    · cases h
  · split at h
    · cases h; simpa [HasTy] using ‹_ ∧ _›
    · cases h
  all_goals cases h; simp [HasTy, hidem _]

theorem mapM_ty {g : Value → DeRes Data} {P : Data → Prop} (hg : ∀ x d, g x = .ok d → P d) :
    ∀ (xs : List Value) (ds : List Data), xs.mapM g = .ok ds → ∀ d ∈ ds, P d
  | [], ds, h => by simp at h; cases h; simp
  | x :: xs, ds, h => by
    rw [List.mapM_cons] at h
    obtain ⟨d, hd, h⟩ := DeRes.bind_eq_ok.mp h
    obtain ⟨ds', hds, h⟩ := DeRes.bind_eq_ok.mp h
    cases h
    intro y hy
    rcases List.mem_cons.mp hy with rfl | hy
    · exact hg _ _ hd
    · exact mapM_ty hg xs ds' hds y hy

theorem deSeqLike_ty {g : Value → DeRes Data} {P : Data → Prop} (hg : ∀ x d, g x = .ok d → P d)
    (v : Value) (d : Data) (h : deSeqLike g v = .ok d) : ∃ ds, d = .seq ds ∧ ∀ x ∈ ds, P x := by
  obtain ⟨xs, t, ht, rfl⟩ := Value.C15_decompose v
  by_cases hnull : t.isNull = true
  · have : t = .null := by cases t <;> simp_all [Value.isNull, Value.asNull]
    subst this
    rw [show Value.append xs .null = Value.list xs from rfl, deSeqLike_list] at h
    simp only [deSeqLike] at h
    obtain ⟨ds, hds, h⟩ := DeRes.bind_eq_ok.mp h
    cases h
    exact ⟨ds, rfl, mapM_ty hg xs ds hds⟩
  · cases xs with
    | nil =>
      simp only [Value.append] at h
      cases t <;> simp_all [deSeqLike, Value.isNull, Value.asNull, Value.NotCons, Value.isCons]
      obtain ⟨ds, hds, h⟩ := DeRes.bind_eq_ok.mp h
      cases h
      exact ⟨ds, rfl, mapM_ty hg _ ds hds⟩
    | cons x xs =>
      exact absurd h (deSeqLike_improper g t ⟨by simpa using hnull, ht⟩ (x :: xs) (by simp) d)

theorem deEntries_ty {gk gv : Value → DeRes Data} {Pk Pv : Data → Prop}
    (hk : ∀ x d, gk x = .ok d → Pk d) (hv : ∀ x d, gv x = .ok d → Pv d) :
    ∀ (a rest : Value) (kvs : List (Data × Data)), deEntries gk gv a rest = .ok kvs →
      ∀ p ∈ kvs, Pk p.1 ∧ Pv p.2
  | .cons ka va, rest, kvs, h => by
    rw [deEntries] at h
    obtain ⟨x, hx, h⟩ := DeRes.bind_eq_ok.mp h
    obtain ⟨y, hy, h⟩ := DeRes.bind_eq_ok.mp h
    cases rest <;> simp only [DeRes.pure_eq, reduceCtorEq] at h
    · cases h
      intro p hp
      simp only [List.mem_singleton] at hp
      subst hp
      exact ⟨hk _ _ hx, hv _ _ hy⟩
    · obtain ⟨r, hr, h⟩ := DeRes.bind_eq_ok.mp h
      cases h
      intro p hp
      rcases List.mem_cons.mp hp with rfl | hp
      · exact ⟨hk _ _ hx, hv _ _ hy⟩
      · exact deEntries_ty hk hv _ _ r hr p hp
  | .nil, _, _, h | .null, _, _, h | .bool _, _, _, h | .number _, _, _, h | .char _, _, _, h
  | .string _, _, _, h | .symbol _, _, _, h | .keyword _, _, _, h | .bytes _, _, _, h
  | .vector _, _, _, h => by simp [deEntries] at h

theorem deStructEntries_ty {field : List UInt8 → Value → Option (DeRes Data)}
    {Q : List UInt8 → Data → Prop} (hf : ∀ n va d, field n va = some (.ok d) → Q n d) :
    ∀ (a rest : Value) (got got' : List (List UInt8 × Data)),
      deStructEntries field a rest got = .ok got' → (∀ e ∈ got, Q e.1 e.2) → ∀ e ∈ got', Q e.1 e.2
  | .cons (.symbol name) va, rest, got, got', h, hgot => by
    rw [deStructEntries] at h
    obtain ⟨g1, hg1, h⟩ := DeRes.bind_eq_ok.mp h
    have hQ1 : ∀ e ∈ g1, Q e.1 e.2 := by
      cases hfield : field name va with
      | none => simp only [hfield, DeRes.pure_eq, DeRes.ok.injEq] at hg1; subst hg1; exact hgot
      | some r =>
        simp only [hfield] at hg1
        split at hg1
        · cases hg1
        · obtain ⟨d, hd, hg1⟩ := DeRes.bind_eq_ok.mp hg1
          cases hg1
          intro e he
          rcases List.mem_append.mp he with he | he
          · exact hgot e he
          · simp only [List.mem_singleton] at he
            subst he
            exact hf _ _ _ (by rw [hfield, hd])
    cases rest <;> simp only [DeRes.pure_eq, reduceCtorEq] at h
    · cases h; exact hQ1
    · exact deStructEntries_ty hf _ _ g1 got' h hQ1
  | .nil, _, _, _, h, _ | .null, _, _, _, h, _ | .bool _, _, _, _, h, _ | .number _, _, _, _, h, _
  | .char _, _, _, _, h, _ | .string _, _, _, _, h, _ | .symbol _, _, _, _, h, _
  | .keyword _, _, _, _, h, _ | .bytes _, _, _, _, h, _ | .vector _, _, _, _, h, _ => by
    simp [deStructEntries] at h
  | .cons .nil _, _, _, _, h, _ | .cons .null _, _, _, _, h, _ | .cons (.bool _) _, _, _, _, h, _
  | .cons (.number _) _, _, _, _, h, _ | .cons (.char _) _, _, _, _, h, _
  | .cons (.string _) _, _, _, _, h, _ | .cons (.keyword _) _, _, _, _, h, _
  | .cons (.bytes _) _, _, _, _, h, _ | .cons (.vector _) _, _, _, _, h, _
  | .cons (.cons _ _) _, _, _, _, h, _ => by
    simp [deStructEntries] at h

theorem lookupField_mem {n : List UInt8} {d : Data} : ∀ {got : List (List UInt8 × Data)},
    lookupField n got = some d → (n, d) ∈ got
  | [], h => by simp [lookupField] at h
  | (n', d') :: rest, h => by
    simp only [lookupField] at h
    split at h
    · rename_i heq
      simp only [beq_iff_eq] at heq
      cases h; subst heq; simp
    · exact List.mem_cons_of_mem _ (lookupField_mem h)

def FieldList.lookup : FieldList → List UInt8 → Option Ty
  | .nil, _ => none
  | .cons n t fs, name => if n == name then some t else fs.lookup name

def FieldList.toList : FieldList → List (List UInt8 × Ty)
  | .nil => []
  | .cons n t fs => (n, t) :: fs.toList

theorem FieldList.names_eq_map : ∀ fs : FieldList, fs.names = fs.toList.map (·.1)
  | .nil => rfl
  | .cons _ _ fs => by simp [FieldList.names, FieldList.toList, FieldList.names_eq_map fs]

theorem FieldList.lookup_of_mem : ∀ (fs : FieldList), fs.names.Nodup → ∀ n t, (n, t) ∈ fs.toList →
    fs.lookup n = some t
  | .nil, _, _, _, h => by simp [FieldList.toList] at h
  | .cons n' t' fs, hnd, n, t, h => by
    simp only [FieldList.names, List.nodup_cons] at hnd
    simp only [FieldList.toList, List.mem_cons, Prod.mk.injEq] at h
    rcases h with ⟨rfl, rfl⟩ | h
    · simp [FieldList.lookup]
    · have hne : n' ≠ n := by
        intro heq
        apply hnd.1
        rw [FieldList.names_eq_map, heq]
        exact List.mem_map_of_mem (f := (·.1)) h
      simp [FieldList.lookup, hne, FieldList.lookup_of_mem fs hnd.2 n t h]

theorem hasTyFields_of_fill {fsAll : FieldList} {got : List (List UInt8 × Data)}
    (hnd : fsAll.names.Nodup)
    (hgot : ∀ e ∈ got, ∃ t, fsAll.lookup e.1 = some t ∧ HasTy t e.2) :
    ∀ (fs : FieldList) (ds : List Data), (∀ p ∈ fs.toList, p ∈ fsAll.toList) →
      deStructFill fs.optFlags got = .ok ds → HasTyFields fs ds
  | .nil, ds, _, h => by
    simp [FieldList.optFlags, deStructFill] at h; subst h; simp [HasTyFields]
  | .cons n t fs, ds, hsub, h => by
    have hlk : fsAll.lookup n = some t :=
      FieldList.lookup_of_mem fsAll hnd n t (hsub _ (by simp [FieldList.toList]))
    have hsub' : ∀ p ∈ fs.toList, p ∈ fsAll.toList := fun p hp =>
      hsub p (by simp [FieldList.toList, hp])
    simp only [FieldList.optFlags, deStructFill] at h
    split at h
    · rename_i d hd
      obtain ⟨ds', hds', h⟩ := DeRes.bind_eq_ok.mp h
      cases h
      obtain ⟨t', ht', hty⟩ := hgot _ (lookupField_mem hd)
      simp only at ht' hty
      rw [hlk] at ht'; cases ht'
      exact ⟨hty, hasTyFields_of_fill hnd hgot fs ds' hsub' hds'⟩
    · split at h
      · rename_i hopt
        obtain ⟨ds', hds', h⟩ := DeRes.bind_eq_ok.mp h
        cases h
        refine ⟨?_, hasTyFields_of_fill hnd hgot fs ds' hsub' hds'⟩
        cases t <;> simp [Ty.isOption] at hopt
        simp [HasTy]
      · cases h

theorem structLike_ty {fs : FieldList} (hnd : fs.names.Nodup)
    (hfield : ∀ n va d, deField fs n va = some (.ok d) → ∃ t, fs.lookup n = some t ∧ HasTy t d)
    (v : Value) (d : Data) (h : deStructLike (deField fs) fs.optFlags v = .ok d) :
    ∃ ds, d = .seq ds ∧ HasTyFields fs ds := by
  cases v <;> simp only [deStructLike, reduceCtorEq] at h
  · obtain ⟨ds, hds, h⟩ := DeRes.bind_eq_ok.mp h
    cases h
    exact ⟨ds, rfl, hasTyFields_of_fill hnd (by simp) fs ds (fun _ hp => hp) hds⟩
  · obtain ⟨got, hgot, h⟩ := DeRes.bind_eq_ok.mp h
    obtain ⟨ds, hds, h⟩ := DeRes.bind_eq_ok.mp h
    cases h
    have hQ := deStructEntries_ty (Q := fun n d => ∃ t, fs.lookup n = some t ∧ HasTy t d) hfield
      _ _ [] got hgot (by simp)
    exact ⟨ds, rfl, hasTyFields_of_fill hnd hQ fs ds (fun _ hp => hp) hds⟩

theorem tupleLike_ty {ts : TyList} (h1 : ∀ xs ds, deTupleVec ts xs = .ok ds → HasTyTuple ts ds)
    (h2 : ∀ o ds, deTupleList ts o = .ok ds → HasTyTuple ts ds)
    (v : Value) (d : Data) (h : deTupleLike ts v = .ok d) : ∃ ds, d = .seq ds ∧ HasTyTuple ts ds := by
  cases v <;> simp only [deTupleLike, reduceCtorEq] at h
  · obtain ⟨ds, hds, h⟩ := DeRes.bind_eq_ok.mp h
    cases h; exact ⟨ds, rfl, h1 _ _ hds⟩
  · split at h
    · obtain ⟨ds, hds, h⟩ := DeRes.bind_eq_ok.mp h
      cases h; exact ⟨ds, rfl, h2 _ _ hds⟩
    · cases h
  · obtain ⟨ds, hds, h⟩ := DeRes.bind_eq_ok.mp h
    cases h; exact ⟨ds, rfl, h1 _ _ hds⟩

theorem tupleSeq_ty {ts : TyList} (h1 : ∀ xs ds, deTupleVec ts xs = .ok ds → HasTyTuple ts ds)
    (h2 : ∀ o ds, deTupleList ts o = .ok ds → HasTyTuple ts ds)
    (v : Value) (d : Data) (h : deTupleSeq ts v = .ok d) : ∃ ds, d = .seq ds ∧ HasTyTuple ts ds := by
  cases v <;> simp only [deTupleSeq, reduceCtorEq] at h
  · obtain ⟨ds, hds, h⟩ := DeRes.bind_eq_ok.mp h
    cases h; exact ⟨ds, rfl, h1 _ _ hds⟩
  · obtain ⟨ds, hds, h⟩ := DeRes.bind_eq_ok.mp h
    cases h; exact ⟨ds, rfl, h2 _ _ hds⟩
  · obtain ⟨ds, hds, h⟩ := DeRes.bind_eq_ok.mp h
    cases h; exact ⟨ds, rfl, h1 _ _ hds⟩

theorem ty_variant_succ {n : List UInt8} {var : Variant} {vs : VariantList} {k : Nat} {d : Data}
    (ih : ∃ j pl, d = .variant (k + 1 + j) pl ∧ HasTyVariant vs j pl) :
    ∃ j pl, d = .variant (k + j) pl ∧ HasTyVariant (.cons n var vs) j pl := by
  obtain ⟨j, pl, rfl, h⟩ := ih
  exact ⟨j + 1, pl, by simp only [Data.variant.injEq, and_true]; omega, by simpa [HasTyVariant] using h⟩

mutual
theorem ty_de (hidem : F32Idem) : ∀ (t : Ty) (v : Value) (d : Data), WellFormed t → de t v = .ok d →
    HasTy t d
  | .int w, v, d, _, h => by
    cases v <;> simp only [de, reduceCtorEq] at h
    exact deNumber_ty hidem _ _ _ h
  | .f32, v, d, _, h => by
    cases v <;> simp only [de, reduceCtorEq] at h
    exact deNumber_ty hidem _ _ _ h
  | .f64, v, d, _, h => by
    cases v <;> simp only [de, reduceCtorEq] at h
    exact deNumber_ty hidem _ _ _ h
  | .bool, v, d, _, h => by
    cases v <;> simp only [de, reduceCtorEq] at h
    cases h; simp [HasTy]
  | .char, v, d, _, h => by
    cases v <;> simp only [de, reduceCtorEq] at h
    cases h; simp [HasTy]
  | .str, v, d, _, h => by
    cases v <;> simp only [de, reduceCtorEq] at h
    cases h; simp [HasTy]
  | .bytes, v, d, _, h => by
    cases v <;> simp only [de, reduceCtorEq] at h
    cases h; simp [HasTy]
  | .unit, v, d, _, h => by
    cases v <;> simp only [de, reduceCtorEq] at h <;> cases h <;> simp [HasTy]
  | .unitStruct, v, d, _, h => by
    cases v <;> simp only [de, reduceCtorEq] at h <;> cases h <;> simp [HasTy]
  | .option t, v, d, wf, h => by
    simp only [WellFormed] at wf
    cases v <;> try simp only [de, reduceCtorEq] at h
    · cases h; simp [HasTy]
    · rename_i a tl
      cases tl <;> simp only [de, reduceCtorEq] at h
      obtain ⟨x, hx, h⟩ := DeRes.bind_eq_ok.mp h
      cases h
      simp only [HasTy]
      exact ty_de hidem t a x wf hx
  | .seq t, v, d, wf, h => by
    simp only [WellFormed] at wf
    rw [de] at h
    obtain ⟨ds, rfl, hds⟩ := deSeqLike_ty (P := HasTy t) (fun x d hx => ty_de hidem t x d wf hx) v d h
    simpa [HasTy] using hds
  | .set t, v, d, wf, h => by
    simp only [WellFormed] at wf
    rw [de] at h
    obtain ⟨ds, rfl, hds⟩ := deSeqLike_ty (P := HasTy t) (fun x d hx => ty_de hidem t x d wf hx) v d h
    simpa [HasTy] using hds
  | .tuple ts, v, d, wf, h => by
    simp only [WellFormed] at wf
    rw [de] at h
    obtain ⟨ds, rfl, hds⟩ := tupleLike_ty (fun xs ds hx => ty_tupleVec hidem ts xs ds wf hx)
      (fun o ds hx => ty_tupleList hidem ts o ds wf hx) v d h
    simpa [HasTy] using hds
  | .tupleStruct ts, v, d, wf, h => by
    simp only [WellFormed] at wf
    rw [de] at h
    obtain ⟨ds, rfl, hds⟩ := tupleLike_ty (fun xs ds hx => ty_tupleVec hidem ts xs ds wf hx)
      (fun o ds hx => ty_tupleList hidem ts o ds wf hx) v d h
    simpa [HasTy] using hds
  | .newtypeStruct t, v, d, wf, h => by
    simp only [WellFormed] at wf
    rw [de] at h
    simp only [HasTy]
    exact ty_de hidem t v d wf h
  | .map k v, x, d, wf, h => by
    simp only [WellFormed] at wf
    cases x <;> simp only [de, reduceCtorEq] at h
    · cases h; simp [HasTy]
    · obtain ⟨kvs, hkvs, h⟩ := DeRes.bind_eq_ok.mp h
      cases h
      simp only [HasTy]
      exact deEntries_ty (Pk := HasTy k) (Pv := HasTy v) (fun x d hx => ty_de hidem k x d wf.1 hx)
        (fun x d hx => ty_de hidem v x d wf.2 hx) _ _ kvs hkvs
  | .struct fs, v, d, wf, h => by
    simp only [WellFormed] at wf
    rw [de] at h
    obtain ⟨ds, rfl, hds⟩ := structLike_ty wf.1 (fun n va d hx => ty_field hidem fs n va d wf.2 hx) v d h
    simpa [HasTy] using hds
  | .enum vs, v, d, wf, h => by
    simp only [WellFormed] at wf
    cases v <;> try simp only [de, reduceCtorEq] at h
    · obtain ⟨j, pl, rfl, hty⟩ := ty_variant hidem vs 0 _ _ d wf.2 h
      simpa [HasTy] using hty
    · rename_i a tl
      cases a <;> simp only [de, reduceCtorEq] at h
      obtain ⟨j, pl, rfl, hty⟩ := ty_variant hidem vs 0 _ _ d wf.2 h
      simpa [HasTy] using hty
theorem ty_tupleVec (hidem : F32Idem) : ∀ (ts : TyList) (xs : List Value) (ds : List Data), WFTys ts →
    deTupleVec ts xs = .ok ds → HasTyTuple ts ds
  | .nil, _, ds, _, h => by simp [deTupleVec] at h; subst h; simp [HasTyTuple]
  | .cons _ _, [], _, _, h => by simp [deTupleVec] at h
  | .cons t ts, x :: xs, ds, wf, h => by
    simp only [WFTys] at wf
    rw [deTupleVec] at h
    obtain ⟨d, hd, h⟩ := DeRes.bind_eq_ok.mp h
    obtain ⟨ds', hds', h⟩ := DeRes.bind_eq_ok.mp h
    cases h
    exact ⟨ty_de hidem t x d wf.1 hd, ty_tupleVec hidem ts xs ds' wf.2 hds'⟩
theorem ty_tupleList (hidem : F32Idem) : ∀ (ts : TyList) (o : Option (Value × Value)) (ds : List Data),
    WFTys ts → deTupleList ts o = .ok ds → HasTyTuple ts ds
  | .nil, _, ds, _, h => by simp [deTupleList] at h; subst h; simp [HasTyTuple]
  | .cons _ _, none, _, _, h => by simp [deTupleList] at h
  | .cons t ts, some (a, tl), ds, wf, h => by
    simp only [WFTys] at wf
    rw [deTupleList] at h
    obtain ⟨d, hd, h⟩ := DeRes.bind_eq_ok.mp h
    cases tl <;> simp only [reduceCtorEq] at h
    · obtain ⟨ds', hds', h⟩ := DeRes.bind_eq_ok.mp h
      cases h
      exact ⟨ty_de hidem t a d wf.1 hd, ty_tupleList hidem ts _ ds' wf.2 hds'⟩
    · obtain ⟨ds', hds', h⟩ := DeRes.bind_eq_ok.mp h
      cases h
      exact ⟨ty_de hidem t a d wf.1 hd, ty_tupleList hidem ts _ ds' wf.2 hds'⟩
theorem ty_field (hidem : F32Idem) : ∀ (fs : FieldList) (n : List UInt8) (va : Value) (d : Data),
    WFFields fs → deField fs n va = some (.ok d) → ∃ t, fs.lookup n = some t ∧ HasTy t d
  | .nil, _, _, _, _, h => by simp [deField] at h
  | .cons n' t fs, n, va, d, wf, h => by
    simp only [WFFields] at wf
    rw [deField] at h
    split at h
    · rename_i heq
      simp only [Option.some.injEq] at h
      exact ⟨t, by simp [FieldList.lookup, heq], ty_de hidem t va d wf.1 h⟩
    · rename_i hne
      obtain ⟨t', ht', hty⟩ := ty_field hidem fs n va d wf.2 h
      exact ⟨t', by simp [FieldList.lookup, hne, ht'], hty⟩
theorem ty_variant (hidem : F32Idem) : ∀ (vs : VariantList) (k : Nat) (name : List UInt8)
    (p : Option Value) (d : Data), WFVariants vs → deVariant vs k name p = .ok d →
    ∃ j pl, d = .variant (k + j) pl ∧ HasTyVariant vs j pl
  | .nil, _, _, _, _, _, h => by simp [deVariant] at h
  | .cons n .unit vs, k, name, p, d, wf, h => by
    simp only [WFVariants] at wf
    rw [deVariant_unit] at h
    split at h
    · cases h; exact ⟨0, .unit, rfl, by simp [HasTyVariant]⟩
    · exact ty_variant_succ (ty_variant hidem vs (k + 1) name p d wf.2 h)
  | .cons n (.newtype t) vs, k, name, p, d, wf, h => by
    simp only [WFVariants] at wf
    rw [deVariant_newtype] at h
    split at h
    · cases p <;> simp only [reduceCtorEq] at h
      obtain ⟨x, hx, h⟩ := DeRes.bind_eq_ok.mp h
      cases h
      exact ⟨0, x, rfl, by simpa [HasTyVariant] using ty_de hidem t _ x wf.1 hx⟩
    · exact ty_variant_succ (ty_variant hidem vs (k + 1) name p d wf.2 h)
  | .cons n (.tuple ts) vs, k, name, p, d, wf, h => by
    simp only [WFVariants] at wf
    rw [deVariant_tuple] at h
    split at h
    · cases p <;> simp only [reduceCtorEq] at h
      obtain ⟨x, hx, h⟩ := DeRes.bind_eq_ok.mp h
      cases h
      obtain ⟨ds, rfl, hds⟩ := tupleLike_ty (fun xs ds hx => ty_tupleVec hidem ts xs ds wf.1 hx)
        (fun o ds hx => ty_tupleList hidem ts o ds wf.1 hx) _ x hx
      exact ⟨0, .seq ds, rfl, by simpa [HasTyVariant] using hds⟩
    · exact ty_variant_succ (ty_variant hidem vs (k + 1) name p d wf.2 h)
  | .cons n (.struct fs) vs, k, name, p, d, wf, h => by
    simp only [WFVariants] at wf
    rw [deVariant_struct] at h
    split at h
    · cases p <;> simp only [reduceCtorEq] at h
      obtain ⟨x, hx, h⟩ := DeRes.bind_eq_ok.mp h
      cases h
      obtain ⟨ds, rfl, hds⟩ := structLike_ty wf.1.1
        (fun n va d hx => ty_field hidem fs n va d wf.1.2 hx) _ x hx
      exact ⟨0, .seq ds, rfl, by simpa [HasTyVariant] using hds⟩
    · exact ty_variant_succ (ty_variant hidem vs (k + 1) name p d wf.2 h)
end

/-! ### shape facts about `ser` -/

theorem serTuple_length : ∀ (ts : TyList) (ds : List Data) (vs : List Value),
    serTuple ts ds = some vs → vs.length = ts.length ∧ ds.length = ts.length
  | .nil, [], vs, h => by simp [serTuple] at h; subst h; simp [TyList.length]
  | .nil, _ :: _, _, h => by simp [serTuple] at h
  | .cons _ _, [], _, h => by simp [serTuple] at h
  | .cons t ts, d :: ds, vs, h => by
    simp only [serTuple, Option.bind_eq_bind, Option.bind_eq_some_iff, Option.pure_def,
      Option.some.injEq] at h
    obtain ⟨v, _, vs', hvs', rfl⟩ := h
    have := serTuple_length ts ds vs' hvs'
    simp [TyList.length, this]

theorem serFields_shape : ∀ (fs : FieldList) (ds : List Data) (vs : List Value),
    serFields fs ds = some vs →
    ∃ vals : List Value, vals.length = fs.length ∧ ds.length = fs.length ∧
      vs = List.zipWith (fun n x => Value.cons (.symbol n) x) fs.names vals
  | .nil, [], vs, h => by
    simp [serFields] at h; subst h; exact ⟨[], by simp [FieldList.length, FieldList.names]⟩
  | .nil, _ :: _, _, h => by simp [serFields] at h
  | .cons _ _ _, [], _, h => by simp [serFields] at h
  | .cons n t fs, d :: ds, vs, h => by
    simp only [serFields, Option.bind_eq_bind, Option.bind_eq_some_iff, Option.pure_def,
      Option.some.injEq] at h
    obtain ⟨v, hv, vs', hvs', rfl⟩ := h
    obtain ⟨vals, h1, h2, h3⟩ := serFields_shape fs ds vs' hvs'
    exact ⟨v :: vals, by simp [FieldList.length, h1], by simp [FieldList.length, h2],
      by simp [FieldList.names, h3]⟩

theorem serVariant_unit : ∀ (vs : VariantList) (i : Nat) (name : List UInt8),
    vs.get i = some (name, .unit) → serVariant vs i .unit = some (.symbol name)
  | .nil, _, _, h => by simp [VariantList.get] at h
  | .cons n var vs, 0, name, h => by
    simp only [VariantList.get, Option.some.injEq, Prod.mk.injEq] at h
    obtain ⟨rfl, rfl⟩ := h
    simp [serVariant]
  | .cons n var vs, i + 1, name, h => by
    simp only [VariantList.get] at h
    simpa [serVariant] using serVariant_unit vs i name h

theorem intTy_bounds (w : IntTy) : i64Min ≤ w.lo ∧ w.hi ≤ (u64Max : Int) ∧ (w.lo < 0 → w.hi ≤ i64Max) := by
  cases w <;> simp [IntTy.lo, IntTy.hi, i64Min, i64Max, u64Max]

theorem serInt_shape (w : IntTy) (n : Int) (h1 : w.lo ≤ n) (h2 : n ≤ w.hi) :
    ∃ num, serInt w n = .number num ∧ num.Normal ∧ num.WF ∧
      (0 ≤ n → num = .pos n.toNat ∧ (serInt w n).asU64 = some n.toNat) ∧
      (n < 0 → num = .neg n ∧ (serInt w n).asU64 = none) ∧
      (n ≤ i64Max → (serInt w n).asI64 = some n) := by
  obtain ⟨b1, b2, b3⟩ := intTy_bounds w
  by_cases hn : 0 ≤ n
  · refine ⟨.pos n.toNat, serInt_nonneg w n hn, trivial, ?_, fun _ => ⟨rfl, ?_⟩, fun h => by omega, fun h => ?_⟩
    · simp only [Number.WF]; omega
    · simp [serInt_nonneg w n hn, Value.asU64, Value.asNumber, Number.asU64]
    · have : (n.toNat : Int) = n := Int.toNat_of_nonneg hn
      simp [serInt_nonneg w n hn, Value.asI64, Value.asNumber, Number.asI64, this, h]
  · have hn' : n < 0 := by omega
    have hs := serInt_neg w n hn' h1
    refine ⟨.neg n, hs, hn', ?_, fun h => by omega, fun _ => ⟨rfl, ?_⟩, fun _ => ?_⟩
    · simp only [Number.WF]; have := b3 (by omega); omega
    · simp [hs, Value.asU64, Value.asNumber, Number.asU64]
    · simp [hs, Value.asI64, Value.asNumber, Number.asI64]

/-! ## Main theorems -/

/-- **C18_total**: the value deserializer (composed with the visitor of any type) never panics. -/
theorem C18_total (t : Ty) (v : Value) : de t v ≠ .panic := de_np t v

/-- **C18_data_error**: every outcome of `from_value` is a datum or a data error. -/
theorem C18_data_error (t : Ty) (v : Value) : (∃ d, de t v = .ok d) ∨ de t v = .dataErr :=
  DeRes.ok_or_dataErr (C18_total t v)

/-- the same for the tuple entry point -/
theorem C18_total_tuple (ts : TyList) (v : Value) : deTupleLike ts v ≠ .panic :=
  deTupleLike_np' (deTupleVec_np ts) (deTupleList_np ts) v

/-- **C04_value**: a well-typed datum of a well-formed type serialises, and the value deserialises
    back to the same datum. -/
theorem C04_value (t : Ty) (d : Data) (wf : WellFormed t) (h : HasTy t d) :
    ∃ v, ser t d = some v ∧ de t v = .ok d := rt_ty t d wf h

/-- **C04_f32_idem**: `f64 as f32` (widened back) is idempotent, so the `f32` typing condition
    `roundToF32 b = b` is exactly "is the image of some double". -/
theorem C04_f32_idem (b : Nat) : roundToF32 (roundToF32 b) = roundToF32 b := roundToF32_idem b

/-- **C18_typing**: whatever `de` accepts is well typed. -/
theorem C18_typing (t : Ty) (v : Value) (d : Data) (wf : WellFormed t)
    (h : de t v = .ok d) : HasTy t d := ty_de roundToF32_idem t v d wf h

/-- **C18_normalise**: `de` maps every accepted value to a well-typed datum whose serialisation
    deserialises to the same datum. -/
theorem C18_normalise (t : Ty) (v : Value) (d : Data) (h : de t v = .ok d) (wf : WellFormed t) :
    HasTy t d ∧ ∃ v', ser t d = some v' ∧ de t v' = .ok d :=
  ⟨C18_typing t v d wf h, C04_value t d wf (C18_typing t v d wf h)⟩

/-- **C14_accept_vector_for_seq**: a vector is accepted wherever a list is, with the same result. -/
theorem C14_accept_vector_for_seq (t : Ty) (xs : List Value) :
    de (.seq t) (.vector xs) = de (.seq t) (Value.list xs) := by
  rw [de, de, deSeqLike_list]

/-- **C14_accept_list_for_tuple**: a proper list is accepted wherever a vector is (tuples, tuple structs). -/
theorem C14_accept_list_for_tuple (ts : TyList) (xs : List Value) :
    deTupleLike ts (Value.list xs) = deTupleLike ts (.vector xs) := deTupleLike_list ts xs

/-- a variant whose name does not match is skipped -/
theorem deVariant_skip (n : List UInt8) (var : Variant) (vs : VariantList) (i : Nat) (name : List UInt8)
    (p : Option Value) (hne : (n == name) = false) :
    deVariant (.cons n var vs) i name p = deVariant vs (i + 1) name p := by
  cases var
  · rw [deVariant_unit, hne]; rfl
  · rw [deVariant_newtype, hne]; rfl
  · rw [deVariant_tuple, hne]; rfl
  · rw [deVariant_struct, hne]; rfl

/-- if the variant selected by `name` (the first one of that name, `VariantList.find`) is a tuple variant,
    `deVariant` is `deserialize_tuple` on the payload (after the repair of `VariantAccess::tuple_variant`;
    it was `deserialize_seq` = `deTupleSeq` before) -/
theorem deVariant_find_tuple : ∀ (vs : VariantList) (k : Nat) (name : List UInt8) (j : Nat) (ts : TyList),
    vs.find name k = some (j, .tuple ts) → ∀ p : Value,
    deVariant vs k name (some p) = deTupleLike ts p >>= fun d => pure (.variant j d)
  | .nil, _, _, _, _, h, _ => by simp [VariantList.find] at h
  | .cons n var vs, k, name, j, ts, h, p => by
    rw [VariantList.find] at h
    by_cases hn : (n == name) = true
    · rw [if_pos hn] at h
      simp only [Option.some.injEq, Prod.mk.injEq] at h
      obtain ⟨rfl, rfl⟩ := h
      rw [deVariant_tuple, if_pos hn]
    · rw [if_neg hn] at h
      rw [deVariant_skip n var vs k name _ (by simpa using hn)]
      exact deVariant_find_tuple vs (k + 1) name j ts h p

/-- the same for the payload of a tuple variant.  (Restated after the repair of
    `VariantAccess::tuple_variant`, which now goes through `deserialize_tuple`: the statement is about
    `deVariant` selecting a tuple variant; it used to be about the helper `deTupleSeq`, which is no longer
    what the tuple-variant arm calls.) -/
theorem C14_accept_list_for_tuple_variant (vs : VariantList) (k : Nat) (name : List UInt8) (j : Nat)
    (ts : TyList) (h : vs.find name k = some (j, .tuple ts)) (xs : List Value) :
    deVariant vs k name (some (Value.list xs)) = deVariant vs k name (some (.vector xs)) := by
  rw [deVariant_find_tuple vs k name j ts h, deVariant_find_tuple vs k name j ts h, deTupleLike_list]

/-- **C14_reject_improper_seq**: an improper list is never accepted for a sequence. -/
theorem C14_reject_improper_seq (t : Ty) (xs : List Value) (hxs : xs ≠ []) (tl : Value)
    (hnull : tl.isNull = false) (hcons : tl.isCons = false) (d : Data) :
    de (.seq t) (Value.append xs tl) ≠ .ok d := by
  rw [de]; exact deSeqLike_improper (de t) tl ⟨hnull, hcons⟩ xs hxs d

/-- **C14_reject_improper_tuple**: an improper list is a data error for a tuple. -/
theorem C14_reject_improper_tuple (ts : TyList) (xs : List Value) (hxs : xs ≠ []) (tl : Value)
    (hnull : tl.isNull = false) (hcons : tl.isCons = false) :
    deTupleLike ts (Value.append xs tl) = .dataErr :=
  deTupleLike_improper ts tl ⟨hnull, hcons⟩ xs hxs

/-- **C14_reject_improper_tuple_variant**: the rejection clause covers tuple variants (after the repair
    of `VariantAccess::tuple_variant`).  If the variant selected by `name` (the first one of that name,
    `VariantList.find`) is a tuple variant, an improper list as its items `(name x… . tl)` is a data
    error — whatever the arity `ts`, the number of items (fewer, as many, or MORE than the arity: the
    tail beyond the last item is seen too) and the non-list tail. -/
theorem C14_reject_improper_tuple_variant (vs : VariantList) (k : Nat) (name : List UInt8) (j : Nat)
    (ts : TyList) (h : vs.find name k = some (j, .tuple ts))
    (xs : List Value) (hxs : xs ≠ []) (tl : Value) (hnull : tl.isNull = false) (hcons : tl.isCons = false) :
    deVariant vs k name (some (Value.append xs tl)) = .dataErr := by
  rw [deVariant_find_tuple vs k name j ts h, deTupleLike_improper ts tl ⟨hnull, hcons⟩ xs hxs]
  rfl

/-- the same at the entry point: `from_value::<E>` of `(name x… . tl)` -/
theorem C14_reject_improper_tuple_variant_de (vs : VariantList) (name : List UInt8) (j : Nat) (ts : TyList)
    (h : vs.find name 0 = some (j, .tuple ts))
    (xs : List Value) (hxs : xs ≠ []) (tl : Value) (hnull : tl.isNull = false) (hcons : tl.isCons = false) :
    de (.enum vs) (.cons (.symbol name) (Value.append xs tl)) = .dataErr := by
  rw [de]; exact C14_reject_improper_tuple_variant vs 0 name j ts h xs hxs tl hnull hcons

/-- `VecAccess` ignores surplus items -/
theorem deTupleVec_append (ys : List Value) : ∀ (ts : TyList) (xs : List Value) (ds : List Data),
    deTupleVec ts xs = .ok ds → deTupleVec ts (xs ++ ys) = .ok ds
  | .nil, xs, ds, h => by simpa [deTupleVec] using h
  | .cons t ts, [], ds, h => by simp [deTupleVec] at h
  | .cons t ts, x :: xs, ds, h => by
    rw [List.cons_append, deTupleVec]
    rw [deTupleVec] at h
    obtain ⟨d, hd, h⟩ := DeRes.bind_eq_ok.mp h
    obtain ⟨ds', hds', h⟩ := DeRes.bind_eq_ok.mp h
    simp only [DeRes.pure_eq, DeRes.ok.injEq] at h
    simp [hd, deTupleVec_append ys ts xs ds' hds', h]

/-- **C14_tuple_variant_surplus**: a PROPER list that is longer than the arity is still accepted for a
    tuple variant, the surplus items being ignored (as for plain tuples): only the shape of the whole
    payload is checked up front. -/
theorem C14_tuple_variant_surplus (vs : VariantList) (k : Nat) (name : List UInt8) (j : Nat)
    (ts : TyList) (h : vs.find name k = some (j, .tuple ts))
    (xs ys : List Value) (ds : List Data) (hd : deTupleVec ts xs = .ok ds) :
    deVariant vs k name (some (Value.list (xs ++ ys))) = .ok (.variant j (.seq ds)) := by
  rw [deVariant_find_tuple vs k name j ts h, deTupleLike_vec_ok (deTupleVec_append ys ts xs ds hd)]
  rfl

/-- **C14_shape_seq**: sequences (and sets) serialise to proper lists. -/
theorem C14_shape_seq (t : Ty) (ds : List Data) (v : Value) (h : ser (.seq t) (.seq ds) = some v) :
    v.isList = true ∧ ∃ xs, v = Value.list xs ∧ xs.length = ds.length := by
  simp only [ser, Option.map_eq_some_iff] at h
  obtain ⟨xs, hxs, rfl⟩ := h
  refine ⟨isList_list xs, xs, rfl, ?_⟩
  have : ∀ (ds : List Data) (xs : List Value), ds.mapM (ser t) = some xs → xs.length = ds.length := by
    intro ds
    induction ds with
    | nil => intro xs h; simp at h; simp [← h]
    | cons d ds ih =>
      intro xs h
      simp only [List.mapM_cons, Option.bind_eq_bind, Option.bind_eq_some_iff, Option.pure_def,
        Option.some.injEq] at h
      obtain ⟨_, _, ys, hys, rfl⟩ := h
      simp [ih ys hys]
  exact this ds xs hxs

/-- **C14_shape_tuple**: tuples (and tuple structs) serialise to vectors of the tuple's length. -/
theorem C14_shape_tuple (ts : TyList) (d : Data) (v : Value) (h : ser (.tuple ts) d = some v) :
    ∃ xs, v = .vector xs ∧ xs.length = ts.length := by
  cases d <;> simp only [ser, Option.map_eq_some_iff, reduceCtorEq] at h
  obtain ⟨xs, hxs, rfl⟩ := h
  exact ⟨xs, rfl, (serTuple_length ts _ xs hxs).1⟩

/-- **C14_shape_struct**: a struct serialises to a proper list of `(name . value)` pairs, the names
    being the field names as symbols, in declaration order. -/
theorem C14_shape_struct (fs : FieldList) (d : Data) (v : Value) (h : ser (.struct fs) d = some v) :
    ∃ vals : List Value, vals.length = fs.length ∧
      v = Value.list (List.zipWith (fun n x => Value.cons (.symbol n) x) fs.names vals) := by
  cases d <;> simp only [ser, Option.map_eq_some_iff, reduceCtorEq] at h
  obtain ⟨xs, hxs, rfl⟩ := h
  obtain ⟨vals, h1, _, h3⟩ := serFields_shape fs _ xs hxs
  exact ⟨vals, h1, by rw [h3]⟩

/-- **C14_shape_option**: `None ↦ ()`, `Some x ↦ (x)`. -/
theorem C14_shape_option (t : Ty) (d : Data) :
    ser (.option t) .none = some .null ∧
    ser (.option t) (.some d) = (ser t d).map fun x => .cons x .null := by
  constructor <;> rw [ser]

/-- **C14_shape_unit_variant**: a unit variant serialises to its name as a symbol. -/
theorem C14_shape_unit_variant (vs : VariantList) (i : Nat) (name : List UInt8)
    (h : vs.get i = some (name, .unit)) : ser (.enum vs) (.variant i .unit) = some (.symbol name) := by
  rw [ser]; exact serVariant_unit vs i name h

/-- **C14_shape_int**: an in-range integer serialises to a well-formed number in normal form with
    the same mathematical value: `PosInt` for `n ≥ 0`, `NegInt` otherwise. -/
theorem C14_shape_int (w : IntTy) (n : Int) (h1 : w.lo ≤ n) (h2 : n ≤ w.hi) :
    ∃ num, ser (.int w) (.int n) = some (.number num) ∧ num.Normal ∧ num.WF ∧
      (0 ≤ n → num = .pos n.toNat ∧ (serInt w n).asU64 = some n.toNat) ∧
      (n < 0 → num = .neg n ∧ (serInt w n).asU64 = none) ∧
      (n ≤ i64Max → (serInt w n).asI64 = some n) := by
  obtain ⟨num, h, rest⟩ := serInt_shape w n h1 h2
  exact ⟨num, by rw [ser, h], rest⟩

/-! ## Examples (one non-trivial instance per main theorem) -/

/-- `struct S { a: Option<i8>, b: Vec<(bool, String)>, c: E }`,
    `enum E { x, y(f64), z((), char), w { k: Map<String, u64> } }` -/
def exTy : Ty :=
  .struct (.cons [97] (.option (.int .i8))
    (.cons [98] (.seq (.tuple (.cons .bool (.cons .str .nil))))
    (.cons [99] (.enum (.cons [120] .unit (.cons [121] (.newtype .f64)
      (.cons [122] (.tuple (.cons .unit (.cons .char .nil)))
      (.cons [119] (.struct (.cons [107] (.map .str (.int .u64)) .nil)) .nil))))) .nil)))

def exData : Data :=
  .seq [.some (.int (-5)), .seq [.seq [.bool true, .str [104]]],
        .variant 3 (.seq [.map [(.str [1], .int 7)]])]

theorem exTy_wf : WellFormed exTy := by
  simp [exTy, WellFormed, WFFields, WFVariants, WFTys, FieldList.names, VariantList.names]

theorem exData_ty : HasTy exTy exData := by
  simp [exTy, exData, HasTy, HasTyFields, HasTyTuple, HasTyVariant, IntTy.lo, IntTy.hi]

example : ∃ v, ser exTy exData = some v ∧ de exTy v = .ok exData := C04_value _ _ exTy_wf exData_ty

example : de exTy (.vector []) = .dataErr ∧ de exTy (.vector []) ≠ .panic :=
  ⟨by simp [exTy, de, deStructLike], C18_total _ _⟩

/-- a non-canonical input: fields out of order, an unknown field, the `Option` field missing, a vector for
    the sequence and a list for the tuple -/
def exValue : Value :=
  Value.list [.cons (.symbol [99]) (.symbol [120]), .cons (.symbol [113]) (.bool true),
    .cons (.symbol [98]) (.vector [Value.list [.bool false, .string []]])]

theorem exValue_de : de exTy exValue = .ok (.seq [.none, .seq [.seq [.bool false, .str []]], .variant 0 .unit]) := by
  simp [exTy, exValue, Value.list, Value.append, de, deStructLike, deStructEntries, deField, lookupField,
    deStructFill, FieldList.optFlags, Ty.isOption, deVariant, deSeqLike, deTupleLike, Value.isList,
    Value.isList.isListTail, deTupleList]

example : HasTy exTy (.seq [.none, .seq [.seq [.bool false, .str []]], .variant 0 .unit]) ∧
    ∃ v', ser exTy (.seq [.none, .seq [.seq [.bool false, .str []]], .variant 0 .unit]) = some v' ∧
      de exTy v' = .ok (.seq [.none, .seq [.seq [.bool false, .str []]], .variant 0 .unit]) :=
  C18_normalise _ _ _ exValue_de exTy_wf

/-! ### the hypotheses are needed -/

/-- without distinct field names the round trip fails (duplicate field error) -/
example : HasTy (.struct (.cons [97] .bool (.cons [97] .bool .nil))) (.seq [.bool true, .bool false]) ∧
    ∃ v, ser (.struct (.cons [97] .bool (.cons [97] .bool .nil))) (.seq [.bool true, .bool false]) = some v ∧
      de (.struct (.cons [97] .bool (.cons [97] .bool .nil))) v = .dataErr := by
  refine ⟨by simp [HasTy, HasTyFields], _, by simp [ser, serFields]; rfl, ?_⟩
  simp [de, deStructLike, deStructEntries, deField, lookupField]

/-- without distinct variant names the round trip returns the first variant of that name -/
example : HasTy (.enum (.cons [97] .unit (.cons [97] .unit .nil))) (.variant 1 .unit) ∧
    ∃ v, ser (.enum (.cons [97] .unit (.cons [97] .unit .nil))) (.variant 1 .unit) = some v ∧
      de (.enum (.cons [97] .unit (.cons [97] .unit .nil))) v = .ok (.variant 0 .unit) := by
  refine ⟨by simp [HasTy, HasTyVariant], _, by simp [ser, serVariant]; rfl, ?_⟩
  simp [de, deVariant]

/-- an integer outside the range of its type serialises but does not come back -/
example : ∃ v, ser (.int .u8) (.int 300) = some v ∧ de (.int .u8) v = .dataErr := by
  refine ⟨_, by simp [ser]; rfl, ?_⟩
  simp [serInt, Number.ofSigned, de, deNumber, IntTy.hi]
example : ∃ v, ser (.int .u64) (.int (-1)) = some v ∧ de (.int .u64) v = .ok (.int 0) := by
  refine ⟨_, by simp [ser]; rfl, ?_⟩
  simp [serInt, Number.ofUnsigned, de, deNumber, IntTy.hi]

/-- an `f32` datum that is not a binary32 value (here the double nearest 0.1) comes back rounded -/
example : ∃ v, ser .f32 (.float 0x3FB999999999999A) = some v ∧
    de .f32 v = .ok (.float 0x3FB99999A0000000) := by
  refine ⟨_, by simp [ser]; rfl, ?_⟩
  have : roundToF32 0x3FB999999999999A = 0x3FB99999A0000000 := by decide +kernel
  simp [de, deNumber, this]
/-- ... and the rounded value is well typed -/
example : HasTy .f32 (.float 0x3FB99999A0000000) := by
  have : roundToF32 0x3FB99999A0000000 = 0x3FB99999A0000000 := by decide +kernel
  simpa [HasTy] using this

/-! ### the subtle shapes round-trip -/

/-- `Some(())` is `(())`, `None` is `()` -/
example : ser (.option .unit) (.some .unit) = some (.cons .null .null) ∧
    de (.option .unit) (.cons .null .null) = .ok (.some .unit) ∧
    de (.option .unit) .null = .ok .none := by simp [ser, de]
/-- `Option<Option<bool>>`: `Some(None)` is `(())`, `None` is `()`, `Some(Some(#t))` is `((#t))` -/
example : ser (.option (.option .bool)) (.some .none) = some (.cons .null .null) ∧
    de (.option (.option .bool)) (.cons .null .null) = .ok (.some .none) ∧
    de (.option (.option .bool)) .null = .ok .none ∧
    de (.option (.option .bool)) (.cons (.cons (.bool true) .null) .null) = .ok (.some (.some (.bool true))) := by
  simp [ser, de]
/-- a newtype variant around a sequence and a tuple variant have the same shape `(name x y)` and are told
    apart by the name only -/
example :
    ser (.enum (.cons [121] (.newtype (.seq .bool)) (.cons [122] (.tuple (.cons .bool (.cons .bool .nil))) .nil)))
      (.variant 0 (.seq [.bool true, .bool false])) =
      some (.cons (.symbol [121]) (Value.list [.bool true, .bool false])) ∧
    ser (.enum (.cons [121] (.newtype (.seq .bool)) (.cons [122] (.tuple (.cons .bool (.cons .bool .nil))) .nil)))
      (.variant 1 (.seq [.bool true, .bool false])) =
      some (.cons (.symbol [122]) (Value.list [.bool true, .bool false])) := by
  simp [ser, serVariant, serTuple]
/-- a newtype struct is transparent, also around an option -/
example : ser (.newtypeStruct (.option .bool)) .none = some .null ∧
    de (.newtypeStruct (.option .bool)) .null = .ok .none := by simp [ser, de]

/-! ### other observations -/

/-- BEFORE the repair of `VariantAccess::tuple_variant` (which went through `deserialize_seq`, the helper
    `deTupleSeq` of the model) the payload of a tuple variant was only checked for properness up to the
    arity: `(z #t #f . 5)` was accepted for `z(bool)` while `(z #t . 5)` was not; a plain tuple rejects
    both.  Kept as the witness of the defect of the unrepaired code (C14, rejection clause). -/
example : deTupleSeq (.cons .bool .nil) (.cons (.bool true) (.cons (.bool false) (.number (.pos 5)))) =
      .ok (.seq [.bool true]) ∧
    deTupleSeq (.cons .bool .nil) (.cons (.bool true) (.number (.pos 5))) = .dataErr ∧
    deTupleLike (.cons .bool .nil) (.cons (.bool true) (.cons (.bool false) (.number (.pos 5)))) =
      .dataErr := by
  simp [deTupleSeq, deTupleList, deTupleLike, de, Value.isList, Value.isList.isListTail]
/-- AFTER the repair (`deserialize_tuple`): the tuple-variant arm rejects both `(z #t #f . 5)` and
    `(z #t . 5)` for `z(bool)`, and still accepts the proper over-long `(z #t #f)` -/
example :
    de (.enum (.cons [122] (.tuple (.cons .bool .nil)) .nil))
      (.cons (.symbol [122]) (.cons (.bool true) (.cons (.bool false) (.number (.pos 5))))) = .dataErr ∧
    de (.enum (.cons [122] (.tuple (.cons .bool .nil)) .nil))
      (.cons (.symbol [122]) (.cons (.bool true) (.number (.pos 5)))) = .dataErr ∧
    de (.enum (.cons [122] (.tuple (.cons .bool .nil)) .nil))
      (.cons (.symbol [122]) (.cons (.bool true) (.cons (.bool false) .null))) =
      .ok (.variant 0 (.seq [.bool true])) := by
  simp [deVariant, deTupleList, deTupleLike, de, Value.isList, Value.isList.isListTail]
/-- extra tuple elements are ignored, a unit variant ignores its payload, `Nil` is accepted for unit -/
example : de (.tuple (.cons .bool .nil)) (.vector [.bool true, .null]) = .ok (.seq [.bool true]) ∧
    de (.enum (.cons [120] .unit .nil)) (.cons (.symbol [120]) (.bool true)) = .ok (.variant 0 .unit) ∧
    de .unit .nil = .ok .unit := by
  simp [de, deTupleLike, deTupleVec, deVariant]

/-! ### instances of the C14 theorems -/

example : de (.seq .bool) (.vector [.bool true]) = de (.seq .bool) (Value.list [.bool true]) :=
  C14_accept_vector_for_seq _ _
example : deTupleLike (.cons .bool .nil) (Value.list [.bool true]) =
    deTupleLike (.cons .bool .nil) (.vector [.bool true]) := C14_accept_list_for_tuple _ _
example (d : Data) : de (.seq .bool) (Value.append [.bool true] (.number (.pos 1))) ≠ .ok d :=
  C14_reject_improper_seq _ _ (by simp) _ rfl rfl d
example : deTupleLike (.cons .bool .nil) (Value.append [.bool true] (.number (.pos 1))) = .dataErr :=
  C14_reject_improper_tuple _ _ (by simp) _ rfl rfl

/-- `enum E { T(u8, u8) }` -/
def exTupleVariantTy : Ty := .enum (.cons [84] (.tuple (.cons (.int .u8) (.cons (.int .u8) .nil))) .nil)

/-- `(T 168 255 9 . 7)` is a data error (it deserialized to `T(168, 255)` before the repair): by the theorem … -/
example : de exTupleVariantTy
    (.cons (.symbol [84]) (Value.append [.number (.pos 168), .number (.pos 255), .number (.pos 9)]
      (.number (.pos 7)))) = .dataErr :=
  C14_reject_improper_tuple_variant_de _ [84] 0 _ rfl _ (by simp) _ rfl rfl
/-- … and by unfolding the model on this input (no theorem involved) -/
example : de exTupleVariantTy
    (.cons (.symbol [84]) (.cons (.number (.pos 168)) (.cons (.number (.pos 255)) (.cons (.number (.pos 9))
      (.number (.pos 7)))))) = .dataErr := by
  simp [exTupleVariantTy, de, deVariant, deTupleLike, Value.isList, Value.isList.isListTail]
/-- the other improper payloads observed on the repaired code: `(T 168 255 . 7)`, `(T 168 255 T . 7)`,
    `(T 168 . 255)` -/
example :
    de exTupleVariantTy (.cons (.symbol [84]) (.cons (.number (.pos 168)) (.cons (.number (.pos 255))
      (.number (.pos 7))))) = .dataErr ∧
    de exTupleVariantTy (.cons (.symbol [84]) (.cons (.number (.pos 168)) (.cons (.number (.pos 255))
      (.cons (.symbol [84]) (.number (.pos 7)))))) = .dataErr ∧
    de exTupleVariantTy (.cons (.symbol [84]) (.cons (.number (.pos 168)) (.number (.pos 255)))) = .dataErr := by
  simp [exTupleVariantTy, de, deVariant, deTupleLike, Value.isList, Value.isList.isListTail]
/-- the proper over-long payload `(T 168 255 9)` is still accepted (surplus item ignored), like `(T 168 255)`
    and the vector payload `(T . #(168 255))`; the unrepaired arm (`deTupleSeq`) accepted `(T 168 255 9 . 7)` -/
example :
    de exTupleVariantTy (.cons (.symbol [84]) (Value.list [.number (.pos 168), .number (.pos 255),
      .number (.pos 9)])) = .ok (.variant 0 (.seq [.int 168, .int 255])) ∧
    de exTupleVariantTy (.cons (.symbol [84]) (Value.list [.number (.pos 168), .number (.pos 255)])) =
      .ok (.variant 0 (.seq [.int 168, .int 255])) ∧
    de exTupleVariantTy (.cons (.symbol [84]) (.vector [.number (.pos 168), .number (.pos 255)])) =
      .ok (.variant 0 (.seq [.int 168, .int 255])) ∧
    deTupleSeq (.cons (.int .u8) (.cons (.int .u8) .nil))
      (Value.append [.number (.pos 168), .number (.pos 255), .number (.pos 9)] (.number (.pos 7))) =
      .ok (.seq [.int 168, .int 255]) := by
  simp [exTupleVariantTy, Value.list, Value.append, de, deVariant, deTupleLike, deTupleSeq, deTupleList, deTupleVec,
    deNumber, IntTy.hi, Value.isList, Value.isList.isListTail]
/-- the same through `C14_tuple_variant_surplus` -/
example : deVariant (.cons [84] (.tuple (.cons (.int .u8) (.cons (.int .u8) .nil))) .nil) 0 [84]
    (some (Value.list ([.number (.pos 168), .number (.pos 255)] ++ [.number (.pos 9)]))) =
    .ok (.variant 0 (.seq [.int 168, .int 255])) :=
  C14_tuple_variant_surplus _ 0 [84] 0 _ rfl _ _ _ (by simp [deTupleVec, de, deNumber, IntTy.hi])
/-- an empty tuple variant `(ET)` -/
example : de (.enum (.cons [69, 84] (.tuple .nil) .nil)) (.cons (.symbol [69, 84]) .null) =
    .ok (.variant 0 (.seq [])) := by
  simp [de, deVariant, deTupleLike, deTupleVec]
example : deVariant (.cons [122] (.tuple (.cons .bool .nil)) .nil) 0 [122] (some (Value.list [.bool true])) =
    deVariant (.cons [122] (.tuple (.cons .bool .nil)) .nil) 0 [122] (some (.vector [.bool true])) :=
  C14_accept_list_for_tuple_variant _ 0 [122] 0 _ rfl _
example : ∃ num, ser (.int .i16) (.int (-300)) = some (.number num) ∧ num = .neg (-300) := by
  obtain ⟨num, h, _, _, _, hneg, _⟩ := C14_shape_int .i16 (-300) (by simp [IntTy.lo]) (by simp [IntTy.hi])
  exact ⟨num, h, (hneg (by omega)).1⟩
example : ser (.enum (.cons [120] .unit (.cons [121] .unit .nil))) (.variant 1 .unit) = some (.symbol [121]) :=
  C14_shape_unit_variant _ _ _ rfl

end Serde
end Lexpr
