/-
  Utf8InputHist — C17, input clause over HISTORIES of calls on one parser (any interleaving of
  `next_value`, `next_datum`, the iterators, `expect_value`, `expect_datum`, `expect_end`), every
  option set, slice and stream sources.

  A call that succeeds consumes a chunk of valid UTF-8 (`stepOp_vc`); along a history in which every
  call so far succeeded, what the parser has consumed is valid UTF-8 (`history_consumed_valid`), and
  the history as a whole can only be all-successful up to the point where the input stops being
  well-formed (`history_ill_formed_prefix_fails`: if the bytes consumed by a run of calls are not
  valid UTF-8, one of these calls reported an error).  The side conditions are those of the single
  call theorems (`TV`: trivia well-formed, i.e. comments may hide anything; `NoNumEsc` under the
  Emacs Lisp string syntax) — both are inherited by every suffix of the input, which is what makes
  the induction over the history go through.
-/
import LexprModel.Proofs.Utf8InputAllOptsDatum
namespace Lexpr
namespace Parse
namespace InAllOpts
open Utf8 Utf8.U8 Parse.U8 InLoop InTok InAll Image

/-- the item reports success (a value, a datum, end of input, or `Ok(())`) -/
def Item.accepted : Item → Bool
  | .value _ | .datum _ | .none_ | .unit => true
  | _ => false

/-- the parser state after a run of calls that all succeeded (`none` as soon as one call fails,
    panics or runs out of fuel) -/
def runAccepted (cfg : Cfg) : List Op → St → Option St
  | [], s => some s
  | op :: ops, s =>
    match stepOp cfg op s with
    | (it, some s') => if Item.accepted it then runAccepted cfg ops s' else none
    | (_, none) => none

theorem nextValueTop_inv {cfg : Cfg} {s s' : St} {v : Option Value}
    (h : nextValueTop cfg s = .ok v s') (hm : s.rd.mode ≠ .str) (htv : TV s.rd.rest)
    (hnb : cfg.opts.string = .elisp → NoNumEsc s.rd.rest) : Inv s s' := by
  unfold nextValueTop at h
  obtain ⟨f, s1, hf, h⟩ := bind_ok h
  rw [apiFuel_ok hf] at h
  exact (valueInvG cfg s (tokH_of_noNumEsc hnb) f).1 h ⟨VC.refl s, htv, hm⟩

theorem nextDatumTop_inv {cfg : Cfg} {s s' : St} {d : Option Datum}
    (h : nextDatumTop cfg s = .ok d s') (hm : s.rd.mode ≠ .str) (htv : TV s.rd.rest)
    (hnb : cfg.opts.string = .elisp → NoNumEsc s.rd.rest) : Inv s s' := by
  unfold nextDatumTop at h
  obtain ⟨f, s1, hf, h⟩ := bind_ok h
  rw [apiFuel_ok hf] at h
  exact (datumInvG cfg s (tokH_of_noNumEsc hnb) f).1 h ⟨VC.refl s, htv, hm⟩

theorem expectValue_inv {cfg : Cfg} {s s' : St} {v : Value}
    (h : expectValue cfg s = .ok v s') (hm : s.rd.mode ≠ .str) (htv : TV s.rd.rest)
    (hnb : cfg.opts.string = .elisp → NoNumEsc s.rd.rest) : Inv s s' := by
  unfold expectValue at h
  obtain ⟨ov, s1, hn, h⟩ := bind_ok h
  cases ov with
  | none => simp [peekErr] at h
  | some x =>
    obtain ⟨_, rfl⟩ := pure_ok h
    exact nextValueTop_inv hn hm htv hnb

theorem expectDatum_inv {cfg : Cfg} {s s' : St} {d : Datum}
    (h : expectDatum cfg s = .ok d s') (hm : s.rd.mode ≠ .str) (htv : TV s.rd.rest)
    (hnb : cfg.opts.string = .elisp → NoNumEsc s.rd.rest) : Inv s s' := by
  unfold expectDatum at h
  obtain ⟨ov, s1, hn, h⟩ := bind_ok h
  cases ov with
  | none => simp [peekErr] at h
  | some x =>
    obtain ⟨_, rfl⟩ := pure_ok h
    exact nextDatumTop_inv hn hm htv hnb

/-- **one successful call of any kind consumes a chunk of valid UTF-8** and leaves a state that
    meets the same side conditions -/
theorem stepOp_inv {cfg : Cfg} {op : Op} {s s' : St} {it : Item}
    (h : stepOp cfg op s = (it, some s')) (hacc : Item.accepted it = true)
    (hm : s.rd.mode ≠ .str) (htv : TV s.rd.rest)
    (hnb : cfg.opts.string = .elisp → NoNumEsc s.rd.rest) : Inv s s' := by
  cases op <;> simp only [stepOp] at h
  case nextValue | valueIterNext | parserNext =>
    generalize hr : nextValueTop cfg s = r at h
    rcases r with ⟨_ | _, _⟩ | _ | _ | _ <;> simp only [Prod.mk.injEq, Option.some.injEq] at h <;>
      first
        | (obtain ⟨rfl, rfl⟩ := h; first | exact nextValueTop_inv hr hm htv hnb | simp [Item.accepted] at hacc)
        | (exact absurd h.2 (by simp))
  case nextDatum | datumIterNext =>
    generalize hr : nextDatumTop cfg s = r at h
    rcases r with ⟨_ | _, _⟩ | _ | _ | _ <;> simp only [Prod.mk.injEq, Option.some.injEq] at h <;>
      first
        | (obtain ⟨rfl, rfl⟩ := h; first | exact nextDatumTop_inv hr hm htv hnb | simp [Item.accepted] at hacc)
        | (exact absurd h.2 (by simp))
  case expectValue =>
    generalize hr : expectValue cfg s = r at h
    rcases r with _ | _ | _ | _ <;> simp only [Prod.mk.injEq, Option.some.injEq] at h <;>
      first
        | (obtain ⟨rfl, rfl⟩ := h; first | exact expectValue_inv hr hm htv hnb | simp [Item.accepted] at hacc)
        | (exact absurd h.2 (by simp))
  case expectDatum =>
    generalize hr : expectDatum cfg s = r at h
    rcases r with _ | _ | _ | _ <;> simp only [Prod.mk.injEq, Option.some.injEq] at h <;>
      first
        | (obtain ⟨rfl, rfl⟩ := h; first | exact expectDatum_inv hr hm htv hnb | simp [Item.accepted] at hacc)
        | (exact absurd h.2 (by simp))
  case expectEnd =>
    generalize hr : expectEnd s = r at h
    rcases r with _ | _ | _ | _ <;> simp only [Prod.mk.injEq, Option.some.injEq] at h <;>
      first
        | (obtain ⟨rfl, rfl⟩ := h
           first | exact (expectEnd_inv hr ⟨VC.refl s, htv, hm⟩).1 | simp [Item.accepted] at hacc)
        | (exact absurd h.2 (by simp))

/-- the side condition `NoNumEsc` is inherited along `VC` -/
theorem noNumEsc_of_vc {s s' : St} (h : VC s s') (hn : NoNumEsc s.rd.rest) : NoNumEsc s'.rd.rest := by
  obtain ⟨_, w, _, hr⟩ := h
  rw [hr] at hn
  exact hn.suffix

/-- **histories**: a run of calls of any kinds on one parser that all succeed consumes valid UTF-8 -/
theorem runAccepted_inv {cfg : Cfg} (ops : List Op) {s s' : St}
    (h : runAccepted cfg ops s = some s') (hm : s.rd.mode ≠ .str) (htv : TV s.rd.rest)
    (hnb : cfg.opts.string = .elisp → NoNumEsc s.rd.rest) : Inv s s' := by
  induction ops generalizing s with
  | nil =>
    simp only [runAccepted, Option.some.injEq] at h
    subst h
    exact ⟨VC.refl s, htv, hm⟩
  | cons op ops ih =>
    simp only [runAccepted] at h
    generalize hst : stepOp cfg op s = r at h
    obtain ⟨it, os⟩ := r
    cases os with
    | none => simp at h
    | some s1 =>
      simp only at h
      by_cases hacc : Item.accepted it = true
      · rw [if_pos hacc] at h
        have h1 := stepOp_inv hst hacc hm htv hnb
        have h2 := ih h h1.mode h1.tv (fun hel => noNumEsc_of_vc h1.vc (hnb hel))
        exact ⟨h1.vc.trans h2.vc, h2.tv, h2.mode⟩
      · rw [if_neg hacc] at h
        simp at h

/-- **C17, input clause, histories, EVERY option set**: whatever sequence of calls is made on one
    parser over a slice or a stream, as long as every call so far succeeded the bytes consumed so
    far are valid UTF-8 (`w` is any way of writing them: the input is `w` followed by what is left). -/
theorem C17_history_consumed_valid {cfg : Cfg} {mode : Mode} {bytes w : List UInt8} {faulty : Bool}
    {ops : List Op} {S' : St}
    (h : runAccepted cfg ops (initSt mode bytes faulty) = some S')
    (hm : mode ≠ .str) (htv : TV bytes) (hnb : cfg.opts.string = .elisp → NoNumEsc bytes)
    (hw : bytes = w ++ S'.rd.rest) : Utf8.valid w = true := by
  have hinv := runAccepted_inv ops h (by exact hm) (by exact htv) (by exact hnb)
  exact hinv.vc.valid_of (by simpa [initSt] using hw)

/-- the contrapositive the oracle uses: once the consumed bytes are ill-formed, some call of the
    history did not succeed -/
theorem C17_history_ill_formed_prefix_fails {cfg : Cfg} {mode : Mode} {bytes w rest : List UInt8}
    {faulty : Bool} {ops : List Op}
    (hm : mode ≠ .str) (hno : ∀ b ∈ bytes, b ≠ 59) (hnb : NoNumEsc bytes)
    (hw : bytes = w ++ rest) (hbad : Utf8.valid w = false) :
    ∀ S', runAccepted cfg ops (initSt mode bytes faulty) = some S' → S'.rd.rest ≠ rest := by
  intro S' h heq
  have := C17_history_consumed_valid (w := w) h hm (TV.of_no59 hno) (fun _ => hnb) (by rw [heq]; exact hw)
  rw [this] at hbad
  cases hbad

/-- `runAccepted` is the state reached by `runHistory` when all its items are successes -/
theorem runAccepted_some_items {cfg : Cfg} (ops : List Op) {s s' : St}
    (h : runAccepted cfg ops s = some s') :
    (runHistory cfg ops s).length = ops.length ∧
      ∀ it ∈ runHistory cfg ops s, Item.accepted it = true := by
  induction ops generalizing s with
  | nil => simp [runHistory]
  | cons op ops ih =>
    simp only [runAccepted] at h
    simp only [runHistory]
    generalize stepOp cfg op s = r at h ⊢
    obtain ⟨it, os⟩ := r
    cases os with
    | none => simp at h
    | some s1 =>
      simp only at h ⊢
      by_cases hacc : Item.accepted it = true
      · rw [if_pos hacc] at h
        obtain ⟨hl, hall⟩ := ih h
        refine ⟨by simp [hl], ?_⟩
        intro it' hit
        rcases List.mem_cons.1 hit with rfl | hit
        · exact hacc
        · exact hall _ hit
      · rw [if_neg hacc] at h
        simp at h

/-- a call after which the parser is gone (panic, fuel) is not a success -/
theorem stepOp_none_not_accepted {cfg : Cfg} {op : Op} {s : St} {it : Item}
    (h : stepOp cfg op s = (it, none)) : Item.accepted it = false := by
  cases op <;> simp only [stepOp] at h
  case nextValue | valueIterNext | parserNext =>
    generalize nextValueTop cfg s = r at h
    rcases r with ⟨_ | _, _⟩ | _ | _ | _ <;> simp only [Prod.mk.injEq] at h <;>
      first | (obtain ⟨rfl, _⟩ := h; rfl) | (exact absurd h.2 (by simp))
  case nextDatum | datumIterNext =>
    generalize nextDatumTop cfg s = r at h
    rcases r with ⟨_ | _, _⟩ | _ | _ | _ <;> simp only [Prod.mk.injEq] at h <;>
      first | (obtain ⟨rfl, _⟩ := h; rfl) | (exact absurd h.2 (by simp))
  case expectValue =>
    generalize expectValue cfg s = r at h
    rcases r with _ | _ | _ | _ <;> simp only [Prod.mk.injEq] at h <;>
      first | (obtain ⟨rfl, _⟩ := h; rfl) | (exact absurd h.2 (by simp))
  case expectDatum =>
    generalize expectDatum cfg s = r at h
    rcases r with _ | _ | _ | _ <;> simp only [Prod.mk.injEq] at h <;>
      first | (obtain ⟨rfl, _⟩ := h; rfl) | (exact absurd h.2 (by simp))
  case expectEnd =>
    generalize expectEnd s = r at h
    rcases r with _ | _ | _ | _ <;> simp only [Prod.mk.injEq] at h <;>
      first | (obtain ⟨rfl, _⟩ := h; rfl) | (exact absurd h.2 (by simp))

/-- conversely: if every item `runHistory` produces is a success, `runAccepted` reaches a state — so the
    hypothesis of the history theorems can be read off the items the correspondence compares -/
theorem runAccepted_of_items {cfg : Cfg} (ops : List Op) (s : St)
    (h : ∀ it ∈ runHistory cfg ops s, Item.accepted it = true) :
    ∃ s', runAccepted cfg ops s = some s' := by
  induction ops generalizing s with
  | nil => exact ⟨s, rfl⟩
  | cons op ops ih =>
    simp only [runHistory] at h
    simp only [runAccepted]
    generalize hst : stepOp cfg op s = r at h ⊢
    obtain ⟨it, os⟩ := r
    cases os with
    | none =>
      simp only [List.mem_singleton, forall_eq] at h
      rw [stepOp_none_not_accepted hst] at h
      cases h
    | some s1 =>
      simp only at h ⊢
      have hacc : Item.accepted it = true := h it (List.mem_cons_self ..)
      rw [if_pos hacc]
      exact ih s1 (fun it' hit => h it' (List.mem_cons_of_mem _ hit))

/-! ### the hypotheses are satisfiable, the conclusion is not trivial -/

/-- two values read by two different kinds of call, then end of input: a non-trivial accepted history
    over a stream, Emacs Lisp string syntax -/
example : (match runAccepted cfgEl [.nextValue, .nextDatum, .expectEnd]
      (initSt .io (asc "(a \"b\") c ")) with
    | some S' => S'.rd.rest == []
    | none => false) = true := by decide +kernel

end InAllOpts
end Parse
end Lexpr
