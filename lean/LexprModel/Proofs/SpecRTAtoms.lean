/-
  SpecRTAtoms — the Scheme reader of `Spec/Reader.lean` on what the default printer writes for atoms:
  `#nil`, booleans, integers, characters, strings, symbols, keywords, byte vectors (floats are in
  SpecRTFloat.lean), and on the brackets (`Brackets` of SpecRTBase.lean).
-/
import LexprModel.Proofs.SpecRTBase
import LexprModel.Proofs.Decimals
namespace Lexpr
namespace SpecRT
open Spec Print

/-! ## 1. Lexemes -/

theorem nondelim_facts : ∀ b : UInt8, isDelim b = false →
    isWhite b = false ∧ (b == 59) = false ∧ (b == 40) = false ∧ (b == 41) = false ∧
    (b == 91) = false ∧ (b == 93) = false ∧ (b == 34) = false := by
  apply forall_u8; decide +kernel

theorem atomLen_append (a rest : List UInt8) (hnd : ∀ b ∈ a, isDelim b = false) (hf : Follow rest) :
    atomLen (a ++ rest) = a.length := by
  induction a with
  | nil =>
    rcases hf with rfl | ⟨b, tl, rfl, hb⟩
    · rfl
    · simp [atomLen, hb]
  | cons x xs ih =>
    have hx := hnd x (by simp)
    simp [atomLen, hx, ih (fun b hb => hnd b (by simp [hb]))]

theorem asc_hp : asc "#(" = [35, 40] := by decide
theorem asc_u8 : asc "#u8(" = [35, 117, 56, 40] := by decide
theorem asc_vu8 : asc "#vu8(" = [35, 118, 117, 56, 40] := by decide
theorem asc_hb : asc "#\\" = [35, 92] := by decide

/-- a run of non-delimiter bytes that does not start like another lexeme is one atom lexeme -/
theorem atom_lexeme (x : UInt8) (xs rest : List UInt8) (hnd : ∀ b ∈ x :: xs, isDelim b = false)
    (hq : x ≠ 39 ∧ x ≠ 96 ∧ x ≠ 44)
    (hh : x = 35 → ∃ c t, xs = c :: t ∧ c ≠ 92 ∧ c ≠ 117 ∧ c ≠ 118)
    (hf : Follow rest) :
    lexeme (x :: xs ++ rest) = some (some (.atom (x :: xs)), xs.length + 1) := by
  obtain ⟨f1, f2, f3, f4, f5, f6, f7⟩ := nondelim_facts x (hnd x (by simp))
  have hlen := atomLen_append (x :: xs) rest hnd hf
  have hq1 : (x == 39) = false := by simpa using hq.1
  have hq2 : (x == 96) = false := by simpa using hq.2.1
  have hq3 : (x == 44) = false := by simpa using hq.2.2
  by_cases h35 : x = 35
  · obtain ⟨c, t, rfl, c1, c2, c3⟩ := hh h35
    subst h35
    have c0 : (c == 40) = false := (nondelim_facts c (hnd c (by simp))).2.2.1
    simp only [List.cons_append] at hlen ⊢
    simp [lexeme, f1, hlen, asc_hp, asc_u8, asc_vu8, asc_hb, c0, c1, c2, c3]
  · simp only [List.cons_append] at hlen ⊢
    simp [lexeme, f1, f2, f3, f4, f5, f6, f7, hq1, hq2, hq3, hlen, asc_hp, asc_u8, asc_vu8, asc_hb, h35]

/-! ## 2. Brackets of the default printer options -/

theorem lexeme_lpar (r : List UInt8) : lexeme (40 :: r) = some (some .lpar, 1) := by
  simp [lexeme, isWhite]
theorem lexeme_rpar (r : List UInt8) : lexeme (41 :: r) = some (some .rpar, 1) := by
  simp [lexeme, isWhite]
theorem lexeme_space (r : List UInt8) : lexeme (32 :: r) = some (none, 1) := by
  simp [lexeme, isWhite]
theorem lexeme_dot (r : List UInt8) : lexeme (46 :: 32 :: r) = some (some (.atom [46]), 1) :=
  atom_lexeme 46 [] (32 :: r) (by simp; decide) (by decide) (fun h => absurd h (by decide)) (follow_cons 32 r (by decide))
theorem lexeme_vec (r : List UInt8) : lexeme (35 :: [40] ++ r) = some (some .vec, 2) := by
  simp [lexeme, isWhite, asc_hp]

theorem brackets_default (alpha : Nat → Bool) :
    Brackets lexeme (classify alpha) Print.Options.default where
  lpar := lexeme_lpar
  rpar := lexeme_rpar
  space := lexeme_space
  dot := lexeme_dot
  cl_lpar := rfl
  cl_rpar := rfl
  cl_dot := rfl
  vec := ⟨35, [40], 41, .vec, .rpar, .rpar, .vector .rpar, by decide, by decide, by decide, lexeme_vec,
    rfl, lexeme_rpar, rfl, fun _ => rfl⟩

/-! ## 3. Atoms that are one atom lexeme -/

abbrev po : Print.Options := Print.Options.default

theorem readsAs_atom (alpha : Nat → Bool) (x : UInt8) (xs : List UInt8) (w : Value)
    (hnd : ∀ b ∈ x :: xs, isDelim b = false) (hq : x ≠ 39 ∧ x ≠ 96 ∧ x ≠ 44)
    (hh : x = 35 → ∃ c t, xs = c :: t ∧ c ≠ 92 ∧ c ≠ 117 ∧ c ≠ 118)
    (hc : classify alpha (.atom (x :: xs)) = some (.datum w)) :
    ReadsAs lexeme (classify alpha) (x :: xs) w :=
  readsAs_datum lexeme (classify alpha) x xs (.atom (x :: xs)) w
    (fun rest hf => atom_lexeme x xs rest hnd hq hh hf) hc

theorem text_nil (ryu : Nat → List UInt8) : text po ryu .nil = [35, 110, 105, 108] := by
  simp only [text, emits, atomEmits, flatten_cons_all, flatten_nil]; decide

theorem text_bool (ryu : Nat → List UInt8) (b : Bool) :
    text po ryu (.bool b) = [35, if b then 116 else 102] := by
  cases b <;> (simp only [text, emits, atomEmits, flatten_cons_all, flatten_nil]; decide)

theorem reads_nil (alpha : Nat → Bool) (ryu : Nat → List UInt8) :
    ReadsAs lexeme (classify alpha) (text po ryu .nil) .nil := by
  rw [text_nil]
  exact readsAs_atom alpha 35 _ .nil (by decide) (by decide)
    (fun _ => ⟨110, _, rfl, by decide, by decide, by decide⟩) rfl

theorem reads_bool (alpha : Nat → Bool) (ryu : Nat → List UInt8) (b : Bool) :
    ReadsAs lexeme (classify alpha) (text po ryu (.bool b)) (.bool b) := by
  rw [text_bool]
  cases b
  · exact readsAs_atom alpha 35 _ (.bool false) (by decide) (by decide)
      (fun _ => ⟨102, _, rfl, by decide, by decide, by decide⟩) rfl
  · exact readsAs_atom alpha 35 _ (.bool true) (by decide) (by decide)
      (fun _ => ⟨116, _, rfl, by decide, by decide, by decide⟩) rfl

/-! ## 4. Symbols and keywords -/

theorem subsequent_facts : ∀ b : UInt8, isSubsequent b = true →
    isDelim b = false ∧ b ≠ 39 ∧ b ≠ 96 ∧ b ≠ 44 ∧ b ≠ 35 := by
  apply forall_u8; decide +kernel

theorem class_incl : ∀ b : UInt8,
    (isInitial b = true → isSubsequent b = true) ∧
    (isSignSubsequent b = true → isSubsequent b = true) ∧
    (isDotSubsequent b = true → isSubsequent b = true) ∧
    ((b == 43 || b == 45 || b == 46) = true → isSubsequent b = true) := by
  apply forall_u8; decide +kernel

/-- every byte of an identifier is a subsequent (so: no delimiter, no `#`, no quote character) -/
theorem identShape_all (name : List UInt8) (h : identShape name = true) :
    ∀ b ∈ name, isSubsequent b = true := by
  cases name with
  | nil => simp [identShape] at h
  | cons b tl =>
    simp only [identShape, Bool.or_eq_true, Bool.and_eq_true, List.all_eq_true] at h
    intro y hy
    rcases h with (⟨hb, htl⟩ | ⟨hb, h⟩) | ⟨hb, h⟩
    · rcases List.mem_cons.mp hy with rfl | hy
      · exact (class_incl y).1 hb
      · exact htl y hy
    · have hb' : isSubsequent b = true := (class_incl b).2.2.2 (by
        rcases hb with hb | hb <;> simp [hb])
      cases tl with
      | nil => simpa using (by simpa using hy : y = b) ▸ hb'
      | cons c r =>
        simp only [Bool.or_eq_true, Bool.and_eq_true, List.all_eq_true] at h
        rcases h with ⟨hc, hr⟩ | ⟨hc, h⟩
        · rcases List.mem_cons.mp hy with rfl | hy
          · exact hb'
          · rcases List.mem_cons.mp hy with rfl | hy
            · exact (class_incl y).2.1 hc
            · exact hr y hy
        · cases r with
          | nil => simp at h
          | cons d r' =>
            simp only [Bool.and_eq_true, List.all_eq_true] at h
            rcases List.mem_cons.mp hy with rfl | hy
            · exact hb'
            · rcases List.mem_cons.mp hy with rfl | hy
              · exact (class_incl y).2.2.2 (by simp [hc])
              · rcases List.mem_cons.mp hy with rfl | hy
                · exact (class_incl y).2.2.1 h.1
                · exact h.2 y hy
    · have hb' : isSubsequent b = true := (class_incl b).2.2.2 (by simp [hb])
      cases tl with
      | nil => simp at h
      | cons d r =>
        simp only [Bool.and_eq_true, List.all_eq_true] at h
        rcases List.mem_cons.mp hy with rfl | hy
        · exact hb'
        · rcases List.mem_cons.mp hy with rfl | hy
          · exact (class_incl y).2.2.1 h.1
          · exact h.2 y hy

theorem udecimal_nil : udecimal [] = none := by decide

theorem udecimal_nondigit (c : UInt8) (tl : List UInt8) (h1 : isDigit c = false) (h2 : c ≠ 46) :
    udecimal (c :: tl) = none := by
  simp [udecimal, List.takeWhile, List.dropWhile, h1, h2]

theorem udecimal_dot_nondigit (tl : List UInt8) (h : ∀ d r, tl = d :: r → isDigit d = false) :
    udecimal (46 :: tl) = none := by
  have h0 : isDigit 46 = false := by decide
  cases tl with
  | nil => decide
  | cons d r =>
    have := h d r rfl
    simp [udecimal, List.takeWhile, List.dropWhile, h0, this]

theorem class_facts : ∀ b : UInt8,
    (isInitial b = true → isDigit b = false ∧ b ≠ 46 ∧ b ≠ 35 ∧ b ≠ 43 ∧ b ≠ 45) ∧
    (isSignSubsequent b = true → isDigit b = false ∧ b ≠ 46) ∧
    (isDotSubsequent b = true → isDigit b = false) := by
  apply forall_u8; decide +kernel

/-- an identifier is not a numeric literal -/
theorem number_ident (name : List UInt8) (h : identShape name = true) : number name = none := by
  cases name with
  | nil => simp [identShape] at h
  | cons b tl =>
    simp only [identShape, Bool.or_eq_true, Bool.and_eq_true, List.all_eq_true] at h
    rcases h with (⟨hb, -⟩ | ⟨hb, h⟩) | ⟨hb, h⟩
    · obtain ⟨f1, f2, f3, f4, f5⟩ := (class_facts b).1 hb
      simp [number, f3, f4, f5, udecimal_nondigit b tl f1 f2]
    · have h35 : b ≠ 35 := by rcases hb with hb | hb <;> (simp at hb; subst hb; decide)
      have hsign : (b == 45 || b == 43) = true := by
        rcases hb with hb | hb <;> simp [hb]
      have hbody : udecimal tl = none := by
        cases tl with
        | nil => exact udecimal_nil
        | cons c r =>
          simp only [Bool.or_eq_true, Bool.and_eq_true, List.all_eq_true] at h
          rcases h with ⟨hc, -⟩ | ⟨hc, h⟩
          · obtain ⟨g1, g2⟩ := (class_facts c).2.1 hc
            exact udecimal_nondigit c r g1 g2
          · simp at hc; subst hc
            apply udecimal_dot_nondigit
            intro d r' e
            subst e
            simp only [Bool.and_eq_true] at h
            exact (class_facts d).2.2 h.1
      simp [number, h35, hsign, hbody]
    · simp at hb; subst hb
      have hbody : udecimal (46 :: tl) = none := by
        apply udecimal_dot_nondigit
        intro d r e
        subst e
        simp only [Bool.and_eq_true] at h
        exact (class_facts d).2.2 h.1
      simp [number, hbody]

theorem asc_t : asc "#t" = [35, 116] := by decide
theorem asc_true : asc "#true" = [35, 116, 114, 117, 101] := by decide
theorem asc_f : asc "#f" = [35, 102] := by decide
theorem asc_false : asc "#false" = [35, 102, 97, 108, 115, 101] := by decide
theorem asc_hnil : asc "#nil" = [35, 110, 105, 108] := by decide
theorem asc_hcolon : asc "#:" = [35, 58] := by decide

/-- an atom that does not start with `#` is a number or an identifier -/
theorem atomValue_nohash (alpha : Nat → Bool) (x : UInt8) (xs : List UInt8) (h : x ≠ 35) :
    atomValue alpha (x :: xs) =
      match number (x :: xs) with
      | some n => some (.number n)
      | none => if isIdentifier alpha (x :: xs) then some (.symbol (x :: xs)) else none := by
  simp [atomValue, asc_t, asc_true, asc_f, asc_false, asc_hnil, asc_hcolon, h]
  rfl

theorem text_symbol (ryu : Nat → List UInt8) (n : List UInt8) : text po ryu (.symbol n) = n := by
  simp [text, emits, atomEmits, flatten_cons_all, flatten_nil]

theorem text_keyword (ryu : Nat → List UInt8) (n : List UInt8) :
    text po ryu (.keyword n) = 35 :: 58 :: n := by
  simp [text, emits, atomEmits, keywordEmits, po, Print.Options.default, flatten_cons_all,
    flatten_nil, asc_hcolon]

theorem identifier_shape {alpha : Nat → Bool} {n : List UInt8} (h : isIdentifier alpha n = true) :
    identShape n = true := by
  simp only [isIdentifier, Bool.and_eq_true] at h
  exact h.1.1

theorem reads_symbol (alpha : Nat → Bool) (ryu : Nat → List UInt8) (n : List UInt8)
    (h : isIdentifier alpha n = true) :
    ReadsAs lexeme (classify alpha) (text po ryu (.symbol n)) (.symbol n) := by
  rw [text_symbol]
  have hs := identifier_shape h
  have hall := identShape_all n hs
  cases n with
  | nil => simp [identShape] at hs
  | cons x xs =>
    obtain ⟨-, q1, q2, q3, q4⟩ := subsequent_facts x (hall x (by simp))
    refine readsAs_atom alpha x xs _ (fun b hb => (subsequent_facts b (hall b hb)).1) ⟨q1, q2, q3⟩
      (fun e => absurd e q4) ?_
    have h46 : (x :: xs == [46]) = false := by
      cases xs with
      | nil =>
        have : x ≠ 46 := by
          rintro rfl
          simp [identShape] at hs
          exact absurd hs (by decide)
        simpa using this
      | cons => simp
    simp only [classify, h46, Bool.false_eq_true, if_false, atomValue_nohash alpha x xs q4,
      number_ident _ hs, h, if_true]
    rfl

theorem reads_keyword (alpha : Nat → Bool) (ryu : Nat → List UInt8) (n : List UInt8)
    (h : isIdentifier alpha n = true) :
    ReadsAs lexeme (classify alpha) (text po ryu (.keyword n)) (.keyword n) := by
  rw [text_keyword]
  have hs := identifier_shape h
  have hall := identShape_all n hs
  cases n with
  | nil => simp [identShape] at hs
  | cons x xs =>
    refine readsAs_atom alpha 35 (58 :: x :: xs) _ ?_ (by decide)
      (fun _ => ⟨58, _, rfl, by decide, by decide, by decide⟩) ?_
    · intro b hb
      rcases List.mem_cons.mp hb with rfl | hb
      · decide
      · rcases List.mem_cons.mp hb with rfl | hb
        · decide
        · exact (subsequent_facts b (hall b hb)).1
    · simp [classify, atomValue, asc_t, asc_true, asc_f, asc_false, asc_hnil, asc_hcolon, h]

/-! ## 5. Characters -/

theorem atomLen_follow (rest : List UInt8) (hf : Follow rest) : atomLen rest = 0 := by
  simpa using atomLen_append [] rest (by simp) hf

theorem printable_facts : ∀ c, c < 127 → 32 ≤ c →
    UInt8.ofNat c < 0x80 ∧ (UInt8.ofNat c).toNat = c ∧ Utf8.encode c = [UInt8.ofNat c] ∧
    (UInt8.ofNat c == 40) = (c == 40) := by
  decide

theorem lexeme_char_printable (c : Nat) (hp : 32 ≤ c ∧ c < 127) (rest : List UInt8)
    (hf : Follow rest) :
    lexeme (35 :: [92, UInt8.ofNat c] ++ rest) = some (some (.chr c []), 3) := by
  obtain ⟨p1, p2, p3, -⟩ := printable_facts c hp.2 hp.1
  simp [lexeme, isWhite, asc_hp, asc_u8, asc_vu8, asc_hb, Utf8.decodeFirst, p1, p2, p3,
    atomLen_follow rest hf]

theorem hexDigit_facts : ∀ d, d < 16 →
    digitVal 16 (hexDigitLower d) = some d ∧ isDelim (hexDigitLower d) = false := by
  decide

theorem natHexLower_facts (c : Nat) :
    natHexLower c ≠ [] ∧
    (∀ b ∈ natHexLower c, (digitVal 16 b).isSome = true ∧ isDelim b = false) ∧
    (natHexLower c).foldl (fun a d => a * 16 + (digitVal 16 d).getD 0) 0 = c := by
  induction c using Nat.strongRecOn with
  | _ c ih =>
    by_cases h : c < 16
    · obtain ⟨h1, h2⟩ := hexDigit_facts c h
      rw [Parse.natHexLower_lt h]
      simp [h1, h2]
    · have h16 : c % 16 < 16 := Nat.mod_lt _ (by omega)
      obtain ⟨h1, h2⟩ := hexDigit_facts (c % 16) h16
      obtain ⟨i1, i2, i3⟩ := ih (c / 16) (by omega)
      rw [Parse.natHexLower_ge (Nat.not_lt.mp h)]
      refine ⟨by simp, ?_, ?_⟩
      · intro b hb
        rcases List.mem_append.mp hb with hb | hb
        · exact i2 b hb
        · simp at hb; subst hb; simp [h1, h2]
      · rw [List.foldl_append, i3]
        simp [h1]
        omega

theorem digitsVal_hex (c : Nat) : digitsVal 16 (natHexLower c) = some c := by
  obtain ⟨h1, h2, h3⟩ := natHexLower_facts c
  have ha : (natHexLower c).all (fun d => (digitVal 16 d).isSome) = true := by
    simp only [List.all_eq_true]; exact fun b hb => (h2 b hb).1
  have hne : (natHexLower c).isEmpty = false := by
    cases hx : natHexLower c with
    | nil => exact absurd hx h1
    | cons => rfl
  simp [digitsVal, ha, hne, h3]

theorem lexeme_char_hex (c : Nat) (rest : List UInt8) (hf : Follow rest) :
    lexeme (35 :: (92 :: 120 :: natHexLower c) ++ rest) =
      some (some (.chr 120 (natHexLower c)), (92 :: 120 :: natHexLower c).length + 1) := by
  obtain ⟨-, h2, -⟩ := natHexLower_facts c
  have hl := atomLen_append (natHexLower c) rest (fun b hb => (h2 b hb).2) hf
  have e : Utf8.encode 120 = [120] := by decide
  simp [lexeme, isWhite, asc_hp, asc_u8, asc_vu8, asc_hb, Utf8.decodeFirst, hl, e]
  omega

theorem asc_hbx : asc "#\\x" = [35, 92, 120] := by decide

theorem text_char (ryu : Nat → List UInt8) (c : Nat) : text po ryu (.char c) = schemeChar c := by
  simp [text, emits, atomEmits, charText, po, Print.Options.default, flatten_cons_all, flatten_nil]

theorem reads_char (alpha : Nat → Bool) (ryu : Nat → List UInt8) (c : Nat)
    (h : isScalar c = true) :
    ReadsAs lexeme (classify alpha) (text po ryu (.char c)) (.char c) := by
  rw [text_char]
  unfold schemeChar
  split
  · rename_i hp
    exact readsAs_datum lexeme (classify alpha) 35 [92, UInt8.ofNat c] (.chr c []) _
      (fun rest hf => lexeme_char_printable c hp rest hf) rfl
  · rw [asc_hbx]
    refine readsAs_datum lexeme (classify alpha) 35 (92 :: 120 :: natHexLower c)
      (.chr 120 (natHexLower c)) _ (fun rest hf => lexeme_char_hex c rest hf) ?_
    have hne : (natHexLower c).isEmpty = false := by
      cases hx : natHexLower c with
      | nil => exact absurd hx (natHexLower_facts c).1
      | cons => rfl
    simp [classify, charValue, hne, digitsVal_hex, h]

/-! ## 6. Strings -/

/-- one escaped byte of a string body: a piece for `strLen` and one element for `strElement` -/
def Piece (b : UInt8) (p : List UInt8) : Prop :=
  ∃ x xs, p = x :: xs ∧
    (∀ rest, strLen (x :: xs ++ rest) = (strLen rest).map (· + (xs.length + 1))) ∧
    (∀ rest, strElement (x :: xs ++ rest) = some ([b], xs.length + 1))

theorem plain_facts : ∀ b : UInt8, escClass b = .none → (b == 34) = false ∧ (b == 92) = false := by
  apply forall_u8; decide +kernel

theorem control_facts : ∀ b : UInt8, escClass b = .control →
    let h1 := hexDigitUpper (b.toNat / 16); let h2 := hexDigitUpper (b.toNat % 16)
    (h1 == 34) = false ∧ (h1 == 92) = false ∧ (h2 == 34) = false ∧ (h2 == 92) = false ∧
    (h1 != 59) = true ∧ (h2 != 59) = true ∧ digitsVal 16 [h1, h2] = some b.toNat ∧
    isScalar b.toNat = true ∧ Utf8.encode b.toNat = [b] := by
  apply forall_u8; decide +kernel

theorem class_byte : ∀ b : UInt8,
    (escClass b = .quote → b = 34) ∧ (escClass b = .reverseSolidus → b = 92) ∧
    (escClass b = .alert → b = 7) ∧ (escClass b = .backspace → b = 8) ∧
    (escClass b = .tab → b = 9) ∧ (escClass b = .lineFeed → b = 10) ∧
    (escClass b = .carriageReturn → b = 13) := by
  apply forall_u8; decide +kernel

theorem map_add_map (o : Option Nat) (a b : Nat) : (o.map (· + a)).map (· + b) = o.map (· + (a + b)) := by
  cases o <;> simp [Nat.add_assoc]

theorem strLen_cons (b : UInt8) (rest : List UInt8) : strLen (b :: rest) =
    if b == 34 then some 0
    else if b == 92 then
      match rest with
      | [] => none
      | _ :: bs' => (strLen bs').map (· + 2)
    else (strLen rest).map (· + 1) := by
  cases rest <;> simp [strLen]

theorem strLen_plain (b : UInt8) (rest : List UInt8) (h1 : (b == 34) = false) (h2 : (b == 92) = false) :
    strLen (b :: rest) = (strLen rest).map (· + 1) := by
  rw [strLen_cons]; simp [h1, h2]

theorem strLen_esc (e : UInt8) (rest : List UInt8) :
    strLen (92 :: e :: rest) = (strLen rest).map (· + 2) := by
  rw [strLen_cons]; simp

theorem takeWhile_hex2 (a b : UInt8) (rest : List UInt8) (ha : (a != 59) = true)
    (hb : (b != 59) = true) : (a :: b :: 59 :: rest).takeWhile (· != 59) = [a, b] := by
  simp [ha, hb]

/-- a backslash and one more byte -/
theorem piece_two (b e : UInt8) (he : (e == 120) = false) (hl : strEscapes.lookup e = some b) :
    Piece b [92, e] := by
  refine ⟨92, [e], rfl, ?_, ?_⟩
  · intro rest
    exact strLen_esc e rest
  · intro rest
    simp [strElement, he, hl]

theorem piece_escape (b : UInt8) : Piece b (escapeText .r6rs b (escClass b)) := by
  obtain ⟨c1, c2, c3, c4, c5, c6, c7⟩ := class_byte b
  cases h : escClass b with
  | none =>
    obtain ⟨h1, h2⟩ := plain_facts b h
    have h2' : b ≠ 92 := by simpa using h2
    refine ⟨b, [], rfl, ?_, ?_⟩
    · intro rest; exact strLen_plain b rest h1 h2
    · intro rest; simp [strElement, h2']
  | quote => rw [c1 h]; exact piece_two 34 34 (by decide) (by decide)
  | reverseSolidus => rw [c2 h]; exact piece_two 92 92 (by decide) (by decide)
  | alert => rw [c3 h]; exact piece_two 7 97 (by decide) (by decide)
  | backspace => rw [c4 h]; exact piece_two 8 98 (by decide) (by decide)
  | tab => rw [c5 h]; exact piece_two 9 116 (by decide) (by decide)
  | lineFeed => rw [c6 h]; exact piece_two 10 110 (by decide) (by decide)
  | carriageReturn => rw [c7 h]; exact piece_two 13 114 (by decide) (by decide)
  | control =>
    obtain ⟨g1, g2, g3, g4, g5, g6, g7, g8, g9⟩ := control_facts b h
    refine ⟨92, [120, hexDigitUpper (b.toNat / 16), hexDigitUpper (b.toNat % 16), 59], rfl, ?_, ?_⟩
    · intro rest
      show strLen (92 :: 120 :: hexDigitUpper (b.toNat / 16) :: hexDigitUpper (b.toNat % 16) :: 59 :: rest) = _
      rw [strLen_esc, strLen_plain _ _ g1 g2, strLen_plain _ _ g3 g4,
        strLen_plain 59 rest (by decide) (by decide), map_add_map, map_add_map, map_add_map]
      rfl
    · intro rest
      show strElement (92 :: 120 :: hexDigitUpper (b.toNat / 16) :: hexDigitUpper (b.toNat % 16) :: 59 :: rest) = _
      simp [strElement, takeWhile_hex2 _ _ rest g5 g6, g7, g8, g9]

theorem escapeStr_cons (b : UInt8) (bs : List UInt8) :
    escapeStr .r6rs (b :: bs) = escapeText .r6rs b (escClass b) ++ escapeStr .r6rs bs := by
  simp [escapeStr]

theorem strLen_escapeStr (s rest : List UInt8) :
    strLen (escapeStr .r6rs s ++ 34 :: rest) = some (escapeStr .r6rs s).length := by
  induction s with
  | nil => rw [show escapeStr .r6rs [] = [] from rfl, List.nil_append, strLen_cons]; rfl
  | cons b bs ih =>
    obtain ⟨x, xs, hp, h1, -⟩ := piece_escape b
    rw [escapeStr_cons, hp, List.append_assoc, h1, ih]
    simp; omega

theorem chunks_escapeStr (s : List UInt8) :
    chunks strElement 0 (escapeStr .r6rs s) = some (s.map fun b => [b]) := by
  induction s with
  | nil => rfl
  | cons b bs ih =>
    obtain ⟨x, xs, hp, -, h2⟩ := piece_escape b
    rw [escapeStr_cons, hp, chunks_one strElement x xs _ _ (h2 _), ih]
    rfl

theorem flatten_singletons (s : List UInt8) : (s.map fun b => [b]).flatten = s := by
  induction s with
  | nil => rfl
  | cons b bs ih => simp [ih]

theorem text_string (ryu : Nat → List UInt8) (s : List UInt8) :
    text po ryu (.string s) = 34 :: (escapeStr .r6rs s ++ [34]) := by
  have hq : asc "\"" = [34] := by decide
  simp [text, emits, atomEmits, po, Print.Options.default, flatten_cons_all, flatten_nil, hq]

theorem lexeme_string (body rest : List UInt8) (h : strLen (body ++ 34 :: rest) = some body.length) :
    lexeme (34 :: (body ++ [34]) ++ rest) = some (some (.str body), (body ++ [34]).length + 1) := by
  have e : body ++ [34] ++ rest = body ++ 34 :: rest := by simp
  simp [lexeme, isWhite, e, h]

theorem reads_string (alpha : Nat → Bool) (ryu : Nat → List UInt8) (s : List UInt8)
    (h : Utf8.valid s = true) :
    ReadsAs lexeme (classify alpha) (text po ryu (.string s)) (.string s) := by
  rw [text_string]
  refine readsAs_datum lexeme (classify alpha) 34 (escapeStr .r6rs s ++ [34]) (.str (escapeStr .r6rs s)) _
    (fun rest _ => lexeme_string _ rest (strLen_escapeStr s rest)) ?_
  simp [classify, strValue, chunks_escapeStr, flatten_singletons, h]

end SpecRT
end Lexpr
