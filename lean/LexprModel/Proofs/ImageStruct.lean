/-
  ImageStruct — the structural round trip of `DialectStructRT.lean` with the requirement on a
  leading dot confined to where it matters.

  `ListRT.AtomOKP` asks of every atom that its text is an `ElemHead`: not starting with `.`
  followed by NUL or a delimiter.  `parse_list` takes such a dot for the dotted-pair marker, but
  only `parse_list` does: a vector element, the tail after ` . `, and a top-level atom are handed
  to `next_value` whatever their second byte is.  Here atoms only need a `WeakHead` (first byte
  not trivia, `;`, `)` or `]`), and `ElemHead` is required of the text of each *car*.
  `seq_cons_rtW`, `tail_dotted_rtW`, `vec_elem_stepW` are the lemmas of `DialectStructRT.lean`
  of the same names (`…P`) with the weaker hypothesis; their proofs never used the dot clause.
-/
import LexprModel.Proofs.ImageAtoms
namespace Lexpr
namespace Parse
namespace Image
open Utf8 Spec Print ListRT

/-- the first byte is one at which `parse_whitespace` stops and an element loop goes on -/
def WeakHead (t : List UInt8) : Prop :=
  ∃ c tl, t = c :: tl ∧ isTrivia c = false ∧ c ≠ 59 ∧ c ≠ 41 ∧ c ≠ 93

theorem ElemHead.weak {t : List UInt8} (h : ElemHead t) : WeakHead t := by
  obtain ⟨c, tl, ht, h1, h2, h3, h4, -⟩ := h
  exact ⟨c, tl, ht, h1, h2, h3, h4⟩

theorem WeakHead.append {t : List UInt8} (h : WeakHead t) (rest : List UInt8) :
    WeakHead (t ++ rest) := by
  obtain ⟨c, tl, ht, h1, h2, h3, h4⟩ := h
  exact ⟨c, tl ++ rest, by simp [ht], h1, h2, h3, h4⟩

theorem weakHead_of_nonterm (c : UInt8) (tl : List UInt8) (h : symTermSlice c = false) :
    WeakHead (c :: tl) := by
  have : isTrivia c = false ∧ c ≠ 59 ∧ c ≠ 41 ∧ c ≠ 93 := by
    simp only [symTermSlice, Bool.or_eq_false_iff, beq_eq_false_iff_ne] at h
    simp only [isTrivia, Bool.or_eq_false_iff, beq_eq_false_iff_ne]
    simp_all
  exact ⟨c, tl, rfl, this.1, this.2.1, this.2.2.1, this.2.2.2⟩

/-- an atom whose printed text is read back in every follow context (no dot clause) -/
abbrev AtomOKW (p : Print.Options) (cfg : Cfg) (ryu : Nat → List UInt8) (v : Value) : Prop :=
  AtomOKH WeakHead p cfg ryu v

theorem AtomOKP.weak {p : Print.Options} {cfg : Cfg} {ryu : Nat → List UInt8} {v : Value}
    (h : AtomOKP p cfg ryu v) : AtomOKW p cfg ryu v :=
  AtomOKH.mono (fun _ ht => ElemHead.weak ht) ((atomOKH_elem p cfg ryu v).mpr h)

/-! ### the hypothesis on a value -/

mutual
/-- every atom is `AtomOKW`, and the text of every car is an `ElemHead` -/
def AllOKW (p : Print.Options) (cfg : Cfg) (ryu : Nat → List UInt8) : Value → Prop
  | .cons a d => AllOKW p cfg ryu a ∧ ElemHead (text p ryu a) ∧ AllOKW p cfg ryu d
  | .vector xs => AllOKWSeq p cfg ryu xs
  | .null => True
  | .nil => AtomOKW p cfg ryu .nil
  | .bool b => AtomOKW p cfg ryu (.bool b)
  | .number n => AtomOKW p cfg ryu (.number n)
  | .char c => AtomOKW p cfg ryu (.char c)
  | .string x => AtomOKW p cfg ryu (.string x)
  | .symbol x => AtomOKW p cfg ryu (.symbol x)
  | .keyword x => AtomOKW p cfg ryu (.keyword x)
  | .bytes x => AtomOKW p cfg ryu (.bytes x)
def AllOKWSeq (p : Print.Options) (cfg : Cfg) (ryu : Nat → List UInt8) : List Value → Prop
  | [] => True
  | x :: xs => AllOKW p cfg ryu x ∧ AllOKWSeq p cfg ryu xs
end

/-! ### the steps with a weak head -/

/-- one round of the vector loop on any element -/
theorem vec_elem_stepW (cfg : Cfg) (t : UInt8) (F : Nat) (s : St)
    (acc : List Value) (a : Value) (w : List Value) (pre tx rest' rest'' : List UInt8)
    (h : Good s) (hpre : pre = [] ∨ pre = [32]) (hr : s.rd.rest = pre ++ (tx ++ rest'))
    (hhead : WeakHead tx)
    (hv : ∀ s1, Good s1 → s1.rd.rest = tx ++ rest' → s1.depth = s.depth →
      Runs (nextValue cfg F) s1 (some a) rest')
    (hk : ∀ s2, Good s2 → s2.rd.rest = rest' → s2.depth = s.depth →
      Runs (parseVector cfg F t (acc ++ [a])) s2 w rest'') :
    Runs (parseVector cfg (F + 1) t acc) s w rest'' := by
  obtain ⟨c, tl, ht, h1, h2, h3, h4⟩ := hhead.append rest'
  rw [ht] at hr hv
  have h2' : (c == 59) = false := by simp [h2]
  have hws : Runs parseWhitespace s (some c) (c :: tl) := by
    rcases hpre with rfl | rfl
    · exact ws_start s h c tl hr h1 h2'
    · exact ws_space s h c tl hr h1 h2'
  exact parseVector_elemP cfg t F s acc c tl rest' rest'' a w hws h3 h4 hv hk

theorem atom_rtW (p : Print.Options) (cfg : Cfg) (ryu : Nat → List UInt8) (v : Value)
    (h : AtomOKW p cfg ryu v) : ValueRTP p cfg ryu v := by
  obtain ⟨h1, h2, h3, _, hrun⟩ := h
  intro s rest fuel hf hg hr hfu hd
  rw [textP_atom p ryu v h1 h2] at hr
  exact hrun s rest fuel hf hg hr (by omega) hd

theorem tail_dotted_rtW (p : Print.Options) (cfg : Cfg) (ryu : Nat → List UInt8) (d : Value)
    (hD : ValueRTP p cfg ryu d) (hhead : WeakHead (text p ryu d)) (h1 : d.isCons = false)
    (h2 : d ≠ .null) (hn : nestingTailP p d = nestingP p d) : TailRTP p cfg ryu d := by
  intro s rest fuel acc hacc hg hr hfu hd
  rw [tailP_dotted p ryu d h1 h2] at hr
  obtain ⟨c, tl, ht, hc1, hc2, -, -⟩ := hhead
  have hr' : s.rd.rest = 32 :: 46 :: 32 :: (c :: (tl ++ 41 :: rest)) := by
    simpa [ht] using hr
  have hlen := congrArg List.length hr'
  simp only [List.length_cons, List.length_append] at hlen
  obtain ⟨F, rfl⟩ : ∃ F, fuel = F + 1 := ⟨fuel - 1, by omega⟩
  refine parseList_dotted cfg F s acc _ rest (fold p cfg.opts d) hg hr' hacc ?_
  intro s1 g1 r1 d1
  obtain ⟨s2, g2, r2, d2, heq⟩ := nextValue_skip cfg s1 g1 c _ r1 hc1 (by simp [hc2])
  obtain ⟨s3, e3, r3, g3, d3⟩ := hD s2 (41 :: rest) F (follow_cons _ _ (by decide)) g2
    (by rw [r2, ht]; simp)
    (by rw [r2]; simp only [List.length_cons, List.length_append]; omega) (by omega)
  exact ⟨s3, (heq F).trans e3, r3, g3, by omega⟩

theorem tail_atom_rtW (p : Print.Options) (cfg : Cfg) (ryu : Nat → List UInt8) (d : Value)
    (h : AtomOKW p cfg ryu d) : TailRTP p cfg ryu d := by
  refine tail_dotted_rtW p cfg ryu d (atom_rtW p cfg ryu d h) ?_ h.1 h.2.2.1
    (nestingP_atom p d h.1 h.2.1 h.2.2.1)
  rw [textP_atom p ryu d h.1 h.2.1]; exact h.2.2.2.1

theorem seq_cons_rtW (p : Print.Options) (cfg : Cfg) (ryu : Nat → List UInt8) (first : Bool)
    (x : Value) (xs : List Value) (hX : ValueRTP p cfg ryu x) (hhead : WeakHead (text p ryu x))
    (hS : SeqRTP p cfg ryu false xs) : SeqRTP p cfg ryu first (x :: xs) := by
  intro s rest fuel acc hg hr hfu hd
  simp only [nestingSeqP] at hd
  rw [foldList_cons]
  cases first with
  | true =>
    rw [seqP_true] at hr
    have hr' : s.rd.rest =
        [] ++ (text p ryu x ++ (flatten (emitsSeq p ryu false xs) ++ vclose p :: rest)) := by
      simpa using hr
    have hlen := congrArg List.length hr'
    simp only [List.length_cons, List.length_append, List.length_nil] at hlen
    simp only [if_true] at hfu
    obtain ⟨F, rfl⟩ : ∃ F, fuel = F + 1 := ⟨fuel - 1, by omega⟩
    refine vec_elem_stepW cfg (vclose p) F s acc (fold p cfg.opts x) _ [] (text p ryu x)
      (flatten (emitsSeq p ryu false xs) ++ vclose p :: rest) (vclose p :: rest) hg (Or.inl rfl)
      hr' hhead ?_ ?_
    · intro s2 g2 r2 d2
      refine hX s2 _ F (seq_followP p ryu xs rest) g2 r2 ?_ (by omega)
      rw [r2]; simp only [List.length_cons, List.length_append]; omega
    · intro s3 g3 r3 d3
      have := hS s3 rest F (acc ++ [fold p cfg.opts x]) g3 r3
        (by rw [r3]; simp only [List.length_cons, List.length_append]; simp; omega) (by omega)
      simpa using this
  | false =>
    rw [seqP_false] at hr
    have hr' : s.rd.rest =
        [32] ++ (text p ryu x ++ (flatten (emitsSeq p ryu false xs) ++ vclose p :: rest)) := by
      simpa using hr
    have hlen := congrArg List.length hr'
    simp only [List.length_cons, List.length_append, List.length_nil] at hlen
    simp at hfu
    obtain ⟨F, rfl⟩ : ∃ F, fuel = F + 1 := ⟨fuel - 1, by omega⟩
    refine vec_elem_stepW cfg (vclose p) F s acc (fold p cfg.opts x) _ [32] (text p ryu x)
      (flatten (emitsSeq p ryu false xs) ++ vclose p :: rest) (vclose p :: rest) hg (Or.inr rfl)
      hr' hhead ?_ ?_
    · intro s2 g2 r2 d2
      refine hX s2 _ F (seq_followP p ryu xs rest) g2 r2 ?_ (by omega)
      rw [r2]; simp only [List.length_cons, List.length_append]; omega
    · intro s3 g3 r3 d3
      have := hS s3 rest F (acc ++ [fold p cfg.opts x]) g3 r3
        (by rw [r3]; simp only [List.length_cons, List.length_append]; simp; omega) (by omega)
      simpa using this

/-- the text of every value with good atoms starts with a byte the loops hand to `next_value` -/
theorem text_headW (p : Print.Options) (cfg : Cfg) (ryu : Nat → List UInt8) (v : Value)
    (h : AllOKW p cfg ryu v) : WeakHead (text p ryu v) := by
  cases v with
  | cons a d =>
    rw [textP_cons]
    exact ⟨40, _, rfl, by decide, by decide, by decide, by decide⟩
  | vector xs => rw [textP_vector]; exact ElemHead.weak (vopen_head p _)
  | null => rw [textP_null]; exact ⟨40, _, rfl, by decide, by decide, by decide, by decide⟩
  | nil => simp only [AllOKW] at h; rw [textP_atom p ryu _ rfl rfl]; exact h.2.2.2.1
  | bool b => simp only [AllOKW] at h; rw [textP_atom p ryu _ rfl rfl]; exact h.2.2.2.1
  | number n => simp only [AllOKW] at h; rw [textP_atom p ryu _ rfl rfl]; exact h.2.2.2.1
  | char c => simp only [AllOKW] at h; rw [textP_atom p ryu _ rfl rfl]; exact h.2.2.2.1
  | string x => simp only [AllOKW] at h; rw [textP_atom p ryu _ rfl rfl]; exact h.2.2.2.1
  | symbol x => simp only [AllOKW] at h; rw [textP_atom p ryu _ rfl rfl]; exact h.2.2.2.1
  | keyword x => simp only [AllOKW] at h; rw [textP_atom p ryu _ rfl rfl]; exact h.2.2.2.1
  | bytes x => simp only [AllOKW] at h; rw [textP_atom p ryu _ rfl rfl]; exact h.2.2.2.1

/-! ### the mutual recursion -/

mutual
theorem value_rtW (p : Print.Options) (cfg : Cfg) (ryu : Nat → List UInt8)
    (hb : p.vector = .brackets → cfg.opts.brackets = .vector) :
    ∀ v : Value, AllOKW p cfg ryu v → ValueRTP p cfg ryu v
  | .cons a d, h => by
    simp only [AllOKW] at h
    exact cons_rtP p cfg ryu a d (value_rtW p cfg ryu hb a h.1) h.2.1 (tail_rtW p cfg ryu hb d h.2.2)
  | .vector xs, h => by
    simp only [AllOKW] at h
    exact vector_rtP p cfg ryu xs hb (seq_rtW p cfg ryu hb true xs h)
  | .null, _ => null_rtP p cfg ryu
  | .nil, h => by simp only [AllOKW] at h; exact atom_rtW p cfg ryu _ h
  | .bool _, h => by simp only [AllOKW] at h; exact atom_rtW p cfg ryu _ h
  | .number _, h => by simp only [AllOKW] at h; exact atom_rtW p cfg ryu _ h
  | .char _, h => by simp only [AllOKW] at h; exact atom_rtW p cfg ryu _ h
  | .string _, h => by simp only [AllOKW] at h; exact atom_rtW p cfg ryu _ h
  | .symbol _, h => by simp only [AllOKW] at h; exact atom_rtW p cfg ryu _ h
  | .keyword _, h => by simp only [AllOKW] at h; exact atom_rtW p cfg ryu _ h
  | .bytes _, h => by simp only [AllOKW] at h; exact atom_rtW p cfg ryu _ h
theorem tail_rtW (p : Print.Options) (cfg : Cfg) (ryu : Nat → List UInt8)
    (hb : p.vector = .brackets → cfg.opts.brackets = .vector) :
    ∀ d : Value, AllOKW p cfg ryu d → TailRTP p cfg ryu d
  | .cons a d, h => by
    simp only [AllOKW] at h
    exact tail_cons_rtP p cfg ryu a d (value_rtW p cfg ryu hb a h.1) h.2.1
      (tail_rtW p cfg ryu hb d h.2.2)
  | .vector xs, h => by
    have hh := text_headW p cfg ryu (.vector xs) h
    simp only [AllOKW] at h
    exact tail_dotted_rtW p cfg ryu (.vector xs)
      (vector_rtP p cfg ryu xs hb (seq_rtW p cfg ryu hb true xs h)) hh rfl (by simp)
      (by simp [nestingP, nestingTailP])
  | .null, _ => tail_null_rtP p cfg ryu
  | .nil, h => by simp only [AllOKW] at h; exact tail_atom_rtW p cfg ryu _ h
  | .bool _, h => by simp only [AllOKW] at h; exact tail_atom_rtW p cfg ryu _ h
  | .number _, h => by simp only [AllOKW] at h; exact tail_atom_rtW p cfg ryu _ h
  | .char _, h => by simp only [AllOKW] at h; exact tail_atom_rtW p cfg ryu _ h
  | .string _, h => by simp only [AllOKW] at h; exact tail_atom_rtW p cfg ryu _ h
  | .symbol _, h => by simp only [AllOKW] at h; exact tail_atom_rtW p cfg ryu _ h
  | .keyword _, h => by simp only [AllOKW] at h; exact tail_atom_rtW p cfg ryu _ h
  | .bytes _, h => by simp only [AllOKW] at h; exact tail_atom_rtW p cfg ryu _ h
theorem seq_rtW (p : Print.Options) (cfg : Cfg) (ryu : Nat → List UInt8)
    (hb : p.vector = .brackets → cfg.opts.brackets = .vector) :
    ∀ (first : Bool) (xs : List Value), AllOKWSeq p cfg ryu xs → SeqRTP p cfg ryu first xs
  | first, [], _ => seq_nil_rtP p cfg ryu first
  | first, x :: xs, h => by
    simp only [AllOKWSeq] at h
    exact seq_cons_rtW p cfg ryu first x xs (value_rtW p cfg ryu hb x h.1)
      (text_headW p cfg ryu x h.1) (seq_rtW p cfg ryu hb false xs h.2)
end

end Image
end Parse
end Lexpr
