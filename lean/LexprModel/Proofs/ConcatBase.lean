/-
  ConcatBase — facts about call histories that only need `Parse.lean`: the three value calls, the
  states after each call of a history (`runStates`), and the passage from a history that ends
  with the first end-of-input item to `iterate`.  Used by `Concat.lean`, `ConcatDatum.lean` and
  `ConcatSources.lean`.
-/
import LexprModel.Parse
namespace Lexpr
namespace Parse
namespace Concat

/-- the three ways of asking a parser for the next value (`Parser::next_value`,
    `value_iter().next()`, `Iterator::next`) -/
def ValueOp (op : Op) : Prop := op = .nextValue ∨ op = .valueIterNext ∨ op = .parserNext

theorem stepOp_value (cfg : Cfg) (op : Op) (hop : ValueOp op) (s s' : St) (v : Value)
    (h : nextValueTop cfg s = .ok (some v) s') : stepOp cfg op s = (.value v, some s') := by
  rcases hop with rfl | rfl | rfl <;> simp [stepOp, h]

theorem stepOp_none (cfg : Cfg) (op : Op) (hop : ValueOp op) (s s' : St)
    (h : nextValueTop cfg s = .ok none s') : stepOp cfg op s = (.none_, some s') := by
  rcases hop with rfl | rfl | rfl <;> simp [stepOp, h]

/-- The parser states after each call of a history (an observation added here: `runHistory`
    only reports the items). -/
def runStates (cfg : Cfg) : List Op → St → List St
  | [], _ => []
  | op :: ops, s =>
    match stepOp cfg op s with
    | (_, some s') => s' :: runStates cfg ops s'
    | (_, none) => []

/-- what is observed of a state: the unread input and the depth budget -/
def obs (s : St) : List UInt8 × Nat := (s.rd.rest, s.depth)

/-- From a history that ends with the first end-of-input item to `iterate`. -/
theorem iterate_of_runHistory (cfg : Cfg) (op : Op) (its : List Item) :
    ∀ (s : St) (cap : Nat), (∀ it ∈ its, it ≠ .none_) →
      runHistory cfg (List.replicate (its.length + 1) op) s = its ++ [.none_] →
      its.length + 1 ≤ cap → iterate cfg op cap s = its ++ [.none_] := by
  induction its with
  | nil =>
    intro s cap _ h hcap
    obtain ⟨c, rfl⟩ : ∃ c, cap = c + 1 := ⟨cap - 1, by omega⟩
    have h' : runHistory cfg [op] s = [.none_] := h
    unfold runHistory at h'
    unfold iterate
    rcases hs : stepOp cfg op s with ⟨it, _ | s'⟩
    · rw [hs] at h'
      simp only [List.cons.injEq, and_true] at h'
      subst h'
      rfl
    · rw [hs] at h'
      simp only [runHistory, List.cons.injEq, and_true] at h'
      subst h'
      rfl
  | cons i its ih =>
    intro s cap hne h hcap
    obtain ⟨c, rfl⟩ : ∃ c, cap = c + 1 := ⟨cap - 1, by omega⟩
    have hi : i ≠ .none_ := hne i (by simp)
    have h' : runHistory cfg (op :: List.replicate (its.length + 1) op) s =
        i :: (its ++ [.none_]) := h
    unfold runHistory at h'
    unfold iterate
    rcases hs : stepOp cfg op s with ⟨it, _ | s'⟩
    · rw [hs] at h'
      simp only [List.cons.injEq] at h'
      exact absurd h'.2 (by simp)
    · rw [hs] at h'
      simp only [List.cons.injEq] at h'
      obtain ⟨rfl, h'⟩ := h'
      have ih' := ih s' c (fun x hx => hne x (by simp [hx])) h'
        (by simp only [List.length_cons] at hcap; omega)
      cases it <;> first | exact absurd rfl hi | simp [ih']

/-! ### a Boolean check of returned items (for examples and witnesses proved by evaluation) -/

mutual
/-- structural equality of values, as a Boolean (`Value` has no `DecidableEq` instance) -/
def veq : Value → Value → Bool
  | .nil, .nil => true
  | .null, .null => true
  | .bool a, .bool b => a == b
  | .number a, .number b => decide (a = b)
  | .char a, .char b => a == b
  | .string a, .string b => a == b
  | .symbol a, .symbol b => a == b
  | .keyword a, .keyword b => a == b
  | .bytes a, .bytes b => a == b
  | .cons a d, .cons a' d' => veq a a' && veq d d'
  | .vector xs, .vector ys => veqList xs ys
  | _, _ => false
def veqList : List Value → List Value → Bool
  | [], [] => true
  | x :: xs, y :: ys => veq x y && veqList xs ys
  | _, _ => false
end

mutual
theorem veq_sound : ∀ a b : Value, veq a b = true → a = b
  | .cons a d, b, h => by
    cases b <;> simp only [veq, Bool.and_eq_true, Bool.false_eq_true] at h
    rw [veq_sound a _ h.1, veq_sound d _ h.2]
  | .vector xs, b, h => by
    cases b <;> simp only [veq, Bool.false_eq_true] at h
    rw [veqList_sound xs _ h]
  | .nil, b, h => by cases b <;> simp_all [veq]
  | .null, b, h => by cases b <;> simp_all [veq]
  | .bool _, b, h => by cases b <;> simp_all [veq]
  | .number _, b, h => by cases b <;> simp_all [veq]
  | .char _, b, h => by cases b <;> simp_all [veq]
  | .string _, b, h => by cases b <;> simp_all [veq]
  | .symbol _, b, h => by cases b <;> simp_all [veq]
  | .keyword _, b, h => by cases b <;> simp_all [veq]
  | .bytes _, b, h => by cases b <;> simp_all [veq]
theorem veqList_sound : ∀ xs ys : List Value, veqList xs ys = true → xs = ys
  | [], ys, h => by cases ys <;> simp_all [veqList]
  | x :: xs, ys, h => by
    cases ys with
    | nil => simp [veqList] at h
    | cons y ys =>
      simp only [veqList, Bool.and_eq_true] at h
      rw [veq_sound x y h.1, veqList_sound xs ys h.2]
end

/-- Are the items exactly these values (`some v`) and end-of-input marks (`none`)? -/
def itemsAre : List Item → List (Option Value) → Bool
  | [], [] => true
  | .value w :: is, some v :: es => veq w v && itemsAre is es
  | .none_ :: is, none :: es => itemsAre is es
  | _, _ => false

/-- the item an expectation stands for -/
def expItem : Option Value → Item
  | some v => .value v
  | none => .none_

theorem itemsAre_sound : ∀ (its : List Item) (es : List (Option Value)),
    itemsAre its es = true → its = es.map expItem
  | [], [], _ => rfl
  | [], _ :: _, h => by simp [itemsAre] at h
  | i :: is, [], h => by cases i <;> simp [itemsAre] at h
  | i :: is, e :: es, h => by
    cases i <;> cases e <;> simp only [itemsAre, Bool.and_eq_true, Bool.false_eq_true] at h
    · rw [veq_sound _ _ h.1, itemsAre_sound is es h.2]; rfl
    · rw [itemsAre_sound is es h]; rfl

end Concat
end Parse
end Lexpr
