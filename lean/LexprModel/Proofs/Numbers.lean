/-
  Numeric literals (property C05): the `overflow!` macro, exactness of integer → double
  conversion, `mulPos` / `divPos` as one correctly rounded operation, the fast path of
  `f64_from_parts`, integer literals, and "never infinity / NaN".
-/
import LexprModel.Lex
import LexprModel.Generated.Tables
namespace Lexpr
namespace Numbers
open Parse F64

/-! ## 1. The `overflow!` macro -/

theorem overflow_true_imp {a r b c : Nat} (hr : 0 < r) (h : overflow a r b c = true) :
    a * r + b > c := by
  have hc := Nat.div_add_mod c r
  have hm := Nat.mod_lt c hr
  simp only [overflow, Bool.and_eq_true, Bool.or_eq_true, decide_eq_true_eq] at h
  obtain ⟨h1, h2⟩ := h
  rcases h2 with h2 | h2
  · have : (c / r + 1) * r ≤ a * r := Nat.mul_le_mul_right r h2
    have e : (c / r + 1) * r = r * (c / r) + r := by grind
    omega
  · have : (c / r) * r ≤ a * r := Nat.mul_le_mul_right r h1
    have e : (c / r) * r = r * (c / r) := Nat.mul_comm _ _
    omega

theorem overflow_spec {a r b c : Nat} (hr : 0 < r) (hb : b < r) :
    overflow a r b c = true ↔ a * r + b > c := by
  refine ⟨overflow_true_imp hr, fun h => ?_⟩
  have hc := Nat.div_add_mod c r
  have hm := Nat.mod_lt c hr
  simp only [overflow, Bool.and_eq_true, Bool.or_eq_true, decide_eq_true_eq]
  rcases Nat.lt_trichotomy a (c / r) with h1 | h1 | h1
  · exfalso
    have : (a + 1) * r ≤ (c / r) * r := Nat.mul_le_mul_right r h1
    have e : (a + 1) * r = a * r + r := by grind
    have e2 : (c / r) * r = r * (c / r) := Nat.mul_comm _ _
    omega
  · subst h1
    have e2 : (c / r) * r = r * (c / r) := Nat.mul_comm _ _
    omega
  · omega

/-- without `b < r` the macro is only sound, not complete -/
example : overflow 0 10 100 50 = false ∧ 0 * 10 + 100 > 50 := by decide

theorem overflow_false_iff {a r b c : Nat} (hr : 0 < r) (hb : b < r) :
    overflow a r b c = false ↔ a * r + b ≤ c := by
  have := overflow_spec (a := a) (c := c) hr hb
  cases h : overflow a r b c <;> simp [h] at this ⊢ <;> omega

/-! ## 2. `ilog2`, `rne`, `rn`: specification and scale invariance -/

/-- `2^e ≤ n/d < 2^(e+1)`, cross-multiplied so that it lives in `Nat`. -/
def Bracket (n d : Nat) (e : Int) : Prop :=
  d * 2 ^ e.toNat ≤ n * 2 ^ (-e).toNat ∧ n * 2 ^ (-e).toNat < 2 * (d * 2 ^ e.toNat)

section helpers
variable {n d a b k : Nat}

theorem br1 (hn2 : n < 2 ^ (a + 1)) (hd1 : 2 ^ b ≤ d) (e : a = b + k) (h : ¬ n < d * 2 ^ k) :
    d * 2 ^ k ≤ n ∧ n < 2 * (d * 2 ^ k) := by
  subst e
  have e1 : 2 ^ (b + k + 1) = 2 * (2 ^ b * 2 ^ k) := by rw [Nat.pow_succ, Nat.pow_add]; grind
  have := Nat.mul_le_mul_right (2 ^ k) hd1
  omega

theorem br2 (hn1 : 2 ^ a ≤ n) (hd2 : d < 2 ^ (b + 1)) (e : a = b + k + 1) (h : n < d * 2 ^ (k + 1)) :
    d * 2 ^ k ≤ n ∧ n < 2 * (d * 2 ^ k) := by
  subst e
  have e1 : 2 ^ (b + k + 1) = 2 ^ (b + 1) * 2 ^ k := by rw [← Nat.pow_add]; congr 1; omega
  have e2 : d * 2 ^ (k + 1) = 2 * (d * 2 ^ k) := by rw [Nat.pow_succ]; grind
  have := Nat.mul_le_mul_right (2 ^ k) (Nat.le_of_lt hd2)
  omega

theorem br3 (hn1 : 2 ^ a ≤ n) (hd2 : d < 2 ^ (a + 1)) (h : n < d) :
    d ≤ n * 2 ∧ n * 2 < 2 * d := by
  rw [Nat.pow_succ] at hd2; omega

theorem br4 (hn2 : n < 2 ^ (a + 1)) (hd1 : 2 ^ b ≤ d) (e : b = a + k) (h : ¬ n * 2 ^ k < d) :
    d ≤ n * 2 ^ k ∧ n * 2 ^ k < 2 * d := by
  subst e
  have e1 : 2 * 2 ^ (a + k) = 2 ^ (a + 1) * 2 ^ k := by grind
  have := Nat.mul_lt_mul_of_pos_right hn2 (Nat.two_pow_pos k)
  omega

theorem br5 (hn1 : 2 ^ a ≤ n) (hd2 : d < 2 ^ (b + 1)) (e : b = a + k) (h : n * 2 ^ k < d) :
    d ≤ n * 2 ^ (k + 1) ∧ n * 2 ^ (k + 1) < 2 * d := by
  subst e
  have e1 : 2 ^ (a + k + 1) = 2 ^ a * 2 ^ (k + 1) := by rw [← Nat.pow_add]; congr 1
  have e2 : n * 2 ^ (k + 1) = 2 * (n * 2 ^ k) := by rw [Nat.pow_succ]; grind
  have := Nat.mul_le_mul_right (2 ^ (k + 1)) hn1
  omega
end helpers

theorem ilog2_spec {n d : Nat} (hn : 0 < n) (hd : 0 < d) : Bracket n d (ilog2 n d) := by
  have hn1 := Nat.log2_self_le (Nat.pos_iff_ne_zero.mp hn)
  have hn2 := @Nat.lt_log2_self n
  have hd1 := Nat.log2_self_le (Nat.pos_iff_ne_zero.mp hd)
  have hd2 := @Nat.lt_log2_self d
  unfold ilog2 Bracket
  generalize Nat.log2 n = a at *
  generalize Nat.log2 d = b at *
  by_cases hab : b ≤ a
  · obtain ⟨k, rfl⟩ := Nat.exists_eq_add_of_le hab
    have he0 : ((b + k : Nat) : Int) - (b : Int) = (k : Int) := by omega
    simp only [he0, Int.natCast_nonneg, ge_iff_le, if_true, Int.toNat_natCast]
    by_cases hlt : n < d * 2 ^ k
    · simp only [hlt, decide_true, if_true]
      cases k with
      | zero =>
        have := br3 hn1 hd2 (by simpa using hlt)
        simpa using this
      | succ k =>
        have := br2 hn1 hd2 (by omega) hlt
        have e1 : ((k + 1 : Nat) : Int) - 1 = (k : Int) := by omega
        have e2 : (-(k : Int)).toNat = 0 := by omega
        simpa [e1, e2] using this
    · simp only [hlt, decide_false, Bool.false_eq_true, if_false, Int.toNat_natCast]
      have := br1 hn2 hd1 rfl hlt
      have e2 : (-(k : Int)).toNat = 0 := by omega
      simpa [e2] using this
  · obtain ⟨k, rfl⟩ := Nat.exists_eq_add_of_le (Nat.le_of_lt (Nat.lt_of_not_le hab))
    have hk : 0 < k := by omega
    have he0 : ((a : Nat) : Int) - ((a + k : Nat) : Int) = -(k : Int) := by omega
    have hneg : ¬ (-(k : Int) ≥ 0) := by omega
    simp only [he0, hneg, if_false, Int.neg_neg, Int.toNat_natCast]
    by_cases hlt : n * 2 ^ k < d
    · simp only [hlt, decide_true, if_true]
      have := br5 hn1 hd2 rfl hlt
      have e1 : (-(k : Int) - 1).toNat = 0 := by omega
      have e2 : (-(-(k : Int) - 1)).toNat = k + 1 := by omega
      simpa [e1, e2] using this
    · simp only [hlt, decide_false, Bool.false_eq_true, if_false]
      have := br4 hn2 hd1 rfl hlt
      have e1 : (-(k : Int)).toNat = 0 := by omega
      simpa [e1] using this

theorem Bracket.not_lt {n d : Nat} {e e' : Int} (_hd : 0 < d) (h : Bracket n d e)
    (h' : Bracket n d e') : ¬ e < e' := by
  intro hlt
  obtain ⟨_, h2⟩ := h
  obtain ⟨h1, _⟩ := h'
  have hA : e'.toNat + (-e).toNat ≥ e.toNat + (-e').toNat + 1 := by omega
  generalize e.toNat = A at *
  generalize (-e).toNat = B at *
  generalize e'.toNat = A' at *
  generalize (-e').toNat = B' at *
  have s1 := Nat.mul_le_mul_right (2 ^ B) h1
  have s2 := Nat.mul_lt_mul_of_pos_right h2 (Nat.two_pow_pos B')
  have e1 : d * 2 ^ A' * 2 ^ B = d * 2 ^ (A' + B) := by rw [Nat.pow_add]; grind
  have e2 : 2 * (d * 2 ^ A) * 2 ^ B' = d * 2 ^ (A + B' + 1) := by
    rw [Nat.pow_succ, Nat.pow_add]; grind
  have e3 : n * 2 ^ B' * 2 ^ B = n * 2 ^ B * 2 ^ B' := by grind
  have s3 : d * 2 ^ (A' + B) < d * 2 ^ (A + B' + 1) := by omega
  have s4 := Nat.lt_of_mul_lt_mul_left s3
  have s5 := (Nat.pow_lt_pow_iff_right (by omega : 1 < 2)).mp s4
  omega

theorem Bracket.unique {n d : Nat} {e e' : Int} (hd : 0 < d) (h : Bracket n d e)
    (h' : Bracket n d e') : e = e' := by
  have := Bracket.not_lt hd h h'
  have := Bracket.not_lt hd h' h
  omega

theorem Bracket.scale {n d : Nat} {e : Int} (c : Nat) (h : Bracket n d e) (hc : 0 < c) :
    Bracket (n * c) (d * c) e := by
  obtain ⟨h1, h2⟩ := h
  unfold Bracket
  generalize e.toNat = A at *
  generalize (-e).toNat = B at *
  have s1 := Nat.mul_le_mul_right c h1
  have s2 := Nat.mul_lt_mul_of_pos_right h2 hc
  have e1 : d * c * 2 ^ A = d * 2 ^ A * c := by grind
  have e2 : n * c * 2 ^ B = n * 2 ^ B * c := by grind
  have e3 : 2 * (d * 2 ^ A) * c = 2 * (d * 2 ^ A * c) := by grind
  omega

theorem ilog2_eq {n d : Nat} {e : Int} (hn : 0 < n) (hd : 0 < d) (h : Bracket n d e) :
    ilog2 n d = e := Bracket.unique hd (ilog2_spec hn hd) h

theorem ilog2_scale {n d c : Nat} (hn : 0 < n) (hd : 0 < d) (hc : 0 < c) :
    ilog2 (n * c) (d * c) = ilog2 n d :=
  ilog2_eq (Nat.mul_pos hn hc) (Nat.mul_pos hd hc) ((ilog2_spec hn hd).scale c hc)

theorem rne_scale {n d c : Nat} (hc : 0 < c) : rne (n * c) (d * c) = rne n d := by
  unfold rne
  simp only [Nat.mul_div_mul_right _ _ hc, Nat.mul_mod_mul_right]
  have e1 : 2 * (n % d * c) = (2 * (n % d)) * c := by grind
  have h1 : (2 * (n % d * c) > d * c) ↔ (2 * (n % d) > d) := by
    rw [e1]; exact Nat.mul_lt_mul_right hc
  have h2 : (2 * (n % d * c) = d * c) ↔ (2 * (n % d) = d) := by
    rw [e1]; exact Nat.mul_left_inj (by omega)
  simp only [h1, h2]

theorem rn_scale {n d c : Nat} (hc : 0 < c) : rn (n * c) (d * c) = rn n d := by
  unfold rn
  by_cases h0 : n = 0 ∨ d = 0
  · have : n * c = 0 ∨ d * c = 0 := by rcases h0 with h | h <;> simp [h]
    simp [h0, this]
  · have hn : 0 < n := by omega
    have hd : 0 < d := by omega
    have : ¬ (n * c = 0 ∨ d * c = 0) := by
      have := Nat.mul_pos hn hc; have := Nat.mul_pos hd hc; omega
    simp only [h0, this, if_false, ilog2_scale hn hd hc]
    have e1 : ∀ k, d * c * 2 ^ k = d * 2 ^ k * c := by intro k; grind
    have e2 : ∀ k, n * c * 2 ^ k = n * 2 ^ k * c := by intro k; grind
    simp only [e1, e2, rne_scale hc]

/-- `rn` depends only on the rational `n / d`. -/
theorem rn_cross {n d n' d' : Nat} (hd : 0 < d) (hd' : 0 < d') (h : n * d' = n' * d) :
    rn n d = rn n' d' := by
  rw [← rn_scale (n := n) (d := d) hd', ← rn_scale (n := n') (d := d') hd, h, Nat.mul_comm d d']

/-! ## 3. Exact conversions; `mulPos` / `divPos` are one rounding -/

theorem decode_bits {E m : Nat} (hE : E ≤ 2045) (hm : m < 2 * two52) (h : E = 0 ∨ two52 ≤ m) :
    decode (E * two52 + m) = (m, (E : Int) - 1074) := by
  unfold decode
  simp only [signBit, two52] at *
  have h1 : (E * 4503599627370496 + m) % 9223372036854775808 = E * 4503599627370496 + m := by omega
  simp only [h1]
  split
  · next h0 => 
    have : E = 0 := by omega
    subst this
    simp; omega
  · next h0 =>
    simp only [Prod.mk.injEq]
    omega

theorem rne_one (n : Nat) : rne n 1 = n := by
  unfold rne; simp [Nat.mod_one]

theorem log2_bracket {n : Nat} (hn : 0 < n) : Bracket n 1 (Nat.log2 n : Int) := by
  have hn1 := Nat.log2_self_le (Nat.pos_iff_ne_zero.mp hn)
  have hn2 := @Nat.lt_log2_self n
  unfold Bracket
  have e2 : (-(Nat.log2 n : Int)).toNat = 0 := by omega
  simp only [Int.toNat_natCast, e2, Nat.pow_zero, Nat.mul_one, Nat.one_mul]
  rw [Nat.pow_succ] at hn2
  omega

theorem rn_small {n : Nat} (hn : 0 < n) (h53 : n < 2 ^ 53) :
    Nat.log2 n ≤ 52 ∧ two52 ≤ n * 2 ^ (52 - Nat.log2 n) ∧ n * 2 ^ (52 - Nat.log2 n) < 2 * two52 ∧
    rn n 1 = (Nat.log2 n + 1022) * two52 + n * 2 ^ (52 - Nat.log2 n) := by
  have hn1 := Nat.log2_self_le (Nat.pos_iff_ne_zero.mp hn)
  have hn2 := @Nat.lt_log2_self n
  have hil := ilog2_eq hn (by omega) (log2_bracket hn)
  generalize Nat.log2 n = L at *
  have hL : L ≤ 52 := by
    have : 2 ^ L < 2 ^ 53 := by omega
    have := (Nat.pow_lt_pow_iff_right (by omega : 1 < 2)).mp this
    omega
  obtain ⟨k, hk⟩ : ∃ k, L + k = 52 := ⟨52 - L, by omega⟩
  have hk' : 52 - L = k := by omega
  have hp : 2 ^ L * 2 ^ k = two52 := by rw [← Nat.pow_add, hk]; rfl
  have hp' : 2 ^ (L + 1) * 2 ^ k = 2 * two52 := by
    rw [← Nat.pow_add]; have : L + 1 + k = 53 := by omega
    rw [this]; rfl
  have b1 := Nat.mul_le_mul_right (2 ^ k) hn1
  have b2 := Nat.mul_lt_mul_of_pos_right hn2 (Nat.two_pow_pos k)
  rw [hk']
  refine ⟨hL, by omega, by omega, ?_⟩
  unfold rn
  have h0 : ¬ (n = 0 ∨ 1 = 0) := by omega
  have h1 : ¬ ((L : Int) < -1022) := by omega
  simp only [h0, if_false, hil, h1]
  have hm : (if (L : Int) - 52 ≥ 0 then rne n (1 * 2 ^ ((L : Int) - 52).toNat)
      else rne (n * 2 ^ (-((L : Int) - 52)).toNat) 1) = n * 2 ^ k := by
    split
    · next hge =>
      have : k = 0 := by omega
      subst this
      have : ((L : Int) - 52).toNat = 0 := by omega
      simp [this, rne_one]
    · next hlt =>
      have : (-((L : Int) - 52)).toNat = k := by omega
      rw [this, rne_one]
  rw [hm]
  have e3 : ((L : Int) + 1022).toNat = L + 1022 := by omega
  rw [e3]
  have : ¬ ((L + 1022) * two52 + n * 2 ^ k ≥ infBits) := by
    simp only [two52, infBits] at *; omega
  simp only [this, if_false]

/-- `bits` is a finite double whose value is exactly the natural number `x`:
    with `(m, p) = decode bits`, `m * 2^p = x`. -/
def Exact (bits x : Nat) : Prop :=
  (decode bits).1 * 2 ^ (decode bits).2.toNat = x * 2 ^ (-(decode bits).2).toNat

theorem exact_iff (bits x : Nat) :
    Exact bits x ↔
      (((decode bits).2 ≥ 0 → (decode bits).1 * 2 ^ (decode bits).2.toNat = x) ∧
       ((decode bits).2 < 0 → (decode bits).1 = x * 2 ^ (-(decode bits).2).toNat)) := by
  unfold Exact
  generalize (decode bits).1 = m
  generalize (decode bits).2 = p
  by_cases hp : p ≥ 0
  · have : (-p).toNat = 0 := by omega
    simp [hp, this]; omega
  · have : p.toNat = 0 := by omega
    simp [hp, this]; omega

theorem decode_rn_small {n : Nat} (hn : 0 < n) (h53 : n < 2 ^ 53) :
    decode (rn n 1) = (n * 2 ^ (52 - Nat.log2 n), (Nat.log2 n : Int) - 52) := by
  obtain ⟨hL, h1, h2, h3⟩ := rn_small hn h53
  rw [h3, decode_bits (by omega) h2 (Or.inr h1)]
  simp only [Prod.mk.injEq, true_and]
  omega

theorem exact_ofNat {n : Nat} (h53 : n < 2 ^ 53) : Exact (rn n 1) n := by
  by_cases hn : n = 0
  · subst hn
    have : decode (rn 0 1) = (0, -1074) := by decide
    simp only [Exact, this, Nat.zero_mul]
  · have hn : 0 < n := by omega
    obtain ⟨hL, _⟩ := rn_small hn h53
    unfold Exact
    rw [decode_rn_small hn h53]
    have e1 : ((Nat.log2 n : Int) - 52).toNat = 0 := by omega
    have e2 : (-((Nat.log2 n : Int) - 52)).toNat = 52 - Nat.log2 n := by omega
    simp [e1, e2]

theorem rnScaled_eq (m : Nat) (p : Int) :
    rnScaled m p = rn (m * 2 ^ p.toNat) (2 ^ (-p).toNat) := by
  unfold rnScaled
  by_cases hp : p ≥ 0
  · have : (-p).toNat = 0 := by omega
    simp [hp, this]
  · have : p.toNat = 0 := by omega
    simp [hp, this]

theorem mulPos_def (a b : Nat) :
    mulPos a b = rnScaled ((decode a).1 * (decode b).1) ((decode a).2 + (decode b).2) := rfl

theorem divPos_def (a b : Nat) :
    divPos a b =
      if (decode a).2 - (decode b).2 ≥ 0 then
        rn ((decode a).1 * 2 ^ ((decode a).2 - (decode b).2).toNat) (decode b).1
      else rn (decode a).1 ((decode b).1 * 2 ^ (-((decode a).2 - (decode b).2)).toNat) := rfl

theorem divPos_eq (a b : Nat) :
    divPos a b = rn ((decode a).1 * 2 ^ ((decode a).2 - (decode b).2).toNat)
      ((decode b).1 * 2 ^ (-((decode a).2 - (decode b).2)).toNat) := by
  rw [divPos_def]
  by_cases hp : (decode a).2 - (decode b).2 ≥ 0
  · have : (-((decode a).2 - (decode b).2)).toNat = 0 := by omega
    rw [if_pos hp, this, Nat.pow_zero, Nat.mul_one]
  · have : ((decode a).2 - (decode b).2).toNat = 0 := by omega
    rw [if_neg hp, this, Nat.pow_zero, Nat.mul_one]

theorem mulPos_exact {a b x y : Nat} (ha : Exact a x) (hb : Exact b y) :
    mulPos a b = rn (x * y) 1 := by
  rw [mulPos_def, rnScaled_eq]
  unfold Exact at ha hb
  generalize (decode a).1 = ma at *
  generalize (decode a).2 = pa at *
  generalize (decode b).1 = mb at *
  generalize (decode b).2 = pb at *
  apply rn_cross (Nat.two_pow_pos _) (by omega)
  have hE : pa.toNat + pb.toNat + (-(pa + pb)).toNat = (-pa).toNat + (-pb).toNat + (pa + pb).toNat := by
    omega
  have hE2 : 2 ^ pa.toNat * 2 ^ pb.toNat * 2 ^ (-(pa + pb)).toNat =
      2 ^ (-pa).toNat * 2 ^ (-pb).toNat * 2 ^ (pa + pb).toNat := by
    rw [← Nat.pow_add, ← Nat.pow_add, ← Nat.pow_add, ← Nat.pow_add, hE]
  have hv : 0 < 2 ^ (-pa).toNat * 2 ^ (-pb).toNat := Nat.mul_pos (Nat.two_pow_pos _) (Nat.two_pow_pos _)
  generalize 2 ^ pa.toNat = u at *
  generalize 2 ^ pb.toNat = u' at *
  generalize 2 ^ (-pa).toNat = v at *
  generalize 2 ^ (-pb).toNat = v' at *
  generalize 2 ^ (pa + pb).toNat = pp at *
  generalize 2 ^ (-(pa + pb)).toNat = pm at *
  apply Nat.eq_of_mul_eq_mul_right hv
  grind

theorem divPos_exact {a b x y : Nat} (ha : Exact a x) (hb : Exact b y) (hy : 0 < y) :
    divPos a b = rn x y := by
  rw [divPos_eq]
  unfold Exact at ha hb
  generalize (decode a).1 = ma at *
  generalize (decode a).2 = pa at *
  generalize (decode b).1 = mb at *
  generalize (decode b).2 = pb at *
  have hmb : 0 < mb := by
    rcases Nat.eq_zero_or_pos mb with h | h
    · subst h
      have := Nat.mul_pos hy (Nat.two_pow_pos (-pb).toNat)
      omega
    · exact h
  apply rn_cross (Nat.mul_pos hmb (Nat.two_pow_pos _)) hy
  have hE : (pa - pb).toNat + (-pa).toNat + pb.toNat = (-(pa - pb)).toNat + pa.toNat + (-pb).toNat := by
    omega
  have hE2 : 2 ^ (pa - pb).toNat * 2 ^ (-pa).toNat * 2 ^ pb.toNat =
      2 ^ (-(pa - pb)).toNat * 2 ^ pa.toNat * 2 ^ (-pb).toNat := by
    rw [← Nat.pow_add, ← Nat.pow_add, ← Nat.pow_add, ← Nat.pow_add, hE]
  have hv : 0 < 2 ^ (-pa).toNat * 2 ^ pb.toNat := Nat.mul_pos (Nat.two_pow_pos _) (Nat.two_pow_pos _)
  generalize 2 ^ pa.toNat = u at *
  generalize 2 ^ pb.toNat = u' at *
  generalize 2 ^ (-pa).toNat = v at *
  generalize 2 ^ (-pb).toNat = v' at *
  generalize 2 ^ (pa - pb).toNat = pp at *
  generalize 2 ^ (-(pa - pb)).toNat = pm at *
  apply Nat.eq_of_mul_eq_mul_right hv
  grind

/-! ## 4. Finiteness of `rn` -/

theorem two_pow_mono {a b : Nat} (h : a ≤ b) : 2 ^ a ≤ 2 ^ b :=
  Nat.pow_le_pow_right (by decide) h

theorem rne_le {n d K : Nat} (hd : 0 < d) (h : n ≤ K * d) : rne n d ≤ K := by
  unfold rne
  have hq : n / d ≤ K := by
    apply Nat.div_le_of_le_mul; rw [Nat.mul_comm]; exact h
  have hdm := Nat.div_add_mod n d
  have hm := Nat.mod_lt n hd
  simp only []
  rcases Nat.lt_or_ge (n / d) K with hlt | hge
  · split
    · omega
    · split
      · split <;> omega
      · omega
  · have hK : n / d = K := by omega
    have : d * (n / d) = K * d := by rw [hK, Nat.mul_comm]
    have hr : n % d = 0 := by omega
    simp only [hr, hK]
    have h1 : ¬ (2 * 0 > d) := by omega
    have h2 : ¬ (2 * 0 = d) := by omega
    simp only [h1, h2, if_false]; omega

/-- `rn` with the exponent made explicit. -/
theorem rn_eq {n d : Nat} (hn : 0 < n) (hd : 0 < d) {e : Int} (he : Bracket n d e) :
    rn n d =
      let ee : Int := if e < -1022 then -1022 else e
      let bits := (ee + 1022).toNat * two52 +
        rne (n * 2 ^ (-(ee - 52)).toNat) (d * 2 ^ (ee - 52).toNat)
      if bits ≥ infBits then infBits else bits := by
  unfold rn
  have h0 : ¬ (n = 0 ∨ d = 0) := by omega
  simp only [h0, if_false, ilog2_eq hn hd he]
  generalize (if e < -1022 then (-1022 : Int) else e) = ee
  by_cases hp : ee - 52 ≥ 0
  · have : (-(ee - 52)).toNat = 0 := by omega
    rw [if_pos hp, this, Nat.pow_zero, Nat.mul_one]
  · have : (ee - 52).toNat = 0 := by omega
    rw [if_neg hp, this, Nat.pow_zero, Nat.mul_one]

theorem rn_le_inf (n d : Nat) : rn n d ≤ infBits := by
  unfold rn
  have key : ∀ x : Nat, (if x ≥ infBits then infBits else x) ≤ infBits := by
    intro x; split <;> omega
  by_cases h0 : n = 0 ∨ d = 0
  · simp [h0]
  · simp only [h0, if_false]; exact key _

/-- the largest finite double, `(2^53 - 1) * 2^971` -/
def maxFin : Nat := (2 ^ 53 - 1) * 2 ^ 971

set_option exponentiation.threshold 2048 in
theorem maxFin_lt : maxFin < 2 ^ 1024 := by
  unfold maxFin
  have : (2 : Nat) ^ 1024 = 2 ^ 53 * 2 ^ 971 := Nat.pow_add 2 53 971
  rw [this]
  have h : (2 : Nat) ^ 53 - 1 < 2 ^ 53 := by decide
  exact Nat.mul_lt_mul_of_pos_right h (Nat.two_pow_pos 971)

/-- the mantissa computed by `rn` is at most `2^53` -/
theorem mant_le {n d : Nat} {e ee : Int} (_hd : 0 < d) (he : Bracket n d e) (hee : e ≤ ee) :
    n * 2 ^ (-(ee - 52)).toNat ≤ 2 ^ 53 * (d * 2 ^ (ee - 52).toNat) := by
  obtain ⟨_, h2⟩ := he
  have hE : e.toNat + (-(ee - 52)).toNat ≤ (-e).toNat + (ee - 52).toNat + 52 := by omega
  generalize e.toNat = A at *
  generalize (-e).toNat = B at *
  generalize (ee - 52).toNat = Pp at *
  generalize (-(ee - 52)).toNat = Pm at *
  have s1 := Nat.mul_lt_mul_of_pos_right h2 (Nat.two_pow_pos Pm)
  have s2 : 2 ^ (A + Pm) ≤ 2 ^ (B + Pp + 52) := Nat.pow_le_pow_right (by omega) hE
  have s3 := Nat.mul_le_mul_left (2 * d) s2
  have e1 : 2 * (d * 2 ^ A) * 2 ^ Pm = 2 * d * 2 ^ (A + Pm) := by rw [Nat.pow_add]; grind
  have e2 : 2 * d * 2 ^ (B + Pp + 52) = 2 ^ 53 * (d * 2 ^ Pp) * 2 ^ B := by
    rw [Nat.pow_add, Nat.pow_add]; grind
  have e3 : n * 2 ^ B * 2 ^ Pm = n * 2 ^ Pm * 2 ^ B := by grind
  have s4 : n * 2 ^ Pm * 2 ^ B < 2 ^ 53 * (d * 2 ^ Pp) * 2 ^ B := by omega
  exact Nat.le_of_lt (Nat.lt_of_mul_lt_mul_right s4)

set_option exponentiation.threshold 2048 in
/-- A quotient not above the largest finite double never rounds to infinity. -/
theorem rn_finite {n d : Nat} (hd : 0 < d) (h : n ≤ maxFin * d) : rn n d < infBits := by
  by_cases hn : n = 0
  · subst hn; simp [rn, infBits]
  have hn : 0 < n := by omega
  have he := ilog2_spec hn hd
  generalize ilog2 n d = e at he
  rw [rn_eq hn hd he]
  -- e ≤ 1023
  have he1023 : e ≤ 1023 := by
    apply Int.not_lt.mp
    intro hgt
    obtain ⟨h1, _⟩ := he
    have hB : (-e).toNat = 0 := by omega
    rw [hB, Nat.pow_zero, Nat.mul_one] at h1
    have h1024 : 1024 ≤ e.toNat := by omega
    have : 2 ^ 1024 ≤ 2 ^ e.toNat := two_pow_mono h1024
    have s1 := Nat.mul_le_mul_left d this
    have s2 := Nat.mul_lt_mul_of_pos_right maxFin_lt hd
    have e1 : d * 2 ^ 1024 = 2 ^ 1024 * d := Nat.mul_comm _ _
    generalize (2 : Nat) ^ 1024 = T at *
    omega
  simp only []
  generalize hee : (if e < -1022 then (-1022 : Int) else e) = ee
  have hee1 : e ≤ ee := by split at hee <;> omega
  have hee2 : -1022 ≤ ee ∧ ee ≤ 1023 := by split at hee <;> omega
  have hm := rne_le (Nat.mul_pos hd (Nat.two_pow_pos _)) (mant_le hd he hee1)
  have hE : (ee + 1022).toNat ≤ 2045 := by omega
  by_cases htop : ee = 1023
  · subst htop
    have e1 : ((1023 : Int) - 52).toNat = 971 := by decide
    have e2 : (-((1023 : Int) - 52)).toNat = 0 := by decide
    have e3 : ((1023 : Int) + 1022).toNat = 2045 := by decide
    rw [e1, e2, e3, Nat.pow_zero, Nat.mul_one]
    have hK : n ≤ (2 ^ 53 - 1) * (d * 2 ^ 971) := by
      have : maxFin * d = (2 ^ 53 - 1) * (d * 2 ^ 971) := by unfold maxFin; grind
      omega
    have hm' := rne_le (Nat.mul_pos hd (Nat.two_pow_pos _)) hK
    have : ¬ (2045 * two52 + rne n (d * 2 ^ 971) ≥ infBits) := by
      simp only [two52, infBits]; omega
    rw [if_neg this]; simp only [two52, infBits]; omega
  · have hE' : (ee + 1022).toNat ≤ 2044 := by omega
    generalize (ee + 1022).toNat = E at *
    generalize rne _ _ = m at *
    have : ¬ (E * two52 + m ≥ infBits) := by
      simp only [two52, infBits]; omega
    rw [if_neg this]; simp only [two52, infBits]; omega

theorem isInf_false_of_lt {b : Nat} (h : b < infBits) : isInf b = false := by
  unfold isInf; simp only [infBits, signBit] at *
  have : b % 9223372036854775808 = b := by omega
  rw [this]; simp; omega

set_option exponentiation.threshold 2048 in
theorem two1023_le_maxFin : 2 ^ 1023 ≤ maxFin := by
  unfold maxFin
  have : (2 : Nat) ^ 1023 = 2 ^ 52 * 2 ^ 971 := Nat.pow_add 2 52 971
  rw [this]
  have h : (2 : Nat) ^ 52 ≤ 2 ^ 53 - 1 := by decide
  exact Nat.mul_le_mul_right (2 ^ 971) h

set_option exponentiation.threshold 2048 in
theorem rn_finite_of_lt_pow {n d k : Nat} (hd : 0 < d) (hk : k ≤ 1023) (h : n < 2 ^ k * d) :
    rn n d < infBits := by
  apply rn_finite hd
  have h1 : 2 ^ k ≤ 2 ^ 1023 := two_pow_mono hk
  have h2 := Nat.mul_le_mul_right d (Nat.le_trans h1 two1023_le_maxFin)
  omega

/-! ## 5. The fast path of `f64_from_parts` -/

theorem ten_pow_le {k : Nat} (hk : k ≤ 22) : 10 ^ k ≤ 2 ^ 74 :=
  Nat.le_trans (Nat.pow_le_pow_right (by decide) hk) (by decide)

theorem fast_pos {pow10 : Nat → Nat} {sig fuel : Nat} {e : Int}
    (hp : ∀ k, k ≤ 22 → Exact (pow10 k) (10 ^ k)) (hs : sig < 2 ^ 53)
    (he0 : 0 ≤ e) (he : e ≤ 22) (hf : 1 ≤ fuel) :
    fastParts pow10 fuel (ofNat sig) e = some (rn (sig * 10 ^ e.toNat) 1) ∧
    rn (sig * 10 ^ e.toNat) 1 < infBits := by
  obtain ⟨f, rfl⟩ : ∃ f, fuel = f + 1 := ⟨fuel - 1, by omega⟩
  have hk : e.natAbs = e.toNat := by omega
  have hk22 : e.toNat ≤ 22 := by omega
  have hmul : mulPos (ofNat sig) (pow10 e.toNat) = rn (sig * 10 ^ e.toNat) 1 :=
    mulPos_exact (exact_ofNat hs) (hp _ hk22)
  have hfin : rn (sig * 10 ^ e.toNat) 1 < infBits := by
    apply rn_finite_of_lt_pow (k := 127) (by decide) (by decide)
    have h1 := ten_pow_le hk22
    have h2 : sig * 10 ^ e.toNat < 2 ^ 53 * 2 ^ 74 :=
      Nat.mul_lt_mul_of_lt_of_le hs h1 (Nat.two_pow_pos _)
    have : (2 : Nat) ^ 127 * 1 = 2 ^ 53 * 2 ^ 74 := by decide
    omega
  refine ⟨?_, hfin⟩
  unfold fastParts
  have h308 : e.natAbs ≤ 308 := by omega
  rw [if_pos h308, if_pos (show e ≥ 0 from he0)]
  simp only [hk, hmul, isInf_false_of_lt hfin]
  rfl

theorem fast_neg {pow10 : Nat → Nat} {sig fuel : Nat} {e : Int}
    (hp : ∀ k, k ≤ 22 → Exact (pow10 k) (10 ^ k)) (hs : sig < 2 ^ 53)
    (he0 : e < 0) (he : -22 ≤ e) (hf : 1 ≤ fuel) :
    fastParts pow10 fuel (ofNat sig) e = some (rn sig (10 ^ (-e).toNat)) := by
  obtain ⟨f, rfl⟩ : ∃ f, fuel = f + 1 := ⟨fuel - 1, by omega⟩
  have hk : e.natAbs = (-e).toNat := by omega
  have hk22 : (-e).toNat ≤ 22 := by omega
  have hdiv : divPos (ofNat sig) (pow10 (-e).toNat) = rn sig (10 ^ (-e).toNat) :=
    divPos_exact (exact_ofNat hs) (hp _ hk22) (Nat.pow_pos (by decide))
  unfold fastParts
  have h308 : e.natAbs ≤ 308 := by omega
  have hneg : ¬ (e ≥ 0) := by omega
  rw [if_pos h308, if_neg hneg, hk, hdiv]

/-! ## 6. Integer literals -/

/-! ### the parser monad on a concrete state -/

theorem bind_ok {α β : Type} {m : P α} {f : α → P β} {s s1 : St} {a : α} (h : m s = .ok a s1) :
    (m >>= f) s = f a s1 := by
  show P.bind m f s = _
  unfold P.bind; rw [h]

theorem pure_ok {α : Type} (a : α) (s : St) : (pure a : P α) s = .ok a s := rfl

/-- what the number scanners leave untouched -/
def Same (s s' : St) : Prop :=
  s'.rd.faulty = s.rd.faulty ∧ s'.rd.mode = s.rd.mode ∧ s'.depth = s.depth

theorem Same.refl (s : St) : Same s s := ⟨rfl, rfl, rfl⟩
theorem Same.trans {a b c : St} (h1 : Same a b) (h2 : Same b c) : Same a c := by
  obtain ⟨a1, a2, a3⟩ := h1
  obtain ⟨b1, b2, b3⟩ := h2
  exact ⟨b1.trans a1, b2.trans a2, b3.trans a3⟩

theorem consume_one {rd : Rd} {b : UInt8} {bs : List UInt8} (h : rd.rest = b :: bs) :
    (rd.consume 1).rest = bs ∧ (rd.consume 1).faulty = rd.faulty ∧ (rd.consume 1).mode = rd.mode := by
  unfold Rd.consume
  rw [h]
  simp [Rd.consume]

theorem peekOrNull_cons {s : St} {b : UInt8} {bs : List UInt8} (h : s.rd.rest = b :: bs) :
    ∃ s1, peekOrNull s = .ok b s1 ∧ s1.rd.rest = b :: bs ∧ Same s s1 := by
  refine ⟨{ s with rd := { s.rd with peeked := s.rd.peeked || s.rd.mode == .io } }, ?_, h, ⟨rfl, rfl, rfl⟩⟩
  have hp : peek s = .ok (some b) { s with rd := { s.rd with peeked := s.rd.peeked || s.rd.mode == .io } } := by
    unfold peek; rw [h]
  unfold peekOrNull
  rw [bind_ok hp]; rfl

theorem peekOrNull_nil {s : St} (h : s.rd.rest = []) (hf : s.rd.faulty = false) :
    peekOrNull s = .ok 0 s := by
  have hp : peek s = .ok none s := by
    unfold peek; rw [h]; simp [hf]
  unfold peekOrNull
  rw [bind_ok hp]; rfl

theorem discard_cons {s : St} {b : UInt8} {bs : List UInt8} (h : s.rd.rest = b :: bs) :
    ∃ s1, Parse.discard s = .ok () s1 ∧ s1.rd.rest = bs ∧ Same s s1 := by
  obtain ⟨h1, h2, h3⟩ := consume_one h
  refine ⟨{ s with rd := s.rd.consume 1 }, ?_, h1, ⟨h2, h3, rfl⟩⟩
  unfold Parse.discard; rw [h]

theorem next_cons {s : St} {b : UInt8} {bs : List UInt8} (h : s.rd.rest = b :: bs) :
    ∃ s1, next s = .ok (some b) s1 ∧ s1.rd.rest = bs ∧ Same s s1 := by
  obtain ⟨h1, h2, h3⟩ := consume_one h
  refine ⟨{ s with rd := s.rd.consume 1 }, ?_, h1, ⟨h2, h3, rfl⟩⟩
  unfold next; rw [h]

/-! ### integer literals -/

/-- every byte is a digit of the radix -/
def DigitsOK (radix : Nat) (ds : List UInt8) : Prop :=
  ∀ c ∈ ds, ∃ d, digitVal radix c = some d ∧ d < radix

/-- Horner value of a digit string, starting from `acc` -/
def hornerFrom (radix acc : Nat) (ds : List UInt8) : Nat :=
  ds.foldl (fun a c => a * radix + (digitVal radix c).getD 0) acc

def horner (radix : Nat) (ds : List UInt8) : Nat := hornerFrom radix 0 ds

/-- What follows the digits ends the integer: end of input (not a failing read), or a byte that
    is neither a digit of the radix nor `.`, `e`, `E`. -/
def Terminates (radix : Nat) (rest : List UInt8) (faulty : Bool) : Prop :=
  match rest with
  | [] => faulty = false
  | c :: _ => digitVal radix c = none ∧ c ≠ 46 ∧ c ≠ 101 ∧ c ≠ 69

/-- the value `parse_num_tail` builds from sign and significand -/
def tailResult (pos : Bool) (sig : Nat) : Number :=
  if pos then Number.pos sig
  else
    let neg := wrappingNeg (asI64 sig)
    if neg > 0 then Number.flt (F64.neg (F64.ofNat sig)) else Number.ofSigned neg

theorem hornerFrom_ge (radix : Nat) (hr : 0 < radix) (ds : List UInt8) :
    ∀ acc, acc ≤ hornerFrom radix acc ds := by
  induction ds with
  | nil => intro acc; exact Nat.le_refl _
  | cons c ds ih =>
    intro acc
    have := ih (acc * radix + (digitVal radix c).getD 0)
    have h2 : acc ≤ acc * radix := Nat.le_mul_of_pos_right acc hr
    show acc ≤ hornerFrom radix (acc * radix + (digitVal radix c).getD 0) ds
    omega

theorem numTail_ok (cfg : Cfg) (fuel radix : Nat) (pos : Bool) (sig : Nat) {s : St}
    (ht : Terminates radix s.rd.rest s.rd.faulty) :
    ∃ s', parseNumTail cfg fuel radix pos sig s = .ok (tailResult pos sig) s' ∧
      s'.rd.rest = s.rd.rest ∧ Same s s' := by
  have key : ∀ (c : UInt8) (s1 : St), peekOrNull s = .ok c s1 → c ≠ 46 → c ≠ 101 → c ≠ 69 →
      parseNumTail cfg fuel radix pos sig s = .ok (tailResult pos sig) s1 := by
    intro c s1 hpk h1 h2 h3
    unfold parseNumTail
    rw [bind_ok hpk]
    have e1 : (c == 46) = false := by simpa using h1
    have e2 : (c == 101 || c == 69) = false := by simp [h2, h3]
    simp only [e1, e2, Bool.false_eq_true, if_false]
    unfold tailResult
    cases pos <;> simp only [Bool.false_eq_true, if_false, if_true] <;> first | rfl | skip
    split <;> rfl
  cases hrest : s.rd.rest with
  | nil =>
    rw [hrest] at ht
    exact ⟨s, key 0 s (peekOrNull_nil hrest ht) (by decide) (by decide) (by decide), hrest,
      Same.refl s⟩
  | cons c bs =>
    rw [hrest] at ht
    obtain ⟨s1, hpk, hr1, hs1⟩ := peekOrNull_cons hrest
    exact ⟨s1, key c s1 hpk ht.2.1 ht.2.2.1 ht.2.2.2, hr1, hs1⟩

theorem numLoop_digits (cfg : Cfg) (radix : Nat) (pos : Bool) (hr : 0 < radix) (rest : List UInt8) :
    ∀ (ds : List UInt8) (acc fuel : Nat) (s : St), DigitsOK radix ds → s.rd.rest = ds ++ rest →
      Terminates radix rest s.rd.faulty → hornerFrom radix acc ds ≤ u64Max →
      ds.length + 1 ≤ fuel →
      ∃ s', numLoop cfg radix pos fuel acc s = .ok (tailResult pos (hornerFrom radix acc ds)) s' ∧
        s'.rd.rest = rest ∧ Same s s' := by
  intro ds
  induction ds with
  | nil =>
    intro acc fuel s _ hrest ht _ hf
    obtain ⟨f, rfl⟩ : ∃ f, fuel = f + 1 := ⟨fuel - 1, by omega⟩
    simp only [List.nil_append] at hrest
    have hnone : ∀ (c : UInt8) (s1 : St), peekOrNull s = .ok c s1 → digitVal radix c = none →
        numLoop cfg radix pos (f + 1) acc s = parseNumTail cfg (f + 1) radix pos acc s1 := by
      intro c s1 hpk hd
      unfold numLoop
      rw [bind_ok hpk]
      simp only [hd]
    cases hr0 : rest with
    | nil =>
      rw [hr0] at hrest ht
      rw [hnone 0 s (peekOrNull_nil hrest ht) (by simp [digitVal])]
      obtain ⟨s', h1, h2, h3⟩ := numTail_ok cfg (f + 1) radix pos acc (s := s) (by rw [hrest]; exact ht)
      exact ⟨s', h1, by rw [h2, hrest], h3⟩
    | cons c bs =>
      rw [hr0] at hrest ht
      obtain ⟨s1, hpk, hr1, hs1⟩ := peekOrNull_cons hrest
      rw [hnone c s1 hpk ht.1]
      obtain ⟨s', h1, h2, h3⟩ := numTail_ok cfg (f + 1) radix pos acc (s := s1)
        (by rw [hr1, hs1.1]; exact ht)
      exact ⟨s', h1, by rw [h2, hr1], hs1.trans h3⟩
  | cons c ds ih =>
    intro acc fuel s hok hrest ht hle hf
    obtain ⟨f, rfl⟩ : ∃ f, fuel = f + 1 := ⟨fuel - 1, by omega⟩
    simp only [List.length_cons] at hf
    obtain ⟨d, hd, hdr⟩ := hok c (List.mem_cons_self)
    have hok' : DigitsOK radix ds := fun x hx => hok x (List.mem_cons_of_mem _ hx)
    simp only [List.cons_append] at hrest
    obtain ⟨s1, hpk, hr1, hs1⟩ := peekOrNull_cons hrest
    obtain ⟨s2, hdc, hr2, hs2⟩ := discard_cons hr1
    have hstep : hornerFrom radix acc (c :: ds) = hornerFrom radix (acc * radix + d) ds := by
      show hornerFrom radix (acc * radix + (digitVal radix c).getD 0) ds = _
      rw [hd]; rfl
    rw [hstep] at hle ⊢
    have hov : overflow acc radix d u64Max = false := by
      rw [overflow_false_iff hr hdr]
      exact Nat.le_trans (hornerFrom_ge radix hr ds _) hle
    have hs12 := hs1.trans hs2
    obtain ⟨s', h1, h2, h3⟩ := ih (acc * radix + d) f s2 hok' hr2
      (by rw [hs12.1]; exact ht) hle (by omega)
    refine ⟨s', ?_, h2, hs12.trans h3⟩
    rw [← h1, numLoop, bind_ok hpk]
    simp only [hd]
    rw [if_neg (by omega : ¬ d ≥ radix), bind_ok hdc]
    simp only [hov, Bool.false_eq_true, if_false]

theorem numLiteral_digits (cfg : Cfg) (radix : Nat) (pos : Bool) (hr : 0 < radix)
    (c : UInt8) (ds rest : List UInt8) (fuel : Nat) (s : St)
    (hok : DigitsOK radix (c :: ds)) (hrest : s.rd.rest = c :: ds ++ rest)
    (ht : Terminates radix rest s.rd.faulty) (hle : horner radix (c :: ds) ≤ u64Max)
    (hf : (c :: ds).length ≤ fuel) :
    ∃ s', parseNumLiteral cfg fuel radix pos s = .ok (tailResult pos (horner radix (c :: ds))) s' ∧
      s'.rd.rest = rest ∧ Same s s' := by
  obtain ⟨d, hd, hdr⟩ := hok c (List.mem_cons_self)
  have hok' : DigitsOK radix ds := fun x hx => hok x (List.mem_cons_of_mem _ hx)
  simp only [List.cons_append] at hrest
  obtain ⟨s1, hnx, hr1, hs1⟩ := next_cons hrest
  have hstep : horner radix (c :: ds) = hornerFrom radix d ds := by
    show hornerFrom radix (0 * radix + (digitVal radix c).getD 0) ds = _
    rw [hd]; simp
  rw [hstep] at hle ⊢
  simp only [List.length_cons] at hf
  obtain ⟨s', h1, h2, h3⟩ := numLoop_digits cfg radix pos hr rest ds d fuel s1 hok' hr1
    (by rw [hs1.1]; exact ht) hle (by omega)
  refine ⟨s', ?_, h2, hs1.trans h3⟩
  rw [← h1]
  unfold parseNumLiteral
  rw [bind_ok hnx]
  simp only [hd]
  rw [if_neg (by omega : ¬ d ≥ radix)]

/-! ## 6b. Radix 10 and the sign -/

/-- value of a string of ASCII decimal digits -/
def decVal (ds : List UInt8) : Nat := ds.foldl (fun a c => a * 10 + (c.toNat - 48)) 0

theorem digitVal10_digit {c : UInt8} (h : 48 ≤ c ∧ c ≤ 57) :
    digitVal 10 c = some (c.toNat - 48) ∧ c.toNat - 48 < 10 := by
  have h2 : c.toNat ≤ 57 := UInt8.le_iff_toNat_le.mp h.2
  refine ⟨by simp [digitVal, h.1, h.2], by omega⟩

theorem digitVal10_none {c : UInt8} (h : ¬ (48 ≤ c ∧ c ≤ 57)) : digitVal 10 c = none := by
  unfold digitVal
  have : (decide (48 ≤ c) && decide (c ≤ 57)) = false := by simpa using h
  simp [this]

theorem hornerFrom10 (ds : List UInt8) (hd : ∀ c ∈ ds, 48 ≤ c ∧ c ≤ 57) :
    ∀ acc, hornerFrom 10 acc ds = ds.foldl (fun a c => a * 10 + (c.toNat - 48)) acc := by
  induction ds with
  | nil => intro acc; rfl
  | cons c ds ih =>
    intro acc
    have h1 := (digitVal10_digit (hd c List.mem_cons_self)).1
    show hornerFrom 10 (acc * 10 + (digitVal 10 c).getD 0) ds = _
    rw [h1, ih (fun x hx => hd x (List.mem_cons_of_mem _ hx))]
    rfl

theorem tailResult_pos (V : Nat) : tailResult true V = Number.pos V := rfl

theorem tailResult_neg_small {V : Nat} (h : V ≤ 2 ^ 63) :
    tailResult false V = if V = 0 then Number.pos 0 else Number.neg (-(V : Int)) := by
  unfold tailResult
  simp only [Bool.false_eq_true, if_false]
  by_cases h63 : V = 2 ^ 63
  · subst h63; decide
  · have hlt : V < 9223372036854775808 := by omega
    have e1 : asI64 V = (V : Int) := by unfold asI64; rw [if_pos hlt]
    have e2 : wrappingNeg (V : Int) = -(V : Int) := by
      unfold wrappingNeg i64Min
      have : ((V : Int) == -9223372036854775808) = false := by
        simp only [beq_eq_false_iff_ne, ne_eq]; omega
      rw [this]; rfl
    rw [e1, e2]
    have : ¬ (-(V : Int) > 0) := by omega
    simp only [this, if_false]
    unfold Number.ofSigned
    by_cases h0 : V = 0
    · subst h0; rfl
    · have : ¬ (-(V : Int) ≥ 0) := by omega
      simp only [this, if_false, h0]

theorem tailResult_neg_big {V : Nat} (h : 2 ^ 63 < V) (h2 : V ≤ u64Max) :
    tailResult false V = Number.flt (F64.neg (F64.ofNat V)) := by
  unfold tailResult
  simp only [Bool.false_eq_true, if_false]
  unfold u64Max at h2
  have hlt : ¬ V < 9223372036854775808 := by omega
  have e1 : asI64 V = (V : Int) - 18446744073709551616 := by unfold asI64; rw [if_neg hlt]
  have e2 : wrappingNeg ((V : Int) - 18446744073709551616) = 18446744073709551616 - (V : Int) := by
    unfold wrappingNeg i64Min
    have : ((V : Int) - 18446744073709551616 == -9223372036854775808) = false := by
      simp only [beq_eq_false_iff_ne, ne_eq]; omega
    rw [this]; simp only [Bool.false_eq_true, if_false]; omega
  rw [e1, e2]
  have : (18446744073709551616 - (V : Int) > 0) := by omega
  simp only [this, if_true]

/-! ## 7. Never infinity or NaN -/

/-- bits of `1.0` -/
def oneBits : Nat := 0x3FF0000000000000

theorem decode_fin {f : Nat} (h : f < infBits) :
    (decode f).1 ≤ 2 ^ 53 - 1 ∧ (decode f).2 ≤ 971 := by
  unfold decode
  simp only [infBits, signBit, two52] at *
  have h1 : f % 9223372036854775808 = f := by omega
  simp only [h1]
  split <;> (constructor <;> simp only [] <;> omega)

theorem decode_ge_one {b : Nat} (h1 : oneBits ≤ b) (h : b < infBits) :
    two52 ≤ (decode b).1 ∧ -52 ≤ (decode b).2 := by
  unfold decode
  simp only [infBits, signBit, two52, oneBits] at *
  have h1 : b % 9223372036854775808 = b := by omega
  simp only [h1]
  split
  · omega
  · constructor <;> simp only [] <;> omega

theorem lt_inf_of_not_isInf {g : Nat} (hle : g ≤ infBits) (h : isInf g = false) : g < infBits := by
  unfold isInf at h
  simp only [infBits, signBit] at *
  have h1 : g % 9223372036854775808 = g := by omega
  rw [h1] at h
  have : g ≠ 9218868437227405312 := by simpa using h
  omega

theorem mulPos_le_inf (a b : Nat) : mulPos a b ≤ infBits := by
  rw [mulPos_def, rnScaled_eq]; exact rn_le_inf _ _

set_option exponentiation.threshold 2048 in
/-- dividing a finite double by a finite double `≥ 1.0` cannot overflow -/
theorem divPos_finite {f b : Nat} (hf : f < infBits) (hb1 : oneBits ≤ b) (hb : b < infBits) :
    divPos f b < infBits := by
  rw [divPos_eq]
  obtain ⟨hma, hpa⟩ := decode_fin hf
  obtain ⟨hmb, hpb⟩ := decode_ge_one hb1 hb
  generalize (decode f).1 = ma at *
  generalize (decode f).2 = pa at *
  generalize (decode b).1 = mb at *
  generalize (decode b).2 = pb at *
  have hmb0 : 0 < mb := by unfold two52 at hmb; omega
  apply rn_finite (Nat.mul_pos hmb0 (Nat.two_pow_pos _))
  have hP : (pa - pb).toNat ≤ 1023 := by omega
  have s1 : 2 ^ (pa - pb).toNat ≤ 2 ^ 1023 := two_pow_mono hP
  have s2 : ma * 2 ^ (pa - pb).toNat ≤ (2 ^ 53 - 1) * 2 ^ 1023 := Nat.mul_le_mul hma s1
  have e1 : (2 ^ 53 - 1) * 2 ^ 1023 = maxFin * two52 := by
    unfold maxFin two52
    have : (2 : Nat) ^ 1023 = 2 ^ 971 * 2 ^ 52 := Nat.pow_add 2 971 52
    rw [this, ← Nat.mul_assoc]
  have s3 : maxFin * two52 ≤ maxFin * mb := Nat.mul_le_mul_left _ hmb
  have s4 : maxFin * mb ≤ maxFin * (mb * 2 ^ (-(pa - pb)).toNat) :=
    Nat.mul_le_mul_left _ (Nat.le_mul_of_pos_right _ (Nat.two_pow_pos _))
  omega

theorem fastParts_finite {pow10 : Nat → Nat}
    (hp : ∀ k, k ≤ 308 → oneBits ≤ pow10 k ∧ pow10 k < infBits) :
    ∀ (fuel f : Nat) (e : Int) (r : Nat), f < infBits → fastParts pow10 fuel f e = some r →
      r < infBits := by
  intro fuel
  induction fuel with
  | zero =>
    intro f e r hf h
    simp only [fastParts, Option.some.injEq] at h
    omega
  | succ n ih =>
    intro f e r hf h
    rw [fastParts] at h
    by_cases h308 : e.natAbs ≤ 308
    · rw [if_pos h308] at h
      by_cases he : e ≥ 0
      · rw [if_pos he] at h
        simp only [] at h
        split at h
        · cases h
        · next hinf =>
          simp only [Option.some.injEq] at h
          subst h
          exact lt_inf_of_not_isInf (mulPos_le_inf _ _) (by simpa using hinf)
      · rw [if_neg he] at h
        simp only [Option.some.injEq] at h
        subst h
        exact divPos_finite hf (hp _ h308).1 (hp _ h308).2
    · rw [if_neg h308] at h
      split at h
      · simp only [Option.some.injEq] at h; omega
      · split at h
        · cases h
        · exact ih _ _ _ (divPos_finite hf (hp 308 (Nat.le_refl _)).1 (hp 308 (Nat.le_refl _)).2) h

theorem ofNat_finite {sig : Nat} (h : sig ≤ u64Max) : F64.ofNat sig < infBits := by
  unfold F64.ofNat
  apply rn_finite_of_lt_pow (k := 64) (by decide) (by decide)
  unfold u64Max at h
  have : (2 : Nat) ^ 64 * 1 = 18446744073709551616 := by decide
  omega

theorem signed_finite {f : Nat} (pos : Bool) (hf : f < infBits) :
    isFinite (if pos then f else F64.neg f) = true ∧ isInf (if pos then f else F64.neg f) = false ∧
    isNaN (if pos then f else F64.neg f) = false := by
  unfold isFinite isInf isNaN F64.neg
  simp only [infBits, signBit] at *
  cases pos
  · have h1 : ¬ (f ≥ 9223372036854775808) := by omega
    simp only [Bool.false_eq_true, if_false, h1]
    have h2 : (f + 9223372036854775808) % 9223372036854775808 = f := by omega
    rw [h2]
    simp; omega
  · simp only [if_true]
    have h2 : f % 9223372036854775808 = f := by omega
    rw [h2]
    simp; omega

/-! ## 8. The regenerated POW10 table -/

/-! ### the regenerated `POW10` table satisfies the hypotheses used below -/

instance (b x : Nat) : Decidable (Exact b x) := by unfold Exact; exact inferInstance

/-- `POW10[k]` as regenerated from the build -/
def pow10Tab (k : Nat) : Nat := Gen.pow10Bits.getD k 0

theorem pow10Tab_exact : ∀ k, k < 23 → Exact (pow10Tab k) (10 ^ k) := by decide +kernel

theorem pow10Tab_ge_one : ∀ k, k < 309 → oneBits ≤ pow10Tab k ∧ pow10Tab k < infBits := by
  decide +kernel

theorem rnDec_le_inf (s : Nat) (e : Int) : rnDec s e ≤ infBits := by
  unfold rnDec
  split
  · simp [infBits]
  · split
    · exact Nat.le_refl _
    · split
      · simp [infBits]
      · split <;> exact rn_le_inf _ _

/-! ## Main theorems -/

/-- (1) The `overflow!` macro is exact: for a digit `b` of the radix, it answers `true` exactly
    when `a * r + b` exceeds `c`. -/
theorem overflow_iff {a r b c : Nat} (hr : 0 < r) (hb : b < r) :
    overflow a r b c = true ↔ a * r + b > c := overflow_spec hr hb

/-- (1') Without `b < r` the macro is still sound (never a false alarm), but not complete:
    `overflow 0 10 100 50 = false` although `0 * 10 + 100 > 50`. -/
theorem overflow_sound {a r b c : Nat} (hr : 0 < r) (h : overflow a r b c = true) :
    a * r + b > c := overflow_true_imp hr h

example : overflow 1844674407370955161 10 6 u64Max = true ∧
    1844674407370955161 * 10 + 6 > u64Max ∧ overflow 1844674407370955161 10 5 u64Max = false := by
  decide

/-- (2) An integer below `2^53` converts exactly: the double `rn n 1` decodes to `(m, p)` with
    `m * 2^p = n`. -/
theorem rn_exact {n : Nat} (_h0 : 0 < n) (h53 : n < 2 ^ 53) :
    let (m, p) := decode (rn n 1)
    (p ≥ 0 → m * 2 ^ p.toNat = n) ∧ (p < 0 → m = n * 2 ^ (-p).toNat) := by
  have := (exact_iff (rn n 1) n).mp (exact_ofNat h53)
  exact this

/-- (2') the decoded pair explicitly: mantissa `n * 2^(52 - log2 n)`, exponent `log2 n - 52` -/
theorem rn_exact_decode {n : Nat} (h0 : 0 < n) (h53 : n < 2 ^ 53) :
    decode (rn n 1) = (n * 2 ^ (52 - Nat.log2 n), (Nat.log2 n : Int) - 52) :=
  decode_rn_small h0 h53

example : decode (rn 12345 1) = (12345 * 2 ^ 39, -39) := by decide

/-- (3a) `mulPos` is `rnScaled` of the product of the decoded operands (definitional). -/
theorem mulPos_rn (a b : Nat) :
    mulPos a b = rnScaled ((decode a).1 * (decode b).1) ((decode a).2 + (decode b).2) := rfl

/-- (3b) For operands that represent the naturals `x` and `y` exactly, `mulPos` is the single
    correctly rounded operation `rn (x * y) 1`. -/
theorem mulPos_correct {a b x y : Nat} (ha : Exact a x) (hb : Exact b y) :
    mulPos a b = rn (x * y) 1 := mulPos_exact ha hb

/-- (3c) Likewise `divPos a b = rn x y`: one correctly rounded division. -/
theorem divPos_correct {a b x y : Nat} (ha : Exact a x) (hb : Exact b y) (hy : 0 < y) :
    divPos a b = rn x y := divPos_exact ha hb hy

/-- (3d) in particular for converted integers below `2^53` -/
theorem mulPos_divPos_ofNat {x y : Nat} (hx : x < 2 ^ 53) (hy : y < 2 ^ 53) :
    mulPos (rn x 1) (rn y 1) = rn (x * y) 1 ∧ (0 < y → divPos (rn x 1) (rn y 1) = rn x y) :=
  ⟨mulPos_exact (exact_ofNat hx) (exact_ofNat hy),
   fun h => divPos_exact (exact_ofNat hx) (exact_ofNat hy) h⟩

example : mulPos (rn 3 1) (rn 7 1) = rn 21 1 ∧ divPos (rn 1 1) (rn 10 1) = rn 1 10 :=
  ⟨(mulPos_divPos_ofNat (by decide) (by decide)).1,
   (mulPos_divPos_ofNat (by decide) (by decide)).2 (by decide)⟩

/-- `rn` depends only on the quotient: `n / d = n' / d'` gives the same double. -/
theorem rn_quotient {n d n' d' : Nat} (hd : 0 < d) (hd' : 0 < d') (h : n * d' = n' * d) :
    rn n d = rn n' d' := rn_cross hd hd' h

/-- (4) C05, fast path: with a `POW10` table whose first 23 entries are exact, for a significand
    below `2^53` and `0 ≤ e ≤ 22` the loop returns the correctly rounded `sig * 10^e` (which is
    finite, so the `isInf` check never fires), and for `-22 ≤ e < 0` the correctly rounded
    `sig / 10^(-e)`. -/
theorem C05_fast_exact {pow10 : Nat → Nat} {sig fuel : Nat} {e : Int}
    (hp : ∀ k, k ≤ 22 → Exact (pow10 k) (10 ^ k)) (hs : sig < 2 ^ 53) (hf : 1 ≤ fuel) :
    (0 ≤ e → e ≤ 22 →
      fastParts pow10 fuel (ofNat sig) e = some (rn (sig * 10 ^ e.toNat) 1) ∧
      rn (sig * 10 ^ e.toNat) 1 < infBits) ∧
    (-22 ≤ e → e < 0 →
      fastParts pow10 fuel (ofNat sig) e = some (rn sig (10 ^ (-e).toNat))) :=
  ⟨fun h0 h22 => fast_pos hp hs h0 h22 hf, fun h22 h0 => fast_neg hp hs h0 h22 hf⟩

/-- (4') the same at the level of `f64_from_parts` (feature `fast-float-parsing`) -/
theorem C05_f64FromParts_fast (cfg : Cfg) (pos : Bool) {sig : Nat} {e : Int} (s : St)
    (hfast : cfg.fast = true) (hp : ∀ k, k ≤ 22 → Exact (cfg.pow10 k) (10 ^ k))
    (hs : sig < 2 ^ 53) (hlo : -22 ≤ e) (hhi : e ≤ 22) :
    f64FromParts cfg pos sig e s =
      .ok (let f := if e ≥ 0 then rn (sig * 10 ^ e.toNat) 1 else rn sig (10 ^ (-e).toNat)
           if pos then f else F64.neg f) s := by
  unfold f64FromParts
  rw [if_pos hfast]
  obtain ⟨h1, h2⟩ := C05_fast_exact (fuel := e.natAbs / 308 + 2) (e := e) hp hs (by omega)
  by_cases he : e ≥ 0
  · rw [(h1 he hhi).1]; simp only [he, if_true]; rfl
  · rw [h2 hlo (by omega)]; simp only [he, if_false]; rfl

example : fastParts pow10Tab 1 (ofNat 123) 2 = some (rn 12300 1) :=
  ((C05_fast_exact (e := 2) (fun k hk => pow10Tab_exact k (by omega)) (by decide)
    (Nat.le_refl 1)).1 (by decide) (by decide)).1

/-- (5a) C05, integer literals in any radix: a non-empty run of digits of the radix whose Horner
    value fits `u64`, followed by end of input or a byte that is not a digit, `.`, `e`, `E`,
    is consumed entirely and yields `tailResult pos V`. -/
theorem C05_int_digits_radix (cfg : Cfg) (radix : Nat) (pos : Bool) (hr : 0 < radix)
    (ds rest : List UInt8) (fuel : Nat) (s : St)
    (hne : ds ≠ []) (hok : DigitsOK radix ds) (hrest : s.rd.rest = ds ++ rest)
    (ht : Terminates radix rest s.rd.faulty) (hle : horner radix ds ≤ u64Max)
    (hf : ds.length ≤ fuel) :
    ∃ s', parseNumLiteral cfg fuel radix pos s = .ok (tailResult pos (horner radix ds)) s' ∧
      s'.rd.rest = rest ∧ Same s s' := by
  cases ds with
  | nil => exact absurd rfl hne
  | cons c ds => exact numLiteral_digits cfg radix pos hr c ds rest fuel s hok hrest ht hle hf

/-- the terminator condition of (5b), on ASCII decimal input -/
def DecTerminates (rest : List UInt8) (faulty : Bool) : Prop :=
  match rest with
  | [] => faulty = false
  | c :: _ => ¬ (48 ≤ c ∧ c ≤ 57) ∧ c ≠ 46 ∧ c ≠ 101 ∧ c ≠ 69

/-- (5b) C05, decimal integer literals: ASCII digits `ds` (leading zeros allowed) with value
    `V = decVal ds ≤ u64::MAX`.  Unsigned: `Number.pos V`.  After a minus sign: `Number.pos 0`
    for `V = 0`, `Number.neg (-V)` for `0 < V ≤ 2^63`, and the double `-(V as f64)` above. -/
theorem C05_int_digits (cfg : Cfg) (fuel : Nat) (pos : Bool) (ds rest : List UInt8) (s : St)
    (hne : ds ≠ []) (hdig : ∀ c ∈ ds, 48 ≤ c ∧ c ≤ 57) (hrest : s.rd.rest = ds ++ rest)
    (ht : DecTerminates rest s.rd.faulty) (hV : decVal ds ≤ u64Max) (hf : ds.length ≤ fuel) :
    ∃ s', parseNumLiteral cfg fuel 10 pos s =
        .ok (if pos then Number.pos (decVal ds)
             else if decVal ds = 0 then Number.pos 0
             else if decVal ds ≤ 2 ^ 63 then Number.neg (-(decVal ds : Int))
             else Number.flt (F64.neg (F64.ofNat (decVal ds)))) s' ∧
      s'.rd.rest = rest ∧ Same s s' := by
  have hV' : horner 10 ds = decVal ds := hornerFrom10 ds hdig 0
  have hok : DigitsOK 10 ds := fun c hc => ⟨_, digitVal10_digit (hdig c hc)⟩
  have ht' : Terminates 10 rest s.rd.faulty := by
    unfold DecTerminates at ht; unfold Terminates
    cases rest with
    | nil => exact ht
    | cons c bs => exact ⟨digitVal10_none ht.1, ht.2⟩
  obtain ⟨s', h1, h2, h3⟩ := C05_int_digits_radix cfg 10 pos (by decide) ds rest fuel s hne hok
    hrest ht' (by rw [hV']; exact hV) hf
  refine ⟨s', ?_, h2, h3⟩
  rw [h1, hV']
  congr 1
  cases pos
  · simp only [Bool.false_eq_true, if_false]
    by_cases h63 : decVal ds ≤ 2 ^ 63
    · rw [tailResult_neg_small h63]
      by_cases h0 : decVal ds = 0 <;> simp [h0, h63]
    · rw [tailResult_neg_big (by omega) hV]
      have h0 : decVal ds ≠ 0 := by omega
      simp [h0, h63]
  · rfl

/-- "0042)" read unsigned and after a minus sign -/
example (cfg : Cfg) :
    (∃ s', parseNumLiteral cfg 4 10 true { rd := { mode := .slice, rest := [48, 48, 52, 50, 41] } }
        = .ok (Number.pos 42) s' ∧ s'.rd.rest = [41]) ∧
    (∃ s', parseNumLiteral cfg 4 10 false { rd := { mode := .slice, rest := [48, 48, 52, 50, 41] } }
        = .ok (Number.neg (-42)) s' ∧ s'.rd.rest = [41]) := by
  constructor
  · obtain ⟨s', h1, h2, _⟩ := C05_int_digits cfg 4 true [48, 48, 52, 50] [41]
      { rd := { mode := .slice, rest := [48, 48, 52, 50, 41] } } (by decide) (by decide) rfl
      ⟨by decide, by decide, by decide, by decide⟩ (by decide) (by decide)
    exact ⟨s', h1, h2⟩
  · obtain ⟨s', h1, h2, _⟩ := C05_int_digits cfg 4 false [48, 48, 52, 50] [41]
      { rd := { mode := .slice, rest := [48, 48, 52, 50, 41] } } (by decide) (by decide) rfl
      ⟨by decide, by decide, by decide, by decide⟩ (by decide) (by decide)
    exact ⟨s', h1, h2⟩

/-- "fF" in radix 16 at end of input -/
example (cfg : Cfg) :
    ∃ s', parseNumLiteral cfg 2 16 true { rd := { mode := .slice, rest := [102, 70] } }
        = .ok (Number.pos 255) s' ∧ s'.rd.rest = [] := by
  obtain ⟨s', h1, h2, _⟩ := C05_int_digits_radix cfg 16 true (by decide) [102, 70] [] 2
    { rd := { mode := .slice, rest := [102, 70] } } (by decide)
    (by
      intro c hc
      simp only [List.mem_cons, List.mem_nil_iff, or_false] at hc
      rcases hc with rfl | rfl
      · exact ⟨15, by decide, by decide⟩
      · exact ⟨15, by decide, by decide⟩)
    rfl rfl (by decide) (by decide)
  exact ⟨s', h1, h2⟩

/-- (6) C05, never infinity or NaN: whenever `f64_from_parts` succeeds on a `u64` significand,
    the result is a finite double and the reader state is untouched; every overflow is reported
    as an error instead.  In the fast configuration this needs every `POW10` entry to be a
    finite double `≥ 1.0` (true for the regenerated table: `pow10Tab_ge_one`). -/
theorem C05_never_inf (cfg : Cfg) (pos : Bool) (sig : Nat) (e : Int) (s s' : St) (r : Nat)
    (hsig : sig ≤ u64Max)
    (hp : cfg.fast = true → ∀ k, k ≤ 308 → oneBits ≤ cfg.pow10 k ∧ cfg.pow10 k < infBits)
    (h : f64FromParts cfg pos sig e s = .ok r s') :
    isFinite r = true ∧ isInf r = false ∧ isNaN r = false ∧ s' = s := by
  unfold f64FromParts at h
  by_cases hfast : cfg.fast = true
  · rw [if_pos hfast] at h
    cases hfp : fastParts cfg.pow10 (e.natAbs / 308 + 2) (F64.ofNat sig) e with
    | some f =>
      rw [hfp] at h
      have hfin := fastParts_finite (hp hfast) _ _ _ _ (ofNat_finite hsig) hfp
      simp only [pure_ok] at h
      injection h with h1 h2
      subst h1 h2
      obtain ⟨a, b, c⟩ := signed_finite pos hfin
      exact ⟨a, b, c, rfl⟩
    | none => rw [hfp] at h; cases h
  · rw [if_neg hfast] at h
    cases hinf : isInf (rnDec sig e) with
    | true => rw [hinf] at h; simp only [if_true] at h; cases h
    | false =>
      rw [hinf] at h; simp only [Bool.false_eq_true, if_false] at h
      have hfin := lt_inf_of_not_isInf (rnDec_le_inf sig e) hinf
      rw [pure_ok] at h
      injection h with h1 h2
      subst h1 h2
      obtain ⟨a, b, c⟩ := signed_finite pos hfin
      exact ⟨a, b, c, rfl⟩

/-- (6') and when it fails, it fails with `NumberOutOfRange` at the current position -/
theorem C05_out_of_range (cfg : Cfg) (pos : Bool) (sig : Nat) (e : Int) (s s' : St) (er : Err)
    (h : f64FromParts cfg pos sig e s = .err er s') :
    er = .syntax .numberOutOfRange s.rd.position.line s.rd.position.col ∧ s' = s := by
  unfold f64FromParts at h
  by_cases hfast : cfg.fast = true
  · rw [if_pos hfast] at h
    cases hfp : fastParts cfg.pow10 (e.natAbs / 308 + 2) (F64.ofNat sig) e with
    | some f => rw [hfp] at h; simp only [pure_ok] at h; cases h
    | none =>
      rw [hfp] at h
      simp only [errAt] at h; injection h with h1 h2; exact ⟨h1.symm, h2.symm⟩
  · rw [if_neg hfast] at h
    cases hinf : isInf (rnDec sig e) with
    | true =>
      rw [hinf] at h; simp only [if_true, errAt] at h
      injection h with h1 h2; exact ⟨h1.symm, h2.symm⟩
    | false =>
      rw [hinf] at h; simp only [Bool.false_eq_true, if_false, pure_ok] at h; cases h

/-- with the real table: `1e400` is rejected, `1e-400` is `+0.0` (finite) -/
example : fastParts pow10Tab 3 (ofNat 1) 400 = none ∧
    fastParts pow10Tab 3 (ofNat 1) (-400) = some 0 := by decide +kernel

/-- the hypotheses of (4') and (6) hold for a configuration that uses the regenerated table;
    e.g. "1.5" = 15e-1 is the correctly rounded 15/10, and it is finite -/
example (cfg : Cfg) (hfast : cfg.fast = true) (htab : cfg.pow10 = pow10Tab) (s : St) :
    f64FromParts cfg true 15 (-1) s = .ok (rn 15 10) s ∧ isFinite (rn 15 10) = true := by
  have h1 : f64FromParts cfg true 15 (-1) s = .ok (rn 15 10) s :=
    C05_f64FromParts_fast cfg true s hfast
      (fun k hk => by rw [htab]; exact pow10Tab_exact k (by omega)) (by decide) (by decide)
      (by decide)
  exact ⟨h1, (C05_never_inf cfg true 15 (-1) s s _ (by decide)
    (fun _ k hk => by rw [htab]; exact pow10Tab_ge_one k (by omega)) h1).1⟩

#print axioms overflow_iff
#print axioms overflow_sound
#print axioms rn_exact
#print axioms rn_exact_decode
#print axioms mulPos_rn
#print axioms mulPos_correct
#print axioms divPos_correct
#print axioms mulPos_divPos_ofNat
#print axioms rn_quotient
#print axioms C05_fast_exact
#print axioms C05_f64FromParts_fast
#print axioms C05_int_digits_radix
#print axioms C05_int_digits
#print axioms C05_never_inf
#print axioms C05_out_of_range
#print axioms pow10Tab_exact
#print axioms pow10Tab_ge_one

end Numbers
end Lexpr
