/-
  C09 (text half, second part) — leaves outside `TextOK`: strings with arbitrary content and
  float literals.  The tree type `Sx` (documented syntax with the float literals spelled out),
  its S-expression text `stext2`, and the side conditions `TextOK2`.

  * A Rust string literal reaches the macro unescaped (the model's token carries the value bytes),
    so the equivalent S-expression text of `"…"` is the default printer's rendering of the value:
    `"` + R6RS escapes (`\a \b \t \n \r \" \\ \xH…;`) + `"` (`stextAtom2_str_print`).  It is read
    back for every well-formed UTF-8 value (`str_reads`).
  * A float literal is passed through to rustc: the macro side is the correctly rounded double
    of the written decimal.  The text side is the same spelling `digits[.digits][(e|E)[+|-]digits]`
    (`DecLit`, a sub-syntax of Rust's float literals), read by the crate's scanner: `float_reads`
    under `ExactBuild` (default build: digits below 2^53 and |exponent| ≤ 22; build without
    fast-float-parsing: at most 19 significant digits and a finite result).
-/
import LexprModel.Proofs.MacroText
import LexprModel.Proofs.Decimals
namespace Lexpr
namespace Macro
open Print
open Parse.ListRT
open Parse (PlainIdent symTermSlice)
open Decimals

/-! ## Leaves: strings -/

/-- the default printer's text of a string value -/
def strText (val : List UInt8) : List UInt8 := 34 :: (escapeStr .r6rs val ++ [34])

theorem strText_print (ryu : Nat → List UInt8) (val : List UInt8) :
    strText val = Print.text Print.Options.default ryu (.string val) :=
  (text_string ryu val).symm

/-- **str_reads.** The printer's rendering of any well-formed UTF-8 string is read back as that
    string, in every follow context. -/
theorem str_reads (cfg : Parse.Cfg) (ho : cfg.opts = Parse.Options.default) (val : List UInt8)
    (h : Utf8.valid val = true) :
    ReadsAs cfg (strText val) (.string val) 0 ∧ ElemHead (strText val) := by
  have h4 : AllSupported (.string val) := by simpa [AllSupported, SupportedAtom] using h
  have hall := allAtomsOK_of_supported cfg ho (fun _ => []) _ h4
  have hv := value_rt cfg ho (fun _ => []) _ hall
  have hh := text_head cfg (fun _ => []) _ hall
  rw [text_string] at hh
  refine ⟨?_, hh⟩
  intro s rest fuel hf hg hr hfu hd
  exact hv s rest fuel hf hg (by rw [text_string]; exact hr) hfu (by simpa [nesting] using hd)

/-! ## Leaves: float literals -/

/-- the text of a float literal with its optional minus sign -/
def fltText (neg : Bool) (L : DecLit) : List UInt8 := (if neg then [45] else []) ++ L.text

/-- the double a float literal denotes: the correctly rounded value of the scanned pair (which is
    the exact value of the written digits, `DecLit.value_eq`), with the sign bit set for `-` -/
def fltBits (neg : Bool) (L : DecLit) : Nat :=
  if neg then F64.neg (F64.rnDec L.sig L.exp10) else F64.rnDec L.sig L.exp10

theorem fltBits_eq (cfg : Parse.Cfg) (neg : Bool) (L : DecLit) (hb : ExactBuild cfg L.sig L.exp10) :
    fltBits neg L = signed (!neg) (decRn L.sig L.exp10) := by
  unfold fltBits signed
  rw [rnDec_eq_all _ _ hb.sig_le]
  generalize decRn L.sig L.exp10 = r
  cases neg <;> simp

theorem atomText_const (T : List UInt8) (b : Nat) :
    atomText (fun _ => T) (.number (.flt b)) = T := by
  simp [atomText, Print.atomEmits, Print.numberText, flatten_cons_all, flatten_nil]

theorem fltText_head (neg : Bool) (L : DecLit) (hwf : L.WF) : ElemHead (fltText neg L) := by
  obtain ⟨c, tl, hc, hdig⟩ := L.text_head hwf
  unfold fltText
  cases neg with
  | false =>
    simp only [Bool.false_eq_true, if_false, List.nil_append, hc]
    exact head_of_nonterm c tl (digit_head_facts c hdig).1 (digit_head_facts c hdig).2
  | true =>
    simp only [if_true, List.cons_append, List.nil_append]
    exact head_of_nonterm 45 _ (by decide) (by decide)

/-- A float literal is read as whatever `f64_from_parts` makes of the scanned pair (exact or not). -/
theorem float_reads_parts (cfg : Parse.Cfg) (ho : cfg.opts = Parse.Options.default) (neg : Bool)
    (L : DecLit) (g : Nat) (hwf : L.WF) (hsmall : L.Small) (hS : L.sig ≤ u64Max)
    (hparts : ∀ u, Parse.f64FromParts cfg (!neg) L.sig L.exp10 u = .ok g u) :
    ReadsAs cfg (fltText neg L) (.number (.flt g)) 0 ∧ ElemHead (fltText neg L) := by
  have hhead := fltText_head neg L hwf
  refine ⟨?_, hhead⟩
  have hok : AtomOK cfg (fun _ => fltText neg L) (.number (.flt g)) := by
    refine atomOK_of_parseToken cfg _ _ (.number (.flt g)) rfl rfl (by simp) rfl
      (by rw [atomText_const]; exact hhead) ?_
    intro s rest pk tl hf hg ht hr
    rw [atomText_const] at ht hr
    have hlen := congrArg List.length hr
    simp only [List.length_append] at hlen
    have hF := (follow_iff rest).mp hf
    cases neg with
    | false =>
      simp only [fltText, Bool.false_eq_true, if_false, List.nil_append, Bool.not_false] at ht hr hlen hparts
      have := token_lit_pos cfg (s.rd.rest.length + 1) L rest s _ pk ho hwf hr (by rw [ht]; rfl)
        (delimStop_of_follow hF) (fun _ => hg.2) hS hsmall (by omega) hparts
      exact runs_of_adv _ s _ _ _ rest hg this (by simp [hr])
    | true =>
      simp only [fltText, if_true, List.cons_append, List.nil_append, Bool.not_true,
        List.cons.injEq, List.length_cons] at ht hr hlen hparts
      obtain ⟨rfl, -⟩ := ht
      have := token_lit_neg cfg (s.rd.rest.length + 1) L rest s _ hwf hr
        (delimStop_of_follow hF) (fun _ => hg.2) hS hsmall (by omega) hparts
      exact runs_of_adv _ s _ _ _ rest hg this (by simp [hr])
  intro s rest fuel hf hg hr hfu hd
  exact hok.2.2.2.2 s rest fuel hf hg (by rw [atomText_const]; exact hr) (by omega) (by omega)

/-- **float_reads.** A float literal `[-]digits[.digits][(e|E)[+|-]digits]` on which the build's
    `f64_from_parts` is exact (`ExactBuild`) is read, in every follow context, as the correctly
    rounded double of the written decimal, bit for bit (the sign of `-0.0` included). -/
theorem float_reads (cfg : Parse.Cfg) (ho : cfg.opts = Parse.Options.default) (neg : Bool)
    (L : DecLit) (hwf : L.WF) (hsmall : L.Small) (hb : ExactBuild cfg L.sig L.exp10) :
    ReadsAs cfg (fltText neg L) (.number (.flt (fltBits neg L))) 0 ∧ ElemHead (fltText neg L) :=
  float_reads_parts cfg ho neg L _ hwf hsmall hb.sig_le
    (fun u => by rw [hb.parts, fltBits_eq cfg neg L hb])

/-- `fltBits` in terms of the written digits: the double nearest to `rawSig * 10^rawExp` -/
theorem fltBits_raw (neg : Bool) (L : DecLit) (hS : L.sig ≤ u64Max) :
    fltBits neg L =
      (if neg then F64.neg (F64.rn (L.rawSig * 10 ^ L.rawExp.toNat) (10 ^ (-L.rawExp).toNat))
       else F64.rn (L.rawSig * 10 ^ L.rawExp.toNat) (10 ^ (-L.rawExp).toNat)) := by
  unfold fltBits
  rw [rnDec_eq_all _ _ hS, L.decRn_eq]
  rfl

end Macro
end Lexpr
