/-
  FloatApproxStruct — the structural round trip of `DialectStructRT.lean` restated relationally:
  the text of `v` (printer options `p`) is read back (parser options `cfg.opts`, any compatible
  pair) as some value `w`, and `w` is related to `fold p cfg.opts v` by `Value.approxEq`.

  The statements `ValueRTW` / `TailRTW` / `SeqRTW` are those of `ValueRTP` / `TailRTP` / `SeqRTP`
  with the value read back as a parameter; the loop and token lemmas of `ListRT.lean` and
  `DialectStructRT.lean` are reused unchanged (they are already generic in the element read).
  The value read back is independent of the state and of the follow context, which is what lets
  the existing step lemmas apply: `AtomOKW` asks for one `w` that works everywhere
  (`atomRT_float_approx` provides it for floats).
-/
import LexprModel.Proofs.FloatApprox
namespace Lexpr
namespace FloatApprox
open Parse Parse.ListRT Print Spec F64 Numbers Decimals

/-! ## 1. Statements -/

/-- the text of `v` is read back as `w` by `next_value`, in every follow context, from every
    non-faulty slice state with enough depth budget -/
def ValueRTW (p : Print.Options) (cfg : Cfg) (ryu : Nat → List UInt8) (v w : Value) : Prop :=
  ∀ (s : St) (rest : List UInt8) (fuel : Nat), ListRT.Follow rest → Good s →
    s.rd.rest = text p ryu v ++ rest → fuel ≥ 2 * s.rd.rest.length + 3 →
    nestingP p v + 1 ≤ s.depth → Runs (nextValue cfg fuel) s (some w) rest

def TailRTW (p : Print.Options) (cfg : Cfg) (ryu : Nat → List UInt8) (d w : Value) : Prop :=
  ∀ (s : St) (rest : List UInt8) (fuel : Nat) (acc : List Value), acc ≠ [] → Good s →
    s.rd.rest = flatten (emitsTail p ryu d) ++ 41 :: rest → fuel ≥ 2 * s.rd.rest.length + 3 →
    nestingTailP p d + 1 ≤ s.depth →
    Runs (parseList cfg fuel 41 acc) s (Value.append acc w) (41 :: rest)

def SeqRTW (p : Print.Options) (cfg : Cfg) (ryu : Nat → List UInt8) (first : Bool)
    (xs ws : List Value) : Prop :=
  ∀ (s : St) (rest : List UInt8) (fuel : Nat) (acc : List Value), Good s →
    s.rd.rest = flatten (emitsSeq p ryu first xs) ++ vclose p :: rest →
    fuel ≥ 2 * s.rd.rest.length + (if first then 4 else 3) →
    nestingSeqP p xs + 1 ≤ s.depth →
    Runs (parseVector cfg fuel (vclose p) acc) s (acc ++ ws) (vclose p :: rest)

/-- **AtomOKW.**  `v` is an atom whose text under `p` is read back, in every follow context and
    from every non-faulty slice state, as one and the same value `w` with
    `Value.approxEq (fold p cfg.opts v) w`. -/
def AtomOKW (p : Print.Options) (cfg : Cfg) (ryu : Nat → List UInt8) (v : Value) : Prop :=
  v.isCons = false ∧ v.isVector = false ∧ v ≠ .null ∧ ElemHead (atomTextP p ryu v) ∧
  ∃ w, Value.approxEq (fold p cfg.opts v) w ∧
    ∀ (s : St) (rest : List UInt8) (fuel : Nat), ListRT.Follow rest → Good s →
      s.rd.rest = atomTextP p ryu v ++ rest → fuel ≥ s.rd.rest.length + 2 →
      nestingP p v + 1 ≤ s.depth →
      Runs (nextValue cfg fuel) s (some w) rest

/-- an atom that is read back exactly is read back approximately -/
theorem atomOKW_of_P (p : Print.Options) (cfg : Cfg) (ryu : Nat → List UInt8) (v : Value)
    (h : AtomOKP p cfg ryu v) : AtomOKW p cfg ryu v :=
  ⟨h.1, h.2.1, h.2.2.1, h.2.2.2.1, fold p cfg.opts v, approxEq_refl _, h.2.2.2.2⟩

/-! ## 2. The cases -/

theorem null_rtW (p : Print.Options) (cfg : Cfg) (ryu : Nat → List UInt8) :
    ValueRTW p cfg ryu .null .null := by
  have := null_rtP p cfg ryu
  rw [ValueRTP, fold_null] at this
  exact this

theorem cons_rtW (p : Print.Options) (cfg : Cfg) (ryu : Nat → List UInt8)
    (a d a' d' : Value) (hA : ValueRTW p cfg ryu a a') (hhead : ElemHead (text p ryu a))
    (hD : TailRTW p cfg ryu d d') : ValueRTW p cfg ryu (.cons a d) (.cons a' d') := by
  intro s rest fuel _ hg hr hfu hd
  rw [textP_cons] at hr
  have hr' : s.rd.rest = 40 :: (text p ryu a ++ (flatten (emitsTail p ryu d) ++ 41 :: rest)) := by
    simpa using hr
  have hlen := congrArg List.length hr'
  simp only [List.length_cons, List.length_append] at hlen
  obtain ⟨F, rfl⟩ : ∃ F, fuel = F + 3 := ⟨fuel - 3, by omega⟩
  simp only [nestingP] at hd
  refine nextValue_listOpen cfg (F + 2) s _ rest _ hg hr' (by omega) ?_
  intro s1 g1 r1 d1
  refine list_elem_stepP cfg F s1 [] a' _ [] (text p ryu a)
    (flatten (emitsTail p ryu d) ++ 41 :: rest) (41 :: rest) g1 (Or.inl rfl) (by simpa using r1)
    hhead ?_ ?_
  · intro s2 g2 r2 d2
    refine hA s2 _ (F + 1) (tail_followP p ryu d rest) g2 r2 ?_ (by omega)
    rw [r2]; simp only [List.length_cons, List.length_append]; omega
  · intro s3 g3 r3 d3
    have := hD s3 rest (F + 1) [a'] (by simp) g3 r3
      (by rw [r3]; simp only [List.length_cons, List.length_append]; omega) (by omega)
    simpa [Value.append] using this

theorem vector_rtW (p : Print.Options) (cfg : Cfg) (ryu : Nat → List UInt8) (xs ws : List Value)
    (hb : p.vector = .brackets → cfg.opts.brackets = .vector)
    (hS : SeqRTW p cfg ryu true xs ws) : ValueRTW p cfg ryu (.vector xs) (.vector ws) := by
  intro s rest fuel _ hg hr hfu hd
  rw [textP_vector] at hr
  have hr' : s.rd.rest = vopen p ++ (flatten (emitsSeq p ryu true xs) ++ vclose p :: rest) := by
    simpa using hr
  have hlen := congrArg List.length hr'
  simp only [List.length_cons, List.length_append] at hlen
  have hvo : 1 ≤ (vopen p).length := by unfold vopen; cases p.vector <;> simp
  obtain ⟨F, rfl⟩ : ∃ F, fuel = F + 1 := ⟨fuel - 1, by omega⟩
  simp only [nestingP] at hd
  refine nextValue_vecOpenP cfg p F s _ rest _ hb hg hr' (by omega) ?_
  intro s1 g1 r1 d1
  have := hS s1 rest F [] g1 r1
    (by rw [r1]; simp only [List.length_cons, List.length_append, if_true]; omega) (by omega)
  simpa using this

theorem tail_null_rtW (p : Print.Options) (cfg : Cfg) (ryu : Nat → List UInt8) :
    TailRTW p cfg ryu .null .null := by
  have := tail_null_rtP p cfg ryu
  rw [TailRTP, fold_null] at this
  exact this

theorem tail_cons_rtW (p : Print.Options) (cfg : Cfg) (ryu : Nat → List UInt8)
    (a d a' d' : Value) (hA : ValueRTW p cfg ryu a a') (hhead : ElemHead (text p ryu a))
    (hD : TailRTW p cfg ryu d d') : TailRTW p cfg ryu (.cons a d) (.cons a' d') := by
  intro s rest fuel acc _ hg hr hfu hd
  rw [tailP_cons] at hr
  have hr' : s.rd.rest =
      [32] ++ (text p ryu a ++ (flatten (emitsTail p ryu d) ++ 41 :: rest)) := by
    simpa using hr
  have hlen := congrArg List.length hr'
  simp only [List.length_cons, List.length_append, List.length_nil] at hlen
  obtain ⟨F, rfl⟩ : ∃ F, fuel = F + 2 := ⟨fuel - 2, by omega⟩
  simp only [nestingTailP] at hd
  refine list_elem_stepP cfg F s acc a' _ [32] (text p ryu a)
    (flatten (emitsTail p ryu d) ++ 41 :: rest) (41 :: rest) hg (Or.inr rfl) hr' hhead ?_ ?_
  · intro s2 g2 r2 d2
    refine hA s2 _ (F + 1) (tail_followP p ryu d rest) g2 r2 ?_ (by omega)
    rw [r2]; simp only [List.length_cons, List.length_append]; omega
  · intro s3 g3 r3 d3
    have := hD s3 rest (F + 1) (acc ++ [a']) (by simp) g3 r3
      (by rw [r3]; simp only [List.length_cons, List.length_append]; omega) (by omega)
    rwa [append_snoc] at this

theorem tail_dotted_rtW (p : Print.Options) (cfg : Cfg) (ryu : Nat → List UInt8) (d w : Value)
    (hD : ValueRTW p cfg ryu d w) (hhead : ElemHead (text p ryu d)) (h1 : d.isCons = false)
    (h2 : d ≠ .null) (hn : nestingTailP p d = nestingP p d) : TailRTW p cfg ryu d w := by
  intro s rest fuel acc hacc hg hr hfu hd
  rw [tailP_dotted p ryu d h1 h2] at hr
  obtain ⟨c, tl, ht, hc1, hc2, -, -, -⟩ := hhead
  have hr' : s.rd.rest = 32 :: 46 :: 32 :: (c :: (tl ++ 41 :: rest)) := by
    simpa [ht] using hr
  have hlen := congrArg List.length hr'
  simp only [List.length_cons, List.length_append] at hlen
  obtain ⟨F, rfl⟩ : ∃ F, fuel = F + 1 := ⟨fuel - 1, by omega⟩
  refine parseList_dotted cfg F s acc _ rest w hg hr' hacc ?_
  intro s1 g1 r1 d1
  obtain ⟨s2, g2, r2, d2, heq⟩ := nextValue_skip cfg s1 g1 c _ r1 hc1 (by simp [hc2])
  obtain ⟨s3, e3, r3, g3, d3⟩ := hD s2 (41 :: rest) F (follow_cons _ _ (by decide)) g2
    (by rw [r2, ht]; simp)
    (by rw [r2]; simp only [List.length_cons, List.length_append]; omega) (by omega)
  exact ⟨s3, (heq F).trans e3, r3, g3, by omega⟩

theorem seq_nil_rtW (p : Print.Options) (cfg : Cfg) (ryu : Nat → List UInt8) (first : Bool) :
    SeqRTW p cfg ryu first [] [] := by
  have := seq_nil_rtP p cfg ryu first
  rw [SeqRTP, foldList_nil] at this
  exact this

theorem seq_cons_rtW (p : Print.Options) (cfg : Cfg) (ryu : Nat → List UInt8) (first : Bool)
    (x x' : Value) (xs ws : List Value) (hX : ValueRTW p cfg ryu x x')
    (hhead : ElemHead (text p ryu x))
    (hS : SeqRTW p cfg ryu false xs ws) : SeqRTW p cfg ryu first (x :: xs) (x' :: ws) := by
  intro s rest fuel acc hg hr hfu hd
  simp only [nestingSeqP] at hd
  cases first with
  | true =>
    rw [seqP_true] at hr
    have hr' : s.rd.rest =
        [] ++ (text p ryu x ++ (flatten (emitsSeq p ryu false xs) ++ vclose p :: rest)) := by
      simpa using hr
    have hlen := congrArg List.length hr'
    simp only [List.length_cons, List.length_append, List.length_nil] at hlen
    simp only [if_true] at hfu
    obtain ⟨F, rfl⟩ : ∃ F, fuel = F + 1 := ⟨fuel - 1, by omega⟩
    refine vec_elem_stepP cfg (vclose p) F s acc x' _ [] (text p ryu x)
      (flatten (emitsSeq p ryu false xs) ++ vclose p :: rest) (vclose p :: rest) hg (Or.inl rfl)
      hr' hhead ?_ ?_
    · intro s2 g2 r2 d2
      refine hX s2 _ F (seq_followP p ryu xs rest) g2 r2 ?_ (by omega)
      rw [r2]; simp only [List.length_cons, List.length_append]; omega
    · intro s3 g3 r3 d3
      have := hS s3 rest F (acc ++ [x']) g3 r3
        (by rw [r3]; simp only [List.length_cons, List.length_append]; simp; omega) (by omega)
      simpa using this
  | false =>
    rw [seqP_false] at hr
    have hr' : s.rd.rest =
        [32] ++ (text p ryu x ++ (flatten (emitsSeq p ryu false xs) ++ vclose p :: rest)) := by
      simpa using hr
    have hlen := congrArg List.length hr'
    simp only [List.length_cons, List.length_append, List.length_nil] at hlen
    simp at hfu
    obtain ⟨F, rfl⟩ : ∃ F, fuel = F + 1 := ⟨fuel - 1, by omega⟩
    refine vec_elem_stepP cfg (vclose p) F s acc x' _ [32] (text p ryu x)
      (flatten (emitsSeq p ryu false xs) ++ vclose p :: rest) (vclose p :: rest) hg (Or.inr rfl)
      hr' hhead ?_ ?_
    · intro s2 g2 r2 d2
      refine hX s2 _ F (seq_followP p ryu xs rest) g2 r2 ?_ (by omega)
      rw [r2]; simp only [List.length_cons, List.length_append]; omega
    · intro s3 g3 r3 d3
      have := hS s3 rest F (acc ++ [x']) g3 r3
        (by rw [r3]; simp only [List.length_cons, List.length_append]; simp; omega) (by omega)
      simpa using this

theorem atom_rtW (p : Print.Options) (cfg : Cfg) (ryu : Nat → List UInt8) (v w : Value)
    (h1 : v.isCons = false) (h2 : v.isVector = false)
    (hrun : ∀ (s : St) (rest : List UInt8) (fuel : Nat), ListRT.Follow rest → Good s →
      s.rd.rest = atomTextP p ryu v ++ rest → fuel ≥ s.rd.rest.length + 2 →
      nestingP p v + 1 ≤ s.depth → Runs (nextValue cfg fuel) s (some w) rest) :
    ValueRTW p cfg ryu v w := by
  intro s rest fuel hf hg hr hfu hd
  rw [textP_atom p ryu v h1 h2] at hr
  exact hrun s rest fuel hf hg hr (by omega) hd

/-! ## 3. The mutual recursion -/

open FullRT in
theorem text_headW (p : Print.Options) (cfg : Cfg) (ryu : Nat → List UInt8) (v : Value)
    (h : AllLeaves (AtomOKW p cfg ryu) v) : ElemHead (text p ryu v) := by
  cases v with
  | cons a d =>
    rw [textP_cons]
    exact head_of_byte _ _ (by decide) (by decide) (by decide) (by decide) (by decide)
  | vector xs => rw [textP_vector]; exact vopen_head p _
  | null =>
    rw [textP_null]
    exact head_of_byte _ _ (by decide) (by decide) (by decide) (by decide) (by decide)
  | nil => simp only [AllLeaves] at h; rw [textP_atom p ryu _ rfl rfl]; exact h.2.2.2.1
  | bool _ => simp only [AllLeaves] at h; rw [textP_atom p ryu _ rfl rfl]; exact h.2.2.2.1
  | number _ => simp only [AllLeaves] at h; rw [textP_atom p ryu _ rfl rfl]; exact h.2.2.2.1
  | char _ => simp only [AllLeaves] at h; rw [textP_atom p ryu _ rfl rfl]; exact h.2.2.2.1
  | string _ => simp only [AllLeaves] at h; rw [textP_atom p ryu _ rfl rfl]; exact h.2.2.2.1
  | symbol _ => simp only [AllLeaves] at h; rw [textP_atom p ryu _ rfl rfl]; exact h.2.2.2.1
  | keyword _ => simp only [AllLeaves] at h; rw [textP_atom p ryu _ rfl rfl]; exact h.2.2.2.1
  | bytes _ => simp only [AllLeaves] at h; rw [textP_atom p ryu _ rfl rfl]; exact h.2.2.2.1

/-- value and tail statements for an atom leaf -/
theorem leaf_rtW (p : Print.Options) (cfg : Cfg) (ryu : Nat → List UInt8) (v : Value)
    (h : AtomOKW p cfg ryu v) :
    ∃ w, Value.approxEq (fold p cfg.opts v) w ∧ ValueRTW p cfg ryu v w ∧
      TailRTW p cfg ryu v w := by
  obtain ⟨h1, h2, h3, hh, w, hw, hrun⟩ := h
  have hv := atom_rtW p cfg ryu v w h1 h2 hrun
  refine ⟨w, hw, hv, tail_dotted_rtW p cfg ryu v w hv ?_ h1 h3 (nestingP_atom p v h1 h2 h3)⟩
  rw [textP_atom p ryu v h1 h2]; exact hh

open FullRT in
mutual
theorem value_rtW (p : Print.Options) (cfg : Cfg) (ryu : Nat → List UInt8)
    (hb : p.vector = .brackets → cfg.opts.brackets = .vector) :
    ∀ v : Value, AllLeaves (AtomOKW p cfg ryu) v →
      ∃ w, Value.approxEq (fold p cfg.opts v) w ∧ ValueRTW p cfg ryu v w
  | .cons a d, h => by
    simp only [AllLeaves] at h
    obtain ⟨a', ha, hA⟩ := value_rtW p cfg ryu hb a h.1
    obtain ⟨d', hd, hD⟩ := tail_rtW p cfg ryu hb d h.2
    refine ⟨.cons a' d', ?_, cons_rtW p cfg ryu a d a' d' hA (text_headW p cfg ryu a h.1) hD⟩
    rw [fold_cons]; simp only [Value.approxEq]; exact ⟨a', d', rfl, ha, hd⟩
  | .vector xs, h => by
    simp only [AllLeaves] at h
    obtain ⟨ws, hw, hS⟩ := seq_rtW p cfg ryu hb true xs h
    refine ⟨.vector ws, ?_, vector_rtW p cfg ryu xs ws hb hS⟩
    rw [fold_vector]; simp only [Value.approxEq]; exact ⟨ws, rfl, hw⟩
  | .null, _ => ⟨.null, by rw [fold_null]; simp only [Value.approxEq], null_rtW p cfg ryu⟩
  | .nil, h => by
    simp only [AllLeaves] at h; obtain ⟨w, a, b, _⟩ := leaf_rtW p cfg ryu _ h; exact ⟨w, a, b⟩
  | .bool _, h => by
    simp only [AllLeaves] at h; obtain ⟨w, a, b, _⟩ := leaf_rtW p cfg ryu _ h; exact ⟨w, a, b⟩
  | .number _, h => by
    simp only [AllLeaves] at h; obtain ⟨w, a, b, _⟩ := leaf_rtW p cfg ryu _ h; exact ⟨w, a, b⟩
  | .char _, h => by
    simp only [AllLeaves] at h; obtain ⟨w, a, b, _⟩ := leaf_rtW p cfg ryu _ h; exact ⟨w, a, b⟩
  | .string _, h => by
    simp only [AllLeaves] at h; obtain ⟨w, a, b, _⟩ := leaf_rtW p cfg ryu _ h; exact ⟨w, a, b⟩
  | .symbol _, h => by
    simp only [AllLeaves] at h; obtain ⟨w, a, b, _⟩ := leaf_rtW p cfg ryu _ h; exact ⟨w, a, b⟩
  | .keyword _, h => by
    simp only [AllLeaves] at h; obtain ⟨w, a, b, _⟩ := leaf_rtW p cfg ryu _ h; exact ⟨w, a, b⟩
  | .bytes _, h => by
    simp only [AllLeaves] at h; obtain ⟨w, a, b, _⟩ := leaf_rtW p cfg ryu _ h; exact ⟨w, a, b⟩
theorem tail_rtW (p : Print.Options) (cfg : Cfg) (ryu : Nat → List UInt8)
    (hb : p.vector = .brackets → cfg.opts.brackets = .vector) :
    ∀ d : Value, AllLeaves (AtomOKW p cfg ryu) d →
      ∃ w, Value.approxEq (fold p cfg.opts d) w ∧ TailRTW p cfg ryu d w
  | .cons a d, h => by
    simp only [AllLeaves] at h
    obtain ⟨a', ha, hA⟩ := value_rtW p cfg ryu hb a h.1
    obtain ⟨d', hd, hD⟩ := tail_rtW p cfg ryu hb d h.2
    refine ⟨.cons a' d', ?_,
      tail_cons_rtW p cfg ryu a d a' d' hA (text_headW p cfg ryu a h.1) hD⟩
    rw [fold_cons]; simp only [Value.approxEq]; exact ⟨a', d', rfl, ha, hd⟩
  | .vector xs, h => by
    have hh := text_headW p cfg ryu (.vector xs) h
    simp only [AllLeaves] at h
    obtain ⟨ws, hw, hS⟩ := seq_rtW p cfg ryu hb true xs h
    refine ⟨.vector ws, ?_, tail_dotted_rtW p cfg ryu (.vector xs) (.vector ws)
      (vector_rtW p cfg ryu xs ws hb hS) hh rfl (by simp) (by simp [nestingP, nestingTailP])⟩
    rw [fold_vector]; simp only [Value.approxEq]; exact ⟨ws, rfl, hw⟩
  | .null, _ => ⟨.null, by rw [fold_null]; simp only [Value.approxEq], tail_null_rtW p cfg ryu⟩
  | .nil, h => by
    simp only [AllLeaves] at h; obtain ⟨w, a, _, c⟩ := leaf_rtW p cfg ryu _ h; exact ⟨w, a, c⟩
  | .bool _, h => by
    simp only [AllLeaves] at h; obtain ⟨w, a, _, c⟩ := leaf_rtW p cfg ryu _ h; exact ⟨w, a, c⟩
  | .number _, h => by
    simp only [AllLeaves] at h; obtain ⟨w, a, _, c⟩ := leaf_rtW p cfg ryu _ h; exact ⟨w, a, c⟩
  | .char _, h => by
    simp only [AllLeaves] at h; obtain ⟨w, a, _, c⟩ := leaf_rtW p cfg ryu _ h; exact ⟨w, a, c⟩
  | .string _, h => by
    simp only [AllLeaves] at h; obtain ⟨w, a, _, c⟩ := leaf_rtW p cfg ryu _ h; exact ⟨w, a, c⟩
  | .symbol _, h => by
    simp only [AllLeaves] at h; obtain ⟨w, a, _, c⟩ := leaf_rtW p cfg ryu _ h; exact ⟨w, a, c⟩
  | .keyword _, h => by
    simp only [AllLeaves] at h; obtain ⟨w, a, _, c⟩ := leaf_rtW p cfg ryu _ h; exact ⟨w, a, c⟩
  | .bytes _, h => by
    simp only [AllLeaves] at h; obtain ⟨w, a, _, c⟩ := leaf_rtW p cfg ryu _ h; exact ⟨w, a, c⟩
theorem seq_rtW (p : Print.Options) (cfg : Cfg) (ryu : Nat → List UInt8)
    (hb : p.vector = .brackets → cfg.opts.brackets = .vector) :
    ∀ (first : Bool) (xs : List Value), AllLeavesSeq (AtomOKW p cfg ryu) xs →
      ∃ ws, Value.approxEqList (foldList p cfg.opts xs) ws ∧ SeqRTW p cfg ryu first xs ws
  | first, [], _ =>
    ⟨[], by rw [foldList_nil]; simp only [Value.approxEqList], seq_nil_rtW p cfg ryu first⟩
  | first, x :: xs, h => by
    simp only [AllLeavesSeq] at h
    obtain ⟨x', hx, hX⟩ := value_rtW p cfg ryu hb x h.1
    obtain ⟨ws, hw, hS⟩ := seq_rtW p cfg ryu hb false xs h.2
    refine ⟨x' :: ws, ?_,
      seq_cons_rtW p cfg ryu first x x' xs ws hX (text_headW p cfg ryu x h.1) hS⟩
    rw [foldList_cons]; simp only [Value.approxEqList]; exact ⟨x', ws, rfl, hx, hw⟩
end

/-! ## 4. Float leaves -/

/-- **atomOKW_float.**  A finite float with `RyuSpecOnly` is a good leaf for the relational
    structure theorem under every printer / parser pair. -/
theorem atomOKW_float (p : Print.Options) (cfg : Cfg) (ryu : Nat → List UInt8) (b : Nat)
    (h : RyuSpecOnly cfg ryu b) : AtomOKW p cfg ryu (.number (.flt b)) := by
  obtain ⟨b', hcl, _, htok⟩ := atomRT_float_approx cfg ryu b h
  refine ⟨rfl, rfl, by simp, by rw [FullRT.atomTextP_flt]; exact float_head cfg ryu b h,
    .number (.flt b'), ?_, ?_⟩
  · have : fold p cfg.opts (.number (.flt b)) = .number (.flt b) := by simp [fold]
    rw [this]; simp only [Value.approxEq]; exact ⟨b', rfl, Or.inr hcl⟩
  · intro s rest fuel hf hg hr hfu _
    obtain ⟨F, rfl⟩ : ∃ F, fuel = F + 1 := ⟨fuel - 1, by omega⟩
    rw [FullRT.atomTextP_flt] at hr
    obtain ⟨c, tl, ht, h1, h2, -⟩ := float_head cfg ryu b h
    have hr1 : (adv s 0 (s.rd.mode == .io)).rd.rest = ryu b ++ rest := by simp [hr]
    have hl : LexesAs cfg ((ryu b ++ rest).length + 1) (adv s 0 (s.rd.mode == .io)) (ryu b)
        (.number (.flt b')) :=
      ⟨c, endPeek (adv s 0 (s.rd.mode == .io)) rest, by rw [ht]; rfl, h1, h2,
        htok ((ryu b ++ rest).length + 1) (adv s 0 (s.rd.mode == .io)) rest c hr1
          (by rw [ht]; rfl) (by simp) ((ListRT.follow_iff rest).mp hf)
          (by simpa using fun _ => hg.2)⟩
    obtain ⟨q, hq⟩ := nextValue_of_lexes cfg F s _ rest _ _ hr hl rfl
    exact ListRT.runs_of_adv _ s _ _ q rest hg hq (by simp [hr])

#print axioms value_rtW
#print axioms atomOKW_float

end FloatApprox
end Lexpr
