/-
  Property C05, accuracy clause for decimal literals with ANY written exponent
  (`C05_accuracy_all_exponents`).

  `AccuracyTrunc.C05_accuracy_any_literal` needs `|ip| + |fp| + |exponent| ≤ i32::MAX` (no
  saturation of the `i32` exponent arithmetic); `ExpOverflowVal.C05_exp_overflow` covers exponent
  digit strings whose value leaves `i32`.  This file closes the band in between — the written
  exponent fits `i32`, but `starting_exp.saturating_add(exp)` / `saturating_sub` may saturate —
  and states the three together: for every literal of at most `2^31 - 324` bytes the result is a
  finite double within `2^-50` relative (`+ 2^-1074`) of the exact value, or `NumberOutOfRange`.

  Saturation is harmless below that length: a saturated positive exponent is `i32::MAX` with a
  non-zero significand (out of range, and so is the exact value), a saturated negative one is
  `i32::MIN` (the result is below `2^-1074`, and so is the exact value).
-/
import LexprModel.Proofs.ExpOverflowVal
import LexprModel.Proofs.AccuracyEx
namespace Lexpr
namespace ExpOverflow
open Parse F64 Numbers Decimals Accuracy

/-! ## 1. The scanners, exponent inside `i32`, no condition relating it to the lengths -/

/-- `Decimals.scan_long` with its hypothesis `more.length + 1 + exAbs ex ≤ i32Max` split into
    the two facts actually used -/
theorem scan_long_w (cfg : Cfg) (fuel : Nat) (pos : Bool) (c : UInt8) (pre : List UInt8) (d : UInt8)
    (more : List UInt8) (fp : Option (List UInt8)) (ex : Option ExpPart) (rest : List UInt8)
    (s : St) (hip : AllDigits ((c :: pre) ++ d :: more))
    (hfp : ∀ g, fp = some g → g ≠ [] ∧ AllDigits g) (hex : ∀ e, ex = some e → e.WF)
    (hrest : s.rd.rest = ((c :: pre) ++ d :: more) ++ (fracText fp ++ (expText ex ++ rest)))
    (hstop : ScanStop rest)
    (hdot : fp = none → ex = none → (rest.head?.getD 0 == 46) = false)
    (hf : rest = [] → s.rd.faulty = false)
    (hpre : dv 0 (c :: pre) ≤ u64Max) (hov : u64Max < dv 0 (c :: pre) * 10 + (d.toNat - 48))
    (hmore : more.length + 1 ≤ i32Max) (hexa : exAbs ex ≤ i32Max)
    (hfuel : (((c :: pre) ++ d :: more) ++ (fracText fp ++ expText ex)).length + 1 ≤ fuel) :
    parseNumLiteral cfg fuel 10 pos s =
      (f64FromParts cfg pos (scanTail fp ex (dv 0 (c :: pre)) ((1 + more.length : Nat) : Int)).1
          (scanTail fp ex (dv 0 (c :: pre)) ((1 + more.length : Nat) : Int)).2 >>=
        fun g => pure (Number.ofF64 g))
        (adv s (((c :: pre) ++ d :: more) ++ (fracText fp ++ expText ex)).length (endPeek s rest)) := by
  have hdc : isDigit c = true := hip c (by simp)
  have hdd : isDigit d = true := hip d (by simp)
  have hdpre : AllDigits pre := fun x hx => hip x (by simp [hx])
  have hdmore : AllDigits more := fun x hx => hip x (by simp [hx])
  obtain ⟨hlt, hdv, -⟩ := isDigit_val c hdc
  have hI : dv (c.toNat - 48) pre = dv 0 (c :: pre) := by simp
  simp only [List.cons_append, List.append_assoc, List.length_cons, List.length_append] at hrest hfuel
  obtain ⟨f, rfl⟩ : ∃ f, fuel = (f + more.length + 1 - 1) + pre.length + 1 :=
    ⟨fuel - pre.length - 1 - more.length, by omega⟩
  unfold parseNumLiteral
  simp only [bind_apply, nx_cons s _ _ hrest, hdv, Nat.not_le.mpr hlt, ge_iff_le, if_false]
  have h1 := numLoop_ovf cfg pos d (more ++ (fracText fp ++ (expText ex ++ rest))) hdd pre
    (c.toNat - 48) (f + more.length + 1 - 1) (adv s 1 false) hdpre (by simp [hrest]) (by simp)
    (by rw [hI]; exact hpre) (by rw [hI]; exact hov)
  simp only [bind_apply] at h1
  rw [h1, hI]
  have e1 : f + more.length + 1 - 1 + 1 = f + more.length + 1 := by omega
  rw [e1]
  have hfl : (fracText fp).length + (expText ex).length + 2 ≤ f := by omega
  rw [longInt_run cfg pos (dv 0 (c :: pre)) fp ex rest f
    (fun g hg => ⟨(hfp g hg).1, (hfp g hg).2, by subst hg; simp only [fracText, List.length_cons] at hfl; omega⟩)
    (fun e he => ⟨hex e he, by subst he; simpa only [exAbs] using hexa, by
      subst he
      simp only [expText, ExpPart.text, List.length_cons, List.length_append] at hfl
      omega⟩)
    hstop hdot more 1 _ hdmore (by rw [adv_adv, adv_rest, hrest]; exact drop_cons_pre _ _ _ _)
    (by simp) (by simpa using hf) (by unfold i32Max at *; omega)]
  simp only [adv_adv, endPeek_adv, List.length_cons, List.length_append]
  adv_arith

/-- `Decimals.C05_scan_any` with `ip.length ≤ i32::MAX` and `|exponent| ≤ i32::MAX` instead of
    a bound on their sum -/
theorem scan_any_w (cfg : Cfg) (fuel : Nat) (pos : Bool) (L : DecLit) (rest : List UInt8) (s : St)
    (hipne : L.ip ≠ []) (hipd : AllDigits L.ip)
    (hfp : ∀ g, L.fp = some g → g ≠ [] ∧ AllDigits g) (hex : ∀ e, L.ex = some e → e.WF)
    (hfloat : L.fp.isSome = true ∨ L.ex.isSome = true ∨ u64Max < dv 0 L.ip)
    (hrest : s.rd.rest = L.text ++ rest) (hstop : ScanStop rest)
    (hdot : L.fp = none → L.ex = none → (rest.head?.getD 0 == 46) = false)
    (hf : rest = [] → s.rd.faulty = false)
    (hip : L.ip.length ≤ i32Max) (hexa : exAbs L.ex ≤ i32Max) (hfuel : L.text.length + 1 ≤ fuel) :
    parseNumLiteral cfg fuel 10 pos s =
      (f64FromParts cfg pos L.scanT.1 L.scanT.2 >>= fun g => pure (Number.flt g))
        (adv s L.text.length (endPeek s rest)) := by
  rcases int_split L.ip 0 (by decide) with hfit | ⟨pre, d, more, hsplit, hpre, hov⟩
  · have hwf : L.WF := by
      refine ⟨hipne, hipd, hfp, hex, ?_⟩
      rcases hfloat with h | h | h
      · exact Or.inl h
      · exact Or.inr h
      · omega
    have := scan_fits cfg fuel pos L rest s hwf hrest hstop hf hfit hexa hfuel
    rw [this]
    simp only [DecLit.scanT, intScan_fits L.ip 0 hipd hfit, Int.natCast_zero]
    rfl
  · obtain ⟨ip, fp, ex⟩ := L
    simp only [] at hsplit hipd hipne hfp hex hrest hdot hip hexa hfuel
    subst hsplit
    cases pre with
    | nil =>
      exfalso
      have := (isDigit_val d (hipd d (by simp))).1
      simp only [dv_nil] at hov
      unfold u64Max at hov; omega
    | cons c pre =>
      simp only [DecLit.text, List.length_append, List.length_cons] at hrest hip hfuel ⊢
      have := scan_long_w cfg fuel pos c pre d more fp ex rest s hipd hfp hex
        (by simpa using hrest) hstop hdot hf hpre hov (by omega) hexa
        (by simp only [List.length_append, List.length_cons] at hfuel ⊢; omega)
      rw [this]
      simp only [DecLit.scanT, intScan_split (c :: pre) 0 d more hipd hpre hov,
        List.length_append, List.length_cons]
      have e1 : ((1 + more.length : Nat) : Int) = ((more.length + 1 : Nat) : Int) := by omega
      rw [e1]
      rfl

/-! ## 2. The scanned exponent: written exponent added, with saturation -/

theorem scanT_snd_ex (ip : List UInt8) (fp : Option (List UInt8)) (ex : Option ExpPart) :
    (DecLit.scanT ⟨ip, fp, ex⟩).2 = finExp (DecLit.scanT ⟨ip, fp, none⟩).2 ex := by
  cases fp <;> rfl

theorem intScan_bounds (ip : List UInt8) (hipd : AllDigits ip) :
    (intScan ip 0).1 ≤ u64Max ∧ (intScan ip 0).2 ≤ ip.length := by
  rcases int_split ip 0 (by decide) with hfit | ⟨pre, d, more, hsplit, hpre, hov⟩
  · rw [intScan_fits ip 0 hipd hfit]; exact ⟨hfit, Nat.zero_le _⟩
  · subst hsplit
    rw [intScan_split pre 0 d more hipd hpre hov]
    exact ⟨hpre, by simp⟩

/-- the exponent after the significand: between minus the number of fraction digits and the
    number of integer digits -/
theorem scanT0_bounds (ip : List UInt8) (fp : Option (List UInt8)) (hipd : AllDigits ip)
    (hfp : ∀ g, fp = some g → AllDigits g) :
    (DecLit.scanT ⟨ip, fp, none⟩).1 ≤ u64Max ∧
    -(((fp.getD []).length : Nat) : Int) ≤ (DecLit.scanT ⟨ip, fp, none⟩).2 ∧
    (DecLit.scanT ⟨ip, fp, none⟩).2 ≤ (ip.length : Int) := by
  obtain ⟨h1, h2⟩ := intScan_bounds ip hipd
  cases fp with
  | none =>
    simp only [DecLit.scanT, scanTail, finExp, Option.getD_none, List.length_nil]
    exact ⟨h1, by omega, by omega⟩
  | some f =>
    obtain ⟨a, b, c⟩ := fracScan_bounds f (intScan ip 0).1 ((intScan ip 0).2 : Int) 0 (hfp f rfl) h1
    simp only [DecLit.scanT, scanTail, finExp, Option.getD_some]
    exact ⟨a, by omega, by omega⟩

theorem finExp_exact (se : Int) (ex : Option ExpPart)
    (h1 : -(i32Max : Int) - 1 ≤ se + exVal ex) (h2 : se + exVal ex ≤ (i32Max : Int)) :
    finExp se ex = se + exVal ex := by
  cases ex with
  | none => simp [finExp, exVal]
  | some e =>
    simp only [finExp, expFin, ExpPart.val, exVal] at h1 h2 ⊢
    unfold i32Max at h1 h2 ⊢
    cases hsg : expSignPos e.sign
    · simp only [hsg, Bool.false_eq_true, if_false] at h1 h2 ⊢; omega
    · simp only [hsg, if_true] at h1 h2 ⊢; omega

theorem finExp_sat_pos (se : Int) (e : ExpPart) (hp : expSignPos e.sign = true)
    (h : (i32Max : Int) < se + (e.abs : Int)) : finExp se (some e) = (i32Max : Int) := by
  simp only [finExp, expFin, hp, if_true]
  unfold i32Max at h ⊢; omega

theorem finExp_sat_neg (se : Int) (e : ExpPart) (hp : expSignPos e.sign = false)
    (h : se - (e.abs : Int) < -(i32Max : Int) - 1) :
    finExp se (some e) = -(i32Max : Int) - 1 := by
  simp only [finExp, expFin, hp, Bool.false_eq_true, if_false]
  unfold i32Max at h ⊢; omega

/-! ## 3. Values -/

theorem dec_add (S : Nat) (a b : Int) : dec S (a + b) = dec S a * (10 : Rat) ^ b := by
  unfold dec
  rw [Rat.zpow_add ten_ne, Rat.mul_assoc]

theorem litValue_shift (ip : List UInt8) (fp : Option (List UInt8)) (ex : Option ExpPart) :
    litValue ⟨ip, fp, ex⟩ = litValue ⟨ip, fp, none⟩ * (10 : Rat) ^ (exVal ex) := by
  unfold litValue
  rw [← dec_add]
  have h1 : DecLit.rawSig ⟨ip, fp, ex⟩ = DecLit.rawSig ⟨ip, fp, none⟩ := rfl
  have h2 : DecLit.rawExp ⟨ip, fp, ex⟩ = DecLit.rawExp ⟨ip, fp, none⟩ + exVal ex := by
    simp only [DecLit.rawExp, DecLit.expVal, exVal]; omega
  rw [h1, h2]

theorem tiny_sat : (2 : Rat) ^ 64 * (10 : Rat) ^ (-700 : Int) * (1 + cTight) + aTight ≤ a1074 := by
  decide +kernel

/-- a `u64` significand with a decimal exponent below `-700`: whatever `f64_from_parts`
    returns within its error bound is below `2^-1074` -/
theorem dec_sat_small {sig : Nat} {e : Int} (hs : sig ≤ u64Max) (he : e ≤ -700) :
    dec sig e * (1 + cTight) + aTight ≤ a1074 := by
  unfold dec
  have hsig : (sig : Rat) ≤ (2 : Rat) ^ 64 := by
    have := Rat.natCast_le_natCast.mpr (show sig ≤ 2 ^ 64 by unfold u64Max at hs; omega)
    rw [Rat.natCast_pow] at this
    exact this
  have h0 : (0 : Rat) ≤ (sig : Rat) := by
    have := Rat.natCast_le_natCast.mpr (Nat.zero_le sig); simpa using this
  have h1 := ten_zpow_mono he
  have h2 := mul_le_mul_nn hsig h1 h0 (Rat.le_of_lt (ten_zpow_pos e))
  have h3 := Rat.mul_le_mul_of_nonneg_right h2 one_add_cTight_nonneg
  have := tiny_sat
  grind

set_option exponentiation.threshold 2048 in
/-- a non-zero significand with the decimal exponent `i32::MAX` is out of range (the power of
    ten is never evaluated) -/
theorem big_sat {S : Nat} (hS0 : S ≠ 0) :
    2 ^ 1024 * 10 ^ (-((i32Max : Nat) : Int)).toNat ≤ S * 10 ^ ((i32Max : Nat) : Int).toNat := by
  have e1 : (-((i32Max : Nat) : Int)).toNat = 0 := by omega
  have e2 : ((i32Max : Nat) : Int).toNat = i32Max := by omega
  rw [e1, e2, Nat.pow_zero, Nat.mul_one]
  have h1 : (10 : Nat) ^ 401 ≤ 10 ^ i32Max :=
    Nat.pow_le_pow_right (by decide) (by unfold i32Max; omega)
  have h3 : 10 ^ i32Max ≤ S * 10 ^ i32Max :=
    Nat.le_mul_of_pos_left _ (Nat.pos_of_ne_zero hS0)
  exact Nat.le_trans two1024_le_ten401 (Nat.le_trans h1 h3)

theorem c50_facts : (0 : Rat) ≤ 1 - c50 ∧ (0 : Rat) ≤ 1 + c50 ∧ (1 : Rat) - c50 ≤ 1 ∧
    (0 : Rat) ≤ a1074 ∧ eta ≤ a1074 := by decide +kernel

/-- bounds around `0` for an exact value `V` below `2^-1075` -/
theorem bounds_tiny {V v : Rat} (hV0 : 0 ≤ V) (hV : V < eta) (hv0 : 0 ≤ v) (hv : v ≤ a1074) :
    V * (1 - c50) - a1074 ≤ v ∧ v ≤ V * (1 + c50) + a1074 := by
  obtain ⟨f1, f2, f3, f4, f5⟩ := c50_facts
  have h1 := Rat.mul_le_mul_of_nonneg_left f3 hV0
  have h2 := Rat.mul_nonneg hV0 f2
  constructor <;> grind

/-! ## 4. Every exponent -/

set_option exponentiation.threshold 2048 in
/-- **C05_accuracy_all_exponents.**  Every decimal float literal
    `digits [. digits] [(e|E) [+|-] digits]` — any number of significand digits, ANY exponent
    digit string — of at most `2^31 - 324` bytes, followed by the end of the input or a byte that
    is neither a digit nor `e`/`E` (nor `.` after a bare over-long integer); every option set,
    both builds (fast build: `POW10` correctly rounded, discharged for the regenerated table by
    `Accuracy.tab_rounded`), all source modes.  One of:

    * the whole literal is consumed and the result is `±g`, `g` a finite double with
      `|g - value| ≤ 2^-50 * value + 2^-1074`, `value = litValue L` the exact value of the
      written literal (never infinity or NaN);
    * `NumberOutOfRange` at the end of the literal (from `f64_from_parts`);
    * the written exponent is positive and does not fit `i32`, some significand digit is not
      zero: `NumberOutOfRange`, raised right after the exponent digit that overflowed the
      accumulator, and `value ≥ 2^1024`.

    The second case is left open here as in `C05_accuracy_any_literal` (it happens only for
    values above `1.7976931348623157e308`, resp. the known finding near `f64::MAX`).  The length
    bound is needed: `ExpOverflow.length_bound_needed`. -/
theorem C05_accuracy_all_exponents (cfg : Cfg) (fuel : Nat) (pos : Bool) (L : DecLit)
    (rest : List UInt8) (s : St)
    (hipne : L.ip ≠ []) (hipd : AllDigits L.ip)
    (hfp : ∀ g, L.fp = some g → g ≠ [] ∧ AllDigits g) (hex : ∀ e, L.ex = some e → e.WF)
    (hfloat : L.fp.isSome = true ∨ L.ex.isSome = true ∨ u64Max < dv 0 L.ip)
    (hrest : s.rd.rest = L.text ++ rest) (hstop : ScanStop rest)
    (hdot : L.fp = none → L.ex = none → (rest.head?.getD 0 == 46) = false)
    (hf : rest = [] → s.rd.faulty = false)
    (hlen : L.text.length + 324 ≤ 2 ^ 31) (hfuel : L.text.length + 1 ≤ fuel)
    (hp : cfg.fast = true → ∀ k, k ≤ 308 → cfg.pow10 k = rn (10 ^ k) 1) :
    (∃ g, parseNumLiteral cfg fuel 10 pos s =
        .ok (Number.flt (signed pos g)) (adv s L.text.length (endPeek s rest)) ∧
      g < infBits ∧
      litValue L * (1 - c50) - a1074 ≤ val g ∧ val g ≤ litValue L * (1 + c50) + a1074) ∨
    parseNumLiteral cfg fuel 10 pos s =
      errAt .numberOutOfRange (adv s L.text.length (endPeek s rest)) ∨
    (∃ e, L.ex = some e ∧ i32Max < e.abs ∧ expSignPos e.sign = true ∧ L.rawSig ≠ 0 ∧
      parseNumLiteral cfg fuel 10 pos s = errAt .numberOutOfRange (adv s (errOffset L e) false) ∧
      (2 : Rat) ^ 1024 ≤ litValue L) := by
  have hfp' : ∀ g, L.fp = some g → AllDigits g := fun g hg => (hfp g hg).2
  have hfl := fracText_length L.fp
  have hV0 : 0 ≤ litValue L := dec_nonneg _ _
  have htl : L.ip.length + (fracText L.fp).length ≤ L.text.length := by
    simp only [DecLit.text, List.length_append]; omega
  have hz := scanT_zero_iff L hipd hfp' (by unfold i32Max; omega)
  by_cases hov : ∃ e, L.ex = some e ∧ i32Max < e.abs
  · -- the exponent digits leave `i32`
    obtain ⟨e, hexe, hov⟩ := hov
    obtain ⟨r0, rneg, rpos⟩ := C05_exp_overflow cfg fuel pos L e rest s hipne hipd hfp hexe
      (hex e hexe) hov hrest hstop hf hlen hfuel
    have hzero : ∀ V : Rat, 0 ≤ V → V < eta →
        V * (1 - c50) - a1074 ≤ val 0 ∧ val 0 ≤ V * (1 + c50) + a1074 := by
      intro V h1 h2
      rw [val_zero]
      exact bounds_tiny h1 h2 (Rat.le_refl) c50_facts.2.2.2.1
    by_cases h0 : L.rawSig = 0
    · obtain ⟨a, b⟩ := r0 h0
      refine Or.inl ⟨0, a, by decide, ?_⟩
      rw [b]
      exact hzero 0 Rat.le_refl eta_pos
    · cases hsg : expSignPos e.sign with
      | false =>
        obtain ⟨a, b, c⟩ := rneg h0 hsg
        exact Or.inl ⟨0, a, by decide, hzero _ (Rat.le_of_lt b) c⟩
      | true =>
        obtain ⟨a, b⟩ := rpos h0 hsg
        exact Or.inr (Or.inr ⟨e, hexe, hov, hsg, h0, a, b⟩)
  · -- the exponent fits `i32`
    have hexa : exAbs L.ex ≤ i32Max := by
      cases hx : L.ex with
      | none => simp [exAbs]
      | some e =>
        simp only [exAbs]
        exact Nat.le_of_not_lt (fun h => hov ⟨e, hx, h⟩)
    rw [scan_any_w cfg fuel pos L rest s hipne hipd hfp hex hfloat hrest hstop hdot hf
      (by unfold i32Max; omega) hexa hfuel]
    obtain ⟨ip, fp, ex⟩ := L
    simp only [] at hipd hfp' hfl htl hexa hV0 hz
    obtain ⟨hS, hlo, hhi⟩ := scanT0_bounds ip fp hipd hfp'
    obtain ⟨Pn, Vn, q, c1, c2, c3⟩ := scanT_close ⟨ip, fp, none⟩ hipd hfp'
      (by simp only [exAbs]; unfold i32Max; omega)
    rw [scanT_fst_ex ip fp ex none] at hz ⊢
    rw [scanT_snd_ex ip fp ex]
    generalize (DecLit.scanT ⟨ip, fp, none⟩).1 = S at *
    generalize (DecLit.scanT ⟨ip, fp, none⟩).2 = se at *
    rcases f64FromParts_cases cfg pos S (finExp se ex)
        (adv s (DecLit.text ⟨ip, fp, ex⟩).length (endPeek s rest)) with ⟨r, hr⟩ | he
    · obtain ⟨g, e1, _, e3, ⟨e4, e5⟩, _⟩ :=
        C05_accuracy_parts_tight cfg pos S (finExp se ex) _ _ r hS hp hr
      subst e1
      refine Or.inl ⟨g, by simp only [bind_apply, hr, pure_apply], e3, ?_⟩
      -- the three shapes of the exponent arithmetic
      have hexact : finExp se ex = se + exVal ex →
          litValue ⟨ip, fp, ex⟩ * (1 - c50) - a1074 ≤ val g ∧
          val g ≤ litValue ⟨ip, fp, ex⟩ * (1 + c50) + a1074 := by
        intro hfin
        rw [hfin, dec_add, c1, ← dec_add] at e4 e5
        have c2' : litValue ⟨ip, fp, ex⟩ = dec Vn (q + exVal ex) := by
          rw [litValue_shift, c2, ← dec_add]
        obtain ⟨t1, t2⟩ := close_rat (q + exVal ex) c3
        rw [← c2'] at t1 t2
        exact combine hV0 t1 t2 e4 e5
      cases ex with
      | none =>
        exact hexact (finExp_exact se none (by simp only [exVal]; unfold i32Max; omega)
          (by simp only [exVal]; unfold i32Max; omega))
      | some e =>
        simp only [exAbs, ExpPart.abs] at hexa
        cases hsg : expSignPos e.sign with
        | true =>
          by_cases hsat : se + (e.abs : Int) ≤ (i32Max : Int)
          · exact hexact (finExp_exact se (some e)
              (by simp only [exVal, ExpPart.val, hsg, if_true]; unfold i32Max; omega)
              (by simp only [exVal, ExpPart.val, hsg, if_true]; exact hsat))
          · -- saturated at `i32::MAX`: only a zero significand gets here
            have hfin := finExp_sat_pos se e hsg (by omega)
            rw [hfin] at hr e4 e5
            by_cases hS0 : S = 0
            · subst hS0
              have hraw := hz.mp rfl
              rw [litValue_zero _ hraw]
              rw [dec_zero_left] at e4 e5
              have := aTight_le
              constructor <;> grind
            · exfalso
              by_cases hfast : cfg.fast = true
              · rw [out_of_range_fast cfg pos S _ hfast (Nat.pos_of_ne_zero hS0)
                  (by unfold i32Max; omega)] at hr
                cases hr
              · have hfast' : cfg.fast = false := by simpa using hfast
                rw [out_of_range_slow cfg pos S _ hfast' hS (big_sat hS0)] at hr
                cases hr
        | false =>
          by_cases hsat : -(i32Max : Int) - 1 ≤ se - (e.abs : Int)
          · exact hexact (finExp_exact se (some e)
              (by simp only [exVal, ExpPart.val, hsg, Bool.false_eq_true, if_false]; omega)
              (by
                simp only [exVal, ExpPart.val, hsg, Bool.false_eq_true, if_false]
                unfold i32Max; omega))
          · -- saturated at `i32::MIN`: result and exact value are both below `2^-1074`
            have hfin := finExp_sat_neg se e hsg (by omega)
            rw [hfin] at e5
            have hsmall := dec_sat_small (sig := S) (e := -(i32Max : Int) - 1) hS
              (by unfold i32Max; omega)
            have hlit : litValue ⟨ip, fp, some e⟩ < eta := by
              unfold litValue
              apply dec_lt_eta (rawSig_lt ⟨ip, fp, some e⟩ hipd hfp')
              rw [rawExp_some ⟨ip, fp, some e⟩ e rfl, hsg]
              simp only [Bool.false_eq_true, if_false, DecLit.text, List.length_append] at hlen ⊢
              unfold i32Max at hsat
              omega
            exact bounds_tiny hV0 hlit (val_nonneg g) (Rat.le_trans e5 hsmall)
    · exact Or.inr (Or.inl (by simp only [bind_apply, he, errAt]))

/-! ## 5. The hypotheses are satisfiable -/

/-- `1.50e+99999999999` (exponent beyond `i32`), default build with the regenerated table -/
example (pos : Bool) :=
  C05_accuracy_all_exponents exCfgFast 30 pos exOver (asc ")") (exSt (exOver.text ++ asc ")"))
    (by decide) (by decide) (fun g hg => by cases hg; exact ⟨by decide, by decide⟩)
    (fun e he => by cases he; exact ⟨Or.inl rfl, Or.inr (Or.inl rfl), by decide, by decide⟩)
    (Or.inl rfl) rfl (by decide) (fun h => by cases h) (fun h => by cases h) (by decide)
    (by decide) (fun _ => tab_rounded)

/-- `1.25e-23` (an ordinary exponent), both builds -/
example (pos : Bool) :=
  C05_accuracy_all_exponents exCfgFast 11 pos exLit2 (asc ")") (exSt (exLit2.text ++ asc ")"))
    (by decide) (by decide) (fun g hg => by cases hg; exact ⟨by decide, by decide⟩)
    (fun e he => by cases he; exact ⟨Or.inl rfl, Or.inr (Or.inr rfl), by decide, by decide⟩)
    (Or.inl rfl) rfl (by decide) (fun h => by cases h) (fun h => by cases h) (by decide)
    (by decide) (fun _ => tab_rounded)
example (pos : Bool) :=
  C05_accuracy_all_exponents exCfgSlow 11 pos exLit2 (asc ")") (exSt (exLit2.text ++ asc ")"))
    (by decide) (by decide) (fun g hg => by cases hg; exact ⟨by decide, by decide⟩)
    (fun e he => by cases he; exact ⟨Or.inl rfl, Or.inr (Or.inr rfl), by decide, by decide⟩)
    (Or.inl rfl) rfl (by decide) (fun h => by cases h) (fun h => by cases h) (by decide)
    (by decide) (fun h => by cases h)

/-- the exponent arithmetic of the band in between, on small numbers: `saturating_add` /
    `saturating_sub` as modelled by `finExp` -/
example : finExp 5 (some ⟨101, [], asc "2147483647"⟩) = 2147483647 ∧
    finExp (-5) (some ⟨101, [], asc "2147483647"⟩) = 2147483642 ∧
    finExp (-5) (some ⟨101, [45], asc "2147483647"⟩) = -2147483648 ∧
    finExp 5 (some ⟨101, [45], asc "2147483647"⟩) = -2147483642 := by decide

#print axioms C05_accuracy_all_exponents

end ExpOverflow
end Lexpr
