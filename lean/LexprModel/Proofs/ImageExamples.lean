/-
  ImageExamples — C13: instances of the theorems of `Image.lean` on accepted texts that use
  alternative spellings (non-vacuity), and the witnesses that show each side condition necessary.

  Acceptance facts are checked by the kernel (`decide +kernel`) through a Boolean comparison of the
  value read with the expected one (`veq`, structural equality; `Value` has no `DecidableEq`).
-/
import LexprModel.Proofs.Image
namespace Lexpr
namespace Parse
namespace Image
open Utf8 Spec

/-! ### a decidable check of what a text is read as -/

mutual
def veq : Value → Value → Bool
  | .nil, .nil => true
  | .null, .null => true
  | .bool a, .bool b => a == b
  | .number a, .number b => decide (a = b)
  | .char a, .char b => a == b
  | .string a, .string b => a == b
  | .symbol a, .symbol b => a == b
  | .keyword a, .keyword b => a == b
  | .bytes a, .bytes b => a == b
  | .cons a d, .cons a' d' => veq a a' && veq d d'
  | .vector xs, .vector ys => veqList xs ys
  | _, _ => false
def veqList : List Value → List Value → Bool
  | [], [] => true
  | x :: xs, y :: ys => veq x y && veqList xs ys
  | _, _ => false
end

mutual
theorem veq_eq : ∀ a b : Value, veq a b = true → a = b
  | .nil, b, h => by cases b <;> simp [veq] at h ⊢
  | .null, b, h => by cases b <;> simp [veq] at h ⊢
  | .bool x, b, h => by cases b <;> simp [veq] at h ⊢; exact h
  | .number x, b, h => by cases b <;> simp [veq] at h ⊢; exact h
  | .char x, b, h => by cases b <;> simp [veq] at h ⊢; exact h
  | .string x, b, h => by cases b <;> simp [veq] at h ⊢; exact h
  | .symbol x, b, h => by cases b <;> simp [veq] at h ⊢; exact h
  | .keyword x, b, h => by cases b <;> simp [veq] at h ⊢; exact h
  | .bytes x, b, h => by cases b <;> simp [veq] at h ⊢; exact h
  | .cons a d, b, h => by
    cases b <;> simp [veq] at h ⊢
    exact ⟨veq_eq _ _ h.1, veq_eq _ _ h.2⟩
  | .vector xs, b, h => by
    cases b <;> simp [veq] at h ⊢
    exact veqList_eq _ _ h
theorem veqList_eq : ∀ xs ys : List Value, veqList xs ys = true → xs = ys
  | [], ys, h => by cases ys <;> simp [veqList] at h ⊢
  | x :: xs, ys, h => by
    cases ys <;> simp [veqList] at h ⊢
    exact ⟨veq_eq _ _ h.1, veqList_eq _ _ h.2⟩
end

/-- `from_slice_custom(bytes)` is `Ok(v)` -/
def parsesTo (cfg : Cfg) (bytes : List UInt8) (v : Value) : Bool :=
  match fromTrait cfg (initSt .slice bytes) with
  | .ok w _ => veq w v
  | _ => false

theorem parsesTo_spec {cfg : Cfg} {bytes : List UInt8} {v : Value}
    (h : parsesTo cfg bytes v = true) : ∃ s1, fromTrait cfg (initSt .slice bytes) = .ok v s1 := by
  unfold parsesTo at h
  split at h
  · rename_i w s1 heq
    exact ⟨s1, by rw [heq, veq_eq w v h]⟩
  · cases h

/-- `from_slice_custom(bytes)` is a syntax error with this code -/
def rejectsWith (cfg : Cfg) (bytes : List UInt8) (c : Code) : Bool :=
  match fromTrait cfg (initSt .slice bytes) with
  | .err (.syntax c' _ _) _ => decide (c' = c)
  | _ => false

theorem rejectsWith_spec {cfg : Cfg} {bytes : List UInt8} {c : Code}
    (h : rejectsWith cfg bytes c = true) :
    ∀ v s', fromTrait cfg (initSt .slice bytes) ≠ .ok v s' := by
  intro v s' hok
  unfold rejectsWith at h
  rw [hok] at h
  cases h

/-! ### configurations -/

def ryuNone : Nat → List UInt8 := fun _ => []

def mk (o : Options) : Cfg := { opts := o, isAlphabetic := fun c => c == 955, pow10 := fun _ => 0 }

/-- the default reader -/
def cfgD : Cfg := mk Options.default
/-- `Parser::new`: no keyword syntax at all -/
def cfgNew : Cfg := mk Options.new
/-- the Emacs Lisp reader -/
def cfgEl : Cfg := mk Options.elisp
/-- Racket names, `name:` and `#:name` keywords, digit-initial symbols -/
def cfgRk : Cfg := mk { Options.default with racket := true, kwPostfix := true, leadingDigit := true }
/-- `name:` keywords only, digit-initial symbols, bracket vectors -/
def cfgPost : Cfg :=
  mk { Options.default with kwOctothorpe := false, kwPostfix := true, leadingDigit := true,
                            brackets := .vector }

/-! ### non-vacuity: accepted texts in alternative spellings close the loop -/

/-- `#x1F` is read as 31 and printed `31` -/
example : ∃ s', fromTrait cfgD (initSt .slice (Print.text (pof cfgD.opts) ryuNone
    (.number (.pos 31)))) = .ok (.number (.pos 31)) s' ∧ s'.rd.rest = [] ∧ s'.depth = 128 := by
  obtain ⟨s1, h⟩ := parsesTo_spec (cfg := cfgD) (bytes := asc "#x1F") (v := .number (.pos 31))
    (by decide +kernel)
  exact C13_reparse_partial cfgD ryuNone _ _ s1 h ⟨rfl, trivial⟩ rfl (by decide)

/-- radix prefix, `#true` (read as `#t` followed by the symbol `rue`), a hex character, a hex
    string escape, brackets as a list, a quote shorthand, a dotted proper list, a byte vector in
    R6RS spelling, a non-ASCII symbol and a negative hexadecimal integer:
    `(#true #\x41 "\x41;" [a b] 'a (a . (b c)) #vu8(1 #x10) λx #x-1F)` -/
def exV1 : Value :=
  Value.list [.bool true, .symbol (asc "rue"), .char 65, .string [65],
    Value.list [.symbol (asc "a"), .symbol (asc "b")],
    Value.list [.symbol (asc "quote"), .symbol (asc "a")],
    Value.list [.symbol (asc "a"), .symbol (asc "b"), .symbol (asc "c")],
    .bytes [1, 16], .symbol [0xCE, 0xBB, 120], .number (.neg (-31))]

def exT1 : List UInt8 :=
  asc "(#true #\\x41 \"\\x41;\" [a b] 'a (a . (b c)) #vu8(1 #x10) " ++ [0xCE, 0xBB, 120] ++
    asc " #x-1F)"

theorem exT1_accepted : ∃ s1, fromTrait cfgD (initSt .slice exT1) = .ok exV1 s1 :=
  parsesTo_spec (by decide +kernel)

theorem exV1_side (cfg : Cfg) : AllAtoms (AtomSideW cfg ryuNone) exV1 := by
  simp only [exV1, Value.list, Value.append, AllAtoms, AtomSideW, floatSide, kwDotOk, and_self]

example : ∃ s', fromTrait cfgD (initSt .slice (Print.text (pof cfgD.opts) ryuNone exV1)) =
    .ok exV1 s' ∧ s'.rd.rest = [] ∧ s'.depth = 128 := by
  obtain ⟨s1, h⟩ := exT1_accepted
  exact C13_reparse_partial cfgD ryuNone _ _ s1 h (exV1_side cfgD) (by decide) (by decide)

/-- `C13_image` and `C13_image_shape` on that value: all its atoms are in the image, and those
    that pass the side conditions are read back from their printed text -/
example : AllAtoms (AtomImg cfgD) exV1 ∧
    AllAtoms (fun a => AtomSide cfgD ryuNone a →
      ListRT.AtomOKP (pof cfgD.opts) cfgD ryuNone a) exV1 := by
  obtain ⟨s1, h⟩ := exT1_accepted
  obtain ⟨f, s2, hnv⟩ := fromTrait_inv h
  exact ⟨C13_image_shape cfgD f _ _ exV1 (by simp [initSt]) hnv,
    C13_image cfgD ryuNone f _ _ exV1 (by simp [initSt]) hnv⟩

/-- `C13_reparse_next`: the printed text in the middle of an input -/
example (s : St) (hg : s.rd.mode = .slice ∧ s.rd.faulty = false) (hd : 128 ≤ s.depth)
    (hr : s.rd.rest = Print.text (pof cfgD.opts) ryuNone exV1 ++ asc ") tail") :
    ∃ s', nextValue cfgD (2 * s.rd.rest.length + 3) s = .ok (some exV1) s' ∧
      s'.rd.rest = asc ") tail" ∧ s'.depth = s.depth := by
  obtain ⟨s1, h⟩ := exT1_accepted
  obtain ⟨f, s2, hnv⟩ := fromTrait_inv h
  exact C13_reparse_next cfgD ryuNone f _ s2 exV1 (by simp [initSt]) (by simp [initSt]) hnv
    (exV1_side cfgD) (by decide) (by decide) s _ _ (Or.inr ⟨41, asc " tail", by decide, by decide⟩)
    hg hr (Nat.le_refl _) (by simpa [initSt] using hd)

/-- `C13_fixpoint` on that value -/
example : ∃ v' s', fromTrait cfgD (initSt .slice (Print.text (pof cfgD.opts) ryuNone exV1)) =
      .ok v' s' ∧
    Print.text (pof cfgD.opts) ryuNone v' = Print.text (pof cfgD.opts) ryuNone exV1 ∧
    ∃ s'', fromTrait cfgD (initSt .slice (Print.text (pof cfgD.opts) ryuNone v')) = .ok v' s'' := by
  obtain ⟨s1, h⟩ := exT1_accepted
  exact C13_fixpoint cfgD ryuNone _ _ s1 h (exV1_side cfgD) (by decide) (by decide)

/-- what is printed: `(#t rue #\A "A" (a b) (quote a) (a b c) #u8(1 16) λx -31)` -/
example : Print.text (pof cfgD.opts) ryuNone exV1 =
    asc "(#t rue #\\A \"A\" (a b) (quote a) (a b c) #u8(1 16) " ++ [0xCE, 0xBB, 120] ++
      asc " -31)" := by decide +kernel

/-- the same text under `Parser::new` (no keyword syntax: `pof` is not `Compatible`, and still the
    loop closes — nothing in the value is a keyword) -/
example : ∃ s', fromTrait cfgNew (initSt .slice (Print.text (pof cfgNew.opts) ryuNone exV1)) =
    .ok exV1 s' ∧ s'.rd.rest = [] ∧ s'.depth = 128 := by
  obtain ⟨s1, h⟩ := parsesTo_spec (cfg := cfgNew) (bytes := exT1) (v := exV1) (by decide +kernel)
  exact C13_reparse_partial cfgNew ryuNone _ _ s1 h (exV1_side cfgNew) (by decide) (by decide)

example : Compatible (pof cfgNew.opts) cfgNew.opts = false := by decide

/-- Emacs Lisp: `(a ?\x41 "\101" "\x41\ " 1+ nil t [1 :k] . "s")` — a hex character, a unibyte
    string (read as a byte vector, printed `#u8(65)`), a digit-initial symbol, `nil` read as `()`,
    a bracket vector, a `:k` keyword, a dotted string tail -/
def exV2 : Value :=
  Value.append [.symbol (asc "a"), .char 65, .bytes [65], .bytes [65], .symbol (asc "1+"), .null,
    .symbol (asc "t"), .vector [.number (.pos 1), .keyword (asc "k")]] (.string (asc "s"))

def exT2 : List UInt8 := asc "(a ?\\x41 \"\\101\" \"\\x41\\ \" 1+ nil t [1 :k] . \"s\")"

example : ∃ s', fromTrait cfgEl (initSt .slice (Print.text (pof cfgEl.opts) ryuNone exV2)) =
    .ok exV2 s' ∧ s'.rd.rest = [] ∧ s'.depth = 128 := by
  obtain ⟨s1, h⟩ := parsesTo_spec (cfg := cfgEl) (bytes := exT2) (v := exV2) (by decide +kernel)
  refine C13_reparse_partial cfgEl ryuNone _ _ s1 h ?_ (by decide) (fun _ => by decide)
  simp only [exV2, Value.append, AllAtoms, AllAtomsSeq, AtomSideW, floatSide, and_true]
  decide

example : Print.text (pof cfgEl.opts) ryuNone exV2 =
    asc "(a ?A #u8(65) #u8(65) 1+ () t [1 :k] . \"s\")" := by decide +kernel

/-- Racket names and keywords read through `name:` but printed `#:name` (also a digit-initial
    one): `(#%app foo: 1: -x 2x .5 a.b:)` -/
def exV3 : Value :=
  Value.list [.symbol (asc "#%app"), .keyword (asc "foo"), .keyword (asc "1"), .symbol (asc "-x"),
    .symbol (asc "2x"), .symbol (asc ".5"), .keyword (asc "a.b")]

example : ∃ s', fromTrait cfgRk (initSt .slice (Print.text (pof cfgRk.opts) ryuNone exV3)) =
    .ok exV3 s' ∧ s'.rd.rest = [] ∧ s'.depth = 128 := by
  obtain ⟨s1, h⟩ := parsesTo_spec (cfg := cfgRk) (bytes := asc "(#%app foo: 1: -x 2x .5 a.b:)")
    (v := exV3) (by decide +kernel)
  refine C13_reparse_partial cfgRk ryuNone _ _ s1 h ?_ (by decide) (by decide)
  simp only [exV3, Value.list, Value.append, AllAtoms, AtomSideW, floatSide, and_true]
  decide

example : Print.text (pof cfgRk.opts) ryuNone exV3 = asc "(#%app #:foo #:1 -x 2x .5 #:a.b)" := by
  decide +kernel

/-- `name:` as the only keyword syntax: keywords are printed `name:` again, the one named `.`
    included, and a digit-initial one; vector elements may start with `.|`:
    `[foo: 1x: .: .|a|]` -/
def exV4 : Value :=
  .vector [.keyword (asc "foo"), .keyword (asc "1x"), .keyword (asc "."), .symbol (asc ".|a|")]

example : ∃ s', fromTrait cfgPost (initSt .slice (Print.text (pof cfgPost.opts) ryuNone exV4)) =
    .ok exV4 s' ∧ s'.rd.rest = [] ∧ s'.depth = 128 := by
  obtain ⟨s1, h⟩ := parsesTo_spec (cfg := cfgPost) (bytes := asc "[foo: 1x: .: .|a|]") (v := exV4)
    (by decide +kernel)
  refine C13_reparse_partial cfgPost ryuNone _ _ s1 h ?_ (by decide) (by decide)
  simp only [exV4, AllAtoms, AllAtomsSeq, AtomSideW, floatSide, and_true]
  decide

/-- floats: `(1.5 -100.0 #e1)`-style texts in the fast build, with ryu's text for the two doubles
    (`Decimals.ryuEx`): `(1.50 -1e2)` is read as `1.5` and `-100.0`, printed `(1.5 -100.0)` -/
def exV5 : Value :=
  Value.list [.number (.flt 0x3FF8000000000000), .number (.flt 0xC059000000000000)]

example : ∃ s', fromTrait Decimals.exCfgFast (initSt .slice
      (Print.text (pof Decimals.exCfgFast.opts) Decimals.ryuEx exV5)) = .ok exV5 s' ∧
    s'.rd.rest = [] ∧ s'.depth = 128 := by
  obtain ⟨s1, h⟩ := parsesTo_spec (cfg := Decimals.exCfgFast) (bytes := asc "(1.50 -1e2)")
    (v := exV5) (by decide +kernel)
  refine C13_reparse_partial Decimals.exCfgFast Decimals.ryuEx _ _ s1 h ?_ (by decide) (by decide)
  simp only [exV5, Value.list, Value.append, AllAtoms, AtomSideW, floatSide, kwDotOk, true_and,
    and_true]
  exact ⟨Decimals.floatOK_ex_15, Decimals.floatOK_ex_m100⟩

/-! ### witnesses: each side condition is necessary -/

/-- **(b), the known finding.**  `'.|a` is accepted as `(quote .|a)`; the printed text
    `(quote .|a)` is rejected (`parse_list` takes the dot for the dotted-pair marker). -/
theorem C13_witness_dot :
    parsesTo cfgD (asc "'.|a") (Value.list [.symbol (asc "quote"), .symbol (asc ".|a")]) = true ∧
    Print.text (pof cfgD.opts) ryuNone (Value.list [.symbol (asc "quote"), .symbol (asc ".|a")]) =
      asc "(quote .|a)" ∧
    rejectsWith cfgD (asc "(quote .|a)") .expectedSomeValue = true ∧
    carDotOk (pof cfgD.opts) (Value.list [.symbol (asc "quote"), .symbol (asc ".|a")]) = false := by
  decide +kernel

/-- **(b), worse.**  With `"` after the dot the printed text is accepted — as something else:
    `'."x"` is read as `(quote ."x")` (a symbol named `."x"`), printed `(quote ."x")`, and that
    is read as the pair `(quote . "x")`. -/
theorem C13_witness_dot_misread :
    parsesTo cfgD (asc "'.\"x\"") (Value.list [.symbol (asc "quote"), .symbol (asc ".\"x\"")])
      = true ∧
    Print.text (pof cfgD.opts) ryuNone (Value.list [.symbol (asc "quote"), .symbol (asc ".\"x\"")])
      = asc "(quote .\"x\")" ∧
    parsesTo cfgD (asc "(quote .\"x\")") (.cons (.symbol (asc "quote")) (.string (asc "x")))
      = true ∧
    carDotOk (pof cfgD.opts) (Value.list [.symbol (asc "quote"), .symbol (asc ".\"x\"")])
      = false := by
  decide +kernel

/-- … but the same symbol is harmless at top level, in a vector and as a dotted tail: condition
    (b) is not needed there (`carDotOk` holds). -/
example : ∃ s', fromTrait cfgD (initSt .slice (Print.text (pof cfgD.opts) ryuNone
      (.vector [.symbol (asc ".|a"), .cons (.symbol (asc "x")) (.symbol (asc ".\"b"))]))) =
    .ok (.vector [.symbol (asc ".|a"), .cons (.symbol (asc "x")) (.symbol (asc ".\"b"))]) s' ∧
    s'.rd.rest = [] ∧ s'.depth = 128 := by
  obtain ⟨s1, h⟩ := parsesTo_spec (cfg := cfgD) (bytes := asc "#(.|a (x . .\"b))")
    (v := .vector [.symbol (asc ".|a"), .cons (.symbol (asc "x")) (.symbol (asc ".\"b"))])
    (by decide +kernel)
  refine C13_reparse_partial cfgD ryuNone _ _ s1 h ?_ (by decide) (by decide)
  simp only [AllAtoms, AllAtomsSeq, AtomSideW, floatSide, and_true]
  decide

/-- **(d1), new.**  With `name:` and `#:name` keywords both enabled, `.:` is accepted as the
    keyword named `.`; `pof` prints `#:.`, which is rejected (`parse_symbol` refuses the lone
    dot).  The same with `:name` instead of `#:name` (`:.`).  Checked against the Rust code. -/
theorem C13_witness_kwdot :
    parsesTo cfgRk (asc ".:") (.keyword (asc ".")) = true ∧
    Print.text (pof cfgRk.opts) ryuNone (.keyword (asc ".")) = asc "#:." ∧
    rejectsWith cfgRk (asc "#:.") .eofValue = true ∧
    kwDotOk cfgRk.opts (.keyword (asc ".")) = false ∧
    (let cfg := mk { Options.default with kwOctothorpe := false, kwPrefix := true, kwPostfix := true }
     parsesTo cfg (asc "(a .:)") (Value.list [.symbol (asc "a"), .keyword (asc ".")]) = true ∧
     Print.text (pof cfg.opts) ryuNone (Value.list [.symbol (asc "a"), .keyword (asc ".")]) =
       asc "(a :.)" ∧
     rejectsWith cfg (asc "(a :.)") .invalidSymbol = true) := by
  decide +kernel

/-- **the hypothesis on the source.**  A `&str` source is not validated (in Rust its type
    guarantees well-formed text); run on ill-formed bytes it returns an ill-formed symbol, whose
    printed text a slice source rejects.  Hence `mode ≠ .str` in `C13_image`. -/
example :
    (match nextValue cfgD 10 (initSt .str [97, 0xFF]) with
     | .ok (some (.symbol n)) _ => n == [97, 0xFF]
     | _ => false) = true ∧
    rejectsWith cfgD [97, 0xFF] .invalidUnicodeCodePoint = true := by decide +kernel

/-- `n` pairs of parentheses around `mid` -/
def nestT (n : Nat) (mid : List UInt8) : List UInt8 :=
  List.replicate n 40 ++ mid ++ List.replicate n 41

/-- the value of `nestT n mid` when `mid` is read as `v` -/
def nestV : Nat → Value → Value
  | 0, v => v
  | n + 1, v => .cons (nestV n v) .null

/-- **(d2), new.**  With `NilSymbol::EmptyList` (as in the Emacs Lisp options) the symbol `nil`
    inside 127 lists is accepted — 127 levels of recursion — as `()` inside 127 lists, whose
    printed text needs 128 levels and is rejected with `RecursionLimitExceeded`. -/
theorem C13_witness_depth :
    let cfg := mk { Options.default with nil := .emptyList }
    parsesTo cfg (nestT 127 (asc "nil")) (nestV 127 .null) = true ∧
    Print.text (pof cfg.opts) ryuNone (nestV 127 .null) = nestT 127 (asc "()") ∧
    rejectsWith cfg (nestT 127 (asc "()")) .recursionLimitExceeded = true ∧
    ListRT.nestingP (pof cfg.opts) (nestV 127 .null) = 128 := by
  decide +kernel

/-- (a): the window hypothesis on floats cannot be dropped in the fast build —
    `Decimals.atomRT_float_window_needed` (the double nearest to `1e-23` is printed `1e-23` by any
    ryu satisfying `RyuSpec`, and that text reads back one ulp up).  The property allows this
    ("floats to C05 accuracy"). -/
example := @Decimals.atomRT_float_window_needed

#print axioms C13_image_shape
#print axioms C13_image
#print axioms C13_image_weak
#print axioms C13_keyword_enabled
#print axioms C13_reparse_partial
#print axioms C13_reparse_next
#print axioms C13_fixpoint
#print axioms C13_witness_dot
#print axioms C13_witness_dot_misread
#print axioms C13_witness_kwdot
#print axioms C13_witness_depth

end Image
end Parse
end Lexpr
