/-
  C09 (macro half) — the `sexp!` token parser inverts the tokenisation of the documented macro
  syntax, and the generated code evaluates to the value the text denotes.
-/
import LexprModel.Macro
import LexprModel.Props.C15
namespace Lexpr
namespace Macro

/-! ## The documented syntax -/

/-- The documented `sexp!` syntax as a tree. Byte lists are UTF-8 / ASCII. -/
inductive Doc where
  | int (n : Nat)                          -- `5`
  | negInt (n : Nat)                       -- `-5`
  | float (sig : Nat) (exp : Int)          -- `1.5`
  | negFloat (sig : Nat) (exp : Int)       -- `-1.5`
  | str (src val : List UInt8)             -- `"text"` (source text, denoted string)
  | chr (c : Nat)                          -- `'c'`
  | tru | fls | nil                        -- `#t` `#f` `#nil`
  | sym (name : List UInt8)                -- a Rust identifier
  | psym (cs : List UInt8)                 -- punctuation-only symbol `!$%&*+-./:<=>?@^~`
  | qsym (src val : List UInt8)            -- `#"name"`
  | kw (name : List UInt8)                 -- `#:name`
  | ckw (name : List UInt8)                -- `:name`
  | qkw (src val : List UInt8)             -- `#:"name"`
  | cqkw (src val : List UInt8)            -- `:"name"`
  | pkw (cs : List UInt8)                  -- `#:` followed by punctuation, e.g. `#:+`
  | unq (t : Tok)                          -- `,expr` (one token tree)
  | list (xs : List Doc)                   -- `(a b c)`
  | dotted (xs : List Doc) (tail : Doc)    -- `(a b . c)`
  | vec (xs : List Doc)                    -- `#(a b c)`

/-- A run of punctuation characters written without spaces: all `joint` except the last. -/
def punctRun : List UInt8 → List Tok
  | [] => []
  | [c] => [.punct c .alone]
  | c :: d :: cs => .punct c .joint :: punctRun (d :: cs)

mutual
/-- How rustc tokenises the rendering of a `Doc`. -/
def toks : Doc → List Tok
  | .int n => [.lit (.int n)]
  | .negInt n => [.punct 45 .alone, .lit (.int n)]
  | .float s e => [.lit (.float s e)]
  | .negFloat s e => [.punct 45 .alone, .lit (.float s e)]
  | .str src val => [.lit (.str src val)]
  | .chr c => [.lit (.char c)]
  | .tru => [.punct 35 .alone, .ident (asc "t")]
  | .fls => [.punct 35 .alone, .ident (asc "f")]
  | .nil => [.punct 35 .alone, .ident (asc "nil")]
  | .sym name => [.ident name]
  | .psym cs => punctRun cs
  | .qsym src val => [.punct 35 .alone, .lit (.str src val)]
  | .kw name => [.punct 35 .joint, .punct 58 .alone, .ident name]
  | .ckw name => [.punct 58 .alone, .ident name]
  | .qkw src val => [.punct 35 .joint, .punct 58 .alone, .lit (.str src val)]
  | .cqkw src val => [.punct 58 .alone, .lit (.str src val)]
  | .pkw cs => .punct 35 .joint :: .punct 58 .joint :: punctRun cs
  | .unq t => [.punct 44 .alone, t]
  | .list xs => [.group true (toksL xs)]
  | .dotted xs t => [.group true (toksL xs ++ .punct 46 .alone :: toks t)]
  | .vec xs => [.punct 35 .alone, .group true (toksL xs)]
/-- the elements of a list or vector, one after the other -/
def toksL : List Doc → List Tok
  | [] => []
  | x :: xs => toks x ++ toksL xs
end

/-- `parse_list`'s treatment of the parsed tail. -/
def flattenTail (elements : List MV) : MV → MV
  | .list rl => .list (elements ++ rl)
  | .improper rl r => .improper (elements ++ rl) r
  | rest => .improper elements rest

mutual
/-- The macro value a `Doc` is meant to produce. -/
def mv : Doc → MV
  | .int n => .literal (.int n)
  | .negInt n => .negated (.int n)
  | .float s e => .literal (.float s e)
  | .negFloat s e => .negated (.float s e)
  | .str src val => .literal (.str src val)
  | .chr c => .literal (.char c)
  | .tru => .bool true
  | .fls => .bool false
  | .nil => .nil
  | .sym name => .symbol name
  | .psym cs => .symbol cs
  | .qsym src _ => .symbol src
  | .kw name => .keyword name
  | .ckw name => .keyword name
  | .qkw src _ => .keyword src
  | .cqkw src _ => .keyword src
  | .pkw cs => .keyword cs
  | .unq t => .unquoted t
  | .list xs => .list (mvL xs)
  | .dotted xs t => flattenTail (mvL xs) (mv t)
  | .vec xs => .vector (mvL xs)
def mvL : List Doc → List MV
  | [] => []
  | x :: xs => mv x :: mvL xs
end

mutual
/-- The S-expression value the text of a `Doc` denotes (`env` interprets unquoted token trees). -/
def valueOf (env : Tok → Value) : Doc → Value
  | .int n => .number (Number.ofSigned n)
  | .negInt n => .number (Number.ofSigned (-(n : Int)))
  | .float s e => .number (.flt (F64.rnDec s e))
  | .negFloat s e => .number (.flt (F64.neg (F64.rnDec s e)))
  | .str _ val => .string val
  | .chr c => .char c
  | .tru => .bool true
  | .fls => .bool false
  | .nil => .nil
  | .sym name => .symbol name
  | .psym cs => .symbol cs
  | .qsym src _ => .symbol src
  | .kw name => .keyword name
  | .ckw name => .keyword name
  | .qkw src _ => .keyword src
  | .cqkw src _ => .keyword src
  | .pkw cs => .keyword cs
  | .unq t => env t
  | .list xs => Value.list (valueOfL env xs)
  | .dotted xs t => Value.append (valueOfL env xs) (valueOf env t)
  | .vec xs => .vector (valueOfL env xs)
def valueOfL (env : Tok → Value) : List Doc → List Value
  | [] => []
  | x :: xs => valueOf env x :: valueOfL env xs
end

/-! ## Side conditions -/

def startsLit : List Tok → Bool
  | .lit _ :: _ => true
  | _ => false
def startsIdent : List Tok → Bool
  | .ident _ :: _ => true
  | _ => false
/-- the first token is an integer or float literal: the literals a free-standing `-` is the sign of
    (`is_numeric_literal` in parser.rs, `Lit.isNumeric` in the model) -/
def startsNum : List Tok → Bool
  | .lit l :: _ => l.isNumeric
  | _ => false

/-- `d` directly followed by the tokens `rest` is not glued to them: the symbol `-` is not followed
    by a NUMERIC literal (integer or float; before a string or character literal it is the symbol
    `-`), the symbol `:` not by a literal or an identifier. -/
def sepOk : Doc → List Tok → Bool
  | .psym [c], rest =>
    if c == 45 then !startsNum rest
    else if c == 58 then !startsLit rest && !startsIdent rest
    else true
  | _, _ => true

/-- the symbol `.` standing alone (in a list it is the dot) -/
def isDotSym : Doc → Bool
  | .psym [c] => c == 46
  | _ => false

mutual
def wf : Doc → Bool
  | .psym [] => false
  | .psym (c :: cs) => isSymPunct c && cs.all isIdPunct
  | .pkw [] => false
  | .pkw (c :: cs) => isIdPunct c && cs.all isIdPunct
  | .list xs => wfSeq true xs
  | .dotted xs t => wfSeq true xs && wf t
  | .vec xs => wfSeq false xs
  | _ => true
/-- elements of a list (`inList`) or vector: each is well formed, not glued to the next one, and
    in a list none is the lone symbol `.`; the last element (before `)` or the dot) is
    unconstrained -/
def wfSeq (inList : Bool) : List Doc → Bool
  | [] => true
  | x :: xs => wf x && !(inList && isDotSym x) && sepOk x (toksL xs) && wfSeq inList xs
end

/-- Well-formedness of a documented tree (`wf` is the executable check):
    * a punctuation symbol `psym cs` is non-empty, its first character is in `isSymPunct` and the
      others in `isIdPunct`; a punctuation keyword `pkw cs` is non-empty with all characters in
      `isIdPunct`;
    * in a list or vector, an element that is the lone symbol `-` is not directly followed by an
      element whose first token is a numeric literal (integer or float: the macro parser takes the
      `-` for its sign; a string or character literal may follow, `(- "s")` is the symbol `-` and a
      string), and the lone symbol `:` is not directly followed by an element whose first token is
      a literal or an identifier (`sepOk`);
    * no element of a list (vectors are exempt) is the lone symbol `.`: `parse_list` takes it
      for the dot;
    * the last element (before `)` or before the dot) has nothing glued to it, so `sepOk` asks
      nothing of it; the dotted tail only has to be well formed itself. -/
def WF (d : Doc) : Prop := wf d = true

instance (d : Doc) : Decidable (WF d) := inferInstanceAs (Decidable (wf d = true))

mutual
/-- fuel `parse` needs on `toks d` -/
def need : Doc → Nat
  | .list xs => 1 + needSeq xs 0
  | .dotted xs t => 1 + needSeq xs (1 + need t)
  | .vec xs => 1 + needSeq xs 0
  | _ => 1
def needSeq : List Doc → Nat → Nat
  | [], k => k
  | x :: xs, k => 1 + max (need x) (needSeq xs k)
end

/-! ## Unfolding lemmas for the parser -/

/-- the free-standing dot -/
def isDot : Tok → Bool
  | .punct c .alone => c == 46
  | _ => false

theorem parseList_nil (f : Nat) (el : List MV) (tail : Option MV) :
    parseList f [] el tail = some (match tail with | none => .list el | some t => flattenTail el t) := by
  rw [parseList.eq_def]
  cases tail with
  | none => rfl
  | some t => cases t <;> rfl

theorem parseList_cons_notDot (f : Nat) (tok : Tok) (rest : List Tok) (el : List MV)
    (tail : Option MV) (h : isDot tok = false) :
    parseList (f + 1) (tok :: rest) el tail =
      match parse f (tok :: rest) with
      | some (v, rest') => parseList f rest' (el ++ [v]) tail
      | none => none := by
  rw [parseList.eq_def]
  simp only []
  split
  · simp [isDot] at h
  · rfl

theorem parseList_dot (f : Nat) (rest : List Tok) (el : List MV) :
    parseList (f + 1) (.punct 46 .alone :: rest) el none =
      match parse f rest with
      | some (t, rest') => parseList f rest' el (some t)
      | none => none := by
  rw [parseList.eq_def]
  simp only [Option.isSome_none, Bool.false_eq_true, if_false]
  rfl

theorem parseVector_cons (f : Nat) (tok : Tok) (rest : List Tok) (el : List MV) :
    parseVector (f + 1) (tok :: rest) el =
      match parse f (tok :: rest) with
      | some (v, rest') => parseVector f rest' (el ++ [v])
      | none => none := by
  rw [parseVector.eq_def]
  rfl

theorem punctRun_cons (c : UInt8) (cs : List UInt8) :
    punctRun (c :: cs) = .punct c (if cs = [] then .alone else .joint) :: punctRun cs := by
  cases cs <;> simp [punctRun]

theorem isSymPunct_ne (c : UInt8) (h : isSymPunct c = true) : (c == 35) = false ∧ (c == 44) = false := by
  constructor
  · cases hc : (c == 35) with
    | false => rfl
    | true => have := eq_of_beq hc; subst this; exact absurd h (by decide)
  · cases hc : (c == 44) with
    | false => rfl
    | true => have := eq_of_beq hc; subst this; exact absurd h (by decide)

theorem parseIdentifier_run (cs : List UInt8) (hne : cs ≠ []) (h : cs.all isIdPunct = true)
    (acc : List UInt8) (rest : List Tok) :
    parseIdentifier acc (punctRun cs ++ rest) = (acc ++ cs, rest) := by
  induction cs generalizing acc with
  | nil => exact absurd rfl hne
  | cons c cs ih =>
    simp only [List.all_cons, Bool.and_eq_true] at h
    cases cs with
    | nil => simp [punctRun, parseIdentifier, h.1]
    | cons d cs =>
      simp only [punctRun, List.cons_append, parseIdentifier, h.1, if_true]
      rw [ih (by simp) h.2]
      simp

theorem parse_psym (f : Nat) (cs : List UInt8) (rest : List Tok) (hwf : wf (.psym cs) = true)
    (hsep : sepOk (.psym cs) rest = true) :
    parse (f + 1) (punctRun cs ++ rest) = some (.symbol cs, rest) := by
  match cs, hwf, hsep with
  | [], hwf, _ => simp [wf] at hwf
  | [c], hwf, hsep =>
    simp only [wf, List.all_nil, Bool.and_true] at hwf
    obtain ⟨h35, h44⟩ := isSymPunct_ne c hwf
    rw [parse.eq_def]
    simp only [punctRun, List.cons_append, List.nil_append, h35, h44, hwf, if_true,
      Bool.false_eq_true, if_false]
    simp only [sepOk] at hsep
    by_cases h45 : (c == 45) = true
    · simp only [h45, ↓reduceIte] at hsep ⊢
      match rest, hsep with
      | [], _ => rfl
      | .lit l :: _, hsep =>
        have hl : l.isNumeric = false := by simpa [startsNum] using hsep
        simp only [hl, Bool.false_eq_true, ↓reduceIte]
      | .punct _ _ :: _, _ => rfl
      | .ident _ :: _, _ => rfl
      | .group _ _ :: _, _ => rfl
    · simp only [h45, Bool.false_eq_true, ↓reduceIte] at hsep ⊢
      by_cases h58 : (c == 58) = true
      · simp only [h58, ↓reduceIte] at hsep ⊢
        match rest, hsep with
        | [], _ => rfl
        | .lit _ :: _, hsep => simp [startsLit] at hsep
        | .ident _ :: _, hsep => simp [startsLit, startsIdent] at hsep
        | .punct _ _ :: _, _ => rfl
        | .group _ _ :: _, _ => rfl
      · simp only [h58, Bool.false_eq_true, ↓reduceIte]
  | c :: d :: cs, hwf, _ =>
    simp only [wf, Bool.and_eq_true] at hwf
    obtain ⟨h35, h44⟩ := isSymPunct_ne c hwf.1
    rw [parse.eq_def]
    simp only [punctRun, List.cons_append, h35, h44, hwf.1, if_true, Bool.false_eq_true, if_false]
    have := parseIdentifier_run (d :: cs) (by simp) hwf.2 [c] rest
    simp only [List.cons_append] at this
    rw [this]
    rfl

theorem parse_pkw (f : Nat) (cs : List UInt8) (rest : List Tok) (hwf : wf (.pkw cs) = true) :
    parse (f + 1) (.punct 35 .joint :: .punct 58 .joint :: punctRun cs ++ rest) =
      some (.keyword cs, rest) := by
  match cs, hwf with
  | [], hwf => simp [wf] at hwf
  | c :: cs, hwf =>
    have hall : (c :: cs).all isIdPunct = true := by simpa [wf] using hwf
    have hrun := parseIdentifier_run (c :: cs) (by simp) hall [] rest
    rw [parse.eq_def]
    simp only [List.cons_append, beq_self_eq_true, if_true]
    rw [parseOctothorpe.eq_def]
    simp only [beq_self_eq_true, if_true, punctRun_cons, List.cons_append]
    simp only [punctRun_cons, List.cons_append, List.nil_append] at hrun
    rw [hrun]

/-! ## Lemmas on the side conditions -/

/-- what does not start with a literal does not start with a numeric literal -/
theorem startsNum_of_startsLit {ts : List Tok} (h : startsLit ts = false) : startsNum ts = false := by
  match ts, h with
  | [], _ => rfl
  | .lit _ :: _, h => simp [startsLit] at h
  | .punct _ _ :: _, _ => rfl
  | .ident _ :: _, _ => rfl
  | .group _ _ :: _, _ => rfl

theorem sepOk_append (x : Doc) (a fol : List Tok) (h : sepOk x a = true)
    (hf : a = [] → startsLit fol = false ∧ startsIdent fol = false) :
    sepOk x (a ++ fol) = true := by
  cases a with
  | nil => 
    obtain ⟨h1, h2⟩ := hf rfl
    unfold sepOk
    split
    · simp [h1, h2, startsNum_of_startsLit h1]
    · rfl
  | cons t a =>
    unfold sepOk at h ⊢
    split
    · rename_i c r
      simp only [] at h
      cases t <;> first | (simp [startsLit, startsIdent, startsNum]; done) |
        simpa [startsLit, startsIdent, startsNum] using h
    · rfl

theorem toks_head (x : Doc) (hwf : wf x = true) :
    ∃ tok more, toks x = tok :: more ∧ (isDotSym x = false → isDot tok = false) := by
  cases x <;> try (exact ⟨_, _, by simp only [toks]; rfl, fun _ => rfl⟩)
  rename_i cs
  match cs, hwf with
  | [], hwf => simp [wf] at hwf
  | [c], _ =>
    exact ⟨_, _, by simp only [toks, punctRun]; rfl, fun hd => by simpa [isDot, isDotSym] using hd⟩
  | c :: d :: cs, _ => exact ⟨_, _, by simp only [toks, punctRun]; rfl, fun _ => rfl⟩

theorem sepOk_nil (x : Doc) : sepOk x [] = true := by
  unfold sepOk; split <;> simp [startsLit, startsIdent, startsNum]

theorem asc_f_t : (asc "f" == asc "t") = false := by decide
theorem asc_nil_t : (asc "nil" == asc "t") = false := by decide
theorem asc_nil_f : (asc "nil" == asc "f") = false := by decide

theorem needSeq_ge (xs : List Doc) (k : Nat) : k + xs.length ≤ needSeq xs k := by
  induction xs with
  | nil => simp [needSeq]
  | cons x xs ih => simp only [needSeq, List.length_cons]; omega

/-! ## The parser inverts `toks` -/

theorem wfSeq_cons {b : Bool} {x : Doc} {xs : List Doc} (h : wfSeq b (x :: xs) = true) :
    wf x = true ∧ (b = true → isDotSym x = false) ∧ sepOk x (toksL xs) = true ∧
      wfSeq b xs = true := by
  simp only [wfSeq, Bool.and_eq_true, Bool.not_eq_true', Bool.and_eq_false_iff] at h
  obtain ⟨⟨⟨h1, h2⟩, h3⟩, h4⟩ := h
  refine ⟨h1, ?_, h3, h4⟩
  intro hb; rcases h2 with h2 | h2
  · rw [hb] at h2; cases h2
  · exact h2

/-- fuel is positive -/
theorem fuel_pos {fuel n : Nat} (h : 1 + n ≤ fuel) : ∃ f, fuel = f + 1 ∧ n ≤ f :=
  ⟨fuel - 1, by omega, by omega⟩

mutual
theorem parse_toks : ∀ (d : Doc) (fuel : Nat) (rest : List Tok), wf d = true → need d ≤ fuel →
    sepOk d rest = true → parse fuel (toks d ++ rest) = some (mv d, rest)
  | .int n, fuel, rest, _, hf, _ => by
    obtain ⟨f, rfl, _⟩ := fuel_pos (n := 0) hf
    simp [toks, mv, parse]
  | .negInt n, fuel, rest, _, hf, _ => by
    obtain ⟨f, rfl, _⟩ := fuel_pos (n := 0) hf
    simp [toks, mv, parse, isSymPunct, Lit.isNumeric]
  | .float s e, fuel, rest, _, hf, _ => by
    obtain ⟨f, rfl, _⟩ := fuel_pos (n := 0) hf
    simp [toks, mv, parse]
  | .negFloat s e, fuel, rest, _, hf, _ => by
    obtain ⟨f, rfl, _⟩ := fuel_pos (n := 0) hf
    simp [toks, mv, parse, isSymPunct, Lit.isNumeric]
  | .str src val, fuel, rest, _, hf, _ => by
    obtain ⟨f, rfl, _⟩ := fuel_pos (n := 0) hf
    simp [toks, mv, parse]
  | .chr c, fuel, rest, _, hf, _ => by
    obtain ⟨f, rfl, _⟩ := fuel_pos (n := 0) hf
    simp [toks, mv, parse]
  | .tru, fuel, rest, _, hf, _ => by
    obtain ⟨f, rfl, _⟩ := fuel_pos (n := 0) hf
    simp [toks, mv, parse, parseOctothorpe]
  | .fls, fuel, rest, _, hf, _ => by
    obtain ⟨f, rfl, _⟩ := fuel_pos (n := 0) hf
    simp [toks, mv, parse, parseOctothorpe, asc_f_t]
  | .nil, fuel, rest, _, hf, _ => by
    obtain ⟨f, rfl, _⟩ := fuel_pos (n := 0) hf
    simp [toks, mv, parse, parseOctothorpe, asc_nil_t, asc_nil_f]
  | .sym name, fuel, rest, _, hf, _ => by
    obtain ⟨f, rfl, _⟩ := fuel_pos (n := 0) hf
    simp [toks, mv, parse]
  | .psym cs, fuel, rest, hwf, hf, hsep => by
    obtain ⟨f, rfl, _⟩ := fuel_pos (n := 0) hf
    simp only [toks, mv]
    exact parse_psym f cs rest hwf hsep
  | .qsym src val, fuel, rest, _, hf, _ => by
    obtain ⟨f, rfl, _⟩ := fuel_pos (n := 0) hf
    simp [toks, mv, parse, parseOctothorpe, stringLiteral]
  | .kw name, fuel, rest, _, hf, _ => by
    obtain ⟨f, rfl, _⟩ := fuel_pos (n := 0) hf
    simp [toks, mv, parse, parseOctothorpe, parseIdentifier]
  | .ckw name, fuel, rest, _, hf, _ => by
    obtain ⟨f, rfl, _⟩ := fuel_pos (n := 0) hf
    simp [toks, mv, parse, isSymPunct]
  | .qkw src val, fuel, rest, _, hf, _ => by
    obtain ⟨f, rfl, _⟩ := fuel_pos (n := 0) hf
    simp [toks, mv, parse, parseOctothorpe, stringLiteral]
  | .cqkw src val, fuel, rest, _, hf, _ => by
    obtain ⟨f, rfl, _⟩ := fuel_pos (n := 0) hf
    simp [toks, mv, parse, isSymPunct, stringLiteral]
  | .pkw cs, fuel, rest, hwf, hf, _ => by
    obtain ⟨f, rfl, _⟩ := fuel_pos (n := 0) hf
    simp only [toks, mv]
    exact parse_pkw f cs rest hwf
  | .unq t, fuel, rest, _, hf, _ => by
    obtain ⟨f, rfl, _⟩ := fuel_pos (n := 0) hf
    simp [toks, mv, parse]
  | .list xs, fuel, rest, hwf, hf, _ => by
    simp only [need] at hf
    obtain ⟨f, rfl, hf'⟩ := fuel_pos hf
    simp only [wf] at hwf
    have h := parseList_seq xs f [] [] none 0 hwf hf' rfl rfl
    simp only [List.append_nil, List.nil_append, parseList_nil] at h
    rw [parse.eq_def]
    simp only [toks, mv, List.cons_append, List.nil_append, h, Option.map_some]
  | .dotted xs t, fuel, rest, hwf, hf, _ => by
    simp only [need] at hf
    obtain ⟨f, rfl, hf'⟩ := fuel_pos hf
    simp only [wf, Bool.and_eq_true] at hwf
    have h := parseList_seq xs f (.punct 46 .alone :: toks t) [] none (1 + need t) hwf.1 hf' rfl rfl
    have hge := needSeq_ge xs (1 + need t)
    obtain ⟨g, hg, hgt⟩ : ∃ g, f - xs.length = g + 1 ∧ need t ≤ g :=
      ⟨f - xs.length - 1, by omega, by omega⟩
    have ht := parse_toks t g [] hwf.2 hgt (sepOk_nil t)
    rw [List.append_nil] at ht
    rw [hg, parseList_dot, ht] at h
    simp only [parseList_nil, List.nil_append] at h
    rw [parse.eq_def]
    simp only [toks, mv, List.cons_append, List.nil_append, h, Option.map_some]
  | .vec xs, fuel, rest, hwf, hf, _ => by
    simp only [need] at hf
    obtain ⟨f, rfl, hf'⟩ := fuel_pos hf
    simp only [wf] at hwf
    have h := parseVector_seq xs f [] hwf hf'
    rw [parse.eq_def]
    simp only [toks, mv, List.cons_append, List.nil_append, beq_self_eq_true, if_true]
    rw [parseOctothorpe.eq_def]
    simp only [h, Option.map_some, List.nil_append]
theorem parseList_seq : ∀ (xs : List Doc) (fuel : Nat) (fol : List Tok) (acc : List MV)
    (tail : Option MV) (k : Nat), wfSeq true xs = true → needSeq xs k ≤ fuel →
    startsLit fol = false → startsIdent fol = false →
    parseList fuel (toksL xs ++ fol) acc tail = parseList (fuel - xs.length) fol (acc ++ mvL xs) tail
  | [], fuel, fol, acc, tail, k, _, _, _, _ => by simp [toksL, mvL]
  | x :: xs, fuel, fol, acc, tail, k, hwf, hf, hl, hi => by
    obtain ⟨hx, hdot, hsep, hxs⟩ := wfSeq_cons hwf
    simp only [needSeq] at hf
    obtain ⟨f, rfl⟩ : ∃ f, fuel = f + 1 := ⟨fuel - 1, by omega⟩
    obtain ⟨tok, more, htok, hnd⟩ := toks_head x hx
    have hp := parse_toks x f (toksL xs ++ fol) hx (by omega)
      (sepOk_append x _ _ hsep (fun _ => ⟨hl, hi⟩))
    have ih := parseList_seq xs f fol (acc ++ [mv x]) tail k hxs (by omega) hl hi
    simp only [toksL, List.append_assoc, mvL]
    rw [htok] at hp ⊢
    rw [List.cons_append, parseList_cons_notDot _ _ _ _ _ (hnd (hdot rfl))]
    rw [List.cons_append] at hp
    rw [hp]
    simp only [ih, List.length_cons, Nat.add_sub_add_right, List.append_assoc, List.cons_append,
      List.nil_append]
theorem parseVector_seq : ∀ (xs : List Doc) (fuel : Nat) (acc : List MV),
    wfSeq false xs = true → needSeq xs 0 ≤ fuel →
    parseVector fuel (toksL xs) acc = some (.vector (acc ++ mvL xs))
  | [], fuel, acc, _, _ => by simp [toksL, mvL, parseVector]
  | x :: xs, fuel, acc, hwf, hf => by
    obtain ⟨hx, _, hsep, hxs⟩ := wfSeq_cons hwf
    simp only [needSeq] at hf
    obtain ⟨f, rfl⟩ : ∃ f, fuel = f + 1 := ⟨fuel - 1, by omega⟩
    obtain ⟨tok, more, htok, _⟩ := toks_head x hx
    have hp := parse_toks x f (toksL xs) hx (by omega) hsep
    have ih := parseVector_seq xs f (acc ++ [mv x]) hxs (by omega)
    simp only [toksL, mvL]
    rw [htok] at hp ⊢
    rw [List.cons_append, parseVector_cons]
    rw [List.cons_append] at hp
    rw [hp]
    simp only [ih, List.append_assoc, List.cons_append, List.nil_append]
end

/-! ## Evaluation -/

theorem evalAll_append (env : Tok → Value) (xs ys : List MV) :
    evalAll env (xs ++ ys) = evalAll env xs ++ evalAll env ys := by
  induction xs with
  | nil => simp [evalAll]
  | cons x xs ih => simp [evalAll, ih]

theorem evalAll_eq_map (env : Tok → Value) (xs : List MV) : evalAll env xs = xs.map (eval env) := by
  induction xs with
  | nil => simp [evalAll]
  | cons x xs ih => simp [evalAll, ih]

theorem toksL_eq_flatMap (xs : List Doc) : toksL xs = xs.flatMap toks := by
  induction xs with
  | nil => simp [toksL]
  | cons x xs ih => simp [toksL, ih]

theorem mvL_eq_map (xs : List Doc) : mvL xs = xs.map mv := by
  induction xs with
  | nil => simp [mvL]
  | cons x xs ih => simp [mvL, ih]

theorem valueOfL_eq_map (env : Tok → Value) (xs : List Doc) :
    valueOfL env xs = xs.map (valueOf env) := by
  induction xs with
  | nil => simp [valueOfL]
  | cons x xs ih => simp [valueOfL, ih]

theorem eval_list_append (env : Tok → Value) (xs ys : List MV) :
    eval env (.list (xs ++ ys)) = Value.append (evalAll env xs) (eval env (.list ys)) := by
  simp only [eval, Value.list, evalAll_append, Value.C15_append_merge]

theorem eval_improper_append (env : Tok → Value) (xs ys : List MV) (r : MV) :
    eval env (.improper (xs ++ ys) r) =
      Value.append (evalAll env xs) (eval env (.improper ys r)) := by
  simp only [eval, evalAll_append, Value.C15_append_merge]

/-- the tail merge of `parse_list` is `Value::append` onto the evaluated tail -/
theorem eval_flattenTail (env : Tok → Value) (xs : List MV) (t : MV) :
    eval env (flattenTail xs t) = Value.append (evalAll env xs) (eval env t) := by
  cases t <;> simp only [flattenTail, eval_list_append, eval_improper_append] <;> simp only [eval]

mutual
theorem eval_mv (env : Tok → Value) : ∀ d : Doc, eval env (mv d) = valueOf env d
  | .list xs => by simp only [mv, valueOf, eval, evalAll_mvL env xs]
  | .dotted xs t => by
    simp only [mv, valueOf, eval_flattenTail, evalAll_mvL env xs, eval_mv env t]
  | .vec xs => by simp only [mv, valueOf, eval, evalAll_mvL env xs]
  | .int _ => by simp [mv, valueOf, eval, litValue]
  | .negInt _ => by simp [mv, valueOf, eval, litValue]
  | .float _ _ => by simp [mv, valueOf, eval, litValue]
  | .negFloat _ _ => by simp [mv, valueOf, eval, litValue]
  | .str _ _ => by simp [mv, valueOf, eval, litValue]
  | .chr _ => by simp [mv, valueOf, eval, litValue]
  | .tru | .fls | .nil | .sym _ | .psym _ | .qsym _ _ | .kw _ | .ckw _ | .qkw _ _ | .cqkw _ _
  | .pkw _ | .unq _ => by simp [mv, valueOf, eval]
theorem evalAll_mvL (env : Tok → Value) : ∀ xs : List Doc, evalAll env (mvL xs) = valueOfL env xs
  | [] => by simp [mvL, valueOfL, evalAll]
  | x :: xs => by simp [mvL, valueOfL, evalAll, eval_mv env x, evalAll_mvL env xs]
end

/-! ## A simple bound on the fuel -/

mutual
/-- number of `Doc` constructors -/
def nodes : Doc → Nat
  | .list xs => 1 + nodesL xs
  | .dotted xs t => 1 + nodesL xs + nodes t
  | .vec xs => 1 + nodesL xs
  | _ => 1
def nodesL : List Doc → Nat
  | [] => 0
  | x :: xs => nodes x + nodesL xs
end

mutual
theorem need_le_nodes : ∀ d : Doc, need d + 1 ≤ 2 * nodes d
  | .list xs => by have := needSeq_le_nodes xs 0; simp only [need, nodes]; omega
  | .dotted xs t => by
    have := needSeq_le_nodes xs (1 + need t); have := need_le_nodes t
    simp only [need, nodes]; omega
  | .vec xs => by have := needSeq_le_nodes xs 0; simp only [need, nodes]; omega
  | .int _ | .negInt _ | .float _ _ | .negFloat _ _ | .str _ _ | .chr _ | .tru | .fls | .nil
  | .sym _ | .psym _ | .qsym _ _ | .kw _ | .ckw _ | .qkw _ _ | .cqkw _ _ | .pkw _ | .unq _ => by
    simp [need, nodes]
theorem needSeq_le_nodes : ∀ (xs : List Doc) (k : Nat), needSeq xs k ≤ k + 2 * nodesL xs
  | [], k => by simp [needSeq, nodesL]
  | x :: xs, k => by
    have := need_le_nodes x; have := needSeq_le_nodes xs k
    simp only [needSeq, nodesL]; omega
end

theorem toks_length_pos (d : Doc) (h : wf d = true) : 1 ≤ (toks d).length := by
  obtain ⟨tok, more, ht, _⟩ := toks_head d h
  simp [ht]

/-! ## Why the side conditions are there, and observations about the model

  Rust tokens carry no whitespace, so different documented trees have the same token stream; no
  parser can invert `toks` on them.  The statements below are about concrete witnesses. -/

/-- `(- 5)` and `(-5)` are the same token stream. -/
example : toks (.list [.psym [45], .int 5]) = toks (.list [.negInt 5]) ∧
    mv (.list [.psym [45], .int 5]) ≠ mv (.list [.negInt 5]) ∧
    wf (.list [.psym [45], .int 5]) = false := by
  refine ⟨rfl, ?_, by decide⟩
  simp [mv, mvL]

/-- the same with a float: `(- 1.5)` and `(-1.5)` are the same token stream -/
example : toks (.list [.psym [45], .float 15 (-1)]) = toks (.list [.negFloat 15 (-1)]) ∧
    mv (.list [.psym [45], .float 15 (-1)]) ≠ mv (.list [.negFloat 15 (-1)]) ∧
    wf (.list [.psym [45], .float 15 (-1)]) = false := by
  refine ⟨rfl, ?_, by decide⟩
  simp [mv, mvL]

/-- **The remaining `-` condition is necessary**: the tokens of `(- 5)` are read as the negative
    literal, so the inversion statement is false for this tree (which `wf` rejects); the same in a
    vector and with a float. -/
theorem minus_before_number_witness (env : Tok → Value) :
    wf (.list [.psym [45], .int 5]) = false ∧
    parse 3 (toks (.list [.psym [45], .int 5])) = some (.list [.negated (.int 5)], []) ∧
    parse 3 (toks (.list [.psym [45], .int 5])) ≠ some (mv (.list [.psym [45], .int 5]), []) ∧
    expand env (toks (.list [.psym [45], .int 5])) = some (Value.list [.number (.neg (-5))]) ∧
    wf (.vec [.psym [45], .float 15 (-1)]) = false ∧
    parse 3 (toks (.vec [.psym [45], .float 15 (-1)])) =
      some (.vector [.negated (.float 15 (-1))], []) := by
  refine ⟨by decide, ?_, ?_, ?_, by decide, ?_⟩
  · simp [toks, toksL, punctRun, parse, parseList, isSymPunct, Lit.isNumeric]
  · simp [toks, toksL, punctRun, parse, parseList, isSymPunct, Lit.isNumeric, mv, mvL]
  · simp [expand, toks, toksL, punctRun, parse, parseList, isSymPunct, Lit.isNumeric, eval, evalAll,
      litValue, Value.list, Value.append, Number.ofSigned]
  · simp [toks, toksL, punctRun, parse, parseOctothorpe, parseVector, isSymPunct, Lit.isNumeric]

/-- **Since the repair 70c5316** a free-standing `-` before a string or character literal is the
    symbol `-`: `(- "s")`, `(- 'a')` and `(- "s" 1)` are well formed and the parser reads them as
    lists that start with the symbol `-` (computed on the explicit token lists, no theorem used). -/
theorem minus_before_string_tokens (env : Tok → Value) :
    expand env [.group true [.punct 45 .alone, .lit (.str (asc "s") (asc "s"))]] =
      some (Value.list [.symbol [45], .string (asc "s")]) ∧
    expand env [.group true [.punct 45 .alone, .lit (.char 97)]] =
      some (Value.list [.symbol [45], .char 97]) ∧
    expand env [.group true [.punct 45 .alone, .lit (.str (asc "s") (asc "s")), .lit (.int 1)]] =
      some (Value.list [.symbol [45], .string (asc "s"), .number (.pos 1)]) ∧
    expand env [.punct 35 .alone, .group true [.punct 45 .alone, .lit (.char 97)]] =
      some (.vector [.symbol [45], .char 97]) := by
  refine ⟨?_, ?_, ?_, ?_⟩ <;>
    simp [expand, parse, parseList, parseOctothorpe, parseVector, isSymPunct, Lit.isNumeric, eval,
      evalAll, litValue, Number.ofSigned]

/-- `(- "s")`, `(- 'a')`, `(- "s" 1)`, `#(- 'a')`, `(- "s" . 'a')`: covered by `wf` now -/
theorem minus_before_string_wf :
    wf (.list [.psym [45], .str (asc "s") (asc "s")]) = true ∧
    wf (.list [.psym [45], .chr 97]) = true ∧
    wf (.list [.psym [45], .str (asc "s") (asc "s"), .int 1]) = true ∧
    wf (.vec [.psym [45], .chr 97]) = true ∧
    wf (.dotted [.psym [45], .str (asc "s") (asc "s")] (.chr 97)) = true := by decide

/-- `(: name)` and `(:name)` are the same token stream. -/
example : toks (.list [.psym [58], .sym (asc "name")]) = toks (.list [.ckw (asc "name")]) ∧
    mv (.list [.psym [58], .sym (asc "name")]) ≠ mv (.list [.ckw (asc "name")]) ∧
    wf (.list [.psym [58], .sym (asc "name")]) = false := by
  refine ⟨rfl, ?_, by decide⟩
  simp [mv, mvL]

/-- a list containing the lone symbol `.` is the same token stream as a dotted list -/
example : toks (.list [.sym (asc "a"), .psym [46], .sym (asc "b")]) =
      toks (.dotted [.sym (asc "a")] (.sym (asc "b"))) ∧
    wf (.list [.sym (asc "a"), .psym [46], .sym (asc "b")]) = false := ⟨rfl, by decide⟩

/-- without the side condition the requested inversion statement is false: `: 5` is a parse error
    (`ExpectedStringLiteral`), although `:` and `5` are both documented values -/
example : parseList 10 (toksL [.psym [58], .int 5]) [] none = none := by
  simp only [toksL, toks, punctRun, List.cons_append, List.nil_append]
  rw [parseList_cons_notDot _ _ _ _ _ rfl]
  simp [parse, isSymPunct, stringLiteral]

/-- the `:` condition cannot be confined to string literals and identifiers the way the `-`
    condition is confined to numbers: `: 'a'` is a parse error as well -/
example : parseList 10 (toksL [.psym [58], .chr 97]) [] none = none := by
  simp only [toksL, toks, punctRun, List.cons_append, List.nil_append]
  rw [parseList_cons_notDot _ _ _ _ _ rfl]
  simp [parse, isSymPunct, stringLiteral]

/-- the model (like `parse_list` in parser.rs) accepts elements *after* the dotted tail and
    appends them to the elements before the dot: `(a . b c)` is read as `(a c . b)` -/
example : parseList 10
    [.ident (asc "a"), .punct 46 .alone, .ident (asc "b"), .ident (asc "c")] [] none =
    some (.improper [.symbol (asc "a"), .symbol (asc "c")] (.symbol (asc "b"))) := by
  rw [parseList_cons_notDot _ _ _ _ _ rfl]
  simp only [parse, List.nil_append]
  rw [parseList_dot]
  simp only [parse]
  rw [parseList_cons_notDot _ _ _ _ _ rfl]
  simp only [parse, parseList_nil, flattenTail, List.cons_append, List.nil_append]

/-- `expand` (like `parser::parse`) reads one value and ignores every token after it:
    `sexp!(a b)` is `a` -/
example (env : Tok → Value) :
    expand env [.ident (asc "a"), .ident (asc "b")] = some (.symbol (asc "a")) := by
  simp [expand, parse, eval]

theorem parseList_out_of_fuel (n f : Nat) (acc : List MV) (h : f < n) :
    parseList f (List.replicate n (.lit (.int 0))) acc none = none := by
  induction f generalizing n acc with
  | zero =>
    obtain ⟨m, rfl⟩ : ∃ m, n = m + 1 := ⟨n - 1, by omega⟩
    simp [List.replicate_succ, parseList]
  | succ f ih =>
    obtain ⟨m, rfl⟩ : ∃ m, n = m + 1 := ⟨n - 1, by omega⟩
    rw [List.replicate_succ, parseList_cons_notDot _ _ _ _ _ rfl]
    cases f with
    | zero => simp [parse]
    | succ g =>
      simp only [parse]
      exact ih m _ (by omega)

theorem toksL_replicate_int (n : Nat) :
    toksL (List.replicate n (.int 0)) = List.replicate n (.lit (.int 0)) := by
  induction n with
  | zero => simp [toksL]
  | succ n ih => simp [List.replicate_succ, toksL, toks, ih]

theorem wfSeq_replicate_int (n : Nat) : wfSeq true (List.replicate n (.int 0)) = true := by
  induction n with
  | zero => simp [wfSeq]
  | succ n ih => simp [List.replicate_succ, wfSeq, wf, isDotSym, sepOk, ih]

/-- The fuel `expand` passes to `parse` counts top-level tokens only, so the model rejects a flat
    list of 1100 integers (one top-level token), which the Rust macro accepts: the fuel hypothesis
    of `C09_expand` cannot be dropped *for the model*. -/
theorem expand_fuel_too_small (env : Tok → Value) :
    wf (.list (List.replicate 1100 (.int 0))) = true ∧
    expand env (toks (.list (List.replicate 1100 (.int 0)))) = none := by
  refine ⟨by simp only [wf]; exact wfSeq_replicate_int _, ?_⟩
  have h := parseList_out_of_fuel 1100 1001 [] (by omega)
  simp only [expand, toks, toksL_replicate_int, List.length_cons, List.length_nil]
  rw [parse.eq_def]
  simp only [h, Option.map_none]

/-! ## Main theorems -/

/-- **C09_parse_inverts_toks.** For a well-formed documented tree `d`, `Parser::parse` reads exactly
    `mv d` off the front of `toks d ++ rest` and leaves `rest`, for every fuel `≥ need d` and every
    `rest` not glued to `d` (`sepOk d rest`: only relevant when `d` is the lone symbol `-` or `:`;
    e.g. `rest = []` always qualifies, see `sepOk_nil`). -/
theorem C09_parse_inverts_toks (d : Doc) (fuel : Nat) (rest : List Tok) (hwf : WF d)
    (hfuel : need d ≤ fuel) (hsep : sepOk d rest = true) :
    parse fuel (toks d ++ rest) = some (mv d, rest) :=
  parse_toks d fuel rest hwf hfuel hsep

/-- `C09_parse_inverts_toks` for every `rest` when `d` is not a one-character punctuation symbol. -/
theorem C09_parse_inverts_toks_any_rest (d : Doc) (fuel : Nat) (rest : List Tok) (hwf : WF d)
    (hfuel : need d ≤ fuel) (hd : ∀ c, d ≠ .psym [c]) :
    parse fuel (toks d ++ rest) = some (mv d, rest) := by
  refine parse_toks d fuel rest hwf hfuel ?_
  unfold sepOk; split
  · exact absurd rfl (hd _)
  · rfl

/-- Well-formed trees with the same token stream have the same macro value: identifying trees
    by their token stream (DESIGN.md, C09) loses nothing. -/
theorem C09_toks_determines_mv (d₁ d₂ : Doc) (h₁ : WF d₁) (h₂ : WF d₂) (h : toks d₁ = toks d₂) :
    mv d₁ = mv d₂ := by
  have p₁ := parse_toks d₁ (max (need d₁) (need d₂)) [] h₁ (by omega) (sepOk_nil _)
  have p₂ := parse_toks d₂ (max (need d₁) (need d₂)) [] h₂ (by omega) (sepOk_nil _)
  rw [h, p₂] at p₁
  simpa using p₁.symm

/-- **C09 lists.** `parse_list` on the elements' tokens gives the list of the elements' values. -/
theorem C09_parseList_inverts (xs : List Doc) (fuel : Nat) (hwf : wfSeq true xs = true)
    (hfuel : needSeq xs 0 ≤ fuel) :
    parseList fuel (xs.flatMap toks) [] none = some (.list (xs.map mv)) := by
  have h := parseList_seq xs fuel [] [] none 0 hwf hfuel rfl rfl
  simpa [toksL_eq_flatMap, mvL_eq_map, parseList_nil] using h

/-- **C09 dotted lists.** `parse_list` on `x₁ … xₙ . t` gives the elements with the tail `t`;
    a tail that is itself a list or dotted list is merged (`flattenTail`). -/
theorem C09_parseList_dotted (xs : List Doc) (t : Doc) (fuel : Nat) (hwf : wfSeq true xs = true)
    (ht : WF t) (hfuel : needSeq xs (1 + need t) ≤ fuel) :
    parseList fuel (xs.flatMap toks ++ [.punct 46 .alone] ++ toks t) [] none =
      some (flattenTail (xs.map mv) (mv t)) := by
  have hp := parse_toks (.dotted xs t) (fuel + 1) []
    (by simp only [wf, Bool.and_eq_true]; exact ⟨hwf, ht⟩) (by simp only [need]; omega) rfl
  rw [parse.eq_def] at hp
  simp only [toks, List.cons_append, List.nil_append, mv, Option.map_eq_some_iff, Prod.mk.injEq,
    and_true, exists_eq_right] at hp
  simpa [toksL_eq_flatMap, mvL_eq_map] using hp

/-- **C09 vectors.** -/
theorem C09_parseVector_inverts (xs : List Doc) (fuel : Nat) (hwf : wfSeq false xs = true)
    (hfuel : needSeq xs 0 ≤ fuel) :
    parseVector fuel (xs.flatMap toks) [] = some (.vector (xs.map mv)) := by
  have h := parseVector_seq xs fuel [] hwf hfuel
  simpa [toksL_eq_flatMap, mvL_eq_map] using h

/-- **C09_unquote.** An unquoted token tree evaluates to `Value::from(expr)`. -/
theorem C09_unquote (env : Tok → Value) (t : Tok) : eval env (.unquoted t) = env t := by
  simp only [eval]

/-- **C09_unquote** in dotted-tail position: the elements are consed onto `Value::from(expr)`. -/
theorem C09_unquote_tail (env : Tok → Value) (xs : List MV) (t : Tok) :
    eval env (.improper xs (.unquoted t)) = Value.append (evalAll env xs) (env t) := by
  simp only [eval]

/-- **C09_unquote**, end to end: `sexp!((x₁ … xₙ . ,expr))` -/
theorem C09_unquote_expand (env : Tok → Value) (xs : List Doc) (t : Tok)
    (hwf : wfSeq true xs = true) (hfuel : needSeq xs 2 ≤ 1001) :
    expand env (toks (.dotted xs (.unq t))) =
      some (Value.append (xs.map (valueOf env)) (env t)) := by
  have hp := parse_toks (.dotted xs (.unq t)) (2 * (toks (.dotted xs (.unq t))).length + 1000) []
    (by simp only [wf, Bool.and_eq_true]; exact ⟨hwf, trivial⟩)
    (by simp only [need, toks, List.length_cons, List.length_nil, Nat.reduceAdd, Nat.reduceMul]; omega) rfl
  rw [List.append_nil] at hp
  simp only [expand, hp, eval_mv, valueOf, valueOfL_eq_map]

/-- **C09_tail_flatten** (proper tail): merging a list tail into the elements, as `parse_list`
    does, agrees with `Value::append` of the elements onto the evaluated tail. -/
theorem C09_tail_flatten (env : Tok → Value) (xs ys : List MV) :
    eval env (.list (xs ++ ys)) = Value.append (evalAll env xs) (eval env (.list ys)) :=
  eval_list_append env xs ys

/-- **C09_tail_flatten** (dotted tail). -/
theorem C09_tail_flatten_improper (env : Tok → Value) (xs ys : List MV) (r : MV) :
    eval env (.improper (xs ++ ys) r) =
      Value.append (evalAll env xs) (eval env (.improper ys r)) :=
  eval_improper_append env xs ys r

/-- **C09_tail_flatten**, all three cases of `parse_list` at once: whatever the tail `t` is, the
    flattened macro value evaluates to `Value::append(elements, tail)`. -/
theorem C09_flattenTail_eval (env : Tok → Value) (xs : List MV) (t : MV) :
    eval env (flattenTail xs t) = Value.append (evalAll env xs) (eval env t) :=
  eval_flattenTail env xs t

/-- **C09_eval_mv.** The generated code evaluates to the value the text denotes. -/
theorem C09_eval_mv (env : Tok → Value) (d : Doc) : eval env (mv d) = valueOf env d :=
  eval_mv env d

/-- **C09_expand.** `sexp!` applied to the tokens of a well-formed documented tree builds the
    documented value.  The fuel hypothesis is an artefact of the model (`expand` passes
    `2 * #top-level tokens + 1000`); it cannot be dropped, see `expand_fuel_too_small`. -/
theorem C09_expand (env : Tok → Value) (d : Doc) (hwf : WF d)
    (hfuel : need d ≤ 2 * (toks d).length + 1000) :
    expand env (toks d) = some (valueOf env d) := by
  have hp := parse_toks d _ [] hwf hfuel (sepOk_nil d)
  rw [List.append_nil] at hp
  simp only [expand, hp, eval_mv]

/-- **C09_expand** with a fuel hypothesis that does not mention `need`: at most 500 nodes. -/
theorem C09_expand_small (env : Tok → Value) (d : Doc) (hwf : WF d) (hsize : nodes d ≤ 500) :
    expand env (toks d) = some (valueOf env d) := by
  have := need_le_nodes d
  exact C09_expand env d hwf (by omega)

/-! ### Instances -/

/-- `(- + -5 (a #:b . (1 ,x)) #(. "s" -) <=> #:-> #"k-s" :k #t 'c' 1.5 :)` -/
def exampleDoc : Doc :=
  .list [.psym [45], .psym [43], .negInt 5,
    .dotted [.sym (asc "a"), .kw (asc "b")] (.list [.int 1, .unq (.ident (asc "x"))]),
    .vec [.psym [46], .str (asc "s") (asc "s"), .psym [45]],
    .psym (asc "<=>"), .pkw (asc "->"), .qsym (asc "k-s") (asc "k-s"), .ckw (asc "k"), .tru,
    .chr 99, .float 15 (-1), .psym [58]]

theorem exampleDoc_wf : WF exampleDoc := by decide
theorem exampleDoc_need : need exampleDoc = 15 := by decide
theorem exampleDoc_nodes : nodes exampleDoc = 22 := by decide

example (rest : List Tok) :
    parse 15 (toks exampleDoc ++ rest) = some (mv exampleDoc, rest) :=
  C09_parse_inverts_toks exampleDoc 15 rest exampleDoc_wf (by decide) rfl

example : parse 1 (toks (.psym [45]) ++ [.punct 45 .alone, .lit (.int 1)]) =
    some (.symbol [45], [.punct 45 .alone, .lit (.int 1)]) :=
  C09_parse_inverts_toks (.psym [45]) 1 _ (by decide) (by decide) (by decide)

/-- the symbol `-` directly before a string literal (`sepOk` holds: the literal is not numeric) -/
example (rest : List Tok) :
    parse 1 (toks (.psym [45]) ++ .lit (.str (asc "s") (asc "s")) :: rest) =
      some (.symbol [45], .lit (.str (asc "s") (asc "s")) :: rest) :=
  C09_parse_inverts_toks (.psym [45]) 1 _ (by decide) (by decide) rfl

/-- `(- "s")` and `(- 'a')` through `C09_parse_inverts_toks` -/
example (rest : List Tok) :
    parse 4 (toks (.list [.psym [45], .str (asc "s") (asc "s")]) ++ rest) =
      some (.list [.symbol [45], .literal (.str (asc "s") (asc "s"))], rest) :=
  C09_parse_inverts_toks _ 4 rest (by decide) (by decide) rfl
example (rest : List Tok) :
    parse 4 (toks (.list [.psym [45], .chr 97]) ++ rest) =
      some (.list [.symbol [45], .literal (.char 97)], rest) :=
  C09_parse_inverts_toks _ 4 rest (by decide) (by decide) rfl

example (rest : List Tok) : parse 4 (toks (.vec [.psym [46], .psym [45]]) ++ rest) =
    some (.vector [.symbol [46], .symbol [45]], rest) :=
  C09_parse_inverts_toks_any_rest _ 4 rest (by decide) (by decide) (by intro c h; cases h)

example : mv exampleDoc = mv exampleDoc :=
  C09_toks_determines_mv _ _ exampleDoc_wf exampleDoc_wf rfl

example : parseList 3 ([Doc.psym [45], .sym (asc "x")].flatMap toks) [] none =
    some (.list [.symbol [45], .symbol (asc "x")]) :=
  C09_parseList_inverts _ 3 (by decide) (by decide)

/-- `(1 2 . (3 . ()))` is `(1 2 3)` -/
example : parseList 7 ([Doc.int 1, .int 2].flatMap toks ++ [.punct 46 .alone] ++
      toks (.dotted [.int 3] (.list []))) [] none =
    some (.list [.literal (.int 1), .literal (.int 2), .literal (.int 3)]) :=
  C09_parseList_dotted [.int 1, .int 2] (.dotted [.int 3] (.list [])) 7 (by decide) (by decide)
    (by decide)

example : parseVector 3 ([Doc.psym [46], .int 1].flatMap toks) [] =
    some (.vector [.symbol [46], .literal (.int 1)]) :=
  C09_parseVector_inverts _ 3 (by decide) (by decide)

example (env : Tok → Value) : eval env (.unquoted (.ident (asc "x"))) = env (.ident (asc "x")) :=
  C09_unquote env _

example (env : Tok → Value) :
    eval env (.improper [.bool true] (.unquoted (.ident (asc "x")))) =
      .cons (.bool true) (env (.ident (asc "x"))) :=
  C09_unquote_tail env _ _

/-- `sexp!(((answer . ,(number + 2))))`-style: `(answer . ,e)` -/
example (env : Tok → Value) (e : Tok) :
    expand env (toks (.dotted [.sym (asc "answer")] (.unq e))) =
      some (.cons (.symbol (asc "answer")) (env e)) :=
  C09_unquote_expand env [.sym (asc "answer")] e (by decide) (by decide)

example (env : Tok → Value) :
    eval env (.list ([.bool true] ++ [.nil])) = .cons (.bool true) (.cons .nil .null) :=
  C09_tail_flatten env _ _

example (env : Tok → Value) :
    eval env (.improper ([.bool true] ++ [.nil]) (.bool false)) =
      .cons (.bool true) (.cons .nil (.bool false)) :=
  C09_tail_flatten_improper env _ _ _

example (env : Tok → Value) :
    eval env (flattenTail [.bool true] (.improper [.nil] (.bool false))) =
      .cons (.bool true) (.cons .nil (.bool false)) :=
  C09_flattenTail_eval env _ _

example (env : Tok → Value) : eval env (mv exampleDoc) = valueOf env exampleDoc :=
  C09_eval_mv env exampleDoc

example (env : Tok → Value) : expand env (toks exampleDoc) = some (valueOf env exampleDoc) :=
  C09_expand env exampleDoc exampleDoc_wf (by decide)

example (env : Tok → Value) : expand env (toks exampleDoc) = some (valueOf env exampleDoc) :=
  C09_expand_small env exampleDoc exampleDoc_wf (by decide)

/-- **`(- "s")`, `(- 'a')`, `(- "s" 1)` through `C09_expand`**: the two- and three-element lists
    that start with the symbol `-` -/
theorem C09_expand_minus_before_string (env : Tok → Value) :
    expand env (toks (.list [.psym [45], .str (asc "s") (asc "s")])) =
      some (Value.list [.symbol [45], .string (asc "s")]) ∧
    expand env (toks (.list [.psym [45], .chr 97])) =
      some (Value.list [.symbol [45], .char 97]) ∧
    expand env (toks (.list [.psym [45], .str (asc "s") (asc "s"), .int 1])) =
      some (Value.list [.symbol [45], .string (asc "s"), .number (.pos 1)]) := by
  refine ⟨?_, ?_, ?_⟩
  · rw [C09_expand env _ (by decide) (by decide)]; simp [valueOf, valueOfL]
  · rw [C09_expand env _ (by decide) (by decide)]; simp [valueOf, valueOfL]
  · rw [C09_expand env _ (by decide) (by decide)]; simp [valueOf, valueOfL, Number.ofSigned]

/-- `(- "s" . ,e)` through `C09_unquote_expand` -/
example (env : Tok → Value) (e : Tok) :
    expand env (toks (.dotted [.psym [45], .str (asc "s") (asc "s")] (.unq e))) =
      some (.cons (.symbol [45]) (.cons (.string (asc "s")) (env e))) :=
  C09_unquote_expand env [.psym [45], .str (asc "s") (asc "s")] e (by decide) (by decide)

/-- the documented identities `(1 2 3) = (1 . (2 . (3 . ()))) = (1 2 . (3 . ()))` hold for the
    macro values already, hence for the expansions -/
example : mv (.dotted [.int 1] (.dotted [.int 2] (.dotted [.int 3] (.list [])))) =
      mv (.list [.int 1, .int 2, .int 3]) ∧
    mv (.dotted [.int 1, .int 2] (.dotted [.int 3] (.list []))) =
      mv (.list [.int 1, .int 2, .int 3]) := ⟨rfl, rfl⟩

end Macro
end Lexpr
