/-
  Utf8InputAllOpts — C17, input clause, for WHOLE inputs and EVERY option set (slice and stream
  sources; the string syntax, the character syntax and every other option are arbitrary):

    `C17_whole_input_valid_all`: if `from_slice` / `from_reader` accepts `bytes`, every run of
    trivia in `bytes` is well-formed (`TV bytes`; in particular when `bytes` has no `;`) and —
    only needed under the Emacs Lisp string syntax — no backslash of `bytes` is directly followed
    by a blank, by `x` or by an octal digit (`NoByteEsc bytes`), then `bytes` is valid UTF-8.

  `NoByteEsc` is a syntactic condition on the input that excludes the exceptions recorded in
  `Utf8InputLoop` (byte escapes `\xHH`, `\ooo`, and the escaped blank); that SOME condition is
  needed is shown by `noByteEsc_needed_hex`, `noByteEsc_needed_octal` (the blank: repaired,
  `escaped_blank_inside_sequence_rejected_whole`, and the `_num` theorems need `NoNumEsc` only)
  (whole inputs without `;` that are not UTF-8 and are accepted under the Emacs Lisp options).

  Route: the invariant `InAll.Inv s0 s` already says that what is left at `s` is a suffix of the
  input at `s0` (`VC s0 s`), so a condition on the whole input that is closed under infixes reaches
  every token (`tokH_of_noByteEsc`); the three readers are re-run over an abstract hypothesis on
  the token scanner (`TokH`, `valueInvG`).
-/
import LexprModel.Proofs.Utf8InputAll
import LexprModel.Proofs.Utf8InputAllOptsBase
namespace Lexpr
namespace Parse
namespace InAllOpts
open Utf8 Utf8.U8 Parse.U8 InLoop InTok InAll Image

/-! ### what the readers need from the token scanner -/

/-- at every state reached from `s0`, an accepted token consumed a valid chunk -/
def TokH (cfg : Cfg) (s0 : St) : Prop :=
  ∀ {fuel : Nat} {pk : UInt8} {s s' : St} {tok : Token},
    parseToken cfg fuel pk s = .ok tok s' → s.rd.rest.head? = some pk → Inv s0 s → VC s s'

/-- the R6RS string syntax: no condition (`InTok.parseToken_vc`) -/
theorem tokH_of_r6rs {cfg : Cfg} (hr6 : cfg.opts.string = .r6rs) (s0 : St) : TokH cfg s0 :=
  fun ht hpk hs => parseToken_vc ht hpk hs.mode hr6

/-- every option set: the input at `s0` satisfies `NoNumEsc` (under the Emacs Lisp string
    syntax) -/
theorem tokH_of_noNumEsc {cfg : Cfg} {s0 : St}
    (h : cfg.opts.string = .elisp → NoNumEsc s0.rd.rest) : TokH cfg s0 := by
  intro fuel pk s s' tok ht hpk hs
  refine parseToken_vc_all_num ht hpk hs.mode (fun hel w hw => ?_)
  obtain ⟨_, p, _, hp⟩ := hs.vc
  have hnb := h hel
  rw [hp, hw] at hnb
  exact hnb.suffix.prefix

/-- the statement with `NoByteEsc`, a corollary of `tokH_of_noNumEsc` -/
theorem tokH_of_noByteEsc {cfg : Cfg} {s0 : St}
    (h : cfg.opts.string = .elisp → NoByteEsc s0.rd.rest) : TokH cfg s0 :=
  tokH_of_noNumEsc (fun hel => (h hel).toNum)

/-! ### the three readers, over `TokH` -/

/-- What is proved about the three mutually recursive readers, for one amount of fuel, at the
    states reached from `s0`. -/
def ValueInvAt (cfg : Cfg) (s0 : St) (f : Nat) : Prop :=
  (∀ {s s' : St} {v : Option Value}, nextValue cfg f s = .ok v s' → Inv s0 s → Inv s0 s') ∧
  (∀ {term : UInt8} {acc : List Value} {s s' : St} {v : Value},
      parseList cfg f term acc s = .ok v s' → Inv s0 s → Inv s0 s') ∧
  (∀ {term : UInt8} {acc : List Value} {s s' : St} {xs : List Value},
      parseVector cfg f term acc s = .ok xs s' → Inv s0 s → Inv s0 s')

theorem valueInvG (cfg : Cfg) (s0 : St) (htokH : TokH cfg s0) : ∀ f, ValueInvAt cfg s0 f := by
  intro f
  induction f with
  | zero =>
    refine ⟨?_, ?_, ?_⟩
    · intro s s' v h; simp [nextValue, outOfFuel] at h
    · intro term acc s s' v h; simp [parseList, outOfFuel] at h
    · intro term acc s s' v h; simp [parseVector, outOfFuel] at h
  | succ f ih =>
    obtain ⟨ihV, ihL, ihX⟩ := ih
    refine ⟨?_, ?_, ?_⟩
    · -- next_value
      intro s s' v h hs
      unfold nextValue at h
      obtain ⟨a, s1, hw, h⟩ := bind_ok h
      have hs1 := parseWhitespace_inv hw hs
      cases a with
      | none =>
        obtain ⟨_, rfl⟩ := pure_ok h
        exact hs1
      | some pk =>
        have hhead := parseWhitespace_head' hw
        dsimp only at h
        obtain ⟨tf, s2, htf, h⟩ := bind_ok h
        rw [tokenFuel_ok htf] at h
        obtain ⟨tok, s3, htok, h⟩ := bind_ok h
        have hs3 := hs1.step (htokH htok hhead hs1)
        have htokok := (parseToken_pres htok (parseWhitespace_head hw) hs1.sv).2
        cases tok with
        | byteVecOpen close =>
          dsimp only at h
          obtain ⟨bs, s4, hbl, h⟩ := bind_ok h
          obtain ⟨_, rfl⟩ := pure_ok h
          exact parseByteList_inv (tokOK_close htokok) hbl hs3
        | vecOpen close =>
          dsimp only at h
          obtain ⟨_, s4, he, h⟩ := bind_ok h
          have hs4 := hs3.of_rd (Parse.U8.enter_ok he)
          obtain ⟨ret, s5, hat, h⟩ := bind_ok h
          obtain ⟨_, s6, hl, h⟩ := bind_ok h
          obtain ⟨es, s7, hes, h⟩ := bind_ok h
          rcases attempt_ok hat with ⟨xs, rfl, hpv⟩ | ⟨e, rfl, _⟩
          · have hs5 := ihX hpv hs4
            have hs6 := hs5.of_rd (Parse.U8.leave_ok hl)
            rcases attempt_ok hes with ⟨u, rfl, hend⟩ | ⟨e, rfl, _⟩
            · obtain ⟨_, rfl⟩ := pure_ok h
              exact endSeq_inv (tokOK_close htokok) hend hs6
            · exact (liftExcept_error h).elim
          · cases es <;> exact (liftExcept_error h).elim
        | listOpen close =>
          dsimp only at h
          obtain ⟨_, s4, he, h⟩ := bind_ok h
          have hs4 := hs3.of_rd (Parse.U8.enter_ok he)
          obtain ⟨ret, s5, hat, h⟩ := bind_ok h
          obtain ⟨_, s6, hl, h⟩ := bind_ok h
          obtain ⟨es, s7, hes, h⟩ := bind_ok h
          rcases attempt_ok hat with ⟨v0, rfl, hpl⟩ | ⟨e, rfl, _⟩
          · have hs5 := ihL hpl hs4
            have hs6 := hs5.of_rd (Parse.U8.leave_ok hl)
            rcases attempt_ok hes with ⟨u, rfl, hend⟩ | ⟨e, rfl, _⟩
            · obtain ⟨_, rfl⟩ := pure_ok h
              exact endSeq_inv (tokOK_close htokok) hend hs6
            · exact (liftExcept_error h).elim
          · cases es <;> exact (liftExcept_error h).elim
        | quotation q =>
          dsimp only at h
          obtain ⟨_, s4, he, h⟩ := bind_ok h
          have hs4 := hs3.of_rd (Parse.U8.enter_ok he)
          obtain ⟨ret, s5, hat, h⟩ := bind_ok h
          obtain ⟨_, s6, hl, h⟩ := bind_ok h
          rcases attempt_ok hat with ⟨ov, rfl, hnv⟩ | ⟨e, rfl, _⟩
          · have hs5 := ihV hnv hs4
            have hs6 := hs5.of_rd (Parse.U8.leave_ok hl)
            cases ov with
            | none => simp [peekErr] at h
            | some d =>
              obtain ⟨_, rfl⟩ := pure_ok h
              exact hs6
          · exact (liftExcept_error h).elim
        | _ =>
          simp only [Token.atom] at h
          obtain ⟨_, h2⟩ := pure_ok h
          subst h2
          exact hs3
    · -- parse_list
      intro term acc s s' v h hs
      unfold parseList at h
      obtain ⟨a, s1, hw, h⟩ := bind_ok h
      have hs1 := parseWhitespace_inv hw hs
      cases a with
      | none => simp [peekErr] at h
      | some c =>
        have hhead := parseWhitespace_head' hw
        dsimp only at h
        rcases ite_ok h with ⟨_, h⟩ | ⟨_, h⟩
        · rcases ite_ok h with ⟨_, h⟩ | ⟨_, h⟩
          · simp [peekErr] at h
          · obtain ⟨_, rfl⟩ := pure_ok h
            exact hs1
        rcases ite_ok h with ⟨h46, h⟩ | ⟨_, h⟩
        · obtain ⟨_, s2, hd, h⟩ := bind_ok h
          have hs2 := discard_inv hd hhead (by rw [eq_of_beq h46]; decide) hs1
          obtain ⟨nxt, s3, hp, h⟩ := bind_ok h
          have hs3 : Inv s0 s3 := hs2.asuf (peekOrNull_same hp)
          rcases ite_ok h with ⟨_, h⟩ | ⟨_, h⟩
          · rcases ite_ok h with ⟨_, h⟩ | ⟨_, h⟩
            · obtain ⟨a, s4, _, h⟩ := bind_ok h
              cases a <;> simp [peekErr] at h
            · obtain ⟨tail, s4, ht, h⟩ := bind_ok h
              obtain ⟨ov, s4', hnv, ht⟩ := bind_ok ht
              have hs4' := ihV hnv hs3
              cases ov with
              | none => simp [peekErr] at ht
              | some v0 =>
                obtain ⟨_, rfl⟩ := pure_ok ht
                obtain ⟨a, s5, hw5, h⟩ := bind_ok h
                have hs5 := parseWhitespace_inv hw5 hs4'
                cases a with
                | none => simp [peekErr] at h
                | some c' =>
                  rcases ite_ok h with ⟨_, h⟩ | ⟨_, h⟩
                  · obtain ⟨_, rfl⟩ := pure_ok h
                    exact hs5
                  · simp [peekErr] at h
          · obtain ⟨name, s4, hsym, h⟩ := bind_ok h
            exact ihL h (hs3.step (parseSymbolBytes_vc hsym hs3.mode (by decide)))
        · obtain ⟨ov, s2, hnv, h⟩ := bind_ok h
          have hs2 := ihV hnv hs1
          cases ov with
          | none => simp [peekErr] at h
          | some v0 => exact ihL h hs2
    · -- parse_vector
      intro term acc s s' xs h hs
      unfold parseVector at h
      obtain ⟨a, s1, hw, h⟩ := bind_ok h
      have hs1 := parseWhitespace_inv hw hs
      cases a with
      | none => simp [peekErr] at h
      | some c =>
        dsimp only at h
        rcases ite_ok h with ⟨_, h⟩ | ⟨_, h⟩
        · rcases ite_ok h with ⟨_, h⟩ | ⟨_, h⟩
          · simp [peekErr] at h
          · obtain ⟨_, rfl⟩ := pure_ok h
            exact hs1
        · obtain ⟨ov, s2, hnv, h⟩ := bind_ok h
          have hs2 := ihV hnv hs1
          cases ov with
          | none => simp [peekErr] at h
          | some v0 => exact ihX h hs2

/-! ### entry points -/

/-- **`next_value` consumes a valid chunk, every option set** (one call of `Parser::next_value` /
    one item of the value iterator), from any state of a slice or stream reader whose remaining
    trivia are well-formed and — Emacs Lisp string syntax — whose remaining input satisfies
    `NoNumEsc`. -/
theorem C17_next_value_input_valid_all_num {cfg : Cfg} {S S' : St} {v : Option Value}
    {w : List UInt8} (h : nextValueTop cfg S = .ok v S')
    (hm : S.rd.mode ≠ .str) (htv : TV S.rd.rest)
    (hnb : cfg.opts.string = .elisp → NoNumEsc S.rd.rest)
    (hw : S.rd.rest = w ++ S'.rd.rest) :
    Utf8.valid w = true := by
  unfold nextValueTop at h
  obtain ⟨f, s1, hf, h⟩ := bind_ok h
  rw [apiFuel_ok hf] at h
  have := (valueInvG cfg S (tokH_of_noNumEsc hnb) f).1 h ⟨VC.refl S, htv, hm⟩
  exact this.vc.valid_of hw

/-- the statement with `NoByteEsc`, a corollary of `C17_next_value_input_valid_all_num` -/
theorem C17_next_value_input_valid_all {cfg : Cfg} {S S' : St} {v : Option Value}
    {w : List UInt8} (h : nextValueTop cfg S = .ok v S')
    (hm : S.rd.mode ≠ .str) (htv : TV S.rd.rest)
    (hnb : cfg.opts.string = .elisp → NoByteEsc S.rd.rest)
    (hw : S.rd.rest = w ++ S'.rd.rest) :
    Utf8.valid w = true :=
  C17_next_value_input_valid_all_num h hm htv (fun hel => (hnb hel).toNum) hw

theorem fromTrait_inv_all_num {cfg : Cfg} {s s' : St} {v : Value}
    (h : fromTrait cfg s = .ok v s') (hm : s.rd.mode ≠ .str) (htv : TV s.rd.rest)
    (hnb : cfg.opts.string = .elisp → NoNumEsc s.rd.rest) :
    Inv s s' ∧ s'.rd.rest = [] := by
  unfold fromTrait at h
  obtain ⟨x, s1, he, h⟩ := bind_ok h
  obtain ⟨_, s2, hend, h⟩ := bind_ok h
  obtain ⟨_, rfl⟩ := pure_ok h
  unfold expectValue at he
  obtain ⟨ov, s3, hn, he⟩ := bind_ok he
  unfold nextValueTop at hn
  obtain ⟨f, s4, hf, hn⟩ := bind_ok hn
  rw [apiFuel_ok hf] at hn
  have hs3 := (valueInvG cfg s (tokH_of_noNumEsc hnb) f).1 hn ⟨VC.refl s, htv, hm⟩
  cases ov with
  | none => simp [peekErr] at he
  | some x' =>
    obtain ⟨_, rfl⟩ := pure_ok he
    exact expectEnd_inv hend hs3

/-- the statement with `NoByteEsc`, a corollary of `fromTrait_inv_all_num` -/
theorem fromTrait_inv_all {cfg : Cfg} {s s' : St} {v : Value}
    (h : fromTrait cfg s = .ok v s') (hm : s.rd.mode ≠ .str) (htv : TV s.rd.rest)
    (hnb : cfg.opts.string = .elisp → NoByteEsc s.rd.rest) :
    Inv s s' ∧ s'.rd.rest = [] :=
  fromTrait_inv_all_num h hm htv (fun hel => (hnb hel).toNum)

/-- **C17, input clause, whole inputs, EVERY option set**: if `from_slice` / `from_reader`
    accepts `bytes`, the trivia of `bytes` are well-formed and — only needed under the Emacs Lisp
    string syntax — no backslash of `bytes` is directly followed by `x` or an octal
    digit, then `bytes` is valid UTF-8.  (`faulty`: whether the stream ends in a failing `read`;
    an accepted input never got there.) -/
theorem C17_whole_input_valid_all_num {cfg : Cfg} {mode : Mode} {bytes : List UInt8} {faulty : Bool}
    {v : Value} {S' : St} (h : fromTrait cfg (initSt mode bytes faulty) = .ok v S')
    (hm : mode ≠ .str) (htv : TV bytes) (hnb : cfg.opts.string = .elisp → NoNumEsc bytes) :
    Utf8.valid bytes = true := by
  obtain ⟨hinv, hrest⟩ := fromTrait_inv_all_num h (by exact hm) (by exact htv) (by exact hnb)
  exact hinv.vc.valid_of (w := bytes) (by rw [hrest]; simp [initSt])

/-- the statement with `NoByteEsc`, a corollary of `C17_whole_input_valid_all_num` -/
theorem C17_whole_input_valid_all {cfg : Cfg} {mode : Mode} {bytes : List UInt8} {faulty : Bool}
    {v : Value} {S' : St} (h : fromTrait cfg (initSt mode bytes faulty) = .ok v S')
    (hm : mode ≠ .str) (htv : TV bytes) (hnb : cfg.opts.string = .elisp → NoByteEsc bytes) :
    Utf8.valid bytes = true :=
  C17_whole_input_valid_all_num h hm htv (fun hel => (hnb hel).toNum)

/-- **The rule of the differential oracle, every option set**: input that is not UTF-8, contains
    no `;`, has no backslash directly followed by `x` or an octal digit, and is read to
    the end is never accepted (slice and stream sources). -/
theorem C17_whole_input_valid_all_no_comment_num {cfg : Cfg} {mode : Mode} {bytes : List UInt8}
    {faulty : Bool} {v : Value} {S' : St}
    (h : fromTrait cfg (initSt mode bytes faulty) = .ok v S')
    (hm : mode ≠ .str) (hno : ∀ b ∈ bytes, b ≠ 59) (hnb : NoNumEsc bytes) :
    Utf8.valid bytes = true :=
  C17_whole_input_valid_all_num h hm (TV.of_no59 hno) (fun _ => hnb)

/-- the statement with `NoByteEsc`, a corollary of `C17_whole_input_valid_all_no_comment_num` -/
theorem C17_whole_input_valid_all_no_comment {cfg : Cfg} {mode : Mode} {bytes : List UInt8}
    {faulty : Bool} {v : Value} {S' : St}
    (h : fromTrait cfg (initSt mode bytes faulty) = .ok v S')
    (hm : mode ≠ .str) (hno : ∀ b ∈ bytes, b ≠ 59) (hnb : NoByteEsc bytes) :
    Utf8.valid bytes = true :=
  C17_whole_input_valid_all_no_comment_num h hm hno hnb.toNum

/-- the contrapositive, as the oracle states it -/
theorem C17_ill_formed_input_rejected_all_num {cfg : Cfg} {mode : Mode} {bytes : List UInt8}
    {faulty : Bool} (hm : mode ≠ .str) (hno : ∀ b ∈ bytes, b ≠ 59) (hnb : NoNumEsc bytes)
    (hbad : Utf8.valid bytes = false) :
    ∀ v S', fromTrait cfg (initSt mode bytes faulty) ≠ .ok v S' := by
  intro v S' h
  rw [C17_whole_input_valid_all_no_comment_num h hm hno hnb] at hbad
  cases hbad

/-- the statement with `NoByteEsc`, a corollary of `C17_ill_formed_input_rejected_all_num` -/
theorem C17_ill_formed_input_rejected_all {cfg : Cfg} {mode : Mode} {bytes : List UInt8}
    {faulty : Bool} (hm : mode ≠ .str) (hno : ∀ b ∈ bytes, b ≠ 59) (hnb : NoByteEsc bytes)
    (hbad : Utf8.valid bytes = false) :
    ∀ v S', fromTrait cfg (initSt mode bytes faulty) ≠ .ok v S' :=
  C17_ill_formed_input_rejected_all_num hm hno hnb.toNum hbad

/-- for an accepted input that satisfies `NoNumEsc`: valid UTF-8 exactly when its trivia are
    well-formed — ill-formed bytes can hide in comments and nowhere else -/
theorem C17_whole_input_valid_all_iff_num {cfg : Cfg} {mode : Mode} {bytes : List UInt8}
    {faulty : Bool} {v : Value} {S' : St}
    (h : fromTrait cfg (initSt mode bytes faulty) = .ok v S')
    (hm : mode ≠ .str) (hnb : cfg.opts.string = .elisp → NoNumEsc bytes) :
    Utf8.valid bytes = true ↔ TV bytes :=
  ⟨TV.of_valid, fun htv => C17_whole_input_valid_all_num h hm htv hnb⟩

/-- the statement with `NoByteEsc`, a corollary of `C17_whole_input_valid_all_iff_num` -/
theorem C17_whole_input_valid_all_iff {cfg : Cfg} {mode : Mode} {bytes : List UInt8}
    {faulty : Bool} {v : Value} {S' : St}
    (h : fromTrait cfg (initSt mode bytes faulty) = .ok v S')
    (hm : mode ≠ .str) (hnb : cfg.opts.string = .elisp → NoByteEsc bytes) :
    Utf8.valid bytes = true ↔ TV bytes :=
  C17_whole_input_valid_all_iff_num h hm (fun hel => (hnb hel).toNum)

/-- the theorem of `Utf8InputAll` is the instance `string = .r6rs` -/
example {cfg : Cfg} {mode : Mode} {bytes : List UInt8} {faulty : Bool}
    {v : Value} {S' : St} (h : fromTrait cfg (initSt mode bytes faulty) = .ok v S')
    (hr6 : cfg.opts.string = .r6rs) (hm : mode ≠ .str) (htv : TV bytes) :
    Utf8.valid bytes = true :=
  C17_whole_input_valid_all h hm htv (fun hel => by rw [hr6] at hel; cases hel)

/-! ### witnesses -/

/-- `"` C3 `\xa9"` -/
def wHex : List UInt8 := [0x22, 0xC3, 0x5C, 0x78, 0x61, 0x39, 0x22]
/-- `"` C3 `\251"` -/
def wOct : List UInt8 := [0x22, 0xC3, 0x5C, 0x32, 0x35, 0x31, 0x22]
/-- `"` C3 `\ ` A9 `"` -/
def wBlank : List UInt8 := [0x22, 0xC3, 0x5C, 0x20, 0xA9, 0x22]

theorem not_noByteEsc_of {pre post : List UInt8} {c : UInt8} {l : List UInt8}
    (hl : l = pre ++ 92 :: c :: post) (hc : c = 32 ∨ c = 120 ∨ (48 ≤ c ∧ c ≤ 55)) :
    ¬ NoByteEsc l := by
  intro h
  obtain ⟨h1, h2, h3⟩ := h pre c post hl
  rcases hc with hc | hc | hc
  · exact h1 hc
  · exact h2 hc
  · exact h3 hc

/-- **`NoByteEsc` is needed, `x`**: under the Emacs Lisp options the whole input `"` C3 `\xa9"` —
    no `;`, not UTF-8 — is accepted by `from_slice` and by `from_reader` as the string `é`; it
    fails `NoByteEsc` and nothing else. -/
theorem noByteEsc_needed_hex :
    cfgEl.opts.string = .elisp ∧ (∀ b ∈ wHex, b ≠ (59 : UInt8)) ∧ Utf8.valid wHex = false ∧
    parsesTo cfgEl wHex (.string [0xC3, 0xA9]) = true ∧ acceptsAll cfgEl .io wHex = true ∧
    ¬ NoByteEsc wHex :=
  ⟨rfl, by decide, by decide +kernel, by decide +kernel, by decide +kernel,
    not_noByteEsc_of (pre := [0x22, 0xC3]) (c := 0x78) (post := [0x61, 0x39, 0x22]) rfl
      (Or.inr (Or.inl rfl))⟩

/-- **`NoByteEsc` is needed, octal digits**: `"` C3 `\251"` is accepted as `é` -/
theorem noByteEsc_needed_octal :
    (∀ b ∈ wOct, b ≠ (59 : UInt8)) ∧ Utf8.valid wOct = false ∧
    parsesTo cfgEl wOct (.string [0xC3, 0xA9]) = true ∧ acceptsAll cfgEl .io wOct = true ∧
    ¬ NoByteEsc wOct :=
  ⟨by decide, by decide +kernel, by decide +kernel, by decide +kernel,
    not_noByteEsc_of (pre := [0x22, 0xC3]) (c := 0x32) (post := [0x35, 0x31, 0x22]) rfl
      (Or.inr (Or.inr (by decide)))⟩

/-- **The blank, after the repair**: `"` C3 `\ ` A9 `"` was accepted as `é`; it is now rejected by
    both sources with `InvalidUnicodeCodePoint`, although it satisfies `NoNumEsc` — the exclusion
    of the blank in `NoByteEsc` is no longer needed (`C17_whole_input_valid_all_num`). -/
theorem escaped_blank_inside_sequence_rejected_whole :
    (∀ b ∈ wBlank, b ≠ (59 : UInt8)) ∧ Utf8.valid wBlank = false ∧
    rejectsWith cfgEl wBlank .invalidUnicodeCodePoint = true ∧
    acceptsAll cfgEl .slice wBlank = false ∧ acceptsAll cfgEl .io wBlank = false ∧
    noNumEscB wBlank = true ∧ ¬ NoByteEsc wBlank :=
  ⟨by decide, by decide +kernel, by decide +kernel, by decide +kernel, by decide +kernel,
    by decide +kernel,
    not_noByteEsc_of (pre := [0x22, 0xC3]) (c := 0x20) (post := [0xA9, 0x22]) rfl (Or.inl rfl)⟩

/-- an input with escaped blanks (behind a complete buffer, in front of a lead byte, of a
    backslash and of the closing quote) meets the hypotheses of the `_num` theorems and not those
    of the `NoByteEsc` ones: `("é\ é\ \n\ " a)` -/
def exInputElBlank : List UInt8 :=
  [0x28, 0x22, 0xC3, 0xA9, 0x5C, 0x20, 0xC3, 0xA9, 0x5C, 0x20, 0x5C, 0x6E, 0x5C, 0x20, 0x22, 0x20,
   0x61, 0x29]

theorem exInputElBlank_accepted :
    acceptsAll cfgEl .slice exInputElBlank = true ∧ acceptsAll cfgEl .io exInputElBlank = true ∧
    noNumEscB exInputElBlank = true ∧ noByteEscB exInputElBlank = false := by
  decide +kernel

example : Utf8.valid exInputElBlank = true := by
  obtain ⟨v, S', h⟩ := acceptsAll_spec exInputElBlank_accepted.1
  exact C17_whole_input_valid_all_no_comment_num h (by decide) (by decide)
    (noNumEscB_spec exInputElBlank_accepted.2.2.1)

/-- the third exception of `Utf8InputLoop` (a byte string whose text has a lead byte after a
    backslash: `"\` C3 `\x41"`) needs a numeric escape too, so `NoByteEsc` excludes it -/
theorem noByteEsc_excludes_unibyte :
    Utf8.valid [0x22, 0x5C, 0xC3, 0x5C, 0x78, 0x34, 0x31, 0x22] = false ∧
    parsesTo cfgEl [0x22, 0x5C, 0xC3, 0x5C, 0x78, 0x34, 0x31, 0x22] (.bytes [0xC3, 0x41]) = true ∧
    ¬ NoByteEsc [0x22, 0x5C, 0xC3, 0x5C, 0x78, 0x34, 0x31, 0x22] :=
  ⟨by decide +kernel, by decide +kernel,
    not_noByteEsc_of (pre := [0x22, 0x5C, 0xC3]) (c := 0x78) (post := [0x34, 0x31, 0x22]) rfl
      (Or.inr (Or.inl rfl))⟩

/-- an input that meets the hypotheses under the Emacs Lisp options:
    `(λ "é\néé\^a\λ" ?λ ?\n nil)` — raw non-ASCII text in a symbol, a string and a character,
    simple, `\u`, control and catch-all escapes in the string, an escaped character -/
def exInputEl : List UInt8 :=
  [0x28, 0xCE, 0xBB, 0x20, 0x22, 0xC3, 0xA9, 0x5C, 0x6E, 0xC3, 0xA9, 0x5C, 0x75, 0x30, 0x30, 0x65,
   0x39, 0x5C, 0x5E, 0x61, 0x5C, 0xCE, 0xBB, 0x22, 0x20, 0x3F, 0xCE, 0xBB, 0x20, 0x3F, 0x5C, 0x6E,
   0x20, 0x6E, 0x69, 0x6C, 0x29]

theorem exInputEl_accepted :
    acceptsAll cfgEl .slice exInputEl = true ∧ acceptsAll cfgEl .io exInputEl = true ∧
    noByteEscB exInputEl = true ∧ cfgEl.opts.string = .elisp := by
  decide +kernel

/-- … and the theorem applies to it (no `;` in it) -/
example : Utf8.valid exInputEl = true := by
  obtain ⟨v, S', h⟩ := acceptsAll_spec exInputEl_accepted.1
  exact C17_whole_input_valid_all_no_comment h (by decide) (by decide)
    (noByteEscB_spec exInputEl_accepted.2.2.1)

/-- the general form, with a comment: `("é\n" ; é` LF `?λ)` -/
def exInputElComment : List UInt8 :=
  [0x28, 0x22, 0xC3, 0xA9, 0x5C, 0x6E, 0x22, 0x20, 0x3B, 0x20, 0xC3, 0xA9, 0x0A, 0x3F, 0xCE, 0xBB,
   0x29]

theorem exInputElComment_accepted :
    acceptsAll cfgEl .slice exInputElComment = true ∧ noByteEscB exInputElComment = true := by
  decide +kernel

example : TV exInputElComment := by
  obtain ⟨v, S', h⟩ := acceptsAll_spec exInputElComment_accepted.1
  exact (C17_whole_input_valid_all_iff h (by decide)
    (fun _ => noByteEscB_spec exInputElComment_accepted.2)).mp (by decide +kernel)

/-- under the Emacs Lisp options, ill-formed input that satisfies `NoByteEsc` and has no comment
    is rejected wherever the bad byte stands: in a symbol, in a string (raw, behind a simple
    escape, a truncated sequence closed by the quote), in a character, between tokens, at the
    end -/
example :
    acceptsAll cfgEl .slice [0x28, 0x61, 0xFF, 0x29] = false ∧
    acceptsAll cfgEl .slice [0x22, 0xC3, 0x22] = false ∧
    acceptsAll cfgEl .slice [0x22, 0xC3, 0x5C, 0x6E, 0xA9, 0x22] = false ∧
    acceptsAll cfgEl .slice [0x22, 0x5C, 0xC3, 0x22] = false ∧
    acceptsAll cfgEl .slice [0x3F, 0xC3, 0x28, 0x29] = false ∧
    acceptsAll cfgEl .slice [0x28, 0x61, 0x20, 0x80, 0x20, 0x62, 0x29] = false ∧
    acceptsAll cfgEl .io [0x31, 0x20, 0xFF] = false := by
  decide +kernel

/-- the token theorem applies: the token `"é\né"` under the Emacs Lisp options -/
example : Utf8.valid [0x22, 0xC3, 0xA9, 0x5C, 0x6E, 0xC3, 0xA9, 0x22] = true := by
  have hrun : runTok cfgEl .slice [0x22, 0xC3, 0xA9, 0x5C, 0x6E, 0xC3, 0xA9, 0x22]
      (isString [0xC3, 0xA9, 0x0A, 0xC3, 0xA9]) = true := by decide +kernel
  obtain ⟨pk, tl, tok, S', htext, h, hp⟩ := runTok_spec hrun
  have hpk : pk = 34 := by cases htext; rfl
  subst hpk
  cases tok with
  | string s =>
    simp only [isString, Bool.and_eq_true, beq_iff_eq] at hp
    exact C17_token_input_valid_all h rfl (by decide) (by rw [hp.2]; simp [initSt])
      (fun _ => noByteEscB_spec (by decide))
  | _ => simp [isString] at hp

end InAllOpts
end Parse
end Lexpr
