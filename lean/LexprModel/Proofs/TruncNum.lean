/-
  Truncation (C19): the lexer, part 2 (numeric literals).

  Every `NumberOutOfRange` is an exception here (`hB`): a literal whose integer part has more than
  308 digits is out of range when the input ends, but a negative exponent may follow
  (see Truncation.lean, `C19_truncation_counterexample_long_integer`).
-/
import LexprModel.Proofs.TruncLex
import LexprModel.Proofs.Numbers
set_option linter.unusedSimpArgs false
namespace Lexpr
namespace Parse
namespace Trunc
open PrefixDet (Sim ext Scanner digitsLen scan ext_rest ext_consume)

theorem bind_ok' {α β : Type} {m : P α} {f : α → P β} {s s' : St} {b : β}
    (h : (m >>= f) s = .ok b s') : ∃ a s1, m s = .ok a s1 ∧ f a s1 = .ok b s' := by
  rw [bind_eq] at h
  cases hm : m s with
  | ok a s1 => rw [hm] at h; exact ⟨a, s1, rfl, h⟩
  | err e s1 => rw [hm] at h; cases h
  | panic p => rw [hm] at h; cases h
  | fuel => rw [hm] at h; cases h

theorem ite_ok' {α : Type} {c : Prop} [Decidable c] {A B : P α} {s s' : St} {a : α}
    (h : (if c then A else B) s = .ok a s') : (c ∧ A s = .ok a s') ∨ (¬c ∧ B s = .ok a s') := by
  split at h
  · exact Or.inl ⟨‹_›, h⟩
  · exact Or.inr ⟨‹_›, h⟩

theorem pure_ok' {α : Type} {a b : α} {s s' : St} (h : (pure a : P α) s = .ok b s') :
    a = b ∧ s = s' := by
  cases h; exact ⟨rfl, rfl⟩

section num
variable {X : Err → Prop} {s : St} {q : List UInt8}

theorem digitVal_zero (radix : Nat) : digitVal radix 0 = none := by
  simp (decide := true) [digitVal]

theorem f64FromParts_t {cfg : Cfg} {pos : Bool} {sig : Nat} {e : Int} :
    TS X QF (f64FromParts cfg pos sig e) (f64FromParts cfg pos sig e) s q := by
  unfold f64FromParts
  tsim (by assumption) [] []

theorem f64FromParts_eo (hB : ∀ l k, X (.syntax .numberOutOfRange l k)) {cfg : Cfg} {pos : Bool}
    {sig : Nat} {e : Int} (h0 : s.rd.rest = []) :
    EO X (f64FromParts cfg pos sig e) s (fun _ _ => True) := by
  unfold f64FromParts
  split
  · split
    · exact EO.pure h0 trivial
    · exact EO.errX hB
  · dsimp only
    split
    · exact EO.errX hB
    · exact EO.pure h0 trivial

theorem skipDigits_t (hq : q ≠ []) : TS X QT skipDigits skipDigits s q := by
  rw [PrefixDet.skipDigits_eq]
  refine TS.bind (scan_t PrefixDet.digits_scanner) (fun _ _ _ _ => ?_) (fun _ _ _ h0 _ => ?_)
  · tsim hq [] []
    tesim []
  · tesim []

theorem skipDigits_eo (h0 : s.rd.rest = []) : EO X skipDigits s (fun _ _ => True) := by
  rw [PrefixDet.skipDigits_eq]
  refine EO.bind_scan PrefixDet.digits_scanner h0 (fun s1 h1 _ _ _ => ?_)
  refine EO.bind_peek h1 ?_
  exact EO.pure h1 trivial

theorem parseExponentOverflow_t (hq : q ≠ []) {pos : Bool} {sig : Nat} {posExp : Bool} :
    TS X QT (parseExponentOverflow pos sig posExp) (parseExponentOverflow pos sig posExp) s q := by
  unfold parseExponentOverflow
  tsim hq [] [skipDigits_t hq]
  tesim []

theorem exponentLoop_t (hq : q ≠ []) (hB : ∀ l k, X (.syntax .numberOutOfRange l k)) {cfg : Cfg}
    {pos : Bool} {sig : Nat} {startExp : Int} {posExp : Bool} {f f' exp : Nat} (h : f ≤ f') :
    TS X QT (exponentLoop cfg pos sig startExp posExp f exp)
      (exponentLoop cfg pos sig startExp posExp f' exp) s q := by
  induction f generalizing f' exp s with
  | zero => exact TS.fuel0 rfl
  | succ f ih =>
    obtain ⟨g, rfl⟩ : ∃ g, f' = g + 1 := ⟨f' - 1, by omega⟩
    unfold exponentLoop
    tsim hq [f64FromParts_t] [parseExponentOverflow_t hq, ih]
    simp (decide := true) only [↓reduceIte, Bool.false_eq_true]
    tesim [f64FromParts_eo hB]

theorem parseExponent_t (hq : q ≠ []) (hB : ∀ l k, X (.syntax .numberOutOfRange l k)) {cfg : Cfg}
    {f f' : Nat} {pos : Bool} {sig : Nat} {startExp : Int} (h : f ≤ f') :
    TS X QT (parseExponent cfg f pos sig startExp) (parseExponent cfg f' pos sig startExp) s q := by
  unfold parseExponent
  tsim hq [] [exponentLoop_t hq hB]
  all_goals try simp (decide := true) only [↓reduceIte, Bool.false_eq_true]
  all_goals tesim []

theorem decimalLoop_t (hq : q ≠ []) {f f' sig : Nat} {exp : Int} {zeros : Nat} {any : Bool}
    (h : f ≤ f') : TS X QT (decimalLoop f sig exp zeros any) (decimalLoop f' sig exp zeros any) s q := by
  induction f generalizing f' sig exp zeros any s with
  | zero => exact TS.fuel0 rfl
  | succ f ih =>
    obtain ⟨g, rfl⟩ : ∃ g, f' = g + 1 := ⟨f' - 1, by omega⟩
    unfold decimalLoop
    tsim hq [] [skipDigits_t hq, ih]
    all_goals try simp (decide := true) only [↓reduceIte, Bool.false_eq_true]
    all_goals tesim []

theorem parseDecimal_t (hq : q ≠ []) (hB : ∀ l k, X (.syntax .numberOutOfRange l k)) {cfg : Cfg}
    {f f' : Nat} {pos : Bool} {sig : Nat} {exp : Int} (h : f ≤ f') :
    TS X QT (parseDecimal cfg f pos sig exp) (parseDecimal cfg f' pos sig exp) s q := by
  unfold parseDecimal
  tsim hq [f64FromParts_t] [decimalLoop_t hq, parseExponent_t hq hB]
  all_goals try simp (decide := true) only [↓reduceIte, Bool.false_eq_true]
  all_goals tesim [f64FromParts_eo hB]

theorem parseLongInteger_t (hq : q ≠ []) (hB : ∀ l k, X (.syntax .numberOutOfRange l k))
    {cfg : Cfg} {radix : Nat} {pos : Bool} {sig f f' exp : Nat} (h : f ≤ f') :
    TS X QT (parseLongInteger cfg radix pos sig f exp) (parseLongInteger cfg radix pos sig f' exp)
      s q := by
  induction f generalizing f' exp s with
  | zero => exact TS.fuel0 rfl
  | succ f ih =>
    obtain ⟨g, rfl⟩ : ∃ g, f' = g + 1 := ⟨f' - 1, by omega⟩
    unfold parseLongInteger
    generalize (2 : Nat) ^ 1024 = big
    tsim hq [f64FromParts_t] [parseDecimal_t hq hB, parseExponent_t hq hB, ih]
    all_goals try simp (decide := true) only [digitVal_zero, ↓reduceIte, Bool.false_eq_true]
    all_goals tesim [f64FromParts_eo hB]

/-! ### integer results: what a longer literal can still be -/

/-- the number is not a byte (`as_u64` fails or exceeds 255) -/
def nonOctet (n : Number) : Prop := ∀ v, n.asU64 = some v → 255 < v

/-- the diverged result of the integer scanners: if the truncated literal is not a byte, the
    longer one is not a byte either -/
def NumQ : Number → St → Res Number → Prop := fun n _ r' =>
  ∀ n' s', r' = .ok n' s' → nonOctet n → nonOctet n'

theorem negResult_none {sig : Nat} (h1 : 1 ≤ sig) (hs : sig ≤ u64Max) :
    (if wrappingNeg (asI64 sig) > 0 then Number.ofF64 (F64.neg (F64.ofNat sig))
      else Number.ofSigned (wrappingNeg (asI64 sig))).asU64 = none := by
  split
  · rfl
  · rename_i hneg
    unfold Number.ofSigned
    split
    · exfalso
      rename_i h0
      simp only [u64Max] at hs
      simp only [wrappingNeg, asI64, i64Min] at hneg h0
      split at hneg <;> split at hneg <;> simp_all <;> omega
    · rfl

theorem parseNumTail_mono {cfg : Cfg} {fuel radix : Nat} {pos : Bool} {sig : Nat} {x x' : St}
    {n : Number} (h : parseNumTail cfg fuel radix pos sig x = .ok n x') (hs : sig ≤ u64Max) :
    (pos = true → ∀ v, n.asU64 = some v → sig = v) ∧ (pos = false → 1 ≤ sig → n.asU64 = none) := by
  unfold parseNumTail at h
  obtain ⟨c, s1, _, h⟩ := bind_ok' h
  rcases ite_ok' h with ⟨_, h⟩ | ⟨_, h⟩
  · rcases ite_ok' h with ⟨_, h⟩ | ⟨_, h⟩
    · cases h
    · obtain ⟨f, s2, _, h⟩ := bind_ok' h
      obtain ⟨rfl, _⟩ := pure_ok' h
      exact ⟨fun _ v hv => (by cases hv), fun _ _ => rfl⟩
  rcases ite_ok' h with ⟨_, h⟩ | ⟨_, h⟩
  · rcases ite_ok' h with ⟨_, h⟩ | ⟨_, h⟩
    · cases h
    · obtain ⟨f, s2, _, h⟩ := bind_ok' h
      obtain ⟨rfl, _⟩ := pure_ok' h
      exact ⟨fun _ v hv => (by cases hv), fun _ _ => rfl⟩
  rcases ite_ok' h with ⟨hp, h⟩ | ⟨hp, h⟩
  · obtain ⟨rfl, _⟩ := pure_ok' h
    exact ⟨fun _ v hv => (by cases hv; rfl), fun hp' => (by rw [hp'] at hp; cases hp)⟩
  · dsimp only at h
    refine ⟨fun hp' => absurd hp' hp, fun _ h1 => ?_⟩
    have := negResult_none h1 hs
    rcases ite_ok' h with ⟨hc, h⟩ | ⟨hc, h⟩
    · obtain ⟨rfl, _⟩ := pure_ok' h; rfl
    · obtain ⟨rfl, _⟩ := pure_ok' h
      rw [if_neg hc] at this; exact this

theorem numLoop_mono {cfg : Cfg} {radix : Nat} {pos : Bool} :
    ∀ (f res : Nat) {x x' : St} {n : Number}, numLoop cfg radix pos f res x = .ok n x' →
      res ≤ u64Max →
      (pos = true → ∀ v, n.asU64 = some v → res ≤ v) ∧ (pos = false → 1 ≤ res → n.asU64 = none) := by
  intro f
  induction f with
  | zero => intro res x x' n h; cases h
  | succ f ih =>
    intro res x x' n h hres
    unfold numLoop at h
    obtain ⟨c, s1, _, h⟩ := bind_ok' h
    cases hd : digitVal radix c with
    | none =>
      rw [hd] at h
      have := parseNumTail_mono h hres
      exact ⟨fun hp v hv => Nat.le_of_eq (this.1 hp v hv), this.2⟩
    | some d =>
      rw [hd] at h
      dsimp only at h
      rcases ite_ok' h with ⟨_, h⟩ | ⟨hlt, h⟩
      · cases h
      · obtain ⟨_, s2, _, h⟩ := bind_ok' h
        rcases ite_ok' h with ⟨_, h⟩ | ⟨hov, h⟩
        · obtain ⟨g, s3, _, h⟩ := bind_ok' h
          obtain ⟨rfl, _⟩ := pure_ok' h
          exact ⟨fun _ v hv => (by cases hv), fun _ _ => rfl⟩
        · have hr : 0 < radix := by omega
          have hov' : overflow res radix d u64Max = false := by simpa using hov
          have hle := (Numbers.overflow_false_iff hr (by omega)).mp hov'
          have hge : res ≤ res * radix + d :=
            Nat.le_trans (Nat.le_mul_of_pos_right res hr) (Nat.le_add_right _ _)
          have := ih _ h hle
          exact ⟨fun hp v hv => Nat.le_trans hge (this.1 hp v hv), fun hp h1 => this.2 hp (by omega)⟩

/-- the result of the scanners when the input ends after the digits read so far -/
theorem numTail_eof_q {pos : Bool} {sig : Nat} {r' : Res Number}
    (hs : sig ≤ u64Max)
    (hr : ∀ n' s', r' = .ok n' s' →
      (pos = true → ∀ v, n'.asU64 = some v → sig ≤ v) ∧ (pos = false → 1 ≤ sig → n'.asU64 = none))
    (h0 : s.rd.rest = []) :
    TE X NumQ (if pos = true then pure (Number.ofUnsigned sig)
      else
        let neg := wrappingNeg (asI64 sig)
        if neg > 0 then pure (Number.ofF64 (F64.neg (F64.ofNat sig)))
        else pure (Number.ofSigned neg)) r' s := by
  refine TE.ite (fun hp => TE.pure h0 ?_) (fun hp => ?_)
  · intro n' s' hn' hno v hv
    have := (hr n' s' hn').1 hp v hv
    have := hno sig rfl
    omega
  · have hq' : ∀ n : Number, (1 ≤ sig → n.asU64 = none) →
        (sig = 0 → n = Number.pos 0) → NumQ n s r' := by
      intro n hn1 hn0 n' s' hn' hno v hv
      rcases Nat.eq_zero_or_pos sig with h0' | h1
      · have := hno 0 (by rw [hn0 h0']; rfl)
        omega
      · have hp' : pos = false := by simpa using hp
        rw [(hr n' s' hn').2 hp' h1] at hv; cases hv
    refine TE.ite (fun hc => TE.pure h0 (hq' _ (fun _ => rfl) (fun hz => ?_)))
      (fun hc => TE.pure h0 (hq' _ (fun h1 => ?_) (fun hz => ?_)))
    · subst hz; simp [wrappingNeg, asI64, i64Min] at hc
    · have := negResult_none h1 hs
      rw [if_neg hc] at this; exact this
    · subst hz; simp [wrappingNeg, asI64, i64Min, Number.ofSigned]

theorem numQ_flt (b : Nat) (s1 : St) (r : Res Nat) :
    NumQ (Number.ofF64 b) s1 (rbind r fun f => pure (Number.ofF64 f)) := by
  intro n' s' hn' _ v hv
  cases r with
  | ok a x => cases hn'; cases hv
  | err e x => cases hn'
  | panic p => cases hn'
  | fuel => cases hn'

theorem parseNumTail_t (hq : q ≠ []) (hB : ∀ l k, X (.syntax .numberOutOfRange l k)) {cfg : Cfg}
    {f f' radix : Nat} {pos : Bool} {sig : Nat} (h : f ≤ f') (hs : sig ≤ u64Max) :
    TS X NumQ (parseNumTail cfg f radix pos sig) (parseNumTail cfg f' radix pos sig) s q := by
  unfold parseNumTail
  refine TS.bind_peekOrNull hq (fun c s1 _ => ?_) (fun h0 => ?_)
  · refine TS.ite (fun _ => TS.ite (fun _ => TS.peekErr) (fun _ => ?_)) (fun _ => TS.ite
      (fun _ => TS.ite (fun _ => TS.peekErr) (fun _ => ?_)) (fun _ => ?_))
    · refine TS.bind (parseDecimal_t hq hB h) (fun _ _ _ _ => TS.pure) (fun b s2 _ h0 _ => ?_)
      exact TE.pure h0 (numQ_flt _ _ _)
    · refine TS.bind (parseExponent_t hq hB h) (fun _ _ _ _ => TS.pure) (fun b s2 _ h0 _ => ?_)
      exact TE.pure h0 (numQ_flt _ _ _)
    · tsim hq [] []
  · simp (decide := true) only [↓reduceIte, Bool.false_eq_true]
    refine numTail_eof_q hs (fun n' s' hn' => ?_) h0
    have := parseNumTail_mono (cfg := cfg) (fuel := f') (radix := radix) (pos := pos) (sig := sig)
      (x := ext q s) (by unfold parseNumTail; exact hn') hs
    exact ⟨fun hp v hv => Nat.le_of_eq (this.1 hp v hv), this.2⟩

theorem numLoop_t (hq : q ≠ []) (hB : ∀ l k, X (.syntax .numberOutOfRange l k)) {cfg : Cfg}
    {radix : Nat} {pos : Bool} {f f' res : Nat} (h : f ≤ f') (hs : res ≤ u64Max) :
    TS X NumQ (numLoop cfg radix pos f res) (numLoop cfg radix pos f' res) s q := by
  induction f generalizing f' res s with
  | zero => exact TS.fuel0 rfl
  | succ f ih =>
    obtain ⟨g, rfl⟩ : ∃ g, f' = g + 1 := ⟨f' - 1, by omega⟩
    unfold numLoop
    refine TS.bind_peekOrNull hq (fun c s1 _ => ?_) (fun h0 => ?_)
    · cases hd : digitVal radix c with
      | none => exact parseNumTail_t hq hB (by omega) hs
      | some d =>
        dsimp only
        refine TS.ite (fun _ => TS.peekErr) (fun hlt => ?_)
        refine TS.bindF discard_t (fun _ s2 _ _ => ?_)
        refine TS.ite (fun _ => ?_) (fun hov => ?_)
        · refine TS.bind (parseLongInteger_t hq hB (by omega)) (fun _ _ _ _ => TS.pure)
            (fun b s3 _ h0 _ => TE.pure h0 (numQ_flt _ _ _))
        · have hr : 0 < radix := by omega
          have hov' : overflow res radix d u64Max = false := by simpa using hov
          exact ih (by omega) ((Numbers.overflow_false_iff hr (by omega)).mp hov')
    · simp only [digitVal_zero]
      unfold parseNumTail
      refine TE.bind_peekOrNull h0 ?_
      simp (decide := true) only [↓reduceIte, Bool.false_eq_true]
      refine numTail_eof_q hs (fun n' s' hn' => ?_) h0
      exact numLoop_mono (cfg := cfg) (radix := radix) (pos := pos) (g + 1) res (x := ext q s)
        (by unfold numLoop; exact hn') hs

theorem digitVal_le {radix : Nat} {c : UInt8} {d : Nat} (h : digitVal radix c = some d) :
    d ≤ u64Max := by
  unfold digitVal at h
  have := UInt8.toNat_lt c
  simp only [u64Max]
  split at h
  · simp only [Option.some.injEq] at h; omega
  split at h
  · simp only [Option.some.injEq] at h; omega
  split at h
  · simp only [Option.some.injEq] at h; omega
  · cases h

theorem parseNumLiteral_t (hq : q ≠ []) (hB : ∀ l k, X (.syntax .numberOutOfRange l k)) {cfg : Cfg}
    {f f' radix : Nat} {pos : Bool} (h : f ≤ f') :
    TS X NumQ (parseNumLiteral cfg f radix pos) (parseNumLiteral cfg f' radix pos) s q := by
  unfold parseNumLiteral
  refine TS.bind_next hq (fun c s1 _ => ?_) (fun h0 => ?_)
  · dsimp only
    cases hd : digitVal radix c with
    | none => exact TS.peekErr
    | some d =>
      dsimp only
      exact TS.ite (fun _ => TS.peekErr) (fun _ => numLoop_t hq hB h (digitVal_le hd))
  · tesim []

theorem parseNumLiteral_eo {cfg : Cfg} {f radix : Nat} {pos : Bool} (h0 : s.rd.rest = []) :
    EO X (parseNumLiteral cfg f radix pos) s (fun _ _ => False) := by
  unfold parseNumLiteral
  refine EO.bind_next h0 ?_
  exact EO.peekErrSoft (by decide)

theorem parseRadixLiteral_t (hq : q ≠ []) (hB : ∀ l k, X (.syntax .numberOutOfRange l k))
    {cfg : Cfg} {f f' radix : Nat} (h : f ≤ f') :
    TS X NumQ (parseRadixLiteral cfg f radix) (parseRadixLiteral cfg f' radix) s q := by
  unfold parseRadixLiteral
  tsim hq [] [parseNumLiteral_t hq hB]
  simp (decide := true) only [↓reduceIte, Bool.false_eq_true]
  exact TE.ofEO (parseNumLiteral_eo (by assumption)) (fun _ _ _ h => h.elim)

theorem parseRadixLiteral_eo {cfg : Cfg} {f radix : Nat} (h0 : s.rd.rest = []) :
    EO X (parseRadixLiteral cfg f radix) s (fun _ _ => False) := by
  unfold parseRadixLiteral
  refine EO.bind_peekOrNull h0 ?_
  simp (decide := true) only [↓reduceIte, Bool.false_eq_true]
  exact parseNumLiteral_eo h0

/-- the diverged result of `expect_number_end`: the number itself, on both sides -/
def QSame (n : Number) : Number → St → Res Number → Prop := fun a _ r' =>
  a = n ∧ ∀ a' s', r' = .ok a' s' → a' = n

theorem expectNumberEnd_ok {n a : Number} {x x' : St} (h : expectNumberEnd n x = .ok a x') :
    a = n := by
  unfold expectNumberEnd at h
  obtain ⟨o, s1, _, h⟩ := bind_ok' h
  cases o with
  | none => exact (pure_ok' h).1.symm
  | some c =>
    dsimp only at h
    rcases ite_ok' h with ⟨_, h⟩ | ⟨_, h⟩
    · cases h
    · exact (pure_ok' h).1.symm

theorem expectNumberEnd_t (hq : q ≠ []) {n : Number} :
    TS X (QSame n) (expectNumberEnd n) (expectNumberEnd n) s q := by
  unfold expectNumberEnd
  tsim hq [] []
  refine TE.pure (by assumption) ⟨rfl, fun a' s' hr => ?_⟩
  exact expectNumberEnd_ok (n := n) (x := ext q s) (by unfold expectNumberEnd; exact hr)

theorem numQ_expectEnd {n : Number} {s1 : St} {r' : Res Number} (hq1 : NumQ n s1 r') :
    NumQ n s1 (rbind r' fun n => expectNumberEnd n) := by
  intro n' s' hn' hno
  cases r' with
  | ok a x =>
    simp only [rbind] at hn'
    rw [expectNumberEnd_ok hn']
    exact hq1 a x rfl hno
  | err e x => cases hn'
  | panic p => cases hn'
  | fuel => cases hn'

theorem parseNumToken_t (hq : q ≠ []) (hB : ∀ l k, X (.syntax .numberOutOfRange l k)) {cfg : Cfg}
    {f f' : Nat} {pos : Bool} (h : f ≤ f') :
    TS X QT (parseNumToken cfg f pos) (parseNumToken cfg f' pos) s q := by
  unfold parseNumToken
  refine TS.bind (parseNumLiteral_t hq hB h) (fun n s1 _ _ => (expectNumberEnd_t hq).toQT)
    (fun n s1 _ h0 _ => ?_)
  unfold expectNumberEnd
  tesim []

theorem parseRadixToken_t (hq : q ≠ []) (hB : ∀ l k, X (.syntax .numberOutOfRange l k))
    {cfg : Cfg} {f f' radix : Nat} (h : f ≤ f') :
    TS X QT (parseRadixToken cfg f radix) (parseRadixToken cfg f' radix) s q := by
  unfold parseRadixToken
  refine TS.bind (parseRadixLiteral_t hq hB h) (fun n s1 _ _ => (expectNumberEnd_t hq).toQT)
    (fun n s1 _ h0 _ => ?_)
  unfold expectNumberEnd
  tesim []

theorem parseNumber_t (hq : q ≠ []) (hB : ∀ l k, X (.syntax .numberOutOfRange l k)) {cfg : Cfg}
    {f f' : Nat} (h : f ≤ f') : TS X NumQ (parseNumber cfg f) (parseNumber cfg f') s q := by
  unfold parseNumber
  tsim hq [] [parseRadixLiteral_t hq hB]
  · tesim []
  · simp (decide := true) only [↓reduceIte, Bool.false_eq_true]
    exact TE.ofEO (parseRadixLiteral_eo (by assumption)) (fun _ _ _ h => h.elim)

end num
end Trunc
end Parse
end Lexpr
