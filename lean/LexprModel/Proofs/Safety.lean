/-
  C03 — safety of the parser model: no `Res.panic` site is reachable from the public entry points
  (`next_value`, `next_datum`, `expect_*`, `from_trait`, iterators, any call history), and the depth
  budget is restored after every call.

  Method: a Hoare-style predicate `Safe prog s Q` ("running `prog` from `s` does not panic, leaves
  `remaining_depth` unchanged, does not grow the input, and establishes `Q` on success"), rules for
  `pure` / `>>=` / `if` / `attempt` / the `enter … leave` bracket, one spec `<fn>_safe` per model
  function, and a small symbolic-execution tactic (`safe_run`) that walks a `do` block using the
  spec named after the head symbol of each action.
-/
import Lean.Elab.Tactic
import LexprModel.Parse
set_option linter.unusedVariables false
set_option linter.unusedSimpArgs false

namespace Lexpr

/-! ## UTF-8: a valid non-empty byte string has a decodable first scalar -/

namespace Utf8

theorem run_mid1 {lo hi : UInt8} {bs : List UInt8} (h : run (.mid 1 lo hi) bs = some .idle) :
    ∃ b1 r, bs = b1 :: r ∧ lo ≤ b1 ∧ b1 ≤ hi := by
  cases bs with
  | nil => simp [run] at h
  | cons b1 r =>
    refine ⟨b1, r, rfl, ?_⟩
    simp only [run, step] at h
    by_cases hc : (lo ≤ b1 && b1 ≤ hi) = true
    · simpa using hc
    · simp [hc] at h

theorem run_mid2 {lo hi : UInt8} {bs : List UInt8} (h : run (.mid 2 lo hi) bs = some .idle) :
    ∃ b1 b2 r, bs = b1 :: b2 :: r ∧ lo ≤ b1 ∧ b1 ≤ hi ∧ 0x80 ≤ b2 ∧ b2 ≤ 0xBF := by
  cases bs with
  | nil => simp [run] at h
  | cons b1 r =>
    simp only [run, step] at h
    by_cases hc : (lo ≤ b1 && b1 ≤ hi) = true
    · simp [hc] at h
      obtain ⟨b2, r', rfl, h2⟩ := run_mid1 h
      simp at hc; exact ⟨b1, b2, r', rfl, hc.1, hc.2, h2⟩
    · simp [hc] at h

theorem run_mid3 {lo hi : UInt8} {bs : List UInt8} (h : run (.mid 3 lo hi) bs = some .idle) :
    ∃ b1 b2 b3 r, bs = b1 :: b2 :: b3 :: r ∧ lo ≤ b1 ∧ b1 ≤ hi ∧ 0x80 ≤ b2 ∧ b2 ≤ 0xBF ∧
      0x80 ≤ b3 ∧ b3 ≤ 0xBF := by
  cases bs with
  | nil => simp [run] at h
  | cons b1 r =>
    simp only [run, step] at h
    by_cases hc : (lo ≤ b1 && b1 ≤ hi) = true
    · simp [hc] at h
      obtain ⟨b2, b3, r', rfl, h2⟩ := run_mid2 h
      simp at hc; exact ⟨b1, b2, b3, r', rfl, hc.1, hc.2, h2⟩
    · simp [hc] at h

local macro "utf8_fin" : tactic => `(tactic| (
  simp only [decodeFirst, isCont, isSurrogate]
  simp only [UInt8.le_iff_toNat_le, UInt8.lt_iff_toNat_lt, Bool.and_eq_true, decide_eq_true_eq,
    UInt8.reduceToNat, beq_iff_eq, ← UInt8.toNat_inj, Bool.not_eq_true', Bool.and_eq_false_iff,
    decide_eq_false_iff_not, Bool.not_eq_eq_eq_not, Bool.not_true] at *
  repeat' split
  all_goals first | rfl | omega))

theorem decodeFirst_of_valid (b0 : UInt8) (bs : List UInt8) (h : valid (b0 :: bs) = true) :
    (decodeFirst (b0 :: bs)).isSome = true := by
  simp only [valid, run, beq_iff_eq] at h
  cases hs : step .idle b0 with
  | none => simp [hs] at h
  | some st =>
    simp only [hs] at h
    unfold step at hs; simp only at hs
    by_cases c1 : b0 < 0x80
    · simp [decodeFirst, c1]
    rw [if_neg c1] at hs
    by_cases c2 : (decide (0xC2 ≤ b0) && decide (b0 ≤ 0xDF)) = true
    · rw [if_pos c2] at hs; cases hs
      obtain ⟨b1, r, rfl, h2⟩ := run_mid1 h
      utf8_fin
    rw [if_neg c2] at hs
    by_cases c3 : (b0 == 0xE0) = true
    · rw [if_pos c3] at hs; cases hs
      obtain ⟨b1, b2, r, rfl, h2⟩ := run_mid2 h
      utf8_fin
    rw [if_neg c3] at hs
    by_cases c4 : (b0 == 0xED) = true
    · rw [if_pos c4] at hs; cases hs
      obtain ⟨b1, b2, r, rfl, h2⟩ := run_mid2 h
      utf8_fin
    rw [if_neg c4] at hs
    by_cases c5 : (decide (0xE1 ≤ b0) && decide (b0 ≤ 0xEF)) = true
    · rw [if_pos c5] at hs; cases hs
      obtain ⟨b1, b2, r, rfl, h2⟩ := run_mid2 h
      utf8_fin
    rw [if_neg c5] at hs
    by_cases c6 : (b0 == 0xF0) = true
    · rw [if_pos c6] at hs; cases hs
      obtain ⟨b1, b2, b3, r, rfl, h2⟩ := run_mid3 h
      utf8_fin
    rw [if_neg c6] at hs
    by_cases c7 : (decide (0xF1 ≤ b0) && decide (b0 ≤ 0xF3)) = true
    · rw [if_pos c7] at hs; cases hs
      obtain ⟨b1, b2, b3, r, rfl, h2⟩ := run_mid3 h
      utf8_fin
    rw [if_neg c7] at hs
    by_cases c8 : (b0 == 0xF4) = true
    · rw [if_pos c8] at hs; cases hs
      obtain ⟨b1, b2, b3, r, rfl, h2⟩ := run_mid3 h
      utf8_fin
    rw [if_neg c8] at hs
    cases hs

end Utf8

namespace Parse

/-! ## Framework -/

/-- Frame: what every parser action preserves. -/
def Fr (s s' : St) : Prop := s'.depth = s.depth ∧ s'.rd.rest.length ≤ s.rd.rest.length

theorem Fr.refl (s : St) : Fr s s := ⟨rfl, Nat.le_refl _⟩
theorem Fr.trans {a b c : St} (h1 : Fr a b) (h2 : Fr b c) : Fr a c :=
  ⟨h2.1.trans h1.1, Nat.le_trans h2.2 h1.2⟩

/-- Hoare-style safety of running `m` from `s`. -/
def Safe (m : P α) (s : St) (Q : α → St → Prop) : Prop :=
  match m s with
  | .ok a s' => Fr s s' ∧ Q a s'
  | .err _ s' => Fr s s'
  | .panic _ => False
  | .fuel => True

theorem Safe.pure {a : α} {s : St} {Q : α → St → Prop} (h : Q a s) : Safe (pure a : P α) s Q := by
  show Safe (P.pure a) s Q
  simp [Safe, P.pure, Fr.refl, h]

theorem Safe.bind {m : P α} {f : α → P β} {s : St} {Q1 : α → St → Prop} {Q2 : β → St → Prop}
    (h1 : Safe m s Q1) (h2 : ∀ a s', Fr s s' → Q1 a s' → Safe (f a) s' Q2) :
    Safe (m >>= f) s Q2 := by
  show Safe (P.bind m f) s Q2
  unfold Safe P.bind at *
  cases hm : m s with
  | ok a s' =>
    rw [hm] at h1
    have := h2 a s' h1.1 h1.2
    simp only
    cases hf : f a s' with
    | ok b s'' => rw [hf] at this; exact ⟨h1.1.trans this.1, this.2⟩
    | err e s'' => rw [hf] at this; exact h1.1.trans this
    | panic p => rw [hf] at this; exact this
    | fuel => trivial
  | err e s' => rw [hm] at h1; exact h1
  | panic p => rw [hm] at h1; exact h1
  | fuel => trivial

theorem Safe.ite {c : Prop} [Decidable c] {t e : P α} {s : St} {Q : α → St → Prop}
    (ht : c → Safe t s Q) (he : ¬c → Safe e s Q) : Safe (if c then t else e) s Q := by
  by_cases h : c
  · rw [if_pos h]; exact ht h
  · rw [if_neg h]; exact he h

theorem Safe.mono {m : P α} {s : St} {Q1 Q2 : α → St → Prop}
    (h1 : Safe m s Q1) (h2 : ∀ a s', Fr s s' → Q1 a s' → Q2 a s') : Safe m s Q2 := by
  unfold Safe at *
  split at h1 <;> simp_all


/-- The input is not exhausted (a `discard` is legal). -/
def NE (s : St) : Prop := s.rd.rest ≠ []

theorem Safe.errAt {c : Code} {s : St} {Q : α → St → Prop} : Safe (errAt c : P α) s Q := by
  simp [Safe, Parse.errAt, Fr.refl]
theorem Safe.peekErr {c : Code} {s : St} {Q : α → St → Prop} : Safe (peekErr c : P α) s Q := by
  simp [Safe, Parse.peekErr, Fr.refl]
theorem Safe.outOfFuel {s : St} {Q : α → St → Prop} : Safe (outOfFuel : P α) s Q := by
  simp [Safe, Parse.outOfFuel]
theorem Safe.rawErr {e : Err} {s : St} {Q : α → St → Prop} :
    Safe (fun s' => Res.err e s' : P α) s Q := by
  simp [Safe, Fr.refl]

theorem consume_length (rd : Rd) (n : Nat) : (rd.consume n).rest.length = rd.rest.length - n := by
  induction n generalizing rd with
  | zero => simp [Rd.consume]
  | succ n ih =>
    unfold Rd.consume
    split
    · next h => simp [h]
    · next b bs h => simp only [ih, h, List.length_cons]; omega

theorem peek_safe (s : St) : Safe peek s (fun a s' => a ≠ none → NE s') := by
  unfold Safe peek
  cases h : s.rd.rest with
  | nil => by_cases hf : s.rd.faulty <;> simp [Fr.refl, hf]
  | cons b t => simp [Fr, NE, h]

theorem next_safe (s : St) : Safe next s (fun _ _ => True) := by
  unfold Safe next
  cases h : s.rd.rest with
  | nil => by_cases hf : s.rd.faulty <;> simp [Fr.refl, hf]
  | cons b t => simp [Fr, consume_length, h]

theorem discard_safe {s : St} (h : NE s) :
    Safe discard s (fun _ s' => s'.rd.rest.length + 1 = s.rd.rest.length) := by
  unfold Safe discard
  cases h' : s.rd.rest with
  | nil => exact h h'
  | cons b t => simp [Fr, consume_length, h']

theorem consumeN_safe (n : Nat) (s : St) : Safe (consumeN n) s (fun _ _ => True) := by
  simp [Safe, consumeN, Fr, consume_length]

theorem getRest_safe (s : St) : Safe getRest s (fun a s' => s' = s ∧ a = s.rd.rest) := by
  simp [Safe, getRest, Fr.refl]
theorem getMode_safe (s : St) : Safe getMode s (fun a s' => s' = s) := by
  simp [Safe, getMode, Fr.refl]
theorem getPos_safe (s : St) : Safe getPos s (fun a s' => s' = s) := by
  simp [Safe, getPos, Fr.refl]
theorem tokenFuel_safe (s : St) : Safe tokenFuel s (fun a s' => s' = s) := by
  simp [Safe, tokenFuel, Fr.refl]
theorem apiFuel_safe (s : St) : Safe apiFuel s (fun a s' => s' = s) := by
  simp [Safe, apiFuel, Fr.refl]

theorem peekOrNull_safe (s : St) : Safe peekOrNull s (fun c s' => c ≠ 0 → NE s') := by
  unfold peekOrNull
  refine Safe.bind (peek_safe s) ?_
  intro a s' _ h
  apply Safe.pure
  intro hc; apply h; rintro rfl; simp at hc

theorem nextOrNull_safe (s : St) : Safe nextOrNull s (fun _ _ => True) := by
  unfold nextOrNull
  refine Safe.bind (next_safe s) ?_
  intro a s' _ h
  exact Safe.pure trivial


/-! ### state-preserving getters -/

theorem Safe.bind_getRest {f : List UInt8 → P β} {s : St} {Q : β → St → Prop}
    (h : Safe (f s.rd.rest) s Q) : Safe (getRest >>= f) s Q := h
theorem Safe.bind_getMode {f : Mode → P β} {s : St} {Q : β → St → Prop}
    (h : Safe (f s.rd.mode) s Q) : Safe (getMode >>= f) s Q := h
theorem Safe.bind_getPos {f : Pos → P β} {s : St} {Q : β → St → Prop}
    (h : Safe (f s.rd.position) s Q) : Safe (getPos >>= f) s Q := h
theorem Safe.bind_tokenFuel {f : Nat → P β} {s : St} {Q : β → St → Prop}
    (h : Safe (f (s.rd.rest.length + 1)) s Q) : Safe (tokenFuel >>= f) s Q := h
theorem Safe.bind_apiFuel {f : Nat → P β} {s : St} {Q : β → St → Prop}
    (h : Safe (f (2 * s.rd.rest.length + 4)) s Q) : Safe (apiFuel >>= f) s Q := h

theorem Safe.bind_assoc {x : P α} {g : α → P β} {f : β → P γ} {s : St} {Q : γ → St → Prop}
    (h : Safe (x >>= fun a => g a >>= f) s Q) : Safe ((x >>= g) >>= f) s Q := by
  have e : ((x >>= g) >>= f) s = (x >>= fun a => g a >>= f) s := by
    show P.bind (P.bind x g) f s = P.bind x (fun a => P.bind (g a) f) s
    unfold P.bind
    cases x s <;> rfl
  unfold Safe at *
  rw [e]; exact h

theorem Safe.bind_ite {c : Prop} [Decidable c] {t e : P α} {f : α → P β} {s : St}
    {Q : β → St → Prop} (h : Safe (if c then t >>= f else e >>= f) s Q) :
    Safe ((if c then t else e) >>= f) s Q := by
  by_cases hc : c
  · rw [if_pos hc] at h ⊢; exact h
  · rw [if_neg hc] at h ⊢; exact h

theorem Safe.bind_pure {a : α} {f : α → P β} {s : St} {Q : β → St → Prop}
    (h : Safe (f a) s Q) : Safe ((Pure.pure a : P α) >>= f) s Q := h

theorem Safe.bind_getSt {f : St → P β} {s : St} {Q : β → St → Prop}
    (h : Safe (f s) s Q) : Safe ((fun s => Res.ok s s : P St) >>= f) s Q := h

theorem Safe.bind_attempt {m : P α} {k : Except Err α → P β} {s : St} {Q : β → St → Prop}
    (h1 : Safe m s (fun _ _ => True)) (h2 : ∀ r s', Fr s s' → Safe (k r) s' Q) :
    Safe (attempt m >>= k) s Q := by
  refine Safe.bind (Q1 := fun _ _ => True) ?_ (fun r s' hfr _ => h2 r s' hfr)
  unfold Safe attempt at *
  cases hm : m s <;> simp_all

/-- The `enter; attempt m; leave; k` bracket of the recursive arms, with a (state-independent)
    postcondition `Q1` for the body handed on to the continuation. The continuation may also
    assume `2 ≤ depth`: it only runs when `enter` succeeded. -/
theorem Safe.bracketQ {m : P α} {k : Except Err α → P β} {s : St} {Q : β → St → Prop}
    (Q1 : α → Prop) (hd : 1 ≤ s.depth)
    (hm : ∀ s1 : St, s1.rd = s.rd → s1.rd.rest.length = s.rd.rest.length → s1.depth + 1 = s.depth →
      1 ≤ s1.depth → Safe m s1 (fun a _ => Q1 a))
    (hk : ∀ r s2, Fr s s2 → 2 ≤ s.depth → (∀ a, r = .ok a → Q1 a) → Safe (k r) s2 Q) :
    Safe (enter >>= fun _ => attempt m >>= fun r => leave >>= fun _ => k r) s Q := by
  show Safe (P.bind enter fun _ => P.bind (attempt m) fun r => P.bind leave fun _ => k r) s Q
  by_cases h1 : s.depth - 1 = 0
  · have : s.depth ≠ 0 := by omega
    simp [Safe, P.bind, enter, this, h1, Fr.refl]
  · have h0 : s.depth ≠ 0 := by omega
    have hm' := hm { s with depth := s.depth - 1 } rfl rfl (by simp; omega) (by simp; omega)
    unfold Safe at hm' ⊢
    simp only [P.bind, enter, h0, h1, beq_iff_eq, if_false, attempt, leave]
    have fin : ∀ (r : Except Err α) (s1 : St), Fr { s with depth := s.depth - 1 } s1 →
        (∀ a, r = .ok a → Q1 a) →
        match k r { s1 with depth := s1.depth + 1 } with
        | .ok a s' => Fr s s' ∧ Q a s'
        | .err _ s' => Fr s s'
        | .panic _ => False
        | .fuel => True := by
      intro r s1 hfr1 hq
      have hfr : Fr s { s1 with depth := s1.depth + 1 } := by
        obtain ⟨h1, h2⟩ := hfr1
        constructor <;> simp at * <;> omega
      have := hk r _ hfr (by omega) hq
      unfold Safe at this
      cases hk2 : k r { s1 with depth := s1.depth + 1 } with
      | ok b s' => rw [hk2] at this; exact ⟨hfr.trans this.1, this.2⟩
      | err e s' => rw [hk2] at this; exact hfr.trans this
      | panic p => rw [hk2] at this; exact this
      | fuel => trivial
    cases hr : m { s with depth := s.depth - 1 } with
    | ok a s1 =>
      rw [hr] at hm'
      exact fin (.ok a) s1 hm'.1 (fun a' h => by cases h; exact hm'.2)
    | err e s1 => rw [hr] at hm'; exact fin (.error e) s1 hm' (fun a' h => by cases h)
    | panic p => rw [hr] at hm'; exact hm'
    | fuel => trivial

theorem Safe.bracket {m : P α} {k : Except Err α → P β} {s : St} {Q : β → St → Prop}
    (hd : 1 ≤ s.depth)
    (hm : ∀ s1 : St, s1.rd = s.rd → s1.rd.rest.length = s.rd.rest.length → s1.depth + 1 = s.depth →
      1 ≤ s1.depth → Safe m s1 (fun _ _ => True))
    (hk : ∀ r s2, Fr s s2 → Safe (k r) s2 Q) :
    Safe (enter >>= fun _ => attempt m >>= fun r => leave >>= fun _ => k r) s Q :=
  Safe.bracketQ (fun _ => True) hd hm (fun r s2 hf _ _ => hk r s2 hf)

theorem Safe.absurd {m : P α} {s : St} {Q : α → St → Prop} (h : False) : Safe m s Q := h.elim

/-! ### automation -/

theorem errAt_safe {c : Code} {s : St} {Q : α → St → Prop} : Safe (errAt c : P α) s Q := Safe.errAt
theorem peekErr_safe {c : Code} {s : St} {Q : α → St → Prop} : Safe (peekErr c : P α) s Q :=
  Safe.peekErr
theorem outOfFuel_safe {s : St} {Q : α → St → Prop} : Safe (outOfFuel : P α) s Q := Safe.outOfFuel

open Lean Elab Tactic Meta in
/-- One step of symbolic execution of a `Safe prog s Q` goal, dispatching on the head symbol of
    `prog`: `pure`, `if`, `let`, `x >>= f` (using the spec `<x>_safe`), or a single call `x`
    (spec `<x>_safe`, through `Safe.mono` if the postconditions differ). -/
elab "safe_core" ne:(&" noenter")? : tactic => withMainContext do
  let g ← getMainGoal
  let t := (← instantiateMVars (← g.getType)).cleanupAnnotations
  unless t.isAppOfArity ``Lexpr.Parse.Safe 4 do throwError "safe_core: not a Safe goal"
  let m := (t.getArg! 1).headBeta
  let specOf (fn : Name) : Name := .str fn.getPrefix (fn.getString! ++ "_safe")
  let applyConst (g : MVarId) (n : Name) : TacticM (List MVarId) := do
    g.apply (← mkConstWithFreshMVarLevels n)
  let applySpec (g : MVarId) (fn : Name) : TacticM (List MVarId) := do
    -- a local hypothesis about `fn` (an induction hypothesis) takes precedence
    for d in (← getLCtx) do
      if d.isImplementationDetail then continue
      let body := (← instantiateMVars d.type).getForallBody
      unless body.isAppOfArity ``Lexpr.Parse.Safe 4 do continue
      unless (body.getArg! 1).getAppFn.constName? == some fn do continue
      let saved ← saveState
      try
        let gs ← g.apply d.toExpr
        return gs
      catch _ => saved.restore
    applyConst g (specOf fn)
  let introWith (g : MVarId) (tac : TacticM Unit) : TacticM (List MVarId) := do
    let saved ← getGoals
    setGoals [g]
    tac
    let gs ← getGoals
    setGoals saved
    pure gs
  let introCont (g : MVarId) : TacticM (List MVarId) := do
    let saved ← getGoals
    setGoals [g]
    -- a continuation after an action that always fails (postcondition `False`) is vacuous
    evalTactic (← `(tactic| first
      | (intro _ _ _ h; exact False.elim h)
      | rintro _ _ ⟨_, _⟩ _))
    let gs ← getGoals
    setGoals saved
    pure gs
  let fixPosts (rest : List MVarId) : TacticM (List MVarId) := do
    let mut rest' := []
    for r in rest do
      if ← r.isAssigned then continue
      -- an undetermined postcondition (the action always fails): use `False`
      let gs ← introWith r do evalTactic (← `(tactic| try exact fun _ _ => False))
      rest' := rest' ++ gs
    pure rest'
  if m.isLet then
    let m' := m.letBody!.instantiate1 m.letValue!
    let t' := mkAppN t.getAppFn (t.getAppArgs.set! 1 m')
    replaceMainGoal [← g.replaceTargetDefEq t']
  else if m.isAppOfArity ``Pure.pure 4 then
    replaceMainGoal (← applyConst g ``Safe.pure)
  else if m.isAppOfArity ``ite 5 then
    let gs ← applyConst g ``Safe.ite
    let gs ← gs.mapM fun g => do let (_, g) ← g.intro1; pure g
    replaceMainGoal gs
  else if m.isAppOfArity ``Bind.bind 6 then
    let x := (m.getArg! 4).headBeta
    if x.isLambda then
      replaceMainGoal (← applyConst g ``Safe.bind_getSt)
      return
    let some fn := x.getAppFn.constName? | throwError "safe_core: no head symbol"
    if fn == ``Bind.bind then replaceMainGoal (← applyConst g ``Safe.bind_assoc)
    else if fn == ``ite then replaceMainGoal (← applyConst g ``Safe.bind_ite)
    else if fn == ``Pure.pure then replaceMainGoal (← applyConst g ``Safe.bind_pure)
    else if fn == ``enter then
      if ne.isSome then throwError "safe_core: `enter` left to the user"
      match ← applyConst g ``Safe.bracket with
      | hd :: hm :: hk :: rest =>
        let gm ← introWith hm do evalTactic (← `(tactic| intro _ _ _ _ _))
        let gk ← introWith hk do evalTactic (← `(tactic| rintro _ _ ⟨_, _⟩))
        replaceMainGoal (hd :: gm ++ gk ++ rest)
        pruneSolvedGoals
      | _ => throwError "safe_core: unexpected goals"
    else if fn == ``attempt then
      match ← applyConst g ``Safe.bind_attempt with
      | h1 :: h2 :: rest =>
        let g2 ← introWith h2 do evalTactic (← `(tactic| rintro _ _ ⟨_, _⟩))
        replaceMainGoal (h1 :: g2 ++ rest)
        pruneSolvedGoals
      | _ => throwError "safe_core: unexpected goals"
    else if fn == ``getRest then replaceMainGoal (← applyConst g ``Safe.bind_getRest)
    else if fn == ``getMode then replaceMainGoal (← applyConst g ``Safe.bind_getMode)
    else if fn == ``getPos then replaceMainGoal (← applyConst g ``Safe.bind_getPos)
    else if fn == ``tokenFuel then replaceMainGoal (← applyConst g ``Safe.bind_tokenFuel)
    else if fn == ``apiFuel then replaceMainGoal (← applyConst g ``Safe.bind_apiFuel)
    else
      match ← applyConst g ``Safe.bind with
      | h1 :: h2 :: rest =>
        let gs1 ← applySpec h1 fn
        let rest' ← fixPosts rest
        let gs2 ← introCont h2
        replaceMainGoal (gs1 ++ gs2 ++ rest')
        pruneSolvedGoals
      | _ => throwError "safe_core: unexpected goals"
  else
    let some fn := m.getAppFn.constName? | throwError "safe_core: no head symbol"
    let saved ← saveState
    try
      replaceMainGoal (← applySpec g fn)
    catch _ =>
      saved.restore
      match ← applyConst g ``Safe.mono with
      | h1 :: h2 :: rest =>
        let gs1 ← applySpec h1 fn
        let rest' ← fixPosts rest
        let gs2 ← introCont h2
        replaceMainGoal (gs1 ++ gs2 ++ rest')
        pruneSolvedGoals
      | _ => throwError "safe_core: unexpected goals"

macro "safe_step" : tactic => `(tactic| first | safe_core | exact Safe.rawErr)

/-- side goal `NE s` after a `peekOrNull` whose result is known to be non-zero -/
macro "ne_side" : tactic => `(tactic| first
  | assumption
  | (refine (‹(_ : UInt8) ≠ 0 → NE _›) ?_; rintro rfl; simp_all (config := { decide := true }))
  | (refine (‹(_ : Option UInt8) ≠ none → NE _›) ?_; simp))

/-- discharge the side goals left by `safe_run` -/
macro "safe_fin" : tactic => `(tactic| all_goals first
  | trivial
  | omega
  | ne_side
  | (apply Safe.absurd; simp only [i32Max] at *; omega)
  | (apply Safe.absurd; simp_all))

macro "safe_run" : tactic => `(tactic| repeat' (first | safe_step | split))

/-- like `safe_run`, but stops in front of every `enter` -/
macro "safe_run_noenter" : tactic =>
  `(tactic| repeat' (first | safe_core noenter | exact Safe.rawErr | split))

theorem parseWhitespace_safe (s : St) : Safe parseWhitespace s (fun a s' => a ≠ none → NE s') := by
  unfold parseWhitespace
  safe_run


theorem parseSymbolBytes_safe (scratch : List UInt8) (s : St) :
    Safe (parseSymbolBytes scratch) s (fun _ _ => True) := by
  unfold parseSymbolBytes
  safe_run
  all_goals trivial

/-! ## Lexer: strings, characters, escapes -/

theorem nextOrEof_safe (s : St) : Safe nextOrEof s (fun _ _ => True) := by
  unfold nextOrEof; safe_run; all_goals trivial
theorem nextOrEofChar_safe (s : St) : Safe nextOrEofChar s (fun _ _ => True) := by
  unfold nextOrEofChar; safe_run; all_goals trivial

theorem readCont_safe (n : Nat) (acc : List UInt8) (s : St) :
    Safe (readCont n acc) s (fun a _ => a ≠ [] ∨ acc = []) := by
  induction n generalizing acc s with
  | zero => unfold readCont; safe_run; cases acc <;> simp
  | succ n ih =>
    unfold readCont; safe_run
    all_goals simp_all

theorem decodeUtf8Sequence_safe (initial : UInt8) (s : St) :
    Safe (decodeUtf8Sequence initial) s (fun _ _ => True) := by
  unfold decodeUtf8Sequence
  dsimp only
  split
  · exact Safe.errAt
  · refine Safe.bind (readCont_safe _ _ _) ?_
    intro bytes s' _ hb
    split
    · next hv =>
      cases bytes with
      | nil => simp at hb
      | cons b0 bs =>
        have := Utf8.decodeFirst_of_valid b0 bs hv
        split
        · exact Safe.pure trivial
        · next hn => simp [hn] at this
    · exact Safe.errAt

end Parse
end Lexpr

namespace Lexpr
namespace Parse

theorem decodeR6rsHexEscape_safe (f n : Nat) (s : St) :
    Safe (decodeR6rsHexEscape f n) s (fun _ _ => True) := by
  induction f generalizing n s with
  | zero => exact Safe.outOfFuel
  | succ f ih =>
    unfold decodeR6rsHexEscape; safe_run
    safe_fin

theorem parseR6rsEscape_safe (fuel : Nat) (acc : List UInt8) (s : St) :
    Safe (parseR6rsEscape fuel acc) s (fun _ _ => True) := by
  unfold parseR6rsEscape; safe_run
  safe_fin

theorem finishStr_safe (c : Bool) (bytes : List UInt8) (s : St) :
    Safe (finishStr c bytes) s (fun _ _ => True) := by
  unfold finishStr; safe_run
  safe_fin

theorem parseR6rsStr_safe (f : Nat) (acc : List UInt8) (s : St) :
    Safe (parseR6rsStr f acc) s (fun _ _ => True) := by
  induction f generalizing acc s with
  | zero => exact Safe.outOfFuel
  | succ f ih =>
    unfold parseR6rsStr; safe_run
    safe_fin

theorem decodeElispHexEscape_safe (f n : Nat) (s : St) :
    Safe (decodeElispHexEscape f n) s (fun _ _ => True) := by
  induction f generalizing n s with
  | zero => exact Safe.outOfFuel
  | succ f ih =>
    unfold decodeElispHexEscape; safe_run
    safe_fin

theorem decodeElispUniEscape_safe (f n : Nat) (s : St) :
    Safe (decodeElispUniEscape f n) s (fun _ _ => True) := by
  induction f generalizing n s with
  | zero => exact Safe.pure trivial
  | succ f ih =>
    unfold decodeElispUniEscape; safe_run
    safe_fin

theorem decodeElispOctalEscape_safe (f n : Nat) (s : St) :
    Safe (decodeElispOctalEscape f n) s (fun _ _ => True) := by
  induction f generalizing n s with
  | zero => exact Safe.outOfFuel
  | succ f ih =>
    unfold decodeElispOctalEscape; safe_run
    safe_fin

theorem elispCharEscape_safe (acc : List UInt8) (n : Nat) (s : St) :
    Safe (elispCharEscape acc n) s (fun _ _ => True) := by
  unfold elispCharEscape; safe_run; safe_fin
theorem elispUniCharEscape_safe (acc : List UInt8) (n : Nat) (s : St) :
    Safe (elispUniCharEscape acc n) s (fun _ _ => True) := by
  unfold elispUniCharEscape; safe_run; safe_fin

theorem parseElispEscape_safe (fuel : Nat) (acc : List UInt8) (s : St) :
    Safe (parseElispEscape fuel acc) s (fun _ _ => True) := by
  unfold parseElispEscape; safe_run
  safe_fin

theorem parseElispStr_safe (f : Nat) (acc : List UInt8) (ub mb na : Bool) (s : St) :
    Safe (parseElispStr f acc ub mb na) s (fun _ _ => True) := by
  induction f generalizing acc ub mb na s with
  | zero => exact Safe.outOfFuel
  | succ f ih =>
    unfold parseElispStr; safe_run
    safe_fin

end Parse
end Lexpr

namespace Lexpr
namespace Parse

/-! ### character literals -/

theorem decodeR6rsCharHexEscape_safe (f n : Nat) (first : Bool) (s : St) :
    Safe (decodeR6rsCharHexEscape f n first) s (fun _ _ => True) := by
  induction f generalizing n first s with
  | zero => exact Safe.outOfFuel
  | succ f ih =>
    unfold decodeR6rsCharHexEscape; safe_run
    safe_fin

theorem parseR6rsChar_safe (fuel : Nat) (s : St) :
    Safe (parseR6rsChar fuel) s (fun _ _ => True) := by
  unfold parseR6rsChar; safe_run
  safe_fin

theorem asChar_safe (n : Nat) (s : St) : Safe (asChar n) s (fun _ _ => True) := by
  unfold asChar; safe_run; safe_fin

theorem asEscapedChar_safe (n : Nat) (s : St) : Safe (asEscapedChar n) s (fun _ _ => True) := by
  unfold asEscapedChar; safe_run; safe_fin

theorem decodeElispCharEscape_safe (fuel : Nat) (s : St) :
    Safe (decodeElispCharEscape fuel) s (fun _ _ => True) := by
  unfold decodeElispCharEscape; safe_run
  safe_fin

theorem parseElispChar_safe (fuel : Nat) (s : St) :
    Safe (parseElispChar fuel) s (fun _ _ => True) := by
  unfold parseElispChar; safe_run
  safe_fin

end Parse
end Lexpr

namespace Lexpr
namespace Parse

/-! ### numbers -/

/- Inputs shorter than 2147483646 = i32::MAX - 1 bytes cannot overflow the `i32` digit counter of
   `parse_long_integer`; this is the only use of the length hypothesis below. -/

@[simp] theorem digitVal_zero (r : Nat) : digitVal r 0 = none := by
  simp [digitVal]

theorem f64FromParts_safe (cfg : Cfg) (pos : Bool) (sig : Nat) (e : Int) (s : St) :
    Safe (f64FromParts cfg pos sig e) s (fun _ _ => True) := by
  unfold f64FromParts; safe_run; safe_fin

theorem skipDigits_safe (s : St) : Safe skipDigits s (fun _ _ => True) := by
  unfold skipDigits; safe_run; safe_fin

theorem parseExponentOverflow_safe (pos : Bool) (sig : Nat) (posExp : Bool) (s : St) :
    Safe (parseExponentOverflow pos sig posExp) s (fun _ _ => True) := by
  unfold parseExponentOverflow; safe_run; safe_fin

theorem exponentLoop_safe (cfg : Cfg) (pos : Bool) (sig : Nat) (startExp : Int) (posExp : Bool)
    (f exp : Nat) (s : St) :
    Safe (exponentLoop cfg pos sig startExp posExp f exp) s (fun _ _ => True) := by
  induction f generalizing exp s with
  | zero => exact Safe.outOfFuel
  | succ f ih =>
    unfold exponentLoop; safe_run
    safe_fin

theorem parseExponent_safe (cfg : Cfg) (fuel : Nat) (pos : Bool) (sig : Nat) (startExp : Int)
    (s : St) (hne : NE s) :
    Safe (parseExponent cfg fuel pos sig startExp) s (fun _ _ => True) := by
  unfold parseExponent; safe_run
  safe_fin

theorem decimalLoop_safe (f sig : Nat) (exp : Int) (zeros : Nat) (any : Bool) (s : St) :
    Safe (decimalLoop f sig exp zeros any) s (fun _ _ => True) := by
  induction f generalizing sig exp zeros any s with
  | zero => exact Safe.outOfFuel
  | succ f ih =>
    unfold decimalLoop; safe_run
    safe_fin

theorem parseDecimal_safe (cfg : Cfg) (fuel : Nat) (pos : Bool) (sig : Nat) (exp : Int)
    (s : St) (hne : NE s) :
    Safe (parseDecimal cfg fuel pos sig exp) s (fun _ _ => True) := by
  unfold parseDecimal; safe_run
  safe_fin

set_option exponentiation.threshold 1100 in
theorem parseLongInteger_safe (cfg : Cfg) (radix : Nat) (pos : Bool) (sig : Nat) (f exp : Nat)
    (s : St) (hs : exp + s.rd.rest.length < 2147483647) :
    Safe (parseLongInteger cfg radix pos sig f exp) s (fun _ _ => True) := by
  induction f generalizing exp s with
  | zero => exact Safe.outOfFuel
  | succ f ih =>
    unfold parseLongInteger; safe_run
    safe_fin

theorem parseNumTail_safe (cfg : Cfg) (fuel radix : Nat) (pos : Bool) (sig : Nat) (s : St) :
    Safe (parseNumTail cfg fuel radix pos sig) s (fun _ _ => True) := by
  unfold parseNumTail; safe_run
  safe_fin

theorem numLoop_safe (cfg : Cfg) (radix : Nat) (pos : Bool) (f res : Nat) (s : St)
    (hs : s.rd.rest.length < 2147483646) :
    Safe (numLoop cfg radix pos f res) s (fun _ _ => True) := by
  induction f generalizing res s with
  | zero => exact Safe.outOfFuel
  | succ f ih =>
    unfold numLoop; safe_run
    safe_fin

theorem parseNumLiteral_safe (cfg : Cfg) (fuel radix : Nat) (pos : Bool) (s : St)
    (hs : s.rd.rest.length < 2147483646) :
    Safe (parseNumLiteral cfg fuel radix pos) s (fun _ _ => True) := by
  unfold parseNumLiteral; safe_run
  safe_fin

theorem parseRadixLiteral_safe (cfg : Cfg) (fuel radix : Nat) (s : St)
    (hs : s.rd.rest.length < 2147483646) :
    Safe (parseRadixLiteral cfg fuel radix) s (fun _ _ => True) := by
  unfold parseRadixLiteral; safe_run
  safe_fin

theorem expectNumberEnd_safe (n : Number) (s : St) :
    Safe (expectNumberEnd n) s (fun _ _ => True) := by
  unfold expectNumberEnd; safe_run
  safe_fin

theorem parseNumToken_safe (cfg : Cfg) (fuel : Nat) (pos : Bool) (s : St)
    (hs : s.rd.rest.length < 2147483646) :
    Safe (parseNumToken cfg fuel pos) s (fun _ _ => True) := by
  unfold parseNumToken; safe_run
  safe_fin

theorem parseRadixToken_safe (cfg : Cfg) (fuel radix : Nat) (s : St)
    (hs : s.rd.rest.length < 2147483646) :
    Safe (parseRadixToken cfg fuel radix) s (fun _ _ => True) := by
  unfold parseRadixToken; safe_run
  safe_fin

theorem parseNumber_safe (cfg : Cfg) (fuel : Nat) (s : St)
    (hs : s.rd.rest.length < 2147483646) :
    Safe (parseNumber cfg fuel) s (fun _ _ => True) := by
  unfold parseNumber; safe_run
  safe_fin

end Parse
end Lexpr

namespace Lexpr
namespace Parse

/-! ### tokens -/

theorem expectIdent_safe (cs : List UInt8) (s : St) :
    Safe (expectIdent cs) s (fun _ _ => True) := by
  induction cs generalizing s with
  | nil => exact Safe.pure trivial
  | cons c cs ih =>
    unfold expectIdent; safe_run
    safe_fin

theorem parseSignDotSymbol_safe (cfg : Cfg) (pfx : List UInt8) (s : St) (hne : NE s) :
    Safe (parseSignDotSymbol cfg pfx) s (fun _ _ => True) := by
  unfold parseSignDotSymbol; safe_run
  safe_fin

theorem parseSignToken_safe (cfg : Cfg) (fuel : Nat) (sign : UInt8) (pos : Bool) (s : St)
    (hne : NE s) (hs : s.rd.rest.length < 2147483646) :
    Safe (parseSignToken cfg fuel sign pos) s (fun _ _ => True) := by
  unfold parseSignToken; safe_run
  safe_fin

theorem parseToken_safe (cfg : Cfg) (fuel : Nat) (pk : UInt8) (s : St)
    (hne : NE s) (hs : s.rd.rest.length < 2147483646) :
    Safe (parseToken cfg fuel pk) s (fun _ _ => True) := by
  unfold parseToken; safe_run
  safe_fin

end Parse
end Lexpr

namespace Lexpr
namespace Parse

/-! ## Parser -/

theorem liftExcept_safe (r : Except Err α) (s : St) :
    Safe (liftExcept r) s (fun a _ => r = .ok a) := by
  cases r with
  | ok a => exact Safe.pure rfl
  | error e => exact Safe.rawErr

theorem endSeq_safe (close : UInt8) (s : St) : Safe (endSeq close) s (fun _ _ => True) := by
  unfold endSeq; safe_run
  safe_fin

theorem byteListLoop_safe (cfg : Cfg) (close : UInt8) (f : Nat) (acc : List UInt8) (s : St)
    (hs : s.rd.rest.length < 2147483646) :
    Safe (byteListLoop cfg close f acc) s (fun _ _ => True) := by
  induction f generalizing acc s with
  | zero => exact Safe.outOfFuel
  | succ f ih =>
    unfold byteListLoop; safe_run
    safe_fin

theorem parseByteList_safe (cfg : Cfg) (fuel : Nat) (close : UInt8) (s : St)
    (hs : s.rd.rest.length < 2147483646) :
    Safe (parseByteList cfg fuel close) s (fun _ _ => True) := by
  unfold parseByteList; safe_run
  safe_fin

theorem atom_none (t : Token) (h : t.atom = none) :
    (∃ c, t = .byteVecOpen c) ∨ (∃ c, t = .vecOpen c) ∨ (∃ c, t = .listOpen c) ∨
      (∃ q, t = .quotation q) := by
  cases t <;> simp_all [Token.atom]

theorem atom_false (t : Token) (h : t.atom = none) (h1 : ∀ c, ¬ t = .byteVecOpen c)
    (h2 : ∀ c, ¬ t = .vecOpen c) (h3 : ∀ c, ¬ t = .listOpen c) (h4 : ∀ q, ¬ t = .quotation q) :
    False := by
  rcases atom_none t h with ⟨c, h⟩ | ⟨c, h⟩ | ⟨c, h⟩ | ⟨q, h⟩
  · exact h1 c h
  · exact h2 c h
  · exact h3 c h
  · exact h4 q h

/-- closes the `unreachable!()` arm of `next_value` / `next_datum` -/
macro "atom_absurd" : tactic => `(tactic|
  exact Safe.absurd (atom_false _ (by assumption) (by assumption) (by assumption) (by assumption)
    (by assumption)))

theorem value_safe_all (cfg : Cfg) (f : Nat) :
    (∀ s : St, 1 ≤ s.depth → s.rd.rest.length < 2147483646 →
      Safe (nextValue cfg f) s (fun _ _ => True)) ∧
    (∀ (term : UInt8) (acc : List Value) (s : St), 1 ≤ s.depth → s.rd.rest.length < 2147483646 →
      Safe (parseList cfg f term acc) s (fun _ _ => True)) ∧
    (∀ (term : UInt8) (acc : List Value) (s : St), 1 ≤ s.depth → s.rd.rest.length < 2147483646 →
      Safe (parseVector cfg f term acc) s (fun _ _ => True)) := by
  induction f with
  | zero =>
    refine ⟨?_, ?_, ?_⟩ <;> intros
    · unfold nextValue; exact Safe.outOfFuel
    · unfold parseList; exact Safe.outOfFuel
    · unfold parseVector; exact Safe.outOfFuel
  | succ f ih =>
    obtain ⟨ihV, ihL, ihVec⟩ := ih
    refine ⟨?_, ?_, ?_⟩
    · intro s hd hs
      unfold nextValue; safe_run
      all_goals first | atom_absurd | skip
      safe_fin
    · intro term acc s hd hs
      unfold parseList; safe_run
      safe_fin
    · intro term acc s hd hs
      unfold parseVector; safe_run
      safe_fin

end Parse
end Lexpr

namespace Lexpr
namespace Parse

theorem datum_safe_all (cfg : Cfg) (f : Nat) :
    (∀ s : St, 1 ≤ s.depth → s.rd.rest.length < 2147483646 →
      Safe (nextDatum cfg f) s (fun _ _ => True)) ∧
    (∀ (term : UInt8) (acc : List Value) (ms : List SpanInfo) (s : St), 1 ≤ s.depth →
      s.rd.rest.length < 2147483646 → Safe (parseListMeta cfg f term acc ms) s (fun _ _ => True)) ∧
    (∀ (term : UInt8) (acc : List Value) (ms : List SpanInfo) (s : St), 1 ≤ s.depth →
      s.rd.rest.length < 2147483646 →
      Safe (parseVectorMeta cfg f term acc ms) s (fun _ _ => True)) := by
  induction f with
  | zero =>
    refine ⟨?_, ?_, ?_⟩ <;> intros
    · unfold nextDatum; exact Safe.outOfFuel
    · unfold parseListMeta; exact Safe.outOfFuel
    · unfold parseVectorMeta; exact Safe.outOfFuel
  | succ f ih =>
    obtain ⟨ihV, ihL, ihVec⟩ := ih
    refine ⟨?_, ?_, ?_⟩
    · intro s hd hs
      unfold nextDatum; safe_run
      all_goals first | atom_absurd | skip
      safe_fin
    · intro term acc ms s hd hs
      unfold parseListMeta; safe_run
      safe_fin
    · intro term acc ms s hd hs
      unfold parseVectorMeta; safe_run
      safe_fin

theorem nextValue_safe (cfg : Cfg) (f : Nat) (s : St) (hd : 1 ≤ s.depth)
    (hs : s.rd.rest.length < 2147483646) : Safe (nextValue cfg f) s (fun _ _ => True) :=
  (value_safe_all cfg f).1 s hd hs

theorem nextDatum_safe (cfg : Cfg) (f : Nat) (s : St) (hd : 1 ≤ s.depth)
    (hs : s.rd.rest.length < 2147483646) : Safe (nextDatum cfg f) s (fun _ _ => True) :=
  (datum_safe_all cfg f).1 s hd hs

theorem nextValueTop_safe (cfg : Cfg) (s : St) (hd : 1 ≤ s.depth)
    (hs : s.rd.rest.length < 2147483646) : Safe (nextValueTop cfg) s (fun _ _ => True) := by
  unfold nextValueTop; safe_run; safe_fin

theorem nextDatumTop_safe (cfg : Cfg) (s : St) (hd : 1 ≤ s.depth)
    (hs : s.rd.rest.length < 2147483646) : Safe (nextDatumTop cfg) s (fun _ _ => True) := by
  unfold nextDatumTop; safe_run; safe_fin

theorem expectValue_safe (cfg : Cfg) (s : St) (hd : 1 ≤ s.depth)
    (hs : s.rd.rest.length < 2147483646) : Safe (expectValue cfg) s (fun _ _ => True) := by
  unfold expectValue; safe_run; safe_fin

theorem expectDatum_safe (cfg : Cfg) (s : St) (hd : 1 ≤ s.depth)
    (hs : s.rd.rest.length < 2147483646) : Safe (expectDatum cfg) s (fun _ _ => True) := by
  unfold expectDatum; safe_run; safe_fin

theorem expectEnd_safe (s : St) : Safe expectEnd s (fun _ _ => True) := by
  unfold expectEnd; safe_run; safe_fin

theorem fromTrait_safe (cfg : Cfg) (s : St) (hd : 1 ≤ s.depth)
    (hs : s.rd.rest.length < 2147483646) : Safe (fromTrait cfg) s (fun _ _ => True) := by
  unfold fromTrait; safe_run; safe_fin

theorem fromTraitDatum_safe (cfg : Cfg) (s : St) (hd : 1 ≤ s.depth)
    (hs : s.rd.rest.length < 2147483646) : Safe (fromTraitDatum cfg) s (fun _ _ => True) := by
  unfold fromTraitDatum; safe_run; safe_fin

/-- What `Safe` says about the raw result. -/
theorem Safe.no_panic {m : P α} {s : St} {Q : α → St → Prop} (h : Safe m s Q) (p : Site) :
    m s ≠ .panic p := by
  intro hp; unfold Safe at h; rw [hp] at h; exact h

theorem Safe.frame_ok {m : P α} {s s' : St} {a : α} {Q : α → St → Prop} (h : Safe m s Q)
    (hr : m s = .ok a s') : Fr s s' := by
  unfold Safe at h; rw [hr] at h; exact h.1

theorem Safe.frame_err {m : P α} {s s' : St} {e : Err} {Q : α → St → Prop} (h : Safe m s Q)
    (hr : m s = .err e s') : Fr s s' := by
  unfold Safe at h; rw [hr] at h; exact h

end Parse
end Lexpr

namespace Lexpr
namespace Parse

/-! ### call histories -/

/-- The item is not a panic. -/
def Item.NoPanic : Item → Prop
  | .panic _ => False
  | _ => True

/-- Parser-state invariant between public calls: budget not exhausted, input short enough. -/
def Inv (s : St) : Prop := 1 ≤ s.depth ∧ s.rd.rest.length < 2147483646

theorem Inv.of_frame {s s' : St} (h : Inv s) (hf : Fr s s') : Inv s' := by
  obtain ⟨h1, h2⟩ := h; obtain ⟨f1, f2⟩ := hf
  constructor <;> omega

theorem stepOp_safe (cfg : Cfg) (op : Op) (s : St) (h : Inv s) :
    (stepOp cfg op s).1.NoPanic ∧ ∀ s', (stepOp cfg op s).2 = some s' → Inv s' := by
  obtain ⟨hd, hs⟩ := h
  have hV := nextValueTop_safe cfg s hd hs
  have hD := nextDatumTop_safe cfg s hd hs
  have hEV := expectValue_safe cfg s hd hs
  have hED := expectDatum_safe cfg s hd hs
  have hEE := expectEnd_safe s
  unfold Safe at hV hD hEV hED hEE
  have inv : ∀ s', Fr s s' → Inv s' := fun s' hf => Inv.of_frame ⟨hd, hs⟩ hf
  cases op <;> simp only [stepOp]
  · cases hr : nextValueTop cfg s with
    | ok a s' =>
      rw [hr] at hV
      first
        | (simp [Item.NoPanic]; exact inv _ hV.1)
        | (cases a <;> simp [Item.NoPanic] <;> exact inv _ hV.1)
    | err e s' => rw [hr] at hV; simp [Item.NoPanic]; exact inv _ hV
    | panic p => rw [hr] at hV; exact hV.elim
    | fuel => simp [Item.NoPanic]
  · cases hr : nextDatumTop cfg s with
    | ok a s' =>
      rw [hr] at hD
      first
        | (simp [Item.NoPanic]; exact inv _ hD.1)
        | (cases a <;> simp [Item.NoPanic] <;> exact inv _ hD.1)
    | err e s' => rw [hr] at hD; simp [Item.NoPanic]; exact inv _ hD
    | panic p => rw [hr] at hD; exact hD.elim
    | fuel => simp [Item.NoPanic]
  · cases hr : expectValue cfg s with
    | ok a s' =>
      rw [hr] at hEV
      first
        | (simp [Item.NoPanic]; exact inv _ hEV.1)
        | (cases a <;> simp [Item.NoPanic] <;> exact inv _ hEV.1)
    | err e s' => rw [hr] at hEV; simp [Item.NoPanic]; exact inv _ hEV
    | panic p => rw [hr] at hEV; exact hEV.elim
    | fuel => simp [Item.NoPanic]
  · cases hr : expectDatum cfg s with
    | ok a s' =>
      rw [hr] at hED
      first
        | (simp [Item.NoPanic]; exact inv _ hED.1)
        | (cases a <;> simp [Item.NoPanic] <;> exact inv _ hED.1)
    | err e s' => rw [hr] at hED; simp [Item.NoPanic]; exact inv _ hED
    | panic p => rw [hr] at hED; exact hED.elim
    | fuel => simp [Item.NoPanic]
  · cases hr : expectEnd s with
    | ok a s' =>
      rw [hr] at hEE
      first
        | (simp [Item.NoPanic]; exact inv _ hEE.1)
        | (cases a <;> simp [Item.NoPanic] <;> exact inv _ hEE.1)
    | err e s' => rw [hr] at hEE; simp [Item.NoPanic]; exact inv _ hEE
    | panic p => rw [hr] at hEE; exact hEE.elim
    | fuel => simp [Item.NoPanic]
  · cases hr : nextValueTop cfg s with
    | ok a s' =>
      rw [hr] at hV
      first
        | (simp [Item.NoPanic]; exact inv _ hV.1)
        | (cases a <;> simp [Item.NoPanic] <;> exact inv _ hV.1)
    | err e s' => rw [hr] at hV; simp [Item.NoPanic]; exact inv _ hV
    | panic p => rw [hr] at hV; exact hV.elim
    | fuel => simp [Item.NoPanic]
  · cases hr : nextDatumTop cfg s with
    | ok a s' =>
      rw [hr] at hD
      first
        | (simp [Item.NoPanic]; exact inv _ hD.1)
        | (cases a <;> simp [Item.NoPanic] <;> exact inv _ hD.1)
    | err e s' => rw [hr] at hD; simp [Item.NoPanic]; exact inv _ hD
    | panic p => rw [hr] at hD; exact hD.elim
    | fuel => simp [Item.NoPanic]
  · cases hr : nextValueTop cfg s with
    | ok a s' =>
      rw [hr] at hV
      first
        | (simp [Item.NoPanic]; exact inv _ hV.1)
        | (cases a <;> simp [Item.NoPanic] <;> exact inv _ hV.1)
    | err e s' => rw [hr] at hV; simp [Item.NoPanic]; exact inv _ hV
    | panic p => rw [hr] at hV; exact hV.elim
    | fuel => simp [Item.NoPanic]

theorem runHistory_safe (cfg : Cfg) (ops : List Op) (s : St) (h : Inv s) :
    ∀ it ∈ runHistory cfg ops s, it.NoPanic := by
  induction ops generalizing s with
  | nil => intro it hit; simp [runHistory] at hit
  | cons op ops ih =>
    intro it hit
    have hstep := stepOp_safe cfg op s h
    unfold runHistory at hit
    cases hso : stepOp cfg op s with
    | mk it0 os =>
      rw [hso] at hit hstep
      cases os with
      | none =>
        simp at hit; subst hit; exact hstep.1
      | some s' =>
        simp at hit
        rcases hit with rfl | hit
        · exact hstep.1
        · exact ih s' (hstep.2 s' rfl) it hit

theorem iterate_safe (cfg : Cfg) (op : Op) (cap : Nat) (s : St) (h : Inv s) :
    ∀ it ∈ iterate cfg op cap s, it.NoPanic := by
  induction cap generalizing s with
  | zero => intro it hit; simp [iterate] at hit
  | succ cap ih =>
    intro it hit
    have hstep := stepOp_safe cfg op s h
    unfold iterate at hit
    cases hso : stepOp cfg op s with
    | mk it0 os =>
      rw [hso] at hit hstep
      cases os with
      | none =>
        cases it0 <;> simp at hit <;> subst hit <;> first | exact hstep.1 | trivial
      | some s' =>
        cases it0 <;> simp at hit <;>
          first
          | (subst hit; trivial)
          | (rcases hit with rfl | hit
             · first | exact hstep.1 | trivial
             · exact ih s' (hstep.2 s' rfl) it hit)

end Parse
end Lexpr

namespace Lexpr

/-! ## The recursion limit: accepted values are shallow -/

namespace Value

mutual
/-- Nesting depth as the parser counts it: one level per list, vector or quotation that had to be
    *entered* to reach a value (a cdr chain stays on one level). -/
def vdepth : Value → Nat
  | cons a d => max (vdepth a + 1) (vdepth d)
  | vector xs => vdepthList xs + 1
  | _ => 0
def vdepthList : List Value → Nat
  | [] => 0
  | x :: xs => max (vdepth x) (vdepthList xs)
end

theorem vdepth_append_le (acc : List Value) (t : Value) (d : Nat)
    (h : ∀ x ∈ acc, vdepth x < d) (ht : vdepth t ≤ d) : vdepth (append acc t) ≤ d := by
  induction acc with
  | nil => simpa [append] using ht
  | cons x xs ih =>
    have h1 := h x (by simp)
    have h2 := ih (fun y hy => h y (by simp [hy]))
    simp only [append, vdepth]
    omega

theorem vdepth_list_le (acc : List Value) (d : Nat) (h : ∀ x ∈ acc, vdepth x < d) :
    vdepth (list acc) ≤ d :=
  vdepth_append_le acc null d h (by simp [vdepth])

theorem vdepthList_lt (xs : List Value) (d : Nat) (h : ∀ x ∈ xs, vdepth x < d) (hd : 0 < d) :
    vdepthList xs < d := by
  induction xs with
  | nil => simpa [vdepthList] using hd
  | cons x xs ih =>
    have h1 := h x (by simp)
    have h2 := ih (fun y hy => h y (by simp [hy]))
    simp only [vdepthList]
    omega

end Value

namespace Parse
open Value

theorem symbolValue_vdepth (o : Options) (name : List UInt8) : (symbolValue o name).vdepth = 0 := by
  unfold symbolValue
  split <;> simp [vdepth]

theorem atom_vdepth (t : Token) (v : Value) (h : t.atom = some v) : v.vdepth = 0 := by
  cases t <;> simp [Token.atom] at h <;> subst h <;> simp [vdepth]

/-- closes the value-depth side conditions of `parse_list` / `parse_vector` -/
local macro "depth_fin" : tactic => `(tactic| all_goals first
  | omega
  | ne_side
  | exact vdepth_list_le _ _ ‹_›
  | assumption
  | (refine vdepth_append_le _ _ _ ‹_› ?_
     have := ‹∀ v : Value, some _ = some v → _› _ rfl
     omega)
  | (intro x hx
     rw [List.mem_append, List.mem_singleton] at hx
     rcases hx with hx | hx
     · have := ‹∀ x ∈ _, Value.vdepth x < _› x hx; omega
     · subst hx
       first
       | (have := ‹∀ v : Value, some _ = some v → _› _ rfl; omega)
       | (rw [symbolValue_vdepth]; omega))
  | (intro x hx; have := ‹∀ x ∈ _, Value.vdepth x < _› x hx; omega))

theorem shallow_all (cfg : Cfg) (f : Nat) :
    (∀ s : St, 1 ≤ s.depth → s.rd.rest.length < 2147483646 →
      Safe (nextValue cfg f) s (fun r _ => ∀ v, r = some v → v.vdepth < s.depth)) ∧
    (∀ (term : UInt8) (acc : List Value) (s : St), 1 ≤ s.depth → s.rd.rest.length < 2147483646 →
      (∀ x ∈ acc, x.vdepth < s.depth) →
      Safe (parseList cfg f term acc) s (fun r _ => r.vdepth ≤ s.depth)) ∧
    (∀ (term : UInt8) (acc : List Value) (s : St), 1 ≤ s.depth → s.rd.rest.length < 2147483646 →
      (∀ x ∈ acc, x.vdepth < s.depth) →
      Safe (parseVector cfg f term acc) s (fun r _ => ∀ x ∈ r, x.vdepth < s.depth)) := by
  induction f with
  | zero =>
    refine ⟨?_, ?_, ?_⟩ <;> intros
    · unfold nextValue; exact Safe.outOfFuel
    · unfold parseList; exact Safe.outOfFuel
    · unfold parseVector; exact Safe.outOfFuel
  | succ f ih =>
    obtain ⟨ihV, ihL, ihVec⟩ := ih
    refine ⟨?_, ?_, ?_⟩
    · intro s hd hs
      unfold nextValue; safe_run_noenter
      all_goals first | atom_absurd | skip
      all_goals first | omega | ne_side | skip
      · simp
      · intro v hv; cases hv; simp [vdepth]; omega
      · -- vector
        refine Safe.bracketQ (fun xs => ∀ x ∈ xs, x.vdepth < s.depth - 1) (by omega) ?_ ?_
        · intro s1 h1 h2 h3 h4
          refine Safe.mono (ihVec _ [] s1 h4 (by omega) (by simp)) ?_
          rintro r s2 ⟨e1, e2⟩ hr x hx
          have := hr x hx; omega
        · rintro (e | xs) s2 ⟨e1, e2⟩ h2 hQ
          · safe_run
          · safe_run
            all_goals first | (exfalso; simp_all; done) | skip
            rename_i xs' heq
            cases heq
            intro v hv; cases hv
            have := vdepthList_lt xs (s.depth - 1) (hQ xs rfl) (by omega)
            simp only [vdepth]; omega
      · -- list
        refine Safe.bracketQ (fun r => r.vdepth ≤ s.depth - 1) (by omega) ?_ ?_
        · intro s1 h1 h2 h3 h4
          refine Safe.mono (ihL _ [] s1 h4 (by omega) (by simp)) ?_
          rintro r s2 ⟨e1, e2⟩ hr
          omega
        · rintro (e | r) s2 ⟨e1, e2⟩ h2 hQ
          · safe_run
          · safe_run
            all_goals first | (exfalso; simp_all; done) | skip
            rename_i r' heq
            cases heq
            intro v hv; cases hv
            have := hQ r rfl
            omega
      · -- quotation
        refine Safe.bracketQ (fun r => ∀ v, r = some v → v.vdepth < s.depth - 1) (by omega) ?_ ?_
        · intro s1 h1 h2 h3 h4
          refine Safe.mono (ihV s1 h4 (by omega)) ?_
          rintro r s2 ⟨e1, e2⟩ hr v hv
          have := hr v hv; omega
        · rintro (e | r) s2 ⟨e1, e2⟩ h2 hQ
          · safe_run
          · safe_run
            all_goals first | (exfalso; simp_all; done) | skip
            rename_i d heq
            cases heq
            intro v hv; cases hv
            have := hQ _ rfl d rfl
            simp only [list, append, vdepth]; omega
      · -- atoms
        rename_i v heq
        intro v' hv; cases hv
        have := atom_vdepth _ _ heq
        omega
    · intro term acc s hd hs hacc
      unfold parseList; safe_run
      depth_fin
    · intro term acc s hd hs hacc
      unfold parseVector; safe_run
      depth_fin

theorem nextValue_shallow (cfg : Cfg) (f : Nat) (s : St) (hd : 1 ≤ s.depth)
    (hs : s.rd.rest.length < 2147483646) :
    Safe (nextValue cfg f) s (fun r _ => ∀ v, r = some v → v.vdepth < s.depth) :=
  (shallow_all cfg f).1 s hd hs

theorem expectValue_shallow (cfg : Cfg) (s : St) (hd : 1 ≤ s.depth)
    (hs : s.rd.rest.length < 2147483646) :
    Safe (expectValue cfg) s (fun v _ => v.vdepth < s.depth) := by
  have hV := nextValue_shallow cfg
  unfold expectValue nextValueTop; safe_run
  all_goals first | omega | skip
  rename_i h; exact h _ rfl

theorem fromTrait_shallow (cfg : Cfg) (s : St) (hd : 1 ≤ s.depth)
    (hs : s.rd.rest.length < 2147483646) :
    Safe (fromTrait cfg) s (fun v _ => v.vdepth < s.depth) := by
  have hV := expectValue_shallow cfg
  unfold fromTrait; safe_run
  all_goals first | omega | assumption

/-- `wholeNumber` (the sub-parser of the leading-digit path) maps every non-`ok` result of its
    inner run to `none`; that does not hide a panic: the inner run cannot panic. -/
theorem wholeNumber_inner_no_panic (cfg : Cfg) (sym : List UInt8) (h : sym.length < 2147483646) :
    ∀ p, parseNumLiteral cfg (sym.length + 1) 10 true { rd := { mode := .slice, rest := sym } } ≠
      .panic p :=
  (parseNumLiteral_safe cfg _ 10 true _ h).no_panic

end Parse
end Lexpr

namespace Lexpr
namespace Parse

/-- A configuration for the examples (the two tables are irrelevant for safety). -/
def exCfg : Cfg := { opts := Options.default, isAlphabetic := fun _ => false, pow10 := fun _ => 0 }

/-- `(a #(1) . "x")` -/
def exBytes : List UInt8 := [40, 97, 32, 35, 40, 49, 41, 32, 46, 32, 34, 120, 34, 41]

/-- outcome of a run, for the examples: `some (succeeded, remaining depth)` -/
def Res.outcome : Res α → Option (Bool × Nat)
  | .ok _ s => some (true, s.depth)
  | .err _ s => some (false, s.depth)
  | _ => none

/-- error code of a run, for the examples -/
def Res.errCode : Res α → Option Code
  | .err (.syntax c _ _) _ => some c
  | _ => none

/-- nesting depth of the value a run produced, for the examples -/
def Res.valueDepth : Res (Option Value) → Option Nat
  | .ok (some v) _ => some v.vdepth
  | _ => none

/-- `n` opening parentheses, `mid`, `n` closing parentheses -/
def nested (n : Nat) (mid : List UInt8) : List UInt8 :=
  List.replicate n 40 ++ mid ++ List.replicate n 41

theorem Safe.post_ok {m : P α} {s s' : St} {a : α} {Q : α → St → Prop} (h : Safe m s Q)
    (hr : m s = .ok a s') : Q a s' := by
  unfold Safe at h; rw [hr] at h; exact h.2

/-! ## Main theorems -/

/-- **C03 (value)**: `next_value` never reaches a panic site (depth underflow, `discard` at end of
    input, exponent overflow, `unreachable!`) when at least one level of depth budget is left and
    the input is shorter than `i32::MAX - 1` bytes; for every fuel and every configuration. -/
theorem C03_no_panic_value (cfg : Cfg) (fuel : Nat) (s : St) (hd : 1 ≤ s.depth)
    (hlen : s.rd.rest.length < 2147483646) : ∀ p, nextValue cfg fuel s ≠ .panic p :=
  (nextValue_safe cfg fuel s hd hlen).no_panic

example : ∀ p, nextValue exCfg 40 (initSt .io exBytes true) ≠ .panic p :=
  C03_no_panic_value _ _ _ (by decide) (by decide)

/-- The depth hypothesis of `C03_no_panic_value` is needed: with no budget left the `u8`
    decrement underflows. -/
example : nextValue exCfg 2 { initSt .str [40] with depth := 0 } = .panic .depthUnderflow := by
  rfl

/-- the example input is accepted, so the instance above is not vacuous -/
example : (nextValue exCfg 40 (initSt .io exBytes true)).outcome = some (true, 128) := by
  decide +kernel

/-- **C03 (datum)**: the same for `next_datum`. -/
theorem C03_no_panic_datum (cfg : Cfg) (fuel : Nat) (s : St) (hd : 1 ≤ s.depth)
    (hlen : s.rd.rest.length < 2147483646) : ∀ p, nextDatum cfg fuel s ≠ .panic p :=
  (nextDatum_safe cfg fuel s hd hlen).no_panic

example : ∀ p, nextDatum exCfg 40 (initSt .slice exBytes) ≠ .panic p :=
  C03_no_panic_datum _ _ _ (by decide) (by decide)

/-- **C03 (`expect_end`)**: no hypothesis at all is needed. -/
theorem C03_no_panic_expectEnd (s : St) : ∀ p, expectEnd s ≠ .panic p :=
  (expectEnd_safe s).no_panic

example : ∀ p, expectEnd (initSt .str [32, 59, 120, 10, 41]) ≠ .panic p := C03_no_panic_expectEnd _

/-- **C03 (`expect_value`)**, with the fuel the public API supplies. -/
theorem C03_no_panic_expectValue (cfg : Cfg) (s : St) (hd : 1 ≤ s.depth)
    (hlen : s.rd.rest.length < 2147483646) : ∀ p, expectValue cfg s ≠ .panic p :=
  (expectValue_safe cfg s hd hlen).no_panic

example : ∀ p, expectValue exCfg (initSt .str exBytes) ≠ .panic p :=
  C03_no_panic_expectValue _ _ (by decide) (by decide)

/-- **C03 (`expect_datum`)**. -/
theorem C03_no_panic_expectDatum (cfg : Cfg) (s : St) (hd : 1 ≤ s.depth)
    (hlen : s.rd.rest.length < 2147483646) : ∀ p, expectDatum cfg s ≠ .panic p :=
  (expectDatum_safe cfg s hd hlen).no_panic

example : ∀ p, expectDatum exCfg (initSt .str exBytes) ≠ .panic p :=
  C03_no_panic_expectDatum _ _ (by decide) (by decide)

/-- **C03 (`from_str` / `from_slice` / `from_reader`)**: `from_trait` on a fresh parser. -/
theorem C03_no_panic_fromTrait (cfg : Cfg) (s : St) (hd : 1 ≤ s.depth)
    (hlen : s.rd.rest.length < 2147483646) : ∀ p, fromTrait cfg s ≠ .panic p :=
  (fromTrait_safe cfg s hd hlen).no_panic

example : ∀ p, fromTrait exCfg (initSt .io exBytes true) ≠ .panic p :=
  C03_no_panic_fromTrait _ _ (by decide) (by decide)

/-- **C03 (`datum::from_str` ...)**: `datum::from_trait` on a fresh parser. -/
theorem C03_no_panic_fromTraitDatum (cfg : Cfg) (s : St) (hd : 1 ≤ s.depth)
    (hlen : s.rd.rest.length < 2147483646) : ∀ p, fromTraitDatum cfg s ≠ .panic p :=
  (fromTraitDatum_safe cfg s hd hlen).no_panic

example : ∀ p, fromTraitDatum exCfg (initSt .slice exBytes) ≠ .panic p :=
  C03_no_panic_fromTraitDatum _ _ (by decide) (by decide)

/-- **C03 (`Parser::next_value` as called by the API)**: `nextValueTop` / `nextDatumTop`. -/
theorem C03_no_panic_top (cfg : Cfg) (s : St) (hd : 1 ≤ s.depth)
    (hlen : s.rd.rest.length < 2147483646) :
    (∀ p, nextValueTop cfg s ≠ .panic p) ∧ (∀ p, nextDatumTop cfg s ≠ .panic p) :=
  ⟨(nextValueTop_safe cfg s hd hlen).no_panic, (nextDatumTop_safe cfg s hd hlen).no_panic⟩

example : (∀ p, nextValueTop exCfg (initSt .str exBytes) ≠ .panic p) ∧
    (∀ p, nextDatumTop exCfg (initSt .str exBytes) ≠ .panic p) :=
  C03_no_panic_top _ _ (by decide) (by decide)

/-- **Depth budget restored (value)**: whether `next_value` succeeds or fails, `remaining_depth`
    is what it was before the call. This is what makes repeated calls on one parser safe. -/
theorem depth_restored_value (cfg : Cfg) (fuel : Nat) (s s' : St) (r : Option Value) (e : Err)
    (hd : 1 ≤ s.depth) (hlen : s.rd.rest.length < 2147483646)
    (h : nextValue cfg fuel s = .ok r s' ∨ nextValue cfg fuel s = .err e s') :
    s'.depth = s.depth := by
  rcases h with h | h
  · exact ((nextValue_safe cfg fuel s hd hlen).frame_ok h).1
  · exact ((nextValue_safe cfg fuel s hd hlen).frame_err h).1

/-- an erroring call nested three levels deep (`(((` then end of input) restores the depth -/
example : (nextValue exCfg 40 (initSt .str [40, 40, 40])).outcome = some (false, 128) := by
  decide +kernel

/-- **Depth budget restored (datum)**. -/
theorem depth_restored_datum (cfg : Cfg) (fuel : Nat) (s s' : St) (r : Option Datum) (e : Err)
    (hd : 1 ≤ s.depth) (hlen : s.rd.rest.length < 2147483646)
    (h : nextDatum cfg fuel s = .ok r s' ∨ nextDatum cfg fuel s = .err e s') :
    s'.depth = s.depth := by
  rcases h with h | h
  · exact ((nextDatum_safe cfg fuel s hd hlen).frame_ok h).1
  · exact ((nextDatum_safe cfg fuel s hd hlen).frame_err h).1

example : (nextDatum exCfg 40 (initSt .str [40, 40, 40])).outcome = some (false, 128) := by
  decide +kernel

/-- **Input never grows**: the same frame for the unread input, for both entry points (so the
    length hypothesis, like the depth hypothesis, survives every call). -/
theorem rest_monotone (cfg : Cfg) (fuel : Nat) (s s' : St) (hd : 1 ≤ s.depth)
    (hlen : s.rd.rest.length < 2147483646) :
    (∀ r e, nextValue cfg fuel s = .ok r s' ∨ nextValue cfg fuel s = .err e s' →
      s'.rd.rest.length ≤ s.rd.rest.length) ∧
    (∀ r e, nextDatum cfg fuel s = .ok r s' ∨ nextDatum cfg fuel s = .err e s' →
      s'.rd.rest.length ≤ s.rd.rest.length) := by
  refine ⟨fun r e h => ?_, fun r e h => ?_⟩
  · rcases h with h | h
    · exact ((nextValue_safe cfg fuel s hd hlen).frame_ok h).2
    · exact ((nextValue_safe cfg fuel s hd hlen).frame_err h).2
  · rcases h with h | h
    · exact ((nextDatum_safe cfg fuel s hd hlen).frame_ok h).2
    · exact ((nextDatum_safe cfg fuel s hd hlen).frame_err h).2

example : ∀ s' r e, nextValue exCfg 40 (initSt .str exBytes) = .ok r s' ∨
    nextValue exCfg 40 (initSt .str exBytes) = .err e s' → s'.rd.rest.length ≤ 14 :=
  fun s' r e h => (rest_monotone exCfg 40 _ s' (by decide) (by decide)).1 r e h

/-- **C03 (call histories)**: any sequence of public calls on one parser over any input shorter
    than `i32::MAX - 1` bytes, from any of the three sources (failing reader included), never
    panics. -/
theorem C03_no_panic_history (cfg : Cfg) (ops : List Op) (mode : Mode) (bytes : List UInt8)
    (faulty : Bool) (hlen : bytes.length < 2147483646) :
    ∀ it ∈ runHistory cfg ops (initSt mode bytes faulty),
      match it with | .panic _ => False | _ => True := by
  intro it hit
  have := runHistory_safe cfg ops (initSt mode bytes faulty) ⟨by simp [initSt], hlen⟩ it hit
  cases it <;> first | trivial | exact this

example : ∀ it ∈ runHistory exCfg [.nextValue, .expectEnd, .datumIterNext, .expectDatum]
      (initSt .io exBytes true), match it with | .panic _ => False | _ => True :=
  C03_no_panic_history _ _ _ _ _ (by decide)

/-- **C03 (iterators)**: draining an iterator never panics either. -/
theorem C03_no_panic_iterate (cfg : Cfg) (op : Op) (cap : Nat) (mode : Mode) (bytes : List UInt8)
    (faulty : Bool) (hlen : bytes.length < 2147483646) :
    ∀ it ∈ iterate cfg op cap (initSt mode bytes faulty),
      match it with | .panic _ => False | _ => True := by
  intro it hit
  have := iterate_safe cfg op cap (initSt mode bytes faulty) ⟨by simp [initSt], hlen⟩ it hit
  cases it <;> first | trivial | exact this

example : ∀ it ∈ iterate exCfg .valueIterNext 5 (initSt .str exBytes),
    match it with | .panic _ => False | _ => True :=
  C03_no_panic_iterate _ _ _ _ _ _ (by decide)

/-- **UTF-8**: the `unreachable!()` of `decode_utf8_sequence` — a non-empty byte string accepted
    by the validity automaton has a decodable first scalar. -/
theorem C03_utf8_decodable (b0 : UInt8) (bs : List UInt8) (h : Utf8.valid (b0 :: bs) = true) :
    (Utf8.decodeFirst (b0 :: bs)).isSome = true :=
  Utf8.decodeFirst_of_valid b0 bs h

example : (Utf8.decodeFirst [0xE2, 0x82, 0xAC]).isSome = true := C03_utf8_decodable _ _ (by decide)

/-- **Recursion limit (`enter`)**: with exactly one level of budget left, `enter` fails with
    `RecursionLimitExceeded` and leaves the state alone; hence from `remaining_depth = 128` at
    most 127 nested `enter`s succeed. -/
theorem C03_enter_limit (s : St) (h : s.depth = 1) :
    enter s = .err (.syntax .recursionLimitExceeded s.rd.peekPosition.line
      s.rd.peekPosition.col) s := by
  simp [enter, h]

example : (enter { initSt .str [40] with depth := 1 }).errCode = some .recursionLimitExceeded := by
  decide

/-- **C03_accepted_shallow**: a value accepted by `next_value` with `d` levels of budget has
    nesting depth (`Value.vdepth`: lists, vectors and quotations entered on the way down; a cdr
    chain stays on one level) strictly below `d`. -/
theorem C03_accepted_shallow (cfg : Cfg) (fuel : Nat) (s s' : St) (v : Value) (hd : 1 ≤ s.depth)
    (hlen : s.rd.rest.length < 2147483646) (h : nextValue cfg fuel s = .ok (some v) s') :
    v.vdepth < s.depth :=
  (nextValue_shallow cfg fuel s hd hlen).post_ok h v rfl

/-- the bound is attained: 126 lists around `#()` need 127 `enter`s and are accepted ... -/
example : (nextValue exCfg 600 (initSt .str (nested 126 [35, 40, 41]))).valueDepth = some 127 := by
  decide +kernel

/-- ... and one more level is rejected with `RecursionLimitExceeded` (depth still restored). -/
example : (nextValue exCfg 600 (initSt .str (nested 127 [35, 40, 41]))).errCode =
      some .recursionLimitExceeded ∧
    (nextValue exCfg 600 (initSt .str (nested 127 [35, 40, 41]))).outcome = some (false, 128) := by
  decide +kernel

/-- **C03_accepted_shallow (fresh parser)**: whatever `from_str` / `from_slice` / `from_reader`
    return has nesting depth at most 127. -/
theorem C03_accepted_shallow_fresh (cfg : Cfg) (mode : Mode) (bytes : List UInt8) (faulty : Bool)
    (v : Value) (s' : St) (hlen : bytes.length < 2147483646)
    (h : fromTrait cfg (initSt mode bytes faulty) = .ok v s') : v.vdepth ≤ 127 := by
  have := (fromTrait_shallow cfg (initSt mode bytes faulty) (by simp [initSt]) hlen).post_ok h
  simp [initSt] at this
  omega

example : ∀ v s', fromTrait exCfg (initSt .str exBytes) = .ok v s' → v.vdepth ≤ 127 :=
  fun v s' h => C03_accepted_shallow_fresh _ _ _ _ v s' (by decide) h

end Parse
end Lexpr
