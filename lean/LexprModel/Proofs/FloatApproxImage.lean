/-
  FloatApproxImage — C13 "with floating-point numbers equal to within the accuracy stated in C05":
  parse → print (`pof R`) → parse gives a value `approxEq` to the first one, with `RyuSpecOnly`
  (no exactness window) in place of `Decimals.FloatOK` on the float leaves.

  * the relational structure theorem of `FloatApproxStruct.lean` once more, with the leading-dot
    requirement confined to cars as in `ImageStruct.lean` (`AtomOKA`, `AllOKA`, `value_rtA`);
  * `C13_reparse_approx`: `from_slice_custom(bytes, R) = Ok v` implies
    `from_slice_custom(to_string_custom(v, pof R), R) = Ok w` with `Value.approxEq v w`, under the
    non-float side conditions of `Image.C13_reparse_partial` (`kwDotOk`, `carDotOk`, the nil-depth
    condition) and `RyuSpecOnly` on every float leaf;
  * `C13_reparse_next_approx`: the same in the middle of an input.
  * the finiteness part of `RyuSpecOnly` is discharged in `FloatApproxImage2.lean`
    (`C13_reparse_approx_fin`), from `FloatApproxFin.lean` (floats in the image are finite).
  * example: `(a 1e-23 . #(2.5))` parsed by the default build, and the witness that the value
    read back differs from the first one (so `Image.C13_reparse_partial` cannot apply).
-/
import LexprModel.Proofs.FloatApproxRT
import LexprModel.Proofs.Image
namespace Lexpr
namespace FloatApprox
open Parse Parse.ListRT Print Spec F64 Numbers Decimals

/-! ## 1. Structure with weak heads -/

/-- `AtomOKW` with a `WeakHead` in place of the `ElemHead` -/
def AtomOKA (p : Print.Options) (cfg : Cfg) (ryu : Nat → List UInt8) (v : Value) : Prop :=
  v.isCons = false ∧ v.isVector = false ∧ v ≠ .null ∧ Image.WeakHead (atomTextP p ryu v) ∧
  ∃ w, Value.approxEq (fold p cfg.opts v) w ∧
    ∀ (s : St) (rest : List UInt8) (fuel : Nat), ListRT.Follow rest → Good s →
      s.rd.rest = atomTextP p ryu v ++ rest → fuel ≥ s.rd.rest.length + 2 →
      nestingP p v + 1 ≤ s.depth →
      Runs (nextValue cfg fuel) s (some w) rest

theorem atomOKA_of_W {p : Print.Options} {cfg : Cfg} {ryu : Nat → List UInt8} {v : Value}
    (h : AtomOKW p cfg ryu v) : AtomOKA p cfg ryu v :=
  ⟨h.1, h.2.1, h.2.2.1, Image.ElemHead.weak h.2.2.2.1, h.2.2.2.2⟩

/-- an atom that is read back exactly (in the sense of `ImageStruct.lean`) -/
theorem atomOKA_of_image {p : Print.Options} {cfg : Cfg} {ryu : Nat → List UInt8} {v : Value}
    (h : Image.AtomOKW p cfg ryu v) : AtomOKA p cfg ryu v :=
  ⟨h.1, h.2.1, h.2.2.1, h.2.2.2.1, fold p cfg.opts v, approxEq_refl _, h.2.2.2.2⟩

mutual
/-- every atom is `AtomOKA`, and the text of every car is an `ElemHead` -/
def AllOKA (p : Print.Options) (cfg : Cfg) (ryu : Nat → List UInt8) : Value → Prop
  | .cons a d => AllOKA p cfg ryu a ∧ ElemHead (text p ryu a) ∧ AllOKA p cfg ryu d
  | .vector xs => AllOKASeq p cfg ryu xs
  | .null => True
  | .nil => AtomOKA p cfg ryu .nil
  | .bool b => AtomOKA p cfg ryu (.bool b)
  | .number n => AtomOKA p cfg ryu (.number n)
  | .char c => AtomOKA p cfg ryu (.char c)
  | .string x => AtomOKA p cfg ryu (.string x)
  | .symbol x => AtomOKA p cfg ryu (.symbol x)
  | .keyword x => AtomOKA p cfg ryu (.keyword x)
  | .bytes x => AtomOKA p cfg ryu (.bytes x)
def AllOKASeq (p : Print.Options) (cfg : Cfg) (ryu : Nat → List UInt8) : List Value → Prop
  | [] => True
  | x :: xs => AllOKA p cfg ryu x ∧ AllOKASeq p cfg ryu xs
end

theorem tail_dotted_rtA (p : Print.Options) (cfg : Cfg) (ryu : Nat → List UInt8) (d w : Value)
    (hD : ValueRTW p cfg ryu d w) (hhead : Image.WeakHead (text p ryu d)) (h1 : d.isCons = false)
    (h2 : d ≠ .null) (hn : nestingTailP p d = nestingP p d) : TailRTW p cfg ryu d w := by
  intro s rest fuel acc hacc hg hr hfu hd
  rw [tailP_dotted p ryu d h1 h2] at hr
  obtain ⟨c, tl, ht, hc1, hc2, -, -⟩ := hhead
  have hr' : s.rd.rest = 32 :: 46 :: 32 :: (c :: (tl ++ 41 :: rest)) := by
    simpa [ht] using hr
  have hlen := congrArg List.length hr'
  simp only [List.length_cons, List.length_append] at hlen
  obtain ⟨F, rfl⟩ : ∃ F, fuel = F + 1 := ⟨fuel - 1, by omega⟩
  refine parseList_dotted cfg F s acc _ rest w hg hr' hacc ?_
  intro s1 g1 r1 d1
  obtain ⟨s2, g2, r2, d2, heq⟩ := nextValue_skip cfg s1 g1 c _ r1 hc1 (by simp [hc2])
  obtain ⟨s3, e3, r3, g3, d3⟩ := hD s2 (41 :: rest) F (follow_cons _ _ (by decide)) g2
    (by rw [r2, ht]; simp)
    (by rw [r2]; simp only [List.length_cons, List.length_append]; omega) (by omega)
  exact ⟨s3, (heq F).trans e3, r3, g3, by omega⟩

theorem seq_cons_rtA (p : Print.Options) (cfg : Cfg) (ryu : Nat → List UInt8) (first : Bool)
    (x x' : Value) (xs ws : List Value) (hX : ValueRTW p cfg ryu x x')
    (hhead : Image.WeakHead (text p ryu x))
    (hS : SeqRTW p cfg ryu false xs ws) : SeqRTW p cfg ryu first (x :: xs) (x' :: ws) := by
  intro s rest fuel acc hg hr hfu hd
  simp only [nestingSeqP] at hd
  cases first with
  | true =>
    rw [seqP_true] at hr
    have hr' : s.rd.rest =
        [] ++ (text p ryu x ++ (flatten (emitsSeq p ryu false xs) ++ vclose p :: rest)) := by
      simpa using hr
    have hlen := congrArg List.length hr'
    simp only [List.length_cons, List.length_append, List.length_nil] at hlen
    simp only [if_true] at hfu
    obtain ⟨F, rfl⟩ : ∃ F, fuel = F + 1 := ⟨fuel - 1, by omega⟩
    refine Image.vec_elem_stepW cfg (vclose p) F s acc x' _ [] (text p ryu x)
      (flatten (emitsSeq p ryu false xs) ++ vclose p :: rest) (vclose p :: rest) hg (Or.inl rfl)
      hr' hhead ?_ ?_
    · intro s2 g2 r2 d2
      refine hX s2 _ F (seq_followP p ryu xs rest) g2 r2 ?_ (by omega)
      rw [r2]; simp only [List.length_cons, List.length_append]; omega
    · intro s3 g3 r3 d3
      have := hS s3 rest F (acc ++ [x']) g3 r3
        (by rw [r3]; simp only [List.length_cons, List.length_append]; simp; omega) (by omega)
      simpa using this
  | false =>
    rw [seqP_false] at hr
    have hr' : s.rd.rest =
        [32] ++ (text p ryu x ++ (flatten (emitsSeq p ryu false xs) ++ vclose p :: rest)) := by
      simpa using hr
    have hlen := congrArg List.length hr'
    simp only [List.length_cons, List.length_append, List.length_nil] at hlen
    simp at hfu
    obtain ⟨F, rfl⟩ : ∃ F, fuel = F + 1 := ⟨fuel - 1, by omega⟩
    refine Image.vec_elem_stepW cfg (vclose p) F s acc x' _ [32] (text p ryu x)
      (flatten (emitsSeq p ryu false xs) ++ vclose p :: rest) (vclose p :: rest) hg (Or.inr rfl)
      hr' hhead ?_ ?_
    · intro s2 g2 r2 d2
      refine hX s2 _ F (seq_followP p ryu xs rest) g2 r2 ?_ (by omega)
      rw [r2]; simp only [List.length_cons, List.length_append]; omega
    · intro s3 g3 r3 d3
      have := hS s3 rest F (acc ++ [x']) g3 r3
        (by rw [r3]; simp only [List.length_cons, List.length_append]; simp; omega) (by omega)
      simpa using this

theorem text_headA (p : Print.Options) (cfg : Cfg) (ryu : Nat → List UInt8) (v : Value)
    (h : AllOKA p cfg ryu v) : Image.WeakHead (text p ryu v) := by
  cases v with
  | cons a d =>
    rw [textP_cons]
    exact ⟨40, _, rfl, by decide, by decide, by decide, by decide⟩
  | vector xs => rw [textP_vector]; exact Image.ElemHead.weak (vopen_head p _)
  | null => rw [textP_null]; exact ⟨40, _, rfl, by decide, by decide, by decide, by decide⟩
  | nil => simp only [AllOKA] at h; rw [textP_atom p ryu _ rfl rfl]; exact h.2.2.2.1
  | bool b => simp only [AllOKA] at h; rw [textP_atom p ryu _ rfl rfl]; exact h.2.2.2.1
  | number n => simp only [AllOKA] at h; rw [textP_atom p ryu _ rfl rfl]; exact h.2.2.2.1
  | char c => simp only [AllOKA] at h; rw [textP_atom p ryu _ rfl rfl]; exact h.2.2.2.1
  | string x => simp only [AllOKA] at h; rw [textP_atom p ryu _ rfl rfl]; exact h.2.2.2.1
  | symbol x => simp only [AllOKA] at h; rw [textP_atom p ryu _ rfl rfl]; exact h.2.2.2.1
  | keyword x => simp only [AllOKA] at h; rw [textP_atom p ryu _ rfl rfl]; exact h.2.2.2.1
  | bytes x => simp only [AllOKA] at h; rw [textP_atom p ryu _ rfl rfl]; exact h.2.2.2.1

theorem leaf_rtA (p : Print.Options) (cfg : Cfg) (ryu : Nat → List UInt8) (v : Value)
    (h : AtomOKA p cfg ryu v) :
    ∃ w, Value.approxEq (fold p cfg.opts v) w ∧ ValueRTW p cfg ryu v w ∧
      TailRTW p cfg ryu v w := by
  obtain ⟨h1, h2, h3, hh, w, hw, hrun⟩ := h
  have hv := atom_rtW p cfg ryu v w h1 h2 hrun
  refine ⟨w, hw, hv, tail_dotted_rtA p cfg ryu v w hv ?_ h1 h3 (nestingP_atom p v h1 h2 h3)⟩
  rw [textP_atom p ryu v h1 h2]; exact hh

mutual
theorem value_rtA (p : Print.Options) (cfg : Cfg) (ryu : Nat → List UInt8)
    (hb : p.vector = .brackets → cfg.opts.brackets = .vector) :
    ∀ v : Value, AllOKA p cfg ryu v →
      ∃ w, Value.approxEq (fold p cfg.opts v) w ∧ ValueRTW p cfg ryu v w
  | .cons a d, h => by
    simp only [AllOKA] at h
    obtain ⟨a', ha, hA⟩ := value_rtA p cfg ryu hb a h.1
    obtain ⟨d', hd, hD⟩ := tail_rtA p cfg ryu hb d h.2.2
    refine ⟨.cons a' d', ?_, cons_rtW p cfg ryu a d a' d' hA h.2.1 hD⟩
    rw [fold_cons]; simp only [Value.approxEq]; exact ⟨a', d', rfl, ha, hd⟩
  | .vector xs, h => by
    simp only [AllOKA] at h
    obtain ⟨ws, hw, hS⟩ := seq_rtA p cfg ryu hb true xs h
    refine ⟨.vector ws, ?_, vector_rtW p cfg ryu xs ws hb hS⟩
    rw [fold_vector]; simp only [Value.approxEq]; exact ⟨ws, rfl, hw⟩
  | .null, _ => ⟨.null, by rw [fold_null]; simp only [Value.approxEq], null_rtW p cfg ryu⟩
  | .nil, h => by
    simp only [AllOKA] at h; obtain ⟨w, a, b, _⟩ := leaf_rtA p cfg ryu _ h; exact ⟨w, a, b⟩
  | .bool _, h => by
    simp only [AllOKA] at h; obtain ⟨w, a, b, _⟩ := leaf_rtA p cfg ryu _ h; exact ⟨w, a, b⟩
  | .number _, h => by
    simp only [AllOKA] at h; obtain ⟨w, a, b, _⟩ := leaf_rtA p cfg ryu _ h; exact ⟨w, a, b⟩
  | .char _, h => by
    simp only [AllOKA] at h; obtain ⟨w, a, b, _⟩ := leaf_rtA p cfg ryu _ h; exact ⟨w, a, b⟩
  | .string _, h => by
    simp only [AllOKA] at h; obtain ⟨w, a, b, _⟩ := leaf_rtA p cfg ryu _ h; exact ⟨w, a, b⟩
  | .symbol _, h => by
    simp only [AllOKA] at h; obtain ⟨w, a, b, _⟩ := leaf_rtA p cfg ryu _ h; exact ⟨w, a, b⟩
  | .keyword _, h => by
    simp only [AllOKA] at h; obtain ⟨w, a, b, _⟩ := leaf_rtA p cfg ryu _ h; exact ⟨w, a, b⟩
  | .bytes _, h => by
    simp only [AllOKA] at h; obtain ⟨w, a, b, _⟩ := leaf_rtA p cfg ryu _ h; exact ⟨w, a, b⟩
theorem tail_rtA (p : Print.Options) (cfg : Cfg) (ryu : Nat → List UInt8)
    (hb : p.vector = .brackets → cfg.opts.brackets = .vector) :
    ∀ d : Value, AllOKA p cfg ryu d →
      ∃ w, Value.approxEq (fold p cfg.opts d) w ∧ TailRTW p cfg ryu d w
  | .cons a d, h => by
    simp only [AllOKA] at h
    obtain ⟨a', ha, hA⟩ := value_rtA p cfg ryu hb a h.1
    obtain ⟨d', hd, hD⟩ := tail_rtA p cfg ryu hb d h.2.2
    refine ⟨.cons a' d', ?_, tail_cons_rtW p cfg ryu a d a' d' hA h.2.1 hD⟩
    rw [fold_cons]; simp only [Value.approxEq]; exact ⟨a', d', rfl, ha, hd⟩
  | .vector xs, h => by
    have hh := text_headA p cfg ryu (.vector xs) h
    simp only [AllOKA] at h
    obtain ⟨ws, hw, hS⟩ := seq_rtA p cfg ryu hb true xs h
    refine ⟨.vector ws, ?_, tail_dotted_rtA p cfg ryu (.vector xs) (.vector ws)
      (vector_rtW p cfg ryu xs ws hb hS) hh rfl (by simp) (by simp [nestingP, nestingTailP])⟩
    rw [fold_vector]; simp only [Value.approxEq]; exact ⟨ws, rfl, hw⟩
  | .null, _ => ⟨.null, by rw [fold_null]; simp only [Value.approxEq], tail_null_rtW p cfg ryu⟩
  | .nil, h => by
    simp only [AllOKA] at h; obtain ⟨w, a, _, c⟩ := leaf_rtA p cfg ryu _ h; exact ⟨w, a, c⟩
  | .bool _, h => by
    simp only [AllOKA] at h; obtain ⟨w, a, _, c⟩ := leaf_rtA p cfg ryu _ h; exact ⟨w, a, c⟩
  | .number _, h => by
    simp only [AllOKA] at h; obtain ⟨w, a, _, c⟩ := leaf_rtA p cfg ryu _ h; exact ⟨w, a, c⟩
  | .char _, h => by
    simp only [AllOKA] at h; obtain ⟨w, a, _, c⟩ := leaf_rtA p cfg ryu _ h; exact ⟨w, a, c⟩
  | .string _, h => by
    simp only [AllOKA] at h; obtain ⟨w, a, _, c⟩ := leaf_rtA p cfg ryu _ h; exact ⟨w, a, c⟩
  | .symbol _, h => by
    simp only [AllOKA] at h; obtain ⟨w, a, _, c⟩ := leaf_rtA p cfg ryu _ h; exact ⟨w, a, c⟩
  | .keyword _, h => by
    simp only [AllOKA] at h; obtain ⟨w, a, _, c⟩ := leaf_rtA p cfg ryu _ h; exact ⟨w, a, c⟩
  | .bytes _, h => by
    simp only [AllOKA] at h; obtain ⟨w, a, _, c⟩ := leaf_rtA p cfg ryu _ h; exact ⟨w, a, c⟩
theorem seq_rtA (p : Print.Options) (cfg : Cfg) (ryu : Nat → List UInt8)
    (hb : p.vector = .brackets → cfg.opts.brackets = .vector) :
    ∀ (first : Bool) (xs : List Value), AllOKASeq p cfg ryu xs →
      ∃ ws, Value.approxEqList (foldList p cfg.opts xs) ws ∧ SeqRTW p cfg ryu first xs ws
  | first, [], _ =>
    ⟨[], by rw [foldList_nil]; simp only [Value.approxEqList], seq_nil_rtW p cfg ryu first⟩
  | first, x :: xs, h => by
    simp only [AllOKASeq] at h
    obtain ⟨x', hx, hX⟩ := value_rtA p cfg ryu hb x h.1
    obtain ⟨ws, hw, hS⟩ := seq_rtA p cfg ryu hb false xs h.2
    refine ⟨x' :: ws, ?_,
      seq_cons_rtA p cfg ryu first x x' xs ws hX (text_headA p cfg ryu x h.1) hS⟩
    rw [foldList_cons]; simp only [Value.approxEqList]; exact ⟨x', ws, rfl, hx, hw⟩
end

/-! ## 2. Atoms of the image -/

/-- (a') a float leaf is finite and ryu's text for it meets `RyuSpec` (`RyuSpecOnly`) -/
def floatSideA (cfg : Cfg) (ryu : Nat → List UInt8) : Value → Prop
  | .number (.flt b) => RyuSpecOnly cfg ryu b
  | _ => True

/-- the position-independent side conditions on an atom: (a') and (d1) of `Image.lean` -/
def AtomSideA (cfg : Cfg) (ryu : Nat → List UInt8) (a : Value) : Prop :=
  Image.kwDotOk cfg.opts a = true ∧ floatSideA cfg ryu a

/-- the conditions of `Image.AtomSideW` for an atom that is not a float -/
theorem sideW_of_A (cfg : Cfg) (ryu : Nat → List UInt8) (a : Value)
    (hnf : ∀ b, a ≠ .number (.flt b)) (hs : AtomSideA cfg ryu a) : Image.AtomSideW cfg ryu a := by
  refine ⟨hs.1, ?_⟩
  cases a with
  | number n =>
    cases n with
    | flt b => exact absurd rfl (hnf b)
    | pos n => exact True.intro
    | neg i => exact True.intro
  | _ => exact True.intro

theorem atomOKA_of_img (cfg : Cfg) (ryu : Nat → List UInt8) (a : Value) (hat : Image.IsAtom a)
    (himg : Image.AtomImg cfg a) (hs : AtomSideA cfg ryu a) :
    AtomOKA (pof cfg.opts) cfg ryu a := by
  by_cases hf : ∃ b, a = .number (.flt b)
  · obtain ⟨b, rfl⟩ := hf
    exact atomOKA_of_W (atomOKW_float (pof cfg.opts) cfg ryu b hs.2)
  · exact atomOKA_of_image (Image.atomOKW_of_img cfg ryu a hat himg
      (sideW_of_A cfg ryu a (fun b hb => hf ⟨b, hb⟩) hs))

/-- the printed text of a car is an `ElemHead` -/
theorem car_headA (cfg : Cfg) (ryu : Nat → List UInt8) (a : Value)
    (himg : Image.AllAtoms (Image.AtomImg cfg) a) (hs : Image.AllAtoms (AtomSideA cfg ryu) a)
    (hdot : ListRT.dotOkP (pof cfg.opts) a = true) :
    ListRT.ElemHead (Print.text (pof cfg.opts) ryu a) := by
  by_cases h1 : a.isCons = true
  · cases a <;> simp [Value.isCons] at h1
    rw [ListRT.textP_cons]
    exact ListRT.head_of_byte _ _ (by decide) (by decide) (by decide) (by decide) (by decide)
  by_cases h2 : a.isVector = true
  · cases a <;> simp [Value.isVector] at h2
    rw [ListRT.textP_vector]
    exact ListRT.vopen_head _ _
  by_cases h3 : a = .null
  · subst h3; rw [ListRT.textP_null]
    exact ListRT.head_of_byte _ _ (by decide) (by decide) (by decide) (by decide) (by decide)
  have hat : Image.IsAtom a := ⟨by simpa using h1, by simpa using h2, h3⟩
  rw [ListRT.textP_atom _ ryu a hat.1 hat.2.1]
  have hsw := Image.AllAtoms.atom hat hs
  by_cases hf : ∃ b, a = .number (.flt b)
  · obtain ⟨b, rfl⟩ := hf
    rw [FullRT.atomTextP_flt]
    exact float_head cfg ryu b hsw.2
  · have hW := sideW_of_A cfg ryu a (fun b hb => hf ⟨b, hb⟩) hsw
    exact (Image.atomOKP_of_img cfg ryu a hat (Image.AllAtoms.atom hat himg)
      ⟨hdot, hW.1, hW.2⟩).2.2.2.1

mutual
theorem allOKA_of (cfg : Cfg) (ryu : Nat → List UInt8) :
    ∀ v : Value, Image.AllAtoms (Image.AtomImg cfg) v → Image.AllAtoms (AtomSideA cfg ryu) v →
      Image.carDotOk (pof cfg.opts) v = true → AllOKA (pof cfg.opts) cfg ryu v
  | .cons a d, hi, hs, hc => by
    simp only [Image.AllAtoms] at hi hs
    simp only [Image.carDotOk, Bool.and_eq_true] at hc
    simp only [AllOKA]
    exact ⟨allOKA_of cfg ryu a hi.1 hs.1 hc.1.2, car_headA cfg ryu a hi.1 hs.1 hc.1.1,
      allOKA_of cfg ryu d hi.2 hs.2 hc.2⟩
  | .vector xs, hi, hs, hc => by
    simp only [Image.AllAtoms] at hi hs
    simp only [Image.carDotOk] at hc
    simp only [AllOKA]
    exact allOKASeq_of cfg ryu xs hi hs hc
  | .null, _, _, _ => by simp only [AllOKA]
  | .nil, hi, hs, _ => by
    simp only [AllOKA]; exact atomOKA_of_img cfg ryu _ ⟨rfl, rfl, by simp⟩ hi hs
  | .bool _, hi, hs, _ => by
    simp only [AllOKA]; exact atomOKA_of_img cfg ryu _ ⟨rfl, rfl, by simp⟩ hi hs
  | .number _, hi, hs, _ => by
    simp only [AllOKA]; exact atomOKA_of_img cfg ryu _ ⟨rfl, rfl, by simp⟩ hi hs
  | .char _, hi, hs, _ => by
    simp only [AllOKA]; exact atomOKA_of_img cfg ryu _ ⟨rfl, rfl, by simp⟩ hi hs
  | .string _, hi, hs, _ => by
    simp only [AllOKA]; exact atomOKA_of_img cfg ryu _ ⟨rfl, rfl, by simp⟩ hi hs
  | .symbol _, hi, hs, _ => by
    simp only [AllOKA]; exact atomOKA_of_img cfg ryu _ ⟨rfl, rfl, by simp⟩ hi hs
  | .keyword _, hi, hs, _ => by
    simp only [AllOKA]; exact atomOKA_of_img cfg ryu _ ⟨rfl, rfl, by simp⟩ hi hs
  | .bytes _, hi, hs, _ => by
    simp only [AllOKA]; exact atomOKA_of_img cfg ryu _ ⟨rfl, rfl, by simp⟩ hi hs
theorem allOKASeq_of (cfg : Cfg) (ryu : Nat → List UInt8) :
    ∀ xs : List Value, Image.AllAtomsSeq (Image.AtomImg cfg) xs →
      Image.AllAtomsSeq (AtomSideA cfg ryu) xs →
      Image.carDotOkSeq (pof cfg.opts) xs = true → AllOKASeq (pof cfg.opts) cfg ryu xs
  | [], _, _, _ => by simp only [AllOKASeq]
  | x :: xs, hi, hs, hc => by
    simp only [Image.AllAtomsSeq] at hi hs
    simp only [Image.carDotOkSeq, Bool.and_eq_true] at hc
    simp only [AllOKASeq]
    exact ⟨allOKA_of cfg ryu x hi.1 hs.1 hc.1, allOKASeq_of cfg ryu xs hi.2 hs.2 hc.2⟩
end

/-! ## 3. The theorems -/

theorem pof_brackets (cfg : Cfg) :
    (pof cfg.opts).vector = .brackets → cfg.opts.brackets = .vector := by
  intro hv
  cases hbr : cfg.opts.brackets
  · simp [pof, hbr] at hv
  · rfl

/-- everything the structural round trip needs, from acceptance and the side conditions -/
theorem accepted_readyA (cfg : Cfg) (ryu : Nat → List UInt8) (bytes : List UInt8) (v : Value)
    (s1 : St) (h : fromTrait cfg (initSt .slice bytes) = .ok v s1)
    (hside : Image.AllAtoms (AtomSideA cfg ryu) v)
    (hdot : Image.carDotOk (pof cfg.opts) v = true)
    (hnest : cfg.opts.nil = .emptyList → ListRT.nestingP (pof cfg.opts) v ≤ 127) :
    AllOKA (pof cfg.opts) cfg ryu v ∧ ListRT.nestingP (pof cfg.opts) v ≤ 127 := by
  obtain ⟨f, s2, hnv⟩ := Image.fromTrait_inv h
  obtain ⟨himg, hnq⟩ := Image.nextValue_img hnv (by simp [initSt]) (by simp [initSt])
  refine ⟨allOKA_of cfg ryu v himg hside hdot, ?_⟩
  by_cases hnil : cfg.opts.nil = .emptyList
  · exact hnest hnil
  · have hc : Image.nullCost cfg.opts = 1 := by simp [Image.nullCost, hnil]
    rw [hc, Image.nq_eq_nestingP (pof cfg.opts) (by simp [pof]) v] at hnq
    simp only [initSt] at hnq
    omega

/-- **C13_reparse_approx.**  `from_slice_custom(bytes, R) = Ok(v)` implies
    `from_slice_custom(to_string_custom(v, pof R), R) = Ok(w)` with `Value.approxEq v w` — the
    same value up to `floatClose` on float leaves (`2^-50` relative, `2^-1073` absolute) — for
    every parser option set `R`, provided
      * every atom of `v` satisfies `AtomSideA`: a float leaf is finite and ryu's text for it
        meets `RyuSpec` (`RyuSpecOnly`; no exactness window), a keyword is not named `.` unless
        `pof R` prints `name:` (d1);
      * `carDotOk` (b) and, only when `R` reads `nil` as `()`, the nesting bound (d2), exactly as
        in `Image.C13_reparse_partial`.
    The whole text is consumed and the recursion budget is back at 128. -/
theorem C13_reparse_approx (cfg : Cfg) (ryu : Nat → List UInt8) (bytes : List UInt8) (v : Value)
    (s1 : St) (h : fromTrait cfg (initSt .slice bytes) = .ok v s1)
    (hside : Image.AllAtoms (AtomSideA cfg ryu) v)
    (hdot : Image.carDotOk (pof cfg.opts) v = true)
    (hnest : cfg.opts.nil = .emptyList → ListRT.nestingP (pof cfg.opts) v ≤ 127) :
    ∃ w s', Value.approxEq v w ∧
      fromTrait cfg (initSt .slice (Print.text (pof cfg.opts) ryu v)) = .ok w s' ∧
      s'.rd.rest = [] ∧ s'.depth = 128 := by
  obtain ⟨hall, hn⟩ := accepted_readyA cfg ryu bytes v s1 h hside hdot hnest
  obtain ⟨w, hw, hrun⟩ := value_rtA (pof cfg.opts) cfg ryu (pof_brackets cfg) v hall
  have hv := hrun (initSt .slice (Print.text (pof cfg.opts) ryu v)) []
    (2 * (initSt .slice (Print.text (pof cfg.opts) ryu v)).rd.rest.length + 4) (Or.inl rfl)
    ⟨rfl, rfl⟩ (by simp [initSt]) (by omega) (by simp [initSt]; omega)
  obtain ⟨s', e, r, _, d⟩ := ListRT.fromTrait_of_nextValue cfg _ _ hv
  rw [Image.fold_pof] at hw
  exact ⟨w, s', hw, e, r, d⟩

/-- **C13_reparse_next_approx.**  The same for a value read by `next_value` in the middle of an
    input: in any non-faulty slice state whose unread input is the printed text followed by a
    token-ending context, with the recursion budget the value was read with, `next_value` returns
    one value `w` with `approxEq v w`. -/
theorem C13_reparse_next_approx (cfg : Cfg) (ryu : Nat → List UInt8) (fuel : Nat) (s0 s1 : St)
    (v : Value) (hm : s0.rd.mode ≠ .str) (hd : 1 ≤ s0.depth)
    (h : nextValue cfg fuel s0 = .ok (some v) s1)
    (hside : Image.AllAtoms (AtomSideA cfg ryu) v)
    (hdot : Image.carDotOk (pof cfg.opts) v = true)
    (hnil : cfg.opts.nil ≠ .emptyList) :
    ∃ w, Value.approxEq v w ∧
      ∀ (s : St) (rest : List UInt8) (fuel' : Nat), Parse.Follow rest →
        s.rd.mode = .slice ∧ s.rd.faulty = false →
        s.rd.rest = Print.text (pof cfg.opts) ryu v ++ rest →
        fuel' ≥ 2 * s.rd.rest.length + 3 → s0.depth ≤ s.depth →
        ∃ s', nextValue cfg fuel' s = .ok (some w) s' ∧ s'.rd.rest = rest ∧
          s'.depth = s.depth := by
  obtain ⟨himg, hnq⟩ := Image.nextValue_img h hm hd
  have hall := allOKA_of cfg ryu v himg hside hdot
  have hc : Image.nullCost cfg.opts = 1 := by simp [Image.nullCost, hnil]
  rw [hc, Image.nq_eq_nestingP (pof cfg.opts) (by simp [pof]) v] at hnq
  obtain ⟨w, hw, hrun⟩ := value_rtA (pof cfg.opts) cfg ryu (pof_brackets cfg) v hall
  rw [Image.fold_pof] at hw
  refine ⟨w, hw, fun s rest fuel' hF hg hr hfu hdep => ?_⟩
  obtain ⟨s', e, r, _, d⟩ := hrun s rest fuel' hF hg hr hfu (by omega)
  exact ⟨s', e, r, d⟩

/-! ## 4. Instances -/

/-- a stand-in for ryu on `1.0999999999999999e24` (what the default build reads for `11e23`),
    its upper neighbour `1.1e24`, and `2.5` -/
def ryuC (b : Nat) : List UInt8 :=
  if b = 0x44ED1DE3D2D5C712 then asc "1.0999999999999999e24"
  else if b = 0x44ED1DE3D2D5C713 then asc "1.1e24"
  else if b = 0x4004000000000000 then asc "2.5"
  else []

/-- **C13_float_cycle** (finding).  In the default build, outside the exactness window,
    parse → print → parse need not reach a fixed point on a float: `11e23` is read as
    `g = 0x44ED1DE3D2D5C712` (the correctly rounded value is `g + 1`); the shortest decimal of `g`,
    `1.0999999999999999e24`, is read as `g + 1`; the shortest decimal of `g + 1`, `1.1e24`, is read
    as `g` again.  Each step is within the accuracy of C05 (one ulp), but the value never
    stabilises; `Image.C13_fixpoint` (which needs `FloatOK`) has no approximate counterpart. -/
theorem C13_float_cycle :
    fastParts pow10Tab ((23 : Int).natAbs / 308 + 2) (F64.ofNat 11) 23 = some 0x44ED1DE3D2D5C712 ∧
    decRn 10999999999999999 8 = 0x44ED1DE3D2D5C712 ∧
    fastParts pow10Tab ((8 : Int).natAbs / 308 + 2) (F64.ofNat 10999999999999999) 8 =
      some 0x44ED1DE3D2D5C713 ∧
    decRn 11 23 = 0x44ED1DE3D2D5C713 := by decide +kernel

theorem ryuC_g : RyuSpecOnly exCfgFast ryuC 0x44ED1DE3D2D5C712 :=
  ⟨by decide, by decide, ⟨false, 10999999999999999, 8, .sci⟩,
    ⟨by decide, by decide, by decide, C13_float_cycle.2.1⟩,
    fun h => ⟨exTab h, by decide +kernel⟩⟩

theorem ryuC_25 : RyuSpecOnly exCfgFast ryuC 0x4004000000000000 :=
  ⟨by decide, by decide, ⟨false, 25, -1, .mid⟩,
    ⟨by decide, by decide, by decide, by decide +kernel⟩, fun h => ⟨exTab h, by decide +kernel⟩⟩

/-- `(a 11e23 . #(2.5))` as the default build reads it -/
def exG : Value :=
  .cons (.symbol (asc "a")) (.cons (.number (.flt 0x44ED1DE3D2D5C712))
    (.vector [.number (.flt 0x4004000000000000)]))

/-- … and as it reads the printed text of that value -/
def exG' : Value :=
  .cons (.symbol (asc "a")) (.cons (.number (.flt 0x44ED1DE3D2D5C713))
    (.vector [.number (.flt 0x4004000000000000)]))

theorem exG_accepted : ∃ s1, fromTrait exCfgFast (initSt .slice (asc "(a 11e23 .  #(2.50))")) =
    .ok exG s1 :=
  shape3_inv (r := fromTrait exCfgFast (initSt .slice (asc "(a 11e23 .  #(2.50))")))
    (n := asc "a") (b := 0x44ED1DE3D2D5C712) (c := 0x4004000000000000) (by decide +kernel)

theorem exG_text : Print.text (pof exCfgFast.opts) ryuC exG =
    asc "(a 1.0999999999999999e24 . #(2.5))" := by decide +kernel

/-- **C13_reparse_approx_strict.**  Non-vacuity of `C13_reparse_approx`, on a case the exact
    theorem cannot cover: the default build accepts `(a 11e23 .  #(2.50))` as `exG`; the text
    `pof` prints for `exG`, `(a 1.0999999999999999e24 . #(2.5))`, is read back as `exG'`, which is
    `approxEq` to `exG` and different from it. -/
theorem C13_reparse_approx_strict :
    ∃ s', fromTrait exCfgFast (initSt .slice (Print.text (pof exCfgFast.opts) ryuC exG)) =
      .ok exG' s' ∧ Value.approxEq exG exG' ∧ exG ≠ exG' := by
  obtain ⟨s1, hacc⟩ := exG_accepted
  obtain ⟨w, s', hw, e, _, _⟩ := C13_reparse_approx exCfgFast ryuC _ exG s1 hacc
    (by simp only [exG, Image.AllAtoms, Image.AllAtomsSeq, AtomSideA, floatSideA, and_true]
        exact ⟨by decide, ⟨by decide, ryuC_g⟩, by decide, ryuC_25⟩)
    (by decide) (fun hn => absurd hn (by decide))
  have hsh : shape3 (fromTrait exCfgFast (initSt .slice (asc "(a 1.0999999999999999e24 . #(2.5))")))
      = some (asc "a", 0x44ED1DE3D2D5C713, 0x4004000000000000) := by decide +kernel
  obtain ⟨s'', e'⟩ := shape3_inv hsh
  rw [exG_text] at e ⊢
  have hww : w = exG' := by
    rw [e] at e'; injection e' with e' _
  subst hww
  refine ⟨s', e, hw, ?_⟩
  intro hne
  simp only [exG, exG'] at hne
  injection hne with _ h2
  injection h2 with h3 _
  injection h3 with h4
  injection h4 with h5
  exact absurd h5 (by decide)

#print axioms value_rtA
#print axioms C13_reparse_approx
#print axioms C13_reparse_next_approx
#print axioms C13_float_cycle
#print axioms C13_reparse_approx_strict

end FloatApprox
end Lexpr
