/-
  ConcatTrivia — C12, concatenation and trivia insensitivity together: the concatenation of
  *trivia variants* of printed values (`TV p ryu v t` of `TriviaRel.lean`: the text of `v` with
  whitespace and comments inserted at its token boundaries), separated by trivia, is read back as
  exactly those values, in order, followed by end of input.

  On top of `trivia_structure` (`TriviaRel.lean`) and the iteration lemmas of `Concat.lean`.
  Since `trivia_structure` asks for a follow context behind every value, a separator may be empty
  here only in front of a text that starts with a byte ending every token (`(`, `[`) — not behind
  a self-closing value as in `Concat.C12_concat`; for plain texts use that theorem.
-/
import LexprModel.Proofs.Concat
import LexprModel.Proofs.Trivia
namespace Lexpr
namespace Parse
namespace Concat
open Print Spec ListRT

/-- `Trivia` of `Concat.lean` and `Triv` of `TriviaBase.lean` are the same predicate -/
theorem triv_iff_trivia (t : List UInt8) : Triv t ↔ Trivia t := by
  constructor
  · intro h
    induction h with
    | nil => exact .nil
    | ws b t hb _ ih => exact .ws b t hb ih
    | comment body t hbody _ ih => exact .comment body t hbody ih
  · intro h
    induction h with
    | nil => exact .nil
    | ws b t hb _ ih => exact .ws b t hb ih
    | comment body t hbody _ ih => exact .comment body t hbody ih

/-- The input: each variant text preceded by its separator; an item is
    (separator, value, variant of the text of the value). -/
def concatTextT : List (List UInt8 × Value × List UInt8) → List UInt8
  | [] => []
  | (sep, _, t) :: xs => sep ++ (t ++ concatTextT xs)

/-- the unread input after each value -/
def restsT (tEnd : List UInt8) : List (List UInt8 × Value × List UInt8) → List (List UInt8)
  | [] => []
  | _ :: xs => (concatTextT xs ++ tEnd) :: restsT tEnd xs

/-- Separators are trivia, texts are trivia variants of the printed values; a separator may be
    empty only at the very beginning (`free`) or in front of a text that starts with a byte
    ending every token. -/
def SepsOKT (p : Print.Options) (ryu : Nat → List UInt8) :
    Bool → List (List UInt8 × Value × List UInt8) → Prop
  | _, [] => True
  | free, (sep, v, t) :: xs =>
    Trivia sep ∧ TV p ryu v t ∧ (free = true ∨ sep ≠ [] ∨ startsFollow t = true) ∧
      SepsOKT p ryu false xs

theorem seps_followT (p : Print.Options) (ryu : Nat → List UInt8) (tEnd : List UInt8)
    (hE : TriviaEnd tEnd) (xs : List (List UInt8 × Value × List UInt8))
    (h : SepsOKT p ryu false xs) : Follow (concatTextT xs ++ tEnd) := by
  cases xs with
  | nil => simpa [concatTextT] using triviaEnd_follow tEnd hE
  | cons it xs =>
    obtain ⟨sep, v, t⟩ := it
    obtain ⟨htr, -, hcond, -⟩ := h
    have hne : sep ≠ [] → Follow (concatTextT ((sep, v, t) :: xs) ++ tEnd) := by
      intro hne
      have := trivia_follow sep (t ++ concatTextT xs ++ tEnd) htr hne
      simpa [concatTextT] using this
    rcases hcond with hfree | h1 | hst
    · exact Bool.noConfusion hfree
    · exact hne h1
    · by_cases h1 : sep = []
      · subst h1
        have := follow_of_startsFollow t (concatTextT xs ++ tEnd) hst
        simpa [concatTextT] using this
      · exact hne h1

/-- one step on a trivia variant (`trivia_structure` for the public `next_value`) -/
theorem value_stepT (p : Print.Options) (cfg : Cfg) (ryu : Nat → List UInt8)
    (hc : Compatible p cfg.opts = true) (v : Value) (h : AllAtomsOKP p cfg ryu v)
    (s : St) (sep t rest : List UInt8) (hg : Good s) (htr : Trivia sep) (ht : TV p ryu v t)
    (hr : s.rd.rest = sep ++ (t ++ rest)) (hf : Follow rest) (hd : nestingP p v + 1 ≤ s.depth) :
    Runs (nextValueTop cfg) s (some (fold p cfg.opts v)) rest := by
  obtain ⟨s', e, r, gm, gf, d⟩ := trivia_structure cfg p ryu hc v h sep t
    ((triv_iff_trivia sep).2 htr) ht s rest (2 * s.rd.rest.length + 4) hf hg.1 hg.2 hr
    (by omega) hd
  exact ⟨s', e, r, ⟨gm, gf⟩, d⟩

def valueItemsT (p : Print.Options) (r : Options) (items : List (List UInt8 × Value × List UInt8)) :
    List Item :=
  items.map fun it => Item.value (fold p r it.2.1)

theorem concat_valuesT (p : Print.Options) (cfg : Cfg) (ryu : Nat → List UInt8)
    (hc : Compatible p cfg.opts = true) (op : Op) (hop : ValueOp op)
    (tEnd : List UInt8) (hE : TriviaEnd tEnd) :
    ∀ (items : List (List UInt8 × Value × List UInt8)) (free : Bool) (s : St), Good s →
      s.rd.rest = concatTextT items ++ tEnd →
      (∀ it ∈ items, AllAtomsOKP p cfg ryu it.2.1 ∧ nestingP p it.2.1 + 1 ≤ s.depth) →
      SepsOKT p ryu free items →
      ∃ sN, Good sN ∧ sN.rd.rest = tEnd ∧ sN.depth = s.depth ∧
        ∀ ops' : List Op,
          runHistory cfg (List.replicate items.length op ++ ops') s =
            valueItemsT p cfg.opts items ++ runHistory cfg ops' sN ∧
          (runStates cfg (List.replicate items.length op ++ ops') s).map obs =
            (restsT tEnd items).map (fun r => (r, s.depth)) ++ (runStates cfg ops' sN).map obs
  | [], _, s, hg, hr, _, _ => by
    refine ⟨s, hg, by simpa [concatTextT] using hr, rfl, ?_⟩
    intro ops'
    simp [valueItemsT, restsT]
  | (sep, v, t) :: xs, free, s, hg, hr, hall, hs => by
    obtain ⟨htr, htv, -, hs'⟩ := hs
    obtain ⟨hv, hdv⟩ := hall (sep, v, t) (by simp)
    have hf := seps_followT p ryu tEnd hE xs hs'
    have hr' : s.rd.rest = sep ++ (t ++ (concatTextT xs ++ tEnd)) := by
      rw [hr]; simp [concatTextT]
    obtain ⟨s1, e1, r1, g1, d1⟩ := value_stepT p cfg ryu hc v hv s sep t _ hg htr htv hr' hf hdv
    have hstep := stepOp_value cfg op hop s s1 _ e1
    obtain ⟨sN, gN, rN, dN, hN⟩ := concat_valuesT p cfg ryu hc op hop tEnd hE xs false s1 g1 r1
      (fun it hit => by rw [d1]; exact hall it (by simp [hit])) hs'
    refine ⟨sN, gN, rN, dN.trans d1, ?_⟩
    intro ops'
    obtain ⟨hH, hS⟩ := hN ops'
    constructor
    · simp only [List.length_cons, List.replicate_succ, List.cons_append, runHistory, hstep, hH]
      simp [valueItemsT]
    · simp only [List.length_cons, List.replicate_succ, List.cons_append, runStates, hstep,
        List.map_cons, hS, restsT, d1]
      simp [obs, r1, d1]

/-- **C12_concat_trivia.**  For every compatible printer / parser option pair, every ryu
    parameter, values plain for the pair with nesting at most 127, and for each value any trivia
    variant of its printed text: a fresh slice parser on
    `sep1 ++ t1 ++ sep2 ++ t2 ++ … ++ tEnd` returns `fold p cfg.opts v1`, …, `fold p cfg.opts vn`
    and then end of input (for each of the three ways of asking for the next value); further calls
    keep reporting the end; the depth budget is 128 after every call and the unread input after
    the `i`-th call is exactly what follows the `i`-th text. -/
theorem C12_concat_trivia (p : Print.Options) (cfg : Cfg) (ryu : Nat → List UInt8)
    (hc : Compatible p cfg.opts = true) (op : Op) (hop : ValueOp op)
    (items : List (List UInt8 × Value × List UInt8)) (tEnd : List UInt8)
    (hall : ∀ it ∈ items, AllPlainFor p cfg it.2.1 ∧ nestingP p it.2.1 ≤ 127)
    (hs : SepsOKT p ryu true items) (hE : TriviaEnd tEnd) :
    let s0 := initSt .slice (concatTextT items ++ tEnd)
    (∀ cap, items.length + 1 ≤ cap →
        iterate cfg op cap s0 = valueItemsT p cfg.opts items ++ [.none_]) ∧
    (∀ k, runHistory cfg (List.replicate (items.length + (k + 1)) op) s0 =
        valueItemsT p cfg.opts items ++ List.replicate (k + 1) .none_) ∧
    (∀ k, (runStates cfg (List.replicate (items.length + (k + 1)) op) s0).map obs =
        (restsT tEnd items).map (fun r => (r, 128)) ++ List.replicate (k + 1) ([], 128)) := by
  intro s0
  obtain ⟨sN, gN, rN, dN, hN⟩ :=
    concat_valuesT p cfg ryu hc op hop tEnd hE items true s0 ⟨rfl, rfl⟩ rfl
      (fun it hit => ⟨allAtomsOKP_of_plain p cfg ryu hc it.2.1 (hall it hit).1, by
        have := (hall it hit).2
        show nestingP p it.2.1 + 1 ≤ 128
        omega⟩) hs
  have hend := fun k => end_history cfg op hop (k + 1) sN gN (by rw [rN]; exact hE)
  have hhist : ∀ k, runHistory cfg (List.replicate (items.length + (k + 1)) op) s0 =
      valueItemsT p cfg.opts items ++ List.replicate (k + 1) .none_ := by
    intro k
    rw [← List.replicate_append_replicate, (hN _).1, (hend k).1]
  refine ⟨?_, hhist, ?_⟩
  · intro cap hcap
    have h0 := hhist 0
    refine iterate_of_runHistory cfg op (valueItemsT p cfg.opts items) s0 cap ?_ ?_ ?_
    · intro it hit
      simp only [valueItemsT, List.mem_map] at hit
      obtain ⟨x, -, rfl⟩ := hit
      simp
    · simpa [valueItemsT] using h0
    · simpa [valueItemsT] using hcap
  · intro k
    rw [← List.replicate_append_replicate, (hN _).2, (hend k).2, dN]
    rfl

/-! ### non-vacuity -/

/-- `(a 1)`, `"s;x"`, `#(#t ())`, `foo` -/
def exVs : List Value :=
  [.cons (.symbol (asc "a")) (.cons (.number (.pos 1)) .null), .string (asc "s;x"),
   .vector [.bool true, .null], .symbol (asc "foo")]

/-- four values with trivia *inside* and between them; the variant texts are written by the
    trivia-inserting printer `textT` of `Trivia.lean` -/
def exT (ryu : Nat → List UInt8) : List (List UInt8 × Value × List UInt8) :=
  [ (asc ";lead\n", .cons (.symbol (asc "a")) (.cons (.number (.pos 1)) .null),
      textT (nthT [asc " ", asc "\t;in\n", asc " "]) Print.Options.default ryu
        (.cons (.symbol (asc "a")) (.cons (.number (.pos 1)) .null))),
    (asc "\x0c", .string (asc "s;x"),
      textT (nthT []) Print.Options.default ryu (.string (asc "s;x"))),
    (asc ";c\n", .vector [.bool true, .null],
      textT (nthT [asc " ", asc "\x0c", asc "", asc " "]) Print.Options.default ryu
        (.vector [.bool true, .null])),
    (asc "  ", .symbol (asc "foo"),
      textT (nthT []) Print.Options.default ryu (.symbol (asc "foo"))) ]

/-- the input: `;lead⏎( a⇥;in⏎1 )␌"s;x";c⏎#( #t␌() )  foo ; end` -/
example (ryu : Nat → List UInt8) :
    concatTextT (exT ryu) ++ asc " ; end" =
      asc ";lead\n( a\t;in\n1 )\x0c\"s;x\";c\n#( #t\x0c() )  foo ; end" := by rfl

theorem exT_seps (ryu : Nat → List UInt8) : SepsOKT Print.Options.default ryu true (exT ryu) :=
  ⟨trivia_of_triviaB _ (by decide), tv_textT _ (nthT_triv _ (by decide)) _ _ _, .inl rfl,
   trivia_of_triviaB _ (by decide), tv_textT _ (nthT_triv _ (by decide)) _ _ _,
     .inr (.inl (by decide)),
   trivia_of_triviaB _ (by decide), tv_textT _ (nthT_triv _ (by decide)) _ _ _,
     .inr (.inl (by decide)),
   trivia_of_triviaB _ (by decide), tv_textT _ (nthT_triv _ (by decide)) _ _ _,
     .inr (.inl (by decide)), trivial⟩

example (ryu : Nat → List UInt8) (op : Op) (hop : ValueOp op) :
    iterate cfg0 op 5 (initSt .slice (concatTextT (exT ryu) ++ asc " ; end")) =
      exVs.map Item.value ++ [.none_] := by
  have h := (C12_concat_trivia Print.Options.default cfg0 ryu (by decide) op hop (exT ryu)
    (asc " ; end") ?_ (exT_seps ryu) (triviaEnd_of_triviaEndB _ (by decide))).1 5 (Nat.le_refl 5)
  · rw [h]
    simp [valueItemsT, exT, exVs, cfg0, C02_fold_default]
  · intro it hit
    simp only [exT, List.mem_cons, List.not_mem_nil, or_false] at hit
    rcases hit with rfl | rfl | rfl | rfl <;>
      refine ⟨?_, by simp [nestingP, nestingTailP, nestingSeqP]⟩ <;>
      simp only [AllPlainFor, AllPlainForSeq, LeafPlainFor, AtomPlainFor, dotOkP] <;> decide

#print axioms C12_concat_trivia

end Concat
end Parse
end Lexpr
