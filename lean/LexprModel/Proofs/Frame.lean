/-
  C08, last clause — the frame theorem for whole inputs, operational form.

  `Spec.exercisedOp cfg mode bytes` is the union of `Spec.tokenOpts` (the declarative per-token
  description) over the tokens that the parser reads under `cfg`; `exValue` / `exList` / `exVector`
  walk along `next_value` / `parse_list` / `parse_vector`.

    `value_frame`    : `next_value`, `parse_list`, `parse_vector` give the same result under two
                       configurations of the same build that agree on the options exercised;
    `C08_frame_op`   : … and so do `from_str` / `from_slice` / `from_reader` (`fromTrait`), for every
                       input, from every source, well-formed or not: same value or same error
                       (code and position), same final reader state;
  Instances at the end: inputs that exercise nothing / two options, and a witness that the
  hypothesis cannot be dropped.
-/
import LexprModel.Proofs.FrameTok
namespace Lexpr
namespace Parse
namespace C08
open Spec

theorem attempt_congr {α : Type} {m1 m2 : P α} {s : St} (h : m1 s = m2 s) :
    attempt m1 s = attempt m2 s := by
  simp only [attempt, h]

theorem parseWhitespace_some {s s0 : St} {pk : UInt8} (h : parseWhitespace s = .ok (some pk) s0) :
    s0.rd.rest.head? = some pk := by
  unfold parseWhitespace at h
  simp only [bind_apply, getRest_eq, consumeN_eq] at h
  obtain ⟨ho, hr, _⟩ := peek_ok h
  rw [hr]
  exact ho.symm

theorem tokenFuel_eq (s : St) : tokenFuel s = .ok (s.rd.rest.length + 1) s := rfl

theorem value_step (c1 c2 : Cfg) (hb : SameBuild c1 c2) (f : Nat)
    (ihV : ∀ s, AgreeOn (exValue c1 f s) c1.opts c2.opts → nextValue c1 f s = nextValue c2 f s)
    (ihL : ∀ term acc s, AgreeOn (exList c1 f acc.isEmpty s) c1.opts c2.opts →
      parseList c1 f term acc s = parseList c2 f term acc s)
    (ihX : ∀ term acc s, AgreeOn (exVector c1 f s) c1.opts c2.opts →
      parseVector c1 f term acc s = parseVector c2 f term acc s)
    (s : St) (ha : AgreeOn (exValue c1 (f + 1) s) c1.opts c2.opts) :
    nextValue c1 (f + 1) s = nextValue c2 (f + 1) s := by
  have hn : NumCfgEq c1 c2 := ⟨hb.fast, hb.pow10⟩
  rw [nextValue, nextValue]
  apply bind_congr_ok
  intro r s0 hw
  cases r with
  | none => rfl
  | some pk =>
    rw [exValue] at ha
    simp only [hw] at ha
    have hpk := parseWhitespace_some hw
    have htok := tokenOpts_frame c1 c2 hb (s0.rd.rest.length + 1) pk s0 hpk ha.left
    have ha2 := ha.right
    simp only [bind_apply, tokenFuel_eq]
    rw [← htok]
    cases ht : parseToken c1 (s0.rd.rest.length + 1) pk s0 with
    | ok tok s1 =>
      rw [ht] at ha2
      simp only
      cases tok with
      | byteVecOpen close => simp only [parseByteList_congr hn]
      | vecOpen close =>
        simp only at ha2 ⊢
        apply bind_congr_ok
        intro u s2 he
        cases u
        rw [he] at ha2
        simp only at ha2
        simp only [bind_apply]
        rw [attempt_congr (ihX close [] s2 ha2)]
      | listOpen close =>
        simp only at ha2 ⊢
        apply bind_congr_ok
        intro u s2 he
        cases u
        rw [he] at ha2
        simp only at ha2
        simp only [bind_apply]
        rw [attempt_congr (ihL close [] s2 ha2)]
      | quotation q =>
        simp only at ha2 ⊢
        apply bind_congr_ok
        intro u s2 he
        cases u
        rw [he] at ha2
        simp only at ha2
        simp only [bind_apply]
        rw [attempt_congr (ihV s2 ha2)]
      | null => rfl
      | nil => rfl
      | bool b => rfl
      | char c => rfl
      | number n => rfl
      | symbol x => rfl
      | keyword x => rfl
      | string x => rfl
      | bytes x => rfl
    | err e s1 => rfl
    | panic p => rfl
    | fuel => rfl

theorem list_step (c1 c2 : Cfg) (f : Nat)
    (ihV : ∀ s, AgreeOn (exValue c1 f s) c1.opts c2.opts → nextValue c1 f s = nextValue c2 f s)
    (ihL : ∀ term acc s, AgreeOn (exList c1 f acc.isEmpty s) c1.opts c2.opts →
      parseList c1 f term acc s = parseList c2 f term acc s)
    (term : UInt8) (acc : List Value) (s : St)
    (ha : AgreeOn (exList c1 (f + 1) acc.isEmpty s) c1.opts c2.opts) :
    parseList c1 (f + 1) term acc s = parseList c2 (f + 1) term acc s := by
  rw [parseList, parseList]
  apply bind_congr_ok
  intro r s0 hw
  cases r with
  | none => rfl
  | some c =>
    rw [exList] at ha
    simp only [hw] at ha
    simp only
    by_cases hc : (c == 41 || c == 93) = true
    · simp only [hc, ↓reduceIte]
    · rw [if_neg hc] at ha
      simp only [hc, Bool.false_eq_true, ↓reduceIte]
      by_cases hdot : (c == 46) = true
      · rw [if_pos hdot] at ha
        simp only [hdot, ↓reduceIte]
        apply bind_congr_ok
        intro u s1 hd
        apply bind_congr_ok
        intro nxt s2 hp
        have hdp : (discard >>= fun _ => peekOrNull) s0 = .ok nxt s2 := by
          simp only [bind_apply, hd, hp]
        rw [hdp] at ha
        simp only at ha
        by_cases hdel : (nxt == 0 || isDelimiter nxt) = true
        · rw [if_pos hdel] at ha
          simp only [hdel, ↓reduceIte]
          by_cases hemp : acc.isEmpty = true
          · simp only [hemp, ↓reduceIte]
          · have hemp' : acc.isEmpty = false := by simpa using hemp
            rw [hemp'] at ha
            simp only [Bool.false_eq_true, ↓reduceIte] at ha
            simp only [hemp', Bool.false_eq_true, ↓reduceIte, bind_apply]
            rw [ihV s2 ha]
        · rw [if_neg hdel] at ha
          simp only [hdel, Bool.false_eq_true, ↓reduceIte]
          apply bind_congr_ok
          intro name s3 hnm
          rw [hnm] at ha
          simp only at ha
          rw [symbolValue_frame c1.opts c2.opts name ha.left]
          have hne : (acc ++ [symbolValue c2.opts name]).isEmpty = false := by simp
          exact ihL term _ s3 (by rw [hne]; exact ha.right)
      · rw [if_neg hdot] at ha
        simp only [hdot, Bool.false_eq_true, ↓reduceIte]
        simp only [bind_apply]
        rw [← ihV s0 ha.left]
        have ha2 := ha.right
        cases hv : nextValue c1 f s0 with
        | ok v s1 =>
          rw [hv] at ha2
          cases v with
          | none => rfl
          | some v =>
            have hne : (acc ++ [v]).isEmpty = false := by simp
            exact ihL term _ s1 (by rw [hne]; exact ha2)
        | err e s1 => rfl
        | panic p => rfl
        | fuel => rfl

theorem vector_step (c1 c2 : Cfg) (f : Nat)
    (ihV : ∀ s, AgreeOn (exValue c1 f s) c1.opts c2.opts → nextValue c1 f s = nextValue c2 f s)
    (ihX : ∀ term acc s, AgreeOn (exVector c1 f s) c1.opts c2.opts →
      parseVector c1 f term acc s = parseVector c2 f term acc s)
    (term : UInt8) (acc : List Value) (s : St)
    (ha : AgreeOn (exVector c1 (f + 1) s) c1.opts c2.opts) :
    parseVector c1 (f + 1) term acc s = parseVector c2 (f + 1) term acc s := by
  rw [parseVector, parseVector]
  apply bind_congr_ok
  intro r s0 hw
  cases r with
  | none => rfl
  | some c =>
    rw [exVector] at ha
    simp only [hw] at ha
    simp only
    by_cases hc : (c == 41 || c == 93) = true
    · simp only [hc, ↓reduceIte]
    · rw [if_neg hc] at ha
      simp only [hc, Bool.false_eq_true, ↓reduceIte]
      simp only [bind_apply]
      rw [← ihV s0 ha.left]
      have ha2 := ha.right
      cases hv : nextValue c1 f s0 with
      | ok v s1 =>
        rw [hv] at ha2
        cases v with
        | none => rfl
        | some v => exact ihX term _ s1 ha2
      | err e s1 => rfl
      | panic p => rfl
      | fuel => rfl


/-- the three mutually recursive parsers, under two configurations that agree on the options
    exercised -/
theorem value_frame (c1 c2 : Cfg) (hb : SameBuild c1 c2) : ∀ f : Nat,
    (∀ s, AgreeOn (exValue c1 f s) c1.opts c2.opts → nextValue c1 f s = nextValue c2 f s) ∧
    (∀ term acc s, AgreeOn (exList c1 f acc.isEmpty s) c1.opts c2.opts →
      parseList c1 f term acc s = parseList c2 f term acc s) ∧
    (∀ term acc s, AgreeOn (exVector c1 f s) c1.opts c2.opts →
      parseVector c1 f term acc s = parseVector c2 f term acc s) := by
  intro f
  induction f with
  | zero =>
    refine ⟨?_, ?_, ?_⟩
    · intro s _; rw [nextValue, nextValue]
    · intro term acc s _; rw [parseList, parseList]
    · intro term acc s _; rw [parseVector, parseVector]
  | succ f ih =>
    obtain ⟨ihV, ihL, ihX⟩ := ih
    exact ⟨value_step c1 c2 hb f ihV ihL ihX, list_step c1 c2 f ihV ihL,
      vector_step c1 c2 f ihV ihX⟩

end C08

open C08 Spec

/-- `next_value` (the parser's own entry point, with the fuel the API functions pass) -/
theorem C08_frame_nextValue (c1 c2 : Cfg) (hb : SameBuild c1 c2) (f : Nat) (s : St)
    (ha : AgreeOn (exValue c1 f s) c1.opts c2.opts) : nextValue c1 f s = nextValue c2 f s :=
  (value_frame c1 c2 hb f).1 s ha

/-- `from_trait` from any reader state -/
theorem frame_fromTrait (c1 c2 : Cfg) (hb : SameBuild c1 c2) (s : St)
    (ha : AgreeOn (exValue c1 (2 * s.rd.rest.length + 4) s) c1.opts c2.opts) :
    fromTrait c1 s = fromTrait c2 s := by
  have h : nextValueTop c1 s = nextValueTop c2 s := by
    simp only [nextValueTop, bind_apply, apiFuel]
    exact (value_frame c1 c2 hb _).1 s ha
  simp only [fromTrait, expectValue, bind_apply, h]

/-- **C08_frame (operational form)** — "two option sets that differ only in options an input
    does not exercise give identical results for it": for every input `bytes`, from every source,
    if the two configurations are of the same build and agree on every option exercised by the
    tokens that the parser reads under the first of them (`Spec.exercisedOp`: the union of the
    declarative per-token sets `Spec.tokenOpts`), then `from_str` / `from_slice` / `from_reader`
    return the same outcome under both: the same value, or the same error code at the same
    position, and the same final reader state. -/
theorem C08_frame_op (c1 c2 : Cfg) (hb : SameBuild c1 c2) (mode : Mode) (bytes : List UInt8)
    (ha : AgreeOn (exercisedOp c1 mode bytes) c1.opts c2.opts) :
    fromTrait c1 (initSt mode bytes) = fromTrait c2 (initSt mode bytes) :=
  frame_fromTrait c1 c2 hb (initSt mode bytes) ha

/-! ### instances -/

/-- `(a (b . c) 'd)` exercises no option: the Emacs Lisp options read it exactly as the default
    options do -/
example : exercisedOp (cfgOf Options.default) .slice (asc "(a (b . c) 'd)") = [] := by decide +kernel

example : fromTrait (cfgOf Options.default) (initSt .slice (asc "(a (b . c) 'd)")) =
    fromTrait (cfgOf Options.elisp) (initSt .slice (asc "(a (b . c) 'd)")) :=
  C08_frame_op (cfgOf Options.default) (cfgOf Options.elisp) ⟨rfl, rfl, rfl⟩ .slice _ (by decide +kernel)

/-- `(foo: nil [x])` exercises `kwPostfix`, `nil` and `brackets`; two option sets that agree on
    these three and differ in six others read it alike -/
example : exercisedOp (cfgOf Options.default) .slice (asc "(foo: nil [x])") =
    [.kwPostfix, .nil, .brackets] := by decide +kernel

def altOpts : Options :=
  { Options.default with kwPrefix := true, kwOctothorpe := false, string := .elisp, char := .elisp,
                         racket := true, leadingDigit := true }

example : fromTrait (cfgOf Options.default) (initSt .slice (asc "(foo: nil [x])")) =
    fromTrait (cfgOf altOpts) (initSt .slice (asc "(foo: nil [x])")) :=
  C08_frame_op (cfgOf Options.default) (cfgOf altOpts) ⟨rfl, rfl, rfl⟩ .slice _ (by decide +kernel)

/-- the hypothesis is needed: `nil` exercises the nil option, and the default and Emacs Lisp
    options (which differ in it) read `nil` differently -/
example : exercisedOp (cfgOf Options.default) .slice (asc "nil") = [.nil] ∧
    (match fromTrait (cfgOf Options.default) (initSt .slice (asc "nil")) with
      | .ok v _ => v.beq (.symbol (asc "nil")) | _ => false) = true ∧
    (match fromTrait (cfgOf Options.elisp) (initSt .slice (asc "nil")) with
      | .ok v _ => v.beq .null | _ => false) = true := by decide +kernel

/-- an erroneous input: `(a #:b` under `Options::new()` and the Emacs Lisp options (both without
    octothorpe keywords) fails in the same way -/
example : exercisedOp (cfgOf Options.new) .slice (asc "(a #:b") = [.kwOctothorpe] := by decide +kernel

example : fromTrait (cfgOf Options.new) (initSt .slice (asc "(a #:b")) =
    fromTrait (cfgOf Options.elisp) (initSt .slice (asc "(a #:b")) :=
  C08_frame_op (cfgOf Options.new) (cfgOf Options.elisp) ⟨rfl, rfl, rfl⟩ .slice _ (by decide +kernel)

end Parse
end Lexpr

#print axioms Lexpr.Parse.C08.value_frame
#print axioms Lexpr.Parse.C08_frame_op
