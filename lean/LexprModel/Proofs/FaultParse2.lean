/-
  C06, read faults on the stream source — part 2: the parser proper (`next_value`, `next_datum`,
  lists, vectors, the public entry points) and call histories.
-/
import LexprModel.Proofs.FaultParse
namespace Lexpr
namespace Parse

/-! ## the dead parser: after the fault every read reports the fault again -/

theorem parseWhitespace_dead {t : St} (h : FDead t) :
    ∃ t', parseWhitespace t = .err .io t' ∧ FDead t' := by
  refine ⟨{ t with rd := t.rd.consume (wsLen t.rd.rest) }, ?_, dead_consume h.2 _ (by simp [h.1])⟩
  unfold parseWhitespace
  simp only [P.run_bind, getRest, consumeN]
  exact peek_io_of_all h.2 _ (by simp [h.1])

theorem endSeq_dead (close : UInt8) {t : St} (h : FDead t) :
    ∃ t', endSeq close t = .err .io t' ∧ FDead t' := by
  obtain ⟨t', h1, h2⟩ := parseWhitespace_dead h
  refine ⟨t', ?_, h2⟩
  unfold endSeq
  simp only [P.run_bind, h1]

theorem expectEnd_dead {t : St} (h : FDead t) : ∃ t', expectEnd t = .err .io t' ∧ FDead t' := by
  obtain ⟨t', h1, h2⟩ := parseWhitespace_dead h
  refine ⟨t', ?_, h2⟩
  unfold expectEnd
  simp only [P.run_bind, h1]

theorem nextValue_dead (cfg : Cfg) (f : Nat) {t : St} (h : FDead t) :
    ∃ t', nextValue cfg (f + 1) t = .err .io t' ∧ FDead t' := by
  obtain ⟨t', h1, h2⟩ := parseWhitespace_dead h
  refine ⟨t', ?_, h2⟩
  unfold nextValue
  simp only [P.run_bind, h1]

theorem nextDatum_dead (cfg : Cfg) (f : Nat) {t : St} (h : FDead t) :
    ∃ t', nextDatum cfg (f + 1) t = .err .io t' ∧ FDead t' := by
  obtain ⟨t', h1, h2⟩ := parseWhitespace_dead h
  refine ⟨t', ?_, h2⟩
  unfold nextDatum
  simp only [P.run_bind, h1]

theorem nextValueTop_dead (cfg : Cfg) {t : St} (h : FDead t) :
    ∃ t', nextValueTop cfg t = .err .io t' ∧ FDead t' := by
  rw [Progress.nextValueTop_eq]
  exact nextValue_dead cfg _ h

theorem nextDatumTop_dead (cfg : Cfg) {t : St} (h : FDead t) :
    ∃ t', nextDatumTop cfg t = .err .io t' ∧ FDead t' := by
  rw [Progress.nextDatumTop_eq]
  exact nextDatum_dead cfg _ h

theorem expectValue_dead (cfg : Cfg) {t : St} (h : FDead t) :
    ∃ t', expectValue cfg t = .err .io t' ∧ FDead t' := by
  obtain ⟨t', h1, h2⟩ := nextValueTop_dead cfg h
  refine ⟨t', ?_, h2⟩
  unfold expectValue
  simp only [P.run_bind, h1]

theorem expectDatum_dead (cfg : Cfg) {t : St} (h : FDead t) :
    ∃ t', expectDatum cfg t = .err .io t' ∧ FDead t' := by
  obtain ⟨t', h1, h2⟩ := nextDatumTop_dead cfg h
  refine ⟨t', ?_, h2⟩
  unfold expectDatum
  simp only [P.run_bind, h1]

/-- `parse_whitespace` returns a byte that is still unread, or end of input, or an error -/
theorem parseWhitespace_cases_fp (s : St) :
    (∃ b s', parseWhitespace s = .ok (some b) s' ∧ s'.rd.rest ≠ []) ∨
    (∃ s', parseWhitespace s = .ok none s') ∨ (∃ e s', parseWhitespace s = .err e s') := by
  unfold parseWhitespace
  simp only [P.run_bind, getRest, consumeN]
  generalize ({ s with rd := s.rd.consume (wsLen s.rd.rest) } : St) = s1
  unfold peek
  cases hr : s1.rd.rest with
  | nil =>
    simp only
    by_cases hf : s1.rd.faulty = true
    · simp only [hf, if_true]; exact .inr (.inr ⟨_, _, rfl⟩)
    · simp only [hf]; exact .inr (.inl ⟨_, rfl⟩)
  | cons b bs => exact .inl ⟨_, _, rfl, by simp [hr]⟩

/-- `end_seq` neither panics nor needs fuel -/
theorem endSeq_total_fp (close : UInt8) (s : St) : ∃ r s', attempt (endSeq close) s = .ok r s' := by
  unfold attempt endSeq
  simp only [P.run_bind]
  rcases parseWhitespace_cases_fp s with ⟨b, s', h, hne⟩ | ⟨s', h⟩ | ⟨e, s', h⟩
  · simp only [h]
    by_cases hb : (b == close) = true
    · simp only [hb, if_true, discard]
      cases hr : s'.rd.rest with
      | nil => exact absurd hr hne
      | cons c cs => exact ⟨_, _, rfl⟩
    · simp only [hb]; exact ⟨_, _, rfl⟩
  · simp only [h]; exact ⟨_, _, rfl⟩
  · simp only [h]; exact ⟨_, _, rfl⟩

section
variable {tail : List UInt8} {α β : Type}

theorem RestNonInc.attempt {m : P α} (hm : RestNonInc m) : RestNonInc (attempt m) := by
  intro s s' he
  unfold Parse.attempt at he
  cases hms : m s with
  | ok a s1 =>
    rw [hms] at he
    rcases he with ⟨a', h⟩ | ⟨e', h⟩ <;> cases h
    exact hm s _ (.inl ⟨_, hms⟩)
  | err e s1 =>
    rw [hms] at he
    rcases he with ⟨a', h⟩ | ⟨e', h⟩ <;> cases h
    exact hm s _ (.inr ⟨_, hms⟩)
  | panic p => rw [hms] at he; rcases he with ⟨a', h⟩ | ⟨e', h⟩ <;> cases h
  | fuel => rw [hms] at he; rcases he with ⟨a', h⟩ | ⟨e', h⟩ <;> cases h

theorem RestNonInc.liftExcept (x : Except Err α) : RestNonInc (liftExcept x) :=
  .of_sim PrefixDet.Sim.liftExcept

theorem RestNonInc.endSeq (close : UInt8) : RestNonInc (endSeq close) := .of_sim PrefixDet.endSeq_s
theorem RestNonInc.leave : RestNonInc leave := .of_sim PrefixDet.leave_s
theorem RestNonInc.enter : RestNonInc enter := .of_sim PrefixDet.enter_s

/-- the fault-free side of a block whose body has read beyond the cut -/
theorem FBeyond.attempt_bind {body : P α} {f : Except Err α → P β} {s : St}
    (hb : FBeyond tail (body s)) (hf : ∀ r, RestNonInc (f r)) :
    FBeyond tail (P.bind (attempt body) f s) := by
  intro s' he
  unfold P.bind Parse.attempt at he
  cases hbs : body s with
  | ok a s1 => rw [hbs] at he; exact Nat.le_trans (hf _ s1 s' he) (hb s1 (.inl ⟨a, hbs⟩))
  | err e s1 => rw [hbs] at he; exact Nat.le_trans (hf _ s1 s' he) (hb s1 (.inr ⟨e, hbs⟩))
  | panic p => rw [hbs] at he; rcases he with ⟨a', h⟩ | ⟨e', h⟩ <;> cases h
  | fuel => rw [hbs] at he; rcases he with ⟨a', h⟩ | ⟨e', h⟩ <;> cases h

/-- `attempt (end_seq close)` on related states, or on a dead faulty parser: (i) the faulty run
    hits the fault, (ii) both close the sequence, (iii) both fail with the same error. -/
theorem attempt_endSeq_rel (close : UInt8) {s t : St}
    (h : FSim tail s t ∨ (FDead t ∧ s.rd.rest.length ≤ tail.length)) :
    ∃ r₁ s' r₂ t', attempt (endSeq close) s = .ok r₁ s' ∧ attempt (endSeq close) t = .ok r₂ t' ∧
      ((r₂ = .error .io ∧ FDead t' ∧ s'.rd.rest.length ≤ tail.length) ∨
       (r₁ = .ok () ∧ r₂ = .ok () ∧ FSim tail s' t') ∨
       (∃ e, r₁ = .error e ∧ r₂ = .error e ∧
         (FSim tail s' t' ∨ (FDead t' ∧ s'.rd.rest.length ≤ tail.length)))) := by
  obtain ⟨r₁, s', h1⟩ := endSeq_total_fp close s
  obtain ⟨r₂, t', h2⟩ := endSeq_total_fp close t
  refine ⟨r₁, s', r₂, t', h1, h2, ?_⟩
  have hlen : s'.rd.rest.length ≤ s.rd.rest.length :=
    (RestNonInc.endSeq close).attempt s s' (.inl ⟨_, h1⟩)
  rcases h with h | ⟨h, hl⟩
  · have hg := (GRel.endSeq (tail := tail) close).app s t h
    unfold attempt at h1 h2
    rcases hg with hfu | ⟨t'', ht, hd, hb⟩ | hc
    · rw [hfu] at h2; cases h2
    · rw [ht] at h2; cases h2
      refine .inl ⟨rfl, hd, ?_⟩
      revert h1 hb
      cases endSeq close s <;> intro h1 hb <;> simp only at h1 <;> cases h1
      · exact hb _ (.inl ⟨_, rfl⟩)
      · exact hb _ (.inr ⟨_, rfl⟩)
    · revert h1 h2 hc
      cases endSeq close s <;> cases endSeq close t <;> intro h1 h2 hc <;> simp only at hc h1 h2 <;>
        cases h1 <;> cases h2
      · exact .inr (.inl ⟨rfl, rfl, hc.2⟩)
      · exact .inr (.inr ⟨_, rfl, by rw [hc.1], hc.2⟩)
  · obtain ⟨t'', ht, hd⟩ := endSeq_dead close h
    unfold attempt at h2
    rw [ht] at h2; cases h2
    exact .inl ⟨rfl, hd, Nat.le_trans hlen hl⟩

/-- what follows `attempt body` in the list / vector arms of `next_value`, as a function of the
    captured result -/
def blockTail (close : UInt8) (K : Except Err α → Except Err Unit → P β) (ret : Except Err α) :
    P β :=
  leave >>= fun _ => attempt (endSeq close) >>= fun es => K ret es

theorem blockTail_eq (close : UInt8) (K : Except Err α → Except Err Unit → P β)
    (ret : Except Err α) (s : St) :
    blockTail close K ret s =
      match attempt (endSeq close) { s with depth := s.depth + 1 } with
      | .ok es s' => K ret es s'
      | .err e s' => .err e s'
      | .panic p => .panic p
      | .fuel => .fuel := by
  unfold blockTail
  simp only [P.run_bind, leave]
  generalize attempt (endSeq close) _ = r
  cases r <;> rfl

/-- the continuation of a block only consumes -/
theorem RestNonInc.blockK {K : Except Err α → Except Err Unit → P β}
    (hK1 : ∀ e es, K (.error e) es = Parse.liftExcept (.error e))
    (hK2 : ∀ x e, K (.ok x) (.error e) = Parse.liftExcept (.error e))
    (hK3 : ∀ x, GRel tail (K (.ok x) (.ok ())) (K (.ok x) (.ok ()))) :
    ∀ ret es, RestNonInc (K ret es)
  | .error e, es => by rw [hK1]; exact .liftExcept _
  | .ok x, .error e => by rw [hK2]; exact .liftExcept _
  | .ok x, .ok () => (hK3 x).mono

theorem RestNonInc.blockTail {close : UInt8} {K : Except Err α → Except Err Unit → P β}
    (hK : ∀ ret es, RestNonInc (K ret es)) (ret : Except Err α) : RestNonInc (blockTail close K ret) :=
  RestNonInc.leave.bind fun _ => (RestNonInc.endSeq close).attempt.bind fun es => hK ret es

theorem blockTail_ok {close : UInt8} {K : Except Err α → Except Err Unit → P β}
    (hK : ∀ ret es, RestNonInc (K ret es))
    (hK2 : ∀ x e, K (.ok x) (.error e) = liftExcept (.error e))
    (hK3 : ∀ x, GRel tail (K (.ok x) (.ok ())) (K (.ok x) (.ok ())))
    (x : α) {s t : St} (h : FSim tail s t) :
    GRes tail (blockTail close K (.ok x) s) (blockTail close K (.ok x) t) := by
  rw [blockTail_eq, blockTail_eq]
  obtain ⟨r₁, s', r₂, t', h1, h2, hc⟩ :=
    attempt_endSeq_rel (tail := tail) close (.inl (h.setDepth (t.depth + 1)))
  rw [← h.depth] at h1
  rw [h1, h2]
  rcases hc with ⟨rfl, hd, hl⟩ | ⟨rfl, rfl, hs⟩ | ⟨e, rfl, rfl, hs⟩
  · simp only [hK2]; exact .inr (.inl ⟨t', rfl, hd, FBeyond.of_nonInc (hK _ _) hl⟩)
  · exact (hK3 x).app _ _ hs
  · simp only [hK2]; exact .inr (.inr ⟨rfl, hs⟩)

theorem blockTail_err {close : UInt8} {K : Except Err α → Except Err Unit → P β}
    (hK1 : ∀ e es, K (.error e) es = liftExcept (.error e))
    (e : Err) {s t : St} (h : FSim tail s t ∨ (FDead t ∧ s.rd.rest.length ≤ tail.length)) :
    GRes tail (blockTail close K (.error e) s) (blockTail close K (.error e) t) := by
  rw [blockTail_eq, blockTail_eq]
  have h' : FSim tail { s with depth := s.depth + 1 } { t with depth := t.depth + 1 } ∨
      (FDead { t with depth := t.depth + 1 } ∧
        ({ s with depth := s.depth + 1 } : St).rd.rest.length ≤ tail.length) := by
    rcases h with h | h
    · have := h.setDepth (tail := tail) (t.depth + 1)
      rw [h.depth]
      exact .inl this
    · exact .inr h
  obtain ⟨r₁, s', r₂, t', h1, h2, hc⟩ := attempt_endSeq_rel (tail := tail) close h'
  rw [h1, h2]
  simp only [hK1]
  refine .inr (.inr ⟨rfl, ?_⟩)
  rcases hc with ⟨_, hd, hl⟩ | ⟨_, _, hs⟩ | ⟨_, _, _, hs⟩
  · exact .inr ⟨hd, hl⟩
  · exact .inl hs
  · exact hs

theorem blockTail_io {close : UInt8} {K : Except Err α → Except Err Unit → P β}
    (hK1 : ∀ e es, K (.error e) es = liftExcept (.error e)) {t : St} (h : FDead t) :
    ∃ t', blockTail close K (.error .io) t = .err .io t' ∧ FDead t' := by
  rw [blockTail_eq]
  obtain ⟨t', ht, hd⟩ := endSeq_dead close (t := { t with depth := t.depth + 1 }) h
  refine ⟨t', ?_, hd⟩
  unfold attempt
  rw [ht]
  simp only [hK1]
  rfl

/-- the block `enter; ret ← attempt body; leave; es ← attempt (end_seq close); match ret, es`
    of the list and vector arms of `next_value` / `next_datum` -/
theorem GRel.attemptBlock {body₁ body₂ : P α} {K : Except Err α → Except Err Unit → P β}
    (close : UInt8) (hb : GRel tail body₁ body₂)
    (hK1 : ∀ e es, K (.error e) es = liftExcept (.error e))
    (hK2 : ∀ x e, K (.ok x) (.error e) = liftExcept (.error e))
    (hK3 : ∀ x, GRel tail (K (.ok x) (.ok ())) (K (.ok x) (.ok ()))) :
    GRel tail
      (Parse.enter >>= fun _ => attempt body₁ >>= fun ret => Parse.leave >>= fun _ =>
        attempt (Parse.endSeq close) >>= fun es => K ret es)
      (Parse.enter >>= fun _ => attempt body₂ >>= fun ret => Parse.leave >>= fun _ =>
        attempt (Parse.endSeq close) >>= fun es => K ret es) := by
  have hK := RestNonInc.blockK hK1 hK2 hK3
  refine GRel.bind GRel.enter fun _ => ⟨?_, hb.mono.attempt.bind (RestNonInc.blockTail hK)⟩
  intro s t h
  show GRes tail (P.bind (attempt body₁) (blockTail close K) s)
    (P.bind (attempt body₂) (blockTail close K) t)
  have hbs := hb.app s t h
  rcases hbs with hfu | ⟨t', ht, hd, hbe⟩ | hc
  · unfold P.bind attempt; rw [hfu]; exact .inl rfl
  · have hbe' := hbe.attempt_bind (RestNonInc.blockTail (close := close) hK)
    obtain ⟨t'', h1, h2⟩ := blockTail_io (close := close) hK1 hd
    refine .inr (.inl ⟨t'', ?_, h2, hbe'⟩)
    unfold P.bind attempt; rw [ht]; exact h1
  · unfold P.bind attempt
    revert hc
    cases body₁ s <;> cases body₂ t <;> intro hc <;> simp only at hc
    all_goals first | exact hc.elim | exact .inr (.inr hc) | skip
    · obtain ⟨rfl, hs⟩ := hc
      exact blockTail_ok hK hK2 hK3 _ hs
    · obtain ⟨rfl, hs⟩ := hc
      exact blockTail_err hK1 _ hs

/-- the block `enter; ret ← attempt body; leave; match ret` of the quotation arm -/
theorem GRel.attemptLeave {body₁ body₂ : P α} {K : Except Err α → P β}
    (hb : GRel tail body₁ body₂)
    (hK1 : ∀ e, K (.error e) = liftExcept (.error e))
    (hK2 : ∀ x, GRel tail (K (.ok x)) (K (.ok x))) :
    GRel tail
      (Parse.enter >>= fun _ => attempt body₁ >>= fun ret => Parse.leave >>= fun _ => K ret)
      (Parse.enter >>= fun _ => attempt body₂ >>= fun ret => Parse.leave >>= fun _ => K ret) := by
  have hK : ∀ ret, RestNonInc (K ret)
    | .error e => by rw [hK1]; exact .liftExcept _
    | .ok x => (hK2 x).mono
  have hT : ∀ ret, RestNonInc (Parse.leave >>= fun _ => K ret) := fun ret => RestNonInc.leave.bind fun _ => hK ret
  refine GRel.bind GRel.enter fun _ => ⟨?_, hb.mono.attempt.bind hT⟩
  intro s t h
  show GRes tail (P.bind (attempt body₁) (fun ret => P.bind Parse.leave (fun _ => K ret)) s)
    (P.bind (attempt body₂) (fun ret => P.bind Parse.leave (fun _ => K ret)) t)
  have hbs := hb.app s t h
  rcases hbs with hfu | ⟨t', ht, hd, hbe⟩ | hc
  · unfold P.bind attempt; rw [hfu]; exact .inl rfl
  · have hbe' := hbe.attempt_bind hT
    refine .inr (.inl ⟨{ t' with depth := t'.depth + 1 }, ?_, hd, hbe'⟩)
    unfold P.bind attempt Parse.leave; rw [ht]
    simp only [hK1]
    rfl
  · unfold P.bind attempt Parse.leave
    revert hc
    cases body₁ s <;> cases body₂ t <;> intro hc <;> simp only at hc
    all_goals first | exact hc.elim | exact .inr (.inr hc) | skip
    · obtain ⟨rfl, hs⟩ := hc
      simp only
      refine (hK2 _).app _ _ ?_
      rw [hs.depth]
      exact hs.setDepth _
    · obtain ⟨rfl, hs⟩ := hc
      simp only [hK1]
      refine .inr (.inr ⟨rfl, ?_⟩)
      rcases hs with hs | hs
      · left; rw [hs.depth]; exact hs.setDepth _
      · right; exact hs

end

theorem GRel.liftExcept {tail : List UInt8} {α : Type} (x : Except Err α) :
    GRel tail (liftExcept x) (Parse.liftExcept x) := by
  cases x with
  | ok a => exact GRel.pure a
  | error e => exact ⟨fun s t h => .inr (.inr ⟨rfl, .inl h⟩), .liftExcept _⟩
macro_rules | `(tactic| gsim_lemma) => `(tactic| with_reducible exact GRel.liftExcept _)

/-! ## `next_value`, `parse_list`, `parse_vector` -/

theorem GRel.value_all {tail : List UInt8} (cfg : Cfg) : ∀ f' f : Nat, f' ≤ f →
    GRel tail (nextValue cfg f) (nextValue cfg f') ∧
    (∀ term acc, GRel tail (parseList cfg f term acc) (parseList cfg f' term acc)) ∧
    (∀ term acc, GRel tail (parseVector cfg f term acc) (parseVector cfg f' term acc)) := by
  intro f'
  induction f' with
  | zero =>
    intro f _
    have hs := PrefixDet.value_ss cfg f f (Nat.le_refl f)
    exact ⟨GRel.fuel0 (.of_sim hs.1), fun _ _ => GRel.fuel0 (.of_sim (hs.2.1 _ _)),
      fun _ _ => GRel.fuel0 (.of_sim (hs.2.2 _ _))⟩
  | succ f' ih =>
    intro f h
    obtain ⟨g, rfl⟩ : ∃ g, f = g + 1 := ⟨f - 1, by omega⟩
    obtain ⟨ihV, ihL, ihVec⟩ := ih g (by omega)
    refine ⟨?_, ?_, ?_⟩
    · unfold nextValue
      refine GRel.parseWhitespace_bind (fun pk => ?_) RestNonInc.pure
      dsimp only
      apply GRelNE.bind_tokenFuel; intro n n' hn
      apply GRelNE.bind (GRelNE.parseToken cfg hn pk); intro tok
      split
      · gsim
      · exact GRel.attemptBlock _ (ihVec _ _) (by intros; rfl) (by intros; rfl) (by intro x; gsim)
      · exact GRel.attemptBlock _ (ihL _ _) (by intros; rfl) (by intros; rfl) (by intro x; gsim)
      · exact GRel.attemptLeave ihV (by intros; rfl) (by intro x; gsim)
      · gsim
    · intro term acc; unfold parseList; gsim
    · intro term acc; unfold parseVector; gsim

theorem GRel.nextValue {tail : List UInt8} (cfg : Cfg) {f f' : Nat} (h : f' ≤ f) :
    GRel tail (nextValue cfg f) (nextValue cfg f') := (GRel.value_all cfg f' f h).1
theorem GRel.parseList {tail : List UInt8} (cfg : Cfg) {f f' : Nat} (h : f' ≤ f) (term : UInt8)
    (acc : List Value) : GRel tail (parseList cfg f term acc) (parseList cfg f' term acc) :=
  (GRel.value_all cfg f' f h).2.1 term acc
theorem GRel.parseVector {tail : List UInt8} (cfg : Cfg) {f f' : Nat} (h : f' ≤ f) (term : UInt8)
    (acc : List Value) : GRel tail (parseVector cfg f term acc) (parseVector cfg f' term acc) :=
  (GRel.value_all cfg f' f h).2.2 term acc

/-! ## `next_datum`, `parse_list_meta`, `parse_vector_meta` -/

theorem GRel.datum_all {tail : List UInt8} (cfg : Cfg) : ∀ f' f : Nat, f' ≤ f →
    GRel tail (nextDatum cfg f) (nextDatum cfg f') ∧
    (∀ term acc ms, GRel tail (parseListMeta cfg f term acc ms) (parseListMeta cfg f' term acc ms)) ∧
    (∀ term acc ms,
      GRel tail (parseVectorMeta cfg f term acc ms) (parseVectorMeta cfg f' term acc ms)) := by
  intro f'
  induction f' with
  | zero =>
    intro f _
    have hs := PrefixDet.datum_ss cfg f f (Nat.le_refl f)
    exact ⟨GRel.fuel0 (.of_sim hs.1), fun _ _ _ => GRel.fuel0 (.of_sim (hs.2.1 _ _ _)),
      fun _ _ _ => GRel.fuel0 (.of_sim (hs.2.2 _ _ _))⟩
  | succ f' ih =>
    intro f h
    obtain ⟨g, rfl⟩ : ∃ g, f = g + 1 := ⟨f - 1, by omega⟩
    obtain ⟨ihV, ihL, ihVec⟩ := ih g (by omega)
    refine ⟨?_, ?_, ?_⟩
    · unfold nextDatum
      refine GRel.parseWhitespace_bind (fun pk => ?_) RestNonInc.pure
      dsimp only
      apply GRelNE.bind_getPos; intro start
      apply GRelNE.bind_tokenFuel; intro n n' hn
      apply GRelNE.bind (GRelNE.parseToken cfg hn pk); intro tok
      split
      · gsim
      · exact GRel.attemptBlock _ (ihVec _ _ _) (by intros; rfl) (by intros; rfl) (by intro x; gsim)
      · exact GRel.attemptBlock _ (ihL _ _ _) (by intros; rfl) (by intro x e; cases x <;> rfl)
          (by intro x; gsim)
      · refine GRel.bind GRel.getPos fun tokenEnd => ?_
        exact GRel.attemptLeave ihV (by intros; rfl) (by intro x; gsim)
      · gsim
    · intro term acc ms; unfold parseListMeta; gsim
    · intro term acc ms; unfold parseVectorMeta; gsim

theorem GRel.nextDatum {tail : List UInt8} (cfg : Cfg) {f f' : Nat} (h : f' ≤ f) :
    GRel tail (nextDatum cfg f) (nextDatum cfg f') := (GRel.datum_all cfg f' f h).1
theorem GRel.parseListMeta {tail : List UInt8} (cfg : Cfg) {f f' : Nat} (h : f' ≤ f) (term : UInt8)
    (acc : List Value) (ms : List SpanInfo) :
    GRel tail (parseListMeta cfg f term acc ms) (parseListMeta cfg f' term acc ms) :=
  (GRel.datum_all cfg f' f h).2.1 term acc ms
theorem GRel.parseVectorMeta {tail : List UInt8} (cfg : Cfg) {f f' : Nat} (h : f' ≤ f) (term : UInt8)
    (acc : List Value) (ms : List SpanInfo) :
    GRel tail (parseVectorMeta cfg f term acc ms) (parseVectorMeta cfg f' term acc ms) :=
  (GRel.datum_all cfg f' f h).2.2 term acc ms

/-! ## the public entry points -/

theorem GRel.nextValueTop {tail : List UInt8} (cfg : Cfg) :
    GRel tail (nextValueTop cfg) (nextValueTop cfg) := by
  unfold Parse.nextValueTop
  exact GRel.bind_apiFuel fun _ _ h => GRel.nextValue cfg h
macro_rules | `(tactic| gsim_lemma) => `(tactic| with_reducible exact GRel.nextValueTop ..)

theorem GRel.nextDatumTop {tail : List UInt8} (cfg : Cfg) :
    GRel tail (nextDatumTop cfg) (nextDatumTop cfg) := by
  unfold Parse.nextDatumTop
  exact GRel.bind_apiFuel fun _ _ h => GRel.nextDatum cfg h
macro_rules | `(tactic| gsim_lemma) => `(tactic| with_reducible exact GRel.nextDatumTop ..)

theorem GRel.expectValue {tail : List UInt8} (cfg : Cfg) :
    GRel tail (expectValue cfg) (expectValue cfg) := by
  unfold Parse.expectValue; gsim
macro_rules | `(tactic| gsim_lemma) => `(tactic| with_reducible exact GRel.expectValue ..)

theorem GRel.expectDatum {tail : List UInt8} (cfg : Cfg) :
    GRel tail (expectDatum cfg) (expectDatum cfg) := by
  unfold Parse.expectDatum; gsim
macro_rules | `(tactic| gsim_lemma) => `(tactic| with_reducible exact GRel.expectDatum ..)

theorem GRel.fromTrait {tail : List UInt8} (cfg : Cfg) :
    GRel tail (fromTrait cfg) (fromTrait cfg) := by
  unfold Parse.fromTrait; gsim

theorem GRel.fromTraitDatum {tail : List UInt8} (cfg : Cfg) :
    GRel tail (fromTraitDatum cfg) (fromTraitDatum cfg) := by
  unfold Parse.fromTraitDatum; gsim

end Parse
end Lexpr
