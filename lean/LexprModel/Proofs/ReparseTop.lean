/-
  C11, re-parse clause — one datum: the text between the end of the leading trivia and the place
  where `next_value` / `next_datum` stopped, parsed on its own, yields the same value.
-/
import LexprModel.Proofs.ReparseParse
import LexprModel.Proofs.DatumValue
namespace Lexpr
namespace Parse
namespace Reparse
open Progress Spans

/-! ### `parse_whitespace` in front of a token -/

theorem parseWhitespace_apply (s : St) :
    parseWhitespace s = peek { s with rd := s.rd.consume (wsLen s.rd.rest) } := rfl

theorem wsLen_head {b : UInt8} {t : List UInt8} (h1 : isTrivia b = false) (h2 : b ≠ 59) :
    wsLen (b :: t) = 0 := by
  simp [wsLen, h1, h2]

theorem parseWhitespace_token {s : St} {b : UInt8} {t : List UInt8} (hs : s.rd.rest = b :: t)
    (h1 : isTrivia b = false) (h2 : b ≠ 59) :
    ∃ s1, parseWhitespace s = .ok (some b) s1 ∧ s1.rd.rest = b :: t ∧ s1.rd.mode = s.rd.mode ∧
      s1.rd.faulty = s.rd.faulty ∧ s1.depth = s.depth := by
  have h0 : wsLen s.rd.rest = 0 := by rw [hs]; exact wsLen_head h1 h2
  have hr : ({ s with rd := s.rd.consume (wsLen s.rd.rest) } : St).rd.rest = b :: t := by
    show (s.rd.consume (wsLen s.rd.rest)).rest = _
    rw [consume_rest, h0, hs]; rfl
  refine ⟨pk { s with rd := s.rd.consume (wsLen s.rd.rest) },
    by rw [parseWhitespace_apply]; exact peek_cons hr, hr, ?_, ?_, rfl⟩
  · show (s.rd.consume (wsLen s.rd.rest)).mode = _
    rw [consume_mode]
  · show (s.rd.consume (wsLen s.rd.rest)).faulty = _
    rw [consume_faulty]

theorem parseWhitespace_end {s : St} (hs : s.rd.rest = []) (hf : s.rd.faulty = false) :
    ∃ s1, parseWhitespace s = .ok none s1 := by
  have hr : ({ s with rd := s.rd.consume (wsLen s.rd.rest) } : St).rd.rest = [] := by
    show (s.rd.consume (wsLen s.rd.rest)).rest = _
    rw [consume_rest, hs]; rfl
  have hf' : ({ s with rd := s.rd.consume (wsLen s.rd.rest) } : St).rd.faulty = false := by
    show (s.rd.consume (wsLen s.rd.rest)).faulty = _
    rw [consume_faulty, hf]
  exact ⟨_, by rw [parseWhitespace_apply]; exact peek_nil hr hf'⟩

theorem afterWs_inv {I : St → Prop} [Stable I] {cfg : Cfg} {f : Nat} {pk : UInt8} :
    Inv I (afterWs cfg f pk) := by
  unfold afterWs
  inv_wp [parseToken_inv, parseByteList_inv, endSeq_inv, (value_invs _ _).1, (value_invs _ _).2.1 _ _,
    (value_invs _ _).2.2 _ _]

/-! ### one run of `next_value` -/

/-- what a successful `next_value` consumed: trivia, then a non-empty text `b :: mid`; and that
    text, parsed on its own, yields the same value -/
theorem reparse_of_run {cfg : Cfg} {f : Nat} {s s' : St} {v : Value}
    (h : nextValue cfg f s = .ok (some v) s') (hd : s.depth ≤ 128) :
    ∃ b mid, s.rd.rest = s.rd.rest.take (wsLen s.rd.rest) ++ (b :: mid) ++ s'.rd.rest ∧
      ∃ sF, fromTrait cfg (initSt s.rd.mode (b :: mid)) = .ok v sF := by
  cases f with
  | zero => rw [nextValue] at h; cases h
  | succ f0 =>
    rw [nextValue_succ] at h
    obtain ⟨o, S1, hws, hK⟩ := bind_ok h
    have hw := parseWhitespace_tri s
    unfold Tri at hw
    rw [hws] at hw
    obtain ⟨_, hrest, ho⟩ := hw
    have hmode1 : S1.rd.mode = s.rd.mode := by
      have := parseWhitespace_inv (I := fun t : St => t.rd.mode = s.rd.mode) s rfl
      rw [hws] at this
      exact this
    have hdep1 : S1.depth = s.depth := (parseWhitespace_t1.frame s o S1 hws).2
    cases o with
    | none => cases hK
    | some pk =>
      dsimp only at hK
      cases hS1 : S1.rd.rest with
      | nil => rw [hS1] at ho; cases ho
      | cons c t =>
        rw [hS1] at ho
        obtain rfl : pk = c := by simpa using ho
        obtain ⟨hb1, hb2⟩ := (wsLen_drop_head s.rd.rest).1 pk t (by rw [← hrest, hS1])
        -- the text
        have hreach := afterWs_inv (I := Reach S1) (cfg := cfg) (f := f0) (pk := pk) S1 (Reach.refl S1)
        rw [hK] at hreach
        obtain ⟨mid', hmid', _⟩ := hreach
        have hprog := afterWs_prog cfg f0 pk hS1 hK
        cases mid' with
        | nil =>
          rw [List.nil_append] at hmid'
          rw [hmid'] at hprog
          omega
        | cons c' mid =>
          have hc : c' = pk := by
            rw [hS1, List.cons_append] at hmid'
            exact (List.cons.inj hmid').1
          subst hc
          refine ⟨c', mid, ?_, ?_⟩
          · rw [List.append_assoc, hmid', hrest, List.take_append_drop]
          · -- the run on the text alone
            let s0 : St := initSt s.rd.mode (c' :: mid)
            obtain ⟨s01, hws0, hr01, hm01, hf01, hd01⟩ :=
              parseWhitespace_token (s := s0) (b := c') (t := mid) rfl hb1 hb2
            have hrel : TRel s'.rd.rest S1 s01 :=
              ⟨by rw [hr01, hmid'], by rw [hmode1, hm01]; rfl, by rw [hf01]; rfl,
                by rw [hdep1, hd01]; exact hd⟩
            have htop : nextValueTop cfg s0 =
                afterWs cfg (2 * s0.rd.rest.length + 3) c' s01 := by
              show nextValue cfg (2 * s0.rd.rest.length + 3 + 1) s0 = _
              rw [nextValue_succ, bind_ok_eq hws0]
            have hnf : nextValueTop cfg s0 ≠ .fuel :=
              (nextValueTop_spec (cfg := cfg) (s := s0)).no_fuel (fun hF => hF)
            rcases (afterWs_t (cfg := cfg) (f := f0) (f' := 2 * s0.rd.rest.length + 3) (pk := c')
                s'.rd.rest S1 s01 (some v) s' hrel hK).2 (by omega) with hfu | ⟨s02, hs02, hrel2⟩
            · exact absurd (htop.trans hfu) hnf
            · have hr02 : s02.rd.rest = [] := by
                have := hrel2.1
                have hl := congrArg List.length this
                simp only [List.length_append] at hl
                exact List.eq_nil_of_length_eq_zero (by omega)
              obtain ⟨s03, hend⟩ := parseWhitespace_end hr02 hrel2.2.2.1
              refine ⟨s03, ?_⟩
              have hev : expectValue cfg s0 = .ok v s02 := by
                unfold expectValue
                rw [bind_ok_eq (htop.trans hs02)]
                rfl
              have hee : expectEnd s02 = .ok () s03 := by
                unfold expectEnd
                rw [bind_ok_eq hend]
                rfl
              show fromTrait cfg s0 = _
              unfold fromTrait
              rw [bind_ok_eq hev, bind_ok_eq hee]
              rfl

/-! ### spans as pairs of prefixes -/

/-- **the re-parse clause for one span**: `sp` is `⟨posOf p, posOf q⟩` for prefixes `p ≤ q` of
    the input, and the text between them (`q` without its first `p.length` bytes), parsed on its
    own with the same options and kind of source, yields `v` -/
def ReparsesTo (cfg : Cfg) (mode : Mode) (input : List UInt8) (v : Value) (sp : Span) : Prop :=
  ∃ p q, p <+: q ∧ q <+: input ∧ sp = ⟨posOf p, posOf q⟩ ∧
    ∃ sF, fromTrait cfg (initSt mode (q.drop p.length)) = .ok v sF

/-- a run of `next_value` from a state that is `At input`: the span from the position after the
    leading trivia (`t1`) to the position where it stopped re-parses to the value -/
theorem reparsesTo_of_run {cfg : Cfg} {f : Nat} {s s' t1 : St} {v : Value} {input : List UInt8}
    (h : nextValue cfg f s = .ok (some v) s') (hat : At input s) (hd : s.depth ≤ 128)
    (ht1 : Reach s t1) (ht1r : t1.rd.rest = s.rd.rest.drop (wsLen s.rd.rest)) :
    ReparsesTo cfg s.rd.mode input v ⟨t1.rd.position, s'.rd.position⟩ := by
  obtain ⟨b, mid, hsplit, sF, hre⟩ := reparse_of_run h hd
  have hat' : At input s' := by
    have := (value_invs (I := At input) cfg f).1 s hat
    rw [h] at this
    exact this
  obtain ⟨pre, hin, hpos⟩ := hat
  obtain ⟨pre', hin', hpos'⟩ := hat'
  obtain ⟨m1, e1, p1⟩ := ht1
  have hm1 : m1 = s.rd.rest.take (wsLen s.rd.rest) := by
    rw [ht1r] at e1
    exact append_drop_eq e1 (wsLen_le _).1
  refine ⟨pre ++ s.rd.rest.take (wsLen s.rd.rest),
    pre ++ s.rd.rest.take (wsLen s.rd.rest) ++ (b :: mid), List.prefix_append _ _, ?_, ?_, sF, ?_⟩
  · refine ⟨s'.rd.rest, ?_⟩
    rw [← hin]
    conv => rhs; rw [hsplit]
    simp only [List.append_assoc]
  · have hq : pre' = pre ++ s.rd.rest.take (wsLen s.rd.rest) ++ (b :: mid) := by
      have : pre' ++ s'.rd.rest =
          (pre ++ s.rd.rest.take (wsLen s.rd.rest) ++ (b :: mid)) ++ s'.rd.rest := by
        rw [hin', ← hin]
        conv => lhs; rw [hsplit]
        simp only [List.append_assoc]
      exact List.append_cancel_right this
    rw [p1, hpos, hm1, hpos', hq, ← posOf_append]
  · rw [List.drop_left]
    exact hre

/-- **one datum**: the span of a datum returned by `next_datum` re-parses to the datum's value -/
theorem reparsesTo_datum {cfg : Cfg} {f : Nat} {s s' : St} {d : Datum} {input : List UInt8}
    (h : nextDatum cfg f s = .ok (some d) s') (hat : At input s) (hd : s.depth ≤ 128) :
    ReparsesTo cfg s.rd.mode input d.value d.info.span := by
  have hv : nextValue cfg f s = .ok (some d.value) s' := by
    have := C10_sim cfg f s
    rw [h] at this
    exact this.symm
  obtain ⟨t1, ht1, ht1r, _, hspan, _⟩ := datumOK_of_ok h
  rw [hspan]
  exact reparsesTo_of_run hv hat hd ht1.reach ht1r

end Reparse
end Parse
end Lexpr
