/-
  Utf8InputTok — C17, input clause, at the token scanner (`parse_token`), for the sources that
  validate (slice and stream: `S.rd.mode ≠ .str`; for the &str source the input is valid UTF-8 by
  its type and there is nothing to prove):

    if a token is accepted, the bytes it consumed are valid UTF-8.

  * `C17_r6rs_str_input_valid` / `C17_r6rs_token_input_valid` — R6RS strings.  UNCONDITIONAL,
    unlike the Emacs Lisp syntax (`C17_elisp_input_clause`): an R6RS escape is ASCII text and
    always appends a non-empty well-formed text (`parseR6rsEscape_shape`), so the automaton run
    over the input and the run over the scratch buffer never part (`parseR6rsStr_inv`), and the
    buffer is validated at the closing quote.  The model has ONE path for the slice and the stream
    reader (the borrowed fast path of `SliceRead::parse_r6rs_str` returns the same bytes and is
    validated by the same `as_str`).
  * `C17_symbol_input_valid` (`parse_symbol_bytes` behind any well-formed scratch prefix) and
    `C17_symbol_token_input_valid` — every spelling the scanner has: plain symbols, `#:name`,
    `:name`, `name:`, `#%name`, sign-initial and dot-initial symbols, digit-initial symbols,
    symbols with a non-ASCII initial.  (The model — like the Rust code — has no `|…|` symbols.)
  * `C17_char_input_valid_r6rs`, `C17_char_input_valid_elisp`, `C17_char_token_input_valid` —
    `#\<char>`, `#\x<hex>`, names; `?<char>` and `?\<escape>`.  The Emacs character escapes have
    NO corner case: an escape denotes a code point, never a raw byte, and is ASCII text.
  * `C17_token_input_valid` — every token of `parse_token` under the R6RS string syntax
    (numbers are ASCII text: `Utf8InputTokNum`).
-/
import LexprModel.Proofs.Utf8InputTokNum
namespace Lexpr
namespace Parse
namespace InTok
open Utf8 Utf8.U8 Parse.U8 InLoop Image

theorem VC.ne_str {s s' : St} (h : VC s s') (hm : s.rd.mode ≠ .str) : s'.rd.mode ≠ .str := by
  rw [h.1]; exact hm

theorem VC.same' {s0 s s1 : St} (h : VC s0 s) (hm : s1.rd.mode = s.rd.mode)
    (hr : s1.rd.rest = s.rd.rest) : VC s0 s1 := h.trans (VC.same hm hr)

theorem parseSignDotSymbol_vc {cfg : Cfg} {pfx : List UInt8} {s0 s s' : St} {tok : Token}
    (h : parseSignDotSymbol cfg pfx s = .ok tok s') (hp : valid pfx = true) (hs : VC s0 s)
    (hm : s0.rd.mode ≠ .str) (hhead : HeadA s) : VC s0 s' := by
  unfold parseSignDotSymbol at h
  obtain ⟨_, s1, hd, h⟩ := bind_ok h
  have hs1 : VC s0 s1 := hs.asuf (discard_asuf hd hhead)
  obtain ⟨c, s2, hpk, h⟩ := bind_ok h
  have hs2 : VC s0 s2 := hs1.asuf (peekOrNull_same hpk)
  rcases ite_ok h with ⟨_, h⟩ | ⟨_, h⟩
  · simp [peekErr] at h
  · obtain ⟨name, s3, hsym, h⟩ := bind_ok h
    obtain ⟨_, rfl⟩ := pure_ok h
    exact hs2.trans (parseSymbolBytes_vc hsym (hs2.ne_str hm) hp)

theorem parseSignToken_vc {cfg : Cfg} {fuel : Nat} {sign : UInt8} {pos : Bool} {s0 s s' : St}
    {tok : Token} (h : parseSignToken cfg fuel sign pos s = .ok tok s') (hsign : sign < 0x80)
    (hs : VC s0 s) (hm : s0.rd.mode ≠ .str) (hhead : HeadA s) : VC s0 s' := by
  unfold parseSignToken at h
  obtain ⟨_, s1, hd, h⟩ := bind_ok h
  have hs1 : VC s0 s1 := hs.asuf (discard_asuf hd hhead)
  obtain ⟨nxt, s2, hpk, h⟩ := bind_ok h
  have hs2 : VC s0 s2 := hs1.asuf (peekOrNull_same hpk)
  rcases ite_ok h with ⟨_, h⟩ | ⟨_, h⟩
  · obtain ⟨name, s3, hsym, h⟩ := bind_ok h
    obtain ⟨_, rfl⟩ := pure_ok h
    exact hs2.trans (parseSymbolBytes_vc hsym (hs2.ne_str hm)
      (valid_ascii (Ascii.cons hsign Ascii.nil)))
  · rcases ite_ok h with ⟨h46, h⟩ | ⟨_, h⟩
    · exact parseSignDotSymbol_vc h
        (valid_ascii (Ascii.cons hsign (Ascii.cons (by decide) Ascii.nil))) hs2 hm
        (headA_of_peek hpk (eq_ascii h46 (by decide)))
    · obtain ⟨n, s3, hnum, h⟩ := bind_ok h
      obtain ⟨_, rfl⟩ := pure_ok h
      exact hs2.asuf (parseNumToken_asuf hnum)

/-- close a branch `pure tok0` at a state known to be fine -/
local macro "tok_done" h:ident hs:ident : tactic => `(tactic| (
  rw [← (pure_ok $h).2]; exact $hs))

/-- **Every token consumes a valid chunk** (slice and stream sources, R6RS string syntax; the
    character syntax and all other options are arbitrary). -/
theorem parseToken_vc {cfg : Cfg} {fuel : Nat} {pk : UInt8} {s s' : St} {tok : Token}
    (h : parseToken cfg fuel pk s = .ok tok s') (hpk : s.rd.rest.head? = some pk)
    (hm : s.rd.mode ≠ .str) (hstr6 : cfg.opts.string = .r6rs) : VC s s' := by
  have hs : VC s s := VC.refl s
  have hhead : pk < 0x80 → HeadA s := by
    intro hp b hb; rw [hpk] at hb; cases hb; exact hp
  unfold parseToken at h
  simp only [] at h
  -- '#'
  rcases ite_ok h with ⟨hc, h⟩ | ⟨_, h⟩
  · have hpka : pk < 0x80 := by rw [eq_of_beq hc]; decide
    obtain ⟨_, s1, hd, h⟩ := bind_ok h
    have hs1 : VC s s1 := hs.asuf (discard_asuf hd (hhead hpka))
    obtain ⟨a, s2, hn, h⟩ := bind_ok h
    obtain ⟨hm2, hr2⟩ := next_ok hn
    cases a with
    | none => simp [peekErr] at h
    | some c =>
      rcases hr2 with ⟨h0, _⟩ | ⟨c', hc', hr2⟩
      · cases h0
      cases hc'
      have step : ∀ k : UInt8, k < 0x80 → (c == k) = true → VC s s2 := by
        intro k hk hck; exact hs1.tail hm2 hr2 (by rw [eq_of_beq hck]; exact hk)
      rcases ite_ok h with ⟨hc, h⟩ | ⟨_, h⟩
      · have hs2 := step _ (by decide) hc; tok_done h hs2
      rcases ite_ok h with ⟨hc, h⟩ | ⟨_, h⟩
      · have hs2 := step _ (by decide) hc; tok_done h hs2
      rcases ite_ok h with ⟨hc, h⟩ | ⟨_, h⟩
      · have hs2 := step _ (by decide) hc
        obtain ⟨_, s3, hid, h⟩ := bind_ok h
        have hs3 := hs2.asuf (expectIdent_asuf _ hid (by decide))
        tok_done h hs3
      rcases ite_ok h with ⟨hc, h⟩ | ⟨_, h⟩
      · have hs2 := step _ (by decide) hc; tok_done h hs2
      rcases ite_ok h with ⟨hc, h⟩ | ⟨_, h⟩
      · simp only [Bool.and_eq_true] at hc
        have hs2 := step _ (by decide) hc.1
        obtain ⟨name, s3, hsym, h⟩ := bind_ok h
        obtain ⟨_, rfl⟩ := pure_ok h
        exact hs2.trans (parseSymbolBytes_vc hsym (hs2.ne_str hm) valid_nil)
      rcases ite_ok h with ⟨hc, h⟩ | ⟨_, h⟩
      · have hs2 := step _ (by decide) hc
        obtain ⟨_, s3, hid, h⟩ := bind_ok h
        have hs3 := hs2.asuf (expectIdent_asuf _ hid (by decide))
        tok_done h hs3
      rcases ite_ok h with ⟨hc, h⟩ | ⟨_, h⟩
      · have hs2 := step _ (by decide) hc
        obtain ⟨_, s3, hid, h⟩ := bind_ok h
        have hs3 := hs2.asuf (expectIdent_asuf _ hid (by decide))
        tok_done h hs3
      rcases ite_ok h with ⟨hc, h⟩ | ⟨_, h⟩
      · have hs2 := step _ (by decide) hc
        obtain ⟨n, s3, hnum, h⟩ := bind_ok h
        have hs3 := hs2.asuf (parseRadixToken_asuf hnum)
        tok_done h hs3
      rcases ite_ok h with ⟨hc, h⟩ | ⟨_, h⟩
      · have hs2 := step _ (by decide) hc
        obtain ⟨n, s3, hnum, h⟩ := bind_ok h
        have hs3 := hs2.asuf (parseRadixToken_asuf hnum)
        tok_done h hs3
      rcases ite_ok h with ⟨hc, h⟩ | ⟨_, h⟩
      · have hs2 := step _ (by decide) hc
        obtain ⟨n, s3, hnum, h⟩ := bind_ok h
        have hs3 := hs2.asuf (parseRadixToken_asuf hnum)
        tok_done h hs3
      rcases ite_ok h with ⟨hc, h⟩ | ⟨_, h⟩
      · have hs2 := step _ (by decide) hc
        obtain ⟨n, s3, hnum, h⟩ := bind_ok h
        have hs3 := hs2.asuf (parseRadixToken_asuf hnum)
        tok_done h hs3
      rcases ite_ok h with ⟨hc, h⟩ | ⟨_, h⟩
      · have hs2 := step _ (by decide) hc
        obtain ⟨ch, s3, hch, h⟩ := bind_ok h
        have hs3 := hs2.trans (parseR6rsChar_vc hch)
        tok_done h hs3
      rcases ite_ok h with ⟨hc, h⟩ | ⟨_, h⟩
      · simp only [Bool.and_eq_true] at hc
        have hs2 := step _ (by decide) hc.1
        obtain ⟨name, s3, hsym, h⟩ := bind_ok h
        obtain ⟨_, rfl⟩ := pure_ok h
        exact hs2.trans (parseSymbolBytes_vc hsym (hs2.ne_str hm) (by decide))
      · simp [peekErr] at h
  -- '-'
  rcases ite_ok h with ⟨hc, h⟩ | ⟨_, h⟩
  · have hpka : pk < 0x80 := by rw [eq_of_beq hc]; decide
    exact parseSignToken_vc h (by decide) hs hm (hhead hpka)
  -- '+'
  rcases ite_ok h with ⟨hc, h⟩ | ⟨_, h⟩
  · have hpka : pk < 0x80 := by rw [eq_of_beq hc]; decide
    exact parseSignToken_vc h (by decide) hs hm (hhead hpka)
  -- digits
  rcases ite_ok h with ⟨_, h⟩ | ⟨_, h⟩
  · rcases ite_ok h with ⟨_, h⟩ | ⟨_, h⟩
    · obtain ⟨sym, s1, hsym, h⟩ := bind_ok h
      have hs1 := parseSymbolBytes_vc hsym hm valid_nil
      cases hw : wholeNumber cfg sym with
      | some n => rw [hw] at h; tok_done h hs1
      | none => rw [hw] at h; tok_done h hs1
    · obtain ⟨n, s1, hnum, h⟩ := bind_ok h
      have hs1 := hs.asuf (parseNumToken_asuf hnum)
      tok_done h hs1
  -- '"'
  rcases ite_ok h with ⟨hc, h⟩ | ⟨_, h⟩
  · have hpka : pk < 0x80 := by rw [eq_of_beq hc]; decide
    obtain ⟨_, s1, hd, h⟩ := bind_ok h
    have hs1 : VC s s1 := hs.asuf (discard_asuf hd (hhead hpka))
    rw [hstr6] at h
    obtain ⟨out, s2, hp, h⟩ := bind_ok h
    obtain ⟨_, rfl⟩ := pure_ok h
    exact hs1.trans (parseR6rsStr_vc hp (hs1.ne_str hm) valid_nil)
  -- '('
  rcases ite_ok h with ⟨hc, h⟩ | ⟨_, h⟩
  · have hpka : pk < 0x80 := by rw [eq_of_beq hc]; decide
    obtain ⟨_, s1, hd, h⟩ := bind_ok h
    have hs1 : VC s s1 := hs.asuf (discard_asuf hd (hhead hpka))
    tok_done h hs1
  -- '['
  rcases ite_ok h with ⟨hc, h⟩ | ⟨_, h⟩
  · have hpka : pk < 0x80 := by rw [eq_of_beq hc]; decide
    obtain ⟨_, s1, hd, h⟩ := bind_ok h
    have hs1 : VC s s1 := hs.asuf (discard_asuf hd (hhead hpka))
    cases hb : cfg.opts.brackets <;> rw [hb] at h <;> tok_done h hs1
  -- ':'
  rcases ite_ok h with ⟨hc, h⟩ | ⟨_, h⟩
  · have hpka : pk < 0x80 := by rw [eq_of_beq hc]; decide
    rcases ite_ok h with ⟨_, h⟩ | ⟨_, h⟩
    · obtain ⟨_, s1, hd, h⟩ := bind_ok h
      have hs1 : VC s s1 := hs.asuf (discard_asuf hd (hhead hpka))
      obtain ⟨name, s2, hsym, h⟩ := bind_ok h
      obtain ⟨_, rfl⟩ := pure_ok h
      exact hs1.trans (parseSymbolBytes_vc hsym (hs1.ne_str hm) valid_nil)
    · obtain ⟨name, s2, hsym, h⟩ := bind_ok h
      obtain ⟨_, rfl⟩ := pure_ok h
      exact parseSymbolBytes_vc hsym hm valid_nil
  -- letters
  rcases ite_ok h with ⟨_, h⟩ | ⟨_, h⟩
  · obtain ⟨name, s1, hsym, h⟩ := bind_ok h
    have hs1 := parseSymbolBytes_vc hsym hm valid_nil
    rcases ite_ok h with ⟨hc, h⟩ | ⟨_, h⟩
    · tok_done h hs1
    rcases ite_ok h with ⟨_, h⟩ | ⟨_, h⟩
    · cases hn : cfg.opts.nil <;> rw [hn] at h
      · tok_done h hs1
      · simp [panicAt] at h
      · tok_done h hs1
    rcases ite_ok h with ⟨_, h⟩ | ⟨_, h⟩
    · cases ht : cfg.opts.t <;> rw [ht] at h
      · tok_done h hs1
      · simp [panicAt] at h
    · tok_done h hs1
  -- '?'
  rcases ite_ok h with ⟨hc, h⟩ | ⟨_, h⟩
  · simp only [Bool.and_eq_true] at hc
    have hpka : pk < 0x80 := by rw [eq_of_beq hc.1]; decide
    obtain ⟨_, s1, hd, h⟩ := bind_ok h
    have hs1 : VC s s1 := hs.asuf (discard_asuf hd (hhead hpka))
    obtain ⟨ch, s2, hch, h⟩ := bind_ok h
    have hs2 := hs1.trans (parseElispChar_vc hch)
    tok_done h hs2
  -- quote
  rcases ite_ok h with ⟨hc, h⟩ | ⟨_, h⟩
  · have hpka : pk < 0x80 := by rw [eq_of_beq hc]; decide
    obtain ⟨_, s1, hd, h⟩ := bind_ok h
    have hs1 : VC s s1 := hs.asuf (discard_asuf hd (hhead hpka))
    tok_done h hs1
  rcases ite_ok h with ⟨hc, h⟩ | ⟨_, h⟩
  · have hpka : pk < 0x80 := by rw [eq_of_beq hc]; decide
    obtain ⟨_, s1, hd, h⟩ := bind_ok h
    have hs1 : VC s s1 := hs.asuf (discard_asuf hd (hhead hpka))
    tok_done h hs1
  -- ','
  rcases ite_ok h with ⟨hc, h⟩ | ⟨_, h⟩
  · have hpka : pk < 0x80 := by rw [eq_of_beq hc]; decide
    obtain ⟨_, s1, hd, h⟩ := bind_ok h
    have hs1 : VC s s1 := hs.asuf (discard_asuf hd (hhead hpka))
    obtain ⟨c, s2, hp, h⟩ := bind_ok h
    have hs2 : VC s s2 := hs1.asuf (peekOrNull_same hp)
    rcases ite_ok h with ⟨h64, h⟩ | ⟨_, h⟩
    · obtain ⟨_, s3, hd3, h⟩ := bind_ok h
      have hs3 : VC s s3 :=
        hs2.asuf (discard_asuf hd3 (headA_of_peek hp (eq_ascii h64 (by decide))))
      tok_done h hs3
    · tok_done h hs2
  -- a non-ASCII symbol initial
  rcases ite_ok h with ⟨_, h⟩ | ⟨hnot, h⟩
  · obtain ⟨_, s1, hd, h⟩ := bind_ok h
    obtain ⟨hm1, b, hr1⟩ := discard_ok hd
    have hb : b = pk := by rw [hr1] at hpk; cases hpk; rfl
    subst hb
    obtain ⟨⟨c, bytes⟩, s2, hseq, h⟩ := bind_ok h
    obtain ⟨hbv, hm2, hr2⟩ := Parse.U8.decodeUtf8Sequence_ok hseq
    have hs2 : VC s s2 := VC.chunk (hm2.trans hm1) (by rw [hr1, hr2]) hbv
    rcases ite_ok h with ⟨_, h⟩ | ⟨_, h⟩
    · simp [peekErr] at h
    · obtain ⟨name, s3, hsym, h⟩ := bind_ok h
      obtain ⟨_, rfl⟩ := pure_ok h
      exact hs2.trans (parseSymbolBytes_vc hsym (hs2.ne_str hm) hbv)
  -- extended symbol characters
  rcases ite_ok h with ⟨_, h⟩ | ⟨_, h⟩
  · obtain ⟨name, s2, hsym, h⟩ := bind_ok h
    obtain ⟨_, rfl⟩ := pure_ok h
    exact parseSymbolBytes_vc hsym hm valid_nil
  -- anything else is an error
  · obtain ⟨_, s1, _, h⟩ := bind_ok h
    obtain ⟨_, s2, _, h⟩ := bind_ok h
    cases h

/-! ### the theorems -/

/-- **C17, input clause, R6RS strings** (slice and stream sources; `acc` is the scratch buffer at
    entry: empty, or any well-formed text): if `parse_r6rs_str` accepts, the body it consumed — the
    bytes after the opening quote up to and including the closing quote — is valid UTF-8.
    Unconditional: no escape of the R6RS syntax can join an ill-formed sequence. -/
theorem C17_r6rs_str_input_valid {fuel : Nat} {acc : List UInt8} {S S' : St} {out w : List UInt8}
    (h : parseR6rsStr fuel acc S = .ok out S') (hm : S.rd.mode ≠ .str)
    (hacc : Utf8.valid acc = true) (hw : S.rd.rest = w ++ S'.rd.rest) : Utf8.valid w = true :=
  (parseR6rsStr_vc h hm hacc).valid_of hw

/-- the body is well-formed exactly when the bytes returned are, for EVERY source (for the &str
    source this is the `from_utf8_unchecked` site: the result is not validated, and the theorem
    says it is well-formed iff the input was) -/
theorem C17_r6rs_str_input_valid_iff {fuel : Nat} {S S' : St} {out w : List UInt8}
    (h : parseR6rsStr fuel [] S = .ok out S') (hw : S.rd.rest = w ++ S'.rd.rest) :
    Utf8.valid w = Utf8.valid out := by
  obtain ⟨_, w0, hr, hsync, _⟩ := parseR6rsStr_inv fuel h
  have hw0 : w = w0 ++ [34] := by
    have : w ++ S'.rd.rest = (w0 ++ [34]) ++ S'.rd.rest := by rw [← hw, hr]; simp
    exact List.append_cancel_right this
  have h34 : (34 : UInt8) < 0x80 := by decide
  have hrun := hsync [] rfl
  simp only [List.nil_append] at hrun
  rw [hw0, valid_append_cons_ascii w0 [] h34]
  simp only [valid_nil, Bool.and_true]
  simp only [Utf8.valid, hrun]

/-- **C17, input clause, every token** (slice and stream sources, R6RS string syntax; the
    character syntax, keyword syntaxes and all other options are arbitrary): if `parse_token`
    accepts, the text `w` of the token is valid UTF-8. -/
theorem C17_token_input_valid {cfg : Cfg} {fuel : Nat} {pk : UInt8} {S S' : St} {tok : Token}
    {w : List UInt8} (h : parseToken cfg fuel pk S = .ok tok S')
    (hpk : S.rd.rest.head? = some pk) (hm : S.rd.mode ≠ .str) (hr6 : cfg.opts.string = .r6rs)
    (hw : S.rd.rest = w ++ S'.rd.rest) : Utf8.valid w = true :=
  (parseToken_vc h hpk hm hr6).valid_of hw

/-- **C17, input clause, R6RS strings at `parse_token`** (the peeked byte is `"`): the text of the
    whole token, opening quote to closing quote, is valid UTF-8 — no exception. -/
theorem C17_r6rs_token_input_valid {cfg : Cfg} {fuel : Nat} {S S' : St} {tok : Token}
    {w : List UInt8} (h : parseToken cfg fuel 34 S = .ok tok S')
    (hr6 : cfg.opts.string = .r6rs) (hpk : ∃ tl, S.rd.rest = 34 :: tl) (hm : S.rd.mode ≠ .str)
    (hw : S.rd.rest = w ++ S'.rd.rest) : Utf8.valid w = true := by
  obtain ⟨tl, hpk⟩ := hpk
  exact C17_token_input_valid h (by rw [hpk]; rfl) hm hr6 hw

/-- **C17, input clause, symbols and keywords** at the one scanner all spellings share
    (`parse_symbol_bytes`; `scratch` is what the caller has consumed already: a sign, `.`, `#%`,
    the first — decoded — character): the bytes scanned are valid UTF-8.  For the &str source
    (`mode = .str`) the scanner does not validate and nothing is claimed: the input is a `&str`. -/
theorem C17_symbol_input_valid {scratch : List UInt8} {S S' : St} {name w : List UInt8}
    (h : parseSymbolBytes scratch S = .ok name S') (hm : S.rd.mode ≠ .str)
    (hsc : Utf8.valid scratch = true) (hw : S.rd.rest = w ++ S'.rd.rest) :
    Utf8.valid w = true ∧ name = scratch ++ w := by
  refine ⟨(parseSymbolBytes_vc h hm hsc).valid_of hw, ?_⟩
  obtain ⟨hname, _⟩ := Parse.U8.parseSymbolBytes_ok h
  obtain ⟨_, w', _, hr⟩ := parseSymbolBytes_vc h hm hsc
  -- the consumed bytes are the `take`
  have hsuf := (SufP.parseSymbolBytes scratch).ok _ _ _ h
  unfold parseSymbolBytes at h
  obtain ⟨rest, s1, h1, h⟩ := bind_ok h
  obtain ⟨rfl, rfl⟩ := getRest_ok h1
  obtain ⟨mode, s2, h2, h⟩ := bind_ok h
  obtain ⟨rfl, rfl⟩ := getMode_ok h2
  simp only [] at h
  obtain ⟨_, s3, h3, h⟩ := bind_ok h
  obtain ⟨hm3, hr3⟩ := consumeN_ok h3
  obtain ⟨nxt, s4, h4, h⟩ := bind_ok h
  obtain ⟨hm4, hr4, _⟩ := peek_ok h4
  have hs' : S' = s4 := by
    rcases ite_ok h with ⟨_, h⟩ | ⟨_, h⟩
    · simp [errAt] at h
    rcases ite_ok h with ⟨_, h⟩ | ⟨_, h⟩
    · exact (pure_ok h).2.symm
    rcases ite_ok h with ⟨_, h⟩ | ⟨_, h⟩
    · exact (pure_ok h).2.symm
    rcases ite_ok h with ⟨_, h⟩ | ⟨_, h⟩ <;> simp [errAt] at h
  subst hs'
  have : w = s2.rd.rest.take (symLen s2.rd.mode s2.rd.rest) := by
    have e := take_symLen_rest s2.rd.mode s2.rd.rest
    rw [← hr3, ← hr4] at e
    exact List.append_cancel_right (hw.symm.trans e)
  rw [hname, this]

/-- **C17, input clause, symbol and keyword tokens**: whatever the spelling (`name`, `#:name`,
    `:name`, `name:`, `#%name`, `+name`, `-.name`, `1+`, `λx` …), an accepted symbol or keyword
    token consumed valid UTF-8.  (An instance of `C17_token_input_valid`; stated separately
    because it is the clause of the property.) -/
theorem C17_symbol_token_input_valid {cfg : Cfg} {fuel : Nat} {pk : UInt8} {S S' : St}
    {tok : Token} {w : List UInt8} (h : parseToken cfg fuel pk S = .ok tok S')
    (_htok : (∃ n, tok = .symbol n) ∨ (∃ n, tok = .keyword n))
    (hpk : S.rd.rest.head? = some pk) (hm : S.rd.mode ≠ .str) (hr6 : cfg.opts.string = .r6rs)
    (hw : S.rd.rest = w ++ S'.rd.rest) : Utf8.valid w = true :=
  C17_token_input_valid h hpk hm hr6 hw

/-- **C17, input clause, R6RS characters** (`parse_r6rs_char`, after `#\`; every source): the
    character text consumed — one raw character, `x<hex>`, or a name — is valid UTF-8. -/
theorem C17_char_input_valid_r6rs {fuel : Nat} {S S' : St} {c : Nat} {w : List UInt8}
    (h : parseR6rsChar fuel S = .ok c S') (hw : S.rd.rest = w ++ S'.rd.rest) :
    Utf8.valid w = true := (parseR6rsChar_vc h).valid_of hw

/-- **C17, input clause, Emacs Lisp characters** (`parse_elisp_char`, after `?`; every source):
    the character text consumed — one raw character or `\<escape>` — is valid UTF-8.  No
    exception: the corner cases of Emacs Lisp STRINGS (byte escapes, the escaped blank) do not
    exist for characters. -/
theorem C17_char_input_valid_elisp {fuel : Nat} {S S' : St} {c : Nat} {w : List UInt8}
    (h : parseElispChar fuel S = .ok c S') (hw : S.rd.rest = w ++ S'.rd.rest) :
    Utf8.valid w = true := (parseElispChar_vc h).valid_of hw

/-- **C17, input clause, character tokens** (`#\…` and, under the Emacs character syntax, `?…`) -/
theorem C17_char_token_input_valid {cfg : Cfg} {fuel : Nat} {pk : UInt8} {S S' : St} {c : Nat}
    {w : List UInt8} (h : parseToken cfg fuel pk S = .ok (.char c) S')
    (hpk : S.rd.rest.head? = some pk) (hm : S.rd.mode ≠ .str) (hr6 : cfg.opts.string = .r6rs)
    (hw : S.rd.rest = w ++ S'.rd.rest) : Utf8.valid w = true :=
  C17_token_input_valid h hpk hm hr6 hw

/-! ### witnesses: the hypotheses are satisfiable, and the theorems apply -/

/-- run `parse_token` on a text (slice or stream source) and test the result -/
def runTok (cfg : Cfg) (mode : Mode) (text : List UInt8) (p : Token → List UInt8 → Bool) : Bool :=
  match text with
  | [] => false
  | pk :: _ =>
    match parseToken cfg (text.length + 1) pk (initSt mode text) with
    | .ok tok S' => p tok S'.rd.rest
    | _ => false

theorem runTok_spec {cfg : Cfg} {mode : Mode} {text : List UInt8} {p : Token → List UInt8 → Bool}
    (h : runTok cfg mode text p = true) :
    ∃ pk tl tok S', text = pk :: tl ∧
      parseToken cfg (text.length + 1) pk (initSt mode text) = .ok tok S' ∧ p tok S'.rd.rest = true := by
  unfold runTok at h
  split at h
  · cases h
  · rename_i pk tl
    split at h
    · rename_i tok S' heq
      exact ⟨pk, tl, tok, S', rfl, heq, h⟩
    · cases h

def isString (out : List UInt8) : Token → List UInt8 → Bool
  | .string s, rest => s == out && rest == []
  | _, _ => false

/-- `"λ\n\x3bb;z"` (raw two-byte sequence, simple escape, hex escape) is accepted … -/
theorem ex_r6rs_string :
    runTok cfgD .slice ([0x22, 0xCE, 0xBB] ++ asc "\\n\\x3bb;z\"")
      (isString [0xCE, 0xBB, 0x0A, 0xCE, 0xBB, 0x7A]) = true := by decide +kernel

/-- … and `C17_r6rs_token_input_valid` applies to it -/
example : Utf8.valid ([0x22, 0xCE, 0xBB] ++ asc "\\n\\x3bb;z\"") = true := by
  obtain ⟨pk, tl, tok, S', htext, h, hp⟩ := runTok_spec ex_r6rs_string
  have hpk : pk = 34 := by cases htext; rfl
  subst hpk
  cases tok with
  | string s =>
    simp only [isString, Bool.and_eq_true, beq_iff_eq] at hp
    exact C17_r6rs_token_input_valid h rfl ⟨tl, htext⟩ (by decide) (by rw [hp.2]; simp [initSt])
  | _ => simp [isString] at hp

/-- the stream source too -/
example : runTok cfgD .io ([0x22, 0xCE, 0xBB] ++ asc "\\n\\x3bb;z\"")
    (isString [0xCE, 0xBB, 0x0A, 0xCE, 0xBB, 0x7A]) = true := by decide +kernel

/-- R6RS: the Emacs counterexamples are REJECTED — `"` C3 `\xa9;"` (an escape cannot complete a
    sequence) and `"` C3 `\` 20 A9 `"` (there is no escaped blank) -/
example : rejectsWith cfgD [0x22, 0xC3, 0x5C, 0x78, 0x61, 0x39, 0x3B, 0x22] .invalidUnicodeCodePoint = true ∧
    rejectsWith cfgD [0x22, 0xC3, 0x5C, 0x20, 0xA9, 0x22] .invalidEscape = true := by
  decide +kernel

def isSymOrKw (out : List UInt8) : Token → List UInt8 → Bool
  | .symbol s, rest => s == out && rest == []
  | .keyword s, rest => s == out && rest == []
  | _, _ => false

/-- symbol spellings that meet the hypotheses: `λx`, `#:é`, `+aé`, `-.é`, `aé:` (postfix keyword),
    `#%é` (Racket) -/
theorem ex_symbols :
    runTok cfgD .slice [0xCE, 0xBB, 0x78] (isSymOrKw [0xCE, 0xBB, 0x78]) = true ∧
    runTok cfgD .io [0x23, 0x3A, 0xC3, 0xA9] (isSymOrKw [0xC3, 0xA9]) = true ∧
    runTok cfgD .slice [0x2B, 0x61, 0xC3, 0xA9] (isSymOrKw [0x2B, 0x61, 0xC3, 0xA9]) = true ∧
    runTok cfgD .slice [0x2D, 0x2E, 0xC3, 0xA9] (isSymOrKw [0x2D, 0x2E, 0xC3, 0xA9]) = true ∧
    runTok cfgRk .slice [0x61, 0xC3, 0xA9, 0x3A] (isSymOrKw [0x61, 0xC3, 0xA9]) = true ∧
    runTok cfgRk .slice [0x23, 0x25, 0xC3, 0xA9] (isSymOrKw [0x23, 0x25, 0xC3, 0xA9]) = true := by
  decide +kernel

example : Utf8.valid [0x23, 0x3A, 0xC3, 0xA9] = true := by
  obtain ⟨pk, tl, tok, S', htext, h, hp⟩ := runTok_spec ex_symbols.2.1
  have hpk : pk = 35 := by cases htext; rfl
  subst hpk
  have hrest : S'.rd.rest = [] := by
    cases tok <;> simp [isSymOrKw] at hp <;> exact hp.2
  exact C17_token_input_valid h (by simp [initSt]) (by decide) rfl (by rw [hrest]; simp [initSt])

/-- ill-formed symbols are rejected: a truncated sequence at the end (`a` C3), a stray
    continuation byte inside (`a` A9 `b`), an overlong form after `#:` -/
example : rejectsWith cfgD [0x61, 0xC3] .eofValue = true ∧
    rejectsWith cfgD [0x61, 0xA9, 0x62] .invalidUnicodeCodePoint = true ∧
    rejectsWith cfgD [0x23, 0x3A, 0xC0, 0x80] .invalidUnicodeCodePoint = true := by
  decide +kernel

def isChar (out : Nat) : Token → List UInt8 → Bool
  | .char c, rest => c == out && rest == []
  | _, _ => false

/-- characters that meet the hypotheses: `#\λ`, `#\x3bb`, `#\space`, `?λ`, `?\λ` (escaped raw
    character), `?\x3bb`, `?\N{U+3bb}`, `?\^a` -/
theorem ex_chars :
    runTok cfgD .slice [0x23, 0x5C, 0xCE, 0xBB] (isChar 955) = true ∧
    runTok cfgD .io (asc "#\\x3bb") (isChar 955) = true ∧
    runTok cfgD .slice (asc "#\\space") (isChar 32) = true ∧
    runTok cfgEl .slice [0x3F, 0xCE, 0xBB] (isChar 955) = true ∧
    runTok cfgEl .slice [0x3F, 0x5C, 0xCE, 0xBB] (isChar 955) = true ∧
    runTok cfgEl .io (asc "?\\x3bb") (isChar 955) = true ∧
    runTok cfgEl .slice (asc "?\\N{U+3bb}") (isChar 955) = true ∧
    runTok cfgEl .slice (asc "?\\^a") (isChar 0) = true := by
  decide +kernel

/-- ill-formed characters are rejected: `#\` C3, `#\` C3 28, `?` ED A0 80 (a surrogate),
    `?\` C3 (Emacs syntax) -/
example : rejectsWith cfgD [0x23, 0x5C, 0xC3] .eofValue = true ∧
    rejectsWith cfgD [0x23, 0x5C, 0xC3, 0x28] .invalidUnicodeCodePoint = true ∧
    rejectsWith cfgEl [0x3F, 0xED, 0xA0, 0x80] .invalidUnicodeCodePoint = true ∧
    rejectsWith cfgEl [0x3F, 0x5C, 0xC3] .eofValue = true := by
  decide +kernel

end InTok
end Parse
end Lexpr
