/-
  C08, last clause — the token-level frame lemma, for EVERY reader state (any source mode, any
  input, well-formed or not):

    `tokenOpts_frame` : two configurations of the same build that agree on the options named by
    `Spec.tokenOpts` for the token at the head of the input give the same result of `parse_token`
    (same token and state, or same error and state).

  `Spec.tokenOpts` is the declarative, per-token description of which options a token exercises
  (LexprModel/Spec/Exercised.lean).  Also here: `symbolValue_frame` for the `.name` elements that
  `parse_list` reads itself, and the congruences of the byte-vector reader.
-/
import LexprModel.Spec.Exercised
import LexprModel.Proofs.Tokens2
namespace Lexpr
namespace Parse
namespace C08
open Spec

/-! ### agreement on option names -/

theorem _root_.Lexpr.Spec.AgreeOn.mono {ns ms : List OptName} {o o' : Options} (h : AgreeOn ns o o')
    (hs : ∀ n ∈ ms, n ∈ ns) : AgreeOn ms o o' := fun n hn => h n (hs n hn)

theorem _root_.Lexpr.Spec.AgreeOn.left {ns ms : List OptName} {o o' : Options} (h : AgreeOn (ns ++ ms) o o') :
    AgreeOn ns o o' := h.mono (fun _ hn => List.mem_append_left _ hn)

theorem _root_.Lexpr.Spec.AgreeOn.right {ns ms : List OptName} {o o' : Options} (h : AgreeOn (ns ++ ms) o o') :
    AgreeOn ms o o' := h.mono (fun _ hn => List.mem_append_right _ hn)

theorem _root_.Lexpr.Spec.AgreeOn.tail {n : OptName} {ns : List OptName} {o o' : Options}
    (h : AgreeOn (n :: ns) o o') : AgreeOn ns o o' := h.mono (fun _ hn => List.mem_cons_of_mem _ hn)

theorem _root_.Lexpr.Spec.AgreeOn.append {ns ms : List OptName} {o o' : Options} (h1 : AgreeOn ns o o')
    (h2 : AgreeOn ms o o') : AgreeOn (ns ++ ms) o o' := by
  intro n hn
  rcases List.mem_append.mp hn with hn | hn
  · exact h1 n hn
  · exact h2 n hn

theorem _root_.Lexpr.Spec.AgreeOn.nil (o o' : Options) : AgreeOn [] o o' := fun _ hn => by cases hn

theorem _root_.Lexpr.Spec.AgreeOn.refl (ns : List OptName) (o : Options) : AgreeOn ns o o := fun _ _ => rfl

theorem toNat_inj {a b : Bool} (h : a.toNat = b.toNat) : a = b := by
  cases a <;> cases b <;> simp_all

theorem agree_kwPrefix {ns : List OptName} {o o' : Options} (h : AgreeOn ns o o')
    (hn : OptName.kwPrefix ∈ ns) : o.kwPrefix = o'.kwPrefix := toNat_inj (h _ hn)
theorem agree_kwPostfix {ns : List OptName} {o o' : Options} (h : AgreeOn ns o o')
    (hn : OptName.kwPostfix ∈ ns) : o.kwPostfix = o'.kwPostfix := toNat_inj (h _ hn)
theorem agree_kwOctothorpe {ns : List OptName} {o o' : Options} (h : AgreeOn ns o o')
    (hn : OptName.kwOctothorpe ∈ ns) : o.kwOctothorpe = o'.kwOctothorpe := toNat_inj (h _ hn)
theorem agree_racket {ns : List OptName} {o o' : Options} (h : AgreeOn ns o o')
    (hn : OptName.racket ∈ ns) : o.racket = o'.racket := toNat_inj (h _ hn)
theorem agree_leadingDigit {ns : List OptName} {o o' : Options} (h : AgreeOn ns o o')
    (hn : OptName.leadingDigit ∈ ns) : o.leadingDigit = o'.leadingDigit := toNat_inj (h _ hn)
theorem agree_nil {ns : List OptName} {o o' : Options} (h : AgreeOn ns o o')
    (hn : OptName.nil ∈ ns) : o.nil = o'.nil := by
  have := h _ hn
  simp only [optValue] at this
  cases h1 : o.nil <;> cases h2 : o'.nil <;> simp_all
theorem agree_t {ns : List OptName} {o o' : Options} (h : AgreeOn ns o o')
    (hn : OptName.t ∈ ns) : o.t = o'.t := by
  have := h _ hn
  simp only [optValue] at this
  cases h1 : o.t <;> cases h2 : o'.t <;> simp_all
theorem agree_brackets {ns : List OptName} {o o' : Options} (h : AgreeOn ns o o')
    (hn : OptName.brackets ∈ ns) : o.brackets = o'.brackets := by
  have := h _ hn
  simp only [optValue] at this
  cases h1 : o.brackets <;> cases h2 : o'.brackets <;> simp_all
theorem agree_string {ns : List OptName} {o o' : Options} (h : AgreeOn ns o o')
    (hn : OptName.string ∈ ns) : o.string = o'.string := by
  have := h _ hn
  simp only [optValue] at this
  cases h1 : o.string <;> cases h2 : o'.string <;> simp_all
theorem agree_char {ns : List OptName} {o o' : Options} (h : AgreeOn ns o o')
    (hn : OptName.char ∈ ns) : o.char = o'.char := by
  have := h _ hn
  simp only [optValue] at this
  cases h1 : o.char <;> cases h2 : o'.char <;> simp_all

/-- two option sets that agree on all ten options are equal -/
theorem options_eq_of_agree (o o' : Options)
    (h : AgreeOn [.kwPrefix, .kwPostfix, .kwOctothorpe, .nil, .t, .brackets, .string, .char,
      .racket, .leadingDigit] o o') : o = o' := by
  have h1 := agree_kwPrefix h (by simp)
  have h2 := agree_kwPostfix h (by simp)
  have h3 := agree_kwOctothorpe h (by simp)
  have h4 := agree_nil h (by simp)
  have h5 := agree_t h (by simp)
  have h6 := agree_brackets h (by simp)
  have h7 := agree_string h (by simp)
  have h8 := agree_char h (by simp)
  have h9 := agree_racket h (by simp)
  have h10 := agree_leadingDigit h (by simp)
  cases o; cases o'; simp_all

/-- `symbol_token` under two option sets that agree on what `postfixKw` names -/
theorem symbolToken_agree (o1 o2 : Options) (name : List UInt8)
    (h : AgreeOn (postfixKw name) o1 o2) : symbolToken o1 name = symbolToken o2 name := by
  unfold postfixKw at h
  unfold symbolToken
  by_cases hc : (decide (name.length > 1) && (name.getLast? == some 58)) = true
  · rw [if_pos hc] at h
    rw [agree_kwPostfix h (by simp)]
  · have hc' : (decide (name.length > 1) && (name.getLast? == some 58)) = false := by
      simpa using hc
    simp only [Bool.and_assoc, hc', Bool.and_false, Bool.false_eq_true, ↓reduceIte]

theorem symbolValue_frame (o1 o2 : Options) (name : List UInt8)
    (h : AgreeOn (postfixKw name) o1 o2) : symbolValue o1 name = symbolValue o2 name := by
  simp only [symbolValue, symbolToken_agree o1 o2 name h]

/-! ### the monad, one step at a time -/

theorem bind_congr_ok {α β : Type} {m : P α} {f g : α → P β} {s : St}
    (h : ∀ a s', m s = .ok a s' → f a s' = g a s') : (m >>= f) s = (m >>= g) s := by
  simp only [bind_apply]
  cases hm : m s with
  | ok a s' => exact h a s' hm
  | err e s' => rfl
  | panic p => rfl
  | fuel => rfl

theorem discard_ok {s s' : St} {u : Unit} (h : discard s = .ok u s') :
    ∃ b tl, s.rd.rest = b :: tl ∧ s' = s.adv 1 := by
  unfold discard at h
  cases hr : s.rd.rest with
  | nil => rw [hr] at h; cases h
  | cons b tl =>
    rw [hr] at h
    simp only [Res.ok.injEq] at h
    exact ⟨b, tl, rfl, h.2.symm⟩

theorem peek_ok {s s' : St} {o : Option UInt8} (h : peek s = .ok o s') :
    o = s.rd.rest.head? ∧ s'.rd.rest = s.rd.rest ∧ s'.rd.mode = s.rd.mode := by
  unfold peek at h
  cases hr : s.rd.rest with
  | nil =>
    rw [hr] at h
    by_cases hf : s.rd.faulty = true
    · simp [hf] at h
    · simp only [hf, Bool.false_eq_true, ↓reduceIte, Res.ok.injEq] at h
      obtain ⟨rfl, rfl⟩ := h
      exact ⟨rfl, hr, rfl⟩
  | cons b tl =>
    rw [hr] at h
    simp only [Res.ok.injEq] at h
    obtain ⟨rfl, rfl⟩ := h
    exact ⟨rfl, hr, rfl⟩

theorem peekOrNull_ok {s s' : St} {b : UInt8} (h : peekOrNull s = .ok b s') :
    b = nextByte s.rd.rest ∧ s'.rd.rest = s.rd.rest ∧ s'.rd.mode = s.rd.mode := by
  unfold peekOrNull at h
  simp only [bind_apply] at h
  cases hp : peek s with
  | ok o s1 =>
    rw [hp] at h
    simp only [pure_apply, Res.ok.injEq] at h
    obtain ⟨rfl, rfl⟩ := h
    obtain ⟨rfl, h2, h3⟩ := peek_ok hp
    exact ⟨rfl, h2, h3⟩
  | err e s1 => rw [hp] at h; cases h
  | panic p => rw [hp] at h; cases h
  | fuel => rw [hp] at h; cases h

theorem next_ok {s s' : St} {o : Option UInt8} (h : next s = .ok o s') :
    (o = none ∧ s.rd.rest = [] ∧ s' = s) ∨ (∃ b tl, o = some b ∧ s.rd.rest = b :: tl ∧ s' = s.adv 1) := by
  unfold next at h
  cases hr : s.rd.rest with
  | nil =>
    rw [hr] at h
    by_cases hf : s.rd.faulty = true
    · simp [hf] at h
    · simp only [hf, Bool.false_eq_true, ↓reduceIte, Res.ok.injEq] at h
      exact .inl ⟨h.1.symm, rfl, h.2.symm⟩
  | cons b tl =>
    rw [hr] at h
    simp only [Res.ok.injEq] at h
    exact .inr ⟨b, tl, h.1.symm, rfl, h.2.symm⟩

theorem symTerm_slice (m : Mode) (b : UInt8) : symTerm m b = symTermSlice b := by cases m <;> rfl

theorem tokenText_cons (m : Mode) (b : UInt8) (l : List UInt8) (h : symTermSlice b = false) :
    tokenText m (b :: l) = b :: tokenText m l := by
  simp [tokenText, symLen, symTerm_slice, h]

theorem tokenText_append (m : Mode) (a l : List UInt8) (h : ∀ b ∈ a, symTermSlice b = false) :
    tokenText m (a ++ l) = a ++ tokenText m l := by
  induction a with
  | nil => rfl
  | cons x xs ih =>
    rw [List.cons_append, tokenText_cons m x _ (h x (by simp)), ih (fun b hb => h b (by simp [hb]))]
    rfl

/-- the name `parse_symbol_bytes` returns is the scratch prefix followed by the token text -/
theorem parseSymbolBytes_name {sc name : List UInt8} {s s' : St}
    (h : parseSymbolBytes sc s = .ok name s') : name = sc ++ tokenText s.rd.mode s.rd.rest := by
  unfold parseSymbolBytes at h
  simp only [bind_apply, getRest_eq, getMode_eq, consumeN_eq] at h
  cases hp : peek (s.adv (symLen s.rd.mode s.rd.rest)) with
  | ok o s1 =>
    rw [hp] at h
    simp only at h
    unfold tokenText
    split at h
    · simp [errAt] at h
    · split at h
      · simp only [pure_apply, Res.ok.injEq] at h; exact h.1.symm
      · split at h
        · simp only [pure_apply, Res.ok.injEq] at h; exact h.1.symm
        · split at h <;> simp [errAt] at h
  | err e s1 => rw [hp] at h; cases h
  | panic p => rw [hp] at h; cases h
  | fuel => rw [hp] at h; cases h

/-- an arm that reads a symbol and hands it to `symbol_token` -/
theorem symArm_frame (o1 o2 : Options) (sc : List UInt8) (s : St)
    (h : AgreeOn (postfixKw (sc ++ tokenText s.rd.mode s.rd.rest)) o1 o2) :
    (parseSymbolBytes sc >>= fun name => pure (symbolToken o1 name)) s =
      (parseSymbolBytes sc >>= fun name => (pure (symbolToken o2 name) : P Token)) s := by
  apply bind_congr_ok
  intro name s' hn
  rw [parseSymbolBytes_name hn, symbolToken_agree o1 o2 _ h]

/-! ### the byte-vector reader depends on the build only -/

theorem parseNumber_congr {c1 c2 : Cfg} (h : NumCfgEq c1 c2) : parseNumber c1 = parseNumber c2 := by
  funext fuel
  simp only [parseNumber, parseRadixLiteral_congr h]

theorem byteListLoop_congr {c1 c2 : Cfg} (h : NumCfgEq c1 c2) (close : UInt8) (fuel : Nat) :
    byteListLoop c1 close fuel = byteListLoop c2 close fuel := by
  induction fuel with
  | zero => funext acc; rfl
  | succ f ih =>
    funext acc
    simp only [byteListLoop, ih, parseNumber_congr h]

theorem parseByteList_congr {c1 c2 : Cfg} (h : NumCfgEq c1 c2) :
    parseByteList c1 = parseByteList c2 := by
  funext fuel close
  simp only [parseByteList, byteListLoop_congr h]

/-! ### per-class frame lemmas, for every reader state -/

theorem sign_nonterm (sign : UInt8) (h : sign = 45 ∨ sign = 43) : symTermSlice sign = false := by
  rcases h with rfl | rfl <;> decide

/-- the options a sign-initial token exercises (the `+` / `-` clause of `Spec.tokenOpts`) -/
def signOpts (name tl : List UInt8) : List OptName :=
  if (tl.head?.getD 0 == 0 || isDelimiter (tl.head?.getD 0) || isSignSubsequent (tl.head?.getD 0)) = true
  then postfixKw name
  else if (tl.head?.getD 0 == 46) = true then
    (if isDigit ((tl.drop 1).head?.getD 0) = true then [] else postfixKw name)
  else []

theorem frame_sign (c1 c2 : Cfg) (fuel : Nat) (sign : UInt8) (pos : Bool) (tl : List UInt8) (s : St)
    (hn : NumCfgEq c1 c2) (hsg : sign = 45 ∨ sign = 43) (hr : s.rd.rest = sign :: tl)
    (ha : AgreeOn (signOpts (tokenText s.rd.mode (sign :: tl)) tl) c1.opts c2.opts) :
    parseSignToken c1 fuel sign pos s = parseSignToken c2 fuel sign pos s := by
  have hnt := sign_nonterm sign hsg
  unfold parseSignToken
  apply bind_congr_ok
  intro u s1 hd
  obtain ⟨b, tl', hr', rfl⟩ := discard_ok hd
  have hr1 : (s.adv 1).rd.rest = tl := by simp [hr]
  apply bind_congr_ok
  intro nxt s2 hp
  obtain ⟨rfl, hr2, hm2⟩ := peekOrNull_ok hp
  rw [hr1] at hr2
  have hm2' : s2.rd.mode = s.rd.mode := by rw [hm2]; simp
  rw [hr1]
  unfold signOpts at ha
  change AgreeOn (if (nextByte tl == 0 || isDelimiter (nextByte tl) || isSignSubsequent (nextByte tl))
    = true then _ else if (nextByte tl == 46) = true then
      (if isDigit (nextByte (tl.drop 1)) = true then _ else _) else _) c1.opts c2.opts at ha
  by_cases h1 : (nextByte tl == 0 || isDelimiter (nextByte tl) || isSignSubsequent (nextByte tl))
      = true
  · rw [if_pos h1] at ha
    simp only [h1, ↓reduceIte]
    apply symArm_frame
    rw [hr2, hm2']
    show AgreeOn (postfixKw (sign :: tokenText s.rd.mode tl)) c1.opts c2.opts
    rw [← tokenText_cons _ _ _ hnt]
    exact ha
  · rw [if_neg h1] at ha
    simp only [h1, Bool.false_eq_true, ↓reduceIte]
    by_cases h2 : (nextByte tl == 46) = true
    · rw [if_pos h2] at ha
      simp only [h2, ↓reduceIte]
      unfold parseSignDotSymbol
      apply bind_congr_ok
      intro u' s3 hd3
      obtain ⟨b3, tl3, hr3, rfl⟩ := discard_ok hd3
      rw [hr2] at hr3
      subst hr3
      have hb3 : b3 = 46 := by simpa [nextByte] using h2
      subst hb3
      have hr4 : (s2.adv 1).rd.rest = tl3 := by simp [hr2]
      apply bind_congr_ok
      intro c s5 hp5
      obtain ⟨rfl, hr5, hm5⟩ := peekOrNull_ok hp5
      rw [hr4] at hr5
      have hm5' : s5.rd.mode = s.rd.mode := by rw [hm5]; simp [hm2']
      rw [hr4]
      have hd1 : List.drop 1 (46 :: tl3) = tl3 := rfl
      rw [hd1] at ha
      by_cases h3 : isDigit (nextByte tl3) = true
      · simp only [h3, ↓reduceIte]
      · rw [if_neg h3] at ha
        simp only [h3, Bool.false_eq_true, ↓reduceIte]
        apply symArm_frame
        rw [hr5, hm5']
        have : [sign, 46] ++ tokenText s.rd.mode tl3 = tokenText s.rd.mode (sign :: 46 :: tl3) := by
          rw [tokenText_cons _ sign _ hnt, tokenText_cons _ 46 _ (by decide)]; rfl
        rw [this]
        exact ha
    · simp only [h2, Bool.false_eq_true, ↓reduceIte, parseNumToken_congr hn]

theorem frame_digit (c1 c2 : Cfg) (fuel : Nat) (pk : UInt8) (tl : List UInt8) (s : St)
    (hn : NumCfgEq c1 c2) (hd : isDigit pk = true) (hr : s.rd.rest = pk :: tl)
    (ha : AgreeOn (.leadingDigit ::
      (if c1.opts.leadingDigit = true then postfixKw (tokenText s.rd.mode (pk :: tl)) else []))
      c1.opts c2.opts) :
    parseToken c1 fuel pk s = parseToken c2 fuel pk s := by
  have hld := agree_leadingDigit ha (by simp)
  cases h : c1.opts.leadingDigit
  · rw [digit_number_arm c1 fuel pk hd h, digit_number_arm c2 fuel pk hd (by rw [← hld, h]),
      parseNumToken_congr hn]
  · obtain ⟨h35, h45, h43, _, _⟩ := digit_facts pk hd
    have h2 : c2.opts.leadingDigit = true := by rw [← hld, h]
    have d1 : ∀ cfg : Cfg, cfg.opts.leadingDigit = true → parseToken cfg fuel pk = (do
        let sym ← parseSymbolBytes []
        match wholeNumber cfg sym with
        | some n => pure (.number n)
        | none => pure (symbolToken cfg.opts sym)) := by
      intro cfg hc
      unfold parseToken
      simp only [h35, h45, h43, hd, Bool.false_eq_true, ↓reduceIte, hc]
      rfl
    rw [d1 c1 h, d1 c2 h2]
    apply bind_congr_ok
    intro name s' hnm
    have hname := parseSymbolBytes_name hnm
    simp only [List.nil_append, hr] at hname
    rw [wholeNumber_congr hn]
    cases wholeNumber c2 name with
    | some n => rfl
    | none =>
      simp only
      rw [symbolToken_agree c1.opts c2.opts name]
      rw [hname]
      have := ha.tail
      rw [h] at this
      simpa using this

theorem frame_colon (c1 c2 : Cfg) (fuel : Nat) (tl : List UInt8) (s : St)
    (hr : s.rd.rest = 58 :: tl)
    (ha : AgreeOn (.kwPrefix ::
      (if c1.opts.kwPrefix = true then [] else postfixKw (tokenText s.rd.mode (58 :: tl))))
      c1.opts c2.opts) :
    parseToken c1 fuel 58 s = parseToken c2 fuel 58 s := by
  have hk := agree_kwPrefix ha (by simp)
  have d1 : ∀ cfg : Cfg, parseToken cfg fuel 58 =
      (if cfg.opts.kwPrefix = true then do
        discard
        let name ← parseSymbolBytes []
        pure (.keyword name)
      else do
        let name ← parseSymbolBytes []
        pure (symbolToken cfg.opts name)) := by
    intro cfg
    unfold parseToken
    simp [isDigit]
  rw [d1 c1, d1 c2, ← hk]
  cases h : c1.opts.kwPrefix
  · simp only [Bool.false_eq_true, ↓reduceIte]
    apply symArm_frame
    have := ha.tail
    rw [h] at this
    simpa [hr] using this
  · rfl

/-- the letter arm after the name has been read -/
def letterTail (o : Options) (name : List UInt8) : P Token :=
  if o.kwPostfix && name.getLast? == some 58 then pure (.keyword name.dropLast)
  else if o.nil != .default && name == asc "nil" then
    match o.nil with
    | .emptyList => pure .null
    | .special => pure .nil
    | .default => panicAt .unreachable
  else if o.t != .default && name == asc "t" then
    match o.t with
    | .true_ => pure (.bool true)
    | .default => panicAt .unreachable
  else pure (.symbol name)

theorem letterTail_eq (o : Options) (name : List UInt8) (s : St) :
    letterTail o name s = .ok (letterTok o name) s := by
  unfold letterTail letterTok
  cases hn : o.nil <;> cases htt : o.t <;> cases hk : o.kwPostfix <;>
    by_cases h1 : name.getLast? = some 58 <;> by_cases h2 : name = asc "nil" <;>
    by_cases h3 : name = asc "t" <;> simp [h1, h2, h3] <;> (split <;> rfl)

theorem letter_dispatch (cfg : Cfg) (fuel : Nat) (pk : UInt8) (hl : isAsciiAlpha pk = true) :
    parseToken cfg fuel pk = (parseSymbolBytes [] >>= fun name => letterTail cfg.opts name) := by
  obtain ⟨h35, h45, h43, hd, h34, h40, h91, h58, _⟩ := alpha_facts pk hl
  unfold parseToken letterTail
  simp only [h35, h45, h43, hd, h34, h40, h91, h58, hl, Bool.false_eq_true, ↓reduceIte]
  rfl

theorem frame_alpha (c1 c2 : Cfg) (fuel : Nat) (pk : UInt8) (tl : List UInt8) (s : St)
    (hl : isAsciiAlpha pk = true) (hr : s.rd.rest = pk :: tl)
    (ha : AgreeOn (postfixKw (tokenText s.rd.mode (pk :: tl)) ++
      (if (tokenText s.rd.mode (pk :: tl) == asc "nil") = true then [.nil] else []) ++
      (if (tokenText s.rd.mode (pk :: tl) == asc "t") = true then [.t] else []))
      c1.opts c2.opts) :
    parseToken c1 fuel pk s = parseToken c2 fuel pk s := by
  rw [letter_dispatch c1 fuel pk hl, letter_dispatch c2 fuel pk hl]
  apply bind_congr_ok
  intro name s' hnm
  have hname := parseSymbolBytes_name hnm
  simp only [List.nil_append, hr] at hname
  rw [← hname] at ha
  rw [letterTail_eq, letterTail_eq]
  have hnt : symTermSlice pk = false := (alpha_facts pk hl).2.2.2.2.2.2.2.2
  have hhead : name.head? = some pk := by rw [hname, tokenText_cons _ _ _ hnt]; rfl
  have h58 : pk ≠ 58 := by
    have := (alpha_facts pk hl).2.2.2.2.2.2.2.1
    simpa using this
  congr 1
  apply letterTok_frame
  · by_cases hl58 : name.getLast? = some 58
    · left
      have hlen : name.length > 1 := by
        match name, hhead, hl58 with
        | [], hh, _ => simp at hh
        | [x], hh, hl => simp at hh hl; rw [hh] at hl; exact absurd hl h58
        | _ :: _ :: _, _, _ => simp
      apply agree_kwPostfix ha.left.left
      simp [postfixKw, hlen, hl58]
    · exact .inr hl58
  · by_cases hnil : name = asc "nil"
    · left
      apply agree_nil ha.left.right
      simp [hnil]
    · exact .inr hnil
  · by_cases ht : name = asc "t"
    · left
      apply agree_t ha.right
      simp [ht]
    · exact .inr ht

theorem ext_dispatch (cfg : Cfg) (fuel : Nat) (pk : UInt8) (he : isSymbolExtended pk = true)
    (h58 : pk ≠ 58) (hq : pk = 63 → cfg.opts.char ≠ .elisp) :
    parseToken cfg fuel pk =
      (parseSymbolBytes [] >>= fun name => pure (symbolToken cfg.opts name)) := by
  obtain ⟨h35, h45, h43, hd, h34, h40, h91, ha, h39, h96, h44, h127, _⟩ := ext_facts_tok pk he
  have hq' : (pk == 63 && cfg.opts.char == CharSyntax.elisp) = false := by
    by_cases h : pk = 63
    · have := hq h
      simp [h, this]
    · simp [h]
  have h127' : ¬ (pk > 127) := by simpa using h127
  unfold parseToken
  simp only [h35, h45, h43, hd, h34, h40, h91, ha, h39, h96, h44, h127', hq', he, h58,
    beq_iff_eq, Bool.false_eq_true, ↓reduceIte]

theorem frame_ext (c1 c2 : Cfg) (fuel : Nat) (pk : UInt8) (tl : List UInt8) (s : St)
    (he : isSymbolExtended pk = true) (h58 : pk ≠ 58)
    (hq1 : pk = 63 → c1.opts.char ≠ .elisp) (hq2 : pk = 63 → c2.opts.char ≠ .elisp)
    (hr : s.rd.rest = pk :: tl)
    (ha : AgreeOn (postfixKw (tokenText s.rd.mode (pk :: tl))) c1.opts c2.opts) :
    parseToken c1 fuel pk s = parseToken c2 fuel pk s := by
  rw [ext_dispatch c1 fuel pk he h58 hq1, ext_dispatch c2 fuel pk he h58 hq2]
  apply symArm_frame
  simpa [hr] using ha

theorem frame_qmark (c1 c2 : Cfg) (fuel : Nat) (tl : List UInt8) (s : St)
    (hr : s.rd.rest = 63 :: tl)
    (ha : AgreeOn (.char ::
      (if (c1.opts.char == .elisp) = true then [] else postfixKw (tokenText s.rd.mode (63 :: tl))))
      c1.opts c2.opts) :
    parseToken c1 fuel 63 s = parseToken c2 fuel 63 s := by
  have hc := agree_char ha (by simp)
  cases h : c1.opts.char
  · have h2 : c2.opts.char = .r6rs := by rw [← hc, h]
    apply frame_ext c1 c2 fuel 63 tl s (by decide) (by decide) (by intro _; rw [h]; decide)
      (by intro _; rw [h2]; decide) hr
    have := ha.tail
    rw [h] at this
    simpa using this
  · rw [qmark_elisp_arm c1 fuel h, qmark_elisp_arm c2 fuel (by rw [← hc, h])]

/-! ### the non-ASCII arm -/

theorem bind_ok' {α β : Type} {m : P α} {f : α → P β} {s s' : St} {b : β}
    (h : (m >>= f) s = .ok b s') : ∃ a s1, m s = .ok a s1 ∧ f a s1 = .ok b s' := by
  rw [bind_apply] at h
  cases hm : m s with
  | ok a s1 => rw [hm] at h; exact ⟨a, s1, rfl, h⟩
  | err e s1 => rw [hm] at h; cases h
  | panic p => rw [hm] at h; cases h
  | fuel => rw [hm] at h; cases h

theorem readCont_ok' (n : Nat) : ∀ {acc : List UInt8} {s s' : St} {bytes : List UInt8},
    readCont n acc s = .ok bytes s' →
    s'.rd.mode = s.rd.mode ∧ ∃ more, more.length = n ∧ bytes = acc ++ more ∧
      s.rd.rest = more ++ s'.rd.rest := by
  induction n with
  | zero =>
    intro acc s s' bytes h
    simp only [readCont, pure_apply, Res.ok.injEq] at h
    obtain ⟨rfl, rfl⟩ := h
    exact ⟨rfl, [], rfl, by simp, rfl⟩
  | succ n ih =>
    intro acc s s' bytes h
    simp only [readCont] at h
    obtain ⟨a, s1, hn, h⟩ := bind_ok' h
    rcases next_ok hn with ⟨rfl, _, _⟩ | ⟨b, tl, rfl, hr, rfl⟩
    · simp [errAt] at h
    · obtain ⟨hm, more, hl, hb, hr2⟩ := ih h
      refine ⟨by rw [hm]; simp, b :: more, by simp [hl], by simp [hb], ?_⟩
      rw [hr]
      simp only [adv_rest, hr, List.drop_succ_cons, List.drop_zero] at hr2
      rw [hr2]; rfl

/-- what a successful `decode_utf8_sequence` returns: the bytes it consumed together with the
    initial byte, none of which is ASCII -/
theorem decode_ok {pk : UInt8} {s s' : St} {c : Nat} {bytes : List UInt8} (hpk : pk > 127)
    (h : decodeUtf8Sequence pk s = .ok (c, bytes) s') :
    s'.rd.mode = s.rd.mode ∧ pk :: s.rd.rest = bytes ++ s'.rd.rest ∧ ∀ b ∈ bytes, 0x80 ≤ b := by
  unfold decodeUtf8Sequence at h
  have hsl : (if (0xC0 ≤ pk && pk ≤ 0xDF) = true then some 1
      else if (0xE0 ≤ pk && pk ≤ 0xF7) = true then some ((pk.toNat - 0xC0) / 16) else none)
      = seqLen pk := rfl
  rw [hsl] at h
  cases hlen : seqLen pk with
  | none => rw [hlen] at h; simp [errAt] at h
  | some n =>
    rw [hlen] at h
    simp only at h
    obtain ⟨bs, s1, hrc, h⟩ := bind_ok' h
    obtain ⟨hm, more, hml, hb, hr⟩ := readCont_ok' n hrc
    by_cases hv : Utf8.valid bs = true
    · rw [if_pos hv] at h
      cases hd : Utf8.decodeFirst bs with
      | none => rw [hd] at h; simp [panicAt] at h
      | some p =>
        obtain ⟨c', r⟩ := p
        rw [hd] at h
        simp only [pure_apply, Res.ok.injEq, Prod.mk.injEq] at h
        obtain ⟨⟨_, rfl⟩, rfl⟩ := h
        refine ⟨hm, by rw [hb, hr]; rfl, ?_⟩
        -- every byte is at least 0x80
        subst hb
        have hok := stepOk_all pk hpk
        unfold stepOk at hok
        simp only [Utf8.valid, List.singleton_append, Utf8.run, beq_iff_eq] at hv
        cases hstep : Utf8.step .idle pk with
        | none => rw [hstep] at hv; simp at hv
        | some st =>
          rw [hstep] at hv hok
          cases st with
          | idle => simp at hok
          | mid n' lo hi =>
            simp only [Bool.and_eq_true, beq_iff_eq, decide_eq_true_eq] at hok
            obtain ⟨⟨hsl', hn1⟩, hlo⟩ := hok
            rw [hlen] at hsl'
            have hnn : n = n' := Option.some.inj hsl'
            subst hnn
            obtain ⟨m, rfl⟩ : ∃ m, n = m + 1 := ⟨n - 1, by omega⟩
            simp only at hv
            obtain ⟨cont, tl', rfl, hcl, hall, _, _⟩ := run_mid_split m lo hi more hlo hv
            have : tl' = [] := by
              have : tl'.length = 0 := by simp only [List.length_append] at hml; omega
              exact List.length_eq_zero_iff.mp this
            subst this
            intro b hb
            simp only [List.singleton_append, List.append_nil, List.mem_cons] at hb
            rcases hb with rfl | hb
            · have : ∀ x : UInt8, x > 127 → 0x80 ≤ x := by apply byte_forall; decide +kernel
              exact this _ hpk
            · exact hall b hb
    · rw [if_neg hv] at h
      simp [errAt] at h

theorem frame_hi (c1 c2 : Cfg) (fuel : Nat) (pk : UInt8) (tl : List UInt8) (s : St)
    (hal : c1.isAlphabetic = c2.isAlphabetic) (hpk : pk > 127) (hr : s.rd.rest = pk :: tl)
    (ha : AgreeOn (postfixKw (tokenText s.rd.mode (pk :: tl))) c1.opts c2.opts) :
    parseToken c1 fuel pk s = parseToken c2 fuel pk s := by
  rw [hi_dispatch c1 fuel pk hpk, hi_dispatch c2 fuel pk hpk]
  apply bind_congr_ok
  intro u s1 hd
  obtain ⟨b, tl', hr', rfl⟩ := discard_ok hd
  have hr1 : (s.adv 1).rd.rest = tl := by simp [hr]
  apply bind_congr_ok
  intro cb s3 hdec
  obtain ⟨c, bytes⟩ := cb
  obtain ⟨hm3, hr3, hall⟩ := decode_ok hpk hdec
  rw [hr1] at hr3
  simp only [hal]
  by_cases hA : c2.isAlphabetic c = true
  · simp only [hA, Bool.not_true, Bool.false_eq_true, ↓reduceIte]
    apply symArm_frame
    have : bytes ++ tokenText s3.rd.mode s3.rd.rest = tokenText s.rd.mode (pk :: tl) := by
      rw [hr3, tokenText_append _ _ _ (fun b hb => (ge80_facts b (hall b hb)).1), hm3]
      simp
    rw [this]
    exact ha
  · simp only [hA, Bool.not_false, ↓reduceIte]

/-! ### the token-level frame lemma -/

theorem other_frame (c1 c2 : Cfg) (fuel : Nat) (pk : UInt8)
    (h35 : (pk == 35) = false) (h45 : (pk == 45) = false) (h43 : (pk == 43) = false)
    (hd : isDigit pk = false) (h34 : (pk == 34) = false) (h40 : (pk == 40) = false)
    (h91 : (pk == 91) = false) (h58 : (pk == 58) = false) (hal : isAsciiAlpha pk = false)
    (h63 : (pk == 63) = false) (h39 : (pk == 39) = false) (h96 : (pk == 96) = false)
    (h44 : (pk == 44) = false) (h127 : ¬ pk > 127) (he : isSymbolExtended pk = false) :
    parseToken c1 fuel pk = parseToken c2 fuel pk := by
  unfold parseToken
  simp only [h35, h45, h43, hd, h34, h40, h91, h58, hal, h63, h39, h96, h44, h127, he,
    Bool.false_and, Bool.false_eq_true, ↓reduceIte]

end C08

open C08 Spec

/-- **The token-level frame lemma.**  For every reader state (any source mode, any input):
    two configurations of the same build whose option sets agree on the options that the token
    at the head of the input exercises (`Spec.tokenOpts`, a function of the first bytes and the
    text of the token) give the same result of `parse_token` — the same token and state, or the
    same error and state. -/
theorem tokenOpts_frame (c1 c2 : Cfg) (hb : SameBuild c1 c2) (fuel : Nat) (pk : UInt8) (s : St)
    (hpk : s.rd.rest.head? = some pk)
    (ha : AgreeOn (tokenOpts c1.opts s.rd.mode s.rd.rest) c1.opts c2.opts) :
    parseToken c1 fuel pk s = parseToken c2 fuel pk s := by
  have hn : NumCfgEq c1 c2 := ⟨hb.fast, hb.pow10⟩
  cases hr : s.rd.rest with
  | nil => rw [hr] at hpk; cases hpk
  | cons b tl =>
    rw [hr] at hpk
    simp only [List.head?_cons, Option.some.injEq] at hpk
    subst hpk
    rw [hr] at ha
    simp only [tokenOpts] at ha
    by_cases h35 : (b == 35) = true
    · rw [if_pos h35] at ha
      have e : b = 35 := by simpa using h35
      subst e
      cases tl with
      | nil => exact hash_fixed c1 c2 fuel s [] hn hr (by simp) (by simp)
      | cons c x =>
        simp only at ha
        by_cases h58 : (c == 58) = true
        · rw [if_pos h58] at ha
          have e : c = 58 := by simpa using h58
          subst e
          exact hash_colon_frame c1 c2 fuel s x hr (agree_kwOctothorpe ha (by simp))
        · rw [if_neg h58] at ha
          by_cases h37 : (c == 37) = true
          · rw [if_pos h37] at ha
            have e : c = 37 := by simpa using h37
            subst e
            exact hash_percent_frame c1 c2 fuel s x hr (agree_racket ha (by simp))
          · exact hash_fixed c1 c2 fuel s (c :: x) hn hr (by simpa using h58) (by simpa using h37)
    rw [if_neg h35] at ha
    have h35' : (b == 35) = false := by simpa using h35
    by_cases hsg : (b == 45 || b == 43) = true
    · rw [if_pos hsg] at ha
      have hsg' : b = 45 ∨ b = 43 := by simpa using hsg
      have hd : parseToken c1 fuel b = parseSignToken c1 fuel b (b == 43) ∧
          parseToken c2 fuel b = parseSignToken c2 fuel b (b == 43) := by
        rcases hsg' with rfl | rfl
        · exact ⟨(sign_dispatch c1 fuel).1, (sign_dispatch c2 fuel).1⟩
        · exact ⟨(sign_dispatch c1 fuel).2, (sign_dispatch c2 fuel).2⟩
      rw [hd.1, hd.2]
      exact frame_sign c1 c2 fuel b (b == 43) tl s hn hsg' hr ha
    rw [if_neg hsg] at ha
    have h45 : (b == 45) = false := by
      cases h : b == 45
      · rfl
      · simp [h] at hsg
    have h43 : (b == 43) = false := by
      cases h : b == 43
      · rfl
      · simp [h] at hsg
    by_cases hdg : isDigit b = true
    · rw [if_pos hdg] at ha
      exact frame_digit c1 c2 fuel b tl s hn hdg hr ha
    rw [if_neg hdg] at ha
    have hdg' : isDigit b = false := by simpa using hdg
    by_cases h34 : (b == 34) = true
    · have e : b = 34 := by simpa using h34
      subst e
      rw [if_pos h34] at ha
      rw [C08_frame_string c1 c2 fuel (agree_string ha (by simp))]
    rw [if_neg h34] at ha
    have h34' : (b == 34) = false := by simpa using h34
    by_cases h40 : (b == 40) = true
    · have e : b = 40 := by simpa using h40
      subst e
      rw [C08_frame_punct c1 c2 fuel 40 (.inl rfl)]
    rw [if_neg h40] at ha
    have h40' : (b == 40) = false := by simpa using h40
    by_cases h91 : (b == 91) = true
    · have e : b = 91 := by simpa using h91
      subst e
      rw [if_pos h91] at ha
      rw [C08_frame_bracket c1 c2 fuel (agree_brackets ha (by simp))]
    rw [if_neg h91] at ha
    have h91' : (b == 91) = false := by simpa using h91
    by_cases h58 : (b == 58) = true
    · have e : b = 58 := by simpa using h58
      subst e
      rw [if_pos h58] at ha
      exact frame_colon c1 c2 fuel tl s hr ha
    rw [if_neg h58] at ha
    have h58' : (b == 58) = false := by simpa using h58
    by_cases hal : isAsciiAlpha b = true
    · rw [if_pos hal] at ha
      exact frame_alpha c1 c2 fuel b tl s hal hr ha
    rw [if_neg hal] at ha
    have hal' : isAsciiAlpha b = false := by simpa using hal
    by_cases h63 : (b == 63) = true
    · have e : b = 63 := by simpa using h63
      subst e
      rw [if_pos h63] at ha
      exact frame_qmark c1 c2 fuel tl s hr ha
    rw [if_neg h63] at ha
    have h63' : (b == 63) = false := by simpa using h63
    by_cases hq : (b == 39 || b == 96 || b == 44) = true
    · have hq' : b = 39 ∨ b = 96 ∨ b = 44 := by simpa [or_assoc] using hq
      rw [C08_frame_punct c1 c2 fuel b (.inr hq')]
    rw [if_neg hq] at ha
    have h39 : (b == 39) = false := by
      cases h : b == 39
      · rfl
      · simp [h] at hq
    have h96 : (b == 96) = false := by
      cases h : b == 96
      · rfl
      · simp [h] at hq
    have h44 : (b == 44) = false := by
      cases h : b == 44
      · rfl
      · simp [h] at hq
    by_cases hhi : b > 127
    · rw [if_pos hhi] at ha
      exact frame_hi c1 c2 fuel b tl s hb.alpha hhi hr ha
    rw [if_neg hhi] at ha
    by_cases he : isSymbolExtended b = true
    · rw [if_pos he] at ha
      have hne58 : b ≠ 58 := by simpa using h58'
      have hne63 : b ≠ 63 := by simpa using h63'
      exact frame_ext c1 c2 fuel b tl s he hne58 (fun h => absurd h hne63)
        (fun h => absurd h hne63) hr ha
    have he' : isSymbolExtended b = false := by simpa using he
    rw [other_frame c1 c2 fuel b h35' h45 h43 hdg' h34' h40' h91' h58' hal' h63' h39 h96 h44 hhi he']

/-! ### `Spec.tokenOpts` read declaratively -/

/-- on a whole token (followed by a terminator or the end of input) the token text is the token -/
theorem tokenText_token (name rest : List UInt8) (h : IsBody name rest) :
    tokenText .slice (name ++ rest) = name := by
  simp [tokenText, symLen_body name rest h]

/-- `nil` ⇒ the nil option, `t` ⇒ the t option, a final `:` ⇒ colon-postfix keywords, an initial
    `:` ⇒ colon-prefix keywords, `#:` ⇒ octothorpe keywords, `[` ⇒ brackets, `"` ⇒ string syntax,
    `?` ⇒ character syntax, `#%` ⇒ Racket symbols, a digit ⇒ leading-digit symbols;
    other tokens exercise nothing -/
example :
    tokenOpts Options.default .slice (asc "nil)") = [.nil] ∧
    tokenOpts Options.default .slice (asc "t") = [.t] ∧
    tokenOpts Options.default .slice (asc "nil: x") = [.kwPostfix] ∧
    tokenOpts Options.default .slice (asc "+foo:") = [.kwPostfix] ∧
    tokenOpts Options.default .slice [206, 187, 58] = [.kwPostfix] ∧
    tokenOpts Options.default .slice (asc ":k") = [.kwPrefix] ∧
    tokenOpts Options.default .slice (asc ":k:") = [.kwPrefix, .kwPostfix] ∧
    tokenOpts Options.elisp .slice (asc ":k:") = [.kwPrefix] ∧
    tokenOpts Options.default .slice (asc "#:k") = [.kwOctothorpe] ∧
    tokenOpts Options.default .slice (asc "[a]") = [.brackets] ∧
    tokenOpts Options.default .slice (asc "\"s\"") = [.string] ∧
    tokenOpts Options.default .slice (asc "?a:") = [.char, .kwPostfix] ∧
    tokenOpts Options.elisp .slice (asc "?a:") = [.char] ∧
    tokenOpts Options.default .slice (asc "#%app") = [.racket] ∧
    tokenOpts Options.default .slice (asc "1+:") = [.leadingDigit] ∧
    tokenOpts Options.elisp .slice (asc "1+:") = [.leadingDigit, .kwPostfix] ∧
    tokenOpts Options.default .slice (asc "nilx") = [] ∧
    tokenOpts Options.default .slice (asc "-5") = [] ∧
    tokenOpts Options.default .slice (asc "+5:") = [] ∧
    tokenOpts Options.default .slice (asc "#t") = [] ∧
    tokenOpts Options.default .slice (asc "(") = [] ∧
    tokenOpts Options.default .slice (asc "]") = [] ∧
    tokenOpts Options.default .slice (asc "'x") = [] ∧
    tokenOpts Options.default .slice (asc "...") = [] := by decide

end Parse
end Lexpr

#print axioms Lexpr.Parse.tokenOpts_frame
