/-
  C11, re-parse clause — the parser: `next_value` treats the end of the input like the byte at
  which it stopped (`TrK 0`); the list and vector loops, which stop in front of the closing
  bracket, are followed strictly before the boundary (`TrK 1`).
-/
import LexprModel.Proofs.ReparseLex
namespace Lexpr
namespace Parse
namespace Reparse
open Progress Spans

/-! ### `attempt`, and the `enter … leave` bracket -/

section rules
variable {α β : Type} {k : Nat}

theorem attempt_fuel {m : P α} {s : St} (h : m s = .fuel) : attempt m s = .fuel := by
  unfold attempt; rw [h]

theorem attempt_ok_eq {m : P α} {s s' : St} {a : α} (h : m s = .ok a s') :
    attempt m s = .ok (.ok a) s' := by
  unfold attempt; rw [h]

/-- `attempt m` followed by a continuation that re-raises a captured error -/
theorem TrK.bind_attempt {m m' : P α} {f f' : Except Err α → P β} (hm : TrK k m m')
    (hok : ∀ a, TrK k (f (.ok a)) (f' (.ok a))) (herr : ∀ e, NeverOk (f (.error e))) :
    TrK k (attempt m >>= f) (attempt m' >>= f') := by
  intro r S s b S' hrel h
  obtain ⟨ret, S1, h1, h2⟩ := bind_ok h
  rcases attempt_ok h1 with ⟨a, rfl, hk⟩ | ⟨e, rfl, _⟩
  · obtain ⟨fr1, t1⟩ := hm r S s a S1 hrel hk
    have fr2 := (hok a).frame S1 b S' h2
    refine ⟨fr1.trans fr2, fun hl => ?_⟩
    rcases t1 (by have := fr2.1; omega) with hfu | ⟨s1, hs1, hrel1⟩
    · exact Or.inl (bind_fuel (attempt_fuel hfu))
    · rw [bind_ok_eq (attempt_ok_eq hs1)]
      exact (hok a r S1 s1 b S' hrel1 h2).2 hl
  · exact absurd h2 (herr e _ _ _)

theorem leave_eq (S : St) : leave S = .ok () { S with depth := S.depth + 1 } := rfl

/-- `enter; attempt m; leave; g`: the depth budget is taken and given back; `g` consumes `p`
    bytes, so `m` only has to be followed `k + p` bytes before the boundary -/
theorem TrK.bracket {j : Nat} {m m' : P α} {g g' : Except Err α → P β}
    (hm : TrK j m m') (hg : ∀ a, TrK k (g (.ok a)) (g' (.ok a)))
    (herr : ∀ e, NeverOk (g (.error e)))
    (hp : ∀ a S b S', g (.ok a) S = .ok b S' → S'.rd.rest.length + j ≤ S.rd.rest.length + k) :
    TrK k (enter >>= fun _ => attempt m >>= fun ret => leave >>= fun _ => g ret)
      (enter >>= fun _ => attempt m' >>= fun ret => leave >>= fun _ => g' ret) := by
  intro r S s b S' hrel h
  obtain ⟨_, S3, h1, h⟩ := bind_ok h
  obtain ⟨hd, rfl⟩ := enter_ok h1
  obtain ⟨ret, S4, h2, h⟩ := bind_ok h
  obtain ⟨_, S5, h3, h4⟩ := bind_ok h
  rw [leave_eq] at h3
  cases h3
  rcases attempt_ok h2 with ⟨a, rfl, hk⟩ | ⟨e, rfl, _⟩
  · have hrel3 : TRel r { S with depth := S.depth - 1 } { s with depth := s.depth - 1 } :=
      ⟨hrel.1, hrel.2.1, hrel.2.2.1, by have := hrel.2.2.2; show S.depth - 1 ≤ s.depth - 1; omega⟩
    obtain ⟨fr1, t1⟩ := hm r _ _ a S4 hrel3 hk
    have fr2 := (hg a).frame _ b S' h4
    have hdep : S4.depth + 1 = S.depth := by
      have : S4.depth = S.depth - 1 := fr1.2
      omega
    refine ⟨⟨Nat.le_trans fr2.1 fr1.1, by rw [fr2.2]; exact hdep⟩, fun hl => ?_⟩
    have hs2 : 2 ≤ s.depth := Nat.le_trans hd hrel.2.2.2
    rw [bind_ok_eq (enter_of_le hs2)]
    have hp' := hp a _ b S' h4
    rcases t1 (by
        have : ({ S4 with depth := S4.depth + 1 } : St).rd.rest.length = S4.rd.rest.length := rfl
        omega) with hfu | ⟨s4, hs4, hrel4⟩
    · exact Or.inl (bind_fuel (attempt_fuel hfu))
    · rw [bind_ok_eq (attempt_ok_eq hs4), bind_ok_eq (leave_eq s4)]
      have hrel5 : TRel r { S4 with depth := S4.depth + 1 } { s4 with depth := s4.depth + 1 } :=
        ⟨hrel4.1, hrel4.2.1, hrel4.2.2.1, by
          have := hrel4.2.2.2; show S4.depth + 1 ≤ s4.depth + 1; omega⟩
      exact (hg a r _ _ b S' hrel5 h4).2 hl
  · exact absurd h4 (herr e _ _ _)

end rules

/-! ### Parse.lean -/

theorem endSeq_t {close : UInt8} : TrK 0 (endSeq close) (endSeq close) := by
  unfold endSeq
  tr []
  bd []

/-- a successful `end_seq` has consumed the closing bracket -/
theorem endSeq_prog {close : UInt8} {S S' : St} (h : endSeq close S = .ok () S') :
    S'.rd.rest.length < S.rd.rest.length := by
  unfold endSeq at h
  obtain ⟨o, S1, h1, h2⟩ := bind_ok h
  have hm : MonoOk parseWhitespace := by mono
  have := hm S o S1 h1
  cases o with
  | none => cases h2
  | some b =>
    dsimp only at h2
    split at h2
    · have hne : S1.rd.rest ≠ [] := by
        intro h0
        rw [discard_nil h0] at h2
        cases h2
      have := Prog.discard S1 () S' hne h2
      omega
    · cases h2

theorem byteListLoop_t {cfg : Cfg} {close : UInt8} {f f' : Nat} {acc : List UInt8} :
    TrK 0 (byteListLoop cfg close f acc) (byteListLoop cfg close f' acc) := by
  induction f generalizing f' acc with
  | zero => exact TrK.fuel0 rfl
  | succ f ih =>
    have main : ∀ g, TrK 0 (byteListLoop cfg close (f + 1) acc) (byteListLoop cfg close (g + 1) acc) := by
      intro g
      unfold byteListLoop
      tr [parseNumber_t, expectNumberEnd_t, ih]
      bd []
    cases f' with
    | zero => exact TrK.right_fuel (main 0).frame rfl
    | succ g => exact main g

theorem parseByteList_t {cfg : Cfg} {close : UInt8} {f f' : Nat} :
    TrK 0 (parseByteList cfg f close) (parseByteList cfg f' close) := by
  unfold parseByteList
  tr [byteListLoop_t]
  bd []

/-- what follows the trivia in `next_value`: the token and what it opens -/
def afterWs (cfg : Cfg) (f : Nat) (pk : UInt8) : P (Option Value) := do
  let tf ← tokenFuel
  let tok ← parseToken cfg tf pk
  match tok with
  | .byteVecOpen close => do
    let bs ← parseByteList cfg tf close
    pure (some (.bytes bs))
  | .vecOpen close => do
    enter
    let ret ← attempt (parseVector cfg f close [])
    leave
    let es ← attempt (endSeq close)
    match ret, es with
    | .ok xs, .ok () => pure (some (.vector xs))
    | .error e, _ => liftExcept (.error e)
    | _, .error e => liftExcept (.error e)
  | .listOpen close => do
    enter
    let ret ← attempt (parseList cfg f close [])
    leave
    let es ← attempt (endSeq close)
    match ret, es with
    | .ok v, .ok () => pure (some v)
    | .error e, _ => liftExcept (.error e)
    | _, .error e => liftExcept (.error e)
  | .quotation q => do
    enter
    let ret ← attempt (nextValue cfg f)
    leave
    match ret with
    | .error e => liftExcept (.error e)
    | .ok none => peekErr .eofList
    | .ok (some d) => pure (some (Value.list [.symbol q.name, d]))
  | t => match t.atom with
    | some v => pure (some v)
    | none => panicAt .unreachable

theorem nextValue_succ (cfg : Cfg) (f : Nat) :
    nextValue cfg (f + 1) = (parseWhitespace >>= fun o =>
      match o with
      | none => pure none
      | some pk => afterWs cfg f pk) := by
  rw [nextValue]
  rfl

/-- from a state that stands at `pk`, a successful `afterWs` consumes -/
theorem afterWs_prog (cfg : Cfg) (f : Nat) (pk : UInt8) {S S' : St} {a : Option Value}
    {t : List UInt8} (hS : S.rd.rest = pk :: t) (h : afterWs cfg f pk S = .ok a S') :
    S'.rd.rest.length < S.rd.rest.length := by
  unfold afterWs at h
  obtain ⟨tf, S1, h1, h⟩ := bind_ok h
  cases h1
  obtain ⟨tok, S2, h2, h3⟩ := bind_ok h
  have hsp := (parseToken_spec (cfg := cfg) (fuel := S.rd.rest.length + 1) (pk := pk) (s := S)
    (by rw [hS]; rfl)).ok h2
  have hlen := hsp.len
  have hm : MonoOk (match tok with
      | .byteVecOpen close => do
        let bs ← parseByteList cfg (S.rd.rest.length + 1) close
        pure (some (.bytes bs))
      | .vecOpen close => do
        enter
        let ret ← attempt (parseVector cfg f close [])
        leave
        let es ← attempt (endSeq close)
        match ret, es with
        | .ok xs, .ok () => pure (some (.vector xs))
        | .error e, _ => liftExcept (.error e)
        | _, .error e => liftExcept (.error e)
      | .listOpen close => do
        enter
        let ret ← attempt (parseList cfg f close [])
        leave
        let es ← attempt (endSeq close)
        match ret, es with
        | .ok v, .ok () => pure (some v)
        | .error e, _ => liftExcept (.error e)
        | _, .error e => liftExcept (.error e)
      | .quotation q => do
        enter
        let ret ← attempt (nextValue cfg f)
        leave
        match ret with
        | .error e => liftExcept (.error e)
        | .ok none => peekErr .eofList
        | .ok (some d) => pure (some (Value.list [.symbol q.name, d]))
      | t => match t.atom with
        | some v => (pure (some v) : P (Option Value))
        | none => panicAt .unreachable) := by mono
  have := hm S2 a S' h3
  omega

set_option hygiene false in
/-- the part of the list / vector branch after `leave` consumes the closing bracket -/
macro "close_prog " h:ident : tactic => `(tactic| (
  obtain ⟨es, S1, h1, h2⟩ := bind_ok $h
  rcases attempt_ok h1 with ⟨a, rfl, hk⟩ | ⟨e, rfl, _⟩
  · cases a
    dsimp only at h2
    cases h2
    have := endSeq_prog hk
    omega
  · cases h2))

/-- `afterWs`, given the three mutually recursive functions one level down -/
theorem afterWs_of {cfg : Cfg} {f g : Nat}
    (h1 : TrK 0 (nextValue cfg f) (nextValue cfg g))
    (h2 : ∀ term acc, TrK 1 (parseList cfg f term acc) (parseList cfg g term acc))
    (h3 : ∀ term acc, TrK 1 (parseVector cfg f term acc) (parseVector cfg g term acc))
    (pk : UInt8) : TrK 0 (afterWs cfg f pk) (afterWs cfg g pk) := by
  unfold afterWs
  refine TrK.bind_tokenFuel fun n n' => ?_
  refine TrK.bind parseToken_t fun tok => ?_
  cases tok with
  | byteVecOpen close => dsimp only; tr [parseByteList_t]
  | vecOpen close =>
    dsimp only
    refine TrK.bracket (h3 _ _) (fun xs => ?_) (fun e => ?_) (fun xs S b S' h => ?_)
    · refine TrK.bind_attempt endSeq_t (fun u => ?_) (fun e => ?_)
      · cases u; exact TrK.pure
      · rel_wp []
    · rel_wp []
    · close_prog h
  | listOpen close =>
    dsimp only
    refine TrK.bracket (h2 _ _) (fun v => ?_) (fun e => ?_) (fun v S b S' h => ?_)
    · refine TrK.bind_attempt endSeq_t (fun u => ?_) (fun e => ?_)
      · cases u; exact TrK.pure
      · rel_wp []
    · rel_wp []
    · close_prog h
  | quotation q =>
    dsimp only
    refine TrK.bracket h1 (fun o => ?_) (fun e => ?_) (fun o S b S' h => ?_)
    · cases o with
      | none => exact TrK.peekErr
      | some d => exact TrK.pure
    · rel_wp []
    · cases o with
      | none => cases h
      | some d => cases h; omega
  | _ => dsimp only [Token.atom]; tr []

theorem value_ts (cfg : Cfg) : ∀ f f' : Nat,
    TrK 0 (nextValue cfg f) (nextValue cfg f') ∧
    (∀ term acc, TrK 1 (parseList cfg f term acc) (parseList cfg f' term acc)) ∧
    (∀ term acc, TrK 1 (parseVector cfg f term acc) (parseVector cfg f' term acc)) := by
  intro f
  induction f with
  | zero => intro f'; exact ⟨TrK.fuel0 rfl, fun _ _ => TrK.fuel0 rfl, fun _ _ => TrK.fuel0 rfl⟩
  | succ f ih =>
    have main : ∀ g,
        TrK 0 (nextValue cfg (f + 1)) (nextValue cfg (g + 1)) ∧
        (∀ term acc, TrK 1 (parseList cfg (f + 1) term acc) (parseList cfg (g + 1) term acc)) ∧
        (∀ term acc, TrK 1 (parseVector cfg (f + 1) term acc) (parseVector cfg (g + 1) term acc)) := by
      intro g
      have ih' := ih g
      refine ⟨?_, ?_, ?_⟩
      · rw [nextValue_succ, nextValue_succ]
        refine TrK.bind_parseWhitespace (fun o => ?_) (fun b => ?_)
        · cases o with
          | none => exact TrK.pure
          | some pk => exact afterWs_of ih'.1 ih'.2.1 ih'.2.2 pk
        · dsimp only
          exact Bd.of_prog_at fun S a S' t hS h => afterWs_prog cfg f b hS h
      · intro term acc
        unfold parseList
        tr [parseSymbolBytes_t, ih'.1, ih'.2.1 _ _]
      · intro term acc
        unfold parseVector
        tr [ih'.1, ih'.2.2 _ _]
    intro f'
    cases f' with
    | zero =>
      exact ⟨TrK.right_fuel (main 0).1.frame rfl, fun t a => TrK.right_fuel ((main 0).2.1 t a).frame rfl,
        fun t a => TrK.right_fuel ((main 0).2.2 t a).frame rfl⟩
    | succ g => exact main g

/-- **End of input acts like a delimiter**, for `next_value`. -/
theorem nextValue_t {cfg : Cfg} {f f' : Nat} : TrK 0 (nextValue cfg f) (nextValue cfg f') :=
  (value_ts cfg f f').1

theorem parseList_t {cfg : Cfg} {f f' : Nat} {term : UInt8} {acc : List Value} :
    TrK 1 (parseList cfg f term acc) (parseList cfg f' term acc) := (value_ts cfg f f').2.1 term acc

theorem parseVector_t {cfg : Cfg} {f f' : Nat} {term : UInt8} {acc : List Value} :
    TrK 1 (parseVector cfg f term acc) (parseVector cfg f' term acc) :=
  (value_ts cfg f f').2.2 term acc

theorem afterWs_t {cfg : Cfg} {f f' : Nat} {pk : UInt8} :
    TrK 0 (afterWs cfg f pk) (afterWs cfg f' pk) :=
  afterWs_of nextValue_t (fun _ _ => parseList_t) (fun _ _ => parseVector_t) pk

/-! ### the statements in plain form -/

/-- **C11_trunc** (end of input acts like a delimiter).  A successful run of `next_value` over
    `a ++ r` that leaves exactly `r` unread (having at most peeked its first byte), repeated on a
    parser whose whole unread input is `a` — any line/column/`peeked` bookkeeping, the same kind of
    source, not failing, at least the same depth budget, any amount of fuel — returns the same
    value with nothing left unread, unless the fuel runs out. -/
theorem C11_trunc (cfg : Cfg) (f f' : Nat) (S S' s : St) (v : Option Value) (a r : List UInt8)
    (h : nextValue cfg f S = .ok v S') (hS : S.rd.rest = a ++ r) (hS' : S'.rd.rest = r)
    (hs : s.rd.rest = a) (hmode : S.rd.mode = s.rd.mode) (hfaulty : s.rd.faulty = false)
    (hdepth : S.depth ≤ s.depth) :
    nextValue cfg f' s = .fuel ∨
      ∃ s', nextValue cfg f' s = .ok v s' ∧ s'.rd.rest = [] ∧ s'.rd.mode = s.rd.mode ∧
        s'.rd.faulty = false ∧ S'.depth ≤ s'.depth := by
  have hrel : TRel r S s := ⟨by rw [hS, hs], hmode, hfaulty, hdepth⟩
  rcases (nextValue_t (cfg := cfg) (f := f) (f' := f') r S s v S' hrel h).2 (by rw [hS']; omega) with
    hfu | ⟨s', hs', hrel'⟩
  · exact Or.inl hfu
  · refine Or.inr ⟨s', hs', ?_, ?_, hrel'.2.2.1, hrel'.2.2.2⟩
    · have := hrel'.1
      rw [hS'] at this
      have hl := congrArg List.length this
      simp only [List.length_append] at hl
      exact List.eq_nil_of_length_eq_zero (by omega)
    · have hm1 := ((value_invs (I := fun t : St => t.rd.mode = s.rd.mode) cfg f').1 s rfl)
      rw [hs'] at hm1
      exact hm1

/-- `C11_trunc` with enough fuel (more than twice the length of the text, which is less than what
    the public entry points supply): the truncated run succeeds. -/
theorem C11_trunc_fuel (cfg : Cfg) (f f' : Nat) (S S' s : St) (v : Option Value) (a r : List UInt8)
    (h : nextValue cfg f S = .ok v S') (hS : S.rd.rest = a ++ r) (hS' : S'.rd.rest = r)
    (hs : s.rd.rest = a) (hmode : S.rd.mode = s.rd.mode) (hfaulty : s.rd.faulty = false)
    (hdepth : S.depth ≤ s.depth) (hf : 2 * a.length < f') :
    ∃ s', nextValue cfg f' s = .ok v s' ∧ s'.rd.rest = [] := by
  rcases C11_trunc cfg f f' S S' s v a r h hS hS' hs hmode hfaulty hdepth with hfu | ⟨s', h1, h2, _⟩
  · exact absurd hfu (((value_specs cfg f').1 s).no_fuel (by rw [hs]; omega))
  · exact ⟨s', h1, h2⟩

/-- **C11_depth_mono** (success is monotone in the depth budget) and **position independence**:
    a successful `next_value` succeeds with the same value, and the same unread input left, from
    any non-failing state with the same unread input and kind of source, whatever its
    line/column/`peeked` bookkeeping, provided its depth budget is at least as large (and unless
    its fuel runs out). -/
theorem C11_depth_mono (cfg : Cfg) (f f' : Nat) (S S' s : St) (v : Option Value)
    (h : nextValue cfg f S = .ok v S') (hrest : S.rd.rest = s.rd.rest)
    (hmode : S.rd.mode = s.rd.mode) (hfaulty : s.rd.faulty = false) (hdepth : S.depth ≤ s.depth) :
    nextValue cfg f' s = .fuel ∨
      ∃ s', nextValue cfg f' s = .ok v s' ∧ s'.rd.rest = S'.rd.rest := by
  have hrel : TRel [] S s := ⟨by rw [hrest]; simp, hmode, hfaulty, hdepth⟩
  rcases (nextValue_t (cfg := cfg) (f := f) (f' := f') [] S s v S' hrel h).2 (by simp) with
    hfu | ⟨s', hs', hrel'⟩
  · exact Or.inl hfu
  · exact Or.inr ⟨s', hs', by have := hrel'.1; simpa using this.symm⟩

/-- the depth budget is restored by a successful `next_value`, and the input does not grow -/
theorem nextValue_frame (cfg : Cfg) (f : Nat) : FrOk (nextValue cfg f) :=
  (nextValue_t (cfg := cfg) (f := f) (f' := f)).frame

end Reparse
end Parse
end Lexpr
